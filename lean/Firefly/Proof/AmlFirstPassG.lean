import Firefly.Proof.AmlPasses
/-!
The first pass (`parseObjectList` in `parseModeSkipAmbiguousBlocks`) into an ARBITRARY well-formed pool:
freed slots may exist and are reused by `newObject`, so "new" is "not live before" instead of "index ≥ pool
size", and the contract `obj ∉ subtree(arg)` of `append` is discharged from "objects that existed before keep
their parents" instead of index monotonicity.  Same statements as `Proof/AmlFirstPass.lean` otherwise (total
correctness: no `.panic`, no `.outOfFuel` with fuel ≥ 13·len + 13, `C13.WF` in the state returned).
-/
namespace Firefly.AmlParser.G
open Firefly.AmlLex Firefly.AmlTree Firefly.C13 Firefly.AmlParser
open Firefly.Gen.C12

/-- the tree invariant: well-formed, live root, table indices of live objects in range -/
structure TreeG (t : ObjectTree) : Prop where
  wf : WF t
  info : ∀ x, live t x = true → InfoOK (slot t x).infoIndex
  root : live t 0 = true

theorem treeG_setAt {t : ObjectTree} (h : TreeG t) (i : Nat) (f : Obj → Obj) (hf : KeepsLinks f)
    (hl : KeepsLive t i f) (hinfo : live t i = true → InfoOK (f (slot t i)).infoIndex) : TreeG (setAt t i f) := by
  have sl := sameLinks_setAt t i f hf hl
  refine ⟨wf_of_sameLinks h.wf sl, ?_, by rw [sl.live]; exact h.root⟩
  intro x hx
  have hx' : live t x = true := by rw [← sl.live]; exact hx
  rw [slot_setAt']
  split
  · rename_i hc; obtain ⟨rfl, _⟩ := hc; exact hinfo hx'
  · exact h.info x hx'

/-- what `newObject` stores in the slot it returns -/
theorem newObject_slot {t t' : ObjectTree} {op info th n : Nat} (e : t.newObject op info th = .ok (t', n)) :
    (slot t' n).opcode = op ∧ (slot t' n).infoIndex = info ∧ t.pool.size ≤ t'.pool.size ∧ t'.pool.size ≤ t.pool.size + 1 ∧
    (slot t' n).name = (slot t n).name ∧ (slot t' n).tableHandle = th := by
  unfold ObjectTree.newObject at e
  split at e
  · rename_i hh
    simp only [bind, Except.bind] at e
    cases ho : t.obj t.freeListHeadIndex with
    | error err => rw [ho] at e; cases e
    | ok o =>
      rw [ho] at e
      simp only at e
      have hlt : t.freeListHeadIndex < t.pool.size := by
        unfold ObjectTree.obj at ho
        by_cases hq : t.freeListHeadIndex < t.pool.size
        · exact hq
        · simp [hq] at ho
      have hlt' : t.freeListHeadIndex < ({ t with freeListHeadIndex := o.nextSiblingIndex } : ObjectTree).pool.size := hlt
      rw [upd_eq _ hlt'] at e
      simp only [pure, Except.pure, Except.ok.injEq, Prod.mk.injEq] at e
      obtain ⟨rfl, rfl⟩ := e
      rw [slot_setAt _ _ _ _ hlt']
      simp
      rfl
  · simp only [pure, Except.pure, Except.ok.injEq, Prod.mk.injEq] at e
    obtain ⟨rfl, rfl⟩ := e
    rw [slot_push]
    simp
    have : t.pool[t.pool.size]? = none := by simp
    unfold slot
    rw [this]
    rfl

theorem treeG_newObject {t : ObjectTree} (h : TreeG t) (opcode info th : Nat) (hsz : t.pool.size < INV)
    (hop : opcode ≠ pOpIntFreedObject) (hinfo : InfoOK info) :
    ∃ t' n, t.newObject opcode info th = .ok (t', n) ∧ TreeG t' ∧ Fresh t t' n ∧
      (slot t' n).opcode = opcode ∧ (slot t' n).infoIndex = info ∧
      t.pool.size ≤ t'.pool.size ∧ t'.pool.size ≤ t.pool.size + 1 := by
  obtain ⟨t', n, e, w', fr⟩ := newObject_wf h.wf opcode info th hsz hop
  obtain ⟨h1, h2, h3, h4, _, _⟩ := newObject_slot e
  refine ⟨t', n, e, ⟨w', ?_, ?_⟩, fr, h1, h2, h3, h4⟩
  · intro x hx
    by_cases hxn : x = n
    · subst hxn; rw [h2]; exact hinfo
    · rw [fr.same x hxn]; exact h.info x (by rw [← fr.livex x hxn]; exact hx)
  · by_cases h0 : (0 : Nat) = n
    · rw [h0]; exact fr.liven
    · rw [fr.livex 0 h0]; exact h.root

/-- objects that exist in `t0` keep their parents in `t`: an object that does not exist in `t0` is not an
ancestor of one that does -/
theorem not_anc_new {t0 t : ObjectTree} (w0 : WF t0) (hP : ∀ x, live t0 x = true → C13.P t x = C13.P t0 x) {arg : Nat}
    (ha : live t0 arg = false) : ∀ (f x : Nat), live t0 x = true → C13.isAncestorOrSelf t arg f x = false := by
  intro f
  induction f with
  | zero => intro x _; rfl
  | succ f ih =>
    intro x hx
    unfold C13.isAncestorOrSelf
    have hne : x ≠ arg := fun e => by rw [e, ha] at hx; cases hx
    rw [hP x hx]
    by_cases hp : C13.P t0 x = INV
    · simp [hne, hp]
    · have hpl : live t0 (C13.P t0 x) = true := by
        rcases (w0.lP hx).lp with h1 | h1
        · exact absurd h1 hp
        · exact h1
      simp [hne, ih _ hpl]

/-- `append(obj, arg)`: both live, `arg` detached and not an ancestor of `obj` -/
theorem treeG_append {t : ObjectTree} (h : TreeG t) {obj arg : Nat} (ho : live t obj = true) (ha : live t arg = true)
    (hp : C13.P t arg = INV) (hna : C13.isAncestorOrSelf t arg t.fuel obj = false) :
    ∃ t', t.append obj arg = .ok t' ∧ TreeG t' ∧ SamePay t t' ∧ (∀ x, live t' x = live t x) ∧
      (∀ x, C13.P t' x = if x = arg then obj else C13.P t x) ∧
      (∀ x, La t' x = if x = obj then arg else La t x) ∧
      (∀ x, Nx t' x = if x = arg then INV else if x = La t obj ∧ La t obj ≠ INV then arg else Nx t x) ∧
      (∀ x, Fi t' x = if x = obj ∧ La t obj = INV then arg else Fi t x) := by
  have hpre : appendPre t obj arg = true := by
    simp only [appendPre, Bool.and_eq_true, decide_eq_true_eq, Bool.not_eq_true']
    exact ⟨⟨⟨ho, ha⟩, hp⟩, hna⟩
  obtain ⟨t', e, w', hsz, hlive, _, hP, _, hNx, hFi, hLa⟩ := append_wf h.wf hpre
  have sp := append_samePay e
  refine ⟨t', e, ⟨w', ?_, by rw [hlive]; exact h.root⟩, sp, hlive, hP, hLa, hNx, hFi⟩
  intro x hx
  have hi : (slot t' x).infoIndex = (slot t x).infoIndex := congrArg (fun p => p.2.1) (sp.pay x)
  rw [hi]; exact h.info x (by rw [← hlive]; exact hx)

/-- `appendAfter(obj, arg, nextTo)` -/
theorem treeG_appendAfter {t : ObjectTree} (h : TreeG t) {obj arg nextTo : Nat} (ho : live t obj = true)
    (ha : live t arg = true) (hp : C13.P t arg = INV) (hna : C13.isAncestorOrSelf t arg t.fuel obj = false)
    (hn : live t nextTo = true) (hpn : C13.P t nextTo = obj) :
    ∃ t', t.appendAfter obj arg nextTo = .ok t' ∧ TreeG t' ∧ SamePay t t' ∧ (∀ x, live t' x = live t x) ∧
      (∀ x, C13.P t' x = if x = arg then obj else C13.P t x) ∧
      (∀ x, Nx t' x = if x = arg then Nx t nextTo else if x = nextTo then arg else Nx t x) ∧
      (∀ x, Fi t' x = Fi t x) := by
  have hpre : appendAfterPre t obj arg nextTo = true := by
    simp only [appendAfterPre, appendPre, Bool.and_eq_true, decide_eq_true_eq, Bool.not_eq_true']
    exact ⟨⟨⟨⟨⟨ho, ha⟩, hp⟩, hna⟩, hn⟩, hpn⟩
  obtain ⟨t', e, w', hsz, hlive, _, hP, _, hNx, hFi, _⟩ := appendAfter_wf h.wf hpre
  have sp := appendAfter_samePay e
  refine ⟨t', e, ⟨w', ?_, by rw [hlive]; exact h.root⟩, sp, hlive, hP, hNx, hFi⟩
  intro x hx
  have hi : (slot t' x).infoIndex = (slot t x).infoIndex := congrArg (fun p => p.2.1) (sp.pay x)
  rw [hi]; exact h.info x (by rw [← hlive]; exact hx)

/-! ## the state invariant and the run lemmas of the primitives -/

/-- invariant of the parser state while objects are parsed (either mode) -/
structure FP (d : Bytes) (s : PState) : Prop where
  inv : Inv d s.r
  tree : TreeG s.tree
  scopes : ∀ x ∈ s.scopeStack.toList, live s.tree x = true

theorem FP.withR {d : Bytes} {s : PState} (h : FP d s) {r' : Reader} (hr : Inv d r') : FP d { s with r := r' } :=
  ⟨hr, h.tree, h.scopes⟩

theorem FP.withTree {d : Bytes} {s : PState} (h : FP d s) {t' : ObjectTree} (ht : TreeG t')
    (hl : ∀ x, live s.tree x = true → live t' x = true) : FP d { s with tree := t' } :=
  ⟨h.inv, ht, fun x hx => hl x (h.scopes x hx)⟩

theorem lex_step {α : Type} {d : Bytes} {x : LexM α} {R : Reader → α → Reader → Prop} (hx : LexRel d x R)
    {s : PState} (h : FP d s) :
    ∃ a s1, lex x s = .ok (a, s1) ∧ FP d s1 ∧ R s.r a s1.r ∧ s1 = { s with r := s1.r } := by
  obtain ⟨a, r', e, hi, hR⟩ := lex_ex hx h.inv
  exact ⟨a, _, e, h.withR hi, hR, rfl⟩

theorem scopeCurrent_ex {d : Bytes} {s : PState} (h : FP d s) (hne : s.scopeStack.size ≠ 0) :
    ∃ sc, scopeCurrent s = .ok (some sc, s) ∧ live s.tree sc = true ∧ sc ∈ s.scopeStack.toList := by
  unfold scopeCurrent
  cases hb : s.scopeStack.back? with
  | none =>
    exfalso; apply hne
    simp only [Array.back?_eq_none_iff] at hb
    rw [hb]; rfl
  | some sc =>
    have hmem : sc ∈ s.scopeStack.toList := Array.mem_toList_iff.mpr (Array.mem_of_back? hb)
    have hl := h.scopes sc hmem
    refine ⟨sc, ?_, hl, hmem⟩
    simp only [objectAt_live hl]
    rfl

/-! ## growth relation -/

/-- what every first-pass function guarantees about the state it leaves (see `Proof/AmlFirstPass.lean`); "old"
objects are the ones live in `s` -/
structure Grow (c g : Nat) (s s' : PState) : Prop where
  off : s.r.offset ≤ s'.r.offset
  pool : s.tree.pool.size ≤ s'.tree.pool.size
  budget : s'.tree.pool.size + 16 * s.r.offset ≤ s.tree.pool.size + 16 * s'.r.offset + c
  oldP : ∀ x, live s.tree x = true → C13.P s'.tree x = C13.P s.tree x
  oldLive : ∀ x, live s.tree x = true → live s'.tree x = true
  sc : s.scopeStack.size ≤ s'.scopeStack.size
  pk : s.pkgEndStack.size ≤ s'.pkgEndStack.size
  scpk : s'.scopeStack.size + s.pkgEndStack.size ≤ s.scopeStack.size + s'.pkgEndStack.size + g
  pkoff : s'.pkgEndStack.size + s.r.offset ≤ s.pkgEndStack.size + s'.r.offset
  same : s'.allBlocks = s.allBlocks ∧ s'.tableHandle = s.tableHandle ∧ s'.streamEnd = s.streamEnd

theorem Grow.refl (s : PState) : Grow 0 0 s s :=
  ⟨Nat.le_refl _, Nat.le_refl _, by omega, fun _ _ => rfl, fun _ h => h, Nat.le_refl _, Nat.le_refl _, by omega, by omega,
   rfl, rfl, rfl⟩

theorem Grow.trans {c1 g1 c2 g2 : Nat} {a b c : PState} (h1 : Grow c1 g1 a b) (h2 : Grow c2 g2 b c) :
    Grow (c1 + c2) (g1 + g2) a c := by
  refine ⟨Nat.le_trans h1.off h2.off, Nat.le_trans h1.pool h2.pool, ?_, ?_, fun x hx => h2.oldLive x (h1.oldLive x hx),
    Nat.le_trans h1.sc h2.sc, Nat.le_trans h1.pk h2.pk, ?_, ?_, ?_⟩
  · have := h1.budget; have := h2.budget; omega
  · intro x hx; rw [h2.oldP x (h1.oldLive x hx), h1.oldP x hx]
  · have := h1.scpk; have := h2.scpk; omega
  · have := h1.pkoff; have := h2.pkoff; omega
  · exact ⟨by rw [h2.same.1, h1.same.1], by rw [h2.same.2.1, h1.same.2.1], by rw [h2.same.2.2, h1.same.2.2]⟩

theorem Grow.weaken {c g c' g' : Nat} {a b : PState} (h : Grow c g a b) (hc : c ≤ c') (hg : g ≤ g') : Grow c' g' a b :=
  ⟨h.off, h.pool, by have := h.budget; omega, h.oldP, h.oldLive, h.sc, h.pk, by have := h.scpk; omega, h.pkoff, h.same⟩

theorem Grow.ofR (s : PState) (r' : Reader) (h : s.r.offset ≤ r'.offset) : Grow 0 0 s { s with r := r' } :=
  ⟨h, Nat.le_refl _, by show s.tree.pool.size + 16 * s.r.offset ≤ s.tree.pool.size + 16 * r'.offset + 0; omega,
   fun _ _ => rfl, fun _ h => h, Nat.le_refl _, Nat.le_refl _, by dsimp only; omega,
   by show s.pkgEndStack.size + s.r.offset ≤ s.pkgEndStack.size + r'.offset; omega, rfl, rfl, rfl⟩

theorem Grow.ofLex {s s1 : PState} (hs1 : s1 = { s with r := s1.r }) (hle : s.r.offset ≤ s1.r.offset) : Grow 0 0 s s1 := by
  rw [hs1]; exact Grow.ofR s _ hle

/-- a payload-only step (the relation of `Proof/AmlFirstPass.lean`) as growth -/
theorem pay_grow {obj : Nat} {s s' : PState} (h : PayOnly obj s s') : Grow 0 0 s s' :=
  ⟨h.off, by rw [h.links.size]; exact Nat.le_refl _, by rw [h.links.size]; have := h.off; omega,
   fun x _ => h.links.p x, fun x hx => by rw [h.links.live]; exact hx, by rw [h.scope]; exact Nat.le_refl _,
   by rw [h.pkg]; exact Nat.le_refl _, by rw [h.scope, h.pkg]; omega, by rw [h.pkg]; have := h.off; omega, h.same⟩

/-- FP is preserved by a payload-only step that keeps the table index of `obj` valid -/
theorem FP.payOnly {d : Bytes} {obj : Nat} {s s' : PState} (h : FP d s) (hp : PayOnly obj s s') (hi : Inv d s'.r)
    (hinfo : live s.tree obj = true → InfoOK (slot s'.tree obj).infoIndex) : FP d s' := by
  refine ⟨hi, ⟨wf_of_sameLinks h.tree.wf hp.links, ?_, by rw [hp.links.live]; exact h.tree.root⟩, ?_⟩
  · intro x hx
    have hx' : live s.tree x = true := by rw [← hp.links.live]; exact hx
    by_cases hxo : x = obj
    · subst hxo; exact hinfo hx'
    · rw [hp.others x hxo]; exact h.tree.info x hx'
  · intro x hx; rw [hp.scope] at hx; rw [hp.links.live]; exact h.scopes x hx

theorem upd_step {d : Bytes} {s : PState} (h : FP d s) {obj : Nat} (ho : live s.tree obj = true) (f : Obj → Obj)
    (hf : KeepsLinks f) (hl : KeepsLive s.tree obj f) (hinfo : InfoOK (f (slot s.tree obj)).infoIndex)
    (hm : (f (slot s.tree obj)).opcode = (slot s.tree obj).opcode ∨
      (isK (slot s.tree obj).opcode = false ∧ isK (f (slot s.tree obj)).opcode = false) := by exact Or.inl rfl)
    (hn : isK (slot s.tree obj).opcode = true → (f (slot s.tree obj)).name = (slot s.tree obj).name ∧
      (f (slot s.tree obj)).tableHandle = (slot s.tree obj).tableHandle := by intro _; exact ⟨rfl, rfl⟩)
    (hv : isK (slot s.tree obj).opcode = true → (f (slot s.tree obj)).infoIndex = (slot s.tree obj).infoIndex := by intro _; rfl) :
    ∃ s1, updObj obj f s = .ok ((), s1) ∧ FP d s1 ∧ PayOnly obj s s1 ∧ slot s1.tree obj = f (slot s.tree obj) ∧
      s1.r = s.r := by
  have hlt := live_lt ho
  have sl := sameLinks_setAt s.tree obj f hf hl
  refine ⟨_, updObj_ex f hlt, ?_, PayOnly.ofSetAt obj s f hf hl hm hn hv, ?_, rfl⟩
  · exact ⟨h.inv, treeG_setAt h.tree obj f hf hl (fun _ => hinfo),
      fun x hx => by show live (setAt s.tree obj f) x = true; rw [sl.live]; exact h.scopes x hx⟩
  · show slot (setAt s.tree obj f) obj = _
    rw [slot_setAt']; simp [hlt]

/-! ## fresh objects -/

/-- one object `n` was created (in a freed slot or at the end of the pool), detached and childless; everything
else is as before, the reader moved forward with the same `pkgEnd` -/
structure Fresh1 (n : Nat) (s s' : PState) : Prop where
  nlive : live s.tree n = false
  liven : live s'.tree n = true
  size : s.tree.pool.size ≤ s'.tree.pool.size ∧ s'.tree.pool.size ≤ s.tree.pool.size + 1
  old : ∀ x, x ≠ n → slot s'.tree x = slot s.tree x
  livex : ∀ x, x ≠ n → live s'.tree x = live s.tree x
  pn : C13.P s'.tree n = INV
  fin : Fi s'.tree n = INV
  scope : s'.scopeStack = s.scopeStack
  pkg : s'.pkgEndStack = s.pkgEndStack
  same : s'.allBlocks = s.allBlocks ∧ s'.tableHandle = s.tableHandle ∧ s'.streamEnd = s.streamEnd
  pkgEnd : s'.r.pkgEnd = s.r.pkgEnd
  off : s.r.offset ≤ s'.r.offset

theorem Fresh1.ne {n : Nat} {s s' : PState} (h : Fresh1 n s s') {x : Nat} (hx : live s.tree x = true) : x ≠ n :=
  fun e => by rw [e, h.nlive] at hx; cases hx

theorem Fresh1.grow {n : Nat} {s s' : PState} (h : Fresh1 n s s') : Grow 1 0 s s' :=
  ⟨h.off, h.size.1, by have := h.size.2; have := h.off; omega,
   fun x hx => by unfold C13.P; rw [h.old x (h.ne hx)], fun x hx => by rw [h.livex x (h.ne hx)]; exact hx,
   by rw [h.scope]; exact Nat.le_refl _, by rw [h.pkg]; exact Nat.le_refl _,
   by rw [h.scope, h.pkg]; omega, by rw [h.pkg]; have := h.off; omega, h.same⟩

/-- a fresh object followed by payload-only steps on it -/
theorem Fresh1.thenPay {n : Nat} {s s1 s2 : PState} (h : Fresh1 n s s1) (hp : PayOnly n s1 s2) : Fresh1 n s s2 := by
  refine ⟨h.nlive, by rw [hp.links.live]; exact h.liven, by rw [hp.links.size]; exact h.size, ?_, ?_,
    by rw [hp.links.p]; exact h.pn, by rw [hp.links.fi]; exact h.fin,
    by rw [hp.scope, h.scope], by rw [hp.pkg, h.pkg],
    ⟨by rw [hp.same.1, h.same.1], by rw [hp.same.2.1, h.same.2.1], by rw [hp.same.2.2, h.same.2.2]⟩,
    by rw [hp.pkgEnd, h.pkgEnd], Nat.le_trans h.off hp.off⟩
  · intro x hx; rw [hp.others x hx, h.old x hx]
  · intro x hx; rw [hp.links.live, h.livex x hx]

/-- a reader-only step before the fresh object is created -/
theorem Fresh1.afterLex {n : Nat} {s s0 s1 : PState} (hs0 : s0 = { s with r := s0.r }) (hp : s0.r.pkgEnd = s.r.pkgEnd)
    (ho : s.r.offset ≤ s0.r.offset) (h : Fresh1 n s0 s1) : Fresh1 n s s1 := by
  have ht : s0.tree = s.tree := by rw [hs0]
  have hsc : s0.scopeStack = s.scopeStack := by rw [hs0]
  have hpk : s0.pkgEndStack = s.pkgEndStack := by rw [hs0]
  have hab : s0.allBlocks = s.allBlocks ∧ s0.tableHandle = s.tableHandle ∧ s0.streamEnd = s.streamEnd := by
    rw [hs0]; exact ⟨rfl, rfl, rfl⟩
  exact ⟨by rw [← ht]; exact h.nlive, h.liven, by rw [← ht]; exact h.size, fun x hx => by rw [h.old x hx, ht],
    fun x hx => by rw [h.livex x hx, ht], h.pn, h.fin, by rw [h.scope, hsc], by rw [h.pkg, hpk],
    ⟨by rw [h.same.1, hab.1], by rw [h.same.2.1, hab.2.1], by rw [h.same.2.2, hab.2.2]⟩, by rw [h.pkgEnd, hp],
    Nat.le_trans ho h.off⟩

/-- `newObject` as a step -/
theorem newObject_step {d : Bytes} {s : PState} (h : FP d s) (op : Nat) (hsz : s.tree.pool.size < INV)
    (hop : op ≠ pOpIntFreedObject) (hinfo : InfoOK (pOpcodeTableIndex op true)) :
    ∃ n s1, newObject op s = .ok (n, s1) ∧ FP d s1 ∧ Fresh1 n s s1 ∧ s1.r = s.r ∧
      (slot s1.tree n).opcode = op ∧ (slot s1.tree n).infoIndex = pOpcodeTableIndex op true ∧ (slot s1.tree n).index = n := by
  obtain ⟨t', n, e, ht, fr, hop', hinfo', hs1, hs2⟩ :=
    treeG_newObject h.tree op (pOpcodeTableIndex op true) s.tableHandle hsz hop hinfo
  have e' : newObject op s = .ok (n, { s with tree := t' }) := by
    unfold newObject
    simp only [e, bind, Except.bind, pure, Except.pure]
  have hlx : ∀ x, live s.tree x = true → live t' x = true := by
    intro x hx
    have hne : x ≠ n := fun e => by rw [e, fr.nlive] at hx; cases hx
    rw [fr.livex x hne]; exact hx
  refine ⟨n, _, e', h.withTree ht hlx, ?_, rfl, hop', hinfo', ht.wf.index_eq n (live_lt fr.liven)⟩
  exact ⟨fr.nlive, fr.liven, ⟨hs1, hs2⟩, fr.same, fr.livex, fr.pn, fr.fin, rfl, rfl, ⟨rfl, rfl, rfl⟩, rfl, Nat.le_refl _⟩

/-- the name (whatever the slot held: a reused slot keeps it) and the table handle of a new object -/
theorem newObject_name {s s1 : PState} {op n : Nat} (e : newObject op s = .ok (n, s1)) :
    (slot s1.tree n).name = (slot s.tree n).name ∧ (slot s1.tree n).tableHandle = s.tableHandle := by
  unfold newObject at e
  cases ht : s.tree.newObject op (pOpcodeTableIndex op true) s.tableHandle with
  | error err => simp only [ht, bind, Except.bind] at e; cases e
  | ok r =>
    obtain ⟨t', i⟩ := r
    simp only [ht, bind, Except.bind, pure, Except.pure, Except.ok.injEq, Prod.mk.injEq] at e
    obtain ⟨rfl, rfl⟩ := e
    obtain ⟨_, _, _, _, h5, h6⟩ := newObject_slot ht
    exact ⟨h5, h6⟩

/-- `append(obj, arg)` as a step: `obj` existed in `s0`, `arg` did not, and the objects of `s0` kept their parents -/
theorem append_step {d : Bytes} {s0 s : PState} (h : FP d s) (w0 : WF s0.tree)
    (hold : ∀ x, live s0.tree x = true → live s.tree x = true ∧ C13.P s.tree x = C13.P s0.tree x)
    {obj arg : Nat} (ho : live s0.tree obj = true) (ha0 : live s0.tree arg = false) (ha : live s.tree arg = true)
    (hp : C13.P s.tree arg = INV) :
    ∃ s1, tree (·.append obj arg) s = .ok ((), s1) ∧ FP d s1 ∧ s1 = { s with tree := s1.tree } ∧
      s1.tree.pool.size = s.tree.pool.size ∧ SamePay s.tree s1.tree ∧ (∀ x, live s1.tree x = live s.tree x) ∧
      (∀ x, C13.P s1.tree x = if x = arg then obj else C13.P s.tree x) ∧ La s1.tree obj = arg ∧
      (∀ x, Nx s1.tree x = if x = arg then INV else if x = La s.tree obj ∧ La s.tree obj ≠ INV then arg else Nx s.tree x) ∧
      (∀ x, Fi s1.tree x = if x = obj ∧ La s.tree obj = INV then arg else Fi s.tree x) := by
  have hna := not_anc_new w0 (fun x hx => (hold x hx).2) ha0 s.tree.fuel obj ho
  obtain ⟨t', e, ht', sp, hlive, hP, hLa, hNx, hFi⟩ := treeG_append h.tree (hold obj ho).1 ha hp hna
  refine ⟨_, tree_ex e, h.withTree ht' (fun x hx => by rw [hlive]; exact hx), rfl, sp.size, sp, hlive, hP, ?_, hNx, hFi⟩
  show La t' obj = arg
  rw [hLa]; simp

/-- the hypothesis `hold` of `append_step` from growth -/
theorem Grow.hold {c g : Nat} {s0 s : PState} (gr : Grow c g s0 s) :
    ∀ x, live s0.tree x = true → live s.tree x = true ∧ C13.P s.tree x = C13.P s0.tree x :=
  fun x hx => ⟨gr.oldLive x hx, gr.oldP x hx⟩

/-- growth up to `s1`, then an append of an object that did not exist in the base state -/
theorem Grow.thenAppend {c g : Nat} {s s1 s2 : PState} (gr : Grow c g s s1) {obj arg : Nat}
    (hs2 : s2 = { s1 with tree := s2.tree }) (hsz : s2.tree.pool.size = s1.tree.pool.size)
    (hl : ∀ x, live s2.tree x = live s1.tree x)
    (hP : ∀ x, C13.P s2.tree x = if x = arg then obj else C13.P s1.tree x) (hnew : live s.tree arg = false) :
    Grow c g s s2 := by
  have hr : s2.r = s1.r := by rw [hs2]
  have hsc : s2.scopeStack = s1.scopeStack := by rw [hs2]
  have hpk : s2.pkgEndStack = s1.pkgEndStack := by rw [hs2]
  refine ⟨by rw [hr]; exact gr.off, by rw [hsz]; exact gr.pool, by rw [hsz, hr]; exact gr.budget, ?_,
    fun x hx => by rw [hl]; exact gr.oldLive x hx,
    by rw [hsc]; exact gr.sc, by rw [hpk]; exact gr.pk, by rw [hsc, hpk]; exact gr.scpk, by rw [hpk, hr]; exact gr.pkoff,
    by rw [hs2]; exact gr.same⟩
  intro x hx
  have hne : x ≠ arg := fun e => by rw [e, hnew] at hx; cases hx
  rw [hP, if_neg hne]
  exact gr.oldP x hx

/-! ## payload-only functions -/

/-- `obj.value, res = parseNumConstant(n)` -/
theorem setNumValue_tot {d : Bytes} {s : PState} (h : FP d s) {obj : Nat} (ho : live s.tree obj = true) (n : Nat) :
    ∃ res s', setNumValue d obj n s = .ok (res, s') ∧ FP d s' ∧ PayOnly obj s s' ∧
      (∃ v, slot s'.tree obj = { slot s.tree obj with value := .u64 v }) ∧
      ((res = .ok ∧ s'.r.offset = s.r.offset + n) ∨ res = .failed) := by
  unfold setNumValue
  obtain ⟨vr, s1, e1, h1, hR, hs1⟩ := lex_step (rel_parseNumConstant d n) h
  refine bind_ex e1 ?_
  have ht1 : s1.tree = s.tree := by rw [hs1]
  have ho1 : live s1.tree obj = true := by rw [ht1]; exact ho
  obtain ⟨s2, e2, h2, hp2, hsl, hr2⟩ := upd_step h1 ho1 (fun o => { o with value := .u64 vr.1 }) (by keeps_links) Iff.rfl
    (by rw [ht1]; exact h.tree.info obj ho)
  refine bind_ex e2 (pure_ex ⟨h2, (PayOnly.ofLex obj hs1 hR.1 hR.2.1).trans hp2, ⟨vr.1, by rw [hsl, ht1]⟩, ?_⟩)
  rw [hr2]
  rcases hR.2.2.2 with ⟨hok, he⟩ | hf
  · exact Or.inl ⟨hok, he⟩
  · exact Or.inr hf

theorem setStringValue_tot {d : Bytes} {s : PState} (h : FP d s) {obj : Nat} (ho : live s.tree obj = true) :
    ∃ res s', setStringValue d obj s = .ok (res, s') ∧ FP d s' ∧ PayOnly obj s s' ∧ Prog s s' res ∧
      (∃ v, slot s'.tree obj = { slot s.tree obj with value := v }) := by
  unfold setStringValue
  obtain ⟨sr, s1, e1, h1, hR, hs1⟩ := lex_step (rel_parseString d) h
  refine bind_ex e1 ?_
  have ht1 : s1.tree = s.tree := by rw [hs1]
  have ho1 : live s1.tree obj = true := by rw [ht1]; exact ho
  obtain ⟨s2, e2, h2, hp2, hsl2, hr2⟩ := upd_step h1 ho1 (fun o => { o with value := sliceVal sr.1 }) (by keeps_links) Iff.rfl
    (by rw [ht1]; exact h.tree.info obj ho)
  refine bind_ex e2 (pure_ex ⟨h2, (PayOnly.ofLex obj hs1 hR.1 hR.2.1).trans hp2, ?_, ⟨_, by rw [hsl2, ht1]⟩⟩)
  unfold Prog; rw [hr2]; exact hR.2.2.2

theorem setNameValue_tot {d : Bytes} (hd : d.size + 1024 ≤ 4294967296) {s : PState} (h : FP d s) {obj : Nat}
    (ho : live s.tree obj = true) :
    ∃ res s', setNameValue d obj s = .ok (res, s') ∧ FP d s' ∧ PayOnly obj s s' ∧ Prog s s' res ∧
      (∃ v, slot s'.tree obj = { slot s.tree obj with value := v }) := by
  unfold setNameValue
  obtain ⟨sr, s1, e1, h1, hR, hs1⟩ := lex_step (rel_parseNameString d hd) h
  refine bind_ex e1 ?_
  have ht1 : s1.tree = s.tree := by rw [hs1]
  have ho1 : live s1.tree obj = true := by rw [ht1]; exact ho
  obtain ⟨s2, e2, h2, hp2, hsl2, hr2⟩ := upd_step h1 ho1 (fun o => { o with value := sliceVal sr.1 }) (by keeps_links) Iff.rfl
    (by rw [ht1]; exact h.tree.info obj ho)
  refine bind_ex e2 (pure_ex ⟨h2, (PayOnly.ofLex obj hs1 hR.1 hR.2.1).trans hp2, ?_, ⟨_, by rw [hsl2, ht1]⟩⟩)
  unfold Prog; rw [hr2]; exact hR.2.2.2

theorem setOpcode_tot {d : Bytes} {s : PState} (h : FP d s) {obj : Nat} (ho : live s.tree obj = true) (op : Nat)
    (hop : op ≠ pOpIntFreedObject) (hnm : isK op = false) (hcur : isK (slot s.tree obj).opcode = false) :
    ∃ a s', setOpcode obj op s = .ok (a, s') ∧ FP d s' ∧ PayOnly obj s s' ∧ s'.r = s.r ∧
      slot s'.tree obj = { slot s.tree obj with opcode := op } := by
  unfold setOpcode
  have hl : KeepsLive s.tree obj (fun o => { o with opcode := op }) := by
    unfold KeepsLive
    constructor
    · intro hc; exact absurd hc hop
    · intro hc; exact absurd hc (live_opcode ho)
  obtain ⟨s1, e1, h1, hp1, hsl, hr1⟩ := upd_step h ho (fun o => { o with opcode := op }) (by keeps_links) hl (h.tree.info obj ho)
    (Or.inr ⟨hcur, hnm⟩) (fun hq => by simp [hcur] at hq)
  exact ⟨(), s1, e1, h1, hp1, hr1, hsl⟩

theorem finishSimpleArg_tot {d : Bytes} {s : PState} (h : FP d s) {obj : Nat} (ho : live s.tree obj = true) (res : PRes)
    (hinfo : InfoOK (pOpcodeTableIndex (slot s.tree obj).opcode true)) (hcur : isK (slot s.tree obj).opcode = false) :
    ∃ a s', finishSimpleArg obj res s = .ok (a, s') ∧ a = (some obj, res) ∧ FP d s' ∧ PayOnly obj s s' ∧ s'.r = s.r ∧
      (slot s'.tree obj).value = (slot s.tree obj).value := by
  unfold finishSimpleArg
  refine bind_ex (getObj_live ho) ?_
  obtain ⟨s1, e1, h1, hp1, hsl, hr1⟩ := upd_step h ho
    (fun o' => { o' with infoIndex := pOpcodeTableIndex (slot s.tree obj).opcode true }) (by keeps_links) Iff.rfl hinfo
    (Or.inl rfl) (fun _ => ⟨rfl, rfl⟩) (fun hq => by rw [hcur] at hq; cases hq)
  refine bind_ex e1 (pure_ex ⟨rfl, h1, hp1, hr1, by rw [hsl]⟩)

theorem simpleNum_tot {d : Bytes} {s : PState} (h : FP d s) {obj : Nat} (ho : live s.tree obj = true) (op n : Nat)
    (hop : op ≠ pOpIntFreedObject) (hinfo : InfoOK (pOpcodeTableIndex op true)) (hnm : isK op = false)
    (hcur : isK (slot s.tree obj).opcode = false) :
    ∃ a s', simpleNum d obj op n s = .ok (a, s') ∧ a.1 = some obj ∧ FP d s' ∧ PayOnly obj s s' ∧
      (∃ v, (slot s'.tree obj).value = .u64 v) ∧ ((a.2 = .ok ∧ s'.r.offset = s.r.offset + n) ∨ a.2 = .failed) := by
  unfold simpleNum
  obtain ⟨_, s1, e1, h1, hp1, hr1, hsl1⟩ := setOpcode_tot h ho op hop hnm hcur
  refine bind_ex e1 ?_
  have ho1 : live s1.tree obj = true := by rw [hp1.links.live]; exact ho
  obtain ⟨res, s2, e2, h2, hp2, ⟨v, hv⟩, hres⟩ := setNumValue_tot h1 ho1 n
  refine bind_ex e2 ?_
  have ho2 : live s2.tree obj = true := by rw [hp2.links.live]; exact ho1
  obtain ⟨a, s3, e3, ha, h3, hp3, hr3, hv3⟩ := finishSimpleArg_tot h2 ho2 res (by rw [hv, hsl1]; exact hinfo) (by rw [hv, hsl1]; exact hnm)
  refine ⟨a, s3, e3, by rw [ha], h3, (hp1.trans hp2).trans hp3, ⟨v, by rw [hv3, hv]⟩, ?_⟩
  rw [ha, hr3, ← hr1]; exact hres

theorem simpleString_tot {d : Bytes} {s : PState} (h : FP d s) {obj : Nat} (ho : live s.tree obj = true)
    (hcur : isK (slot s.tree obj).opcode = false) :
    ∃ a s', simpleString d obj s = .ok (a, s') ∧ a.1 = some obj ∧ FP d s' ∧ PayOnly obj s s' ∧ Prog s s' a.2 := by
  unfold simpleString
  obtain ⟨_, s1, e1, h1, hp1, hr1, hsl1⟩ := setOpcode_tot h ho opStringPrefix (by decide) (by decide) hcur
  refine bind_ex e1 ?_
  have ho1 : live s1.tree obj = true := by rw [hp1.links.live]; exact ho
  obtain ⟨res, s2, e2, h2, hp2, hres, ⟨v, hv⟩⟩ := setStringValue_tot h1 ho1
  refine bind_ex e2 ?_
  have ho2 : live s2.tree obj = true := by rw [hp2.links.live]; exact ho1
  obtain ⟨a, s3, e3, ha, h3, hp3, hr3, _⟩ := finishSimpleArg_tot h2 ho2 res (by rw [hv, hsl1]; exact info_const.2.2.2.2.2.1) (by rw [hv, hsl1]; exact (show isK opStringPrefix = false by decide))
  refine ⟨a, s3, e3, by rw [ha], h3, (hp1.trans hp2).trans hp3, ?_⟩
  unfold Prog at hres ⊢
  rw [ha, hr3, ← hr1]; exact hres

theorem simpleName_tot {d : Bytes} (hd : d.size + 1024 ≤ 4294967296) {s : PState} (h : FP d s) {obj : Nat}
    (ho : live s.tree obj = true) (hcur : isK (slot s.tree obj).opcode = false) :
    ∃ a s', simpleName d obj s = .ok (a, s') ∧ a.1 = some obj ∧ FP d s' ∧ PayOnly obj s s' ∧ Prog s s' a.2 := by
  unfold simpleName
  obtain ⟨_, s1, e1, h1, hp1, hr1, hsl1⟩ := setOpcode_tot h ho opIntNamePath (by decide) (by decide) hcur
  refine bind_ex e1 ?_
  have ho1 : live s1.tree obj = true := by rw [hp1.links.live]; exact ho
  obtain ⟨res, s2, e2, h2, hp2, hres, ⟨v, hv⟩⟩ := setNameValue_tot hd h1 ho1
  refine bind_ex e2 ?_
  have ho2 : live s2.tree obj = true := by rw [hp2.links.live]; exact ho1
  obtain ⟨a, s3, e3, ha, h3, hp3, hr3, _⟩ := finishSimpleArg_tot h2 ho2 res (by rw [hv, hsl1]; exact info_const.2.2.2.2.2.2.1) (by rw [hv, hsl1]; exact (show isK opIntNamePath = false by decide))
  refine ⟨a, s3, e3, by rw [ha], h3, (hp1.trans hp2).trans hp3, ?_⟩
  unfold Prog at hres ⊢
  rw [ha, hr3, ← hr1]; exact hres

/-- `parseSimpleArg(argType)`: one fresh detached object, its value set -/
theorem parseSimpleArg_tot {d : Bytes} (hd : d.size + 1024 ≤ 4294967296) {s : PState} (h : FP d s)
    (hsz : s.tree.pool.size < INV) (argType : Nat) :
    ∃ a s' n, parseSimpleArg d argType s = .ok (a, s') ∧ FP d s' ∧ Fresh1 n s s' ∧ isK (slot s'.tree n).opcode = false ∧
      ((a.1 = some n ∧ Prog s s' a.2 ∧ (IsNum argType → ∃ v, (slot s'.tree n).value = .u64 v)) ∨ a = (none, .failed)) := by
  unfold parseSimpleArg
  obtain ⟨n, s1, e1, h1, f1, hr1, hop1, _⟩ := newObject_step h 0 hsz (by decide) info_const.1
  have main : ∃ a s', (do
      let off ← lex offset
      updObj n fun o => { o with amlOffset := off }
      if argType = argTypeByteData then simpleNum d n opBytePrefix 1
      else if argType = argTypeWordData then simpleNum d n opWordPrefix 2
      else if argType = argTypeDwordData then simpleNum d n opDwordPrefix 4
      else if argType = argTypeQwordData then simpleNum d n opQwordPrefix 8
      else if argType = argTypeString then simpleString d n
      else if argType = argTypeNameString then simpleName d n
      else pure (none, PRes.failed) : P (Option Nat × PRes)) s1 = .ok (a, s') ∧ FP d s' ∧ Fresh1 n s s' ∧
      isK (slot s'.tree n).opcode = false ∧
      ((a.1 = some n ∧ Prog s s' a.2 ∧ (IsNum argType → ∃ v, (slot s'.tree n).value = .u64 v)) ∨ a = (none, .failed)) := by
    obtain ⟨off, s2, e2, h2, hR2, hs2⟩ := lex_step (rel_offset d) h1
    refine bind_ex e2 ?_
    have hr2 : s2.r = s1.r := hR2.2
    have ht2 : s2.tree = s1.tree := by rw [hs2]
    have hobj : live s2.tree n = true := by rw [ht2]; exact f1.liven
    obtain ⟨s3, e3, h3, hp3, _, hr3⟩ := upd_step h2 hobj (fun o => { o with amlOffset := off }) (by keeps_links) Iff.rfl
      (h2.tree.info _ hobj)
    refine bind_ex e3 ?_
    have hobj3 : live s3.tree n = true := by rw [hp3.links.live]; exact hobj
    have hnm3 : isK (slot s3.tree n).opcode = false := by
      apply hp3.notK
      rw [ht2, hop1]; decide
    have f3 : Fresh1 n s s3 :=
      Fresh1.thenPay f1 ((PayOnly.ofLex _ hs2 (by rw [hr2]) (by rw [hr2]; exact Nat.le_refl _)).trans hp3)
    have num : ∀ op k, 1 ≤ k → op ≠ pOpIntFreedObject → isK op = false → InfoOK (pOpcodeTableIndex op true) → IsNum argType →
        ∃ a s', simpleNum d n op k s3 = .ok (a, s') ∧ FP d s' ∧ Fresh1 n s s' ∧ isK (slot s'.tree n).opcode = false ∧
        ((a.1 = some n ∧ Prog s s' a.2 ∧ (IsNum argType → ∃ v, (slot s'.tree n).value = .u64 v)) ∨ a = (none, .failed)) := by
      intro op k hk hop hnm hinfo _
      obtain ⟨a, s4, e4, ha, h4, hp4, hv, hres⟩ := simpleNum_tot h3 hobj3 op k hop hinfo hnm hnm3
      refine ⟨a, s4, e4, h4, f3.thenPay hp4, hp4.notK hnm3, Or.inl ⟨ha, ?_, fun _ => hv⟩⟩
      have := prog_of_num hk hres
      unfold Prog at this ⊢
      have h03 : s.r.offset ≤ s3.r.offset := f3.off
      rcases this with ⟨ho, hl⟩ | hf
      · exact Or.inl ⟨ho, by omega⟩
      · exact Or.inr hf
    split
    · rename_i hc; exact num _ 1 (by omega) (by decide) (by decide) info_const.2.1 (Or.inl hc)
    · split
      · rename_i hc; exact num _ 2 (by omega) (by decide) (by decide) info_const.2.2.1 (Or.inr (Or.inl hc))
      · split
        · rename_i hc; exact num _ 4 (by omega) (by decide) (by decide) info_const.2.2.2.1 (Or.inr (Or.inr (Or.inl hc)))
        · split
          · rename_i hc; exact num _ 8 (by omega) (by decide) (by decide) info_const.2.2.2.2.1 (Or.inr (Or.inr (Or.inr hc)))
          · rename_i n1 n2 n3 n4
            have notNum : ¬ IsNum argType := by
              intro hn; rcases hn with h | h | h | h <;> contradiction
            split
            · obtain ⟨a, s4, e4, ha, h4, hp4, hres⟩ := simpleString_tot h3 hobj3 hnm3
              refine ⟨a, s4, e4, h4, f3.thenPay hp4, hp4.notK hnm3, Or.inl ⟨ha, ?_, fun hn => absurd hn notNum⟩⟩
              unfold Prog at hres ⊢
              have h03 : s.r.offset ≤ s3.r.offset := f3.off
              rcases hres with ⟨ho, hl⟩ | hf
              · exact Or.inl ⟨ho, by omega⟩
              · exact Or.inr hf
            · split
              · obtain ⟨a, s4, e4, ha, h4, hp4, hres⟩ := simpleName_tot hd h3 hobj3 hnm3
                refine ⟨a, s4, e4, h4, f3.thenPay hp4, hp4.notK hnm3, Or.inl ⟨ha, ?_, fun hn => absurd hn notNum⟩⟩
                unfold Prog at hres ⊢
                have h03 : s.r.offset ≤ s3.r.offset := f3.off
                rcases hres with ⟨ho, hl⟩ | hf
                · exact Or.inl ⟨ho, by omega⟩
                · exact Or.inr hf
              · exact pure_ex ⟨h3, f3, hnm3, Or.inr rfl⟩
  obtain ⟨a, s', e, h', f', hnm', hres⟩ := main
  exact ⟨a, s', n, bind_ex' e1 e, h', f', hnm', hres⟩

/-! ## field lists -/

theorem setNameByte_tot {d : Bytes} {s : PState} (h : FP d s) {field : Nat} (hf : live s.tree field = true) (i : Nat) (b : UInt8)
    (hcur : isK (slot s.tree field).opcode = false) :
    ∃ a s', setNameByte field i b s = .ok (a, s') ∧ FP d s' ∧ PayOnly field s s' ∧ s'.r = s.r := by
  unfold setNameByte
  obtain ⟨s1, e1, h1, hp1, _, hr1⟩ := upd_step h hf
    (fun o => { o with name := Name.ofList ((o.name.toList.take i) ++ [b] ++ (o.name.toList.drop (i+1))) })
    (by keeps_links) Iff.rfl (h.tree.info field hf) (Or.inl rfl) (fun hq => by simp [hcur] at hq)
  exact ⟨(), s1, e1, h1, hp1, hr1⟩

theorem readFieldName_tot {d : Bytes} {field : Nat} (n : Nat) : ∀ (i : Nat) {s : PState}, FP d s → live s.tree field = true →
    isK (slot s.tree field).opcode = false →
    ∃ b s', readFieldName d field n i s = .ok (b, s') ∧ FP d s' ∧ PayOnly field s s' ∧
      (b = true → s'.r.offset = s.r.offset + n) := by
  induction n with
  | zero =>
    intro i s h hf _
    unfold readFieldName
    exact pure_ex ⟨h, PayOnly.refl _ _, fun _ => rfl⟩
  | succ n ih =>
    intro i s h hf hcur
    unfold readFieldName
    obtain ⟨ob, s1, e1, h1, hR, hs1⟩ := lex_step (rel_readByte d) h
    refine bind_ex e1 ?_
    have ht1 : s1.tree = s.tree := by rw [hs1]
    have hf1 : live s1.tree field = true := by rw [ht1]; exact hf
    have hcur1 : isK (slot s1.tree field).opcode = false := by rw [ht1]; exact hcur
    rcases hR with ⟨hn, hr, _⟩ | ⟨b, hb, hr, hlt⟩
    · subst hn
      obtain ⟨_, s2, e2, h2, hp2, hr2⟩ := setNameByte_tot h1 hf1 i 0 hcur1
      refine bind_ex e2 (pure_ex ⟨h2, ?_, fun hc => by cases hc⟩)
      exact (PayOnly.ofLex field hs1 (by rw [hr]) (by rw [hr]; exact Nat.le_refl _)).trans hp2
    · subst hb
      obtain ⟨_, s2, e2, h2, hp2, hr2⟩ := setNameByte_tot h1 hf1 i b hcur1
      refine bind_ex e2 ?_
      have hf2 : live s2.tree field = true := by rw [hp2.links.live]; exact hf1
      obtain ⟨b', s3, e3, h3, hp3, hoff⟩ := ih (i + 1) h2 hf2 (hp2.notK hcur1)
      refine ⟨b', s3, e3, h3, ?_, ?_⟩
      · exact ((PayOnly.ofLex field hs1 (by rw [hr]) (by rw [hr]; show s.r.offset ≤ s.r.offset + 1; omega)).trans hp2).trans hp3
      · intro hb'
        rw [hoff hb', hr2, hr]
        show s.r.offset + 1 + n = s.r.offset + (n + 1)
        omega


/-- the frame of the opcodes that carry an invariant (`isK`: `Method`, `Scope`): an object that existed keeps its
opcode or moves between opcodes outside of `isK`, and a `Method` / `Scope` keeps its name -/
structure KFr (s s' : PState) : Prop where
  opK : ∀ x, live s.tree x = true → (slot s'.tree x).opcode = (slot s.tree x).opcode ∨
    (isK (slot s.tree x).opcode = false ∧ isK (slot s'.tree x).opcode = false)
  nameKK : ∀ x, live s.tree x = true → isK (slot s.tree x).opcode = true → (slot s'.tree x).name = (slot s.tree x).name ∧
    (slot s'.tree x).tableHandle = (slot s.tree x).tableHandle
  deadK : ∀ x, live s'.tree x = false → (slot s'.tree x).name = (slot s.tree x).name
  /-- an object with an opcode of `isK` keeps its table row -/
  infoKK : ∀ x, live s.tree x = true → isK (slot s.tree x).opcode = true → (slot s'.tree x).infoIndex = (slot s.tree x).infoIndex

theorem KFr.isKeq {s s' : PState} (h : KFr s s') {x : Nat} (hx : live s.tree x = true) :
    isK (slot s'.tree x).opcode = isK (slot s.tree x).opcode := by
  rcases h.opK x hx with e | ⟨e1, e2⟩
  · rw [e]
  · rw [e1, e2]

theorem KFr.mK {s s' : PState} (h : KFr s s') (x : Nat) (hx : live s.tree x = true) :
    (slot s'.tree x).opcode = opMethod ↔ (slot s.tree x).opcode = opMethod := by
  rcases h.opK x hx with e | ⟨e1, e2⟩
  · rw [e]
  · constructor
    · intro hq; rw [hq, isK_method] at e2; cases e2
    · intro hq; rw [hq, isK_method] at e1; cases e1

theorem KFr.sK {s s' : PState} (h : KFr s s') (x : Nat) (hx : live s.tree x = true) :
    (slot s'.tree x).opcode = opScope ↔ (slot s.tree x).opcode = opScope := by
  rcases h.opK x hx with e | ⟨e1, e2⟩
  · rw [e]
  · constructor
    · intro hq; rw [hq, isK_scope] at e2; cases e2
    · intro hq; rw [hq, isK_scope] at e1; cases e1

theorem KFr.nameK {s s' : PState} (h : KFr s s') (x : Nat) (hx : live s.tree x = true) (ho : (slot s.tree x).opcode = opMethod) :
    (slot s'.tree x).name = (slot s.tree x).name := (h.nameKK x hx (by rw [ho]; exact isK_method)).1

theorem KFr.nameS {s s' : PState} (h : KFr s s') (x : Nat) (hx : live s.tree x = true) (ho : (slot s.tree x).opcode = opScope) :
    (slot s'.tree x).name = (slot s.tree x).name := (h.nameKK x hx (by rw [ho]; exact isK_scope)).1

theorem KFr.bK {s s' : PState} (h : KFr s s') (x : Nat) (hx : live s.tree x = true) :
    (slot s'.tree x).opcode = opIntScopeBlock ↔ (slot s.tree x).opcode = opIntScopeBlock := by
  rcases h.opK x hx with e | ⟨e1, e2⟩
  · rw [e]
  · constructor
    · intro hq; rw [hq, isK_block] at e2; cases e2
    · intro hq; rw [hq, isK_block] at e1; cases e1

theorem KFr.refl (s : PState) : KFr s s := ⟨fun _ _ => Or.inl rfl, fun _ _ _ => ⟨rfl, rfl⟩, fun _ _ => rfl, fun _ _ _ => rfl⟩

theorem KFr.trans {a b c : PState} (h1 : KFr a b) (h2 : KFr b c) (hl : ∀ x, live a.tree x = true → live b.tree x = true)
    (hl2 : ∀ x, live b.tree x = true → live c.tree x = true) : KFr a c := by
  refine ⟨?_, ?_, ?_, ?_⟩
  · intro x hx
    rcases h1.opK x hx with e1 | ⟨a1, b1⟩
    · rcases h2.opK x (hl x hx) with e2 | ⟨a2, b2⟩
      · exact Or.inl (by rw [e2, e1])
      · exact Or.inr ⟨by rw [← e1]; exact a2, b2⟩
    · refine Or.inr ⟨a1, ?_⟩
      rw [h2.isKeq (hl x hx)]; exact b1
  · intro x hx ho
    have a := h1.nameKK x hx ho
    have b := h2.nameKK x (hl x hx) (by rw [h1.isKeq hx]; exact ho)
    exact ⟨by rw [b.1, a.1], by rw [b.2, a.2]⟩
  · intro x hx
    have hb : live b.tree x = false := by
      cases hq : live b.tree x with
      | false => rfl
      | true => rw [hl2 x hq] at hx; cases hx
    rw [h2.deadK x hx, h1.deadK x hb]
  · intro x hx ho
    rw [h2.infoKK x (hl x hx) (by rw [h1.isKeq hx]; exact ho), h1.infoKK x hx ho]

theorem KFr.ofTree {s s' : PState} (ht : s'.tree = s.tree) : KFr s s' :=
  ⟨fun _ _ => by rw [ht]; exact Or.inl rfl, fun _ _ _ => by rw [ht]; exact ⟨rfl, rfl⟩, fun _ _ => by rw [ht],
   fun _ _ _ => by rw [ht]⟩

theorem KFr.ofPay {obj : Nat} {s s' : PState} (h : PayOnly obj s s') (ho : live s.tree obj = true) : KFr s s' := by
  refine ⟨?_, ?_, ?_, ?_⟩
  · intro x _
    by_cases hx : x = obj
    · rw [hx]; exact h.opc
    · rw [h.others x hx]; exact Or.inl rfl
  · intro x _ ho
    by_cases hx : x = obj
    · rw [hx] at ho ⊢; exact h.nmk ho
    · rw [h.others x hx]; exact ⟨rfl, rfl⟩
  · intro x hx
    have hne : x ≠ obj := fun e => by rw [e, h.links.live, ho] at hx; cases hx
    rw [h.others x hne]
  · intro x _ ho
    by_cases hx : x = obj
    · rw [hx] at ho ⊢; exact h.vik ho
    · rw [h.others x hx]

theorem KFr.ofSamePay {s s' : PState} (sp : SamePay s.tree s'.tree) : KFr s s' :=
  ⟨fun x _ => Or.inl (congrArg (fun p => p.1) (sp.pay x)),
   fun x _ _ => ⟨congrArg (fun p => p.2.2.2.1) (sp.pay x), congrArg (fun p => p.2.2.1) (sp.pay x)⟩,
   fun x _ => congrArg (fun p => p.2.2.2.1) (sp.pay x), fun x _ _ => congrArg (fun p => p.2.1) (sp.pay x)⟩

theorem KFr.ofFresh {n : Nat} {s s' : PState} (h : Fresh1 n s s') : KFr s s' :=
  ⟨fun x hx => by rw [h.old x (h.ne hx)]; exact Or.inl rfl, fun x hx _ => by rw [h.old x (h.ne hx)]; exact ⟨rfl, rfl⟩,
   fun x hx => by
     have hne : x ≠ n := fun e => by rw [e, h.liven] at hx; cases hx
     rw [h.old x hne], fun x hx _ => by rw [h.old x (h.ne hx)]⟩

/-- steps that leave both stacks alone: the reader goes back at most `b` bytes, at most `m` objects are created,
parents of existing objects are untouched.  `T` = the parents whose argument lists the step may change: outside of
them the first-argument links, the sibling links and the payloads of attached objects are as before; no object
becomes or stops being a `Method` / `Scope` and no new object is one. -/
structure GrowE (T : Nat → Prop) (b m : Nat) (s s' : PState) : Prop where
  offb : s.r.offset ≤ s'.r.offset + b
  pool : s.tree.pool.size ≤ s'.tree.pool.size
  poolUp : s'.tree.pool.size ≤ s.tree.pool.size + m
  oldP : ∀ x, live s.tree x = true → C13.P s'.tree x = C13.P s.tree x
  oldLive : ∀ x, live s.tree x = true → live s'.tree x = true
  scope : s'.scopeStack = s.scopeStack
  pkg : s'.pkgEndStack = s.pkgEndStack
  same : s'.allBlocks = s.allBlocks ∧ s'.tableHandle = s.tableHandle ∧ s'.streamEnd = s.streamEnd
  fiK : ∀ x, live s.tree x = true → ¬ T x → Fi s'.tree x = Fi s.tree x
  kidK : ∀ x, live s.tree x = true → C13.P s.tree x ≠ INV → ¬ T (C13.P s.tree x) →
    Nx s'.tree x = Nx s.tree x ∧ Pay (slot s'.tree x) = Pay (slot s.tree x)
  payK : ∀ x, live s.tree x = true → ¬ T x → (C13.P s.tree x ≠ INV ∨ x = 0) → Pay (slot s'.tree x) = Pay (slot s.tree x)
  kfr : KFr s s'
  newK : ∀ y, live s.tree y = false → live s'.tree y = true → isK (slot s'.tree y).opcode = false

variable {T : Nat → Prop}

theorem GrowE.mK {b m : Nat} {s s' : PState} (h : GrowE T b m s s') (x : Nat) (hx : live s.tree x = true) :
    (slot s'.tree x).opcode = opMethod ↔ (slot s.tree x).opcode = opMethod := h.kfr.mK x hx
theorem GrowE.nameK {b m : Nat} {s s' : PState} (h : GrowE T b m s s') (x : Nat) (hx : live s.tree x = true)
    (ho : (slot s.tree x).opcode = opMethod) : (slot s'.tree x).name = (slot s.tree x).name := h.kfr.nameK x hx ho
theorem GrowE.newOp {b m : Nat} {s s' : PState} (h : GrowE T b m s s') (y : Nat) (h1 : live s.tree y = false)
    (h2 : live s'.tree y = true) : (slot s'.tree y).opcode ≠ opMethod := by
  intro hq
  have := h.newK y h1 h2
  rw [hq, isK_method] at this; cases this

theorem GrowE.refl (s : PState) : GrowE T 0 0 s s :=
  ⟨by omega, Nat.le_refl _, by omega, fun _ _ => rfl, fun _ h => h, rfl, rfl, ⟨rfl, rfl, rfl⟩,
   fun _ _ _ => rfl, fun _ _ _ _ => ⟨rfl, rfl⟩, fun _ _ _ _ => rfl, KFr.refl s, fun y h1 h2 => (by rw [h1] at h2; cases h2)⟩

theorem GrowE.trans {b1 m1 b2 m2 : Nat} {a b c : PState} (h1 : GrowE T b1 m1 a b) (h2 : GrowE T b2 m2 b c) :
    GrowE T (b1 + b2) (m1 + m2) a c := by
  refine ⟨by have := h1.offb; have := h2.offb; omega, Nat.le_trans h1.pool h2.pool, by have := h1.poolUp; have := h2.poolUp; omega,
   fun x hx => by rw [h2.oldP x (h1.oldLive x hx), h1.oldP x hx], fun x hx => h2.oldLive x (h1.oldLive x hx),
   by rw [h2.scope, h1.scope],
   by rw [h2.pkg, h1.pkg], ⟨by rw [h2.same.1, h1.same.1], by rw [h2.same.2.1, h1.same.2.1], by rw [h2.same.2.2, h1.same.2.2]⟩,
   ?_, ?_, ?_, h1.kfr.trans h2.kfr h1.oldLive h2.oldLive, ?_⟩
  · intro x hx ht
    rw [h2.fiK x (h1.oldLive x hx) ht, h1.fiK x hx ht]
  · intro x hx hp ht
    obtain ⟨n1, p1⟩ := h1.kidK x hx hp ht
    obtain ⟨n2, p2⟩ := h2.kidK x (h1.oldLive x hx) (by rw [h1.oldP x hx]; exact hp) (by rw [h1.oldP x hx]; exact ht)
    exact ⟨by rw [n2, n1], by rw [p2, p1]⟩
  · intro x hx ht hp
    rw [h2.payK x (h1.oldLive x hx) ht (by rw [h1.oldP x hx]; exact hp), h1.payK x hx ht hp]
  · intro y hy hy'
    cases hb : live b.tree y with
    | true => rw [h2.kfr.isKeq hb]; exact h1.newK y hy hb
    | false => exact h2.newK y hb hy'

theorem GrowE.weaken {b m b' m' : Nat} {a c : PState} (h : GrowE T b m a c) (hb : b ≤ b') (hm : m ≤ m') : GrowE T b' m' a c :=
  ⟨by have := h.offb; omega, h.pool, by have := h.poolUp; omega, h.oldP, h.oldLive, h.scope, h.pkg, h.same,
   h.fiK, h.kidK, h.payK, h.kfr, h.newK⟩

/-- the same growth with a re-proved offset bound -/
theorem GrowE.reoff {b m b' m' : Nat} {a c : PState} (h : GrowE T b m a c) (hb : a.r.offset ≤ c.r.offset + b') (hm : m ≤ m') :
    GrowE T b' m' a c :=
  ⟨hb, h.pool, by have := h.poolUp; omega, h.oldP, h.oldLive, h.scope, h.pkg, h.same, h.fiK, h.kidK, h.payK, h.kfr, h.newK⟩

/-- the same growth seen from a final state that differs from `c` in the reader only -/
theorem GrowE.thenLex {b m b' : Nat} {a c c' : PState} (h : GrowE T b m a c) (hc : c' = { c with r := c'.r })
    (hb : a.r.offset ≤ c'.r.offset + b') : GrowE T b' m a c' := by
  have ht : c'.tree = c.tree := by rw [hc]
  refine ⟨hb, by rw [ht]; exact h.pool, by rw [ht]; exact h.poolUp, fun x hx => by rw [ht]; exact h.oldP x hx,
    fun x hx => by rw [ht]; exact h.oldLive x hx, by rw [hc]; exact h.scope, by rw [hc]; exact h.pkg, by rw [hc]; exact h.same,
    fun x hx hT => by rw [ht]; exact h.fiK x hx hT, fun x hx hp hT => by rw [ht]; exact h.kidK x hx hp hT,
    fun x hx hT hp => by rw [ht]; exact h.payK x hx hT hp,
    ⟨fun x hx => by rw [ht]; exact h.kfr.opK x hx, fun x hx ho => by rw [ht]; exact h.kfr.nameKK x hx ho,
     fun x hx => by rw [ht] at hx ⊢; exact h.kfr.deadK x hx, fun x hx ho => by rw [ht]; exact h.kfr.infoKK x hx ho⟩,
    fun y h1 h2 => by rw [ht] at h2 ⊢; exact h.newK y h1 h2⟩

/-- a payload-only step on a detached object other than the root -/
theorem pay_growE {obj : Nat} {s s' : PState} (h : PayOnly obj s s') (hp : C13.P s.tree obj = INV) (h0 : obj ≠ 0)
    (ho : live s.tree obj = true) : GrowE T 0 0 s s' := by
  refine ⟨by have := h.off; omega, by rw [h.links.size]; exact Nat.le_refl _, by rw [h.links.size]; omega,
   fun x _ => h.links.p x, fun x hx => by rw [h.links.live]; exact hx, h.scope, h.pkg, h.same,
   fun x _ _ => h.links.fi x, ?_, ?_, KFr.ofPay h ho, ?_⟩
  · intro x _ hpx _
    have hne : x ≠ obj := fun e => hpx (by rw [e]; exact hp)
    exact ⟨h.links.nx x, by rw [h.others x hne]⟩
  · intro x _ _ hpx
    have hne : x ≠ obj := by
      intro e
      rcases hpx with h1 | h1
      · exact h1 (by rw [e]; exact hp)
      · exact h0 (e ▸ h1)
    rw [h.others x hne]
  · intro y h1 h2
    rw [h.links.live, h1] at h2; cases h2

/-- a fresh object that is neither a `Method` nor a `Scope` -/
theorem Fresh1.growE {n : Nat} {s s' : PState} (h : Fresh1 n s s') (hnm : isK (slot s'.tree n).opcode = false) :
    GrowE T 0 1 s s' := by
  refine ⟨by have := h.off; omega, h.size.1, h.size.2,
   fun x hx => by unfold C13.P; rw [h.old x (h.ne hx)], fun x hx => by rw [h.livex x (h.ne hx)]; exact hx,
   h.scope, h.pkg, h.same, fun x hx _ => by unfold Fi; rw [h.old x (h.ne hx)],
   fun x hx _ _ => ⟨by unfold Nx; rw [h.old x (h.ne hx)], by rw [h.old x (h.ne hx)]⟩,
   fun x hx _ _ => by rw [h.old x (h.ne hx)], KFr.ofFresh h, ?_⟩
  intro y h1 h2
  by_cases hy : y = n
  · rw [hy]; exact hnm
  · rw [h.livex y hy, h1] at h2; cases h2

/-- a reader-only step -/
theorem GrowE.ofLex {s s1 : PState} (b : Nat) (hs1 : s1 = { s with r := s1.r }) (ho : s.r.offset ≤ s1.r.offset + b) :
    GrowE T b 0 s s1 :=
  (GrowE.refl s).thenLex hs1 ho

/-- turn equal-stack growth without backward movement into `Grow` -/
theorem GrowE.grow {m : Nat} {s s' : PState} (h : GrowE T 0 m s s') : Grow m 0 s s' :=
  ⟨by have := h.offb; omega, h.pool, by have := h.poolUp; have := h.offb; omega, h.oldP, h.oldLive,
   by rw [h.scope]; exact Nat.le_refl _, by rw [h.pkg]; exact Nat.le_refl _, by rw [h.scope, h.pkg]; omega,
   by rw [h.pkg]; have := h.offb; omega, h.same⟩

theorem GrowE.hold {b m : Nat} {s0 s : PState} (gr : GrowE T b m s0 s) :
    ∀ x, live s0.tree x = true → live s.tree x = true ∧ C13.P s.tree x = C13.P s0.tree x :=
  fun x hx => ⟨gr.oldLive x hx, gr.oldP x hx⟩

/-- growth up to `s1`, then an append, under a parent in `T`, of an object that did not exist in the base state -/
theorem GrowE.thenAppend {b m : Nat} {s s1 s2 : PState} (g : GrowE T b m s s1) {obj arg : Nat}
    (hs2 : s2 = { s1 with tree := s2.tree }) (hsz : s2.tree.pool.size = s1.tree.pool.size)
    (hl : ∀ x, live s2.tree x = live s1.tree x)
    (hP : ∀ x, C13.P s2.tree x = if x = arg then obj else C13.P s1.tree x) (hnew : live s.tree arg = false)
    (hT : T obj ∨ (WF s.tree ∧ live s.tree obj = false)) (w1 : WF s1.tree) (ho1 : live s1.tree obj = true) (sp : SamePay s1.tree s2.tree)
    (hNx : ∀ x, Nx s2.tree x = if x = arg then INV else if x = La s1.tree obj ∧ La s1.tree obj ≠ INV then arg else Nx s1.tree x)
    (hFi : ∀ x, Fi s2.tree x = if x = obj ∧ La s1.tree obj = INV then arg else Fi s1.tree x) :
    GrowE T b m s s2 := by
  have hr : s2.r = s1.r := by rw [hs2]
  have hne : ∀ x, live s.tree x = true → x ≠ arg := fun x hx e => by rw [e, hnew] at hx; cases hx
  refine ⟨by rw [hr]; exact g.offb, by rw [hsz]; exact g.pool, by rw [hsz]; exact g.poolUp, ?_,
    fun x hx => by rw [hl]; exact g.oldLive x hx, by rw [hs2]; exact g.scope,
    by rw [hs2]; exact g.pkg, by rw [hs2]; exact g.same, ?_, ?_, ?_, ?_, ?_⟩
  · intro x hx
    rw [hP, if_neg (hne x hx)]
    exact g.oldP x hx
  · intro x hx hTx
    have hxo : x ≠ obj := by
      intro e
      rcases hT with hT | ⟨_, hno⟩
      · exact hTx (by rw [e]; exact hT)
      · rw [e, hno] at hx; cases hx
    rw [hFi, if_neg (fun hc => hxo hc.1)]
    exact g.fiK x hx hTx
  · intro x hx hp hTx
    have hpay : Pay (slot s2.tree x) = Pay (slot s1.tree x) := sp.pay x
    rw [hNx, if_neg (hne x hx)]
    split
    · rename_i hc
      exfalso
      have hla := ((w1.lP ho1).la hc.2).1
      rw [← hc.1, g.oldP x hx] at hla
      rcases hT with hT | ⟨w, hno⟩
      · exact hTx (by rw [hla]; exact hT)
      · rcases (w.lP hx).lp with h0 | h0
        · exact hp h0
        · rw [hla, hno] at h0; cases h0
    · obtain ⟨n1, p1⟩ := g.kidK x hx hp hTx
      exact ⟨n1, by rw [hpay, p1]⟩
  · intro x hx hTx hpx
    rw [sp.pay x]; exact g.payK x hx hTx hpx
  · exact g.kfr.trans (KFr.ofSamePay sp) g.oldLive (fun x hx => by rw [hl]; exact hx)
  · intro y h1 h2
    have ho : (slot s2.tree y).opcode = (slot s1.tree y).opcode := congrArg (fun p => p.1) (sp.pay y)
    rw [ho]
    exact g.newK y h1 (by rw [← hl]; exact h2)

/-- the frame part of `GrowE` on its own -/
structure FrmS (T : Nat → Prop) (s s' : PState) : Prop where
  oldP : ∀ x, live s.tree x = true → C13.P s'.tree x = C13.P s.tree x
  oldLive : ∀ x, live s.tree x = true → live s'.tree x = true
  fiK : ∀ x, live s.tree x = true → ¬ T x → Fi s'.tree x = Fi s.tree x
  kidK : ∀ x, live s.tree x = true → C13.P s.tree x ≠ INV → ¬ T (C13.P s.tree x) →
    Nx s'.tree x = Nx s.tree x ∧ Pay (slot s'.tree x) = Pay (slot s.tree x)
  payK : ∀ x, live s.tree x = true → ¬ T x → (C13.P s.tree x ≠ INV ∨ x = 0) → Pay (slot s'.tree x) = Pay (slot s.tree x)
  kfr : KFr s s'
  newK : ∀ y, live s.tree y = false → live s'.tree y = true → isK (slot s'.tree y).opcode = false

theorem FrmS.mK {s s' : PState} (h : FrmS T s s') (x : Nat) (hx : live s.tree x = true) :
    (slot s'.tree x).opcode = opMethod ↔ (slot s.tree x).opcode = opMethod := h.kfr.mK x hx
theorem FrmS.nameK {s s' : PState} (h : FrmS T s s') (x : Nat) (hx : live s.tree x = true)
    (ho : (slot s.tree x).opcode = opMethod) : (slot s'.tree x).name = (slot s.tree x).name := h.kfr.nameK x hx ho
theorem FrmS.newOp {s s' : PState} (h : FrmS T s s') (y : Nat) (h1 : live s.tree y = false)
    (h2 : live s'.tree y = true) : (slot s'.tree y).opcode ≠ opMethod := by
  intro hq
  have := h.newK y h1 h2
  rw [hq, isK_method] at this; cases this

theorem GrowE.frmS {b m : Nat} {s s' : PState} (g : GrowE T b m s s') : FrmS T s s' :=
  ⟨g.oldP, g.oldLive, g.fiK, g.kidK, g.payK, g.kfr, g.newK⟩

theorem FrmS.refl (s : PState) : FrmS T s s := (GrowE.refl (T := T) s).frmS

theorem FrmS.trans {a b c : PState} (h1 : FrmS T a b) (h2 : FrmS T b c) : FrmS T a c := by
  refine ⟨fun x hx => by rw [h2.oldP x (h1.oldLive x hx), h1.oldP x hx], fun x hx => h2.oldLive x (h1.oldLive x hx), ?_, ?_, ?_,
    h1.kfr.trans h2.kfr h1.oldLive h2.oldLive, ?_⟩
  · intro x hx ht
    rw [h2.fiK x (h1.oldLive x hx) ht, h1.fiK x hx ht]
  · intro x hx hp ht
    obtain ⟨n1, p1⟩ := h1.kidK x hx hp ht
    obtain ⟨n2, p2⟩ := h2.kidK x (h1.oldLive x hx) (by rw [h1.oldP x hx]; exact hp) (by rw [h1.oldP x hx]; exact ht)
    exact ⟨by rw [n2, n1], by rw [p2, p1]⟩
  · intro x hx ht hp
    rw [h2.payK x (h1.oldLive x hx) ht (by rw [h1.oldP x hx]; exact hp), h1.payK x hx ht hp]
  · intro y hy hy'
    cases hb : live b.tree y with
    | true => rw [h2.kfr.isKeq hb]; exact h1.newK y hy hb
    | false => exact h2.newK y hb hy'

/-- growth up to `s1`, then an `appendAfter`, under a parent in `T`, of an object that did not exist in the base state -/
theorem GrowE.thenAppendAfter {b m : Nat} {s s1 s2 : PState} (g : GrowE T b m s s1) {obj arg nextTo : Nat}
    (hs2 : s2 = { s1 with tree := s2.tree }) (hsz : s2.tree.pool.size = s1.tree.pool.size)
    (hl : ∀ x, live s2.tree x = live s1.tree x)
    (hP : ∀ x, C13.P s2.tree x = if x = arg then obj else C13.P s1.tree x) (hnew : live s.tree arg = false)
    (hT : T obj) (hpn : C13.P s1.tree nextTo = obj) (sp : SamePay s1.tree s2.tree)
    (hNx : ∀ x, Nx s2.tree x = if x = arg then Nx s1.tree nextTo else if x = nextTo then arg else Nx s1.tree x)
    (hFi : ∀ x, Fi s2.tree x = Fi s1.tree x) :
    GrowE T b m s s2 := by
  have hr : s2.r = s1.r := by rw [hs2]
  have hne : ∀ x, live s.tree x = true → x ≠ arg := fun x hx e => by rw [e, hnew] at hx; cases hx
  refine ⟨by rw [hr]; exact g.offb, by rw [hsz]; exact g.pool, by rw [hsz]; exact g.poolUp, ?_,
    fun x hx => by rw [hl]; exact g.oldLive x hx, by rw [hs2]; exact g.scope,
    by rw [hs2]; exact g.pkg, by rw [hs2]; exact g.same, ?_, ?_, ?_, ?_, ?_⟩
  · intro x hx
    rw [hP, if_neg (hne x hx)]
    exact g.oldP x hx
  · intro x hx hTx
    rw [hFi]
    exact g.fiK x hx hTx
  · intro x hx hp hTx
    have hpay : Pay (slot s2.tree x) = Pay (slot s1.tree x) := sp.pay x
    rw [hNx, if_neg (hne x hx)]
    split
    · rename_i hc
      exfalso
      subst hc
      exact hTx (by rw [← g.oldP x hx, hpn]; exact hT)
    · obtain ⟨n1, p1⟩ := g.kidK x hx hp hTx
      exact ⟨n1, by rw [hpay, p1]⟩
  · intro x hx hTx hpx
    rw [sp.pay x]; exact g.payK x hx hTx hpx
  · exact g.kfr.trans (KFr.ofSamePay sp) g.oldLive (fun x hx => by rw [hl]; exact hx)
  · intro y h1 h2
    have ho : (slot s2.tree y).opcode = (slot s1.tree y).opcode := congrArg (fun p => p.1) (sp.pay y)
    rw [ho]
    exact g.newK y h1 (by rw [← hl]; exact h2)

/-- what the field-list loop needs to know about its object and its insertion point -/
def FieldInv (s : PState) (curObj : Nat) (st : FieldSt) : Prop :=
  live s.tree curObj = true ∧ live s.tree st.appendAfter = true ∧ C13.P s.tree curObj ≠ INV ∧
  C13.P s.tree st.appendAfter = C13.P s.tree curObj

theorem FieldInv.mono {s s' : PState} {curObj : Nat} {st : FieldSt} {b m : Nat} (h : FieldInv s curObj st)
    (g : GrowE T b m s s') : FieldInv s' curObj st :=
  ⟨g.oldLive _ h.1, g.oldLive _ h.2.1, by rw [g.oldP _ h.1]; exact h.2.2.1,
   by rw [g.oldP _ h.2.1, g.oldP _ h.1]; exact h.2.2.2⟩

/-- `case 0x00: // ReservedField` -/
theorem fieldReserved_tot {d : Bytes} {s : PState} (h : FP d s) (st : FieldSt) :
    ∃ a s', fieldReserved d st s = .ok (a, s') ∧ FP d s' ∧ GrowE T 0 0 s s' ∧
      (∀ st', a = .inr st' → st'.appendAfter = st.appendAfter ∧ s.r.offset < s'.r.offset) := by
  unfold fieldReserved
  obtain ⟨pr, s1, e1, h1, hR, hs1⟩ := lex_step (rel_parsePkgLength d) h
  refine bind_ex e1 ?_
  rcases hR with ⟨hf, hr⟩ | ⟨hok, hp, hlt, _, _⟩
  · rw [if_pos hf]
    exact pure_ex ⟨h1, GrowE.ofLex 0 hs1 (by rw [hr]; omega), fun st' hc => by cases hc⟩
  · rw [if_neg (by rw [hok]; decide)]
    refine pure_ex ⟨h1, GrowE.ofLex 0 hs1 (by omega), ?_⟩
    intro st' hc
    cases hc
    exact ⟨rfl, hlt⟩

/-- one `parseNumConstant(1)` step of the access-field cases -/
theorem num1_step {d : Bytes} {s : PState} (h : FP d s) :
    ∃ v s1, lex (parseNumConstant d 1) s = .ok (v, s1) ∧ FP d s1 ∧ s1 = { s with r := s1.r } ∧
      s.r.offset ≤ s1.r.offset ∧ ((v.2 = .ok ∧ s1.r.offset = s.r.offset + 1) ∨ v.2 = .failed) := by
  obtain ⟨v, s1, e1, h1, hR, hs1⟩ := lex_step (rel_parseNumConstant d 1) h
  exact ⟨v, s1, e1, h1, hs1, hR.2.1, hR.2.2.2⟩

theorem fieldAccess_tot {d : Bytes} {s : PState} (h : FP d s) (st : FieldSt) :
    ∃ a s', fieldAccess d st s = .ok (a, s') ∧ FP d s' ∧ GrowE T 0 0 s s' ∧
      (∀ st', a = .inr st' → st'.appendAfter = st.appendAfter ∧ s.r.offset < s'.r.offset) := by
  unfold fieldAccess
  obtain ⟨v1, s1, e1, h1, hs1, hle1, hres1⟩ := num1_step h
  refine bind_ex e1 ?_
  have g1 := GrowE.ofLex (T := T) 0 hs1 (by omega)
  rcases hres1 with ⟨hok1, hoff1⟩ | hf1
  · rw [if_neg (by rw [hok1]; decide)]
    obtain ⟨v2, s2, e2, h2, hs2, hle2, hres2⟩ := num1_step h1
    refine bind_ex e2 ?_
    have g2 := g1.trans (GrowE.ofLex 0 hs2 (by omega))
    rcases hres2 with ⟨hok2, hoff2⟩ | hf2
    · rw [if_neg (by rw [hok2]; decide)]
      refine pure_ex ⟨h2, g2, ?_⟩
      intro st' hc; cases hc
      exact ⟨rfl, by omega⟩
    · rw [if_pos hf2]
      exact pure_ex ⟨h2, g2, fun st' hc => by cases hc⟩
  · rw [if_pos hf1]
    exact pure_ex ⟨h1, g1, fun st' hc => by cases hc⟩

theorem fieldExtAccess_tot {d : Bytes} {s : PState} (h : FP d s) (st : FieldSt) :
    ∃ a s', fieldExtAccess d st s = .ok (a, s') ∧ FP d s' ∧ GrowE T 0 0 s s' ∧
      (∀ st', a = .inr st' → st'.appendAfter = st.appendAfter ∧ s.r.offset < s'.r.offset) := by
  unfold fieldExtAccess
  obtain ⟨v1, s1, e1, h1, hs1, hle1, hres1⟩ := num1_step h
  refine bind_ex e1 ?_
  have g1 := GrowE.ofLex (T := T) 0 hs1 (by omega)
  rcases hres1 with ⟨hok1, hoff1⟩ | hf1
  · rw [if_neg (by rw [hok1]; decide)]
    obtain ⟨v2, s2, e2, h2, hs2, hle2, hres2⟩ := num1_step h1
    refine bind_ex e2 ?_
    have g2 := g1.trans (GrowE.ofLex 0 hs2 (by omega))
    rcases hres2 with ⟨hok2, hoff2⟩ | hf2
    · rw [if_neg (by rw [hok2]; decide)]
      obtain ⟨v3, s3, e3, h3, hs3, hle3, hres3⟩ := num1_step h2
      refine bind_ex e3 ?_
      have g3 := g2.trans (GrowE.ofLex 0 hs3 (by omega))
      rcases hres3 with ⟨hok3, hoff3⟩ | hf3
      · rw [if_neg (by rw [hok3]; decide)]
        refine pure_ex ⟨h3, g3, ?_⟩
        intro st' hc; cases hc
        exact ⟨rfl, by omega⟩
      · rw [if_pos hf3]
        exact pure_ex ⟨h3, g3, fun st' hc => by cases hc⟩
    · rw [if_pos hf2]
      exact pure_ex ⟨h2, g2, fun st' hc => by cases hc⟩
  · rw [if_pos hf1]
    exact pure_ex ⟨h1, g1, fun st' hc => by cases hc⟩

/-- `default:` a named field -/
theorem fieldNamed_tot {d : Bytes} {s : PState} (h : FP d s) (curObj : Nat) (st : FieldSt) (hfi : FieldInv s curObj st)
    (hsz : s.tree.pool.size < INV) (hT : T (C13.P s.tree curObj)) :
    ∃ a s', fieldNamed d curObj st s = .ok (a, s') ∧ FP d s' ∧ GrowE T 1 1 s s' ∧
      (∀ st', a = .inr st' → FieldInv s' curObj st' ∧ s.r.offset + 3 < s'.r.offset) := by
  unfold fieldNamed
  obtain ⟨_, s1, e1, h1, hR1, hs1⟩ := lex_step (rel_unreadByte d) h
  refine bind_ex e1 ?_
  have g1 : GrowE T 1 0 s s1 := GrowE.ofLex (T := T) 1 hs1 (by have := hR1.2; omega)
  have ht1 : s1.tree = s.tree := by rw [hs1]
  have hsz1 : s1.tree.pool.size < INV := by rw [ht1]; exact hsz
  obtain ⟨n, s2, e2, h2, f2, hr2, hop2, _⟩ := newObject_step h1 opIntNamedField hsz1 (by decide) info_const.2.2.2.2.2.2.2.2.2.2.1
  have main : ∃ a s', (do
      let off ← lex offset
      updObj n fun o => { o with amlOffset := off }
      if !(← readFieldName d n Gen.C12.amlNameLen 0) then pure (.inl .failed) else do
      let pr ← lex (parsePkgLength d)
      if pr.2 ≠ .ok then pure (.inl pr.2) else do
      let co ← getObj curObj
      updObj n fun o => { o with value := Val.field st.nextFieldOffset pr.1 st.accessLength st.accessType st.accessAttrib st.lockType st.updateType st.connectionIndex co.index }
      let parent ← derefP (← objectAt co.parentIndex)
      tree (·.appendAfter parent n st.appendAfter)
      pure (.inr { st with appendAfter := n, nextFieldOffset := u32 (st.nextFieldOffset + pr.1) }) : P FieldStep) s2 = .ok (a, s') ∧
      FP d s' ∧ GrowE T 1 1 s s' ∧ (∀ st', a = .inr st' → FieldInv s' curObj st' ∧ s.r.offset + 3 < s'.r.offset) := by
    obtain ⟨off, s3, e3, h3, hR3, hs3⟩ := lex_step (rel_offset d) h2
    refine bind_ex e3 ?_
    have hr3 : s3.r = s2.r := hR3.2
    have ht3 : s3.tree = s2.tree := by rw [hs3]
    have hf3 : live s3.tree n = true := by rw [ht3]; exact f2.liven
    obtain ⟨s4, e4, h4, hp4, _, hr4⟩ := upd_step h3 hf3 (fun o => { o with amlOffset := off }) (by keeps_links) Iff.rfl
      (h3.tree.info _ hf3)
    refine bind_ex e4 ?_
    have hf4 : live s4.tree n = true := by rw [hp4.links.live]; exact hf3
    obtain ⟨b, s5, e5, h5, hp5, hoff5⟩ := readFieldName_tot (d := d) (field := n) Gen.C12.amlNameLen 0 h4 hf4
      (hp4.notK (by rw [ht3, hop2]; decide))
    refine bind_ex e5 ?_
    have p25 : PayOnly n s2 s5 := ((PayOnly.ofLex _ hs3 (by rw [hr3]) (by rw [hr3]; exact Nat.le_refl _)).trans hp4).trans hp5
    have f5 : Fresh1 n s1 s5 := f2.thenPay p25
    have hnm5 : isK (slot s5.tree n).opcode = false := p25.notK (by rw [hop2]; decide)
    have g15 : GrowE T 0 1 s1 s5 := f5.growE hnm5
    have g5 : GrowE T 1 1 s s5 := g1.trans g15
    cases b with
    | false => exact pure_ex ⟨h5, g5, fun st' hc => by cases hc⟩
    | true =>
      have ho5 := hoff5 rfl
      simp only [Bool.not_true, Bool.false_eq_true, ↓reduceIte]
      obtain ⟨pr, s6, e6, h6, hR6, hs6⟩ := lex_step (rel_parsePkgLength d) h5
      refine bind_ex e6 ?_
      have ht6 : s6.tree = s5.tree := by rw [hs6]
      rcases hR6 with ⟨hf, hr⟩ | ⟨hok, hp, hlt, _, _⟩
      · rw [if_pos (by rw [hf]; decide)]
        exact pure_ex ⟨h6, g5.trans (GrowE.ofLex 0 hs6 (by rw [hr]; omega)), fun st' hc => by cases hc⟩
      · rw [if_neg (by rw [hok]; decide)]
        have g16 : GrowE T 0 1 s1 s6 := g15.trans (GrowE.ofLex 0 hs6 (by omega))
        have g6 : GrowE T 1 1 s s6 := g1.trans g16
        have hc6 : live s6.tree curObj = true := g6.oldLive _ hfi.1
        refine bind_ex (getObj_live hc6) ?_
        have hfield6 : live s6.tree n = true := by rw [ht6]; exact f5.liven
        obtain ⟨s7, e7, h7, hp7, _, hr7⟩ := upd_step h6 hfield6
          (fun o => { o with value := Val.field st.nextFieldOffset pr.1 st.accessLength st.accessType st.accessAttrib st.lockType st.updateType st.connectionIndex (slot s6.tree curObj).index })
          (by keeps_links) Iff.rfl (h6.tree.info _ hfield6)
        refine bind_ex e7 ?_
        have hn0 : n ≠ 0 := fun e => by
          have := h1.tree.root
          rw [← e, f2.nlive] at this; cases this
        have g17 : GrowE T 0 1 s1 s7 := g16.trans (pay_growE hp7 (by rw [ht6]; exact f5.pn) hn0 hfield6)
        have g7 : GrowE T 1 1 s s7 := g1.trans g17
        have fi7 : FieldInv s7 curObj st := hfi.mono g7
        have hpar : C13.P s7.tree curObj = (slot s6.tree curObj).parentIndex := by
          rw [hp7.links.p]; rfl
        have hparl : live s7.tree (C13.P s7.tree curObj) = true := by
          rcases (h7.tree.wf.lP fi7.1).lp with h0 | h0
          · exact absurd h0 fi7.2.2.1
          · exact h0
        rw [← hpar]
        refine bind_ex (objectAt_live' hparl) ?_
        refine bind_ex (derefP_some_ex _) ?_
        have hfield7 : live s7.tree n = true := by rw [hp7.links.live]; exact hfield6
        have hpf : C13.P s7.tree n = INV := by rw [hp7.links.p, ht6]; exact f5.pn
        -- the parent existed before the field was created
        have hc1 : live s1.tree curObj = true := by rw [ht1]; exact hfi.1
        have hpar1 : C13.P s7.tree curObj = C13.P s1.tree curObj := g17.oldP _ hc1
        have hparl1 : live s1.tree (C13.P s1.tree curObj) = true := by
          rcases (h1.tree.wf.lP hc1).lp with h0 | h0
          · rw [← hpar1] at h0; exact absurd h0 fi7.2.2.1
          · exact h0
        have hna := not_anc_new h1.tree.wf (fun x hx => g17.oldP x hx) f2.nlive s7.tree.fuel _ hparl1
        rw [← hpar1] at hna
        obtain ⟨t', e8, ht', sp8, hl8, hP8, hNx8, hFi8⟩ := treeG_appendAfter h7.tree hparl hfield7 hpf hna fi7.2.1 fi7.2.2.2
        have sz8 : t'.pool.size = s7.tree.pool.size := sp8.size
        have hnn : ∀ x, live s.tree x = true → x ≠ n := by
          intro x hx e
          have : live s1.tree x = true := by rw [ht1]; exact hx
          rw [e, f2.nlive] at this; cases this
        refine bind_ex (tree_ex e8) (pure_ex ⟨h7.withTree ht' (fun x hx => by rw [hl8]; exact hx), ?_, ?_⟩)
        · exact g7.thenAppendAfter (s2 := { s7 with tree := t' }) rfl sz8 hl8 hP8
            (by cases hq : live s.tree n with
                | false => rfl
                | true => exact absurd rfl (hnn n hq))
            (by rw [g7.oldP _ hfi.1]; exact hT) fi7.2.2.2 sp8 hNx8 hFi8
        · intro st' hc
          cases hc
          refine ⟨⟨?_, ?_, ?_, ?_⟩, ?_⟩
          · show live t' curObj = true; rw [hl8]; exact fi7.1
          · show live t' n = true; rw [hl8]; exact hfield7
          · show C13.P t' curObj ≠ INV
            rw [hP8, if_neg (hnn _ hfi.1)]; exact fi7.2.2.1
          · show C13.P t' n = C13.P t' curObj
            rw [hP8, hP8, if_pos rfl, if_neg (hnn _ hfi.1)]
          · show s.r.offset + 3 < s7.r.offset
            have e1' : s1.r.offset = s.r.offset - 1 := hR1.2
            have : s4.r.offset = s1.r.offset := by rw [hr4, hr3, hr2]
            have : s5.r.offset = s4.r.offset + Gen.C12.amlNameLen := ho5
            have : Gen.C12.amlNameLen = 4 := rfl
            have : s7.r = s6.r := hr7
            rw [this]
            omega
  obtain ⟨a, s', e, hq⟩ := main
  exact ⟨a, s', bind_ex' e2 e, hq⟩

/-- `parseByteList(obj, n)` when the `n` bytes fit below `pkgEnd` -/
theorem parseByteList_tot {d : Bytes} (hd : d.size + 1024 ≤ 4294967296) {s : PState} (h : FP d s) {obj : Nat}
    (ho : live s.tree obj = true) (n : Nat) (hfit : s.r.offset + n ≤ s.r.pkgEnd)
    (hcur : isK (slot s.tree obj).opcode = false) :
    ∃ a s', parseByteList d obj n s = .ok (a, s') ∧ FP d s' ∧ PayOnly obj s s' ∧ s'.r.offset = s.r.offset + n := by
  unfold parseByteList
  have hl : KeepsLive s.tree obj (fun o => { o with opcode := opIntByteList }) := by
    unfold KeepsLive
    have hne : opIntByteList ≠ pOpIntFreedObject := by decide
    exact ⟨fun hc => absurd hc hne, fun hc => absurd hc (live_opcode ho)⟩
  obtain ⟨s1, e1, h1, hp1, hsl1, hr1⟩ := upd_step h ho (fun o => { o with opcode := opIntByteList }) (by keeps_links) hl
    (h.tree.info obj ho) (Or.inr ⟨hcur, (show isK opIntByteList = false by decide)⟩) (fun hq => by simp [hcur] at hq)
  refine bind_ex e1 ?_
  have ho1 : live s1.tree obj = true := by rw [hp1.links.live]; exact ho
  obtain ⟨s2, e2, h2, hp2, _, hr2⟩ := upd_step h1 ho1
    (fun o => { o with infoIndex := pOpcodeTableIndex opIntByteList true }) (by keeps_links) Iff.rfl
    (by dsimp only; exact info_const.2.2.2.2.2.2.2.1) (Or.inl rfl) (fun _ => ⟨rfl, rfl⟩)
    (fun hq => by
      rw [hsl1] at hq
      have : isK opIntByteList = true := hq
      exact absurd this (by decide))
  refine bind_ex e2 ?_
  obtain ⟨sl, s3, e3, h3, hR3, hs3⟩ := lex_step (rel_parseByteListRaw d n) h2
  refine bind_ex e3 ?_
  have ht3 : s3.tree = s2.tree := by rw [hs3]
  have ho3 : live s3.tree obj = true := by rw [ht3, hp2.links.live]; exact ho1
  have hoff3 : s3.r.offset = s.r.offset + n := by
    rw [hR3.2, hr2, hr1]
    have h1' := h.inv.1; have h2' := h.inv.2
    have : u32 (s.r.offset + n) = s.r.offset + n := by unfold u32; omega
    rw [this]; split <;> omega
  obtain ⟨s4, e4, h4, hp4, _, hr4⟩ := upd_step h3 ho3 (fun o => { o with value := sliceVal sl }) (by keeps_links) Iff.rfl
    (h3.tree.info obj ho3)
  refine ⟨(), s4, e4, h4, ?_, by rw [hr4, hoff3]⟩
  refine ((hp1.trans hp2).trans (PayOnly.ofLex obj hs3 hR3.1 ?_)).trans hp4
  rw [hoff3, hr2, hr1]; omega


/-- the object a Connection argument parser hands back: created by it, still detached -/
def NewObj (s s' : PState) (c : Nat) : Prop := live s.tree c = false ∧ live s'.tree c = true ∧ C13.P s'.tree c = INV

theorem connName_tot {d : Bytes} (hd : d.size + 1024 ≤ 4294967296) {s : PState} (h : FP d s) (hsz : s.tree.pool.size < INV) :
    ∃ a s', connName d s = .ok (a, s') ∧ FP d s' ∧ GrowE T 1 1 s s' ∧
      (∀ c, a = .inr c → NewObj s s' c ∧ s.r.offset ≤ s'.r.offset) := by
  unfold connName
  obtain ⟨_, s1, e1, h1, hR1, hs1⟩ := lex_step (rel_unreadByte d) h
  refine bind_ex e1 ?_
  have g1 : GrowE T 1 0 s s1 := GrowE.ofLex (T := T) 1 hs1 (by have := hR1.2; omega)
  have ht1 : s1.tree = s.tree := by rw [hs1]
  obtain ⟨n, s2, e2, h2, f2, hr2, hop2, _⟩ := newObject_step h1 opIntNamePath (by rw [ht1]; exact hsz) (by decide) info_const.2.2.2.2.2.2.1
  refine bind_ex e2 ?_
  obtain ⟨off, s3, e3, h3, hR3, hs3⟩ := lex_step (rel_offset d) h2
  refine bind_ex e3 ?_
  have hr3 : s3.r = s2.r := hR3.2
  have ht3 : s3.tree = s2.tree := by rw [hs3]
  have hf3 : live s3.tree n = true := by rw [ht3]; exact f2.liven
  obtain ⟨s4, e4, h4, hp4, _, hr4⟩ := upd_step h3 hf3 (fun o => { o with amlOffset := off }) (by keeps_links) Iff.rfl
    (h3.tree.info _ hf3)
  refine bind_ex e4 ?_
  have hf4 : live s4.tree n = true := by rw [hp4.links.live]; exact hf3
  obtain ⟨res, s5, e5, h5, hp5, hprog, _⟩ := setNameValue_tot hd h4 hf4
  refine bind_ex e5 ?_
  have p25 : PayOnly n s2 s5 := ((PayOnly.ofLex _ hs3 (by rw [hr3]) (by rw [hr3]; exact Nat.le_refl _)).trans hp4).trans hp5
  have f5 : Fresh1 n s1 s5 := f2.thenPay p25
  have hnm5 : isK (slot s5.tree n).opcode = false := p25.notK (by rw [hop2]; decide)
  have g5 : GrowE T 1 1 s s5 := g1.trans (f5.growE hnm5)
  by_cases hres : res = .ok
  · rw [if_neg (by rw [hres]; decide)]
    refine pure_ex ⟨h5, g5, ?_⟩
    intro c hc
    cases hc
    refine ⟨⟨by rw [← ht1]; exact f5.nlive, f5.liven, f5.pn⟩, ?_⟩
    rcases hprog with ⟨_, hlt⟩ | hf
    · have : s4.r.offset = s1.r.offset := by rw [hr4, hr3, hr2]
      have := hR1.2
      omega
    · rw [hres] at hf; cases hf
  · rw [if_pos hres]
    exact pure_ex ⟨h5, g5, fun c hc => by cases hc⟩

/-- reader-only: "Read data length" of a Connection buffer -/
theorem connBufferLen_tot {d : Bytes} (hd : d.size + 1024 ≤ 4294967296) {s : PState} (h : FP d s) (o p : Nat) :
    ∃ a s', connBufferLen d o p s = .ok (a, s') ∧ FP d s' ∧ s' = { s with r := s'.r } ∧ s.r.offset ≤ s'.r.offset := by
  unfold connBufferLen
  obtain ⟨b, s1, e1, h1, hR1, hs1⟩ := lex_step (rel_setPkgEnd d (u32 (o + p))) h
  refine bind_ex e1 ?_
  have ho1 : s1.r.offset = s.r.offset := hR1.1
  cases b with
  | false => exact pure_ex ⟨h1, hs1, by omega⟩
  | true =>
    simp only [Bool.not_true, Bool.false_eq_true, ↓reduceIte]
    obtain ⟨opr, s2, e2, h2, hR2, hs2⟩ := lex_step (rel_nextOpcode d hd) h1
    refine bind_ex e2 ?_
    have hs2' : s2 = { s with r := s2.r } := by rw [hs2, hs1]
    have ho2 : s1.r.offset ≤ s2.r.offset := by
      rcases hR2 with ⟨_, _, hr⟩ | ⟨_, _, _, _, hlt, _⟩
      · rw [hr]; exact Nat.le_refl _
      · omega
    by_cases hres : opr.2 = .ok
    · rw [if_neg (by rw [hres]; decide)]
      have fin : ∀ (dl : Nat × PRes) (s3 : PState), FP d s3 → s3 = { s with r := s3.r } → s.r.offset ≤ s3.r.offset →
          ∃ a s', (if dl.2 = .failed then pure (.inl dl.2) else pure (.inr dl.1) : P (Sum PRes Nat)) s3 = .ok (a, s') ∧
            FP d s' ∧ s' = { s with r := s'.r } ∧ s.r.offset ≤ s'.r.offset := by
        intro dl s3 h3 hs3 ho3
        split
        · exact pure_ex ⟨h3, hs3, ho3⟩
        · exact pure_ex ⟨h3, hs3, ho3⟩
      have numc : ∀ n, ∃ a s', ((lex (parseNumConstant d n) : P (Nat × PRes)) >>= fun dl =>
          (if dl.2 = .failed then pure (.inl dl.2) else pure (.inr dl.1) : P (Sum PRes Nat))) s2 = .ok (a, s') ∧
            FP d s' ∧ s' = { s with r := s'.r } ∧ s.r.offset ≤ s'.r.offset := by
        intro n
        obtain ⟨dl, s3, e3, h3, hR3, hs3⟩ := lex_step (rel_parseNumConstant d n) h2
        refine bind_ex e3 (fin dl s3 h3 (by rw [hs3, hs2']) (by have := hR3.2.1; omega))
      split
      · exact numc 1
      · split
        · exact numc 2
        · split
          · exact numc 4
          · exact bind_ex (s1 := s2) rfl (fin (0, PRes.ok) s2 h2 hs2' (by omega))
    · rw [if_pos hres]
      exact pure_ex ⟨h2, hs2', by omega⟩

/-- the tail of the Connection-buffer case -/
theorem connBufferFinish_tot {d : Bytes} (hd : d.size + 268435456 ≤ 4294967296) {s : PState} (h : FP d s)
    (hsz : s.tree.pool.size < INV) (origPkgEnd origOffset pkgLen dataLen : Nat) (hpl : pkgLen < 268435456)
    (hoo : origOffset ≤ d.size) :
    ∃ a s', connBufferFinish d origPkgEnd origOffset pkgLen dataLen s = .ok (a, s') ∧ FP d s' ∧
      GrowE T (s.r.offset - origOffset) 1 s s' ∧
      (∀ c, a = .inr c → NewObj s s' c ∧ origOffset ≤ s'.r.offset) := by
  have hd' : d.size + 1024 ≤ 4294967296 := by omega
  unfold connBufferFinish
  refine bind_ex (reader_ex s) ?_
  by_cases hfit : s.r.offset + dataLen > s.r.pkgEnd
  · rw [if_pos hfit]
    exact pure_ex ⟨h, (GrowE.refl s).weaken (by omega) (by omega), fun c hc => by cases hc⟩
  · rw [if_neg hfit]
    obtain ⟨n, s1, e1, h1, f1, hr1, hop1, _⟩ := newObject_step h opIntByteList hsz (by decide) info_const.2.2.2.2.2.2.2.1
    refine bind_ex e1 ?_
    have hc1 : live s1.tree n = true := f1.liven
    have hnm1 : isK (slot s1.tree n).opcode = false := by rw [hop1]; decide
    obtain ⟨s2, e2, h2, hp2, _, hr2⟩ := upd_step h1 hc1 (fun o => { o with amlOffset := origOffset }) (by keeps_links) Iff.rfl
      (h1.tree.info _ hc1)
    refine bind_ex e2 ?_
    have hc2 : live s2.tree n = true := by rw [hp2.links.live]; exact hc1
    have hle : u32 dataLen ≤ dataLen := Nat.mod_le _ _
    obtain ⟨_, s3, e3, h3, hp3, hoff3⟩ := parseByteList_tot hd' h2 hc2 (u32 dataLen) (by rw [hr2, hr1]; omega)
      (hp2.notK hnm1)
    refine bind_ex e3 ?_
    obtain ⟨_, s4, e4, h4, hR4, hs4⟩ := lex_step (rel_setPkgEnd d origPkgEnd) h3
    refine bind_ex e4 ?_
    obtain ⟨_, s5, e5, h5, hR5, hs5⟩ := lex_step (rel_setOffset d (u32 (origOffset + pkgLen))) h4
    refine bind_ex e5 ?_
    have f3 : Fresh1 n s s3 := f1.thenPay (hp2.trans hp3)
    have hfin : origOffset ≤ s5.r.offset := by
      rw [hR5.2]
      have : u32 (origOffset + pkgLen) = origOffset + pkgLen := by unfold u32; omega
      rw [this]; split <;> omega
    have ht4 : s4.tree = s3.tree := by rw [hs4]
    have ht5 : s5.tree = s4.tree := by rw [hs5]
    have g5 : GrowE T (s.r.offset - origOffset) 1 s s5 := by
      have g3 : GrowE T 0 1 s s3 := f3.growE ((hp2.trans hp3).notK hnm1)
      exact g3.thenLex (c' := s5) (by rw [hs5, hs4]) (by omega)
    refine pure_ex ⟨h5, g5, ?_⟩
    intro c hc
    cases hc
    exact ⟨⟨f3.nlive, by rw [ht5, ht4]; exact f3.liven, by rw [ht5, ht4]; exact f3.pn⟩, hfin⟩

/-- `case uint8(pOpBuffer):` of a Connection -/
theorem connBuffer_tot {d : Bytes} (hd : d.size + 268435456 ≤ 4294967296) {s : PState} (h : FP d s)
    (hsz : s.tree.pool.size < INV) :
    ∃ a s', connBuffer d s = .ok (a, s') ∧ FP d s' ∧ GrowE T 0 1 s s' ∧ (∀ c, a = .inr c → NewObj s s' c) := by
  have hd' : d.size + 1024 ≤ 4294967296 := by omega
  unfold connBuffer
  refine bind_ex (reader_ex s) ?_
  obtain ⟨pr, s1, e1, h1, ⟨hR1, hv1⟩, hs1⟩ := lex_step (rel_parsePkgLengthV d) h
  refine bind_ex e1 ?_
  have ht1 : s1.tree = s.tree := by rw [hs1]
  have hoo : s.r.offset ≤ d.size := h.inv.1
  have ho1 : s.r.offset ≤ s1.r.offset := by
    rcases hR1 with ⟨_, hr⟩ | ⟨_, _, hlt, _, _⟩
    · rw [hr]; exact Nat.le_refl _
    · omega
  have g1 : GrowE T 0 0 s s1 := GrowE.ofLex (T := T) 0 hs1 (by omega)
  have conv : ∀ {s2 : PState} {a : Sum PRes Nat} {s' : PState}, GrowE T 0 0 s s2 →
      GrowE T (s2.r.offset - s.r.offset) 1 s2 s' →
      (∀ c, a = .inr c → NewObj s2 s' c ∧ s.r.offset ≤ s'.r.offset) →
      s2.tree = s.tree →
      GrowE T 0 1 s s' ∧ (∀ c, a = .inr c → NewObj s s' c) := by
    intro s2 a s' g2 gf hc hn
    have gt := g2.trans gf
    refine ⟨gt.reoff ?_ (by omega), ?_⟩
    · have := gf.offb; have := g2.offb; omega
    · intro c hcc
      obtain ⟨⟨q1, q2, q3⟩, _⟩ := hc c hcc
      exact ⟨by rw [← hn]; exact q1, q2, q3⟩
  by_cases hres : pr.2 = .ok
  · rw [if_neg (by rw [hres]; decide)]
    by_cases hpos : pr.1 > 0
    · rw [if_pos hpos]
      obtain ⟨a2, s2, e2, h2, hs2, ho2⟩ := connBufferLen_tot hd' h1 s.r.offset pr.1
      refine bind_ex e2 ?_
      have ht2 : s2.tree = s.tree := by rw [hs2, ht1]
      cases a2 with
      | inl res => exact pure_ex ⟨h2, (g1.trans (GrowE.ofLex 0 hs2 (by omega))).weaken (by omega) (by omega), fun c hc => by cases hc⟩
      | inr dataLen =>
        obtain ⟨a, s', e3, h3, g3, hc3⟩ := connBufferFinish_tot hd h2 (by rw [ht2]; exact hsz) s.r.pkgEnd s.r.offset pr.1 dataLen hv1 hoo
        have := conv (g1.trans (GrowE.ofLex 0 hs2 (by omega))) g3 hc3 ht2
        exact ⟨a, s', e3, h3, this.1, this.2⟩
    · rw [if_neg hpos]
      obtain ⟨a, s', e3, h3, g3, hc3⟩ := connBufferFinish_tot hd h1 (by rw [ht1]; exact hsz) s.r.pkgEnd s.r.offset pr.1 0 hv1 hoo
      have := conv g1 g3 hc3 ht1
      exact ⟨a, s', e3, h3, this.1, this.2⟩
  · rw [if_pos hres]
    exact pure_ex ⟨h1, g1.weaken (by omega) (by omega), fun c hc => by cases hc⟩

/-- `case 0x02: // Connection` -/
theorem fieldConnection_tot {d : Bytes} (hd : d.size + 268435456 ≤ 4294967296) {s : PState} (h : FP d s)
    (curObj : Nat) (st : FieldSt) (hc : live s.tree curObj = true) (hsz : s.tree.pool.size + 1 < INV) (hT : T curObj) :
    ∃ a s', fieldConnection d curObj st s = .ok (a, s') ∧ FP d s' ∧ GrowE T 0 2 s s' ∧
      (∀ st', a = .inr st' → st'.appendAfter = st.appendAfter ∧ s.r.offset < s'.r.offset) := by
  have hd' : d.size + 1024 ≤ 4294967296 := by omega
  unfold fieldConnection
  obtain ⟨ob, s1, e1, h1, hR1, hs1⟩ := lex_step (rel_readByte d) h
  refine bind_ex e1 ?_
  have ht1 : s1.tree = s.tree := by rw [hs1]
  rcases hR1 with ⟨hn, hr, _⟩ | ⟨b, hb, hr, hlt⟩
  · subst hn
    exact pure_ex ⟨h1, (GrowE.ofLex (T := T) 0 hs1 (by rw [hr]; omega)).weaken (by omega) (by omega), fun st' hc => by cases hc⟩
  · subst hb
    have ho1 : s1.r.offset = s.r.offset + 1 := by rw [hr]
    have g1 : GrowE T 0 0 s s1 := GrowE.ofLex (T := T) 0 hs1 (by omega)
    dsimp only
    obtain ⟨n, s2, e2, h2, f2, hr2, hnew2⟩ := newObject_step h1 opIntConnection (by rw [ht1]; omega) (by decide)
      info_const.2.2.2.2.2.2.2.2.2.1
    refine bind_ex e2 ?_
    refine bind_ex (getObj_live f2.liven) ?_
    have hcur1 : live s1.tree curObj = true := by rw [ht1]; exact hc
    have hnm2 : isK (slot s2.tree n).opcode = false := by rw [hnew2.1]; decide
    have g12 : GrowE T 0 1 s1 s2 := f2.growE hnm2
    obtain ⟨s3, e3, h3, hs3, hsz3, sp3, hl3, hP3, _, hNx3, hFi3⟩ := append_step h2 h1.tree.wf g12.hold hcur1 f2.nlive f2.liven f2.pn
    refine bind_ex e3 ?_
    have hn1 : live s.tree n = false := by rw [← ht1]; exact f2.nlive
    have g3 : GrowE T 0 1 s s3 := (g1.trans g12).thenAppend hs3 hsz3 hl3 hP3 hn1 (Or.inl hT) h2.tree.wf
      (g12.oldLive _ hcur1) sp3 hNx3 hFi3
    have hsz3' : s3.tree.pool.size ≤ s.tree.pool.size + 1 := by rw [hsz3]; have := f2.size.2; rw [ht1] at this; exact this
    have hr3 : s3.r = s2.r := by rw [hs3]
    have hn3 : live s3.tree n = true := by rw [hl3]; exact f2.liven
    -- the connection argument
    have arg : ∃ a s4, (if b.toNat = opBuffer then connBuffer d else connName d) s3 = .ok (a, s4) ∧ FP d s4 ∧ GrowE T 1 1 s3 s4 ∧
        (∀ c, a = .inr c → NewObj s3 s4 c ∧ s3.r.offset ≤ s4.r.offset) := by
      split
      · obtain ⟨a, s4, e4, h4, g4, hc4⟩ := connBuffer_tot hd h3 (by omega)
        refine ⟨a, s4, e4, h4, g4.weaken (by omega) (by omega), ?_⟩
        intro c hcc
        exact ⟨hc4 c hcc, by have := g4.offb; omega⟩
      · exact connName_tot hd' h3 (by omega)
    obtain ⟨a, s4, e4, h4, g4, hc4⟩ := arg
    refine bind_ex e4 ?_
    have g4' : GrowE T 1 2 s s4 := g3.trans g4
    have hoff4 : s.r.offset ≤ s4.r.offset := by
      have := g4.offb; rw [hr3, hr2, ho1] at this; omega
    cases a with
    | inl res =>
      exact pure_ex ⟨h4, g4'.reoff (by omega) (by omega), fun st' hc => by cases hc⟩
    | inr connArg =>
      obtain ⟨⟨q1, q2, q3⟩, q4⟩ := hc4 connArg rfl
      obtain ⟨s5, e5, h5, hs5, hsz5, sp5, hl5, hP5, _, hNx5, hFi5⟩ := append_step h4 h3.tree.wf g4.hold hn3 q1 q2 q3
      refine bind_ex e5 (pure_ex ⟨h5, ?_, ?_⟩)
      · have hq0 : live s.tree connArg = false := by
          cases hq : live s.tree connArg with
          | false => rfl
          | true => rw [g3.oldLive _ hq] at q1; cases q1
        have g5 := g4'.thenAppend hs5 hsz5 hl5 hP5 hq0 (Or.inr ⟨h.tree.wf, hn1⟩) h4.tree.wf (g4.oldLive _ hn3) sp5 hNx5 hFi5
        have hr5 : s5.r = s4.r := by rw [hs5]
        exact g5.reoff (by rw [hr5]; omega) (by omega)
      · intro st' hcc
        cases hcc
        have hr5 : s5.r = s4.r := by rw [hs5]
        refine ⟨rfl, ?_⟩
        rw [hr5]; rw [hr3, hr2, ho1] at q4; omega

/-- one iteration of the field-list loop (the reader is not at EOF) -/
theorem fieldStep_tot {d : Bytes} (hd : d.size + 268435456 ≤ 4294967296) {s : PState} (h : FP d s)
    (curObj : Nat) (st : FieldSt) (hfi : FieldInv s curObj st) (hsz : s.tree.pool.size + 1 < INV)
    (hne : s.r.offset < s.r.pkgEnd) (hT1 : T curObj) (hT2 : T (C13.P s.tree curObj)) :
    ∃ a s', fieldStep d curObj st s = .ok (a, s') ∧ FP d s' ∧ GrowE T 0 2 s s' ∧
      (∀ st', a = .inr st' → FieldInv s' curObj st' ∧ s.r.offset < s'.r.offset) := by
  unfold fieldStep
  obtain ⟨ob, s1, e1, h1, hR1, hs1⟩ := lex_step (rel_readByte d) h
  refine bind_ex e1 ?_
  have ht1 : s1.tree = s.tree := by rw [hs1]
  rcases hR1 with ⟨_, _, hge⟩ | ⟨b, hb, hr, _⟩
  · omega
  · subst hb
    have ho1 : s1.r.offset = s.r.offset + 1 := by rw [hr]
    have g1 : GrowE T 0 0 s s1 := GrowE.ofLex (T := T) 0 hs1 (by omega)
    have fi1 : FieldInv s1 curObj st := hfi.mono g1
    have same : ∀ {a : FieldStep} {s' : PState}, FP d s' → GrowE T 0 0 s1 s' →
        (∀ st', a = .inr st' → st'.appendAfter = st.appendAfter ∧ s1.r.offset < s'.r.offset) →
        FP d s' ∧ GrowE T 0 2 s s' ∧ (∀ st', a = .inr st' → FieldInv s' curObj st' ∧ s.r.offset < s'.r.offset) := by
      intro a s' h' g' hc'
      refine ⟨h', (g1.trans g').weaken (by omega) (by omega), ?_⟩
      intro st' hcc
      obtain ⟨q1, q2⟩ := hc' st' hcc
      have := fi1.mono g'
      exact ⟨⟨this.1, by rw [q1]; exact this.2.1, this.2.2.1, by rw [q1]; exact this.2.2.2⟩, by omega⟩
    split
    · obtain ⟨a, s', e, h', g', hc'⟩ := fieldReserved_tot h1 st
      exact ⟨a, s', e, same h' g' hc'⟩
    · split
      · obtain ⟨a, s', e, h', g', hc'⟩ := fieldAccess_tot h1 st
        exact ⟨a, s', e, same h' g' hc'⟩
      · split
        · obtain ⟨a, s', e, h', g', hc'⟩ := fieldExtAccess_tot h1 st
          exact ⟨a, s', e, same h' g' hc'⟩
        · split
          · obtain ⟨a, s', e, h', g', hc'⟩ := fieldConnection_tot hd h1 curObj st fi1.1 (by rw [ht1]; exact hsz) hT1
            refine ⟨a, s', e, h', (g1.trans g').weaken (by omega) (by omega), ?_⟩
            intro st' hcc
            obtain ⟨q1, q2⟩ := hc' st' hcc
            have := fi1.mono g'
            exact ⟨⟨this.1, by rw [q1]; exact this.2.1, this.2.2.1, by rw [q1]; exact this.2.2.2⟩, by omega⟩
          · obtain ⟨a, s', e, h', g', hc'⟩ := fieldNamed_tot (T := T) h1 curObj st fi1 (by rw [ht1]; omega) (by rw [ht1]; exact hT2)
            have gt := g1.trans g'
            refine ⟨a, s', e, h', gt.reoff (by have := g'.offb; omega) (by omega), ?_⟩
            intro st' hcc
            obtain ⟨q1, q2⟩ := hc' st' hcc
            exact ⟨q1, by omega⟩

/-- the object budget: `k` more objects fit besides 16 for every byte not yet consumed -/
def Bud (d : Bytes) (k : Nat) (s : PState) : Prop := s.tree.pool.size + 16 * (d.size - s.r.offset) + k ≤ INV

theorem Bud.step {d : Bytes} {k c g : Nat} {s s' : PState} (h : Bud d k s) (hg : Grow c g s s') (hi : s'.r.offset ≤ d.size)
    (hck : c ≤ k) : Bud d (k - c) s' := by
  unfold Bud at h ⊢
  have := hg.budget; have := hg.off
  omega

/-- an equal-stacks step that consumed a byte and made at most 16 objects -/
theorem GrowE.growProg {m : Nat} {s s' : PState} (h : GrowE T 0 m s s') (hp : s.r.offset < s'.r.offset) (hm : m ≤ 16) :
    Grow 0 0 s s' :=
  ⟨by omega, h.pool, by have := h.poolUp; omega, h.oldP, h.oldLive, by rw [h.scope]; exact Nat.le_refl _, by rw [h.pkg]; exact Nat.le_refl _,
   by rw [h.scope, h.pkg]; omega, by rw [h.pkg]; omega, h.same⟩

/-- the `for !p.r.EOF()` loop of `parseFieldElements` -/
theorem fieldLoop_tot {d : Bytes} (hd : d.size + 268435456 ≤ 4294967296) (curObj : Nat) :
    ∀ (f : Nat) (st : FieldSt) {s : PState}, FP d s → FieldInv s curObj st → Bud d 2 s → d.size - s.r.offset + 1 ≤ f →
    T curObj → T (C13.P s.tree curObj) →
    ∃ res s', fieldLoop d curObj f st s = .ok (res, s') ∧ FP d s' ∧ Grow 2 0 s s' ∧
      s'.scopeStack = s.scopeStack ∧ s'.pkgEndStack = s.pkgEndStack ∧ FrmS T s s' := by
  intro f
  induction f with
  | zero => intro st s _ _ _ hf; omega
  | succ f ih =>
    intro st s h hfi hb hf hT1 hT2
    unfold fieldLoop
    obtain ⟨b, s1, e1, h1, hR1, hs1⟩ := lex_step (rel_eof d) h
    refine bind_ex e1 ?_
    have hs : s1 = s := by rw [hs1, hR1.2]
    subst hs
    rw [hR1.1]
    by_cases he : s1.r.eof = true
    · rw [if_pos he]
      exact pure_ex ⟨h, (Grow.refl s1).weaken (by omega) (by omega), rfl, rfl, FrmS.refl s1⟩
    · rw [if_neg he]
      have hne : s1.r.offset < s1.r.pkgEnd := by
        unfold Reader.eof at he; simp at he; exact he
      have hsz : s1.tree.pool.size + 1 < INV := by unfold Bud at hb; omega
      obtain ⟨a, s2, e2, h2, g2, hc2⟩ := fieldStep_tot (T := T) hd h curObj st hfi hsz hne hT1 hT2
      refine bind_ex e2 ?_
      cases a with
      | inl res => exact pure_ex ⟨h2, g2.grow, g2.scope, g2.pkg, g2.frmS⟩
      | inr st' =>
        obtain ⟨fi2, hp2⟩ := hc2 st' rfl
        have gg := g2.growProg hp2 (by omega)
        have hi2 := h2.inv.1
        have hb2 : Bud d 2 s2 := by have := hb.step gg hi2 (by omega); exact this
        obtain ⟨res, s3, e3, h3, g3, hsc3, hpk3, fr3⟩ := ih st' h2 fi2 hb2 (by omega) hT1 (by rw [g2.oldP _ hfi.1]; exact hT2)
        refine ⟨res, s3, e3, h3, ?_, by rw [hsc3, g2.scope], by rw [hpk3, g2.pkg], g2.frmS.trans fr3⟩
        have := gg.trans g3
        exact this.weaken (by omega) (by omega)

/-- `parseFieldElements(curObj)`: `curObj` is attached and its last argument is an integer -/
theorem parseFieldElements_tot {d : Bytes} (hd : d.size + 268435456 ≤ 4294967296) {s : PState} (h : FP d s) (curObj : Nat)
    (hc : live s.tree curObj = true) (hp : C13.P s.tree curObj ≠ INV) (hla : live s.tree (La s.tree curObj) = true)
    (hv : ∃ v, (slot s.tree (La s.tree curObj)).value = .u64 v) (hb : Bud d 2 s)
    (hT1 : T curObj) (hT2 : T (C13.P s.tree curObj)) :
    ∃ res s', parseFieldElements d curObj s = .ok (res, s') ∧ FP d s' ∧ Grow 2 0 s s' ∧
      s'.scopeStack = s.scopeStack ∧ s'.pkgEndStack = s.pkgEndStack ∧ FrmS T s s' := by
  unfold parseFieldElements
  refine bind_ex (getObj_live hc) ?_
  refine bind_ex (objectAt_live' hla) ?_
  refine bind_ex (derefP_some_ex _) ?_
  obtain ⟨v, hv⟩ := hv
  have e4 : u64Value (La s.tree curObj) s = .ok (v, s) := by
    unfold u64Value
    show (StateT.bind _ _) s = _
    simp only [StateT.bind, getObj_live hla, bind, Except.bind, hv]
    rfl
  refine bind_ex e4 ?_
  exact fieldLoop_tot hd curObj (d.size + 1) _ h ⟨hc, hc, hp, rfl⟩ hb (by omega) hT1 hT2


/-! ## the remaining argument kinds -/

theorem pushPkgEnd_step {d : Bytes} {s : PState} (h : FP d s) (e : Nat) :
    ∃ b s', pushPkgEnd d e s = .ok (b, s') ∧ FP d s' ∧
      s' = { s with pkgEndStack := s.pkgEndStack.push e, r := s'.r } ∧ s'.r.offset = s.r.offset := by
  unfold pushPkgEnd
  have e0 : (modify fun s => { s with pkgEndStack := s.pkgEndStack.push e } : P Unit) s =
      .ok ((), { s with pkgEndStack := s.pkgEndStack.push e }) := rfl
  refine bind_ex e0 ?_
  have h0 : FP d { s with pkgEndStack := s.pkgEndStack.push e } := ⟨h.inv, h.tree, h.scopes⟩
  obtain ⟨b, s1, e1, h1, hR1, hs1⟩ := lex_step (rel_setPkgEnd d e) h0
  exact ⟨b, s1, e1, h1, hs1, hR1.1⟩

/-- `case pArgTypePkgLen:` in the first pass -/
theorem parsePkgLenArg_tot {d : Bytes} (hd : d.size + 268435456 ≤ 4294967296) {s : PState} (h : FP d s) (info curObj : Nat)
    (hc : live s.tree curObj = true) (hinfo : InfoOK info) :
    ∃ a s', parsePkgLenArg d info curObj s = .ok (a, s') ∧ FP d s' ∧ a.1 = none ∧ Grow 0 0 s s' ∧
      s'.scopeStack = s.scopeStack ∧ s'.tree.pool.size = s.tree.pool.size ∧
      (a.2 = .ok → s'.pkgEndStack.size = s.pkgEndStack.size + 1) := by
  unfold parsePkgLenArg
  obtain ⟨o0, s1, e1, h1, hR1, hs1⟩ := lex_step (rel_offset d) h
  refine bind_ex e1 ?_
  have hss : s1 = s := by rw [hs1, hR1.2]
  subst hss
  obtain ⟨pr, s2, e2, h2, hR2, hs2⟩ := lex_step (rel_parsePkgLengthV d) h
  refine bind_ex e2 ?_
  have ht2 : s2.tree = s1.tree := by rw [hs2]
  have hsc2 : s2.scopeStack = s1.scopeStack := by rw [hs2]
  have hpk2 : s2.pkgEndStack = s1.pkgEndStack := by rw [hs2]
  have hle2 : s1.r.offset ≤ s2.r.offset := by
    rcases hR2.1 with ⟨_, hr⟩ | ⟨_, _, hlt, _⟩
    · rw [hr]; exact Nat.le_refl _
    · omega
  have g2 : Grow 0 0 s1 s2 := by rw [hs2]; exact Grow.ofR s1 _ hle2
  split
  · exact pure_ex ⟨h2, rfl, g2, hsc2, by rw [ht2], fun hc2 => by rename_i hne; exact absurd hc2 hne⟩
  · rename_i hok
    have hok : pr.2 = .ok := by
      by_cases hq : pr.2 = .ok
      · exact hq
      · exact absurd hq hok
    obtain ⟨hlt2, hoff2⟩ : s1.r.offset < s2.r.offset ∧ s2.r.offset ≤ s1.r.offset + 4 := by
      rcases hR2.1 with ⟨hf, _⟩ | ⟨_, _, hlt, hle, _⟩
      · rw [hok] at hf; cases hf
      · exact ⟨hlt, hle⟩
    have hv := hR2.2
    obtain ⟨fl, hfl⟩ := opFlags_of_info hinfo
    rw [hfl]
    refine bind_ex (optP_ex fl s2) ?_
    refine bind_ex (allBlocks_ex s2) ?_
    have hi1 := h.inv.1
    have hu : u32 (o0 + pr.1) = s1.r.offset + pr.1 := by rw [hR1.1]; unfold u32; omega
    rw [hu]
    split
    · -- deferred: remember the end of the block and skip it
      have hc2 : live s2.tree curObj = true := by rw [ht2]; exact hc
      obtain ⟨s3, e3, h3, hp3, _, hr3⟩ := upd_step h2 hc2 (fun o => { o with pkgEnd := s1.r.offset + pr.1 }) (by keeps_links) Iff.rfl
        (h2.tree.info curObj hc2)
      refine bind_ex e3 ?_
      obtain ⟨_, s4, e4, h4, hR4, hs4⟩ := lex_step (rel_setOffset d (s1.r.offset + pr.1)) h3
      refine bind_ex e4 (pure_ex ⟨h4, rfl, ?_, ?_, ?_, fun hc4 => by cases hc4⟩)
      · have hle4 : s3.r.offset ≤ s4.r.offset + 4 ∧ s1.r.offset ≤ s4.r.offset := by
          rw [hR4.2, hr3]; split <;> omega
        have g3 : Grow 0 0 s1 s3 := g2.trans (pay_grow hp3)
        have ht4 : s4.tree = s3.tree := by rw [hs4]
        have hsc4 : s4.scopeStack = s3.scopeStack := by rw [hs4]
        have hpk4 : s4.pkgEndStack = s3.pkgEndStack := by rw [hs4]
        refine ⟨hle4.2, by rw [ht4]; exact g3.pool, ?_, fun x hx => by rw [ht4]; exact g3.oldP x hx, fun x hx => by rw [ht4]; exact g3.oldLive x hx,
          by rw [hsc4]; exact g3.sc, by rw [hpk4]; exact g3.pk, ?_, ?_, by rw [hs4]; exact g3.same⟩
        · rw [ht4, hp3.links.size, ht2]; omega
        · rw [hsc4, hpk4, hp3.scope, hp3.pkg, hsc2, hpk2]; omega
        · rw [hpk4, hp3.pkg, hpk2]; omega
      · have : s4.scopeStack = s3.scopeStack := by rw [hs4]
        rw [this, hp3.scope, hsc2]
      · have : s4.tree = s3.tree := by rw [hs4]
        rw [this, hp3.links.size, ht2]
    · obtain ⟨b, s3, e3, h3, hs3, ho3⟩ := pushPkgEnd_step h2 (s1.r.offset + pr.1)
      refine bind_ex e3 ?_
      have ht3 : s3.tree = s2.tree := by rw [hs3]
      have hsc3 : s3.scopeStack = s2.scopeStack := by rw [hs3]
      have hpk3 : s3.pkgEndStack = s2.pkgEndStack.push (s1.r.offset + pr.1) := by rw [hs3]
      have hsame3 : s3.allBlocks = s2.allBlocks ∧ s3.tableHandle = s2.tableHandle ∧ s3.streamEnd = s2.streamEnd := by
        rw [hs3]; exact ⟨rfl, rfl, rfl⟩
      have g3 : Grow 0 0 s1 s3 := by
        refine ⟨by omega, by rw [ht3, ht2]; exact Nat.le_refl _, by rw [ht3, ht2]; omega, fun x _ => by rw [ht3, ht2], fun x hx => by rw [ht3, ht2]; exact hx,
          by rw [hsc3, hsc2]; exact Nat.le_refl _, by rw [hpk3, hpk2]; simp, by rw [hsc3, hsc2, hpk3, hpk2]; simp,
          by rw [hpk3, hpk2]; simp; omega, ?_⟩
        rw [hsame3.1, hsame3.2.1, hsame3.2.2]; exact g2.same
      have hfin : FP d s3 ∧ Grow 0 0 s1 s3 ∧ s3.scopeStack = s1.scopeStack ∧ s3.tree.pool.size = s1.tree.pool.size ∧
          s3.pkgEndStack.size = s1.pkgEndStack.size + 1 :=
        ⟨h3, g3, by rw [hsc3, hsc2], by rw [ht3, ht2], by rw [hpk3, hpk2]; simp⟩
      split
      · exact pure_ex ⟨hfin.1, rfl, hfin.2.1, hfin.2.2.1, hfin.2.2.2.1, fun hc4 => by cases hc4⟩
      · exact pure_ex ⟨hfin.1, rfl, hfin.2.1, hfin.2.2.1, hfin.2.2.2.1, fun _ => hfin.2.2.2.2⟩

/-- the scope block of a `TermList` argument: a fresh detached object whose index is pushed on the scope stack -/
theorem newScopeBlock_tot {d : Bytes} {s : PState} (h : FP d s) (hsz : s.tree.pool.size < INV) :
    ∃ a s', newScopeBlock s = .ok (a, s') ∧ FP d s' ∧ Grow 1 1 s s' ∧
      live s.tree a = false ∧ live s'.tree a = true ∧ C13.P s'.tree a = INV ∧
      s'.scopeStack = s.scopeStack.push a ∧ s'.pkgEndStack = s.pkgEndStack ∧ s'.r = s.r := by
  unfold newScopeBlock
  obtain ⟨n, s1, e1, h1, f1, hr1, _, _, hidx1⟩ := newObject_step h opIntScopeBlock hsz (by decide) info_const.2.2.2.2.2.2.2.2.1
  refine bind_ex e1 ?_
  obtain ⟨off, s2, e2, h2, hR2, hs2⟩ := lex_step (rel_offset d) h1
  refine bind_ex e2 ?_
  have hss : s2 = s1 := by rw [hs2, hR2.2]
  subst hss
  have hobj : live s2.tree n = true := f1.liven
  obtain ⟨s3, e3, h3, hp3, hsl3, hr3⟩ := upd_step h2 hobj (fun o => { o with amlOffset := off }) (by keeps_links) Iff.rfl
    (h2.tree.info _ hobj)
  refine bind_ex e3 ?_
  have hobj3 : live s3.tree n = true := by rw [hp3.links.live]; exact hobj
  refine bind_ex (getObj_live hobj3) ?_
  have hidx : (slot s3.tree n).index = n := by rw [hsl3]; exact hidx1
  rw [hidx]
  have f3 : Fresh1 n s s3 := f1.thenPay hp3
  have e4 : scopeEnter n s3 = .ok ((), { s3 with scopeStack := s3.scopeStack.push n }) := rfl
  refine bind_ex e4 (pure_ex ⟨?_, ?_, f3.nlive, f3.liven, f3.pn, by rw [← f3.scope], f3.pkg, by show s3.r = s.r; rw [hr3, hr1]⟩)
  · refine ⟨h3.inv, h3.tree, ?_⟩
    intro x hx
    show live s3.tree x = true
    simp only [Array.toList_push, List.mem_append, List.mem_singleton] at hx
    rcases hx with hx | hx
    · exact h3.scopes x hx
    · rw [hx]; exact hobj3
  · have g3 := f3.grow
    exact ⟨g3.off, g3.pool, g3.budget, g3.oldP, g3.oldLive,
      by show s.scopeStack.size ≤ (s3.scopeStack.push _).size; rw [f3.scope]; simp,
      g3.pk, by show (s3.scopeStack.push _).size + _ ≤ _; rw [f3.scope, f3.pkg]; simp; omega, g3.pkoff, g3.same⟩

/-- first-pass branch of `parseNamePathOrMethodCall` -/
theorem namePathOrCallObject_tot {d : Bytes} {s : PState} (h : FP d s) (hsz : s.tree.pool.size < INV)
    (hne : s.scopeStack.size ≠ 0) (curOffset : Nat) (pathExpr : Slice) :
    ∃ res s', namePathOrCallObject curOffset pathExpr s = .ok (res, s') ∧ res = .ok ∧ FP d s' ∧ Grow 1 0 s s' ∧
      s'.r = s.r ∧ s'.scopeStack = s.scopeStack ∧ s'.pkgEndStack = s.pkgEndStack := by
  unfold namePathOrCallObject
  obtain ⟨n, s1, e1, h1, f1, hr1, _⟩ := newObject_step h opIntNamePathOrMethodCall hsz (by decide)
    info_const.2.2.2.2.2.2.2.2.2.2.2.1
  refine bind_ex e1 ?_
  have hobj : live s1.tree n = true := f1.liven
  obtain ⟨s2, e2, h2, hp2, _, hr2⟩ := upd_step h1 hobj (fun o => { o with amlOffset := curOffset }) (by keeps_links) Iff.rfl
    (h1.tree.info _ hobj)
  refine bind_ex e2 ?_
  have hobj2 : live s2.tree n = true := by rw [hp2.links.live]; exact hobj
  obtain ⟨s3, e3, h3, hp3, _, hr3⟩ := upd_step h2 hobj2 (fun o => { o with value := sliceVal pathExpr }) (by keeps_links) Iff.rfl
    (h2.tree.info _ hobj2)
  refine bind_ex e3 ?_
  have hobj3 : live s3.tree n = true := by rw [hp3.links.live]; exact hobj2
  have f3 : Fresh1 n s s3 := (f1.thenPay hp2).thenPay hp3
  have hne3 : s3.scopeStack.size ≠ 0 := by rw [f3.scope]; exact hne
  obtain ⟨sc, e4, _, hmem⟩ := scopeCurrent_ex h3 hne3
  refine bind_ex e4 ?_
  refine bind_ex (derefP_some_ex sc) ?_
  have hscs : live s.tree sc = true := h.scopes sc (by rw [← f3.scope]; exact hmem)
  obtain ⟨s5, e5, h5, hs5, hsz5, _, hl5, hP5, _⟩ := append_step h3 h.tree.wf f3.grow.hold hscs f3.nlive hobj3 f3.pn
  refine bind_ex e5 (pure_ex ⟨rfl, h5, f3.grow.thenAppend hs5 hsz5 hl5 hP5 f3.nlive, ?_, ?_, ?_⟩)
  · have : s5.r = s3.r := by rw [hs5]
    rw [this, hr3, hr2, hr1]
  · have : s5.scopeStack = s3.scopeStack := by rw [hs5]
    rw [this, f3.scope]
  · have : s5.pkgEndStack = s3.pkgEndStack := by rw [hs5]
    rw [this, f3.pkg]

/-! ## the mutually recursive object parser in the first pass -/

theorem Bud.mono {d : Bytes} {k k' : Nat} {s : PState} (h : Bud d k s) (hk : k' ≤ k) : Bud d k' s := by
  unfold Bud at h ⊢; omega

/-- a reader-only step that consumed a byte buys 16 objects -/
theorem Bud.consume {d : Bytes} {k : Nat} {s s1 : PState} (h : Bud d k s) (ht : s1.tree = s.tree)
    (hlt : s.r.offset < s1.r.offset) (hi : s1.r.offset ≤ d.size) : Bud d (k + 16) s1 := by
  unfold Bud at h ⊢; rw [ht]; omega

theorem Bud.size_lt {d : Bytes} {k : Nat} {s : PState} (h : Bud d (k + 1) s) : s.tree.pool.size < INV := by
  unfold Bud at h; omega


/-- a reader-only step that consumed a byte pays for up to 16 objects of what follows -/
theorem Grow.absorb {c g : Nat} {s s1 s' : PState} (hs1 : s1 = { s with r := s1.r }) (hlt : s.r.offset < s1.r.offset)
    (gr : Grow c g s1 s') (hc : c ≤ 16) : Grow 0 g s s' := by
  have ht : s1.tree = s.tree := by rw [hs1]
  have hsc : s1.scopeStack = s.scopeStack := by rw [hs1]
  have hpk : s1.pkgEndStack = s.pkgEndStack := by rw [hs1]
  have hsame : s1.allBlocks = s.allBlocks ∧ s1.tableHandle = s.tableHandle ∧ s1.streamEnd = s.streamEnd := by
    rw [hs1]; exact ⟨rfl, rfl, rfl⟩
  refine ⟨by have := gr.off; omega, by rw [← ht]; exact gr.pool, by have := gr.budget; rw [ht] at this; omega,
    fun x hx => by rw [gr.oldP x (by rw [ht]; exact hx), ht], fun x hx => gr.oldLive x (by rw [ht]; exact hx),
    by rw [← hsc]; exact gr.sc, by rw [← hpk]; exact gr.pk,
    by have := gr.scpk; rw [hsc, hpk] at this; exact this, by have := gr.pkoff; rw [hpk] at this; omega, ?_⟩
  rw [gr.same.1, gr.same.2.1, gr.same.2.2]; exact hsame

/-- `parseNamePathOrMethodCall()` in the first pass: a `pOpIntNamePathOrMethodCall` object under the current scope -/
theorem parseNamePathOrMethodCall_skip {d : Bytes} (hd : d.size + 268435456 ≤ 4294967296) (f : Nat) {s : PState} (h : FP d s)
    (hsk : s.allBlocks = false) (hne : s.scopeStack.size ≠ 0) (hb : Bud d 0 s) :
    ∃ res s', parseNamePathOrMethodCall d (f + 1) s = .ok (res, s') ∧ FP d s' ∧ Grow 0 0 s s' ∧
      (res = .ok → s.r.offset < s'.r.offset) := by
  have hd' : d.size + 1024 ≤ 4294967296 := by omega
  unfold parseNamePathOrMethodCall
  obtain ⟨o0, s1, e1, h1, hR1, hs1⟩ := lex_step (rel_offset d) h
  refine bind_ex e1 ?_
  have hss : s1 = s := by rw [hs1, hR1.2]
  subst hss
  obtain ⟨sr, s2, e2, h2, hR2, hs2⟩ := lex_step (rel_parseNameString d hd') h
  refine bind_ex e2 ?_
  have g2 : Grow 0 0 s1 s2 := Grow.ofLex hs2 hR2.2.1
  split
  · exact pure_ex ⟨h2, g2, fun hc => by cases hc⟩
  · rename_i hok
    have hlt : s1.r.offset < s2.r.offset := by
      rcases hR2.2.2.2 with ⟨_, hlt⟩ | hf
      · exact hlt
      · exact absurd (by rw [hf]; decide) hok
    refine bind_ex (allBlocks_ex s2) ?_
    have hsk2 : s2.allBlocks = false := by rw [hs2]; exact hsk
    rw [hsk2]
    have ht2 : s2.tree = s1.tree := by rw [hs2]
    have hb2 : Bud d 16 s2 := hb.consume ht2 hlt h2.inv.1
    have hne2 : s2.scopeStack.size ≠ 0 := by rw [hs2]; exact hne
    obtain ⟨res, s3, e3, hres, h3, g3, hr3, _, _⟩ := namePathOrCallObject_tot h2 (hb2.mono (k' := 1) (by omega)).size_lt hne2 o0 sr.1
    refine ⟨res, s3, e3, h3, Grow.absorb hs2 hlt g3 (by omega), fun _ => by rw [hr3]; exact hlt⟩

/-- an object a parser function hands back to be appended: created by the call, still detached -/
def RetOK (s s' : PState) (o : Option Nat) : Prop :=
  ∀ a, o = some a → live s.tree a = false ∧ live s'.tree a = true ∧ C13.P s'.tree a = INV

/-- the argument before `j` was a `ByteData`: it is the last argument of `curObj` and holds an integer -/
def PrevOK (s : PState) (info curObj j : Nat) : Prop :=
  1 ≤ j → argAt info (j - 1) = argTypeByteData →
    live s.tree (La s.tree curObj) = true ∧ ∃ v, (slot s.tree (La s.tree curObj)).value = .u64 v

/-- total correctness of the mutually recursive functions with fuel `f` in the first pass -/
structure FirstPassTot (d : Bytes) (f : Nat) : Prop where
  target : ∀ {s : PState}, FP d s → s.allBlocks = false → Bud d 1 s → needT (d.size - s.r.offset) ≤ f →
    ∃ a s', parseTarget d f s = .ok (a, s') ∧ FP d s' ∧ Grow 1 0 s s' ∧ RetOK s s' a.1
  arg : ∀ {s : PState} (info curObj argType : Nat), FP d s → s.allBlocks = false → live s.tree curObj = true → InfoOK info → Bud d 2 s →
    argType ≠ argTypeByteList →
    (argType = argTypeFieldList → C13.P s.tree curObj ≠ INV ∧ live s.tree (La s.tree curObj) = true ∧
      ∃ v, (slot s.tree (La s.tree curObj)).value = .u64 v) →
    needArg (d.size - s.r.offset) ≤ f →
    ∃ a s', parseArg d f info curObj argType s = .ok (a, s') ∧ FP d s' ∧
      Grow 2 (if argType = argTypeTermList then 1 else 0) s s' ∧ RetOK s s' a.1 ∧
      (argType = argTypeByteData → a.2 = .ok → ∃ x v, a.1 = some x ∧ (slot s'.tree x).value = .u64 v) ∧
      (argType = argTypePkgLen → s'.scopeStack.size = s.scopeStack.size ∧
        (a.2 = .ok → s'.pkgEndStack.size = s.pkgEndStack.size + 1)) ∧
      (argType = argTypeTermArg ∨ argType = argTypeTermList → a.2 ≠ .ok)
  args : ∀ {s : PState} (info curObj j : Nat), FP d s → s.allBlocks = false → live s.tree curObj = true → InfoOK info → rowFacts info = true →
    j ≤ argCnt info → Bud d (2 * (7 - j)) s → Att s info curObj → PrevOK s info curObj j →
    (1 ≤ j → argAt info (j - 1) ≠ argTypeTermArg) → needArgs (d.size - s.r.offset) j ≤ f →
    ∃ res s', parseArgs d f info curObj j s = .ok (res, s') ∧ FP d s' ∧ Grow (2 * (7 - j)) (AmlParser.G info j) s s'
  objectArgs : ∀ {s : PState} (curObj : Nat), FP d s → s.allBlocks = false → live s.tree curObj = true →
    rowFacts (slot s.tree curObj).infoIndex = true → Att s (slot s.tree curObj).infoIndex curObj → Bud d 14 s →
    needOA (d.size - s.r.offset) ≤ f →
    ∃ res s', parseObjectArgs d f curObj s = .ok (res, s') ∧ FP d s' ∧ Grow 14 0 s s'
  nextObject : ∀ {s : PState}, FP d s → s.allBlocks = false → s.scopeStack.size ≠ 0 → Bud d 0 s → needNext (d.size - s.r.offset) ≤ f →
    ∃ res s', parseNextObject d f s = .ok (res, s') ∧ FP d s' ∧ Grow 0 0 s s' ∧ (res = .ok → s.r.offset < s'.r.offset)

theorem target_step {d : Bytes} (hd : d.size + 268435456 ≤ 4294967296) {f : Nat} (ih : FirstPassTot d f) {s : PState}
    (h : FP d s) (hsk : s.allBlocks = false) (hb : Bud d 1 s) (hf : needT (d.size - s.r.offset) ≤ f + 1) :
    ∃ a s', parseTarget d (f + 1) s = .ok (a, s') ∧ FP d s' ∧ Grow 1 0 s s' ∧ RetOK s s' a.1 := by
  have hd' : d.size + 1024 ≤ 4294967296 := by omega
  unfold parseTarget
  obtain ⟨o0, s1, e1, h1, hR1, hs1⟩ := lex_step (rel_offset d) h
  refine bind_ex e1 ?_
  have hss : s1 = s := by rw [hs1, hR1.2]
  subst hss
  obtain ⟨opr, s2, e2, h2, hR2, hs2⟩ := lex_step (rel_nextOpcode d hd') h
  refine bind_ex e2 ?_
  have ht2 : s2.tree = s1.tree := by rw [hs2]
  rcases hR2 with ⟨hfail, _, hr2⟩ | ⟨hok, hbad, hop, _, hlt, _⟩
  · -- a name
    rw [if_neg (by rw [hfail]; decide)]
    obtain ⟨_, s3, e3, h3, hR3, hs3⟩ := lex_step (rel_setOffset d o0) h2
    refine bind_ex e3 ?_
    have hr3 : s3.r = s1.r := by
      have hoff : s3.r.offset = s1.r.offset := by
        rw [hR3.2, hR1.1]; have := h.inv.1; split <;> omega
      have hpk : s3.r.pkgEnd = s1.r.pkgEnd := by rw [hR3.1, hr2]
      cases hq : s3.r; cases hq1 : s1.r
      rw [hq] at hoff hpk; rw [hq1] at hoff hpk
      simp only at hoff hpk; rw [hoff, hpk]
    have hss3 : s3 = s1 := by rw [hs3, hs2, hr3]
    subst hss3
    obtain ⟨n, s4, e4, h4, f4, hr4, _⟩ := newObject_step h3 opIntNamePath (hb.mono (Nat.le_refl _)).size_lt (by decide)
      info_const.2.2.2.2.2.2.1
    refine bind_ex e4 ?_
    have hobj : live s4.tree n = true := f4.liven
    obtain ⟨s5, e5, h5, hp5, _, hr5⟩ := upd_step h4 hobj (fun o => { o with amlOffset := o0 }) (by keeps_links) Iff.rfl
      (h4.tree.info _ hobj)
    refine bind_ex e5 ?_
    have hobj5 : live s5.tree n = true := by rw [hp5.links.live]; exact hobj
    obtain ⟨res, s6, e6, h6, hp6, _, _⟩ := setNameValue_tot hd' h5 hobj5
    have f6 := (f4.thenPay hp5).thenPay hp6
    refine bind_ex e6 (pure_ex ⟨h6, f6.grow, ?_⟩)
    intro a ha
    cases ha
    exact ⟨f6.nlive, f6.liven, f6.pn⟩
  · rw [if_pos hok]
    have g2 : Grow 0 0 s1 s2 := Grow.ofLex hs2 (by omega)
    by_cases hz : opr.1 = opZero
    · rw [if_pos hz]
      exact pure_ex ⟨h2, g2.weaken (by omega) (by omega), fun a ha => by cases ha⟩
    · rw [if_neg hz]
      split
      · rename_i htarget
        have htop : isTargetOp opr.1 = true := by
          unfold isTargetOp
          simp only [Bool.or_eq_true, beq_iff_eq]
          rcases htarget with h | h | h | h | h
          · exact Or.inl (Or.inl (Or.inl (Or.inl h)))
          · exact Or.inl (Or.inl (Or.inl (Or.inr h)))
          · exact Or.inl (Or.inl (Or.inr h))
          · exact Or.inl (Or.inr h)
          · exact Or.inr h
        obtain ⟨hrow, hinfo, hnf, hnofl⟩ := op_facts hop hbad
        have hb2 : Bud d 17 s2 := hb.consume ht2 hlt h2.inv.1
        obtain ⟨n, s3, e3, h3, f3, hr3, _, hinfo3, _⟩ := newObject_step h2 opr.1 (hb2.mono (k' := 1) (by omega)).size_lt hnf hinfo
        refine bind_ex e3 ?_
        have hobj : live s3.tree n = true := f3.liven
        obtain ⟨s4, e4, h4, hp4, hsl4, hr4⟩ := upd_step h3 hobj (fun o => { o with amlOffset := o0 }) (by keeps_links) Iff.rfl
          (h3.tree.info _ hobj)
        refine bind_ex e4 ?_
        have hobj4 : live s4.tree n = true := by rw [hp4.links.live]; exact hobj
        have hinfo4 : (slot s4.tree n).infoIndex = pOpcodeTableIndex opr.1 true := by
          rw [hsl4]; exact hinfo3
        have f4 : Fresh1 n s2 s4 := f3.thenPay hp4
        have g4 : Grow 1 0 s2 s4 := f4.grow
        have hb4 : Bud d 14 s4 := by
          have := hb2.step g4 h4.inv.1 (by omega); exact this.mono (by omega)
        have hfuel : needOA (d.size - s4.r.offset) ≤ f := by
          have h1 := g4.off
          have h2' := h4.inv.1
          unfold needT at hf; unfold needOA needArgs needArg needT; omega
        obtain ⟨res, s5, e5, h5, g5⟩ := ih.objectArgs (s := s4) n h4 (by rw [g4.same.1, hs2]; exact hsk) hobj4 (by rw [hinfo4]; exact hrow)
          (Or.inr (by rw [hinfo4]; exact hnofl htop)) hb4 hfuel
        refine bind_ex e5 (pure_ex ⟨h5, ?_, ?_⟩)
        · have := Grow.absorb hs2 hlt (g4.trans g5) (by omega)
          exact this.weaken (by omega) (by omega)
        · intro a ha
          cases ha
          refine ⟨by rw [← ht2]; exact f4.nlive, g5.oldLive _ hobj4, ?_⟩
          rw [g5.oldP _ hobj4]
          exact f4.pn
      · exact pure_ex ⟨h2, g2.weaken (by omega) (by omega), fun a ha => by cases ha⟩

theorem arg_step {d : Bytes} (hd : d.size + 268435456 ≤ 4294967296) {f : Nat} (ih : FirstPassTot d f) {s : PState}
    (info curObj argType : Nat) (h : FP d s) (hsk : s.allBlocks = false) (hc : live s.tree curObj = true) (hinfo : InfoOK info) (hb : Bud d 2 s)
    (hnbl : argType ≠ argTypeByteList)
    (hfl : argType = argTypeFieldList → C13.P s.tree curObj ≠ INV ∧ live s.tree (La s.tree curObj) = true ∧
      ∃ v, (slot s.tree (La s.tree curObj)).value = .u64 v)
    (hf : needArg (d.size - s.r.offset) ≤ f + 1) :
    ∃ a s', parseArg d (f + 1) info curObj argType s = .ok (a, s') ∧ FP d s' ∧
      Grow 2 (if argType = argTypeTermList then 1 else 0) s s' ∧ RetOK s s' a.1 ∧
      (argType = argTypeByteData → a.2 = .ok → ∃ x v, a.1 = some x ∧ (slot s'.tree x).value = .u64 v) ∧
      (argType = argTypePkgLen → s'.scopeStack.size = s.scopeStack.size ∧
        (a.2 = .ok → s'.pkgEndStack.size = s.pkgEndStack.size + 1)) ∧
      (argType = argTypeTermArg ∨ argType = argTypeTermList → a.2 ≠ .ok) := by
  have hd' : d.size + 1024 ≤ 4294967296 := by omega
  unfold parseArg
  by_cases hsimple : isSimpleArg argType = true
  · rw [if_pos hsimple]
    have hntl : argType ≠ argTypeTermList := by intro hq; rw [hq] at hsimple; revert hsimple; decide
    have hnpk : argType ≠ argTypePkgLen := by intro hq; rw [hq] at hsimple; revert hsimple; decide
    have hnta : argType ≠ argTypeTermArg := by intro hq; rw [hq] at hsimple; revert hsimple; decide
    rw [if_neg hntl]
    obtain ⟨a, s', n, e, h', f', _, hres⟩ := parseSimpleArg_tot hd' h (hb.mono (k' := 1) (by omega)).size_lt argType
    refine ⟨a, s', e, h', f'.grow.weaken (by omega) (by omega), ?_, ?_, fun hq => absurd hq hnpk, ?_⟩
    · intro x hx
      rcases hres with ⟨ha, _, _⟩ | ha
      · rw [ha] at hx; cases hx
        exact ⟨f'.nlive, f'.liven, f'.pn⟩
      · rw [ha] at hx; cases hx
    · intro hbd hok
      rcases hres with ⟨ha, _, hv⟩ | ha
      · obtain ⟨v, hv⟩ := hv (Or.inl hbd)
        exact ⟨_, v, ha, hv⟩
      · rw [ha] at hok; cases hok
    · intro hq; rcases hq with hq | hq
      · exact absurd hq hnta
      · exact absurd hq hntl
  · rw [if_neg hsimple, if_neg hnbl]
    by_cases hpk : argType = argTypePkgLen
    · rw [if_pos hpk]
      have hntl : argType ≠ argTypeTermList := by rw [hpk]; decide
      rw [if_neg hntl]
      obtain ⟨a, s', e, h', ha, g', hsc, _, hpush⟩ := parsePkgLenArg_tot hd h info curObj hc hinfo
      refine ⟨a, s', e, h', g'.weaken (by omega) (by omega), fun x hx => (by rw [ha] at hx; cases hx),
        fun hq => (by rw [hpk] at hq; cases hq), fun _ => ⟨by rw [hsc], hpush⟩, ?_⟩
      intro hq; rcases hq with hq | hq
      · rw [hpk] at hq; cases hq
      · exact absurd hq hntl
    · rw [if_neg hpk]
      by_cases hfld : argType = argTypeFieldList
      · rw [if_pos hfld]
        have hntl : argType ≠ argTypeTermList := by rw [hfld]; decide
        rw [if_neg hntl]
        obtain ⟨hp, hla, hv⟩ := hfl hfld
        obtain ⟨res, s', e, h', g', _, _⟩ := parseFieldElements_tot (T := fun _ => True) hd h curObj hc hp hla hv hb trivial trivial
        refine bind_ex e (pure_ex ⟨h', g', fun x hx => (by cases hx), fun hq => (by rw [hfld] at hq; cases hq),
          fun hq => absurd hq hpk, ?_⟩)
        intro hq; rcases hq with hq | hq
        · rw [hfld] at hq; cases hq
        · exact absurd hq hntl
      · rw [if_neg hfld]
        by_cases hta : argType = argTypeTermArg ∨ argType = argTypeDataRefObj
        · rw [if_pos hta]
          have hntl : argType ≠ argTypeTermList := by rcases hta with hq | hq <;> rw [hq] <;> decide
          rw [if_neg hntl]
          refine bind_ex (allBlocks_ex s) ?_
          rw [hsk]
          refine pure_ex ⟨h, (Grow.refl s).weaken (by omega) (by omega), fun x hx => (by cases hx), ?_, fun hq => absurd hq hpk,
            fun _ hq => by cases hq⟩
          intro hq; rcases hta with hq2 | hq2 <;> rw [hq2] at hq <;> cases hq
        · rw [if_neg hta]
          by_cases htl : argType = argTypeTermList
          · rw [if_pos htl, if_pos htl]
            obtain ⟨a, s', e, h', g', hnl, hl', hpn, _, _, _⟩ := newScopeBlock_tot h (hb.mono (k' := 1) (by omega)).size_lt
            refine bind_ex e ?_
            refine bind_ex (allBlocks_ex s') ?_
            rw [g'.same.1, hsk]
            refine pure_ex ⟨h', g'.weaken (by omega) (by omega), ?_, fun hq => (by rw [htl] at hq; cases hq),
              fun hq => absurd hq hpk, fun _ hq => by cases hq⟩
            intro x hx
            cases hx
            exact ⟨hnl, hl', hpn⟩
          · rw [if_neg htl, if_neg htl]
            have hfuel : needT (d.size - s.r.offset) ≤ f := by unfold needArg at hf; omega
            obtain ⟨a, s', e, h', g', hret⟩ := ih.target h hsk (hb.mono (by omega)) hfuel
            refine ⟨a, s', e, h', g'.weaken (by omega) (by omega), hret, ?_, fun hq => absurd hq hpk, ?_⟩
            · intro hq; rw [hq] at hsimple; exact absurd (by decide) hsimple
            · intro hq; rcases hq with hq | hq
              · exact absurd (Or.inl hq) hta
              · exact absurd hq htl

/-- a pkgEnd push (no scope push) pays for one scope push of what follows -/
theorem Grow.afterPkg {c1 c2 : Nat} {s s1 s' : PState} (g1 : Grow c1 0 s s1)
    (hsc : s1.scopeStack.size = s.scopeStack.size) (hpk : s1.pkgEndStack.size = s.pkgEndStack.size + 1)
    (g2 : Grow c2 1 s1 s') : Grow (c1 + c2) 0 s s' := by
  have t := g1.trans g2
  exact ⟨t.off, t.pool, t.budget, t.oldP, t.oldLive, t.sc, t.pk, by have := g2.scpk; omega, t.pkoff, t.same⟩


theorem args_step {d : Bytes} {f : Nat} (ih : FirstPassTot d f) {s : PState}
    (info curObj j : Nat) (h : FP d s) (hsk : s.allBlocks = false) (hc : live s.tree curObj = true) (hinfo : InfoOK info) (hrow : rowFacts info = true)
    (hj : j ≤ argCnt info) (hb : Bud d (2 * (7 - j)) s) (hatt : Att s info curObj) (hprev : PrevOK s info curObj j)
    (hpast : 1 ≤ j → argAt info (j - 1) ≠ argTypeTermArg) (hf : needArgs (d.size - s.r.offset) j ≤ f + 1) :
    ∃ res s', parseArgs d (f + 1) info curObj j s = .ok (res, s') ∧ FP d s' ∧ Grow (2 * (7 - j)) (AmlParser.G info j) s s' := by
  unfold parseArgs
  rw [opArgCount_of_info hinfo]
  refine bind_ex (optP_ex _ s) ?_
  have hcnt := rowFacts_cnt hrow
  by_cases hlt : j < argCnt info
  · rw [if_pos hlt, opArg_of_info hinfo j]
    refine bind_ex (optP_ex _ s) ?_
    have hj8 : j < 8 := by omega
    have hnbl : argAt info j ≠ argTypeByteList := by
      intro hq
      obtain ⟨q1, q2⟩ := rowFacts_bl hrow hj8 hq
      exact hpast q1 q2
    have hfl : argAt info j = argTypeFieldList → C13.P s.tree curObj ≠ INV ∧ live s.tree (La s.tree curObj) = true ∧
        ∃ v, (slot s.tree (La s.tree curObj)).value = .u64 v := by
      intro hq
      obtain ⟨q1, q2⟩ := rowFacts_fl hrow hj8 hq
      obtain ⟨q3, q4⟩ := hprev q1 q2
      refine ⟨?_, q3, q4⟩
      rcases hatt with hp | hno
      · exact hp
      · exact absurd hq (noFL_at hno hj8)
    have hfuel : needArg (d.size - s.r.offset) ≤ f := by unfold needArgs at hf; omega
    obtain ⟨⟨a1, a2⟩, s1, e1, h1, g1, hret, hbd, hpkl, hstop⟩ :=
      ih.arg info curObj (argAt info j) h hsk hc hinfo (hb.mono (by omega)) hnbl hfl hfuel
    refine bind_ex e1 ?_
    dsimp only at hret hbd hpkl hstop ⊢
    have hc1 : live s1.tree curObj = true := g1.oldLive _ hc
    have hGle : (if argAt info j = argTypeTermList then 1 else 0) ≤ AmlParser.G info j := by
      split
      · rename_i htl
        have := rowFacts_tl hrow hj8 htl
        unfold AmlParser.G
        rw [if_pos ⟨this.1, tlFrom_of_at hj8 htl⟩]
        exact Nat.le_refl _
      · exact Nat.zero_le _
    have cont : ∀ s2 : PState, FP d s2 → Grow 2 (if argAt info j = argTypeTermList then 1 else 0) s s2 → s2.r = s1.r →
        s2.tree.pool.size = s1.tree.pool.size → s2.scopeStack = s1.scopeStack → s2.pkgEndStack = s1.pkgEndStack →
        (∀ x, live s1.tree x = true → live s2.tree x = true) →
        (∀ x, a1 = some x → La s2.tree curObj = x ∧ (slot s2.tree x).value = (slot s1.tree x).value) →
        ∃ res s', (if a2 = .ok then parseArgs d f info curObj (j + 1) else pure a2) s2 = .ok (res, s') ∧ FP d s' ∧
          Grow (2 * (7 - j)) (AmlParser.G info j) s s' := by
      intro s2 h2 g2 hr2 hsz2 hsc2 hpk2 hlx2 hla2
      by_cases hok : a2 = .ok
      · rw [if_pos hok]
        have hntl : argAt info j ≠ argTypeTermList := fun hq => hstop (Or.inr hq) hok
        rw [if_neg hntl] at g2
        have hc2 : live s2.tree curObj = true := g2.oldLive _ hc
        have hb2 : Bud d (2 * (7 - (j + 1))) s2 := by
          have := hb.step g2 h2.inv.1 (by omega)
          exact this.mono (by omega)
        have hatt2 : Att s2 info curObj := by
          unfold Att at hatt ⊢
          rw [g2.oldP curObj hc]; exact hatt
        have hprev2 : PrevOK s2 info curObj (j + 1) := by
          intro _ hq
          have hq' : argAt info j = argTypeByteData := hq
          obtain ⟨x, v, hx, hv⟩ := hbd hq' hok
          obtain ⟨q1, q2⟩ := hla2 x hx
          obtain ⟨_, q4, _⟩ := hret x hx
          rw [q1]
          exact ⟨hlx2 x q4, v, by rw [q2]; exact hv⟩
        have hpast2 : 1 ≤ j + 1 → argAt info (j + 1 - 1) ≠ argTypeTermArg := by
          intro _ hq
          exact hstop (Or.inl hq) hok
        have hfuel2 : needArgs (d.size - s2.r.offset) (j + 1) ≤ f :=
          needArgs_next hf (Nat.sub_le_sub_left g2.off _) hj8
        obtain ⟨res, s3, e3, h3, g3⟩ := ih.args info curObj (j + 1) h2 (by rw [g2.same.1]; exact hsk) hc2 hinfo hrow (by omega) hb2 hatt2 hprev2 hpast2 hfuel2
        refine ⟨res, s3, e3, h3, ?_⟩
        have hcc : 2 + 2 * (7 - (j + 1)) = 2 * (7 - j) := by omega
        by_cases hG1 : 1 ≤ j + 1 ∧ tlFrom info (j + 1) = true
        · have hGv : AmlParser.G info (j + 1) = 1 := by unfold AmlParser.G; rw [if_pos hG1]
          rw [hGv] at g3
          by_cases hj0 : j = 0
          · -- the `PkgLen` at index 0 pushed a pkgEnd
            have hpk0 : argAt info j = argTypePkgLen := by rw [hj0]; exact tlFrom_pkg hrow hG1.2
            obtain ⟨q1, q2⟩ := hpkl hpk0
            have := g2.afterPkg (by rw [hsc2]; exact q1) (by rw [hpk2]; exact q2 hok) g3
            rw [hcc] at this
            exact this.weaken (Nat.le_refl _) (Nat.zero_le _)
          · have hGj : AmlParser.G info j = 1 := by unfold AmlParser.G; rw [if_pos ⟨by omega, tlFrom_mono hG1.2⟩]
            rw [hGj]
            have := g2.trans g3
            rw [hcc] at this
            exact this
        · have hGv : AmlParser.G info (j + 1) = 0 := by unfold AmlParser.G; rw [if_neg hG1]
          rw [hGv] at g3
          have := g2.trans g3
          rw [hcc] at this
          exact this.weaken (Nat.le_refl _) (Nat.zero_le _)
      · rw [if_neg hok]
        exact pure_ex ⟨h2, g2.weaken (by omega) hGle⟩
    -- the returned object becomes the last argument of `curObj`
    cases a1 with
    | none => exact cont s1 h1 g1 rfl rfl rfl rfl (fun x hx => hx) (fun x hx => by cases hx)
    | some x =>
      obtain ⟨q1, q2, q3⟩ := hret x rfl
      obtain ⟨s2, e2, h2, hs2, hsz2, sp2, hl2, hP2, hLa2, _⟩ := append_step h1 h.tree.wf g1.hold hc q1 q2 q3
      refine bind_ex e2 ?_
      refine cont s2 h2 (g1.thenAppend hs2 hsz2 hl2 hP2 q1) (by rw [hs2]) hsz2 (by rw [hs2]) (by rw [hs2])
        (fun y hy => by rw [hl2]; exact hy) ?_
      intro y hy
      cases hy
      exact ⟨hLa2, samePay_value sp2 _⟩
  · rw [if_neg hlt]
    exact pure_ex ⟨h, (Grow.refl s).weaken (Nat.zero_le _) (Nat.zero_le _)⟩

theorem objectArgs_step {d : Bytes} {f : Nat} (ih : FirstPassTot d f) {s : PState} (curObj : Nat) (h : FP d s)
    (hsk : s.allBlocks = false) (hc : live s.tree curObj = true) (hrow : rowFacts (slot s.tree curObj).infoIndex = true)
    (hatt : Att s (slot s.tree curObj).infoIndex curObj) (hb : Bud d 14 s) (hf : needOA (d.size - s.r.offset) ≤ f + 1) :
    ∃ res s', parseObjectArgs d (f + 1) curObj s = .ok (res, s') ∧ FP d s' ∧ Grow 14 0 s s' := by
  unfold parseObjectArgs
  refine bind_ex (getObj_live hc) ?_
  have num : ∀ n, ∃ res s', (setNumValue d curObj n >>= fun res => (fun res => (pure (if res = PRes.shortCircuit then PRes.ok else res) : P PRes)) res) s =
      .ok (res, s') ∧ FP d s' ∧ Grow 14 0 s s' := by
    intro n
    obtain ⟨res, s', e, h', hp, _, _⟩ := setNumValue_tot h hc n
    refine bind_ex e ?_
    exact pure_ex ⟨h', (pay_grow hp).weaken (by omega) (by omega)⟩
  split
  · exact num 1
  · split
    · exact num 2
    · split
      · exact num 4
      · split
        · exact num 8
        · split
          · obtain ⟨res, s', e, h', hp, _, _⟩ := setStringValue_tot h hc
            refine bind_ex e ?_
            exact pure_ex ⟨h', (pay_grow hp).weaken (by omega) (by omega)⟩
          · have hinfo := h.tree.info curObj hc
            obtain ⟨fl, hfl⟩ := opFlags_of_info hinfo
            rw [hfl]
            refine bind_ex (optP_ex fl s) ?_
            have hfuel : needArgs (d.size - s.r.offset) 0 ≤ f := by unfold needOA at hf; omega
            obtain ⟨res, s', e, h', g'⟩ := ih.args (slot s.tree curObj).infoIndex curObj 0 h hsk hc hinfo hrow (Nat.zero_le _)
              (hb.mono (by omega)) hatt (fun h0 => by omega) (fun h0 => by omega) hfuel
            rw [AmlParser.G_zero] at g'
            refine bind_ex e ?_
            exact pure_ex ⟨h', g'.weaken (by omega) (Nat.le_refl _)⟩

theorem nextObject_step {d : Bytes} (hd : d.size + 268435456 ≤ 4294967296) {f : Nat} (ih : FirstPassTot d f) {s : PState}
    (h : FP d s) (hsk : s.allBlocks = false) (hne : s.scopeStack.size ≠ 0) (hb : Bud d 0 s) (hf : needNext (d.size - s.r.offset) ≤ f + 1) :
    ∃ res s', parseNextObject d (f + 1) s = .ok (res, s') ∧ FP d s' ∧ Grow 0 0 s s' ∧
      (res = .ok → s.r.offset < s'.r.offset) := by
  have hd' : d.size + 1024 ≤ 4294967296 := by omega
  unfold parseNextObject
  obtain ⟨o0, s1, e1, h1, hR1, hs1⟩ := lex_step (rel_offset d) h
  refine bind_ex e1 ?_
  have hss : s1 = s := by rw [hs1, hR1.2]
  subst hss
  obtain ⟨opr, s2, e2, h2, hR2, hs2⟩ := lex_step (rel_nextOpcode d hd') h
  refine bind_ex e2 ?_
  have ht2 : s2.tree = s1.tree := by rw [hs2]
  rcases hR2 with ⟨hfail, hop, hr2⟩ | ⟨hok, hbad, hop, _, hlt, _⟩
  · -- not an opcode: a name
    rw [if_neg (by rw [hop]; decide), if_pos hfail]
    have hss2 : s2 = s1 := by rw [hs2, hr2]
    subst hss2
    obtain ⟨f', hf'⟩ : ∃ f', f = f' + 1 := by
      cases f with
      | zero => unfold needNext needOA needArgs needArg needT at hf; omega
      | succ f' => exact ⟨f', rfl⟩
    rw [hf']
    exact parseNamePathOrMethodCall_skip hd f' h hsk hne hb
  · have g2 : Grow 0 0 s1 s2 := Grow.ofLex hs2 (by omega)
    by_cases hnoop : opr.1 = opNoop
    · rw [if_pos hnoop]
      exact pure_ex ⟨h2, g2, fun _ => hlt⟩
    · rw [if_neg hnoop, if_neg (by rw [hok]; decide)]
      obtain ⟨hrow, hinfo, hnf, _⟩ := op_facts hop hbad
      have hb2 : Bud d 16 s2 := hb.consume ht2 hlt h2.inv.1
      obtain ⟨n, s3, e3, h3, f3, hr3, _, hinfo3, _⟩ := newObject_step h2 opr.1 (hb2.mono (k' := 1) (by omega)).size_lt hnf hinfo
      refine bind_ex e3 ?_
      have hobj : live s3.tree n = true := f3.liven
      obtain ⟨s4, e4, h4, hp4, hsl4, hr4⟩ := upd_step h3 hobj (fun o => { o with amlOffset := o0 }) (by keeps_links) Iff.rfl
        (h3.tree.info _ hobj)
      refine bind_ex e4 ?_
      have hobj4 : live s4.tree n = true := by rw [hp4.links.live]; exact hobj
      have f4 : Fresh1 n s2 s4 := f3.thenPay hp4
      have hne4 : s4.scopeStack.size ≠ 0 := by rw [f4.scope, hs2]; exact hne
      obtain ⟨sc, e5, _, hmem⟩ := scopeCurrent_ex h4 hne4
      refine bind_ex e5 ?_
      refine bind_ex (derefP_some_ex sc) ?_
      have hscs : live s2.tree sc = true := h2.scopes sc (by rw [← f4.scope]; exact hmem)
      obtain ⟨s6, e6, h6, hs6, hsz6, sp6, hl6, hP6, _⟩ := append_step h4 h2.tree.wf f4.grow.hold hscs f4.nlive hobj4 f4.pn
      refine bind_ex e6 ?_
      have g6 : Grow 1 0 s2 s6 := f4.grow.thenAppend hs6 hsz6 hl6 hP6 f4.nlive
      have hobj6 : live s6.tree n = true := by rw [hl6]; exact hobj4
      have hinfo6 : (slot s6.tree n).infoIndex = pOpcodeTableIndex opr.1 true := by
        have hpay := congrArg (fun p => p.2.1) (sp6.pay n)
        have : (slot s6.tree n).infoIndex = (slot s4.tree n).infoIndex := hpay
        rw [this, hsl4]; exact hinfo3
      have hb6 : Bud d 14 s6 := by
        have := hb2.step g6 h6.inv.1 (by omega); exact this.mono (by omega)
      have hfuel : needOA (d.size - s6.r.offset) ≤ f := by
        have hle : d.size - s6.r.offset ≤ d.size - s1.r.offset := Nat.sub_le_sub_left (Nat.le_trans g2.off g6.off) _
        unfold needNext at hf
        unfold needOA needArgs needArg needT at hf ⊢
        omega
      have hP : C13.P s6.tree n = sc := by rw [hP6, if_pos rfl]
      have hscne : sc ≠ INV := live_ne_INV h2.tree.wf.size_le hscs
      obtain ⟨res, s7, e7, h7, g7⟩ := ih.objectArgs (s := s6) n h6 (by rw [g6.same.1, hs2]; exact hsk) hobj6 (by rw [hinfo6]; exact hrow)
        (Or.inl (by rw [hP]; exact hscne)) hb6 hfuel
      have gfin := Grow.absorb hs2 hlt (g6.trans g7) (by omega)
      exact ⟨res, s7, e7, h7, gfin, fun _ => by have := g6.off; have := g7.off; omega⟩

/-- the object parser in the first pass is total for every amount of fuel that covers the bytes left -/
theorem firstPassTot {d : Bytes} (hd : d.size + 268435456 ≤ 4294967296) (f : Nat) : FirstPassTot d f := by
  induction f with
  | zero =>
    refine ⟨?_, ?_, ?_, ?_, ?_⟩
    · intro s _ _ _ hf; unfold needT at hf; omega
    · intro s _ _ _ _ _ _ _ _ _ _ hf; unfold needArg needT at hf; omega
    · intro s _ _ j _ _ _ _ _ _ _ _ _ _ hf; unfold needArgs needArg needT at hf; omega
    · intro s _ _ _ _ _ _ _ hf; unfold needOA needArgs needArg needT at hf; omega
    · intro s _ _ _ _ hf; unfold needNext needOA needArgs needArg needT at hf; omega
  | succ f ih =>
    exact ⟨fun h hsk hb hf => target_step hd ih h hsk hb hf,
      fun info curObj argType h hsk hc hinfo hb hnbl hfl hf => arg_step hd ih info curObj argType h hsk hc hinfo hb hnbl hfl hf,
      fun info curObj j h hsk hc hinfo hrow hj hb hatt hprev hpast hf => args_step ih info curObj j h hsk hc hinfo hrow hj hb hatt hprev hpast hf,
      fun curObj h hsk hc hrow hatt hb hf => objectArgs_step ih curObj h hsk hc hrow hatt hb hf,
      fun h hsk hne hb hf => nextObject_step hd ih h hsk hne hb hf⟩

/-! ## `parseObjectList` -/


/-- the inner loop of `parseObjectList` -/
theorem objectListInner_tot {d : Bytes} (hd : d.size + 268435456 ≤ 4294967296) (fuel : Nat) :
    ∀ (n : Nat) {s : PState}, FP d s → s.allBlocks = false → s.scopeStack.size ≠ 0 → Bud d 0 s → needNext (d.size - s.r.offset) ≤ fuel →
      d.size - s.r.offset + 1 ≤ n →
      ∃ b s', objectListInner d fuel n s = .ok (b, s') ∧ FP d s' ∧ Grow 0 0 s s' := by
  intro n
  induction n with
  | zero => intro s _ _ _ _ _ hn; omega
  | succ n ih =>
    intro s h hsk hne hb hfuel hn
    unfold objectListInner
    obtain ⟨b, s1, e1, h1, hR1, hs1⟩ := lex_step (rel_eof d) h
    refine bind_ex e1 ?_
    have hss : s1 = s := by rw [hs1, hR1.2]
    subst hss
    by_cases he : b = true
    · rw [if_pos he]
      exact pure_ex ⟨h, Grow.refl s1⟩
    · rw [if_neg he]
      obtain ⟨res, s2, e2, h2, g2, hprog⟩ := (firstPassTot hd fuel).nextObject h hsk hne hb hfuel
      refine bind_ex e2 ?_
      by_cases hok : res = .ok
      · rw [if_neg (by rw [hok]; decide)]
        have hlt := hprog hok
        have hi2 := h2.inv.1
        obtain ⟨b3, s3, e3, h3, g3⟩ := ih h2 (by rw [g2.same.1]; exact hsk) (by have := g2.sc; omega) (hb.step g2 hi2 (Nat.le_refl _))
          (Nat.le_trans (needNext_mono (by omega)) hfuel) (by omega)
        exact ⟨b3, s3, e3, h3, g2.trans g3⟩
      · rw [if_pos hok]
        exact pure_ex ⟨h2, g2⟩

/-- `popPkgEnd()` -/
theorem popPkgEnd_step {d : Bytes} {s : PState} (h : FP d s) :
    ∃ (a : Unit) (s' : PState), popPkgEnd d s = .ok (a, s') ∧ FP d s' ∧ s'.tree = s.tree ∧ s'.scopeStack = s.scopeStack ∧
      s'.pkgEndStack = s.pkgEndStack.pop ∧ s'.r.offset = s.r.offset ∧ s'.allBlocks = s.allBlocks := by
  unfold popPkgEnd
  have e0 : (modify fun s => if s.pkgEndStack.size ≠ 0 then { s with pkgEndStack := s.pkgEndStack.pop } else s : P Unit) s =
      .ok ((), { s with pkgEndStack := s.pkgEndStack.pop }) := by
    show Except.ok ((), if s.pkgEndStack.size ≠ 0 then { s with pkgEndStack := s.pkgEndStack.pop } else s) = _
    split
    · rfl
    · rename_i h0
      have h0 : s.pkgEndStack.size = 0 := by omega
      have : s.pkgEndStack.pop = s.pkgEndStack := by
        have : s.pkgEndStack = #[] := Array.eq_empty_of_size_eq_zero h0
        rw [this]; rfl
      rw [this]
  refine bind_ex e0 ?_
  have h0 : FP d { s with pkgEndStack := s.pkgEndStack.pop } := ⟨h.inv, h.tree, h.scopes⟩
  have e1 : pkgEndTop { s with pkgEndStack := s.pkgEndStack.pop } =
      .ok (s.pkgEndStack.pop.back?, { s with pkgEndStack := s.pkgEndStack.pop }) := rfl
  refine bind_ex e1 ?_
  cases s.pkgEndStack.pop.back? with
  | none => exact pure_ex ⟨h0, rfl, rfl, rfl, rfl, rfl⟩
  | some e =>
    obtain ⟨b, s2, e2, h2, hR2, hs2⟩ := lex_step (rel_setPkgEnd d e) h0
    refine bind_ex e2 ?_
    exact pure_ex ⟨h2, by rw [hs2], by rw [hs2], by rw [hs2], hR2.1, by rw [hs2]⟩

/-- `scopeExit()` with a non-empty scope stack -/
theorem scopeExit_step {d : Bytes} {s : PState} (h : FP d s) (hne : s.scopeStack.size ≠ 0) :
    ∃ s', scopeExit s = .ok ((), s') ∧ FP d s' ∧ s' = { s with scopeStack := s.scopeStack.pop } := by
  refine ⟨{ s with scopeStack := s.scopeStack.pop }, ?_, ⟨h.inv, h.tree, ?_⟩, rfl⟩
  · unfold scopeExit
    rw [if_neg hne]; rfl
  · intro x hx
    show live s.tree x = true
    apply h.scopes x
    simp only [Array.toList_pop] at hx
    exact (List.dropLast_sublist _).subset hx

/-- `parseObjectList()`: total, and the first-pass invariant holds at the end -/
theorem parseObjectList_tot {d : Bytes} (hd : d.size + 268435456 ≤ 4294967296) (fuel : Nat) :
    ∀ (n : Nat) {s : PState}, FP d s → s.allBlocks = false → Bud d 0 s → s.scopeStack.size ≤ s.pkgEndStack.size →
      needNext (d.size - s.r.offset) ≤ fuel → d.size - s.r.offset + 1 ≤ fuel →
      d.size - s.r.offset + s.pkgEndStack.size + 1 ≤ n →
      ∃ res s', parseObjectList d fuel n s = .ok (res, s') ∧ FP d s' := by
  intro n
  induction n with
  | zero => intro s _ _ _ _ _ _ hn; omega
  | succ n ih =>
    intro s h hsk hb hstk hfuel hfuel2 hn
    unfold parseObjectList
    have e0 : stackSizes s = .ok ((s.pkgEndStack.size, s.scopeStack.size), s) := rfl
    refine bind_ex e0 ?_
    by_cases hz : s.scopeStack.size = 0
    · rw [if_pos hz]
      exact pure_ex h
    · rw [if_neg hz]
      obtain ⟨b, s1, e1, h1, g1⟩ := objectListInner_tot hd fuel fuel h hsk hz hb hfuel hfuel2
      refine bind_ex e1 ?_
      by_cases hbt : b = true
      · rw [hbt]
        have e2 : stackSizes s1 = .ok ((s1.pkgEndStack.size, s1.scopeStack.size), s1) := rfl
        refine bind_ex e2 ?_
        have hne1 : s1.scopeStack.size ≠ 0 := by have := g1.sc; omega
        have hstk1 : s1.scopeStack.size ≤ s1.pkgEndStack.size := by have := g1.scpk; omega
        have hi1 := h1.inv.1
        have hb1 : Bud d 0 s1 := hb.step g1 hi1 (Nat.le_refl _)
        have hmeas : d.size - s1.r.offset + s1.pkgEndStack.size ≤ d.size - s.r.offset + s.pkgEndStack.size := by
          have := g1.pkoff; have := g1.off; omega
        have hoff := g1.off
        -- what follows the optional `scopeExit`
        have hsk1 : s1.allBlocks = false := by rw [g1.same.1]; exact hsk
        have cont : ∀ s2 : PState, FP d s2 → s2.allBlocks = false → s2.tree = s1.tree → s2.r = s1.r → s2.pkgEndStack = s1.pkgEndStack →
            s2.scopeStack.size + 1 ≤ s1.pkgEndStack.size →
            ∃ res s', (popPkgEnd d >>= fun _ => parseObjectList d fuel n) s2 = .ok (res, s') ∧ FP d s' := by
          intro s2 h2 hsk2 ht2 hr2 hpk2 hsc2
          obtain ⟨_, s3, e3, h3, ht3, hsc3, hpk3, ho3, hab3⟩ := popPkgEnd_step h2
          refine bind_ex e3 ?_
          have hpk3s : s3.pkgEndStack.size + 1 = s1.pkgEndStack.size := by
            rw [hpk3, hpk2]; simp only [Array.size_pop]; omega
          have ho31 : s3.r.offset = s1.r.offset := by rw [ho3, hr2]
          have hb3 : Bud d 0 s3 := by
            unfold Bud at hb1 ⊢; rw [ht3, ht2, ho31]; exact hb1
          exact ih h3 (by rw [hab3]; exact hsk2) hb3 (by rw [hsc3]; omega) (by rw [ho31]; exact Nat.le_trans (needNext_mono (by omega)) hfuel)
            (by rw [ho31]; omega) (by rw [ho31]; omega)
        dsimp only
        split
        · rename_i heq
          obtain ⟨s2, e2', h2, hs2⟩ := scopeExit_step h1 hne1
          refine bind_ex e2' ?_
          refine cont s2 h2 (by rw [hs2]; exact hsk1) (by rw [hs2]) (by rw [hs2]) (by rw [hs2]) ?_
          rw [hs2]; show s1.scopeStack.pop.size + 1 ≤ _
          simp only [Array.size_pop]; omega
        · rename_i hneq
          exact cont s1 h1 hsk1 rfl rfl rfl (by omega)
      · have hbf : b = false := by cases b <;> simp_all
        rw [hbf]
        exact pure_ex h1


/-! ## the first pass of `ParseAML` into any well-formed pool -/

/-- the first pass of a table below 256 MiB parsed into ANY well-formed pool (freed slots are reused) with room
for 16 objects per table byte: it returns normally and leaves the first-pass invariant, in particular a
well-formed pool -/
theorem firstPass_tot {d : Bytes} (hd : d.size + 268435456 ≤ 4294967296) {s : PState} (ht : TreeG s.tree)
    (hsz : s.tree.pool.size + 16 * d.size ≤ INV) (fuel handle : Nat) (hfuel : 13 * d.size + 13 ≤ fuel) :
    ∃ res s', firstPass d fuel handle s = .ok (res, s') ∧ FP d s' := by
  unfold firstPass
  let s0 : PState := { s with tableHandle := handle, resolvePasses := 0, mergedScopes := 0, relocatedObjects := 0, allBlocks := false, scopeStack := #[], pkgEndStack := #[] }
  let s1 : PState := { s0 with r := Reader.init d headerLen, streamEnd := d.size }
  have h1 : FP d s1 := ⟨⟨by show (if headerLen > d.size then d.size else headerLen) ≤ d.size; split <;> omega, Nat.le_refl _⟩,
    ht, fun x hx => (by cases hx)⟩
  obtain ⟨b, s2, e2, h2, hs2, ho2⟩ := pushPkgEnd_step h1 d.size
  have e3 : scopeEnter 0 s2 = .ok ((), { s2 with scopeStack := s2.scopeStack.push 0 }) := rfl
  have hinit : ∃ (u : Unit) (s' : PState), init d handle s = .ok (u, s') ∧ s' = s2 := by
    unfold init
    refine bind_ex (s1 := s0) rfl ?_
    refine bind_ex (s1 := s1) rfl ?_
    refine bind_ex e2 ?_
    exact pure_ex rfl
  obtain ⟨_, s', hinit, hs'⟩ := hinit
  rw [hs'] at hinit
  refine bind_ex hinit ?_
  refine bind_ex e3 ?_
  have ht2 : s2.tree = s.tree := by rw [hs2]
  have hsc2 : s2.scopeStack = #[] := by rw [hs2]
  have hpk2 : s2.pkgEndStack = #[d.size] := by rw [hs2]; rfl
  have h3 : FP d { s2 with scopeStack := s2.scopeStack.push 0 } := by
    refine ⟨h2.inv, h2.tree, ?_⟩
    intro x hx
    show live s2.tree x = true
    rw [hsc2] at hx
    simp at hx
    rw [hx]; exact h2.tree.root
  have hi := h2.inv.1
  refine parseObjectList_tot hd fuel fuel h3 (by show s2.allBlocks = false; rw [hs2]) ?_ ?_ ?_ ?_ ?_
  · unfold Bud; show s2.tree.pool.size + 16 * (d.size - s2.r.offset) + 0 ≤ INV
    rw [ht2]; omega
  · show (s2.scopeStack.push 0).size ≤ s2.pkgEndStack.size
    rw [hsc2, hpk2]; simp
  · show needNext (d.size - s2.r.offset) ≤ fuel
    unfold needNext needOA needArgs needArg needT; omega
  · show d.size - s2.r.offset + 1 ≤ fuel
    omega
  · show d.size - s2.r.offset + s2.pkgEndStack.size + 1 ≤ fuel
    rw [hpk2]; simp; omega


/-- executable check of `TreeG` (for the non-vacuity examples) -/
def treeGb (t : ObjectTree) : Bool :=
  wfCheck t && live t 0 &&
  (List.range t.pool.size).all fun x => !live t x || (opFlags (slot t x).infoIndex).isSome

theorem treeG_of_b {t : ObjectTree} (h : treeGb t = true) : TreeG t := by
  unfold treeGb at h
  simp only [Bool.and_eq_true, List.all_eq_true, List.mem_range, Bool.or_eq_true, Bool.not_eq_true'] at h
  obtain ⟨⟨hw, hroot⟩, hall⟩ := h
  refine ⟨by unfold wfCheck at hw; exact wfCert_sound' hw, ?_, hroot⟩
  intro x hx
  rcases hall x (live_lt hx) with h1 | h1
  · rw [hx] at h1; cases h1
  · exact h1

end Firefly.AmlParser.G
