import Firefly.Proof.VmmHistory
/-! `PageDirectoryTable.Map` on an inactive table, in full generality. -/
namespace Firefly.Vmm
open Firefly.Gen.C04

/-- ownership only depends on the words of owned frames -/
theorem Owned.congr {m m' : Mem} {R : W} {own : Own} (ho : Owned m R own)
    (hbk : ∀ f, m'.backed f = m.backed f)
    (hrd : ∀ F x, own F = some x → ∀ j, m'.rd F j = m.rd F j) : Owned m' R own := by
  refine ⟨ho.root, ho.inj, fun F x hx => by rw [hbk]; exact ho.backed F x hx, ho.level, ?_, ?_, ?_⟩
  · intro F L pre i hF hL; rw [hrd F _ hF]; exact ho.nohuge F L pre i hF hL
  · intro F L pre i hF hL hi hp
    rw [hrd F _ hF] at hp ⊢; exact ho.child F L pre i hF hL hi hp
  · intro G L pre' hG
    obtain ⟨F, pre0, i, e1, hF, hi, hp, hfr⟩ := ho.parent G L pre' hG
    exact ⟨F, pre0, i, e1, hF, hi, by rw [hrd F _ hF]; exact hp, by rw [hrd F _ hF]; exact hfr⟩

/-- the abstract address space only depends on the words of owned frames -/
theorem hwEntry_congr_owned {m m' : Mem} {R : W} {own : Own} (ho : Owned m R own)
    (hbk : ∀ f, m'.backed f = m.backed f)
    (hrd : ∀ F x, own F = some x → ∀ j, m'.rd F j = m.rd F j) (va : W) (hu : UserVA va) :
    hwEntry m' R va = hwEntry m R va :=
  hwEntry_congr hbk R va (fun L T hL hc => hrd _ _ (chain_own ho hu L T hL hc) _)

/-- Two well-formed, disjoint address spaces: the active one rooted at frame `A` and an inactive one
rooted at frame `P`; the allocator's frames belong to neither. -/
structure Dual (st : St) (A P : W) (ownA ownP : Own) : Prop where
  ga : Good st (A <<< 12) ownA
  inact : Inactive st A P
  op : Owned st.mem (P <<< 12) ownP
  disj : ∀ F, ownA F ≠ none → ownP F = none
  freeP : ∀ f ∈ st.free, ownP f.toNat = none

theorem Dual.ownP_A {st : St} {A P : W} {ownA ownP : Own} (d : Dual st A P ownA ownP) : ownP A.toNat = none := by
  apply d.disj
  have := d.ga.owned.root
  rw [frameN_shl12 d.inact.fa] at this
  rw [this]; simp

theorem Dual.cr3mask {st : St} {A P : W} {ownA ownP : Own} (d : Dual st A P ownA ownP) :
    st.cr3 &&& hwMask = A <<< 12 := by rw [d.inact.cr3, shl12_and_hwMask d.inact.fa]

/-- after the swap the inactive space is `Good` through the window -/
theorem Dual.good_swapped {st : St} {A P : W} {ownA ownP : Own} (d : Dual st A P ownA ownP) (a : W) :
    Good ((st.wrLoc (A.toNat, 511) (setFrame (st.mem.rd A.toNat 511) P)).flush a) (P <<< 12) ownP := by
  have hA := d.ownP_A
  refine ⟨d.inact.window_swapped a, ?_, ?_, ?_, d.ga.nodup⟩
  · refine d.op.congr (fun _ => rfl) (fun F x hF j => ?_)
    simp only [St.flush, St.wrLoc, rd_wr]
    rw [if_neg]; rintro ⟨rfl, _⟩; rw [hA] at hF; cases hF
  · right
    show ownP (frameN (st.cr3 &&& hwMask)) = none
    rw [d.cr3mask, frameN_shl12 d.inact.fa]; exact hA
  · intro f hf
    obtain ⟨a1, a2, _, a4⟩ := d.ga.free f hf
    exact ⟨a1, by simpa [St.flush, St.wrLoc] using a2, d.freeP f hf, a4⟩

/-- what the wrapped operation must guarantee on the swapped state -/
structure OpPost (st st' : St) (R : W) (own own' : Own) : Prop where
  good : Good st' R own'
  ext : ∀ F x, own F = some x → own' F = some x
  foot : ∀ F j, own' F = none → st'.mem.rd F j = st.mem.rd F j
  newfree : ∀ F, own F = none → own' F ≠ none → ∃ f ∈ st.free, f.toNat = F
  sub : ∃ used, st.free = used ++ st'.free
  regs : SameRegs st st'

theorem MapPost.toOp {st st' : St} {R : W} {own own' : Own} {va : W} (p : MapPost st st' R own own' va) :
    OpPost st st' R own own' := ⟨p.good, p.ext, p.foot, p.newfree, p.sub, p.regs⟩

/-- the swapped state -/
def swapSt (st : St) (A P : W) : St :=
  (st.wrLoc (A.toNat, 511) (setFrame (st.mem.rd A.toNat 511) P)).flush (frameAddr A + lastEntryOff)

/-- the state after the restore -/
def restoreSt (st2 : St) (A : W) : St :=
  (st2.wrLoc (A.toNat, 511) (setFrame (st2.rdLoc (A.toNat, 511)) A)).flush (frameAddr A + lastEntryOff)

/-- **Swap / operate / restore.** Any operation that, run on the swapped state, behaves like an
operation on the address space rooted at `P` (`OpPost`) yields, wrapped by `PageDirectoryTable`'s
swap and restore of the active root's last entry: no fault, both address spaces well formed and
disjoint again, and every word of memory outside `P`'s tree bit-identical to before the call. -/
theorem withPdt_core {st : St} {A P : W} {ownA ownP ownP' : Own} (d : Dual st A P ownA ownP) (op : St → R Nat)
    {code : Nat} {st2 : St} (hm : op (swapSt st A P) = .ok (code, st2))
    (post : OpPost (swapSt st A P) st2 (P <<< 12) ownP ownP') :
    withPdt st P op = .ok (code, restoreSt st2 A) ∧ Dual (restoreSt st2 A) A P ownA ownP' ∧
      (∀ F j, ownP' F = none → (restoreSt st2 A).mem.rd F j = st.mem.rd F j) ∧
      SameRegs st (restoreSt st2 A) ∧ (∃ used, st.free = used ++ (restoreSt st2 A).free) ∧
      (∀ va', UserVA va' → hwEntry (swapSt st A P).mem (P <<< 12) va' = hwEntry st.mem (P <<< 12) va') ∧
      (∀ va', UserVA va' → hwEntry (restoreSt st2 A).mem (P <<< 12) va' = hwEntry st2.mem (P <<< 12) va') := by
  have h := d.inact
  have hne : (A == P) = false := by
    cases hb : A == P
    · rfl
    · exact absurd (congrArg BitVec.toNat (eq_of_beq hb)) h.ne
  have hfa := frameN_shl12 h.fa
  have hfp := frameN_shl12 h.fp
  have hbA : st.mem.backed A.toNat = true := by have := h.act.backed; rwa [hfa] at this
  have hloc := physLoc_last (st := st) h.fa hbA
  have he : st.mem.rd A.toNat 511 &&& hwMask = A <<< 12 := by have := h.act.next; rwa [hfa] at this
  have hAP := d.ownP_A
  have hA' : ownP' A.toNat = none := by
    cases hx : ownP' A.toNat with
    | none => rfl
    | some x =>
      obtain ⟨f, hf, hfe⟩ := post.newfree A.toNat hAP (by rw [hx]; simp)
      have := (d.ga.free f hf).2.2.2
      rw [d.cr3mask, hfa] at this
      exact absurd hfe this
  have hrd2 : st2.mem.rd A.toNat 511 = setFrame (st.mem.rd A.toNat 511) P := by
    rw [post.foot _ _ hA']; simp [swapSt, St.flush, St.wrLoc]
  have hfoot : ∀ F j, ownP' F = none → (restoreSt st2 A).mem.rd F j = st.mem.rd F j := by
    intro F j hF
    simp only [restoreSt, St.flush, St.wrLoc, St.rdLoc, rd_wr, hrd2, setFrame_restore h.fp he]
    by_cases hl : A.toNat = F ∧ 511 = j
    · obtain ⟨rfl, rfl⟩ := hl; simp
    · rw [if_neg hl, post.foot F j hF]
      simp only [swapSt, St.flush, St.wrLoc, rd_wr, if_neg hl]
  have hsub := post.sub
  have hfree1 : (swapSt st A P).free = st.free := rfl
  have hownA_foot : ∀ F x, ownA F = some x → ownP' F = none := by
    intro F x hF
    have hP : ownP F = none := d.disj F (by rw [hF]; simp)
    cases hx : ownP' F with
    | none => rfl
    | some y =>
      obtain ⟨f, hf, hfe⟩ := post.newfree F hP (by rw [hx]; simp)
      have := (d.ga.free f hf).2.2.1
      rw [hfe, hF] at this; cases this
  have hfreeSub : ∀ f, f ∈ st2.free → f ∈ st.free := by
    obtain ⟨used, hused⟩ := hsub
    intro f hf; rw [← hfree1, hused]; exact List.mem_append_right _ hf
  have hactLink : Link (restoreSt st2 A).mem (A <<< 12) 511 (A <<< 12) := by
    have e := hfoot A.toNat 511 hA'
    obtain ⟨ab, ap, ah, an⟩ := h.act
    rw [hfa] at ab ap ah an
    refine ⟨?_, ?_, ?_, ?_⟩
    · rw [hfa]; simpa [restoreSt, St.flush, St.wrLoc, post.regs.backed, swapSt] using ab
    · rw [hfa, e]; exact ap
    · rw [hfa, e]; exact ah
    · rw [hfa, e]; exact an
  refine ⟨?_, ?_, hfoot, ?_, hsub, ?_, ?_⟩
  · unfold withPdt
    simp only [h.activeFrame, hne, Bool.false_eq_true, if_false, hloc]
    rw [show st.rdLoc (A.toNat, 511) = st.mem.rd A.toNat 511 from rfl]
    rw [show ((st.wrLoc (A.toNat, 511) (setFrame (st.mem.rd A.toNat 511) P)).flush (frameAddr A + lastEntryOff)) =
      swapSt st A P from rfl, hm]
    rfl
  · refine ⟨⟨⟨?_, hactLink⟩, ?_, Or.inl ?_, ?_, ?_⟩, ⟨?_, h.fa, h.fp, h.ne, hactLink, ?_⟩, ?_, ?_, ?_⟩
    · show Link _ (st2.cr3 &&& hwMask) 511 _
      rw [post.regs.cr3]
      show Link _ (st.cr3 &&& hwMask) 511 _
      rw [d.cr3mask]; exact hactLink
    · refine d.ga.owned.congr (fun f => by simpa [restoreSt, swapSt, St.flush, St.wrLoc] using post.regs.backed f)
        (fun F x hF j => ?_)
      exact hfoot F j (hownA_foot F x hF)
    · show frameN (st2.cr3 &&& hwMask) = _
      rw [post.regs.cr3]; show frameN (st.cr3 &&& hwMask) = _; rw [d.cr3mask]
    · intro f hf
      obtain ⟨a1, a2, a3, a4⟩ := d.ga.free f (hfreeSub f hf)
      refine ⟨a1, ?_, a3, ?_⟩
      · have := post.regs.backed f.toNat
        simpa [restoreSt, swapSt, St.flush, St.wrLoc, this] using a2
      · show f.toNat ≠ frameN (st2.cr3 &&& hwMask)
        rw [post.regs.cr3]; exact a4
    · obtain ⟨used, hused⟩ := hsub
      have := d.ga.nodup
      rw [← hfree1, hused, List.map_append] at this
      exact (List.nodup_append.1 this).2.1
    · show st2.cr3 = A <<< 12
      rw [post.regs.cr3]; exact h.cr3
    · exact post.good.win.self.wr _ _ _ (fun hh => h.ne (by rw [hfp] at hh; exact hh.1))
    · refine post.good.owned.congr (fun _ => rfl) (fun F x hF j => ?_)
      simp only [restoreSt, St.flush, St.wrLoc, rd_wr]
      rw [if_neg]; rintro ⟨rfl, _⟩; rw [hA'] at hF; cases hF
    · intro F hF
      cases hx : ownA F with
      | none => exact absurd hx hF
      | some x => exact hownA_foot F x hx
    · intro f hf; exact (post.good.free f hf).2.2.1
  · exact SameRegs.trans (b := swapSt st A P) ⟨rfl, rfl, rfl, rfl, rfl, rfl, fun _ => rfl⟩
      (SameRegs.trans post.regs ⟨rfl, rfl, rfl, rfl, rfl, rfl, fun _ => rfl⟩)
  · intro va' hu'
    refine hwEntry_congr_owned (m' := (swapSt st A P).mem) d.op (fun _ => rfl) (fun F x hF j => ?_) va' hu'
    simp only [swapSt, St.flush, St.wrLoc, rd_wr]
    rw [if_neg]; rintro ⟨rfl, _⟩; rw [hAP] at hF; cases hF
  · intro va' hu'
    refine hwEntry_congr_owned (m' := (restoreSt st2 A).mem) post.good.owned (fun _ => rfl) (fun F x hF j => ?_) va' hu'
    simp only [restoreSt, St.flush, St.wrLoc, rd_wr]
    rw [if_neg]; rintro ⟨rfl, _⟩; rw [hA'] at hF; cases hF

/-- outcome of `PageDirectoryTable.Map` on the inactive table, in terms of its abstract address space -/
def PdtOutcome (st st' : St) (A P va v : W) (code : Nat) (frame flags : W) : Prop :=
  let last := frameAddr A + lastEntryOff
  (code = 0 ∧ st'.flushes = st.flushes ++ [last, va, last] ∧
    ∀ va', UserVA va' → hwEntry st'.mem (P <<< 12) va' =
      if SamePage va' va then (if v &&& 1#64 = 0#64 then none else some v) else hwEntry st.mem (P <<< 12) va') ∨
  (code ≠ 0 ∧ st'.flushes = st.flushes ++ [last, last] ∧
    (∀ va', UserVA va' → hwEntry st'.mem (P <<< 12) va' = hwEntry st.mem (P <<< 12) va') ∧
    ((code = eAlloc ∧ st'.free = []) ∨
     (code = eRWZero ∧ st.protect = true ∧ frame = st.zeroFrame ∧ (flags &&& fRW) ≠ 0)))

/-- **`PageDirectoryTable.Map` on an inactive table, every case** (any number of new levels,
allocator failure at any point, the zero-frame guard): the call never faults; both address spaces
stay well formed and disjoint; *every word of memory outside the inactive table's own tree is
bit-identical afterwards* — the active tables, the active root's last entry (swapped and restored)
included; the inactive address space changes exactly as `Map` specifies. -/
theorem pdtMap_full {st : St} {A P : W} {ownA ownP : Own} (d : Dual st A P ownA ownP) (page frame flags : W)
    (hu : UserVA (pageAddr page)) :
    ∃ code st' ownP', pdtMap st P page frame flags = .ok (code, st') ∧ Dual st' A P ownA ownP' ∧
      (∀ F x, ownP F = some x → ownP' F = some x) ∧
      (∀ F j, ownP' F = none → st'.mem.rd F j = st.mem.rd F j) ∧
      SameRegs st st' ∧ (∃ used, st.free = used ++ st'.free) ∧
      PdtOutcome st st' A P (pageAddr page) (mkEntry frame flags) code frame flags := by
  have g1 : Good (swapSt st A P) (P <<< 12) ownP := d.good_swapped _
  obtain ⟨code, st2, ownP', hm, post, out⟩ := mapOp_full g1 page frame flags hu
  obtain ⟨h1, h2, h3, h4, h5, hin, hout⟩ := withPdt_core d (fun s => mapOp s page frame flags) hm post.toOp
  refine ⟨code, restoreSt st2 A, ownP', h1, h2, post.ext, h3, h4, h5, ?_⟩
  unfold PdtOutcome
  rcases out with (⟨rfl, f2, f3⟩ | ⟨rfl, f2, f3, f4⟩) | ⟨rfl, rfl, f3, f4, f5⟩
  · left
    refine ⟨rfl, ?_, fun va' hu' => ?_⟩
    · simp only [restoreSt, swapSt, St.flush, St.wrLoc] at f2 ⊢; rw [f2]; simp
    · rw [hout va' hu', f3 va' hu', hin va' hu']
  · right
    refine ⟨by simp [eAlloc], ?_, fun va' hu' => ?_, Or.inl ⟨rfl, f2⟩⟩
    · simp only [restoreSt, swapSt, St.flush, St.wrLoc] at f3 ⊢; rw [f3]; simp
    · rw [hout va' hu', f4 va' hu', hin va' hu']
  · right
    refine ⟨by simp [eRWZero], ?_, fun va' hu' => ?_, Or.inr ⟨rfl, f3, f4, f5⟩⟩
    · simp [restoreSt, swapSt, St.flush, St.wrLoc]
    · rw [hout va' hu', hin va' hu']

/-- **`PageDirectoryTable.Unmap` on an inactive table, every case**: no fault; both address spaces
stay well formed; every word outside the inactive tree is bit-identical afterwards; the inactive
address space loses the page (or `ErrInvalidMapping` and nothing changes). -/
theorem pdtUnmap_full {st : St} {A P : W} {ownA ownP : Own} (d : Dual st A P ownA ownP) (page : W)
    (hu : UserVA (pageAddr page)) :
    ∃ code st', pdtUnmap st P page = .ok (code, st') ∧ Dual st' A P ownA ownP ∧
      (∀ F j, ownP F = none → st'.mem.rd F j = st.mem.rd F j) ∧ SameRegs st st' ∧ st'.free = st.free ∧
      ((code = 0 ∧ ∀ va', UserVA va' → hwEntry st'.mem (P <<< 12) va' =
          if SamePage va' (pageAddr page) then none else hwEntry st.mem (P <<< 12) va') ∨
       (code = eInvalidMapping ∧ hwEntry st.mem (P <<< 12) (pageAddr page) = none ∧
          ∀ va', UserVA va' → hwEntry st'.mem (P <<< 12) va' = hwEntry st.mem (P <<< 12) va')) := by
  have g1 : Good (swapSt st A P) (P <<< 12) ownP := d.good_swapped _
  obtain ⟨code, st2, hm, out⟩ := unmapOp_full g1 page hu
  have post : OpPost (swapSt st A P) st2 (P <<< 12) ownP ownP ∧ st2.free = st.free := by
    rcases out with ⟨_, g2, r2, f2, _, ft, _, _⟩ | ⟨_, rfl, _⟩
    · exact ⟨⟨g2, fun _ _ h => h, ft, fun F h1 h2 => absurd h1 h2, ⟨[], by rw [f2]; rfl⟩, r2⟩, f2⟩
    · exact ⟨⟨g1, fun _ _ h => h, fun _ _ _ => rfl, fun F h1 h2 => absurd h1 h2, ⟨[], rfl⟩, SameRegs.refl _⟩, rfl⟩
  obtain ⟨h1, h2, h3, h4, _, hin, hout⟩ := withPdt_core d (fun s => unmapOp s page) hm post.1
  refine ⟨code, restoreSt st2 A, h1, h2, h3, h4, post.2, ?_⟩
  rcases out with ⟨rfl, _, _, _, _, _, _, f3⟩ | ⟨rfl, rfl, f3⟩
  · left; exact ⟨rfl, fun va' hu' => by rw [hout va' hu', f3 va' hu', hin va' hu']⟩
  · right
    refine ⟨rfl, ?_, fun va' hu' => by rw [hout va' hu', hin va' hu']⟩
    rw [← hin _ hu]; exact f3

end Firefly.Vmm
