import Firefly.Proof.VmmFrame
/-! `PageDirectoryTable.Map/Unmap` on an inactive table: swap and restore of the active root's last entry. -/
namespace Firefly.Vmm
open Firefly.Gen.C04

theorem physMask_low : ∀ j : Fin 12, physMask.getLsbD j.val = false := by decide

theorem setFrame_and_low (e f k : W) (hk : k.toNat < 4096) : setFrame e f &&& k = e &&& k := by
  have hM : ~~~physMask &&& k = k := by
    apply BitVec.eq_of_getLsbD_eq
    intro i hi
    simp only [BitVec.getLsbD_and, BitVec.getLsbD_not]
    by_cases h : i < 12
    · have hl := physMask_low ⟨i, h⟩
      simp only [BitVec.getLsbD_eq_getElem hi] at hl
      simp [hl, hi]
    · have : k.getLsbD i = false := by
        rw [BitVec.getLsbD]; apply Nat.testBit_lt_two_pow
        calc k.toNat < 2 ^ 12 := hk
          _ ≤ 2 ^ i := Nat.pow_le_pow_right (by omega) (by omega)
      simp [this]
  unfold setFrame frameAddr
  rw [BitVec.and_or_distrib_right, BitVec.and_assoc, hM]
  have : pageShift = 12 := rfl
  rw [this, shl12_and_low k hk]; simp

theorem setFrame_frame (e : W) {f : W} (hf : FrameOK f) : setFrame e f &&& hwMask = f <<< 12 := by
  have h0 : ~~~physMask &&& hwMask = 0#64 := by decide
  unfold setFrame frameAddr
  rw [BitVec.and_or_distrib_right, BitVec.and_assoc, h0]
  have : pageShift = 12 := rfl
  rw [this, shl12_and_hwMask hf]; simp

theorem setFrame_restore {e p a : W} (hp : FrameOK p) (he : e &&& hwMask = a <<< 12) :
    setFrame (setFrame e p) a = e := by
  have hp' := shl12_and_hwMask hp
  unfold setFrame frameAddr
  have : pageShift = 12 := rfl
  rw [this, physMask_eq, ← he, ← hp']
  ext i hi
  simp only [BitVec.getElem_and, BitVec.getElem_or, BitVec.getElem_not]
  cases e[i] <;> cases hwMask[i] <;> cases (p <<< 12)[i] <;> rfl

theorem frameN_shl12 {f : W} (hf : FrameOK f) : frameN (f <<< 12) = f.toNat := by
  unfold FrameOK at hf
  simp only [frameN, BitVec.toNat_ushiftRight, BitVec.toNat_shiftLeft, Nat.shiftLeft_eq, Nat.shiftRight_eq_div_pow]
  omega

theorem lastEntryOff_toNat : lastEntryOff.toNat = 8 * 511 := by decide

/-- the physical address of the active root's last entry, used as a pointer -/
theorem physLoc_last {st : St} {A : W} (hA : FrameOK A) (hb : st.mem.backed A.toNat = true) :
    physLoc st (frameAddr A + lastEntryOff) = some (A.toNat, 511) := by
  have h := physLoc_table (st := st) (x := A <<< 12) (off := lastEntryOff) (i := 511)
    (by rw [shl12_and_hwMask hA, frameN_shl12 hA]; exact hb) lastEntryOff_toNat (by omega)
  rw [shl12_and_hwMask hA, frameN_shl12 hA] at h
  exact h

/-- State hypotheses for an operation on the inactive table `P` while `A` is active:
`cr3 = A<<12`, both frames fit 40 bits and are distinct RAM frames, both roots are recursive. -/
structure Inactive (st : St) (A P : W) : Prop where
  cr3 : st.cr3 = A <<< 12
  fa : FrameOK A
  fp : FrameOK P
  ne : A.toNat ≠ P.toNat
  act : Link st.mem (A <<< 12) 511 (A <<< 12)
  pdt : Link st.mem (P <<< 12) 511 (P <<< 12)

theorem Inactive.activeFrame {st : St} {A P : W} (h : Inactive st A P) : st.cr3 >>> pageShift = A := by
  rw [h.cr3]
  apply BitVec.eq_of_toNat_eq
  have := h.fa; unfold FrameOK at this
  simp only [pageShift, BitVec.toNat_ushiftRight, BitVec.toNat_shiftLeft, Nat.shiftLeft_eq, Nat.shiftRight_eq_div_pow]
  omega

/-- after the swap the window shows the address space of `P` -/
theorem Inactive.window_swapped {st : St} {A P : W} (h : Inactive st A P) (a : W) :
    Window ((st.wrLoc (A.toNat, 511) (setFrame (st.mem.rd A.toNat 511) P)).flush a) (P <<< 12) := by
  have hfa := frameN_shl12 h.fa
  have hfp := frameN_shl12 h.fp
  have hA : st.cr3 &&& hwMask = A <<< 12 := by rw [h.cr3, shl12_and_hwMask h.fa]
  obtain ⟨ab, ap, ah, an⟩ := h.act
  rw [hfa] at ab ap ah an
  constructor
  · show Link _ (st.cr3 &&& hwMask) 511 _
    rw [hA]
    refine ⟨by simpa [St.flush, St.wrLoc, hfa] using ab, ?_, ?_, ?_⟩ <;>
      simp only [St.flush, St.wrLoc, hfa, rd_wr, and_self, if_true]
    · rw [setFrame_and_low _ _ _ (by decide)]; exact ap
    · rw [setFrame_and_low _ _ _ (by decide)]; exact ah
    · exact setFrame_frame _ h.fp
  · show Link _ (P <<< 12) 511 (P <<< 12)
    exact h.pdt.wr _ _ _ (fun hh => h.ne (by rw [hfp] at hh; exact hh.1))

/-- **Operating on an inactive address space.** `PageDirectoryTable.Map` on the inactive table `P`
(path of the page present): the only word of physical memory that differs afterwards is the leaf
entry in `P`'s tables; in particular every table of the active address space, the active root's last
entry included, is bit-identical.  Flushes: the swapped entry, the page, the restored entry. -/
theorem pdtMap_inactive_present {st : St} {A P T1 T2 T3 : W} (h : Inactive st A P) (page frame flags : W)
    (p : Path st.mem (P <<< 12) (pageAddr page) T1 T2 T3)
    (hd : A.toNat ≠ frameN T1 ∧ A.toNat ≠ frameN T2 ∧ A.toNat ≠ frameN T3)
    (hg : (st.protect && frame == st.zeroFrame && (flags &&& fRW) != 0) = false) :
    ∃ st', pdtMap st P page frame flags = .ok (0, st') ∧
      (∀ F j, st'.mem.rd F j =
        if F = frameN T3 ∧ j = kidx (pageAddr page) 3 then mkEntry frame flags else st.mem.rd F j) ∧
      st'.flushes = st.flushes ++ [frameAddr A + lastEntryOff, pageAddr page, frameAddr A + lastEntryOff] ∧
      st'.cr3 = st.cr3 ∧ st'.free = st.free := by
  have hne : (A == P) = false := by
    cases hb : A == P
    · rfl
    · exact absurd (congrArg BitVec.toNat (eq_of_beq hb)) h.ne
  have hfp := frameN_shl12 h.fp
  have hfa := frameN_shl12 h.fa
  have hb : st.mem.backed A.toNat = true := by have := h.act.backed; rwa [hfa] at this
  have hloc := physLoc_last (st := st) h.fa hb
  have hw := h.window_swapped (frameAddr A + lastEntryOff)
  have p' : Path ((st.wrLoc (A.toNat, 511) (setFrame (st.mem.rd A.toNat 511) P)).flush (frameAddr A + lastEntryOff)).mem
      (P <<< 12) (pageAddr page) T1 T2 T3 :=
    ⟨p.l0.wr _ _ _ (fun hh => h.ne (by rw [hfp] at hh; exact hh.1)), p.l1.wr _ _ _ (fun hh => hd.1 hh.1),
      p.l2.wr _ _ _ (fun hh => hd.2.1 hh.1), by simpa [St.flush, St.wrLoc] using p.b3⟩
  have hm := mapOp_present page frame flags hw p' hg
  have he : st.mem.rd A.toNat 511 &&& hwMask = A <<< 12 := by have := h.act.next; rwa [hfa] at this
  unfold pdtMap withPdt
  simp only [h.activeFrame, hne, Bool.false_eq_true, if_false, hloc]
  rw [show st.rdLoc (A.toNat, 511) = st.mem.rd A.toNat 511 from rfl, hm]
  refine ⟨_, rfl, ?_, ?_, rfl, rfl⟩
  · intro F j
    simp only [St.flush, St.wrLoc, St.rdLoc, rd_wr]
    have h3 : ¬(frameN T3 = A.toNat ∧ kidx (pageAddr page) 3 = 511) := fun hh => hd.2.2 hh.1.symm
    simp only [h3, if_false, and_self, if_true, setFrame_restore h.fp he]
    by_cases hA : A.toNat = F ∧ 511 = j
    · obtain ⟨rfl, rfl⟩ := hA
      have : ¬(A.toNat = frameN T3 ∧ 511 = kidx (pageAddr page) 3) := fun hh => hd.2.2 hh.1
      simp [this]
    · simp only [hA, if_false]
      by_cases hT : frameN T3 = F ∧ kidx (pageAddr page) 3 = j
      · obtain ⟨rfl, rfl⟩ := hT; simp
      · have : ¬(F = frameN T3 ∧ j = kidx (pageAddr page) 3) := fun hh => hT ⟨hh.1.symm, hh.2.symm⟩
        simp [hT, this]
  · simp [St.flush, St.wrLoc]

end Firefly.Vmm
