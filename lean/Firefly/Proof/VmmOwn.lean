import Firefly.Proof.VmmAlloc
/-! Ownership of page-table frames (a ghost map frame ↦ (level, index prefix)) and the abstract
address space `hwEntry` (the present 4 KiB leaf entry the hardware reaches for an address). -/
namespace Firefly.Vmm
open Firefly.Gen.C04

/-- the table indices of `va` above level `L` -/
def idxs (va : W) (L : Nat) : List Nat := (List.range L).map (kidx va)

theorem idxs_succ (va : W) (L : Nat) : idxs va (L + 1) = idxs va L ++ [kidx va L] := by
  simp [idxs, List.range_succ]

theorem idxs_length (va : W) (L : Nat) : (idxs va L).length = L := by simp [idxs]

theorem idxs_eq_iff (va va' : W) (L : Nat) : idxs va L = idxs va' L ↔ ∀ k, k < L → kidx va k = kidx va' k := by
  induction L with
  | zero => simp [idxs]
  | succ L ih =>
    rw [idxs_succ, idxs_succ]
    constructor
    · intro h
      have h' := List.append_inj h (by simp [idxs_length])
      intro k hk
      by_cases hkl : k < L
      · exact ih.1 h'.1 k hkl
      · have : k = L := by omega
        subst this; simpa using h'.2
    · intro h
      rw [ih.2 (fun k hk => h k (by omega)), h L (by omega)]

/-- pages outside the recursive slot -/
def UserVA (va : W) : Prop := kidx va 0 ≠ 511

abbrev Own := Nat → Option (Nat × List Nat)

/-- `own` assigns to every frame of the page-table tree rooted at `R` its level and index prefix;
distinct positions are distinct frames (a tree), every present upper-level entry points to the owned
child, every owned non-root table is linked from its parent, upper-level entries never carry the
huge-page bit, tables are RAM. -/
structure Owned (m : Mem) (R : W) (own : Own) : Prop where
  root : own (frameN R) = some (0, [])
  inj : ∀ F G x, own F = some x → own G = some x → F = G
  backed : ∀ F x, own F = some x → m.backed F = true
  level : ∀ F L pre, own F = some (L, pre) → L ≤ 3
  nohuge : ∀ F L pre i, own F = some (L, pre) → L < 3 → m.rd F i &&& 128#64 = 0#64
  child : ∀ F L pre i, own F = some (L, pre) → L < 3 → ¬(L = 0 ∧ i = 511) → m.rd F i &&& 1#64 ≠ 0#64 →
    own (frameN (m.rd F i &&& hwMask)) = some (L + 1, pre ++ [i])
  parent : ∀ G L pre', own G = some (L + 1, pre') → ∃ F pre i, pre' = pre ++ [i] ∧ own F = some (L, pre) ∧
    ¬(L = 0 ∧ i = 511) ∧ m.rd F i &&& 1#64 ≠ 0#64 ∧ frameN (m.rd F i &&& hwMask) = G

theorem chain_own {m : Mem} {R : W} {own : Own} (ho : Owned m R own) {va : W} (hu : UserVA va) :
    ∀ (L : Nat) (T : W), L ≤ 3 → Chain m R va L T → own (frameN T) = some (L, idxs va L) := by
  intro L
  induction L with
  | zero => intro T _ h; simp only [Chain] at h; subst h; simpa [idxs] using ho.root
  | succ L ih =>
    intro T hL h
    obtain ⟨T0, hc, l⟩ := h
    have h0 := ih T0 (by omega) hc
    have := ho.child (frameN T0) L (idxs va L) (kidx va L) h0 (by omega) (fun hh => hu (by rw [← hh.1]; exact hh.2)) l.present
    rw [l.next] at this
    rw [this, idxs_succ]

theorem Chain.idx_congr {m : Mem} {R va va' : W} :
    ∀ (L : Nat) (T : W), (∀ k, k < L → kidx va k = kidx va' k) → Chain m R va L T → Chain m R va' L T := by
  intro L
  induction L with
  | zero => intro T _ h; exact h
  | succ L ih =>
    intro T hk h
    obtain ⟨T0, hc, l⟩ := h
    refine ⟨T0, ih T0 (fun k hk' => hk k (by omega)) hc, ?_⟩
    rw [← hk L (by omega)]; exact l

/-! ### the abstract address space -/
/-- remaining levels from level `L` -/
def lv (L : Nat) : List Nat := List.range' L (4 - L)

theorem lv_cons (L : Nat) (h : L ≤ 3) : lv L = L :: lv (L + 1) := by
  have : L = 0 ∨ L = 1 ∨ L = 2 ∨ L = 3 := by omega
  rcases this with h | h | h | h <;> subst h <;> rfl

theorem lv_four : lv 4 = [] := rfl

/-- walk of the tables, as the hardware does it for 4 KiB pages, returning the present leaf entry -/
def entWalk (m : Mem) (va : W) : List Nat → W → Option W
  | [], _ => none
  | L :: rest, T =>
    if m.backed (frameN T) = false then none else
    if m.rd (frameN T) (kidx va L) &&& 1#64 = 0#64 then none else
    match rest with
    | [] => some (m.rd (frameN T) (kidx va L))
    | _ :: _ =>
      if m.rd (frameN T) (kidx va L) &&& 128#64 ≠ 0#64 then none
      else entWalk m va rest (m.rd (frameN T) (kidx va L) &&& hwMask)

/-- **The abstract address space** rooted at `R`: the present leaf entry (frame field + flag bits) the
hardware reaches for `va`, `none` if any level is missing. -/
def hwEntry (m : Mem) (R va : W) : Option W := entWalk m va (lv 0) R

theorem entWalk_link {m : Mem} {va : W} {L L' : Nat} {rest : List Nat} {T T' : W} (h : Link m T (kidx va L) T') :
    entWalk m va (L :: L' :: rest) T = entWalk m va (L' :: rest) T' := by
  rw [entWalk]
  simp [h.backed, h.present, h.nohuge, h.next]

theorem entWalk_absent {m : Mem} {va : W} {L : Nat} {rest : List Nat} {T : W}
    (h : m.rd (frameN T) (kidx va L) &&& 1#64 = 0#64) : entWalk m va (L :: rest) T = none := by
  cases rest <;> simp [entWalk, h]

theorem entWalk_last {m : Mem} {va : W} {T : W} (hb : m.backed (frameN T) = true) :
    entWalk m va [3] T =
      if m.rd (frameN T) (kidx va 3) &&& 1#64 = 0#64 then none else some (m.rd (frameN T) (kidx va 3)) := by
  simp [entWalk, hb]

/-- following the path's links does not change the result of the walk -/
theorem entWalk_chain {m : Mem} {R va : W} : ∀ (L : Nat) (T : W), L ≤ 3 → Chain m R va L T →
    hwEntry m R va = entWalk m va (lv L) T := by
  intro L
  induction L with
  | zero => intro T _ h; simp only [Chain] at h; subst h; rfl
  | succ L ih =>
    intro T hL h
    obtain ⟨T0, hc, l⟩ := h
    rw [ih T0 (by omega) hc, lv_cons L (by omega), lv_cons (L + 1) hL, entWalk_link l]

theorem entWalk_cons_congr {m m' : Mem} (hbk : ∀ f, m'.backed f = m.backed f) (va : W) (L L' : Nat)
    (rest : List Nat) (T : W)
    (hr : m'.rd (frameN T) (kidx va L) = m.rd (frameN T) (kidx va L))
    (hrec : Link m T (kidx va L) (m.rd (frameN T) (kidx va L) &&& hwMask) →
      entWalk m' va (L' :: rest) (m.rd (frameN T) (kidx va L) &&& hwMask) =
        entWalk m va (L' :: rest) (m.rd (frameN T) (kidx va L) &&& hwMask)) :
    entWalk m' va (L :: L' :: rest) T = entWalk m va (L :: L' :: rest) T := by
  rw [entWalk, entWalk]
  simp only [hbk, hr]
  by_cases hb : m.backed (frameN T) = true
  · by_cases hp : m.rd (frameN T) (kidx va L) &&& 1#64 = 0#64
    · simp [hp]
    · by_cases hh : m.rd (frameN T) (kidx va L) &&& 128#64 = 0#64
      · simp [hb, hp, hh, hrec ⟨hb, hp, hh, rfl⟩]
      · simp [hb, hp, hh]
  · simp [hb]

theorem entWalk_single_congr {m m' : Mem} (hbk : ∀ f, m'.backed f = m.backed f) (va : W) (L : Nat) (T : W)
    (hr : m'.rd (frameN T) (kidx va L) = m.rd (frameN T) (kidx va L)) :
    entWalk m' va [L] T = entWalk m va [L] T := by
  simp [entWalk, hbk, hr]

/-- **Frame rule for the abstract address space**: if `m'` agrees with `m` on every word the walk of
`va` reads (the entries of the tables on `va`'s path), the two memories give `va` the same entry. -/
theorem hwEntry_congr {m m' : Mem} (hbk : ∀ f, m'.backed f = m.backed f) (R va : W)
    (hrd : ∀ L T, L ≤ 3 → Chain m R va L T → m'.rd (frameN T) (kidx va L) = m.rd (frameN T) (kidx va L)) :
    hwEntry m' R va = hwEntry m R va := by
  have c0 : Chain m R va 0 R := rfl
  unfold hwEntry
  show entWalk m' va [0, 1, 2, 3] R = entWalk m va [0, 1, 2, 3] R
  apply entWalk_cons_congr hbk va 0 1 [2, 3] R (hrd 0 R (by omega) c0)
  intro l0
  have c1 : Chain m R va 1 _ := ⟨R, c0, l0⟩
  apply entWalk_cons_congr hbk va 1 2 [3] _ (hrd 1 _ (by omega) c1)
  intro l1
  have c2 : Chain m R va 2 _ := ⟨_, c1, l1⟩
  apply entWalk_cons_congr hbk va 2 3 [] _ (hrd 2 _ (by omega) c2)
  intro l2
  have c3 : Chain m R va 3 _ := ⟨_, c2, l2⟩
  exact entWalk_single_congr hbk va 3 _ (hrd 3 _ (by omega) c3)

/-- masked table addresses are determined by their frame number -/
theorem masked_eq_of_frameN {x y : W} (h : frameN (x &&& hwMask) = frameN (y &&& hwMask)) :
    x &&& hwMask = y &&& hwMask := by
  apply BitVec.eq_of_toNat_eq
  have hx := and_hwMask_toNat x; have hy := and_hwMask_toNat y
  simp only [frameN, BitVec.toNat_ushiftRight, Nat.shiftRight_eq_div_pow, hx, hy] at h
  rw [hx, hy]; omega

/-- under ownership the hardware's translation is the abstract entry's frame plus the page offset -/
theorem mmuWalk_eq_hwEntry {m : Mem} {R : W} {own : Own} (ho : Owned m R own) {va : W} (hu : UserVA va) :
    mmuWalk m va [39, 30, 21, 12] R =
      (hwEntry m R va).map fun e => (e &&& hwMask) + (va &&& 0xfff#64) := by
  obtain ⟨h39, h30, h21, h12⟩ := hwIdx_va va
  have c0 : Chain m R va 0 R := rfl
  have hb0 : m.backed (frameN R) = true := ho.backed _ _ ho.root
  unfold hwEntry
  show _ = (entWalk m va [0, 1, 2, 3] R).map _
  by_cases p0 : m.rd (frameN R) (kidx va 0) &&& 1#64 = 0#64
  · rw [mmuWalk_absent (by rw [h39]; exact p0), entWalk_absent p0]; rfl
  have l0 : Link m R (kidx va 0) (m.rd (frameN R) (kidx va 0) &&& hwMask) :=
    ⟨hb0, p0, ho.nohuge _ _ _ _ ho.root (by omega), rfl⟩
  have c1 : Chain m R va 1 _ := ⟨R, c0, l0⟩
  have o1 := chain_own ho hu 1 _ (by omega) c1
  rw [mmuWalk_link (by rw [h39]; exact l0), entWalk_link l0]
  generalize m.rd (frameN R) (kidx va 0) &&& hwMask = T1 at *
  by_cases p1 : m.rd (frameN T1) (kidx va 1) &&& 1#64 = 0#64
  · rw [mmuWalk_absent (by rw [h30]; exact p1), entWalk_absent p1]; rfl
  have l1 : Link m T1 (kidx va 1) (m.rd (frameN T1) (kidx va 1) &&& hwMask) :=
    ⟨ho.backed _ _ o1, p1, ho.nohuge _ _ _ _ o1 (by omega), rfl⟩
  have c2 : Chain m R va 2 _ := ⟨T1, c1, l1⟩
  have o2 := chain_own ho hu 2 _ (by omega) c2
  rw [mmuWalk_link (by rw [h30]; exact l1), entWalk_link l1]
  generalize m.rd (frameN T1) (kidx va 1) &&& hwMask = T2 at *
  by_cases p2 : m.rd (frameN T2) (kidx va 2) &&& 1#64 = 0#64
  · rw [mmuWalk_absent (by rw [h21]; exact p2), entWalk_absent p2]; rfl
  have l2 : Link m T2 (kidx va 2) (m.rd (frameN T2) (kidx va 2) &&& hwMask) :=
    ⟨ho.backed _ _ o2, p2, ho.nohuge _ _ _ _ o2 (by omega), rfl⟩
  have c3 : Chain m R va 3 _ := ⟨T2, c2, l2⟩
  have o3 := chain_own ho hu 3 _ (by omega) c3
  rw [mmuWalk_link (by rw [h21]; exact l2), entWalk_link l2]
  generalize m.rd (frameN T2) (kidx va 2) &&& hwMask = T3 at *
  have hb3 := ho.backed _ _ o3
  rw [entWalk_last hb3]
  by_cases p3 : m.rd (frameN T3) (kidx va 3) &&& 1#64 = 0#64
  · rw [mmuWalk_absent (by rw [h12]; exact p3), if_pos p3]; rfl
  · rw [mmuWalk_final hb3 (by rw [h12]; exact p3), if_neg p3, h12]; rfl

end Firefly.Vmm
