import Firefly.Proof.Locked
import Firefly.Proof.PmmHistory
/-! The bitmap allocator as a lock-protected object: `AllocFrame` / `FreeFrame` as micro-step
operations of the machine of `Model/Locked.lean`, and what the sequential theorems of C01/C03 give
for every sequential run that the concurrent machine can be linearized to. -/
namespace Firefly.Locked.Pmm
open Firefly.Locked Firefly.Pmm

/-- thread-local scratch of a call: nothing yet / result of the scan (`AllocFrame`) / result of
`poolForFrame` (`FreeFrame`) / the value returned -/
inductive Scratch where
  | start
  | scanned (r : Option (Nat × Nat × Nat))
  | looked (r : Option Nat)
  | done (o : Out)
deriving Repr, DecidableEq

/-- `AllocFrame` between `Acquire` and `Release`: the scan, then the three writes -/
def allocOp : MicroOp Bitmap Scratch where
  init := .start
  steps := [
    fun x => (x.1, .scanned (allocScan x.1.pools 0)),
    fun x => match x.2 with
      | .scanned none => (x.1, .done .oom)
      | .scanned (some (i, blk, off)) =>
        match x.1.pools[i]? with
        | none => (x.1, .done .oom)
        | some p => ({ x.1 with pools := x.1.pools.set i (p.take blk off), reserved := inc32 x.1.reserved },
                     .done (.frame (p.start + (blk * 64 + off))))
      | other => (x.1, other)]

/-- `FreeFrame f` between `Acquire` and `Release`: `poolForFrame`, then the test and the three writes -/
def freeOp (f : Nat) : MicroOp Bitmap Scratch where
  init := .start
  steps := [
    fun x => (x.1, .looked (poolForFrame x.1.pools f)),
    fun x => match x.2 with
      | .looked none => (x.1, .done (.freeRes .notManaged))
      | .looked (some i) =>
        match x.1.pools[i]? with
        | none => (x.1, .done (.freeRes .panic))
        | some p =>
          match p.words[(f - p.start) / 64]? with
          | none => (x.1, .done (.freeRes .panic))
          | some w =>
            if w &&& bitMask (f - p.start) = 0 then (x.1, .done (.freeRes .doubleFree)) else
            ({ x.1 with pools := x.1.pools.set i (p.give (f - p.start)), reserved := dec32 x.1.reserved },
             .done (.freeRes .ok))
      | other => (x.1, other)]

def pmmSem : Op → MicroOp Bitmap Scratch
  | .alloc => allocOp
  | .free f => freeOp f

/-- executed alone, the micro-step operations are the sequential `AllocFrame` / `FreeFrame` of C01 -/
theorem pmmSem_run (o : Op) (bm : Bitmap) : (pmmSem o).run bm = ((stepOp bm o).1, .done (stepOp bm o).2) := by
  cases o with
  | alloc =>
    simp only [pmmSem, MicroOp.run, allocOp, exec, List.foldl_cons, List.foldl_nil, stepOp, alloc]
    cases hs : allocScan bm.pools 0 with
    | none => rfl
    | some r =>
      obtain ⟨i, blk, off⟩ := r
      simp only
      cases hp : bm.pools[i]? with
      | none => rfl
      | some p => rfl
  | free f =>
    simp only [pmmSem, MicroOp.run, freeOp, exec, List.foldl_cons, List.foldl_nil, stepOp, free]
    cases hs : poolForFrame bm.pools f with
    | none => rfl
    | some i =>
      simp only
      cases hp : bm.pools[i]? with
      | none => rfl
      | some p =>
        simp only
        cases hw : p.words[(f - p.start) / 64]? with
        | none => rfl
        | some w =>
          simp only
          split <;> rfl

/-- the allocator shared by the threads; `client` decides what every thread does next -/
def pmmSys (client : Nat → List (Op × Scratch) → Option Op) : Sys Bitmap Scratch Op :=
  { sem := pmmSem, client := client }

def heldUpd (H : List Nat) (o : Op) (r : Scratch) : List Nat :=
  match r with
  | .done out => heldStep H o out
  | _ => H

/-- the frames a thread holds according to its own history: returned by one of its `AllocFrame`
calls and not passed to a successful `FreeFrame` of its own since -/
def heldOf (h : List (Op × Scratch)) : List Nat := h.foldl (fun H e => heldUpd H e.1 e.2) []

/-- caller contract (the same as in C01/C03): a thread frees only frames it holds -/
def WellBehaved (client : Nat → List (Op × Scratch) → Option Op) : Prop :=
  ∀ i h f, client i h = some (.free f) → f ∈ heldOf h

/-- frames held by anybody after a sequential run -/
def globalHeld (tr : List (Nat × Op × Scratch)) : List Nat := tr.foldl (fun H e => heldUpd H e.2.1 e.2.2) []

theorem globalHeld_snoc (tr : List (Nat × Op × Scratch)) (i : Nat) (o : Op) (r : Scratch) :
    globalHeld (tr ++ [(i, o, r)]) = heldUpd (globalHeld tr) o r := by
  simp [globalHeld, List.foldl_append]

theorem heldOf_snoc (j i : Nat) (o : Op) (r : Scratch) (tr : List (Nat × Op × Scratch)) :
    heldOf (histOf j (tr ++ [(i, o, r)])) =
      if i = j then heldUpd (heldOf (histOf j tr)) o r else heldOf (histOf j tr) := by
  rw [histOf_append]
  by_cases h : i = j
  · simp [h, heldOf, List.foldl_append]
  · simp [h]

/-- what holds after every sequential run of operations issued by well-behaved clients -/
structure SeqInv (s0 bm : Bitmap) (tr : List (Nat × Op × Scratch)) : Prop where
  sim : Sim (isFree s0) bm (globalHeld tr)
  mem : ∀ f, f ∈ globalHeld tr ↔ ∃ j, f ∈ heldOf (histOf j tr)
  disj : ∀ j k f, f ∈ heldOf (histOf j tr) → f ∈ heldOf (histOf k tr) → j = k
  nodup : ∀ j, (heldOf (histOf j tr)).Nodup
  total : bm.total = s0.total
  reserved : bm.reserved = s0.reserved + (globalHeld tr).length

theorem seqInv_nil {s0 : Bitmap} (hI : Inv s0) : SeqInv s0 s0 [] :=
  ⟨sim_init hI, fun f => by simp [globalHeld, heldOf, histOf], fun j k f h => by simp [heldOf, histOf] at h,
   fun j => by simp [heldOf, histOf], rfl, by simp [globalHeld]⟩

theorem seqInv_step {s0 bm : Bitmap} {tr : List (Nat × Op × Scratch)} (h : SeqInv s0 bm tr) (i : Nat) (o : Op)
    (hc : ∀ f, o = .free f → f ∈ heldOf (histOf i tr)) :
    SeqInv s0 (stepOp bm o).1 (tr ++ [(i, o, .done (stepOp bm o).2)]) := by
  have hH := globalHeld_snoc tr i o (.done (stepOp bm o).2)
  simp only [heldUpd] at hH
  have hhs : ∀ j, heldOf (histOf j (tr ++ [(i, o, .done (stepOp bm o).2)])) =
      if i = j then heldStep (heldOf (histOf j tr)) o (stepOp bm o).2 else heldOf (histOf j tr) := by
    intro j; rw [heldOf_snoc]; simp only [heldUpd]
  cases o with
  | alloc =>
    obtain ⟨hsim, hfr, _, hfree⟩ := sim_step h.sim .alloc trivial
    cases ha : alloc bm with
    | mk bm' r =>
      have hso : stepOp bm .alloc = match r with | some f => (bm', Out.frame f) | none => (bm', Out.oom) := by
        simp only [stepOp, ha]; cases r <;> rfl
      cases r with
      | none =>
        simp only at hso
        have hb := (alloc_none h.sim.inv ha).1
        rw [hso] at hsim hH hhs ⊢
        simp only [heldStep] at hH hhs hsim
        subst hb
        refine ⟨by rw [hH]; exact hsim, ?_, ?_, ?_, h.total, by rw [hH]; exact h.reserved⟩
        · intro f; rw [hH]; simp only [hhs, ite_self]; exact h.mem f
        · intro j k f; simp only [hhs, ite_self]; exact h.disj j k f
        · intro j; simp only [hhs, ite_self]; exact h.nodup j
      | some f =>
        simp only at hso
        obtain ⟨_, _, _, ht, hres, _⟩ := alloc_some h.sim.inv ha
        have hfH : f ∉ globalHeld tr := (hfr f (by rw [hso])).2.1
        have hfj : ∀ j, f ∉ heldOf (histOf j tr) := fun j hm => hfH ((h.mem f).2 ⟨j, hm⟩)
        rw [hso] at hsim hH hhs ⊢
        simp only [heldStep] at hH hhs hsim
        refine ⟨by rw [hH]; exact hsim, ?_, ?_, ?_, by simp only; rw [ht, h.total],
          by simp only; rw [hH, hres, h.reserved]; simp; omega⟩
        · intro g
          rw [hH, List.mem_cons]
          constructor
          · rintro (rfl | hg)
            · exact ⟨i, by rw [hhs]; simp⟩
            · obtain ⟨j, hj⟩ := (h.mem g).1 hg
              refine ⟨j, ?_⟩
              rw [hhs]; split
              · exact List.mem_cons_of_mem _ hj
              · exact hj
          · rintro ⟨j, hj⟩
            rw [hhs] at hj
            split at hj
            · rcases List.mem_cons.1 hj with rfl | hj
              · exact Or.inl rfl
              · exact Or.inr ((h.mem g).2 ⟨j, hj⟩)
            · exact Or.inr ((h.mem g).2 ⟨j, hj⟩)
        · intro j k g hj hk
          rw [hhs] at hj hk
          by_cases ej : i = j
          · subst ej
            by_cases ek : i = k
            · exact ek
            · rw [if_pos rfl] at hj; rw [if_neg ek] at hk
              rcases List.mem_cons.1 hj with rfl | hj
              · exact absurd hk (hfj k)
              · exact h.disj i k g hj hk
          · by_cases ek : i = k
            · subst ek
              rw [if_neg ej] at hj; rw [if_pos rfl] at hk
              rcases List.mem_cons.1 hk with rfl | hk
              · exact absurd hj (hfj j)
              · exact h.disj j i g hj hk
            · rw [if_neg ej] at hj; rw [if_neg ek] at hk
              exact h.disj j k g hj hk
        · intro j
          rw [hhs]; split
          · exact List.nodup_cons.2 ⟨hfj j, h.nodup j⟩
          · exact h.nodup j
  | free f =>
    have hfi : f ∈ heldOf (histOf i tr) := hc f rfl
    have hfH : f ∈ globalHeld tr := (h.mem f).2 ⟨i, hfi⟩
    obtain ⟨hsim, hfr, _, hfree⟩ := sim_step h.sim (.free f) (Or.inl hfH)
    cases hf : free bm f with
    | mk bm' r =>
      have hso : stepOp bm (.free f) = (bm', Out.freeRes r) := by simp only [stepOp, hf]
      have hrok : r = .ok := ((hfree f r rfl (by rw [hso])).1).2 hfH
      subst hrok
      obtain ⟨_, _, _, ht, hres, _⟩ := free_ok h.sim.inv hf
      rw [hso] at hsim hH hhs ⊢
      simp only [heldStep] at hH hhs hsim
      have hnd := h.sim.nodup
      refine ⟨by rw [hH]; exact hsim, ?_, ?_, ?_, by simp only; rw [ht, h.total], ?_⟩
      · intro g
        rw [hH, hnd.mem_erase_iff]
        constructor
        · rintro ⟨hne, hg⟩
          obtain ⟨j, hj⟩ := (h.mem g).1 hg
          refine ⟨j, ?_⟩
          rw [hhs]; split
          · exact ((h.nodup j).mem_erase_iff).2 ⟨hne, hj⟩
          · exact hj
        · rintro ⟨j, hj⟩
          rw [hhs] at hj
          split at hj
          · obtain ⟨hne, hj⟩ := ((h.nodup j).mem_erase_iff).1 hj
            exact ⟨hne, (h.mem g).2 ⟨j, hj⟩⟩
          · rename_i hij
            refine ⟨?_, (h.mem g).2 ⟨j, hj⟩⟩
            rintro rfl
            exact hij (h.disj i j g hfi hj)
      · intro j k g hj hk
        rw [hhs] at hj hk
        have hj' : g ∈ heldOf (histOf j tr) := by
          split at hj
          · exact List.mem_of_mem_erase hj
          · exact hj
        have hk' : g ∈ heldOf (histOf k tr) := by
          split at hk
          · exact List.mem_of_mem_erase hk
          · exact hk
        exact h.disj j k g hj' hk'
      · intro j
        rw [hhs]; split
        · exact (h.nodup j).erase f
        · exact h.nodup j
      · simp only
        rw [hH, List.length_erase_of_mem hfH]
        have := List.length_pos_of_mem hfH
        have := h.reserved
        omega

/-- every prefix of a log whose operations were issued by well-behaved clients satisfies `SeqInv` -/
theorem seqInv_of_legal {client : Nat → List (Op × Scratch) → Option Op} (hwb : WellBehaved client)
    {s0 : Bitmap} (hI : Inv s0) (log : List (Nat × Op))
    (hlegal : ∀ pre i o, pre ++ [(i, o)] <+: log →
      client i (histOf i (seqRun (pmmSys client) s0 pre).2) = some o) :
    ∀ n, SeqInv s0 (seqRun (pmmSys client) s0 (log.take n)).1 (seqRun (pmmSys client) s0 (log.take n)).2 := by
  intro n
  induction n with
  | zero => simp only [List.take_zero, seqRun]; exact seqInv_nil hI
  | succ n ih =>
    by_cases hn : n < log.length
    · have ht : log.take (n + 1) = log.take n ++ [log[n]] := by
        rw [List.take_add_one]; simp [hn]
      rcases hx : log[n] with ⟨i, o⟩
      rw [hx] at ht
      have hpre : log.take n ++ [(i, o)] <+: log := by rw [← ht]; exact List.take_prefix _ _
      have hcl := hlegal _ i o hpre
      rw [ht, seqRun_append]
      simp only [pmmSys] at hcl ⊢
      rw [pmmSem_run]
      simp only
      exact seqInv_step ih i o (fun f hf => hwb i _ f (by rw [← hf]; exact hcl))
    · have : log.take (n + 1) = log.take n := by
        rw [List.take_of_length_le (by omega), List.take_of_length_le (by omega)]
      rw [this]; exact ih

/-- the frames thread `j` holds in a state of the concurrent machine -/
def held (s : State Bitmap Scratch Op) (j : Nat) : List Nat := heldOf (s.threads j).hist

/-- every reachable state of the concurrent allocator is explained by a sequential run (of the
operations that have completed) that satisfies `SeqInv` -/
theorem reachable_seqInv {client : Nat → List (Op × Scratch) → Option Op} (hwb : WellBehaved client)
    {s0 : Bitmap} (hI : Inv s0) {s : State Bitmap Scratch Op} (hr : Reachable (pmmSys client) s0 s) :
    ∃ pre, pre <+: s.log ∧ (∀ j, (s.threads j).hist = histOf j (seqRun (pmmSys client) s0 pre).2) ∧
      (s.holder = none → s.sh = (seqRun (pmmSys client) s0 pre).1) ∧
      SeqInv s0 (seqRun (pmmSys client) s0 pre).1 (seqRun (pmmSys client) s0 pre).2 := by
  have hl := reachable_lin hr
  have hall := seqInv_of_legal hwb hI s.log hl.legal
  have key : ∀ pre, pre <+: s.log →
      SeqInv s0 (seqRun (pmmSys client) s0 pre).1 (seqRun (pmmSys client) s0 pre).2 := by
    intro pre hp
    have := hall pre.length
    rw [← List.prefix_iff_eq_take.1 hp] at this
    exact this
  cases hh : s.holder with
  | none =>
    obtain ⟨h1, h2⟩ := hl.idle hh
    exact ⟨s.log, List.prefix_refl _, fun j => (h2 j).2, fun _ => h1, key _ (List.prefix_refl _)⟩
  | some i =>
    obtain ⟨pre, o, done, rem, loc, hlog, _, _, _, _, hhist⟩ := hl.busy i hh
    have hp : pre <+: s.log := by rw [hlog]; exact List.prefix_append _ _
    exact ⟨pre, hp, hhist, (fun h => by cases h), key pre hp⟩

end Firefly.Locked.Pmm
