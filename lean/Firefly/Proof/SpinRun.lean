import Firefly.Proof.SpinInv
/-!
C08: runs of a single thread while nobody else moves (used for `release_reacquirable` and
`deadlock_free`), computed by symbolic execution of the generated programs.
-/
set_option linter.unusedSimpArgs false
set_option linter.unusedVariables false
namespace Firefly.Spin
open Firefly.Gen.C08

/-- thread-local run of a list of moves -/
def trun (cfg : Config) (sh : Shared) (t : Thread) : List Choice → Option (Shared × Thread)
  | [] => some (sh, t)
  | ch :: rest => match tstep cfg sh t ch with
    | none => none
    | some (sh', t') => trun cfg sh' t' rest

/-- the schedule in which only thread `i` moves -/
def solo (i : Nat) (chs : List Choice) : List (Nat × Choice) := chs.map fun c => (i, c)

theorem set_same {l : List Thread} {i : Nat} {t : Thread} (h : l[i]? = some t) : l.set i t = l := by
  apply List.ext_getElem?
  intro j
  by_cases hij : i = j
  · subst hij; rw [get_set_self h, h]
  · rw [get_set_ne hij]

theorem runSched_solo (cfg : Config) (i : Nat) (chs : List Choice) :
    ∀ (s : State) (t : Thread) (sh' : Shared) (t' : Thread), s.threads[i]? = some t →
      trun cfg s.sh t chs = some (sh', t') →
      runSched cfg s (solo i chs) = some { sh := sh', threads := s.threads.set i t' } := by
  induction chs with
  | nil =>
    intro s t sh' t' hi h
    simp [trun] at h
    obtain ⟨rfl, rfl⟩ := h
    simp [solo, runSched, set_same hi]
  | cons ch rest ih =>
    intro s t sh' t' hi h
    simp only [trun] at h
    split at h
    · cases h
    · rename_i sh1 t1 h1
      have hstep : step cfg s i ch = some { sh := sh1, threads := s.threads.set i t1 } := by
        simp [step, hi, h1]
      have := ih { sh := sh1, threads := s.threads.set i t1 } t1 sh' t' (get_set_self hi) h
      simp only [solo, List.map_cons, runSched, hstep]
      simp only [solo] at this
      rw [this]
      simp [List.set_set]

theorem runSched_reachable {cfg : Config} {n : Nat} (sched : List (Nat × Choice)) :
    ∀ {s s' : State}, Reachable cfg n s → runSched cfg s sched = some s' → Reachable cfg n s' := by
  induction sched with
  | nil => intro s s' hr h; simp [runSched] at h; subst h; exact hr
  | cons mv rest ih =>
    intro s s' hr h
    obtain ⟨i, ch⟩ := mv
    simp only [runSched] at h
    split at h
    · cases h
    · rename_i s1 h1
      exact ih (Reachable.step i ch hr h1) h

/-- moves of a successful TryToAcquire / Acquire / Release by one thread -/
def tryMoves : List Choice := [.callTry, .run, .run]
def acquireMoves : List Choice := .callAcquire :: List.replicate 9 .run
def releaseMoves : List Choice := [.callRelease, .run, .run]

theorem try_alone (cfg : Config) (sh : Shared) (t : Thread) (h0 : sh.lock = 0) (hph : t.ph = .idle) :
    ∃ t', trun cfg sh t tryMoves = some ({ sh with lock := 1 }, t') ∧
      t'.ph = .idle ∧ t'.held = true ∧ t'.ret = some true := by
  simp [tryMoves, trun, tstep, goStep, body, tryGo, finish, hph, h0, two32]

theorem acquire_alone (cfg : Config) (sh : Shared) (t : Thread) (h0 : sh.lock = 0) (hph : t.ph = .idle)
    (hh : t.held = false) :
    ∃ t', trun cfg sh t acquireMoves = some ({ sh with lock := 1 }, t') ∧
      t'.ph = .idle ∧ t'.held = true := by
  simp [acquireMoves, List.replicate, trun, tstep, goStep, asmStep, body, acquireGo, acquireAsm, finish, hph, h0, hh, two32,
    load64, load32, store32, store64, getReg, setReg, fpStateOff, fpAttemptsOff]

theorem release_alone (cfg : Config) (sh : Shared) (t : Thread) (hph : t.ph = .idle) (hh : t.held = true) :
    ∃ t', trun cfg sh t releaseMoves = some ({ sh with lock := 0 }, t') ∧
      t'.ph = .idle ∧ t'.held = false := by
  simp [releaseMoves, trun, tstep, goStep, body, releaseGo, finish, hph, hh, two32]

/-- a thread that satisfies the invariant is never stuck -/
theorem can_step (cfg : Config) (sh : Shared) (t : Thread) (hL : Local cfg t) :
    ∃ ch r, tstep cfg sh t ch = some r := by
  cases hph : t.ph with
  | idle => exact ⟨.callTry, (sh, { t with ph := .go .try_ 0 }), by simp [tstep, hph]⟩
  | go m pc => exact ⟨.run, goStep sh t m pc, by simp [tstep, hph]⟩
  | asm m rpc pc => exact ⟨.run, asmStep cfg sh t m rpc pc none, by simp [tstep, hph]⟩
  | fault => simp [Local, hph] at hL

theorem trun_append (cfg : Config) (a b : List Choice) :
    ∀ (sh : Shared) (t : Thread) (sh1 : Shared) (t1 : Thread), trun cfg sh t a = some (sh1, t1) →
      trun cfg sh t (a ++ b) = trun cfg sh1 t1 b := by
  induction a with
  | nil => intro sh t sh1 t1 h; simp [trun] at h; obtain ⟨rfl, rfl⟩ := h; rfl
  | cons ch rest ih =>
    intro sh t sh1 t1 h
    simp only [trun, List.cons_append] at h ⊢
    split at h
    · cases h
    · rename_i sh2 t2 h2
      exact ih sh2 t2 sh1 t1 h

/-- an owner that keeps moving reaches the client (idle, holding) or has already freed the lock -/
theorem owner_to_idle (cfg : Config) (sh : Shared) (t : Thread) (hL : Local cfg t) (ho : Owner t) :
    ∃ chs, chs.length ≤ 4 ∧ ∃ sh1 t1, trun cfg sh t chs = some (sh1, t1) ∧
      ((t1.ph = .idle ∧ t1.held = true) ∨ sh1.lock = 0) := by
  cases hph : t.ph with
  | idle =>
    have : t.held = true := by simpa [Owner, hph] using ho
    exact ⟨[], by simp, sh, t, rfl, Or.inl ⟨hph, this⟩⟩
  | fault => simp [Local, hph] at hL
  | go m pc =>
    cases m <;> simp only [Local, hph] at hL
    · -- Acquire body: only `go acquire 1` owns
      obtain ⟨hpc, hh⟩ := hL
      have : pc = 1 := by
        rcases (by omega : pc = 0 ∨ pc = 1) with rfl | rfl
        · simp [Owner, hph, hh] at ho
        · rfl
      subst this
      refine ⟨[.run], by simp, ?_⟩
      simp [trun, tstep, goStep, body, acquireGo, finish, hph]
      exact ⟨_, _, ⟨rfl, rfl⟩, by simp [two32]⟩
    · -- TryToAcquire body
      rcases (by omega : pc = 0 ∨ pc = 1) with rfl | rfl
      · have hh : t.held = true := by simpa [Owner, hph] using ho
        refine ⟨[.run, .run], by simp, ?_⟩
        simp [trun, tstep, goStep, body, tryGo, finish, hph, hh]
        exact ⟨_, _, ⟨rfl, rfl⟩, by simp [two32]⟩
      · refine ⟨[.run], by simp, ?_⟩
        rcases ho with hh | hw
        · simp [trun, tstep, goStep, body, tryGo, finish, hph, hh]
          exact ⟨_, _, ⟨rfl, rfl⟩, by simp [two32]⟩
        · simp [hph] at hw
          simp [trun, tstep, goStep, body, tryGo, finish, hph, hw]
          exact ⟨_, _, ⟨rfl, rfl⟩, by simp [two32]⟩
    · -- Release body: only `go release 0` owns; its store frees the lock
      obtain ⟨hpc, hh⟩ := hL
      have : pc = 0 := by
        rcases (by omega : pc = 0 ∨ pc = 1) with rfl | rfl
        · rfl
        · simp [Owner, hph, hh] at ho
      subst this
      refine ⟨[.run], by simp, ?_⟩
      simp [trun, tstep, goStep, body, releaseGo, hph, two32]
      exact ⟨_, _, ⟨rfl, rfl⟩, by simp [two32]⟩
  | asm m rpc pc =>
    simp only [Local, hph] at hL
    obtain ⟨rfl, rfl, hh, hA⟩ := hL
    have hw : asmWon pc t := by simpa [Owner, hph, hh] using ho
    rcases pc with _|_|_|_|_|_|_|pc <;> simp only [asmWon] at hw
    · -- pc = 4: TESTL, JNZ (not taken), RET, return
      refine ⟨[.run, .run, .run, .run], by simp, ?_⟩
      simp [trun, tstep, goStep, asmStep, body, acquireGo, acquireAsm, finish, hph, hw, load32, getReg, two32]
      exact ⟨_, _, ⟨rfl, rfl⟩, by simp [two32]⟩
    · refine ⟨[.run, .run, .run], by simp, ?_⟩
      simp [trun, tstep, goStep, asmStep, body, acquireGo, acquireAsm, finish, hph, hw]
      exact ⟨_, _, ⟨rfl, rfl⟩, by simp [two32]⟩
    · refine ⟨[.run, .run], by simp, ?_⟩
      simp [trun, tstep, goStep, asmStep, body, acquireGo, acquireAsm, finish, hph]
      exact ⟨_, _, ⟨rfl, rfl⟩, by simp [two32]⟩

/-- if the owner keeps stepping (and then calls Release) the lock becomes free within 7 moves -/
theorem owner_can_free (cfg : Config) (sh : Shared) (t : Thread) (hL : Local cfg t) (ho : Owner t) :
    ∃ chs sh' t', chs.length ≤ 7 ∧ trun cfg sh t chs = some (sh', t') ∧ sh'.lock = 0 := by
  obtain ⟨chs, hlen, sh1, t1, hrun, h⟩ := owner_to_idle cfg sh t hL ho
  rcases h with ⟨hph, hh⟩ | h0
  · obtain ⟨t', hr, _, _⟩ := release_alone cfg sh1 t1 hph hh
    refine ⟨chs ++ releaseMoves, { sh1 with lock := 0 }, t', ?_, ?_, rfl⟩
    · simp [releaseMoves]; omega
    · rw [trun_append cfg chs releaseMoves sh t sh1 t1 hrun, hr]
  · exact ⟨chs, sh1, t1, by omega, hrun, h0⟩

end Firefly.Spin
