import Firefly.Model.Locked
/-! Lemmas about `Model/Locked.lean`: soundness of the lock-discipline checker, and the invariant
behind linearizability of lock-protected objects. -/
namespace Firefly.Locked

/-! ## (a) the checker is sound -/

theorem wb_append (p : Ph) (a b : List Ev) : wb p (a ++ b) = (wb p a).bind fun q => wb q b := by
  induction a generalizing p with
  | nil => simp [wb]
  | cons e es ih =>
    simp only [List.cons_append, wb]
    cases p.ev e with
    | none => simp
    | some q => simp [ih]

theorem joinPh_left {a b r : Option Ph} {q : Ph} (h : joinPh a b = some r) (ha : a = some q) : r = some q := by
  subst ha
  cases b with
  | none => simp [joinPh] at h; exact h.symm
  | some b =>
    simp only [joinPh] at h
    split at h
    · simp at h; exact h.symm
    · cases h

theorem joinPh_right {a b r : Option Ph} {q : Ph} (h : joinPh a b = some r) (hb : b = some q) : r = some q := by
  subst hb
  cases a with
  | none => simp [joinPh] at h; exact h.symm
  | some a =>
    simp only [joinPh] at h
    split at h
    · rename_i e; simp at h; subst e; exact h.symm
    · cases h

theorem Outs.join_some {a b o : Outs} (h : Outs.join a b = some o) :
    joinPh a.fall b.fall = some o.fall ∧ joinPh a.brk b.brk = some o.brk ∧ joinPh a.cont b.cont = some o.cont := by
  unfold Outs.join at h
  split at h
  · rename_i f k c h1 h2 h3
    injection h with h; subst h
    exact ⟨h1, h2, h3⟩
  · cases h

/-- the abstract result `o` allows the statement to end by `x` in phase `q` -/
def Outs.at (o : Outs) : Exit → Ph → Prop
  | .fall, q => o.fall = some q
  | .brk, q => o.brk = some q
  | .cont, q => o.cont = some q
  | .ret, q => q = .done

theorem Outs.at_join_left {a b o : Outs} {x : Exit} {q : Ph} (h : Outs.join a b = some o) (ha : a.at x q) : o.at x q := by
  obtain ⟨h1, h2, h3⟩ := Outs.join_some h
  cases x with
  | fall => exact joinPh_left h1 ha
  | brk => exact joinPh_left h2 ha
  | cont => exact joinPh_left h3 ha
  | ret => exact ha

theorem Outs.at_join_right {a b o : Outs} {x : Exit} {q : Ph} (h : Outs.join a b = some o) (hb : b.at x q) : o.at x q := by
  obtain ⟨h1, h2, h3⟩ := Outs.join_some h
  cases x with
  | fall => exact joinPh_right h1 hb
  | brk => exact joinPh_right h2 hb
  | cont => exact joinPh_right h3 hb
  | ret => exact hb

theorem check_seq_inv {a b : Skel} {p : Ph} {o : Outs} (h : check (.seq a b) p = some o) :
    ∃ oa, check a p = some oa ∧
      ((oa.fall = none ∧ o = oa) ∨
       ∃ q ob, oa.fall = some q ∧ check b q = some ob ∧ Outs.join { oa with fall := none } ob = some o) := by
  simp only [check] at h
  split at h
  · cases h
  · rename_i oa ha
    refine ⟨oa, ha, ?_⟩
    split at h
    · rename_i hf
      injection h with h
      exact Or.inl ⟨hf, h.symm⟩
    · rename_i q hf
      split at h
      · cases h
      · rename_i ob hb
        exact Or.inr ⟨q, ob, hf, hb, h⟩

theorem check_ite_inv {c t e : Skel} {p : Ph} {o : Outs} (h : check (.ite c t e) p = some o) :
    simple c = true ∧ (∃ oc, check c p = some oc) ∧
      ∃ ot oe, check t p = some ot ∧ check e p = some oe ∧ Outs.join ot oe = some o := by
  simp only [check] at h
  split at h
  · cases h
  · rename_i hs
    split at h
    · cases h
    · rename_i oc hc
      split at h
      · rename_i ot oe ht he
        exact ⟨by simpa using hs, ⟨oc, hc⟩, ot, oe, ht, he, h⟩
      · cases h

theorem check_loop_inv {c b post : Skel} {p : Ph} {o : Outs} (h : check (.loop c b post) p = some o) :
    simple c = true ∧ simple post = true ∧ (∃ oc, check c p = some oc) ∧
      ∃ ob, check b p = some ob ∧
        ∃ back, joinPh ob.fall ob.cont = some back ∧
          (∀ r, back = some r → r = p ∧ ∃ op, check post r = some op) ∧
          ∃ ex, joinPh (some p) ob.brk = some ex ∧ o = { fall := ex } := by
  simp only [check] at h
  split at h
  · cases h
  · rename_i hs
    have hs' : simple c = true ∧ simple post = true := by simpa using hs
    split at h
    · cases h
    · rename_i oc hc
      split at h
      · cases h
      · rename_i ob hb
        refine ⟨hs'.1, hs'.2, ⟨oc, hc⟩, ob, hb, ?_⟩
        split at h
        · cases h
        · rename_i hj
          refine ⟨none, hj, (fun r hr => by cases hr), ?_⟩
          cases hx : joinPh (some p) ob.brk with
          | none => simp [hx] at h
          | some ex => simp [hx] at h; exact ⟨ex, rfl, h.symm⟩
        · rename_i r hj
          split at h
          · cases h
          · rename_i op hp
            split at h
            · rename_i hrp
              refine ⟨some r, hj, (fun r' hr' => by cases hr'; exact ⟨hrp, op, hp⟩), ?_⟩
              cases hx : joinPh (some p) ob.brk with
              | none => simp [hx] at h
              | some ex => simp [hx] at h; exact ⟨ex, rfl, h.symm⟩
            · cases h

/-- a condition / post statement leaves the phase unchanged -/
theorem check_simple {c : Skel} (hs : simple c = true) {p : Ph} {o : Outs} (h : check c p = some o) :
    o = { fall := some p } := by
  induction c generalizing p o with
  | touch =>
    simp only [check] at h
    cases p <;> simp [Ph.ev] at h
    exact h.symm
  | peek => simp only [check] at h; injection h with h; exact h.symm
  | skip => simp only [check] at h; injection h with h; exact h.symm
  | seq a b iha ihb =>
    simp only [simple, Bool.and_eq_true] at hs
    obtain ⟨oa, ha, hcase⟩ := check_seq_inv h
    have hoa := iha hs.1 ha
    rcases hcase with ⟨hf, _⟩ | ⟨q, ob, hf, hb, hj⟩
    · rw [hoa] at hf; cases hf
    · rw [hoa] at hf; simp at hf; subst hf
      have hob := ihb hs.2 hb
      subst hoa hob
      simp [Outs.join, joinPh] at hj
      exact hj.symm
  | acquire | release | ret | brk | cont => simp [simple] at hs
  | ite _ _ _ _ _ _ => simp [simple] at hs
  | loop _ _ _ _ _ _ => simp [simple] at hs

/-- **soundness of the abstract interpreter**: if `check s p = some o`, every trace of `s` started in
phase `p` obeys the discipline, and ends in a phase that `o` announces for that kind of exit -/
theorem check_sound {s : Skel} {tr : List Ev} {x : Exit} (hr : Runs s tr x) :
    ∀ (p : Ph) (o : Outs), check s p = some o → ∃ q, wb p tr = some q ∧ o.at x q := by
  induction hr with
  | acquire =>
    intro p o h
    cases p <;> simp [check, Ph.ev] at h
    subst h; exact ⟨.held, rfl, rfl⟩
  | release =>
    intro p o h
    cases p <;> simp [check, Ph.ev] at h
    subst h; exact ⟨.done, rfl, rfl⟩
  | touch =>
    intro p o h
    cases p <;> simp [check, Ph.ev] at h
    subst h; exact ⟨.held, rfl, rfl⟩
  | peek =>
    intro p o h
    simp only [check] at h; injection h with h; subst h
    refine ⟨p, ?_, rfl⟩
    cases p <;> rfl
  | ret =>
    intro p o h
    simp only [check] at h
    split at h
    · rename_i hp; exact ⟨p, rfl, hp⟩
    · cases h
  | skip =>
    intro p o h
    simp only [check] at h; injection h with h; subst h
    exact ⟨p, rfl, rfl⟩
  | brk =>
    intro p o h
    simp only [check] at h; injection h with h; subst h
    exact ⟨p, rfl, rfl⟩
  | cont =>
    intro p o h
    simp only [check] at h; injection h with h; subst h
    exact ⟨p, rfl, rfl⟩
  | seqFall _ _ iha ihb =>
    intro p o h
    obtain ⟨oa, ha, hcase⟩ := check_seq_inv h
    obtain ⟨q, hw, hat⟩ := iha p oa ha
    simp only [Outs.at] at hat
    rcases hcase with ⟨hf, _⟩ | ⟨q', ob, hf, hb, hj⟩
    · rw [hat] at hf; cases hf
    · rw [hat] at hf; injection hf with hf; subst hf
      obtain ⟨q2, hw2, hat2⟩ := ihb q ob hb
      exact ⟨q2, by rw [wb_append, hw]; exact hw2, Outs.at_join_right hj hat2⟩
  | @seqExit a b ta x' _ hx iha =>
    intro p o h
    obtain ⟨oa, ha, hcase⟩ := check_seq_inv h
    obtain ⟨q, hw, hat⟩ := iha p oa ha
    rcases hcase with ⟨_, ho⟩ | ⟨q', ob, _, _, hj⟩
    · subst ho; exact ⟨q, hw, hat⟩
    · refine ⟨q, hw, Outs.at_join_left hj ?_⟩
      cases x' with
      | fall => exact absurd rfl hx
      | brk => exact hat
      | cont => exact hat
      | ret => exact hat
  | iteThen _ _ ihc iht =>
    intro p o h
    obtain ⟨hs, ⟨oc, hc⟩, ot, oe, ht, he, hj⟩ := check_ite_inv h
    obtain ⟨q, hw, hat⟩ := ihc p oc hc
    rw [check_simple hs hc] at hat
    simp only [Outs.at] at hat; injection hat with hat; subst hat
    obtain ⟨q2, hw2, hat2⟩ := iht p ot ht
    exact ⟨q2, by rw [wb_append, hw]; exact hw2, Outs.at_join_left hj hat2⟩
  | iteElse _ _ ihc ihe =>
    intro p o h
    obtain ⟨hs, ⟨oc, hc⟩, ot, oe, ht, he, hj⟩ := check_ite_inv h
    obtain ⟨q, hw, hat⟩ := ihc p oc hc
    rw [check_simple hs hc] at hat
    simp only [Outs.at] at hat; injection hat with hat; subst hat
    obtain ⟨q2, hw2, hat2⟩ := ihe p oe he
    exact ⟨q2, by rw [wb_append, hw]; exact hw2, Outs.at_join_right hj hat2⟩
  | loopDone _ ihc =>
    intro p o h
    obtain ⟨hs, _, ⟨oc, hc⟩, ob, hb, back, _, _, ex, hex, ho⟩ := check_loop_inv h
    obtain ⟨q, hw, hat⟩ := ihc p oc hc
    rw [check_simple hs hc] at hat
    simp only [Outs.at] at hat; injection hat with hat; subst hat
    subst ho
    exact ⟨p, hw, joinPh_left hex rfl⟩
  | loopBrk _ _ ihc ihb =>
    intro p o h
    obtain ⟨hs, _, ⟨oc, hc⟩, ob, hb, back, _, _, ex, hex, ho⟩ := check_loop_inv h
    obtain ⟨q, hw, hat⟩ := ihc p oc hc
    rw [check_simple hs hc] at hat
    simp only [Outs.at] at hat; injection hat with hat; subst hat
    obtain ⟨q2, hw2, hat2⟩ := ihb p ob hb
    subst ho
    exact ⟨q2, by rw [wb_append, hw]; exact hw2, joinPh_right hex hat2⟩
  | loopRet _ _ ihc ihb =>
    intro p o h
    obtain ⟨hs, _, ⟨oc, hc⟩, ob, hb, _⟩ := check_loop_inv h
    obtain ⟨q, hw, hat⟩ := ihc p oc hc
    rw [check_simple hs hc] at hat
    simp only [Outs.at] at hat; injection hat with hat; subst hat
    obtain ⟨q2, hw2, hat2⟩ := ihb p ob hb
    exact ⟨q2, by rw [wb_append, hw]; exact hw2, hat2⟩
  | loopIter _ _ hx _ _ ihc ihb ihp ihl =>
    intro p o h
    obtain ⟨hs, hsp, ⟨oc, hc⟩, ob, hb, back, hback, hr, _⟩ := check_loop_inv h
    obtain ⟨q, hw, hat⟩ := ihc p oc hc
    rw [check_simple hs hc] at hat
    simp only [Outs.at] at hat; injection hat with hat; subst hat
    obtain ⟨q2, hw2, hat2⟩ := ihb p ob hb
    have hq2 : back = some q2 := by
      rcases hx with rfl | rfl
      · exact joinPh_left hback hat2
      · exact joinPh_right hback hat2
    obtain ⟨hq2p, op, hop⟩ := hr q2 hq2
    subst hq2p
    obtain ⟨q3, hw3, hat3⟩ := ihp q2 op hop
    rw [check_simple hsp hop] at hat3
    simp only [Outs.at] at hat3; injection hat3 with hat3; subst hat3
    obtain ⟨q4, hw4, hat4⟩ := ihl q2 o h
    refine ⟨q4, ?_, hat4⟩
    rw [wb_append, wb_append, wb_append, hw]
    simp only [Option.bind_some]
    rw [hw2]; simp only [Option.bind_some]
    rw [hw3]; exact hw4

/-- events other than `peek` -/
def lockEvents (tr : List Ev) : List Ev := tr.filter (· != Ev.pk)

theorem wb_done {tr : List Ev} {q : Ph} (h : wb .done tr = some q) : q = .done ∧ lockEvents tr = [] := by
  induction tr with
  | nil => simp [wb] at h; exact ⟨h.symm, rfl⟩
  | cons e es ih =>
    cases e <;> simp [wb, Ph.ev] at h
    obtain ⟨h1, h2⟩ := ih h
    exact ⟨h1, by simp [lockEvents] at h2 ⊢; exact h2⟩

theorem wb_held {tr : List Ev} (h : wb .held tr = some .done) :
    ∃ k, lockEvents tr = List.replicate k Ev.tch ++ [Ev.rel] := by
  induction tr with
  | nil => simp [wb] at h
  | cons e es ih =>
    cases e <;> simp [wb, Ph.ev] at h
    · obtain ⟨_, h2⟩ := wb_done h
      refine ⟨0, ?_⟩
      simp [lockEvents] at h2 ⊢; exact h2
    · obtain ⟨k, hk⟩ := ih h
      refine ⟨k + 1, ?_⟩
      simp [lockEvents, List.replicate_succ] at hk ⊢; exact hk
    · obtain ⟨k, hk⟩ := ih h
      exact ⟨k, by simp [lockEvents] at hk ⊢; exact hk⟩

/-- a trace accepted from `pre` to `done` is one critical section: acquire, touches, release -/
theorem wb_pre {tr : List Ev} (h : wb .pre tr = some .done) :
    ∃ k, lockEvents tr = Ev.acq :: (List.replicate k Ev.tch ++ [Ev.rel]) := by
  induction tr with
  | nil => simp [wb] at h
  | cons e es ih =>
    cases e <;> simp [wb, Ph.ev] at h
    · obtain ⟨k, hk⟩ := wb_held h
      exact ⟨k, by simp [lockEvents] at hk ⊢; exact hk⟩
    · obtain ⟨k, hk⟩ := ih h
      exact ⟨k, by simp [lockEvents] at hk ⊢; exact hk⟩

/-! ## (b) the machine -/

section Machine
variable {σ ρ O : Type}

theorem exec_append (a b : List (σ × ρ → σ × ρ)) (x : σ × ρ) : exec (a ++ b) x = exec b (exec a x) := by
  simp [exec, List.foldl_append]

theorem seqRun_append (S : Sys σ ρ O) (s0 : σ) (l : List (Nat × O)) (i : Nat) (o : O) :
    seqRun S s0 (l ++ [(i, o)]) =
      (((S.sem o).run (seqRun S s0 l).1).1,
       (seqRun S s0 l).2 ++ [(i, o, ((S.sem o).run (seqRun S s0 l).1).2)]) := by
  induction l generalizing s0 with
  | nil => simp [seqRun]
  | cons x xs ih =>
    obtain ⟨j, o'⟩ := x
    simp only [List.cons_append, seqRun, ih]

theorem histOf_append (j i : Nat) (o : O) (r : ρ) (tr : List (Nat × O × ρ)) :
    histOf j (tr ++ [(i, o, r)]) = histOf j tr ++ (if i = j then [(o, r)] else []) := by
  unfold histOf
  rw [List.filterMap_append]
  by_cases h : i = j <;> simp [h]

theorem upd_self {α : Type} (f : Nat → α) (i : Nat) (a : α) : upd f i a i = a := by simp [upd]
theorem upd_other {α : Type} (f : Nat → α) (i j : Nat) (a : α) (h : j ≠ i) : upd f i a j = f j := by simp [upd, h]

theorem lin_init (S : Sys σ ρ O) (s0 : σ) : Lin S s0 ({ sh := s0 } : State σ ρ O) := by
  refine ⟨fun _ => ⟨rfl, fun j => ⟨rfl, rfl⟩⟩, (fun i h => by cases h), fun pre i o h => ?_⟩
  have := List.IsPrefix.length_le h
  simp at this

theorem lin_step {S : Sys σ ρ O} {s0 : σ} {s s' : State σ ρ O} {i : Nat} (h : Lin S s0 s)
    (hs : step S s i = some s') : Lin S s0 s' := by
  unfold step at hs
  simp only at hs
  split at hs
  · -- acquire
    rename_i hcur
    split at hs
    · rename_i o hh hc
      injection hs with hs; subst hs
      obtain ⟨hsh, hall⟩ := h.idle hh
      refine ⟨(fun hn => by simp at hn), fun i' hi' => ?_, fun pre i' o' hp => ?_⟩
      · simp only [Option.some.injEq] at hi'; subst hi'
        refine ⟨s.log, o, [], (S.sem o).steps, (S.sem o).init, rfl, by simp [upd_self], by simp, ?_, ?_, ?_⟩
        · simp [exec, hsh]
        · intro j hj; simp only [upd_other _ _ _ _ hj]; exact (hall j).1
        · intro j
          by_cases hj : j = i
          · subst hj; simp only [upd_self]; exact (hall j).2
          · simp only [upd_other _ _ _ _ hj]; exact (hall j).2
      · simp only at hp
        rcases List.prefix_concat_iff.1 hp with heq | hpre
        · obtain ⟨h1, h2⟩ := List.append_inj' heq (by simp)
          simp only [List.cons.injEq, Prod.mk.injEq, and_true] at h2
          obtain ⟨rfl, rfl⟩ := h2
          subst h1
          rw [← (hall i').2]; exact hc
        · exact h.legal pre i' o' hpre
    · cases hs
  · -- micro-step
    rename_i o f fs loc hcur
    split at hs
    · rename_i hh
      injection hs with hs; subst hs
      obtain ⟨pre, o1, done, rem, loc1, hlog, hc1, hsteps, hex, hoth, hhist⟩ := h.busy i hh
      rw [hcur] at hc1
      simp only [Option.some.injEq, Prod.mk.injEq] at hc1
      obtain ⟨rfl, rfl, rfl⟩ := hc1
      refine ⟨(fun hn => by simp [hh] at hn), fun i' hi' => ?_, h.legal⟩
      simp only [hh, Option.some.injEq] at hi'; subst hi'
      refine ⟨pre, o, done ++ [f], fs, (f (s.sh, loc)).2, hlog, by simp [upd_self], by simp [hsteps], ?_, ?_, ?_⟩
      · rw [exec_append, ← hex]; simp [exec]
      · intro j hj; simp only [upd_other _ _ _ _ hj]; exact hoth j hj
      · intro j
        by_cases hj : j = i
        · subst hj; simp only [upd_self]; exact hhist j
        · simp only [upd_other _ _ _ _ hj]; exact hhist j
    · cases hs
  · -- release
    rename_i o loc hcur
    split at hs
    · rename_i hh
      injection hs with hs; subst hs
      obtain ⟨pre, o1, done, rem, loc1, hlog, hc1, hsteps, hex, hoth, hhist⟩ := h.busy i hh
      rw [hcur] at hc1
      simp only [Option.some.injEq, Prod.mk.injEq] at hc1
      obtain ⟨rfl, rfl, rfl⟩ := hc1
      simp only [List.append_nil] at hsteps
      have hrun : (S.sem o).run (seqRun S s0 pre).1 = (s.sh, loc) := by
        unfold MicroOp.run; rw [hsteps]; exact hex.symm
      refine ⟨fun _ => ⟨?_, fun j => ⟨?_, ?_⟩⟩, (fun i' hi' => by simp at hi'), h.legal⟩
      · simp only [hlog, seqRun_append, hrun]
      · by_cases hj : j = i
        · subst hj; simp [upd_self]
        · simp only [upd_other _ _ _ _ hj]; exact hoth j hj
      · simp only [hlog, seqRun_append, hrun, histOf_append]
        by_cases hj : j = i
        · subst hj; simp [upd_self, hhist j]
        · simp only [upd_other _ _ _ _ hj, hhist j]
          have : ¬ i = j := fun e => hj e.symm
          simp [this]
    · cases hs

theorem reachable_lin {S : Sys σ ρ O} {s0 : σ} {s : State σ ρ O} (hr : Reachable S s0 s) : Lin S s0 s := by
  induction hr with
  | init => exact lin_init S s0
  | step i _ hs ih => exact lin_step ih hs

/-- while thread `i` holds the lock with `rem` micro-steps to go, `rem.length + 1` steps of `i` free it -/
theorem holder_finishes (S : Sys σ ρ O) (i : Nat) (rem : List (σ × ρ → σ × ρ)) :
    ∀ (s : State σ ρ O) (o : O) (loc : ρ), s.holder = some i → (s.threads i).cur = some (o, rem, loc) →
      ∃ s', stepN S i (rem.length + 1) s = some s' ∧ s'.holder = none := by
  induction rem with
  | nil =>
    intro s o loc hh hc
    have hst : ∃ s', step S s i = some s' ∧ s'.holder = none := by
      simp only [step, hc, hh, if_true]; exact ⟨_, rfl, rfl⟩
    obtain ⟨s', h1, h2⟩ := hst
    exact ⟨s', by simp [stepN, h1], h2⟩
  | cons f fs ih =>
    intro s o loc hh hc
    have hst : ∃ s', step S s i = some s' ∧ s'.holder = some i ∧ ∃ loc', (s'.threads i).cur = some (o, fs, loc') := by
      simp only [step, hc, hh, if_true]; exact ⟨_, rfl, rfl, (f (s.sh, loc)).2, by simp [upd_self]⟩
    obtain ⟨s1, h1, h2, loc', h3⟩ := hst
    obtain ⟨s', h4, h5⟩ := ih s1 o loc' h2 h3
    exact ⟨s', by simp only [List.length_cons, stepN, h1]; exact h4, h5⟩

/-- deadlock freedom: some thread can step, or nobody holds the lock and every client is finished -/
theorem progress {S : Sys σ ρ O} {s0 : σ} {s : State σ ρ O} (h : Lin S s0 s) :
    (∃ i s', step S s i = some s') ∨ (s.holder = none ∧ ∀ i, S.client i (s.threads i).hist = none) := by
  cases hh : s.holder with
  | none =>
    by_cases hex : ∃ i, S.client i (s.threads i).hist ≠ none
    · obtain ⟨i, hi⟩ := hex
      cases hc : S.client i (s.threads i).hist with
      | none => exact absurd hc hi
      | some o =>
        refine Or.inl ⟨i, ?_⟩
        simp only [step, ((h.idle hh).2 i).1, hh, hc]
        exact ⟨_, rfl⟩
    · refine Or.inr ⟨rfl, fun i => ?_⟩
      cases hc : S.client i (s.threads i).hist with
      | none => rfl
      | some o => exact absurd ⟨i, by rw [hc]; simp⟩ hex
  | some i =>
    obtain ⟨pre, o, done, rem, loc, _, hc, _⟩ := h.busy i hh
    refine Or.inl ⟨i, ?_⟩
    cases rem with
    | nil => simp only [step, hc, hh, if_true]; exact ⟨_, rfl⟩
    | cons f fs => simp only [step, hc, hh, if_true]; exact ⟨_, rfl⟩

theorem reachable_runSched {S : Sys σ ρ O} {s0 : σ} (sched : List Nat) :
    ∀ {s s' : State σ ρ O}, Reachable S s0 s → runSched S sched s = some s' → Reachable S s0 s' := by
  induction sched with
  | nil => intro s s' hr h; simp [runSched] at h; subst h; exact hr
  | cons i rest ih =>
    intro s s' hr h
    simp only [runSched] at h
    cases hs : step S s i with
    | none => simp [hs] at h
    | some s1 => simp only [hs] at h; exact ih (Reachable.step i hr hs) h

end Machine
end Firefly.Locked
