import Firefly.Proof.AmlNestConnect
/-!
C11, the nested fragment: the five walks that find nothing to do, on pools of any depth.
-/
namespace Firefly.AmlParser.F
open Firefly.AmlLex Firefly.AmlTree Firefly.C13 Firefly.AmlParser Firefly.AmlParser.G Firefly.AmlParser.S
open Firefly.Gen.C12 Firefly.AmlProg

def Node.x : Node → Nat
  | .name x _ _ _ _ _ => x
  | .dev _ x _ _ _ _ _ _ _ => x
  | .leaf _ x _ _ _ _ => x

theorem tops_true (ns : List Node) : tops true ns = ns.map Node.x := by
  induction ns with
  | nil => rfl
  | cons n ns ih => cases n <;> simp [tops, Node.x, ih]

theorem sizeN_le {n : Node} {ns : List Node} (h : n ∈ ns) : sizeN n + ns.length ≤ sizeL ns + 1 := by
  induction ns with
  | nil => cases h
  | cons m ns ih =>
    simp only [sizeL, List.length_cons]
    rcases List.mem_cons.1 h with e | h'
    · subst e
      have : ns.length ≤ sizeL ns := by
        clear ih h
        induction ns with
        | nil => simp [sizeL]
        | cons a ns ih => have := sizeN_pos a; simp only [sizeL, List.length_cons]; omega
      omega
    · have := ih h'
      have := sizeN_pos m
      omega

theorem guards_dev {t : ObjectTree} {h x c off : Nat} (kd : BKind) (hop : (slot t x).opcode = kd.op)
    (hinf : (slot t x).infoIndex = pOpcodeTableIndex kd.op true) (hfi : Fi t x = c) (hc : live t c = true)
    (hv : (slot t c).value = .bytes off 4) : Guards t h x := by
  obtain ⟨fl, a1, a2, a3, a4, _⟩ := rowSummary_spec (row_blk kd)
  have a1' : opFlags (slot t x).infoIndex = some fl := by rw [hinf]; exact a1
  refine ⟨⟨fl, a1', a3, ?_⟩, ⟨fl, a1', a3, Or.inr ⟨c, off, hfi, hc, hv⟩⟩, ⟨fl, a1', a4⟩, ?_, ⟨fl, a1', Or.inl a2⟩⟩
  · rw [hop]; intro hq; exact kd.op_ne.2.2.2.2.2.2.1 hq.1
  · rw [hop]; exact kd.op_ne.2.2.2.2.2.2.2.1

theorem guards_leaf {t : ObjectTree} {h x c off : Nat} (kd : LKind) (hop : (slot t x).opcode = kd.op)
    (hinf : (slot t x).infoIndex = pOpcodeTableIndex kd.op true) (hfi : Fi t x = c) (hc : live t c = true)
    (hv : (slot t c).value = .bytes off 4) : Guards t h x := by
  obtain ⟨fl, a1, a2, a3, a4, _⟩ := rowSummary_spec (row_leaf kd)
  have a1' : opFlags (slot t x).infoIndex = some fl := by rw [hinf]; exact a1
  refine ⟨⟨fl, a1', a3, ?_⟩, ⟨fl, a1', a3, Or.inr ⟨c, off, hfi, hc, hv⟩⟩, ⟨fl, a1', a4⟩, ?_, ⟨fl, a1', Or.inl a2⟩⟩
  · rw [hop]; intro hq; exact kd.op_ne.2.2.2.2.2.2.1 hq.1
  · rw [hop]; exact kd.op_ne.2.2.2.2.2.2.2.1

mutual
/-- the guards of the five walks hold at every object of a connected node -/
theorem guards_node {d : Bytes} {t : ObjectTree} {h h' : Nat} (w : WF t) :
    ∀ (p : Nat) (n : Node), NodeOK d t h true true p n → ∀ y ∈ n.objs, Guards t h' y
  | p, .name x c k off seg dv, ok, y, hy => by
    unfold NodeOK at ok
    have hk : K t x = [c, k] := ok.kx
    simp only [Node.objs, List.mem_cons, List.mem_nil_iff, or_false] at hy
    rcases hy with e | e | e <;> rw [e]
    · exact guards_x ok.opx ok.infx (first_of_kids w ok.lx hk) ok.lc ok.valc
    · exact guards_c ok.opc ok.infc
    · exact guards_dk ok.opk ok.infk
  | p, .dev kd x c sb off pw seg es kids, ok, y, hy => by
    unfold NodeOK at ok
    obtain ⟨dt, _, okk⟩ := ok
    simp only [Node.objs, List.mem_append, List.mem_cons, List.mem_nil_iff, or_false, List.mem_map] at hy
    rcases hy with (e | e | e) | ⟨a, ha, e⟩ | hy
    · rw [e]; exact guards_dev kd dt.opx dt.infx (first_of_kids w dt.lx dt.kx) dt.lc dt.valc
    · rw [e]; exact guards_c dt.opc dt.infc
    · rw [e]; exact guards_sb dt.opsb dt.infsb
    · rw [← e]; exact guards_k (dt.args a ha).op (dt.args a ha).inf
    · exact guards_nodes w sb kids okk y hy
  | p, .leaf kd x c off seg es, ok, y, hy => by
    unfold NodeOK at ok
    simp only [Node.objs, List.mem_cons, List.mem_map] at hy
    rcases hy with e | e | ⟨a, ha, e⟩
    · rw [e]; exact guards_leaf kd ok.opx ok.infx (first_of_kids w ok.lx ok.kx) ok.lc ok.valc
    · rw [e]; exact guards_c ok.opc ok.infc
    · rw [← e]; exact guards_k (ok.args a ha).op (ok.args a ha).inf
theorem guards_nodes {d : Bytes} {t : ObjectTree} {h h' : Nat} (w : WF t) :
    ∀ (p : Nat) (ns : List Node), NodesOK d t h true p ns → ∀ y ∈ objsL ns, Guards t h' y
  | _, [], _, y, hy => by simp [objsL] at hy
  | p, n :: ns, ok, y, hy => by
    unfold NodesOK at ok
    simp only [objsL, List.mem_append] at hy
    rcases hy with hy | hy
    · exact guards_node w p n ok.1 y hy
    · exact guards_nodes w p ns ok.2 y hy
end

theorem length_le_sizeL (ns : List Node) : ns.length ≤ sizeL ns := by
  induction ns with
  | nil => simp [sizeL]
  | cons a ns ih => have := sizeN_pos a; simp only [sizeL, List.length_cons]; omega

section walk
variable {d : Bytes} {t : ObjectTree} {h hn : Nat} (W : Nat → Nat → P PRes) (G : Nat → Prop)
  (node : ∀ x N, live t x = true → G x → (∀ y ∈ K t x, QuietAt t h (fun f => W f y) N ∧ G y) →
    QuietAt t h (fun f => W f x) ((K t x).length + N + 2))
include node

theorem walk_leaf {y : Nat} (hy : live t y = true) (hk : K t y = []) (hg : G y) : QuietAt t h (fun f => W f y) 2 := by
  have := node y 0 hy hg (by rw [hk]; intro z hz; cases hz)
  rw [hk] at this
  exact this

mutual
/-- a walk that is quiet at every object whose guard holds is quiet on a connected node, with fuel linear in its size -/
theorem walk_node : ∀ (p : Nat) (n : Node), NodeOK d t hn true true p n → (∀ y ∈ n.objs, G y) →
    QuietAt t h (fun f => W f n.x) (7 * sizeN n)
  | p, .name x c k off seg dv, ok, hg => by
    unfold NodeOK at ok
    have hk : K t x = [c, k] := ok.kx
    have gx := hg x (by simp [Node.objs])
    have gc := hg c (by simp [Node.objs])
    have gk := hg k (by simp [Node.objs])
    have := node x 2 ok.lx gx (by
      rw [hk]
      intro z hz
      simp only [List.mem_cons, List.mem_nil_iff, or_false] at hz
      rcases hz with e | e
      · rw [e]; exact ⟨walk_leaf W G node ok.lc ok.kc gc, gc⟩
      · rw [e]; exact ⟨walk_leaf W G node ok.lk ok.kk gk, gk⟩)
    rw [hk] at this
    exact this.mono (by simp [sizeN])
  | p, .dev kd x c sb off pw seg es kids, ok, hg => by
    unfold NodeOK at ok
    obtain ⟨dt, hksb, okk⟩ := ok
    have gx := hg x (by simp [Node.objs])
    have gc := hg c (by simp [Node.objs])
    have gsb := hg sb (by simp [Node.objs])
    have gk : ∀ y ∈ objsL kids, G y := fun y hy => hg y (by simp [Node.objs, hy])
    have hsbk : K t sb = kids.map Node.x := by rw [hksb, tops_true]
    have hx : K t x = c :: (es.map (·.e) ++ [sb]) := dt.kx
    have hesl : es.length = kd.ws.length := by rw [← dt.wsok, List.length_map]
    have qes : ∀ z ∈ es.map (·.e), QuietAt t h (fun f => W f z) 2 ∧ G z := by
      intro z hz
      obtain ⟨a, ha, e⟩ := List.mem_map.1 hz
      rw [← e]
      have ge := hg a.e (by
        simp only [Node.objs, List.mem_append, List.mem_cons, List.mem_map]
        exact Or.inr (Or.inl ⟨a, ha, rfl⟩))
      exact ⟨walk_leaf W G node (dt.args a ha).le (dt.args a ha).ke ge, ge⟩
    have hl := length_le_sizeL kids
    by_cases hke : kids = []
    · have hsb0 : K t sb = [] := by rw [hksb, hke]; rfl
      have := node x 2 dt.lx gx (by
        rw [hx]
        intro z hz
        simp only [List.mem_cons, List.mem_append, List.mem_nil_iff, or_false] at hz
        rcases hz with e | hz | e
        · rw [e]; exact ⟨walk_leaf W G node dt.lc dt.kc gc, gc⟩
        · exact qes z hz
        · rw [e]; exact ⟨walk_leaf W G node dt.lsb hsb0 gsb, gsb⟩)
      rw [hx] at this
      exact this.mono (by simp only [sizeN, List.length_cons, List.length_append, List.length_map, List.length_nil]; omega)
    have hkids := walk_list sb kids okk gk
    -- the scope block
    have qsb : QuietAt t h (fun f => W f sb) (kids.length + 7 * (sizeL kids + 1 - kids.length) + 2) := by
      have := node sb (7 * (sizeL kids + 1 - kids.length)) dt.lsb gsb (by
        rw [hsbk]
        intro z hz
        obtain ⟨n, hn, e⟩ := List.mem_map.1 hz
        rw [← e]
        have h1 := sizeN_le hn
        refine ⟨(hkids n hn).1.mono (by omega), (hkids n hn).2⟩)
      rw [hsbk, List.length_map] at this
      exact this
    have := node x (kids.length + 7 * (sizeL kids + 1 - kids.length) + 2) dt.lx gx (by
      rw [hx]
      intro z hz
      simp only [List.mem_cons, List.mem_append, List.mem_nil_iff, or_false] at hz
      rcases hz with e | hz | e
      · rw [e]; exact ⟨(walk_leaf W G node dt.lc dt.kc gc).mono (by omega), gc⟩
      · exact ⟨(qes z hz).1.mono (by omega), (qes z hz).2⟩
      · rw [e]; exact ⟨qsb, gsb⟩)
    rw [hx] at this
    refine this.mono ?_
    simp only [sizeN, List.length_cons, List.length_append, List.length_map, List.length_nil]
    have : 1 ≤ kids.length := by
      cases hq : kids with
      | nil => exact absurd hq hke
      | cons a as => simp
    omega
  | p, .leaf kd x c off seg es, ok, hg => by
    unfold NodeOK at ok
    have gx := hg x (by simp [Node.objs])
    have hesl : es.length ≤ 1 := by
      have hwl : kd.ws.length ≤ 1 := by cases kd <;> simp [LKind.ws]
      have := congrArg List.length ok.wsok
      rw [List.length_map] at this
      omega
    have := node x 2 ok.lx gx (by
      rw [ok.kx]
      intro z hz
      rcases List.mem_cons.1 hz with e | hz
      · rw [e]
        have gc := hg c (by simp [Node.objs])
        exact ⟨walk_leaf W G node ok.lc ok.kc gc, gc⟩
      · obtain ⟨a, ha, e⟩ := List.mem_map.1 hz
        rw [← e]
        have ge := hg a.e (by simp only [Node.objs, List.mem_cons, List.mem_map]; exact Or.inr (Or.inr ⟨a, ha, rfl⟩))
        exact ⟨walk_leaf W G node (ok.args a ha).le (ok.args a ha).ke ge, ge⟩)
    rw [ok.kx] at this
    exact this.mono (by simp only [sizeN, List.length_cons, List.length_map]; omega)
theorem walk_list : ∀ (p : Nat) (ns : List Node), NodesOK d t hn true p ns → (∀ y ∈ objsL ns, G y) →
    ∀ n ∈ ns, QuietAt t h (fun f => W f n.x) (7 * sizeN n) ∧ G n.x
  | _, [], _, _ => by intro n hn; cases hn
  | p, m :: ns, ok, hg => by
    intro n hn
    unfold NodesOK at ok
    rcases List.mem_cons.1 hn with e | hn'
    · rw [e]
      refine ⟨walk_node p m ok.1 (fun y hy => hg y (by simp [objsL, hy])), hg m.x (by
        cases m <;> simp [objsL, Node.objs, Node.x])⟩
    · exact walk_list p ns ok.2 (fun y hy => hg y (by simp [objsL, hy])) n hn'
end

/-- …and on the whole pool, from the root -/
theorem walk_root {t0 : ObjectTree} {ns : List Node} (fl : NestT d t0 t h ns) (b : Base t0) (g0 : G 0)
    (gold : ∀ y ∈ K t0 0, G y) (gn : ∀ y ∈ objsL ns, G y) :
    QuietAt t h (fun f => W f 0) ((K t0 0).length + ns.length + 7 * sizeL ns + 4) := by
  have h0 : live t 0 = true := (fl.old 0 b.root).1
  have hk0 : K t 0 = K t0 0 ++ ns.map Node.x := by rw [fl.k0, tops_true]
  have hn := walk_list W G node 0 ns fl.ok gn
  have := node 0 (7 * sizeL ns + 2) h0 g0 (by
    rw [hk0]
    intro z hz
    rcases List.mem_append.1 hz with hz | hz
    · obtain ⟨hzl, hzp⟩ := (K_mem b.wf b.root z).1 hz
      have hz0 : z ≠ 0 := fun e => by
        rw [e, b.rootp] at hzp; exact live_ne_INV b.wf.size_le b.root hzp.symm
      obtain ⟨a1, _, _, a4⟩ := fl.old z hzl
      refine ⟨(walk_leaf W G node a1 (by rw [a4 hz0]; exact (b.kid z hz).1) (gold z hz)).mono (by omega), gold z hz⟩
    · obtain ⟨n, hnm, e⟩ := List.mem_map.1 hz
      rw [← e]
      have h1 := sizeN_le hnm
      have h2 : 1 ≤ ns.length := List.length_pos_of_mem hnm
      exact ⟨(hn n hnm).1.mono (by omega), (hn n hnm).2⟩)
  rw [hk0, List.length_append, List.length_map] at this
  exact this.mono (by omega)

end walk

/-- **the five walks are quiet on the pool of a nested program** -/
theorem walks_nest (d : Bytes) (fuel : Nat) {t0 t : ObjectTree} {h : Nat} {ns : List Node} (fl : NestT d t0 t h ns) (b : Base t0) :
    let N := (K t0 0).length + ns.length + 7 * sizeL ns + 4
    QuietAt t h (fun f => mergeScopeDirectives d f 0) N ∧ QuietAt t h (fun f => relocateNamedObjects d f 0) N ∧
    QuietAt t h (fun f => parseDeferredBlocks d fuel f 0) N ∧ QuietAt t h (fun f => resolveMethodCalls d f 0) N ∧
    QuietAt t h (fun f => connectNonNamedObjArgs f 0) N := by
  intro N
  have w := fl.wf
  have g0 : Guards t h 0 := by
    obtain ⟨_, a2, _, _⟩ := fl.old 0 b.root
    exact guards_sb (by rw [pay_opcode a2]; exact b.rootop) (by rw [pay_info a2]; exact b.rootinf)
  have gold : ∀ y ∈ K t0 0, Guards t h y := by
    intro y hy
    obtain ⟨hyl, _⟩ := (K_mem b.wf b.root y).1 hy
    obtain ⟨_, a2, _, _⟩ := fl.old y hyl
    obtain ⟨_, k2, k3⟩ := b.kid y hy
    exact guards_sb (by rw [pay_opcode a2]; exact k2) (by rw [pay_info a2]; exact k3)
  have gn := guards_nodes (h' := h) w 0 ns fl.ok
  refine ⟨?_, ?_, ?_, ?_, ?_⟩
  · exact walk_root (fun f y => mergeScopeDirectives d f y) (fun y => MergeSkip t h y)
      (fun x N hx hg hq => merge_node d w hx hg N (fun y hy => (hq y hy).1)) fl b g0.merge (fun y hy => (gold y hy).merge)
      (fun y hy => (gn y hy).merge)
  · exact walk_root (fun f y => relocateNamedObjects d f y) (fun y => RelocSkip t h y)
      (fun x N hx hg hq => reloc_node d w hx hg N (fun y hy => (hq y hy).1)) fl b g0.reloc (fun y hy => (gold y hy).reloc)
      (fun y hy => (gn y hy).reloc)
  · exact walk_root (fun f y => parseDeferredBlocks d fuel f y) (fun y => DeferSkip t y)
      (fun x N hx hg hq => defer_node d fuel w hx hg N (fun y hy => (hq y hy).1)) fl b g0.defer (fun y hy => (gold y hy).defer)
      (fun y hy => (gn y hy).defer)
  · exact walk_root (fun f y => resolveMethodCalls d f y) (fun y => (slot t y).opcode ≠ opIntNamePathOrMethodCall)
      (fun x N hx _ hq => resolve_node d w hx N hq) fl b g0.op (fun y hy => (gold y hy).op) (fun y hy => (gn y hy).op)
  · exact walk_root (fun f y => connectNonNamedObjArgs f y) (fun y => CnnSkip t y)
      (fun x N hx _ hq => cnn_node w hx N hq) fl b g0.cnn (fun y hy => (gold y hy).cnn) (fun y hy => (gn y hy).cnn)

end Firefly.AmlParser.F
