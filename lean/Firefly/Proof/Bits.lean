/-! Bit-level lemmas shared by the memory-management proofs (core Lean only). -/
namespace Firefly.Bits

theorem and_mask12 (x : BitVec 64) : x &&& ~~~(4096#64 - 1) = (x >>> 12) <<< 12 := by
  have h : (~~~(4096#64 - 1)) = BitVec.allOnes 64 <<< 12 := by decide
  rw [h]
  ext i hi
  simp only [BitVec.getElem_and, BitVec.getElem_shiftLeft, BitVec.getElem_ushiftRight,
    BitVec.getElem_allOnes]
  by_cases h : i < 12
  · simp [h]
  · simp [h]
    congr 1; omega

theorem toNat_and_mask12 (x : BitVec 64) :
    (x &&& ~~~(4096#64 - 1)).toNat = x.toNat / 4096 * 4096 := by
  rw [and_mask12]
  simp [BitVec.toNat_shiftLeft, BitVec.toNat_ushiftRight, Nat.shiftLeft_eq,
    Nat.shiftRight_eq_div_pow]
  have := x.isLt
  omega

theorem toNat_ushr12 (x : BitVec 64) : (x >>> 12).toNat = x.toNat / 4096 := by
  simp [BitVec.toNat_ushiftRight, Nat.shiftRight_eq_div_pow]

end Firefly.Bits
