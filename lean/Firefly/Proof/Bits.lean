/-! Bit-level lemmas shared by the memory-management proofs (core Lean only). -/
namespace Firefly.Bits

theorem and_mask12 (x : BitVec 64) : x &&& ~~~(4096#64 - 1) = (x >>> 12) <<< 12 := by
  have h : (~~~(4096#64 - 1)) = BitVec.allOnes 64 <<< 12 := by decide
  rw [h]
  ext i hi
  simp only [BitVec.getElem_and, BitVec.getElem_shiftLeft, BitVec.getElem_ushiftRight,
    BitVec.getElem_allOnes]
  by_cases h : i < 12
  · simp [h]
  · simp [h]
    congr 1; omega

theorem toNat_and_mask12 (x : BitVec 64) :
    (x &&& ~~~(4096#64 - 1)).toNat = x.toNat / 4096 * 4096 := by
  rw [and_mask12]
  simp [BitVec.toNat_shiftLeft, BitVec.toNat_ushiftRight, Nat.shiftLeft_eq,
    Nat.shiftRight_eq_div_pow]
  have := x.isLt
  omega

theorem toNat_ushr12 (x : BitVec 64) : (x >>> 12).toNat = x.toNat / 4096 := by
  simp [BitVec.toNat_ushiftRight, Nat.shiftRight_eq_div_pow]

end Firefly.Bits

namespace Firefly.Bits

theorem lowmask_getLsbD (k i : Nat) (hi : i < 64) :
    (BitVec.ofNat 64 (2^k - 1)).getLsbD i = decide (i < k) := by
  rw [BitVec.getLsbD_ofNat, Nat.testBit_two_pow_sub_one]; simp [hi]

/-- `x &^ (2^k - 1)` keeps the bits from `k` upwards -/
theorem and_not_lowmask (x : BitVec 64) (k : Nat) :
    x &&& ~~~(BitVec.ofNat 64 (2^k - 1)) = (x >>> k) <<< k := by
  apply BitVec.eq_of_getLsbD_eq
  intro i hi
  simp only [BitVec.getLsbD_and, BitVec.getLsbD_not, BitVec.getLsbD_shiftLeft,
    BitVec.getLsbD_ushiftRight, lowmask_getLsbD k i hi, hi, decide_true, Bool.true_and]
  by_cases h : i < k
  · simp [h]
  · simp [h]
    congr 1; omega

theorem toNat_and_not_lowmask (x : BitVec 64) (k : Nat) :
    (x &&& ~~~(BitVec.ofNat 64 (2^k - 1))).toNat = x.toNat / 2^k * 2^k := by
  rw [and_not_lowmask]
  simp only [BitVec.toNat_shiftLeft, BitVec.toNat_ushiftRight, Nat.shiftLeft_eq,
    Nat.shiftRight_eq_div_pow]
  have := x.isLt
  have h2 : x.toNat / 2^k * 2^k ≤ x.toNat := Nat.div_mul_le_self _ _
  apply Nat.mod_eq_of_lt; omega

end Firefly.Bits
