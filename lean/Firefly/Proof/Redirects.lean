import Firefly.Model.Redirects
/-! Lemmas for C20 (`Props/C20.lean`): the name sort is a permutation with a unique result,
and the collection loop distributes over the walk. -/
namespace Firefly.Redirects

/-! ### `sortByName` -/

theorem insertByName_perm {α : Type} (x : String × α) (l : List (String × α)) :
    (insertByName x l).Perm (x :: l) := by
  induction l with
  | nil => exact List.Perm.refl _
  | cons y ys ih =>
    unfold insertByName
    split
    · exact ((List.Perm.cons y ih).trans (List.Perm.swap x y ys))
    · exact List.Perm.refl _

theorem sortByName_perm {α : Type} (l : List (String × α)) : (sortByName l).Perm l := by
  induction l with
  | nil => exact List.Perm.refl _
  | cons x xs ih =>
    unfold sortByName
    exact (insertByName_perm x _).trans (List.Perm.cons x ih)

/-- keys ascend (non-strictly) -/
def Ascending {α : Type} (l : List (String × α)) : Prop := l.Pairwise fun a b => a.1 ≤ b.1

theorem insertByName_ascending {α : Type} (x : String × α) (l : List (String × α)) (h : Ascending l) :
    Ascending (insertByName x l) := by
  induction l with
  | nil => simp [insertByName, Ascending]
  | cons y ys ih =>
    unfold Ascending at h ih ⊢
    rw [List.pairwise_cons] at h
    unfold insertByName
    split
    next hlt =>
      rw [List.pairwise_cons]
      refine ⟨?_, ih h.2⟩
      intro b hb
      rcases List.mem_cons.1 ((insertByName_perm x ys).mem_iff.1 hb) with hb | hb
      · subst hb; exact Std.le_of_lt hlt
      · exact h.1 b hb
    next hnlt =>
      have hxy : x.1 ≤ y.1 := String.not_lt.1 hnlt
      rw [List.pairwise_cons]
      refine ⟨?_, List.pairwise_cons.2 h⟩
      intro b hb
      rcases List.mem_cons.1 hb with hb | hb
      · subst hb; exact hxy
      · exact String.le_trans hxy (h.1 b hb)

theorem sortByName_ascending {α : Type} (l : List (String × α)) : Ascending (sortByName l) := by
  induction l with
  | nil => simp [sortByName, Ascending]
  | cons x xs ih => unfold sortByName; exact insertByName_ascending x _ ih

/-- in a list with distinct keys, the key determines the element -/
theorem eq_of_key_eq {α : Type} : ∀ (l : List (String × α)), (l.map (·.1)).Nodup →
    ∀ a b, a ∈ l → b ∈ l → a.1 = b.1 → a = b
  | [], _, _, _, ha, _, _ => by cases ha
  | c :: cs, hnd, a, b, ha, hb, hk => by
    rw [List.map_cons, List.nodup_cons] at hnd
    rcases List.mem_cons.1 ha with ha1 | ha1
    · rcases List.mem_cons.1 hb with hb1 | hb1
      · rw [ha1, hb1]
      · refine (hnd.1 (List.mem_map.2 ⟨b, hb1, ?_⟩)).elim
        rw [← hk, ha1]
    · rcases List.mem_cons.1 hb with hb1 | hb1
      · refine (hnd.1 (List.mem_map.2 ⟨a, ha1, ?_⟩)).elim
        rw [hk, hb1]
      · exact eq_of_key_eq cs hnd.2 a b ha1 hb1 hk

/-- The sorted listing does not depend on the order in which the entries were listed, as long
as their names are distinct. -/
theorem sortByName_congr {α : Type} (l₁ l₂ : List (String × α)) (hp : l₁.Perm l₂)
    (hnd : (l₁.map (·.1)).Nodup) : sortByName l₁ = sortByName l₂ := by
  have hp' : (sortByName l₁).Perm (sortByName l₂) :=
    (sortByName_perm l₁).trans (hp.trans (sortByName_perm l₂).symm)
  have h₁ : (sortByName l₁).Pairwise (fun a b => a.1 ≤ b.1) := sortByName_ascending l₁
  have h₂ : (sortByName l₂).Pairwise (fun a b => a.1 ≤ b.1) := sortByName_ascending l₂
  refine List.Perm.eq_of_pairwise ?_ h₁ h₂ hp'
  intro a b ha hb hab hba
  have ha' : a ∈ l₁ := (sortByName_perm l₁).mem_iff.1 ha
  have hb' : b ∈ l₁ := hp.mem_iff.2 ((sortByName_perm l₂).mem_iff.1 hb)
  exact eq_of_key_eq l₁ hnd a b ha' hb' (String.le_antisymm hab hba)

/-! ### flatMap and permutations -/

theorem flatMap_perm_pointwise {α β : Type} (f g : α → List β) :
    ∀ (l : List α), (∀ x ∈ l, (f x).Perm (g x)) → (l.flatMap f).Perm (l.flatMap g)
  | [], _ => List.Perm.refl _
  | x :: xs, h => by
    rw [List.flatMap_cons, List.flatMap_cons]
    exact (h x List.mem_cons_self).append
      (flatMap_perm_pointwise f g xs fun y hy => h y (List.mem_cons_of_mem _ hy))

/-! ### the walk against the specification -/

/-- what the collection loop appends for one collected file, in source order -/
def fileRedirects (x : List String × File) : List Redirect :=
  x.2.decls.flatMap (declRedirects x.1)

theorem findRedirectsOrd_id (t : Tree) : findRedirectsOrd id t = (sourceFiles t).flatMap fileRedirects := rfl

mutual
theorem walkEntry_annotations (dirs : List String) : (e : Entry) →
    ((walkEntry dirs e).flatMap fileRedirects).Perm (entryAnnotations dirs e)
  | .file f => by
    unfold walkEntry entryAnnotations fileAnnotations
    split <;> simp [fileRedirects]
  | .dir n es => by
    unfold walkEntry entryAnnotations
    exact (List.Perm.flatMap_right fileRedirects
      (List.Perm.flatMap_right (·.2) (sortByName_perm (walkKeyed (dirs ++ [n]) es)))).trans
      (walkKeyed_annotations (dirs ++ [n]) es)
theorem walkKeyed_annotations (dirs : List String) : (es : List Entry) →
    (((walkKeyed dirs es).flatMap (·.2)).flatMap fileRedirects).Perm (listAnnotations dirs es)
  | [] => by simp [walkKeyed, listAnnotations]
  | e :: es => by
    unfold walkKeyed listAnnotations
    rw [List.flatMap_cons, List.flatMap_append]
    exact (walkEntry_annotations dirs e).append (walkKeyed_annotations dirs es)
end

theorem sourceFiles_annotations (t : Tree) :
    ((sourceFiles t).flatMap fileRedirects).Perm (annotations t) := by
  unfold sourceFiles annotations
  exact (List.Perm.flatMap_right fileRedirects
    (List.Perm.flatMap_right (·.2) (sortByName_perm (walkKeyed [] t)))).trans
    (walkKeyed_annotations [] t)

theorem findRedirectsOrd_perm (ord : List Decl → List Decl) (hord : ∀ ds, (ord ds).Perm ds) (t : Tree) :
    (findRedirectsOrd ord t).Perm (annotations t) := by
  refine List.Perm.trans ?_ (sourceFiles_annotations t)
  unfold findRedirectsOrd
  apply flatMap_perm_pointwise
  intro x _
  exact List.Perm.flatMap_right _ (hord x.2.decls)

/-! ### stripping what must be ignored -/

theorem docRedirects_filter (dirs : List String) (fn : String) (doc : List String) :
    docRedirects dirs fn (doc.filter isDirective) = docRedirects dirs fn doc := by
  unfold docRedirects
  rw [List.filterMap_filter]
  congr 1
  funext text
  unfold isDirective
  cases h : directiveSrc text <;> simp

theorem declRedirects_strip (dirs : List String) (d : Decl) :
    declRedirects dirs d.strip = declRedirects dirs d := by
  cases d with
  | func fn doc => simp [Decl.strip, declRedirects, docRedirects_filter]
  | other doc => simp [Decl.strip, declRedirects]

theorem fileAnnotations_strip (dirs : List String) (f : File) :
    fileAnnotations dirs f.strip = fileAnnotations dirs f := by
  unfold File.strip fileAnnotations
  by_cases h : isSourceFile f.name = true
  · simp only [h, if_true, List.flatMap_map]
    congr 1
    funext d
    exact declRedirects_strip dirs d
  · simp [h]

mutual
theorem entryAnnotations_strip (dirs : List String) : (e : Entry) →
    entryAnnotations dirs e.strip = entryAnnotations dirs e
  | .file f => by simp [Entry.strip, entryAnnotations, fileAnnotations_strip]
  | .dir n es => by
    simp only [Entry.strip, entryAnnotations]
    exact listAnnotations_strip (dirs ++ [n]) es
theorem listAnnotations_strip (dirs : List String) : (es : List Entry) →
    listAnnotations dirs (stripList es) = listAnnotations dirs es
  | [] => by simp [stripList, listAnnotations]
  | e :: es => by
    simp only [stripList, listAnnotations]
    rw [entryAnnotations_strip dirs e, listAnnotations_strip dirs es]
end

/-! ### listing order -/

theorem walkKeyed_eq_map (dirs : List String) : (es : List Entry) →
    walkKeyed dirs es = es.map fun e => (e.name, walkEntry dirs e)
  | [] => by simp [walkKeyed]
  | e :: es => by rw [walkKeyed, walkKeyed_eq_map dirs es, List.map_cons]

theorem walkKeyed_keys (dirs : List String) (es : List Entry) :
    (walkKeyed dirs es).map (·.1) = es.map Entry.name := by
  rw [walkKeyed_eq_map, List.map_map]; rfl

theorem sortedListing_congr (dirs : List String) (es es' : List Entry) (hp : es.Perm es')
    (hnd : (es.map Entry.name).Nodup) :
    sortByName (walkKeyed dirs es) = sortByName (walkKeyed dirs es') := by
  apply sortByName_congr
  · rw [walkKeyed_eq_map, walkKeyed_eq_map]; exact hp.map _
  · rw [walkKeyed_keys]; exact hnd

/-! ### membership: where an annotation comes from -/

theorem FileAt.mono {es es' : List Entry} {ds : List String} {f : File} (hsub : ∀ y ∈ es, y ∈ es')
    (h : FileAt es ds f) : FileAt es' ds f := by
  cases h with
  | here hm => exact .here (hsub _ hm)
  | under hm hs => exact .under (hsub _ hm) hs

theorem mem_fileAnnotations_iff (ds : List String) (f : File) (e : Redirect) :
    e ∈ fileAnnotations ds f ↔ isSourceFile f.name = true ∧ ∃ fn doc text, Decl.func fn doc ∈ f.decls ∧
      text ∈ doc ∧ directiveSrc text = some e.1 ∧ e.2 = qualify ds fn := by
  unfold fileAnnotations
  by_cases hs : isSourceFile f.name = true
  · simp only [hs, if_true, true_and, List.mem_flatMap]
    constructor
    · rintro ⟨d, hd, he⟩
      cases d with
      | func fn doc =>
        simp only [declRedirects, docRedirects, List.mem_filterMap, Option.map_eq_some_iff] at he
        obtain ⟨text, ht, src, hsrc, rfl⟩ := he
        exact ⟨fn, doc, text, hd, ht, hsrc, rfl⟩
      | other doc => simp [declRedirects] at he
    · rintro ⟨fn, doc, text, hd, ht, hsrc, hq⟩
      refine ⟨.func fn doc, hd, ?_⟩
      simp only [declRedirects, docRedirects, List.mem_filterMap, Option.map_eq_some_iff]
      exact ⟨text, ht, e.1, hsrc, by rw [← hq]⟩
  · simp [hs]

theorem mem_listAnnotations_of_mem (pfx : List String) (x : Entry) (e : Redirect) :
    ∀ (es : List Entry), x ∈ es → e ∈ entryAnnotations pfx x → e ∈ listAnnotations pfx es
  | [], hx, _ => by cases hx
  | y :: ys, hx, he => by
    rw [listAnnotations, List.mem_append]
    rcases List.mem_cons.1 hx with hx | hx
    · subst hx; exact Or.inl he
    · exact Or.inr (mem_listAnnotations_of_mem pfx x e ys hx he)

theorem mem_listAnnotations_of_fileAt {es : List Entry} {ds : List String} {f : File} (h : FileAt es ds f) :
    ∀ (pfx : List String) (e : Redirect), e ∈ fileAnnotations (pfx ++ ds) f → e ∈ listAnnotations pfx es := by
  induction h with
  | here hm =>
    intro pfx e he
    rw [List.append_nil] at he
    exact mem_listAnnotations_of_mem pfx _ e _ hm (by rw [entryAnnotations]; exact he)
  | @under es sub n ds f hm _ ih =>
    intro pfx e he
    refine mem_listAnnotations_of_mem pfx _ e _ hm ?_
    rw [entryAnnotations]
    apply ih (pfx ++ [n]) e
    rw [List.append_assoc]
    exact he

mutual
theorem fileAt_of_mem_entryAnnotations (pfx : List String) (e : Redirect) : (x : Entry) →
    e ∈ entryAnnotations pfx x → ∃ ds f, FileAt [x] ds f ∧ e ∈ fileAnnotations (pfx ++ ds) f
  | .file f, he => by
    rw [entryAnnotations] at he
    exact ⟨[], f, .here List.mem_cons_self, by rw [List.append_nil]; exact he⟩
  | .dir n sub, he => by
    rw [entryAnnotations] at he
    obtain ⟨ds, f, hf, hm⟩ := fileAt_of_mem_listAnnotations (pfx ++ [n]) e sub he
    refine ⟨n :: ds, f, .under List.mem_cons_self hf, ?_⟩
    rw [List.append_assoc] at hm
    exact hm
theorem fileAt_of_mem_listAnnotations (pfx : List String) (e : Redirect) : (es : List Entry) →
    e ∈ listAnnotations pfx es → ∃ ds f, FileAt es ds f ∧ e ∈ fileAnnotations (pfx ++ ds) f
  | [], he => by simp [listAnnotations] at he
  | x :: xs, he => by
    rw [listAnnotations, List.mem_append] at he
    rcases he with he | he
    · obtain ⟨ds, f, hf, hm⟩ := fileAt_of_mem_entryAnnotations pfx e x he
      exact ⟨ds, f, hf.mono (fun y hy => by
        rw [List.mem_singleton.1 hy]; exact List.mem_cons_self), hm⟩
    · obtain ⟨ds, f, hf, hm⟩ := fileAt_of_mem_listAnnotations pfx e xs he
      exact ⟨ds, f, hf.mono (fun y hy => List.mem_cons_of_mem _ hy), hm⟩
end

theorem mem_annotations_iff (t : Tree) (e : Redirect) :
    e ∈ annotations t ↔ ∃ ds f, FileAt t ds f ∧ e ∈ fileAnnotations ds f := by
  unfold annotations
  constructor
  · intro he
    obtain ⟨ds, f, hf, hm⟩ := fileAt_of_mem_listAnnotations [] e t he
    exact ⟨ds, f, hf, by simpa using hm⟩
  · rintro ⟨ds, f, hf, hm⟩
    exact mem_listAnnotations_of_fileAt hf [] e (by simpa using hm)

/-! ### stripping commutes with the walk (ordered version) -/

theorem insertByName_mapVal {α β : Type} (g : α → β) (x : String × α) (l : List (String × α)) :
    insertByName (x.1, g x.2) (l.map fun y => (y.1, g y.2)) = (insertByName x l).map fun y => (y.1, g y.2) := by
  induction l with
  | nil => rfl
  | cons y ys ih =>
    simp only [List.map_cons, insertByName]
    split
    · rw [ih]; rfl
    · rfl

theorem sortByName_mapVal {α β : Type} (g : α → β) (l : List (String × α)) :
    sortByName (l.map fun y => (y.1, g y.2)) = (sortByName l).map fun y => (y.1, g y.2) := by
  induction l with
  | nil => rfl
  | cons x xs ih =>
    simp only [List.map_cons, sortByName]
    rw [ih, insertByName_mapVal]

theorem Entry.strip_name (e : Entry) : e.strip.name = e.name := by
  cases e with
  | file f => simp only [Entry.strip, Entry.name, File.strip]; split <;> rfl
  | dir n es => simp [Entry.strip, Entry.name]

theorem File.strip_name (f : File) : f.strip.name = f.name := by
  unfold File.strip; split <;> rfl

/-- strip the file of a collected path -/
def stripPath (x : List String × File) : List String × File := (x.1, x.2.strip)

mutual
theorem walkEntry_strip (dirs : List String) : (e : Entry) →
    walkEntry dirs e.strip = (walkEntry dirs e).map stripPath
  | .file f => by
    simp only [Entry.strip, walkEntry, File.strip_name]
    split <;> simp [stripPath]
  | .dir n es => by
    simp only [Entry.strip, walkEntry]
    rw [walkKeyed_strip (dirs ++ [n]) es, sortByName_mapVal, List.flatMap_map, List.map_flatMap]
theorem walkKeyed_strip (dirs : List String) : (es : List Entry) →
    walkKeyed dirs (stripList es) = (walkKeyed dirs es).map fun k => (k.1, k.2.map stripPath)
  | [] => by simp [stripList, walkKeyed]
  | e :: es => by
    simp only [stripList, walkKeyed, List.map_cons]
    rw [walkEntry_strip dirs e, walkKeyed_strip dirs es, Entry.strip_name]
end

theorem sourceFiles_strip (t : Tree) : sourceFiles (stripList t) = (sourceFiles t).map stripPath := by
  unfold sourceFiles
  rw [walkKeyed_strip [] t, sortByName_mapVal, List.flatMap_map, List.map_flatMap]

mutual
theorem walkEntry_source (dirs : List String) : (e : Entry) →
    ∀ x ∈ walkEntry dirs e, isSourceFile x.2.name = true
  | .file f, x, hx => by
    unfold walkEntry at hx
    split at hx
    · rw [List.mem_singleton.1 hx]; assumption
    · cases hx
  | .dir n es, x, hx => by
    unfold walkEntry at hx
    obtain ⟨k, hk, hxk⟩ := List.mem_flatMap.1 hx
    exact walkKeyed_source (dirs ++ [n]) es k ((sortByName_perm _).mem_iff.1 hk) x hxk
theorem walkKeyed_source (dirs : List String) : (es : List Entry) →
    ∀ k ∈ walkKeyed dirs es, ∀ x ∈ k.2, isSourceFile x.2.name = true
  | [], k, hk, _, _ => by simp [walkKeyed] at hk
  | e :: es, k, hk, x, hx => by
    unfold walkKeyed at hk
    rcases List.mem_cons.1 hk with hk | hk
    · subst hk; exact walkEntry_source dirs e x hx
    · exact walkKeyed_source dirs es k hk x hx
end

theorem sourceFiles_source (t : Tree) : ∀ x ∈ sourceFiles t, isSourceFile x.2.name = true := by
  intro x hx
  unfold sourceFiles at hx
  obtain ⟨k, hk, hxk⟩ := List.mem_flatMap.1 hx
  exact walkKeyed_source [] t k ((sortByName_perm _).mem_iff.1 hk) x hxk

theorem flatMap_congr_mem {α β : Type} (f g : α → List β) :
    ∀ (l : List α), (∀ x ∈ l, f x = g x) → l.flatMap f = l.flatMap g
  | [], _ => rfl
  | x :: xs, h => by
    rw [List.flatMap_cons, List.flatMap_cons, h x List.mem_cons_self,
      flatMap_congr_mem f g xs fun y hy => h y (List.mem_cons_of_mem _ hy)]

theorem fileRedirects_strip (x : List String × File) (hs : isSourceFile x.2.name = true) :
    fileRedirects (stripPath x) = fileRedirects x := by
  unfold fileRedirects stripPath File.strip
  simp only [hs, if_true, List.flatMap_map]
  congr 1
  funext d
  exact declRedirects_strip x.1 d

theorem findRedirectsOrd_id_strip (t : Tree) :
    findRedirectsOrd id (stripList t) = findRedirectsOrd id t := by
  rw [findRedirectsOrd_id, findRedirectsOrd_id, sourceFiles_strip, List.flatMap_map]
  exact flatMap_congr_mem _ _ _ fun x hx => fileRedirects_strip x (sourceFiles_source t x hx)

/-! ### canonical form -/

theorem insertByName_of_le {α : Type} (x : String × α) :
    ∀ (l : List (String × α)), (∀ y ∈ l, x.1 ≤ y.1) → insertByName x l = x :: l
  | [], _ => rfl
  | y :: ys, h => by
    unfold insertByName
    rw [if_neg (String.not_lt.2 (h y List.mem_cons_self))]

theorem sortByName_of_ascending {α : Type} : ∀ (l : List (String × α)), Ascending l → sortByName l = l
  | [], _ => rfl
  | x :: xs, h => by
    unfold Ascending at h
    rw [List.pairwise_cons] at h
    unfold sortByName
    rw [sortByName_of_ascending xs h.2]
    exact insertByName_of_le x xs h.1

theorem sortByName_idem {α : Type} (l : List (String × α)) : sortByName (sortByName l) = sortByName l :=
  sortByName_of_ascending _ (sortByName_ascending l)

theorem walkKeyed_insertEntry (dirs : List String) (x : Entry) : (l : List Entry) →
    walkKeyed dirs (insertEntry x l) = insertByName (x.name, walkEntry dirs x) (walkKeyed dirs l)
  | [] => by simp [insertEntry, walkKeyed, insertByName]
  | y :: ys => by
    simp only [insertEntry, walkKeyed, insertByName]
    split
    · rw [walkKeyed, walkKeyed_insertEntry dirs x ys]
    · simp only [walkKeyed]

theorem walkKeyed_sortEntries (dirs : List String) : (l : List Entry) →
    walkKeyed dirs (sortEntries l) = sortByName (walkKeyed dirs l)
  | [] => rfl
  | x :: xs => by
    simp only [sortEntries, walkKeyed, sortByName]
    rw [walkKeyed_insertEntry, walkKeyed_sortEntries dirs xs]

theorem Entry.canon_name (e : Entry) : e.canon.name = e.name := by
  cases e <;> simp [Entry.canon, Entry.name]

mutual
theorem walkEntry_canon (dirs : List String) : (e : Entry) → walkEntry dirs e.canon = walkEntry dirs e
  | .file f => by simp [Entry.canon]
  | .dir n es => by
    simp only [Entry.canon, walkEntry]
    rw [walkKeyed_sortEntries, sortByName_idem, walkKeyed_canon (dirs ++ [n]) es]
theorem walkKeyed_canon (dirs : List String) : (es : List Entry) →
    walkKeyed dirs (canonList es) = walkKeyed dirs es
  | [] => by simp [canonList]
  | e :: es => by
    simp only [canonList, walkKeyed]
    rw [walkEntry_canon dirs e, walkKeyed_canon dirs es, Entry.canon_name]
end

theorem sourceFiles_canonical (t : Tree) : sourceFiles (canonical t) = sourceFiles t := by
  unfold sourceFiles canonical
  rw [walkKeyed_sortEntries, sortByName_idem, walkKeyed_canon]

end Firefly.Redirects
