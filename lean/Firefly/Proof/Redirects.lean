import Firefly.Model.Redirects
/-! Lemmas for C20 (`Props/C20.lean`): the name sort is a permutation with a unique result,
and the collection loop distributes over the walk. -/
namespace Firefly.Redirects

/-! ### `sortByName` -/

theorem insertByName_perm {α : Type} (x : String × α) (l : List (String × α)) :
    (insertByName x l).Perm (x :: l) := by
  induction l with
  | nil => exact List.Perm.refl _
  | cons y ys ih =>
    unfold insertByName
    split
    · exact ((List.Perm.cons y ih).trans (List.Perm.swap x y ys))
    · exact List.Perm.refl _

theorem sortByName_perm {α : Type} (l : List (String × α)) : (sortByName l).Perm l := by
  induction l with
  | nil => exact List.Perm.refl _
  | cons x xs ih =>
    unfold sortByName
    exact (insertByName_perm x _).trans (List.Perm.cons x ih)

/-- keys ascend (non-strictly) -/
def Ascending {α : Type} (l : List (String × α)) : Prop := l.Pairwise fun a b => a.1 ≤ b.1

theorem insertByName_ascending {α : Type} (x : String × α) (l : List (String × α)) (h : Ascending l) :
    Ascending (insertByName x l) := by
  induction l with
  | nil => simp [insertByName, Ascending]
  | cons y ys ih =>
    unfold Ascending at h ih ⊢
    rw [List.pairwise_cons] at h
    unfold insertByName
    split
    next hlt =>
      rw [List.pairwise_cons]
      refine ⟨?_, ih h.2⟩
      intro b hb
      rcases List.mem_cons.1 ((insertByName_perm x ys).mem_iff.1 hb) with hb | hb
      · subst hb; exact Std.le_of_lt hlt
      · exact h.1 b hb
    next hnlt =>
      have hxy : x.1 ≤ y.1 := String.not_lt.1 hnlt
      rw [List.pairwise_cons]
      refine ⟨?_, List.pairwise_cons.2 h⟩
      intro b hb
      rcases List.mem_cons.1 hb with hb | hb
      · subst hb; exact hxy
      · exact String.le_trans hxy (h.1 b hb)

theorem sortByName_ascending {α : Type} (l : List (String × α)) : Ascending (sortByName l) := by
  induction l with
  | nil => simp [sortByName, Ascending]
  | cons x xs ih => unfold sortByName; exact insertByName_ascending x _ ih

/-- in a list with distinct keys, the key determines the element -/
theorem eq_of_key_eq {α : Type} : ∀ (l : List (String × α)), (l.map (·.1)).Nodup →
    ∀ a b, a ∈ l → b ∈ l → a.1 = b.1 → a = b
  | [], _, _, _, ha, _, _ => by cases ha
  | c :: cs, hnd, a, b, ha, hb, hk => by
    rw [List.map_cons, List.nodup_cons] at hnd
    rcases List.mem_cons.1 ha with ha1 | ha1
    · rcases List.mem_cons.1 hb with hb1 | hb1
      · rw [ha1, hb1]
      · refine (hnd.1 (List.mem_map.2 ⟨b, hb1, ?_⟩)).elim
        rw [← hk, ha1]
    · rcases List.mem_cons.1 hb with hb1 | hb1
      · refine (hnd.1 (List.mem_map.2 ⟨a, ha1, ?_⟩)).elim
        rw [hk, hb1]
      · exact eq_of_key_eq cs hnd.2 a b ha1 hb1 hk

/-- The sorted listing does not depend on the order in which the entries were listed, as long
as their names are distinct. -/
theorem sortByName_congr {α : Type} (l₁ l₂ : List (String × α)) (hp : l₁.Perm l₂)
    (hnd : (l₁.map (·.1)).Nodup) : sortByName l₁ = sortByName l₂ := by
  have hp' : (sortByName l₁).Perm (sortByName l₂) :=
    (sortByName_perm l₁).trans (hp.trans (sortByName_perm l₂).symm)
  have h₁ : (sortByName l₁).Pairwise (fun a b => a.1 ≤ b.1) := sortByName_ascending l₁
  have h₂ : (sortByName l₂).Pairwise (fun a b => a.1 ≤ b.1) := sortByName_ascending l₂
  refine List.Perm.eq_of_pairwise ?_ h₁ h₂ hp'
  intro a b ha hb hab hba
  have ha' : a ∈ l₁ := (sortByName_perm l₁).mem_iff.1 ha
  have hb' : b ∈ l₁ := hp.mem_iff.2 ((sortByName_perm l₂).mem_iff.1 hb)
  exact eq_of_key_eq l₁ hnd a b ha' hb' (String.le_antisymm hab hba)

/-! ### flatMap and permutations -/

theorem flatMap_perm_pointwise {α β : Type} (f g : α → List β) :
    ∀ (l : List α), (∀ x ∈ l, (f x).Perm (g x)) → (l.flatMap f).Perm (l.flatMap g)
  | [], _ => List.Perm.refl _
  | x :: xs, h => by
    rw [List.flatMap_cons, List.flatMap_cons]
    exact (h x List.mem_cons_self).append
      (flatMap_perm_pointwise f g xs fun y hy => h y (List.mem_cons_of_mem _ hy))

/-! ### the walk against the specification -/

/-- what the collection loop appends for one collected file, in source order -/
def fileRedirects (x : List String × File) : List Redirect :=
  x.2.decls.flatMap (declRedirects x.1)

theorem findRedirectsOrd_id (t : Tree) : findRedirectsOrd id t = (sourceFiles t).flatMap fileRedirects := rfl

mutual
theorem walkEntry_annotations (dirs : List String) : (e : Entry) →
    ((walkEntry dirs e).flatMap fileRedirects).Perm (entryAnnotations dirs e)
  | .file f => by
    unfold walkEntry entryAnnotations fileAnnotations
    split <;> simp [fileRedirects]
  | .dir n es => by
    unfold walkEntry entryAnnotations
    exact (List.Perm.flatMap_right fileRedirects
      (List.Perm.flatMap_right (·.2) (sortByName_perm (walkKeyed (dirs ++ [n]) es)))).trans
      (walkKeyed_annotations (dirs ++ [n]) es)
theorem walkKeyed_annotations (dirs : List String) : (es : List Entry) →
    (((walkKeyed dirs es).flatMap (·.2)).flatMap fileRedirects).Perm (listAnnotations dirs es)
  | [] => by simp [walkKeyed, listAnnotations]
  | e :: es => by
    unfold walkKeyed listAnnotations
    rw [List.flatMap_cons, List.flatMap_append]
    exact (walkEntry_annotations dirs e).append (walkKeyed_annotations dirs es)
end

theorem sourceFiles_annotations (t : Tree) :
    ((sourceFiles t).flatMap fileRedirects).Perm (annotations t) := by
  unfold sourceFiles annotations
  exact (List.Perm.flatMap_right fileRedirects
    (List.Perm.flatMap_right (·.2) (sortByName_perm (walkKeyed [] t)))).trans
    (walkKeyed_annotations [] t)

theorem findRedirectsOrd_perm (ord : List Decl → List Decl) (hord : ∀ ds, (ord ds).Perm ds) (t : Tree) :
    (findRedirectsOrd ord t).Perm (annotations t) := by
  refine List.Perm.trans ?_ (sourceFiles_annotations t)
  unfold findRedirectsOrd
  apply flatMap_perm_pointwise
  intro x _
  exact List.Perm.flatMap_right _ (hord x.2.decls)

/-! ### stripping what must be ignored -/

theorem docRedirects_filter (dirs : List String) (fn : String) (doc : List String) :
    docRedirects dirs fn (doc.filter isDirective) = docRedirects dirs fn doc := by
  unfold docRedirects
  rw [List.filterMap_filter]
  congr 1
  funext text
  unfold isDirective
  cases h : directiveSrc text <;> simp

theorem declRedirects_strip (dirs : List String) (d : Decl) :
    declRedirects dirs d.strip = declRedirects dirs d := by
  cases d with
  | func fn doc => simp [Decl.strip, declRedirects, docRedirects_filter]
  | other doc => simp [Decl.strip, declRedirects]

theorem fileAnnotations_strip (dirs : List String) (f : File) :
    fileAnnotations dirs f.strip = fileAnnotations dirs f := by
  unfold File.strip fileAnnotations
  by_cases h : isSourceFile f.name = true
  · simp only [h, if_true, List.flatMap_map]
    congr 1
    funext d
    exact declRedirects_strip dirs d
  · simp [h]

mutual
theorem entryAnnotations_strip (dirs : List String) : (e : Entry) →
    entryAnnotations dirs e.strip = entryAnnotations dirs e
  | .file f => by simp [Entry.strip, entryAnnotations, fileAnnotations_strip]
  | .dir n es => by
    simp only [Entry.strip, entryAnnotations]
    exact listAnnotations_strip (dirs ++ [n]) es
theorem listAnnotations_strip (dirs : List String) : (es : List Entry) →
    listAnnotations dirs (stripList es) = listAnnotations dirs es
  | [] => by simp [stripList, listAnnotations]
  | e :: es => by
    simp only [stripList, listAnnotations]
    rw [entryAnnotations_strip dirs e, listAnnotations_strip dirs es]
end

/-! ### listing order -/

theorem walkKeyed_eq_map (dirs : List String) : (es : List Entry) →
    walkKeyed dirs es = es.map fun e => (e.name, walkEntry dirs e)
  | [] => by simp [walkKeyed]
  | e :: es => by rw [walkKeyed, walkKeyed_eq_map dirs es, List.map_cons]

theorem walkKeyed_keys (dirs : List String) (es : List Entry) :
    (walkKeyed dirs es).map (·.1) = es.map Entry.name := by
  rw [walkKeyed_eq_map, List.map_map]; rfl

theorem sortedListing_congr (dirs : List String) (es es' : List Entry) (hp : es.Perm es')
    (hnd : (es.map Entry.name).Nodup) :
    sortByName (walkKeyed dirs es) = sortByName (walkKeyed dirs es') := by
  apply sortByName_congr
  · rw [walkKeyed_eq_map, walkKeyed_eq_map]; exact hp.map _
  · rw [walkKeyed_keys]; exact hnd

end Firefly.Redirects
