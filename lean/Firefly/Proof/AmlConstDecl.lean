import Firefly.Proof.AmlDeclRt
import Firefly.Model.AmlProg
/-!
Declaration-level round trip (`C11`), the data object of a `Name` declaration: an integer constant written as a
definition-level object.
-/
namespace Firefly.AmlParser.F
open Firefly.AmlLex Firefly.AmlTree Firefly.C13 Firefly.AmlParser Firefly.AmlParser.G Firefly.AmlParser.S
open Firefly.Gen.C12 Firefly.AmlProg

/-- the object `parseNextObject` has created and appended when it calls `parseObjectArgs` -/
structure Opened (d : Bytes) (s s5 : PState) (x op base pe : Nat) : Prop where
  fp : FP d s5
  nx : live s.tree x = false
  lx : live s5.tree x = true
  opx : (slot s5.tree x).opcode = op
  infx : (slot s5.tree x).infoIndex = pOpcodeTableIndex op true
  thx : (slot s5.tree x).tableHandle = s.tableHandle
  kx : K s5.tree x = []
  px : C13.P s5.tree x = topOf s
  r : s5.r = { offset := base + 1, pkgEnd := pe }
  rest : SameRest s s5
  old : OldKept s s5 (topOf s) x
  size : s5.tree.pool.size ≤ s.tree.pool.size + 1

/-- the first half of `parseNextObject` on a one-byte opcode: the object is created and appended to the innermost scope -/
theorem nextObject_open {d : Bytes} (f : Nat) {s : PState} (h : FP d s) (hne : s.scopeStack.size ≠ 0)
    (hsz : s.tree.pool.size + 1 < INV) (b : UInt8) (base pe : Nat) (hr : s.r = { offset := base, pkgEnd := pe })
    (hpe : pe ≤ d.size) (hop : d[base]? = some b) (hlt : base < pe) (hx : b.toNat ≠ extOpPrefix)
    (hrow : pOpcodeTableIndex b.toNat false ≠ badOpcode) (hinfo : InfoOK (pOpcodeTableIndex b.toNat true))
    (hfr : b.toNat ≠ pOpIntFreedObject) (hnoop : b.toNat ≠ opNoop) :
    ∃ x s5, Opened d s s5 x b.toNat base pe ∧
      ∀ a s', parseObjectArgs d f x s5 = .ok (a, s') → parseNextObject d (f + 1) s = .ok (a, s') := by
  have w := h.tree.wf
  have e1 : lex offset s = .ok (base, s) := by
    have : offset s.r = .ok (base, s.r) := by rw [hr]; rfl
    have := lex_eq this
    rw [this]
  have eop : lex (nextOpcode d) s = .ok ((b.toNat, PRes.ok), { s with r := { offset := base + 1, pkgEnd := pe } }) := by
    apply lex_eq
    rw [hr]
    exact nextOpcode_one d base pe b hop hlt hx hrow
  generalize hs2 : ({ s with r := { offset := base + 1, pkgEnd := pe } } : PState) = s2 at eop
  have h2 : FP d s2 := by
    rw [← hs2]
    exact ⟨⟨by show base + 1 ≤ d.size; omega, hpe⟩, h.tree, h.scopes⟩
  have ht2 : s2.tree = s.tree := by rw [← hs2]
  have hsc2 : s2.scopeStack = s.scopeStack := by rw [← hs2]
  have hr2 : s2.r = { offset := base + 1, pkgEnd := pe } := by rw [← hs2]
  obtain ⟨x, s3, e3, h3, f3, hr3, hop3, hinfo3, _⟩ := newObject_step h2 b.toNat (by rw [ht2]; omega) hfr hinfo
  have hth3 : (slot s3.tree x).tableHandle = s.tableHandle := by rw [newObject_handle e3, ← hs2]
  have hobj3 : live s3.tree x = true := f3.liven
  obtain ⟨s4, e4, h4, hp4, hsl4, hr4⟩ := upd_step h3 hobj3 (fun o => { o with amlOffset := base }) (by keeps_links) Iff.rfl
    (h3.tree.info _ hobj3)
  have f4 : Fresh1 x s2 s4 := f3.thenPay hp4
  have hop4 : (slot s4.tree x).opcode = b.toNat := by rw [hsl4]; exact hop3
  have hinfo4 : (slot s4.tree x).infoIndex = pOpcodeTableIndex b.toNat true := by rw [hsl4]; exact hinfo3
  have hth4 : (slot s4.tree x).tableHandle = s.tableHandle := by rw [hsl4]; exact hth3
  obtain ⟨hk4x, hk4⟩ := fresh1_kids f4 h2.tree.wf h4.tree.wf
  have hne4 : s4.scopeStack.size ≠ 0 := by rw [f4.scope, hsc2]; exact hne
  obtain ⟨esc, _, _⟩ := scopeCurrent_top h4 hne4
  have htop4 : topOf s4 = topOf s := by unfold topOf; rw [f4.scope, hsc2]
  rw [htop4] at esc
  obtain ⟨_, htopl, _⟩ := scopeCurrent_top h hne
  have htopl2 : live s2.tree (topOf s) = true := by rw [ht2]; exact htopl
  have hx2 : live s2.tree x = false := f4.nlive
  obtain ⟨s5, e5, h5, hs5, hsz5, sp5, hl5, hP5, hLa5, hNx5, hFi5, hK5⟩ :=
    append_step_k h4 h2.tree.wf (fun y hy => ⟨by rw [f4.livex y (f4.ne hy)]; exact hy, by
      show (slot s4.tree y).parentIndex = (slot s2.tree y).parentIndex; rw [f4.old y (f4.ne hy)]⟩) htopl2 hx2 f4.liven f4.pn
  have hx5 : live s5.tree x = true := by rw [hl5]; exact f4.liven
  have htopx : topOf s ≠ x := fun e => by rw [e, hx2] at htopl2; cases htopl2
  have r25 : SameRest s s5 := by
    have a : SameRest s s2 := by rw [← hs2]; exact SameRest.ofR _
    exact (a.trans (fresh1_rest f4)).trans (SameRest.ofTree hs5)
  have hold5 : ∀ y, live s.tree y = true → live s5.tree y = true := by
    intro y hy
    have hy2 : live s2.tree y = true := by rw [ht2]; exact hy
    rw [hl5, f4.livex y (f4.ne hy2)]; exact hy2
  refine ⟨x, s5, ⟨h5, by rw [← ht2]; exact hx2, hx5, by rw [pay_opcode (sp5.pay x)]; exact hop4,
    by rw [pay_info (sp5.pay x)]; exact hinfo4, by rw [pay_handle (sp5.pay x)]; exact hth4, ?_, by rw [hP5, if_pos rfl], ?_,
    r25, ⟨hold5, ?_, ?_, ?_⟩, ?_⟩, ?_⟩
  · rw [hK5 x f4.liven, if_neg (fun e => htopx e.symm), hk4x]
  · have : s5.r = s4.r := by rw [hs5]
    rw [this, hr4, hr3, hr2]
  · intro y hy
    have hy2 : live s2.tree y = true := by rw [ht2]; exact hy
    rw [hP5, if_neg (f4.ne hy2)]
    show (slot s4.tree y).parentIndex = (slot s.tree y).parentIndex
    rw [f4.old y (f4.ne hy2), ht2]
  · intro y hy
    have hy2 : live s2.tree y = true := by rw [ht2]; exact hy
    rw [sp5.pay y, f4.old y (f4.ne hy2), ht2]
  · intro y hy
    have hy2 : live s2.tree y = true := by rw [ht2]; exact hy
    have hyx : y ≠ x := f4.ne hy2
    have hy4 : live s4.tree y = true := by rw [f4.livex y hyx]; exact hy2
    rw [hK5 y hy4]
    by_cases hyt : y = topOf s
    · rw [if_pos hyt, if_pos hyt, hyt, hk4 _ htopl2, ht2]
    · rw [if_neg hyt, if_neg hyt, hk4 y hy2, ht2]
  · have := f4.size.2
    rw [ht2] at this
    rw [hsz5]; omega
  · intro a s' ea
    unfold parseNextObject
    refine bind_ex' e1 (bind_ex' eop ?_)
    dsimp only
    rw [if_neg hnoop, if_neg (by decide)]
    refine bind_ex' e3 (bind_ex' e4 (bind_ex' esc (bind_ex' (derefP_some_ex _) (bind_ex' e5 ea))))

/-- an object without arguments -/
theorem args_none {d : Bytes} (f : Nat) {s5 : PState} {x op : Nat} (hl : live s5.tree x = true)
    (hop : (slot s5.tree x).opcode = op) (hinf : (slot s5.tree x).infoIndex = pOpcodeTableIndex op true)
    (hI : InfoOK (pOpcodeTableIndex op true)) (hcnt : argCnt (pOpcodeTableIndex op true) = 0)
    (h1 : op ≠ opBytePrefix) (h2 : op ≠ opWordPrefix) (h3 : op ≠ opDwordPrefix) (h4 : op ≠ opQwordPrefix)
    (h5 : op ≠ opStringPrefix) :
    parseObjectArgs d (f + 2) x s5 = .ok (PRes.ok, s5) := by
  have : ∃ a s', parseObjectArgs d (f + 2) x s5 = .ok (a, s') ∧ a = PRes.ok ∧ s' = s5 := by
    unfold parseObjectArgs
    refine bind_ex (getObj_live hl) ?_
    rw [hop, if_neg h1, if_neg h2, if_neg h3, if_neg h4, if_neg h5, hinf]
    obtain ⟨fl, hfl⟩ := opFlags_of_info hI
    rw [hfl]
    have eargs : parseArgs d (f + 1) (pOpcodeTableIndex op true) x 0 s5 = .ok (PRes.ok, s5) := by
      unfold parseArgs
      rw [opArgCount_of_info hI, hcnt]
      rfl
    refine bind_ex (optP_ex fl s5) ?_
    refine bind_ex eargs ?_
    exact pure_ex ⟨by decide, rfl⟩
  obtain ⟨a, s', e, ha, hs⟩ := this
  rw [e, ha, hs]

/-- a prefixed integer: `parseObjectArgs` reads the value into the object itself -/
theorem args_num {d : Bytes} (f : Nat) {s5 : PState} (h5 : FP d s5) {x op n : Nat} (hl : live s5.tree x = true)
    (hop : (slot s5.tree x).opcode = op)
    (hcase : (op = opBytePrefix ∧ n = 1) ∨ (op = opWordPrefix ∧ n = 2) ∨ (op = opDwordPrefix ∧ n = 4) ∨ (op = opQwordPrefix ∧ n = 8))
    (v base pe : Nat) (hr : s5.r = { offset := base, pkgEnd := pe })
    (henc : ∀ i, i < n → d[base + i]? = (encConst v n)[i]?) (hfit : base + n ≤ pe) :
    ∃ a s6, parseObjectArgs d (f + 1) x s5 = .ok (a, s6) ∧ a = PRes.ok ∧ FP d s6 ∧ PayOnly x s5 s6 ∧
      slot s6.tree x = { slot s5.tree x with value := .u64 (v % 256 ^ n) } ∧ s6.r = { offset := base + n, pkgEnd := pe } := by
  have key : ∃ a s6, setNumValue d x n s5 = .ok (a, s6) ∧ a = PRes.ok ∧ FP d s6 ∧ PayOnly x s5 s6 ∧
      slot s6.tree x = { slot s5.tree x with value := .u64 (v % 256 ^ n) } ∧ s6.r = { offset := base + n, pkgEnd := pe } := by
    unfold setNumValue
    have elex : lex (parseNumConstant d n) s5 = .ok ((v % 256 ^ n, PRes.ok), { s5 with r := { offset := base + n, pkgEnd := pe } }) := by
      apply lex_eq
      rw [hr]
      exact const_rt d v n base pe henc hfit
    refine bind_ex elex ?_
    have h2 : FP d { s5 with r := { offset := base + n, pkgEnd := pe } } := by
      obtain ⟨a, s2, e2, h2, _, hs2⟩ := lex_step (rel_parseNumConstant d n) h5
      rw [elex] at e2
      cases e2
      exact h2
    have ho2 : live ({ s5 with r := { offset := base + n, pkgEnd := pe } } : PState).tree x = true := hl
    obtain ⟨s3, e3, h3, hp3, hsl3, hr3⟩ := upd_step h2 ho2 (fun o => { o with value := .u64 (v % 256 ^ n) }) (by keeps_links) Iff.rfl
      (h2.tree.info x ho2)
    refine bind_ex e3 (pure_ex ⟨rfl, h3, ?_, hsl3, by rw [hr3]⟩)
    have p12 : PayOnly x s5 { s5 with r := { offset := base + n, pkgEnd := pe } } :=
      PayOnly.ofR x s5 _ (by rw [hr]) (by rw [hr]; show base ≤ base + n; omega)
    exact p12.trans hp3
  obtain ⟨a, s6, e, ha, rest⟩ := key
  refine ⟨PRes.ok, s6, ?_, rfl, rest⟩
  subst ha
  unfold parseObjectArgs
  refine bind_ex' (getObj_live hl) ?_
  rw [hop]
  rcases hcase with ⟨eo, en⟩ | ⟨eo, en⟩ | ⟨eo, en⟩ | ⟨eo, en⟩ <;> subst eo <;> subst en
  · rw [if_pos rfl]; exact bind_ex' e rfl
  · rw [if_neg (by decide), if_pos rfl]; exact bind_ex' e rfl
  · rw [if_neg (by decide), if_neg (by decide), if_pos rfl]; exact bind_ex' e rfl
  · rw [if_neg (by decide), if_neg (by decide), if_neg (by decide), if_pos rfl]; exact bind_ex' e rfl

/-- an integer object as the namespace reader (`intOf`) reads it: `ZeroOp` / `OneOp` / `OnesOp`, or a stored value -/
def IntObj (t : ObjectTree) (k n : Nat) : Prop :=
  ((slot t k).opcode = 0x00 ∧ n = 0) ∨ ((slot t k).opcode = 0x01 ∧ n = 1) ∨
  ((slot t k).opcode = 0xff ∧ n = 18446744073709551615) ∨
  ((slot t k).opcode ≠ 0x00 ∧ (slot t k).opcode ≠ 0x01 ∧ (slot t k).opcode ≠ 0xff ∧ (slot t k).value = .u64 n)

/-- the widths the encoder writes integers in (`0`: ZeroOp / OneOp / OnesOp) -/
def IntW (w : Nat) : Prop := w = 0 ∨ w = 1 ∨ w = 2 ∨ w = 4 ∨ w = 8

/-- the opcode byte of `encInt w v` -/
def constOp (w v : Nat) : Nat :=
  if w = 0 then (if v = 0 then 0x00 else if v = 1 then 0x01 else 0xff)
  else if w = 1 then 0x0a else if w = 2 then 0x0b else if w = 4 then 0x0c else 0x0e

/-- the object an integer written at definition level becomes in the first pass -/
structure ConstDecl (d : Bytes) (s s' : PState) (k w v : Nat) : Prop where
  fp : FP d s'
  nk : live s.tree k = false
  lk : live s'.tree k = true
  opk : (slot s'.tree k).opcode = constOp w v
  infk : (slot s'.tree k).infoIndex = pOpcodeTableIndex (constOp w v) true
  thk : (slot s'.tree k).tableHandle = s.tableHandle
  int : IntObj s'.tree k (intVal w v)
  kk : K s'.tree k = []
  pk : C13.P s'.tree k = topOf s
  rest : SameRest s s'
  old : OldKept s s' (topOf s) k
  size : s'.tree.pool.size ≤ s.tree.pool.size + 1

theorem const_noarg {d : Bytes} (f : Nat) {s : PState} (h : FP d s) (hne : s.scopeStack.size ≠ 0)
    (hsz : s.tree.pool.size + 1 < INV) (b : UInt8) (base pe : Nat) (hr : s.r = { offset := base, pkgEnd := pe })
    (hpe : pe ≤ d.size) (hop : d[base]? = some b) (hlt : base < pe) (hx : b.toNat ≠ extOpPrefix)
    (hrow : pOpcodeTableIndex b.toNat false ≠ badOpcode) (hinfo : InfoOK (pOpcodeTableIndex b.toNat true))
    (hfr : b.toNat ≠ pOpIntFreedObject) (hnoop : b.toNat ≠ opNoop) (hcnt : argCnt (pOpcodeTableIndex b.toNat true) = 0)
    (h1 : b.toNat ≠ opBytePrefix) (h2 : b.toNat ≠ opWordPrefix) (h3 : b.toNat ≠ opDwordPrefix) (h4 : b.toNat ≠ opQwordPrefix)
    (h5 : b.toNat ≠ opStringPrefix) (w v : Nat) (hb : b.toNat = constOp w v)
    (hint : ∀ t k, (slot t k).opcode = b.toNat → IntObj t k (intVal w v)) :
    ∃ s' k, parseNextObject d (f + 3) s = .ok (PRes.ok, s') ∧ ConstDecl d s s' k w v ∧
      s'.r = { offset := base + 1, pkgEnd := pe } := by
  obtain ⟨x, s5, o, hk⟩ := nextObject_open (f + 2) h hne hsz b base pe hr hpe hop hlt hx hrow hinfo hfr hnoop
  refine ⟨s5, x, hk _ _ (args_none f o.lx o.opx o.infx hinfo hcnt h1 h2 h3 h4 h5), ?_, o.r⟩
  exact ⟨o.fp, o.nx, o.lx, by rw [o.opx, hb], by rw [o.infx, hb], o.thx, hint _ _ o.opx, o.kx, o.px, o.rest, o.old, o.size⟩

theorem const_prefixed {d : Bytes} (f : Nat) {s : PState} (h : FP d s) (hne : s.scopeStack.size ≠ 0)
    (hsz : s.tree.pool.size + 1 < INV) (b : UInt8) (base pe : Nat) (hr : s.r = { offset := base, pkgEnd := pe })
    (hpe : pe ≤ d.size) (hop : d[base]? = some b) (hx : b.toNat ≠ extOpPrefix)
    (hrow : pOpcodeTableIndex b.toNat false ≠ badOpcode) (hinfo : InfoOK (pOpcodeTableIndex b.toNat true))
    (hfr : b.toNat ≠ pOpIntFreedObject) (hnoop : b.toNat ≠ opNoop) (n : Nat)
    (hcase : (b.toNat = opBytePrefix ∧ n = 1) ∨ (b.toNat = opWordPrefix ∧ n = 2) ∨ (b.toNat = opDwordPrefix ∧ n = 4) ∨
      (b.toNat = opQwordPrefix ∧ n = 8))
    (w v : Nat) (hb : b.toNat = constOp w v) (henc : ∀ i, i < n → d[base + 1 + i]? = (encConst v n)[i]?)
    (hfit : base + 1 + n ≤ pe)
    (hint : ∀ t k, (slot t k).opcode = b.toNat → (slot t k).value = .u64 (v % 256 ^ n) → IntObj t k (intVal w v)) :
    ∃ s' k, parseNextObject d (f + 3) s = .ok (PRes.ok, s') ∧ ConstDecl d s s' k w v ∧
      s'.r = { offset := base + 1 + n, pkgEnd := pe } := by
  obtain ⟨x, s5, o, hk⟩ := nextObject_open (f + 2) h hne hsz b base pe hr hpe hop (by omega) hx hrow hinfo hfr hnoop
  obtain ⟨a, s6, e6, ha, h6, hp6, hsl6, hr6⟩ := args_num (f + 1) o.fp o.lx o.opx hcase v (base + 1) pe o.r henc hfit
  subst ha
  refine ⟨s6, x, hk _ _ e6, ?_, hr6⟩
  have hl6 : ∀ y, live s6.tree y = live s5.tree y := hp6.links.live
  have hop6 : (slot s6.tree x).opcode = b.toNat := by rw [hsl6]; exact o.opx
  have r56 : SameRest s5 s6 := ⟨hp6.same.1, hp6.same.2.1, hp6.scope, hp6.pkg, hp6.same.2.2⟩
  have hxs : ∀ y, live s.tree y = true → y ≠ x := fun y hy e => by rw [e, o.nx] at hy; cases hy
  refine ⟨h6, o.nx, by rw [hl6]; exact o.lx, by rw [hop6, hb], ?_, ?_, hint _ _ hop6 (by rw [hsl6]), ?_, ?_, o.rest.trans r56, ?_,
    by rw [hp6.links.size]; exact o.size⟩
  · rw [hsl6]; show (slot s5.tree x).infoIndex = _; rw [o.infx, hb]
  · rw [hsl6]; exact o.thx
  · rw [kids_sameLinks o.fp.tree.wf hp6.links o.lx]; exact o.kx
  · rw [hp6.links.p]; exact o.px
  · refine ⟨fun y hy => by rw [hl6]; exact o.old.lv y hy, fun y hy => by rw [hp6.links.p]; exact o.old.par y hy, ?_, ?_⟩
    · intro y hy
      rw [hp6.others y (hxs y hy)]; exact o.old.pay y hy
    · intro y hy
      rw [kids_sameLinks o.fp.tree.wf hp6.links (o.old.lv y hy)]; exact o.old.kids y hy

set_option maxRecDepth 20000 in
/-- the table rows of the integer opcodes -/
theorem const_rows : ∀ b ∈ ([0x00, 0x01, 0xff, 0x0a, 0x0b, 0x0c, 0x0e] : List UInt8),
    b.toNat ≠ extOpPrefix ∧ pOpcodeTableIndex b.toNat false ≠ badOpcode ∧ (opFlags (pOpcodeTableIndex b.toNat true)).isSome = true ∧
    b.toNat ≠ pOpIntFreedObject ∧ b.toNat ≠ opNoop := by
  decide +kernel

set_option maxRecDepth 20000 in
theorem const_rows0 : ∀ b ∈ ([0x00, 0x01, 0xff] : List UInt8),
    argCnt (pOpcodeTableIndex b.toNat true) = 0 ∧ b.toNat ≠ opBytePrefix ∧ b.toNat ≠ opWordPrefix ∧ b.toNat ≠ opDwordPrefix ∧
    b.toNat ≠ opQwordPrefix ∧ b.toNat ≠ opStringPrefix := by
  decide +kernel

theorem encConst_length (v n : Nat) : (encConst v n).length = n := by simp [encConst]

/-- **the first pass on an integer written at definition level** (the data object of `Name(X, 5)`): on the bytes of
`encInt w v`, `parseNextObject` creates ONE new object as the last child of the innermost scope block — `ZeroOp`/`OneOp`/
`OnesOp`, or a prefixed constant holding `v mod 256^w` — and stops right behind the encoding -/
theorem const_decl_first_pass {d : Bytes} (f : Nat) {s : PState} (h : FP d s) (hne : s.scopeStack.size ≠ 0)
    (hsz : s.tree.pool.size + 1 < INV) (w v : Nat) (hw : IntW w) (base pe : Nat) (hr : s.r = { offset := base, pkgEnd := pe })
    (hpe : pe ≤ d.size) (henc : ∀ i, i < (encInt w v).length → d[base + i]? = (encInt w v)[i]?)
    (hfit : base + (encInt w v).length ≤ pe) :
    ∃ s' k, parseNextObject d (f + 3) s = .ok (PRes.ok, s') ∧ ConstDecl d s s' k w v ∧
      s'.r = { offset := base + (encInt w v).length, pkgEnd := pe } := by
  have zero : ∀ (b : UInt8), b ∈ ([0x00, 0x01, 0xff] : List UInt8) → encInt w v = [b] → b.toNat = constOp w v →
      (∀ t k, (slot t k).opcode = b.toNat → IntObj t k (intVal w v)) →
      ∃ s' k, parseNextObject d (f + 3) s = .ok (PRes.ok, s') ∧ ConstDecl d s s' k w v ∧
        s'.r = { offset := base + (encInt w v).length, pkgEnd := pe } := by
    intro b hb he hc hint
    have hm : b ∈ ([0x00, 0x01, 0xff, 0x0a, 0x0b, 0x0c, 0x0e] : List UInt8) := by
      simp only [List.mem_cons, List.mem_nil_iff, or_false] at hb ⊢
      rcases hb with e | e | e <;> simp [e]
    obtain ⟨r1, r2, r3, r4, r5⟩ := const_rows b hm
    obtain ⟨q1, q2, q3, q4, q5, q6⟩ := const_rows0 b hb
    rw [he] at henc hfit ⊢
    have hop : d[base]? = some b := by have := henc 0 (by simp); simpa using this
    exact const_noarg f h hne hsz b base pe hr hpe hop (by simp at hfit; omega) r1 r2 r3 r4 r5 q1 q2 q3 q4 q5 q6 w v hc hint
  have pre : ∀ (b : UInt8) (n : Nat), b ∈ ([0x0a, 0x0b, 0x0c, 0x0e] : List UInt8) → encInt w v = b :: encConst v n →
      ((b.toNat = opBytePrefix ∧ n = 1) ∨ (b.toNat = opWordPrefix ∧ n = 2) ∨ (b.toNat = opDwordPrefix ∧ n = 4) ∨
        (b.toNat = opQwordPrefix ∧ n = 8)) → b.toNat = constOp w v → intVal w v = v % 256 ^ n →
      ∃ s' k, parseNextObject d (f + 3) s = .ok (PRes.ok, s') ∧ ConstDecl d s s' k w v ∧
        s'.r = { offset := base + (encInt w v).length, pkgEnd := pe } := by
    intro b n hb he hcase hc hiv
    have hm : b ∈ ([0x00, 0x01, 0xff, 0x0a, 0x0b, 0x0c, 0x0e] : List UInt8) := by
      simp only [List.mem_cons, List.mem_nil_iff, or_false] at hb ⊢
      rcases hb with e | e | e | e <;> simp [e]
    obtain ⟨r1, r2, r3, r4, r5⟩ := const_rows b hm
    rw [he] at henc hfit ⊢
    rw [List.length_cons, encConst_length] at henc hfit ⊢
    have hop : d[base]? = some b := by have := henc 0 (by omega); simpa using this
    have henc' : ∀ i, i < n → d[base + 1 + i]? = (encConst v n)[i]? := by
      intro i hi
      have := henc (i + 1) (by omega)
      rw [List.getElem?_cons_succ] at this
      have e : base + (i + 1) = base + 1 + i := by omega
      rw [e] at this
      exact this
    have hint : ∀ t k, (slot t k).opcode = b.toNat → (slot t k).value = .u64 (v % 256 ^ n) → IntObj t k (intVal w v) := by
      intro t k ho hv
      refine Or.inr (Or.inr (Or.inr ⟨?_, ?_, ?_, by rw [hv, hiv]⟩)) <;> rw [ho] <;>
        rcases hcase with ⟨e, _⟩ | ⟨e, _⟩ | ⟨e, _⟩ | ⟨e, _⟩ <;> rw [e] <;> decide
    have := const_prefixed f h hne hsz b base pe hr hpe hop r1 r2 r3 r4 r5 n hcase w v hc henc' (by omega) hint
    have e1 : base + 1 + n = base + (n + 1) := by omega
    rw [e1] at this
    exact this
  rcases hw with rfl | rfl | rfl | rfl | rfl
  · by_cases h0 : v = 0
    · exact zero 0x00 (by simp) (by simp [encInt, h0]) (by simp [constOp, h0]) (fun t k ho => Or.inl ⟨ho, by simp [intVal, h0]⟩)
    · by_cases h1 : v = 1
      · exact zero 0x01 (by simp) (by simp [encInt, h1]) (by simp [constOp, h1])
          (fun t k ho => Or.inr (Or.inl ⟨ho, by simp [intVal, h1]⟩))
      · exact zero 0xff (by simp) (by simp [encInt, h0, h1]) (by simp [constOp, h0, h1])
          (fun t k ho => Or.inr (Or.inr (Or.inl ⟨ho, by simp [intVal, h0, h1]⟩)))
  · exact pre 0x0a 1 (by simp) (by simp [encInt]) (Or.inl ⟨rfl, rfl⟩) (by simp [constOp]) (by simp [intVal])
  · exact pre 0x0b 2 (by simp) (by simp [encInt]) (Or.inr (Or.inl ⟨rfl, rfl⟩)) (by simp [constOp]) (by simp [intVal])
  · exact pre 0x0c 4 (by simp) (by simp [encInt]) (Or.inr (Or.inr (Or.inl ⟨rfl, rfl⟩))) (by simp [constOp]) (by simp [intVal])
  · exact pre 0x0e 8 (by simp) (by simp [encInt]) (Or.inr (Or.inr (Or.inr ⟨rfl, rfl⟩))) (by simp [constOp]) (by simp [intVal])

end Firefly.AmlParser.F
