import Firefly.Model.MemUtil
/-! `Memset` fills exactly the requested bytes in ⌈log2 size⌉ doublings; `Memcopy` copies. -/
namespace Firefly.MemUtil

/-- bytes `[addr, addr+n)` are `v`, everything else is as in `mem0` -/
def Filled (mem mem0 : Bytes) (addr n : Nat) (v : Byte) : Prop :=
  ∀ i, mem i = if addr ≤ i ∧ i < addr + n then v else mem0 i

theorem toNat_two_pow (k : Nat) (hk : k ≤ 63) : (BitVec.ofNat 64 (2 ^ k)).toNat = 2 ^ k := by
  rw [BitVec.toNat_ofNat]
  apply Nat.mod_eq_of_lt
  calc 2 ^ k ≤ 2 ^ 63 := Nat.pow_le_pow_right (by omega) hk
    _ < 2 ^ 64 := by decide

theorem two_pow_mul_two (k : Nat) : BitVec.ofNat 64 (2 ^ k) * 2 = BitVec.ofNat 64 (2 ^ (k + 1)) := by
  apply BitVec.eq_of_toNat_eq
  simp [BitVec.toNat_mul, BitVec.toNat_ofNat, Nat.pow_succ]

/-- the loop from `index = 2^k` with the first `min(2^k, size)` bytes already set -/
theorem memsetLoop_spec (mem0 : Bytes) (addr : Nat) (v : Byte) (size : BitVec 64) (hs : size.toNat ≤ 2 ^ 63) :
    ∀ (fuel k : Nat) (mem : Bytes), k ≤ 63 → 64 - k < fuel → Filled mem mem0 addr (min (2 ^ k) size.toNat) v →
      (k ≠ 0 → 2 ^ (k - 1) < size.toNat) →
      ∃ mem' it, memsetLoop addr size fuel (BitVec.ofNat 64 (2 ^ k)) mem k = .done mem' it ∧
        Filled mem' mem0 addr size.toNat v ∧ size.toNat ≤ 2 ^ it ∧ (it ≠ 0 → 2 ^ (it - 1) < size.toNat) ∧ it ≤ 63 := by
  intro fuel
  induction fuel with
  | zero => intro k mem _ h; omega
  | succ fuel ih =>
    intro k mem hk hf hfill hlow
    have hidx := toNat_two_pow k hk
    simp only [memsetLoop]
    by_cases hlt : BitVec.ofNat 64 (2 ^ k) < size
    · rw [if_pos hlt]
      have hlt' : 2 ^ k < size.toNat := by rw [BitVec.lt_def, hidx] at hlt; exact hlt
      have hk62 : k ≤ 62 := by
        by_cases h : k ≤ 62
        · exact h
        · have : k = 63 := by omega
          subst this; omega
      rw [two_pow_mul_two, hidx]
      apply ih (k + 1) _ (by omega) (by omega)
      · -- the copy doubles the filled prefix
        intro i
        have hp : 2 ^ (k + 1) = 2 ^ k + 2 ^ k := by rw [Nat.pow_succ]; omega
        have hfi := hfill i
        simp only [goCopy]
        rw [hp]
        generalize 2 ^ k = P at *
        by_cases hin : addr + P ≤ i ∧ i < addr + P + min (size.toNat - P) P
        · rw [if_pos hin, hfill (addr + (i - (addr + P)))]
          rw [if_pos (by omega), if_pos (by omega)]
        · rw [if_neg hin, hfi]
          by_cases h1 : addr ≤ i ∧ i < addr + min P size.toNat
          · rw [if_pos h1, if_pos (by omega)]
          · rw [if_neg h1, if_neg (by omega)]
      · intro _; simpa using hlt'
    · rw [if_neg hlt]
      have hge : size.toNat ≤ 2 ^ k := by rw [BitVec.lt_def, hidx] at hlt; omega
      refine ⟨mem, k, rfl, ?_, hge, hlow, hk⟩
      rw [Nat.min_eq_right hge] at hfill; exact hfill

/-- **memset_fills**: for every size ≤ 2^63, every memory, address and value: `Memset` terminates,
exactly the `size` bytes at `addr` become `value`, every other byte is unchanged, and the loop runs
`it` times with `2^(it-1) < size ≤ 2^it` (i.e. ⌈log2 size⌉ doublings), `it ≤ 63`. -/
theorem memset_fills_core (mem : Bytes) (addr : Nat) (v : Byte) (size : BitVec 64) (hs : size.toNat ≤ 2 ^ 63) :
    ∃ mem' it, memset mem addr v size = .done mem' it ∧ Filled mem' mem addr size.toNat v ∧
      (size ≠ 0 → size.toNat ≤ 2 ^ it ∧ (it ≠ 0 → 2 ^ (it - 1) < size.toNat)) ∧ it ≤ 63 := by
  unfold memset
  by_cases h0 : size = 0
  · rw [if_pos h0]
    refine ⟨mem, 0, rfl, ?_, fun h => absurd h0 h, by omega⟩
    intro i; have : ¬(addr ≤ i ∧ i < addr + size.toNat) := by rw [h0]; simp
    rw [if_neg this]
  · rw [if_neg h0]
    have hpos : 0 < size.toNat := by
      by_cases h : size.toNat = 0
      · exact absurd (BitVec.eq_of_toNat_eq (by simpa using h)) h0
      · omega
    have := memsetLoop_spec mem addr v size hs 66 0 (fun i => if i = addr then v else mem i) (by omega) (by omega)
      (by
        intro i
        have : min (2 ^ 0) size.toNat = 1 := by simp; omega
        rw [this]
        by_cases h : i = addr
        · subst h; simp
        · have : ¬(addr ≤ i ∧ i < addr + 1) := by omega
          simp [h, this])
      (fun h => absurd rfl h)
    obtain ⟨mem', it, h1, h2, h3, h4, h5⟩ := this
    exact ⟨mem', it, h1, h2, fun _ => ⟨h3, h4⟩, h5⟩

/-- **memcopy_copies**: the `size` bytes at `dst` become the bytes that were at `src` (read before
anything is written, as Go's `copy` does), everything else is unchanged; `size = 0` changes nothing -/
theorem memcopy_copies_core (mem : Bytes) (src dst : Nat) (size : BitVec 64) (i : Nat) :
    memcopy mem src dst size i = if dst ≤ i ∧ i < dst + size.toNat then mem (src + (i - dst)) else mem i := by
  unfold memcopy
  by_cases h0 : size = 0
  · rw [if_pos h0]
    have : ¬(dst ≤ i ∧ i < dst + size.toNat) := by rw [h0]; simp
    rw [if_neg this]
  · rw [if_neg h0]; simp [goCopy]

/-- beyond the domain bound the loop index wraps to 0 and the loop never ends (witness: 2^63 + 1) -/
theorem memset_hangs_witness :
    (match memset (fun _ => 0) 0 0 (BitVec.ofNat 64 (2 ^ 63 + 1)) with | .hang => true | .done _ _ => false) = true := by
  decide

end Firefly.MemUtil
