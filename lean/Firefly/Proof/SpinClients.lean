import Firefly.Model.Locked
import Firefly.Proof.Locked
/-!
C08: what the lock-discipline checker of `Model/Locked.lean` (`disciplined`, proved sound in
`Proof/Locked.lean`: `check_sound`) means for the lock calls of a client function — the shape the
composed machine `cstep` (Proof/SpinLocked.lean) assumes of every client call.
-/
set_option linter.unusedSimpArgs false
set_option linter.unusedVariables false
namespace Firefly.Spin
open Firefly.Locked

/-- the lock calls of a trace, in order -/
def lockCalls (tr : List Ev) : List Ev := tr.filter fun e => e == .acq || e == .rel

theorem lockCalls_of_lockEvents (tr : List Ev) : lockCalls tr = lockCalls (lockEvents tr) := by
  unfold lockCalls lockEvents
  rw [List.filter_filter]
  apply List.filter_congr
  intro e _
  cases e <;> rfl

theorem lockCalls_section (k : Nat) : lockCalls (Ev.acq :: (List.replicate k Ev.tch ++ [Ev.rel])) = [.acq, .rel] := by
  induction k with
  | zero => rfl
  | succ k ih => simp [lockCalls, List.replicate_succ, List.filter] at ih ⊢

/-- If the checker accepts a skeleton then every trace of it — whatever the conditions evaluate to,
however often the loops iterate — ends by `return` or by reaching the end of the body, and its lock
calls are exactly one `Acquire` followed by one `Release`: the lock is never released un-acquired,
never taken twice, and released on every return path. -/
theorem disciplined_calls (s : Skel) (h : disciplined s = true) {tr : List Ev} {x : Exit} (hr : Runs s tr x) :
    (x = .fall ∨ x = .ret) ∧ lockCalls tr = [.acq, .rel] := by
  unfold disciplined at h
  cases hc : check s .pre with
  | none => simp [hc] at h
  | some o =>
    simp only [hc, Bool.and_eq_true, Bool.or_eq_true, beq_iff_eq] at h
    obtain ⟨⟨hf, hb⟩, hcn⟩ := h
    obtain ⟨q, hw, hat⟩ := check_sound hr .pre o hc
    have hq : (x = .fall ∨ x = .ret) ∧ q = .done := by
      cases x with
      | fall =>
        simp only [Outs.at] at hat
        rcases hf with hf | hf
        · rw [hf] at hat; cases hat
        · rw [hf] at hat; injection hat with hat; exact ⟨Or.inl rfl, hat.symm⟩
      | brk => simp only [Outs.at] at hat; rw [hb] at hat; cases hat
      | cont => simp only [Outs.at] at hat; rw [hcn] at hat; cases hat
      | ret => exact ⟨Or.inr rfl, hat⟩
    obtain ⟨hx, rfl⟩ := hq
    obtain ⟨k, hk⟩ := wb_pre hw
    exact ⟨hx, by rw [lockCalls_of_lockEvents, hk, lockCalls_section]⟩

end Firefly.Spin
