import Firefly.Proof.PmmBits
/-! Invariant of the bitmap allocator and the abstraction to a set of free frames. -/
namespace Firefly.Pmm

/-- number of frames of a pool -/
def Pool.n (p : Pool) : Nat := p.end_ - p.start + 1

/-- frame `f` belongs to pool `p` and its bit is clear -/
def Pool.freeAt (p : Pool) (f : Nat) : Bool :=
  decide (p.start ≤ f ∧ f ≤ p.end_) && !bitAt p.words (f - p.start)

structure PoolInv (p : Pool) : Prop where
  le : p.start ≤ p.end_
  small : p.n < 4294967296
  len : p.words.length = wordsFor p.n
  cnt : p.freeCount = countClear p.words p.n

/-- abstraction: the set of frames the allocator considers free -/
def isFree (bm : Bitmap) (f : Nat) : Prop := ∃ p ∈ bm.pools, p.freeAt f = true

def ranges (ps : List Pool) : List (Nat × Nat) := ps.map fun p => (p.start, p.end_)

/-- the pools' frame ranges are pairwise disjoint, in whatever order the memory map listed them
(the name is historical: an ascending list is the special case `Or.inl`) -/
def RangesSorted (rs : List (Nat × Nat)) : Prop := rs.Pairwise fun a b => a.2 < b.1 ∨ b.2 < a.1

def freeSum (ps : List Pool) : Nat := (ps.map (·.freeCount)).sum

def nSum (ps : List Pool) : Nat := (ps.map (·.n)).sum

structure Inv (bm : Bitmap) : Prop where
  pools : ∀ p ∈ bm.pools, PoolInv p
  sorted : RangesSorted (ranges bm.pools)
  le : bm.reserved ≤ bm.total
  small : bm.total < 4294967296
  acct : bm.total - bm.reserved = freeSum bm.pools
  tot : bm.total = nSum bm.pools

theorem sum_map_set {α} (l : List α) (g : α → Nat) (i : Nat) (x y : α) (h : l[i]? = some y) :
    ((l.set i x).map g).sum + g y = (l.map g).sum + g x := by
  induction l generalizing i with
  | nil => simp at h
  | cons a l ih =>
    cases i with
    | zero => simp at h; subst h; simp; omega
    | succ i =>
      simp at h
      have := ih i h
      simp only [List.set, List.map_cons, List.sum_cons]; omega

theorem le_sum_of_getElem? {α} (l : List α) (g : α → Nat) (i : Nat) (y : α) (h : l[i]? = some y) :
    g y ≤ (l.map g).sum := by
  induction l generalizing i with
  | nil => simp at h
  | cons a l ih =>
    cases i with
    | zero => simp at h; subst h; simp
    | succ i => simp at h; have := ih i h; simp; omega

theorem ranges_set (ps : List Pool) (i : Nat) (p p' : Pool) (h : ps[i]? = some p)
    (hs : p'.start = p.start) (he : p'.end_ = p.end_) : ranges (ps.set i p') = ranges ps := by
  unfold ranges
  rw [List.map_set]
  apply List.ext_getElem?
  intro j
  by_cases hj : j = i
  · subst hj
    by_cases hl : j < ps.length
    · rw [List.getElem?_set_self (by simpa using hl)]
      simp [h, hs, he]
    · rw [List.getElem?_eq_none (by omega)] at h; cases h
  · rw [List.getElem?_set_ne (by omega)]

/-- in a pool list with pairwise disjoint ranges a frame lies in at most one pool -/
theorem sorted_unique {ps : List Pool} (hs : RangesSorted (ranges ps)) {i j : Nat} {p q : Pool}
    (hi : ps[i]? = some p) (hj : ps[j]? = some q) (f : Nat)
    (hp : p.start ≤ f ∧ f ≤ p.end_) (hq : q.start ≤ f ∧ f ≤ q.end_) : i = j := by
  unfold RangesSorted ranges at hs
  rw [List.pairwise_map] at hs
  rw [List.pairwise_iff_getElem] at hs
  have hil := (List.getElem?_eq_some_iff.1 hi)
  have hjl := (List.getElem?_eq_some_iff.1 hj)
  obtain ⟨hil, hie⟩ := hil
  obtain ⟨hjl, hje⟩ := hjl
  rcases Nat.lt_trichotomy i j with h | h | h
  · have := hs i j hil hjl h
    rw [hie, hje] at this; simp at this; omega
  · exact h
  · have := hs j i hjl hil h
    rw [hie, hje] at this; simp at this; omega

/-- `poolForFrame` finds the pool containing the frame -/
theorem poolForFrame_some {ps : List Pool} {f i : Nat} (h : poolForFrame ps f = some i) :
    ∃ p, ps[i]? = some p ∧ p.start ≤ f ∧ f ≤ p.end_ := by
  unfold poolForFrame at h
  have := List.findIdx?_eq_some_iff_getElem.1 h
  obtain ⟨hl, hp, _⟩ := this
  refine ⟨ps[i], by simp [hl], ?_⟩
  simpa using hp

theorem poolForFrame_none {ps : List Pool} {f : Nat} (h : poolForFrame ps f = none) :
    ∀ p ∈ ps, ¬ (p.start ≤ f ∧ f ≤ p.end_) := by
  unfold poolForFrame at h
  rw [List.findIdx?_eq_none_iff] at h
  intro p hp
  have := h p hp
  simpa using this

end Firefly.Pmm
