import Firefly.Proof.VmmOwn
/-! The two memory updates `Map`/`Unmap` perform on a page-table tree — storing a leaf entry and
linking a new empty table — preserve ownership, and their effect on the abstract address space. -/
namespace Firefly.Vmm
open Firefly.Gen.C04

theorem own_inj {own : Own} {F L L' : Nat} {p p' : List Nat} (h : own F = some (L, p)) (h' : own F = some (L', p')) :
    L = L' ∧ p = p' := by
  rw [h] at h'; simpa using h'

/-- a store into a leaf table keeps the tree -/
theorem Owned.leaf_wr {m : Mem} {R : W} {own : Own} (ho : Owned m R own) {F3 : Nat} {pre : List Nat}
    (h3 : own F3 = some (3, pre)) (j : Nat) (v : W) : Owned (m.wr F3 j v) R own := by
  have hne : ∀ F L pre', own F = some (L, pre') → L < 3 → ∀ i, ¬(F3 = F ∧ j = i) := by
    intro F L pre' hF hL i hh
    rw [hh.1, hF] at h3; cases h3; omega
  refine ⟨ho.root, ho.inj, fun F x hx => by simpa using ho.backed F x hx, ho.level, ?_, ?_, ?_⟩
  · intro F L pre' i hF hL
    rw [rd_wr, if_neg (hne F L pre' hF hL i)]; exact ho.nohuge F L pre' i hF hL
  · intro F L pre' i hF hL hi hp
    rw [rd_wr, if_neg (hne F L pre' hF hL i)] at hp ⊢
    exact ho.child F L pre' i hF hL hi hp
  · intro G L pre' hG
    obtain ⟨F, pre0, i, e1, hF, hi, hp, hfr⟩ := ho.parent G L pre' hG
    have hL : L < 3 := by have := ho.level G (L + 1) pre' hG; omega
    refine ⟨F, pre0, i, e1, hF, hi, ?_, ?_⟩ <;> rw [rd_wr, if_neg (hne F L pre0 hF hL i)] <;> assumption

/-- two addresses are on the same page iff their four table indices agree -/
def SamePage (va' va : W) : Prop := idxs va' 4 = idxs va 4

instance (va' va : W) : Decidable (SamePage va' va) := by unfold SamePage; infer_instance

theorem SamePage.idx {va' va : W} (h : SamePage va' va) (k : Nat) (hk : k < 4) : kidx va' k = kidx va k :=
  (idxs_eq_iff va' va 4).1 h k hk

/-- **Abstract effect of storing a leaf entry**: the page gets the stored entry (or nothing if it is
not present); every other page keeps what it had. -/
theorem hwEntry_leaf_wr {m : Mem} {R : W} {own : Own} (ho : Owned m R own) {va : W} (hu : UserVA va) {T3 : W}
    (hc : Chain m R va 3 T3) (v : W) (va' : W) (hu' : UserVA va') :
    hwEntry (m.wr (frameN T3) (kidx va 3) v) R va' =
      if SamePage va' va then (if v &&& 1#64 = 0#64 then none else some v) else hwEntry m R va' := by
  have o3 := chain_own ho hu 3 T3 (by omega) hc
  by_cases hs : SamePage va' va
  · rw [if_pos hs]
    have hc' : Chain m R va' 3 T3 := Chain.idx_congr 3 T3 (fun k hk => (hs.idx k (by omega)).symm) hc
    have hc'' : Chain (m.wr (frameN T3) (kidx va 3) v) R va' 3 T3 :=
      Chain.map 3 T3 hc' (fun k T' T'' hk hck l => l.wr _ _ _ (fun hh => by
        have := chain_own ho hu' k T' (by omega) hck
        rw [← hh.1] at this
        have := (own_inj o3 this).1; omega))
    rw [entWalk_chain 3 T3 (by omega) hc'', show lv 3 = [3] from rfl,
      entWalk_last (by simpa using ho.backed _ _ o3), hs.idx 3 (by omega), rd_wr]
    simp
  · rw [if_neg hs]
    have hbk : ∀ f, (m.wr (frameN T3) (kidx va 3) v).backed f = m.backed f := fun _ => rfl
    apply hwEntry_congr hbk
    intro L T hL hck
    rw [rd_wr, if_neg]
    intro hh
    have := chain_own ho hu' L T hL hck
    rw [← hh.1] at this
    obtain ⟨e1, e2⟩ := own_inj o3 this
    subst e1
    apply hs
    unfold SamePage
    rw [idxs_succ, idxs_succ va 3, ← hh.2, e2]

/-- ghost ownership after a new table `f` has been linked below position `(L, pre)` at index `i` -/
def ownAdd (own : Own) (f : Nat) (L : Nat) (pre : List Nat) (i : Nat) : Own :=
  fun F => if F = f then some (L + 1, pre ++ [i]) else own F

/-- linking a fresh, cleared frame into an empty upper-level entry keeps the tree -/
theorem Owned.link_new {m : Mem} {R : W} {own : Own} (ho : Owned m R own) {F L : Nat} {pre : List Nat} {i : Nat}
    (hF : own F = some (L, pre)) (hL : L < 3) (hi : ¬(L = 0 ∧ i = 511)) (habs : m.rd F i &&& 1#64 = 0#64)
    {fW : W} (hfo : FrameOK fW) (hfn : own fW.toNat = none) (hfb : m.backed fW.toNat = true) :
    Owned ((m.wr F i (mkEntry fW (fPresent ||| fRW))).setFrame fW.toNat (fun _ => 0)) R (ownAdd own fW.toNat L pre i) := by
  have hfl : FlagsOK (fPresent ||| fRW) := by unfold FlagsOK; decide
  have hFf : F ≠ fW.toNat := fun h => by rw [h, hfn] at hF; cases hF
  have hent : frameN (mkEntry fW (fPresent ||| fRW) &&& hwMask) = fW.toNat := by
    rw [mkEntry_frame hfo hfl]; exact frameN_shl12 hfo
  have hnone : ∀ G x, own G = some x → G ≠ fW.toNat := fun G x hG h => by rw [h, hfn] at hG; cases hG
  -- no frame already sits at the new position
  have hfresh : ∀ G, own G = some (L + 1, pre ++ [i]) → False := by
    intro G hG
    obtain ⟨F0, pre0, i0, e1, hF0, _, hp, _⟩ := ho.parent G L _ hG
    have := List.append_inj' e1 rfl
    obtain ⟨rfl, h2⟩ := this
    have h2 : i = i0 := by simpa using h2
    subst h2
    have := ho.inj F0 F _ hF0 hF; subst this
    exact hp habs
  refine ⟨?_, ?_, ?_, ?_, ?_, ?_, ?_⟩
  · simp only [ownAdd, if_neg (hnone _ _ ho.root)]; exact ho.root
  · intro G1 G2 x h1 h2
    simp only [ownAdd] at h1 h2
    by_cases g1 : G1 = fW.toNat <;> by_cases g2 : G2 = fW.toNat
    · rw [g1, g2]
    · rw [if_pos g1] at h1; rw [if_neg g2] at h2; cases h1; exact (hfresh G2 h2).elim
    · rw [if_neg g1] at h1; rw [if_pos g2] at h2; cases h2; exact (hfresh G1 h1).elim
    · rw [if_neg g1] at h1; rw [if_neg g2] at h2; exact ho.inj G1 G2 x h1 h2
  · intro G x hG
    simp only [ownAdd] at hG
    simp only [backed_setFrame, backed_wr]
    by_cases g : G = fW.toNat
    · rw [g]; exact hfb
    · rw [if_neg g] at hG; exact ho.backed G x hG
  · intro G L1 pre1 hG
    simp only [ownAdd] at hG
    by_cases g : G = fW.toNat
    · rw [if_pos g] at hG; cases hG; omega
    · rw [if_neg g] at hG; exact ho.level G L1 pre1 hG
  · intro G L1 pre1 i1 hG hL1
    simp only [ownAdd] at hG
    by_cases g : G = fW.toNat
    · rw [rd_setFrame, if_pos g.symm]; simp
    · rw [if_neg g] at hG
      rw [rd_setFrame, if_neg (Ne.symm g), rd_wr]
      by_cases hloc : F = G ∧ i = i1
      · rw [if_pos hloc, mkEntry_low 128#64 (by decide)]; decide
      · rw [if_neg hloc]; exact ho.nohuge G L1 pre1 i1 hG hL1
  · intro G L1 pre1 i1 hG hL1 hi1 hp
    simp only [ownAdd] at hG
    by_cases g : G = fW.toNat
    · rw [rd_setFrame, if_pos g.symm] at hp; simp at hp
    · rw [if_neg g] at hG
      rw [rd_setFrame, if_neg (Ne.symm g), rd_wr] at hp ⊢
      by_cases hloc : F = G ∧ i = i1
      · rw [if_pos hloc] at hp ⊢
        obtain ⟨rfl, rfl⟩ := hloc
        rw [hF] at hG; cases hG
        rw [hent]; simp [ownAdd]
      · rw [if_neg hloc] at hp ⊢
        have := ho.child G L1 pre1 i1 hG hL1 hi1 hp
        simp only [ownAdd, if_neg (hnone _ _ this)]; exact this
  · intro G L1 pre' hG
    simp only [ownAdd] at hG
    by_cases g : G = fW.toNat
    · rw [if_pos g] at hG; cases hG
      refine ⟨F, pre, i, rfl, ?_, hi, ?_, ?_⟩
      · simp only [ownAdd, if_neg hFf]; exact hF
      · rw [rd_setFrame, if_neg (Ne.symm hFf), rd_wr, if_pos ⟨rfl, rfl⟩, mkEntry_low 1#64 (by decide)]; decide
      · rw [rd_setFrame, if_neg (Ne.symm hFf), rd_wr, if_pos ⟨rfl, rfl⟩, hent, g]
    · rw [if_neg g] at hG
      obtain ⟨F0, pre0, i0, e1, hF0, hi0, hp, hfr⟩ := ho.parent G L1 pre' hG
      have hloc : ¬(F = F0 ∧ i = i0) := by
        rintro ⟨rfl, rfl⟩; exact hp habs
      refine ⟨F0, pre0, i0, e1, ?_, hi0, ?_, ?_⟩
      · simp only [ownAdd, if_neg (hnone _ _ hF0)]; exact hF0
      · rw [rd_setFrame, if_neg (Ne.symm (hnone _ _ hF0)), rd_wr, if_neg hloc]; exact hp
      · rw [rd_setFrame, if_neg (Ne.symm (hnone _ _ hF0)), rd_wr, if_neg hloc]; exact hfr

/-- **Linking a new, empty table changes no page's translation**: pages whose path runs through the
new link had nothing before (the entry was empty) and have nothing now (the new table is empty);
all other pages never read a changed word. -/
theorem hwEntry_link_new {m : Mem} {R : W} {own : Own} (ho : Owned m R own) {va : W} (hu : UserVA va)
    {L : Nat} (hL : L < 3) {T : W} (hc : Chain m R va L T)
    (habs : m.rd (frameN T) (kidx va L) &&& 1#64 = 0#64)
    {fW : W} (hfo : FrameOK fW) (hfn : own fW.toNat = none)
    (va' : W) (hu' : UserVA va') :
    hwEntry ((m.wr (frameN T) (kidx va L) (mkEntry fW (fPresent ||| fRW))).setFrame fW.toNat (fun _ => 0)) R va' =
      hwEntry m R va' := by
  have oT := chain_own ho hu L T (by omega) hc
  have hfl : FlagsOK (fPresent ||| fRW) := by unfold FlagsOK; decide
  have hnone : ∀ G x, own G = some x → G ≠ fW.toNat := fun G x hG h => by rw [h, hfn] at hG; cases hG
  by_cases hs : idxs va' (L + 1) = idxs va (L + 1)
  · have hk := (idxs_eq_iff va' va (L + 1)).1 hs
    have hc' : Chain m R va' L T := Chain.idx_congr L T (fun k hk' => (hk k (by omega)).symm) hc
    have hkL : kidx va' L = kidx va L := hk L (by omega)
    -- before: the entry is empty
    rw [entWalk_chain L T (by omega) hc', lv_cons L (by omega), entWalk_absent (by rw [hkL]; exact habs)]
    -- after: the path continues into the empty table
    have hlink : Link ((m.wr (frameN T) (kidx va L) (mkEntry fW (fPresent ||| fRW))).setFrame fW.toNat (fun _ => 0))
        T (kidx va' L) (fW <<< 12) := by
      rw [hkL]
      refine ⟨by simpa using ho.backed _ _ oT, ?_, ?_, ?_⟩ <;>
        rw [rd_setFrame, if_neg (Ne.symm (hnone _ _ oT)), rd_wr, if_pos ⟨rfl, rfl⟩]
      · rw [mkEntry_low 1#64 (by decide)]; decide
      · rw [mkEntry_low 128#64 (by decide)]; decide
      · exact mkEntry_frame hfo hfl
    have hc2 : Chain ((m.wr (frameN T) (kidx va L) (mkEntry fW (fPresent ||| fRW))).setFrame fW.toNat (fun _ => 0))
        R va' (L + 1) (fW <<< 12) := by
      refine ⟨T, Chain.map L T hc' (fun k T' T'' hk' hck l => ?_), hlink⟩
      have ok := chain_own ho hu' k T' (by omega) hck
      refine (l.wr _ _ _ (fun hh => ?_)).setFrame _ _ (Ne.symm (hnone _ _ ok))
      rw [← hh.1] at ok
      have := (own_inj oT ok).1; omega
    rw [entWalk_chain (L + 1) _ (by omega) hc2, lv_cons (L + 1) (by omega)]
    rw [entWalk_absent]
    rw [frameN_shl12 hfo, rd_setFrame, if_pos rfl]; simp
  · have hbk : ∀ f, ((m.wr (frameN T) (kidx va L) (mkEntry fW (fPresent ||| fRW))).setFrame fW.toNat
        (fun _ => 0)).backed f = m.backed f := fun _ => rfl
    apply hwEntry_congr hbk
    intro L' T' hL' hck
    have ok := chain_own ho hu' L' T' hL' hck
    rw [rd_setFrame, if_neg (Ne.symm (hnone _ _ ok)), rd_wr, if_neg]
    intro hh
    rw [← hh.1] at ok
    obtain ⟨e1, e2⟩ := own_inj oT ok
    subst e1
    apply hs
    rw [idxs_succ, idxs_succ va L, ← hh.2, e2]

end Firefly.Vmm
