import Firefly.Proof.AmlStrDecl
/-!
C11, the nested fragment — `Device(NAME){…}` / `ThermalZone(NAME){…}` / `Processor(NAME, id, addr, len){…}` /
`PowerResource(NAME, level, order){…}` around `Name(NAME, integer | string)`, `Event(NAME)`, `Mutex(NAME, sync)` declarations, to any
depth: the first pass.
-/
namespace Firefly.AmlParser.F
open Firefly.AmlLex Firefly.AmlTree Firefly.C13 Firefly.AmlParser Firefly.AmlParser.G Firefly.AmlParser.S
open Firefly.Gen.C12 Firefly.AmlProg

/-! ## lexical pieces -/

/-- largest value + 1 a PkgLength of `w` bytes can carry -/
def pkgBoundF (w : Nat) : Nat := if w ≤ 1 then 64 else 2 ^ (4 + 8 * (w - 1))

theorem pkglen_rt (d : Bytes) (v w base pe : Nat) (hw : 1 ≤ w ∧ w ≤ 4) (hv : v < pkgBoundF w)
    (henc : ∀ i, i < w → d[base + i]? = (encPkgLength v w)[i]?) (hfit : base + w ≤ pe) :
    parsePkgLength d { offset := base, pkgEnd := pe } =
      .ok ((v, PRes.ok), { offset := base + w, pkgEnd := pe }) := by
  have hcases : w = 1 ∨ w = 2 ∨ w = 3 ∨ w = 4 := by omega
  rcases hcases with rfl | rfl | rfl | rfl
  · have h0 := henc 0 (by omega)
    simp [pkgBoundF] at hv
    simp [encPkgLength] at h0
    have : v % 64 = v := by omega
    rw [this] at h0
    exact pkglen1 d v base pe hv hfit h0
  · have h0 := henc 0 (by omega)
    have h1 := henc 1 (by omega)
    simp [pkgBoundF] at hv
    simp [encPkgLength, List.range, List.range.loop] at h0 h1
    rw [show (64 : UInt8) + UInt8.ofNat (v % 16) = UInt8.ofNat (64 + v % 16) by simp [UInt8.ofNat_add]] at h0
    exact pkglen2 d v base pe hv hfit h0 h1
  · have h0 := henc 0 (by omega)
    have h1 := henc 1 (by omega)
    have h2 := henc 2 (by omega)
    simp [pkgBoundF] at hv
    simp [encPkgLength, List.range, List.range.loop] at h0 h1 h2
    rw [show (128 : UInt8) + UInt8.ofNat (v % 16) = UInt8.ofNat (128 + v % 16) by simp [UInt8.ofNat_add]] at h0
    exact pkglen3 d v base pe hv hfit h0 h1 h2
  · have h0 := henc 0 (by omega)
    have h1 := henc 1 (by omega)
    have h2 := henc 2 (by omega)
    have h3 := henc 3 (by omega)
    simp [pkgBoundF] at hv
    simp [encPkgLength, List.range, List.range.loop] at h0 h1 h2 h3
    rw [show (192 : UInt8) + UInt8.ofNat (v % 16) = UInt8.ofNat (192 + v % 16) by simp [UInt8.ofNat_add]] at h0
    exact pkglen4 d v base pe hv hfit h0 h1 h2 h3

theorem encPkgLength_length (v w : Nat) (hw : 1 ≤ w) : (encPkgLength v w).length = w := by
  unfold encPkgLength
  split
  · simp; omega
  · simp; omega

/-- a two-byte (extended) opcode -/
theorem nextOpcode_ext (d : Bytes) (o pe : Nat) (b : UInt8) (h0 : d[o]? = some 0x5b) (h1 : d[o + 1]? = some b) (hlt : o + 1 < pe)
    (hok : pOpcodeTableIndex (0xff + b.toNat) false ≠ badOpcode) :
    nextOpcode d { offset := o, pkgEnd := pe } = .ok ((0xff + b.toNat, PRes.ok), { offset := o + 2, pkgEnd := pe }) := by
  have hne0 : (decide (pe ≤ o)) = false := by simp; omega
  have hne1 : (decide (pe ≤ o + 1)) = false := by simp; omega
  unfold nextOpcode checkOpcode
  simp only [bind, StateT.bind, readByte, Reader.eof, hne0, h0, pure, Except.pure, Except.bind, Bool.false_eq_true, ↓reduceIte,
    StateT.pure]
  rw [if_pos (by decide)]
  simp only [bind, StateT.bind, readByte, Reader.eof, hne1, h1, pure, Except.pure, Except.bind, Bool.false_eq_true, ↓reduceIte,
    hok, StateT.pure]

/-! ## the opening of an object, any opcode -/

/-- the object `parseNextObject` has created and appended when it calls `parseObjectArgs` -/
structure OpenedG (d : Bytes) (s s5 : PState) (x op base oplen pe : Nat) : Prop where
  fp : FP d s5
  nx : live s.tree x = false
  lx : live s5.tree x = true
  opx : (slot s5.tree x).opcode = op
  infx : (slot s5.tree x).infoIndex = pOpcodeTableIndex op true
  thx : (slot s5.tree x).tableHandle = s.tableHandle
  kx : K s5.tree x = []
  px : C13.P s5.tree x = topOf s
  r : s5.r = { offset := base + oplen, pkgEnd := pe }
  rest : SameRest s s5
  old : OldKept s s5 (topOf s) x
  size : s5.tree.pool.size ≤ s.tree.pool.size + 1

/-- the first half of `parseNextObject` on any opcode: the object is created and appended to the innermost scope -/
theorem nextObject_openG {d : Bytes} (f : Nat) {s : PState} (h : FP d s) (hne : s.scopeStack.size ≠ 0)
    (hsz : s.tree.pool.size + 1 < INV) (op oplen base pe : Nat) (hr : s.r = { offset := base, pkgEnd := pe })
    (hpe : pe ≤ d.size) (hfit : base + oplen ≤ pe)
    (eopc : nextOpcode d { offset := base, pkgEnd := pe } = .ok ((op, PRes.ok), { offset := base + oplen, pkgEnd := pe }))
    (hinfo : InfoOK (pOpcodeTableIndex op true)) (hfr : op ≠ pOpIntFreedObject) (hnoop : op ≠ opNoop) :
    ∃ x s5, OpenedG d s s5 x op base oplen pe ∧
      ∀ a s', parseObjectArgs d f x s5 = .ok (a, s') → parseNextObject d (f + 1) s = .ok (a, s') := by
  have w := h.tree.wf
  have e1 : lex offset s = .ok (base, s) := by
    have : offset s.r = .ok (base, s.r) := by rw [hr]; rfl
    have := lex_eq this
    rw [this]
  have eop : lex (nextOpcode d) s = .ok ((op, PRes.ok), { s with r := { offset := base + oplen, pkgEnd := pe } }) := by
    apply lex_eq
    rw [hr]
    exact eopc
  generalize hs2 : ({ s with r := { offset := base + oplen, pkgEnd := pe } } : PState) = s2 at eop
  have h2 : FP d s2 := by
    rw [← hs2]
    exact ⟨⟨by show base + oplen ≤ d.size; omega, hpe⟩, h.tree, h.scopes⟩
  have ht2 : s2.tree = s.tree := by rw [← hs2]
  have hsc2 : s2.scopeStack = s.scopeStack := by rw [← hs2]
  have hr2 : s2.r = { offset := base + oplen, pkgEnd := pe } := by rw [← hs2]
  obtain ⟨x, s3, e3, h3, f3, hr3, hop3, hinfo3, _⟩ := newObject_step h2 op (by rw [ht2]; omega) hfr hinfo
  have hth3 : (slot s3.tree x).tableHandle = s.tableHandle := by rw [newObject_handle e3, ← hs2]
  have hobj3 : live s3.tree x = true := f3.liven
  obtain ⟨s4, e4, h4, hp4, hsl4, hr4⟩ := upd_step h3 hobj3 (fun o => { o with amlOffset := base }) (by keeps_links) Iff.rfl
    (h3.tree.info _ hobj3)
  have f4 : Fresh1 x s2 s4 := f3.thenPay hp4
  have hop4 : (slot s4.tree x).opcode = op := by rw [hsl4]; exact hop3
  have hinfo4 : (slot s4.tree x).infoIndex = pOpcodeTableIndex op true := by rw [hsl4]; exact hinfo3
  have hth4 : (slot s4.tree x).tableHandle = s.tableHandle := by rw [hsl4]; exact hth3
  obtain ⟨hk4x, hk4⟩ := fresh1_kids f4 h2.tree.wf h4.tree.wf
  have hne4 : s4.scopeStack.size ≠ 0 := by rw [f4.scope, hsc2]; exact hne
  obtain ⟨esc, _, _⟩ := scopeCurrent_top h4 hne4
  have htop4 : topOf s4 = topOf s := by unfold topOf; rw [f4.scope, hsc2]
  rw [htop4] at esc
  obtain ⟨_, htopl, _⟩ := scopeCurrent_top h hne
  have htopl2 : live s2.tree (topOf s) = true := by rw [ht2]; exact htopl
  have hx2 : live s2.tree x = false := f4.nlive
  obtain ⟨s5, e5, h5, hs5, hsz5, sp5, hl5, hP5, hLa5, hNx5, hFi5, hK5⟩ :=
    append_step_k h4 h2.tree.wf (fun y hy => ⟨by rw [f4.livex y (f4.ne hy)]; exact hy, by
      show (slot s4.tree y).parentIndex = (slot s2.tree y).parentIndex; rw [f4.old y (f4.ne hy)]⟩) htopl2 hx2 f4.liven f4.pn
  have hx5 : live s5.tree x = true := by rw [hl5]; exact f4.liven
  have htopx : topOf s ≠ x := fun e => by rw [e, hx2] at htopl2; cases htopl2
  have r25 : SameRest s s5 := by
    have a : SameRest s s2 := by rw [← hs2]; exact SameRest.ofR _
    exact (a.trans (fresh1_rest f4)).trans (SameRest.ofTree hs5)
  have hold5 : ∀ y, live s.tree y = true → live s5.tree y = true := by
    intro y hy
    have hy2 : live s2.tree y = true := by rw [ht2]; exact hy
    rw [hl5, f4.livex y (f4.ne hy2)]; exact hy2
  refine ⟨x, s5, ⟨h5, by rw [← ht2]; exact hx2, hx5, by rw [pay_opcode (sp5.pay x)]; exact hop4,
    by rw [pay_info (sp5.pay x)]; exact hinfo4, by rw [pay_handle (sp5.pay x)]; exact hth4, ?_, by rw [hP5, if_pos rfl], ?_,
    r25, ⟨hold5, ?_, ?_, ?_⟩, ?_⟩, ?_⟩
  · rw [hK5 x f4.liven, if_neg (fun e => htopx e.symm), hk4x]
  · have : s5.r = s4.r := by rw [hs5]
    rw [this, hr4, hr3, hr2]
  · intro y hy
    have hy2 : live s2.tree y = true := by rw [ht2]; exact hy
    rw [hP5, if_neg (f4.ne hy2)]
    show (slot s4.tree y).parentIndex = (slot s.tree y).parentIndex
    rw [f4.old y (f4.ne hy2), ht2]
  · intro y hy
    have hy2 : live s2.tree y = true := by rw [ht2]; exact hy
    rw [sp5.pay y, f4.old y (f4.ne hy2), ht2]
  · intro y hy
    have hy2 : live s2.tree y = true := by rw [ht2]; exact hy
    have hyx : y ≠ x := f4.ne hy2
    have hy4 : live s4.tree y = true := by rw [f4.livex y hyx]; exact hy2
    rw [hK5 y hy4]
    by_cases hyt : y = topOf s
    · rw [if_pos hyt, if_pos hyt, hyt, hk4 _ htopl2, ht2]
    · rw [if_neg hyt, if_neg hyt, hk4 y hy2, ht2]
  · have := f4.size.2
    rw [ht2] at this
    rw [hsz5]; omega
  · intro a s' ea
    unfold parseNextObject
    refine bind_ex' e1 (bind_ex' eop ?_)
    dsimp only
    rw [if_neg hnoop, if_neg (by decide)]
    refine bind_ex' e3 (bind_ex' e4 (bind_ex' esc (bind_ex' (derefP_some_ex _) (bind_ex' e5 ea))))

/-! ## the programs and their layout in the pool -/

/-- the scoped objects with the arguments PkgLength, NameString, fixed constants, TermList: `Device`, `ThermalZone`,
`Processor` (id, block address, block length), `PowerResource` (system level, resource order) -/
inductive BKind where
  | device
  | thermal
  | proc
  | power
  deriving DecidableEq

/-- the internal opcode (`0xff` + second opcode byte) -/
def BKind.op : BKind → Nat
  | .device => 385
  | .thermal => 388
  | .proc => 386
  | .power => 387

/-- the byte behind the extended-opcode prefix `5b` -/
def BKind.b2 : BKind → UInt8
  | .device => 0x82
  | .thermal => 0x85
  | .proc => 0x83
  | .power => 0x84

/-- widths of the fixed constant arguments between the name and the body -/
def BKind.ws : BKind → List Nat
  | .device => []
  | .thermal => []
  | .proc => [1, 4, 1]
  | .power => [1, 2]

/-- the description in the namespace (`vs`: the values of the fixed arguments, reduced to their widths) -/
def BKind.tag : BKind → List Nat → String
  | .device, _ => "device"
  | .thermal, _ => "thermal"
  | .proc, vs => s!"processor:{vs.getD 0 0}:{vs.getD 1 0}:{vs.getD 2 0}"
  | .power, vs => s!"power:{vs.getD 0 0}:{vs.getD 1 0}"

/-- a constant argument object: pool position, width in bytes (1, 2 or 4), value -/
structure CArg where
  e : Nat
  n : Nat
  v : Nat

/-- the argument type of a constant of `n` bytes: ByteData, WordData, DWordData -/
def argTy (n : Nat) : Nat := if n = 1 then 5 else if n = 2 then 6 else 7

/-- the fixed arguments: little-endian constants of the given widths -/
def encVals : List Nat → List Nat → List UInt8
  | n :: ws, v :: vs => encConst v n ++ encVals ws vs
  | _, _ => []

/-! ## leaf named objects: `Event`, `Mutex` -/

/-- named objects without a scope: a name and fixed constant arguments -/
inductive LKind where
  | event
  | mutex
  deriving DecidableEq

def LKind.op : LKind → Nat
  | .event => 257
  | .mutex => 256

def LKind.b2 : LKind → UInt8
  | .event => 0x02
  | .mutex => 0x01

/-- widths of the fixed arguments -/
def LKind.ws : LKind → List Nat
  | .event => []
  | .mutex => [1]

/-- `Name(NAME, data)`, `Device(NAME){…}` / `ThermalZone(NAME){…}` / `Processor(NAME, …){…}` / `PowerResource(NAME, …){…}` (PkgLength
width `pw`, fixed arguments `vals`), or `Event(NAME)` / `Mutex(NAME, sync)` -/
inductive PObj where
  | name (seg : List UInt8) (dv : DVal)
  | dev (kd : BKind) (pw : Nat) (seg : List UInt8) (vals : List Nat) (body : List PObj)
  | leaf (kd : LKind) (seg : List UInt8) (vals : List Nat)

mutual
def encP : PObj → List UInt8
  | .name seg dv => 0x08 :: (seg ++ dv.enc)
  | .dev kd pw seg vals body => [0x5b, kd.b2] ++ encPkgLength (pw + (seg.length + ((encVals kd.ws vals).length + (encPs body).length))) pw ++
      (seg ++ (encVals kd.ws vals ++ encPs body))
  | .leaf kd seg vals => [0x5b, kd.b2] ++ seg ++ encVals kd.ws vals
def encPs : List PObj → List UInt8
  | [] => []
  | o :: os => encP o ++ encPs os
end

mutual
/-- number of declarations -/
def sizeP : PObj → Nat
  | .name _ _ => 1
  | .dev kd _ _ _ body => 1 + kd.ws.length + sizePs body
  | .leaf _ _ _ => 1
def sizePs : List PObj → Nat
  | [] => 0
  | o :: os => sizeP o + sizePs os
end

mutual
/-- number of packages -/
def closesP : PObj → Nat
  | .name _ _ => 0
  | .dev _ _ _ _ body => 1 + closesPs body
  | .leaf _ _ _ => 0
def closesPs : List PObj → Nat
  | [] => 0
  | o :: os => closesP o + closesPs os
end

mutual
/-- well-formed: simple names, integer widths the encoder writes, PkgLength widths that hold the length -/
def okP : PObj → Prop
  | .name seg dv => NameOK [seg] ∧ seg.length = 4 ∧ dv.OK
  | .dev kd pw seg vals body => 1 ≤ pw ∧ pw ≤ 4 ∧ pw + (seg.length + ((encVals kd.ws vals).length + (encPs body).length)) < pkgBoundF pw ∧
      NameOK [seg] ∧ seg.length = 4 ∧ kd.ws.length = vals.length ∧ okPs body
  | .leaf kd seg vals => NameOK [seg] ∧ seg.length = 4 ∧ kd.ws.length = vals.length
def okPs : List PObj → Prop
  | [] => True
  | o :: os => okP o ∧ okPs os
end

/-! ## fixed constant arguments -/

/-- `y` is in the pool `t'` what it is in the pool `t` -/
def SameAt (t t' : ObjectTree) (y : Nat) : Prop :=
  live t' y = live t y ∧ Pay (slot t' y) = Pay (slot t y) ∧ C13.P t' y = C13.P t y ∧ K t' y = K t y

/-- a constant argument object under `x` -/
structure ConstT (t : ObjectTree) (h x : Nat) (a : CArg) : Prop where
  le : live t a.e = true
  op : (slot t a.e).opcode = constOp a.n a.v
  inf : (slot t a.e).infoIndex = pOpcodeTableIndex (constOp a.n a.v) true
  th : (slot t a.e).tableHandle = h
  int : IntObj t a.e (intVal a.n a.v)
  ke : K t a.e = []
  pe : C13.P t a.e = x

theorem ConstT.frame {t t' : ObjectTree} {h x : Nat} {a : CArg} (c : ConstT t h x a) (sa : SameAt t t' a.e) : ConstT t' h x a :=
  ⟨by rw [sa.1]; exact c.le, by rw [pay_opcode sa.2.1]; exact c.op, by rw [pay_info sa.2.1]; exact c.inf,
    by rw [pay_handle sa.2.1]; exact c.th, c.int.of_pay sa.2.1, by rw [sa.2.2.2]; exact c.ke, by rw [sa.2.2.1]; exact c.pe⟩

/-- the constant arguments `es` have been parsed and appended to `x` -/
structure ArgsBuilt (d : Bytes) (s s' : PState) (x : Nat) (es : List CArg) : Prop where
  fp : FP d s'
  rest : SameRest s s'
  new : ∀ a ∈ es, live s.tree a.e = false
  nd : (es.map (·.e)).Nodup
  args : ∀ a ∈ es, ConstT s'.tree s.tableHandle x a
  kx : K s'.tree x = K s.tree x ++ es.map (·.e)
  oldl : ∀ y, live s.tree y = true → live s'.tree y = true
  oldpay : ∀ y, live s.tree y = true → Pay (slot s'.tree y) = Pay (slot s.tree y)
  oldpar : ∀ y, live s.tree y = true → C13.P s'.tree y = C13.P s.tree y
  oldk : ∀ y, live s.tree y = true → y ≠ x → K s'.tree y = K s.tree y
  size : s'.tree.pool.size ≤ s.tree.pool.size + es.length

theorem encVals_len : ∀ (ws vs : List Nat), ws.length = vs.length → (encVals ws vs).length = ws.sum
  | [], [], _ => by simp [encVals]
  | n :: ws, v :: vs, h => by
    simp only [encVals, List.length_append, encConst_length, List.sum_cons]
    rw [encVals_len ws vs (by simpa using h)]
  | [], _ :: _, h => by simp at h
  | _ :: _, [], h => by simp at h

set_option maxRecDepth 10000 in
/-- **the fixed constant arguments of an object** (`ByteData` / `WordData` / `DWordData`): each becomes a new constant object
appended to `x` -/
theorem const_args {d : Bytes} {info x : Nat} (hI : InfoOK info) :
    ∀ (ws vs : List Nat) (f j : Nat) (s : PState) (base pe : Nat), ws.length = vs.length → (∀ n ∈ ws, n = 1 ∨ n = 2 ∨ n = 4) →
      FP d s → live s.tree x = true → s.r = { offset := base, pkgEnd := pe } → pe ≤ d.size →
      BytesAt d base (encVals ws vs) → base + (encVals ws vs).length ≤ pe → s.tree.pool.size + ws.length < INV →
      j + ws.length ≤ argCnt info → (∀ i, i < ws.length → argAt info (j + i) = argTy (ws.getD i 0)) →
      ∃ s' es, es.map (·.n) = ws ∧ es.map (·.v) = vs ∧ ArgsBuilt d s s' x es ∧
        s'.r = { offset := base + (encVals ws vs).length, pkgEnd := pe } ∧
        ∀ a s'', parseArgs d (f + 1) info x (j + ws.length) s' = .ok (a, s'') → parseArgs d (f + 1 + ws.length) info x j s = .ok (a, s'')
  | [], [], f, j, s, base, pe, _, _, h, hx, hr, _, _, _, _, _, _ => by
    refine ⟨s, [], rfl, rfl, ⟨h, SameRest.refl s, fun _ ha => (by cases ha), by simp, fun _ ha => (by cases ha), by simp,
      fun _ hy => hy, fun _ _ => rfl, fun _ _ => rfl, fun _ _ _ => rfl, by simp⟩, by simpa [encVals] using hr, ?_⟩
    intro a s'' e
    simpa using e
  | n :: ws, v :: vs, f, j, s, base, pe, hlen, hws, h, hx, hr, hpe, hb, hfit, hsz, hj, harg => by
    simp only [encVals] at hb hfit ⊢
    rw [List.length_append, encConst_length] at hfit
    simp only [List.length_cons] at hsz hj harg hlen
    have hn := hws n (List.mem_cons_self ..)
    have hb1 : BytesAt d base (encConst v n) := BytesAt.left hb
    have hb2 : BytesAt d (base + n) (encVals ws vs) := by have := BytesAt.right hb; rw [encConst_length] at this; exact this
    have hat : (argTy n = argTypeByteData ∧ n = 1 ∧ constOp n v = opBytePrefix) ∨ (argTy n = argTypeWordData ∧ n = 2 ∧ constOp n v = opWordPrefix) ∨
        (argTy n = argTypeDwordData ∧ n = 4 ∧ constOp n v = opDwordPrefix) ∨ (argTy n = argTypeQwordData ∧ n = 8 ∧ constOp n v = opQwordPrefix) := by
      rcases hn with e | e | e <;> subst e <;> simp [argTy, constOp, argTypeByteData, argTypeWordData, argTypeDwordData, opBytePrefix, opWordPrefix, opDwordPrefix]
    obtain ⟨e, s1, e1, h1, c1, c2, c3, c4, c5, c6, fc, ci, cth⟩ := const_object_roundtrip h (by omega) (argTy n) n (constOp n v) hat v base pe hr
      (fun i hi => hb1 i (by rw [encConst_length]; exact hi)) (by omega)
    have hx1 : live s1.tree x = true := by rw [fc.livex x (fc.ne hx)]; exact hx
    obtain ⟨hk1e, hk1⟩ := fresh1_kids fc h.tree.wf h1.tree.wf
    obtain ⟨s2, e2, h2, hs2, hsz2, sp2, hl2, hP2, _, _, _, hK2⟩ :=
      append_step_k h1 h.tree.wf (fun y hy => ⟨by rw [fc.livex y (fc.ne hy)]; exact hy, by
        show (slot s1.tree y).parentIndex = (slot s.tree y).parentIndex; rw [fc.old y (fc.ne hy)]⟩) hx c1 c2 c3
    have hr2 : s2.r = { offset := base + n, pkgEnd := pe } := by
      have : s2.r = s1.r := by rw [hs2]
      rw [this, c6]
    have hx2 : live s2.tree x = true := by rw [hl2]; exact hx1
    have r02 : SameRest s s2 := (fresh1_rest fc).trans (SameRest.ofTree hs2)
    obtain ⟨s', es, hm1, hm2, ab, hr', hk⟩ := const_args hI ws vs f (j + 1) s2 (base + n) pe (by omega) (fun m hm => hws m (List.mem_cons_of_mem _ hm))
      h2 hx2 hr2 hpe hb2 (by omega) (by rw [hsz2]; have := fc.size.2; omega) (by omega) (fun i hi => by
        have := harg (i + 1) (by omega)
        simp only [List.getD_cons_succ] at this
        rw [← this]; congr 1; omega)
    have hxe : x ≠ e := fc.ne hx
    have le2 : live s2.tree e = true := by rw [hl2]; exact c2
    refine ⟨s', ⟨e, n, v⟩ :: es, by simp [hm1], by simp [hm2], ?_, (by rw [hr', List.length_append, encConst_length]; congr 1; omega), ?_⟩
    · refine ⟨ab.fp, r02.trans ab.rest, ?_, ?_, ?_, ?_, fun y hy => ab.oldl y (by rw [hl2, fc.livex y (fc.ne hy)]; exact hy), ?_, ?_, ?_, ?_⟩
      · intro a ha
        rcases List.mem_cons.1 ha with e' | ha'
        · rw [e']; exact c1
        · cases hq : live s.tree a.e with
          | false => rfl
          | true =>
            have := ab.new a ha'
            rw [hl2, fc.livex a.e (fc.ne hq), hq] at this; cases this
      · simp only [List.map_cons, List.nodup_cons]
        refine ⟨?_, ab.nd⟩
        intro hm
        obtain ⟨a, ha, hae⟩ := List.mem_map.1 hm
        have := ab.new a ha
        rw [hae, le2] at this; cases this
      · intro a ha
        rcases List.mem_cons.1 ha with e' | ha'
        · rw [e']
          have sa : SameAt s2.tree s'.tree e := ⟨by rw [le2, ab.oldl e le2], ab.oldpay e le2, ab.oldpar e le2, ab.oldk e le2 (fun q => hxe q.symm)⟩
          have pe2 := sp2.pay e
          have c0 : ConstT s2.tree s.tableHandle x ⟨e, n, v⟩ :=
            ⟨le2, by rw [pay_opcode pe2]; exact c5, by rw [pay_info pe2]; exact ci, by rw [pay_handle pe2]; exact cth,
              (by
                have : IntObj s1.tree e (intVal n v) := by
                  refine Or.inr (Or.inr (Or.inr ⟨?_, ?_, ?_, ?_⟩))
                  · rw [c5]; rcases hn with q | q | q <;> subst q <;> simp [constOp]
                  · rw [c5]; rcases hn with q | q | q <;> subst q <;> simp [constOp]
                  · rw [c5]; rcases hn with q | q | q <;> subst q <;> simp [constOp]
                  · rw [c4]; rcases hn with q | q | q <;> subst q <;> simp [intVal]
                exact this.of_pay pe2),
              by rw [hK2 e c2, if_neg (fun q => hxe q.symm)]; exact hk1e, by rw [hP2, if_pos rfl]⟩
          exact c0.frame sa
        · have := ab.args a ha'
          rw [r02.th] at this
          exact this
      · rw [ab.kx, hK2 x hx1, if_pos rfl, hk1 x hx]; simp
      · intro y hy
        have hy2 : live s2.tree y = true := by rw [hl2, fc.livex y (fc.ne hy)]; exact hy
        rw [ab.oldpay y hy2, sp2.pay y, fc.old y (fc.ne hy)]
      · intro y hy
        have hy2 : live s2.tree y = true := by rw [hl2, fc.livex y (fc.ne hy)]; exact hy
        rw [ab.oldpar y hy2, hP2, if_neg (fc.ne hy)]
        show (slot s1.tree y).parentIndex = _
        rw [fc.old y (fc.ne hy)]; rfl
      · intro y hy hyx
        have hy1 : live s1.tree y = true := by rw [fc.livex y (fc.ne hy)]; exact hy
        have hy2 : live s2.tree y = true := by rw [hl2]; exact hy1
        rw [ab.oldk y hy2 hyx, hK2 y hy1, if_neg hyx, hk1 y hy]
      · have := ab.size
        have := fc.size.2
        simp only [List.length_cons]
        rw [hsz2] at *
        omega
    · intro a s'' ea
      have e3 := hk a s'' (by have q : j + 1 + ws.length = j + (ws.length + 1) := by omega
                              rw [q]; exact ea)
      show parseArgs d (f + 1 + (ws.length + 1)) info x j s = _
      have q2 : f + 1 + (ws.length + 1) = ((f + ws.length) + 1) + 1 := by omega
      have q3 : f + 1 + ws.length = (f + ws.length) + 1 := by omega
      rw [q3] at e3
      rw [q2]
      unfold parseArgs
      rw [opArgCount_of_info hI, bind_run (optP_ex _ s), if_pos (by omega), opArg_of_info hI j]
      have h0 := harg 0 (by omega)
      simp only [Nat.add_zero, List.getD_cons_zero] at h0
      rw [h0, bind_run (optP_ex _ s)]
      unfold parseArg
      rw [if_pos (by rcases hn with q | q | q <;> subst q <;> decide), bind_run e1]
      dsimp only
      rw [bind_run e2, if_pos rfl]
      exact e3
  | [], _ :: _, _, _, _, _, _, h, _, _, _, _, _, _, _, _, _, _ => by simp at h
  | _ :: _, [], _, _, _, _, _, h, _, _, _, _, _, _, _, _, _, _ => by simp at h


/-! ## a `Device` header -/

set_option maxRecDepth 20000 in
theorem row_385 : rowSummary 385 = some (true, false, false, 3, [15, 9, 1]) := by decide +kernel
set_option maxRecDepth 20000 in
theorem row_388 : rowSummary 388 = some (true, false, false, 3, [15, 9, 1]) := by decide +kernel
set_option maxRecDepth 20000 in
theorem row_386 : rowSummary 386 = some (true, false, false, 6, [15, 9, 5, 7, 5, 1]) := by decide +kernel
set_option maxRecDepth 20000 in
theorem row_387 : rowSummary 387 = some (true, false, false, 5, [15, 9, 5, 6, 1]) := by decide +kernel
theorem row_blk (kd : BKind) : rowSummary kd.op = some (true, false, false, kd.ws.length + 3, [15, 9] ++ kd.ws.map argTy ++ [1]) := by
  cases kd
  · exact row_385
  · exact row_388
  · exact row_386
  · exact row_387

theorem BKind.ws_ok (kd : BKind) : ∀ n ∈ kd.ws, n = 1 ∨ n = 2 ∨ n = 4 := by
  cases kd <;> simp [BKind.ws]

theorem BKind.ws_le (kd : BKind) : kd.ws.length ≤ 3 := by
  cases kd <;> simp [BKind.ws]
set_option maxRecDepth 20000 in
theorem dev_row (kd : BKind) : pOpcodeTableIndex (0xff + kd.b2.toNat) false ≠ badOpcode ∧ kd.op ≠ pOpIntFreedObject ∧
    kd.op ≠ opNoop ∧ 0xff + kd.b2.toNat = kd.op := by
  cases kd <;> decide +kernel
/-- the opcodes of the scoped objects are none of the opcodes the passes look for -/
theorem BKind.op_ne (kd : BKind) : kd.op ≠ opBytePrefix ∧ kd.op ≠ opWordPrefix ∧ kd.op ≠ opDwordPrefix ∧ kd.op ≠ opQwordPrefix ∧
    kd.op ≠ opStringPrefix ∧ kd.op ≠ opIntScopeBlock ∧ kd.op ≠ opScope ∧ kd.op ≠ opIntNamePathOrMethodCall ∧ kd.op ≠ 0x1fd ∧
    kd.op ≠ 0x08 := by
  cases kd <;> decide

/-- `pushPkgEnd` inside the table -/
theorem pushPkgEnd_run (d : Bytes) (e : Nat) (s : PState) (he : e ≤ d.size) :
    pushPkgEnd d e s = .ok (true, { s with pkgEndStack := s.pkgEndStack.push e, r := { s.r with pkgEnd := e } }) := by
  have h2 : ¬ e > d.size := by omega
  simp only [pushPkgEnd, lex, setPkgEnd, modify, modifyGet, MonadStateOf.modifyGet, StateT.modifyGet,
    bind, StateT.bind, pure, StateT.pure, Except.bind, Except.pure, h2, if_false]

/-- the objects a `Device` header creates in the first pass: the device `x`, its name path `c`, its (still empty) scope block
`sb`, which is the innermost scope from now on; the package of the device is open -/
structure DevOpen (d : Bytes) (s s' : PState) (kd : BKind) (x c sb off pe1 : Nat) (es : List CArg) : Prop where
  fp : FP d s'
  nx : live s.tree x = false
  nc : live s.tree c = false
  nsb : live s.tree sb = false
  lx : live s'.tree x = true
  lc : live s'.tree c = true
  lsb : live s'.tree sb = true
  opx : (slot s'.tree x).opcode = kd.op
  infx : (slot s'.tree x).infoIndex = pOpcodeTableIndex kd.op true
  thx : (slot s'.tree x).tableHandle = s.tableHandle
  opc : (slot s'.tree c).opcode = opIntNamePath
  infc : (slot s'.tree c).infoIndex = pOpcodeTableIndex opIntNamePath true
  thc : (slot s'.tree c).tableHandle = s.tableHandle
  valc : (slot s'.tree c).value = .bytes off 4
  opsb : (slot s'.tree sb).opcode = opIntScopeBlock
  infsb : (slot s'.tree sb).infoIndex = pOpcodeTableIndex opIntScopeBlock true
  thsb : (slot s'.tree sb).tableHandle = s.tableHandle
  kx : K s'.tree x = c :: (es.map (·.e) ++ [sb])
  kc : K s'.tree c = []
  ksb : K s'.tree sb = []
  px : C13.P s'.tree x = topOf s
  pc : C13.P s'.tree c = x
  psb : C13.P s'.tree sb = x
  args : ∀ a ∈ es, ConstT s'.tree s.tableHandle x a
  newes : ∀ a ∈ es, live s.tree a.e = false
  nde : (es.map (·.e)).Nodup
  hke : ∀ a ∈ es, a.e ≠ x ∧ a.e ≠ c ∧ a.e ≠ sb
  sc : s'.scopeStack = s.scopeStack.push sb
  pk : s'.pkgEndStack = s.pkgEndStack.push pe1
  ab : s'.allBlocks = s.allBlocks
  th : s'.tableHandle = s.tableHandle
  old : OldKept s s' (topOf s) x
  size : s'.tree.pool.size ≤ s.tree.pool.size + 3 + es.length
  xcsb : x ≠ c ∧ x ≠ sb ∧ c ≠ sb

set_option maxRecDepth 10000 in
theorem dev_open {d : Bytes} (hd : d.size + 1024 ≤ 4294967296) (f : Nat) (kd : BKind) {s : PState} (h : FP d s)
    (hsk : s.allBlocks = false) (hne : s.scopeStack.size ≠ 0) (hsz : s.tree.pool.size + 3 + kd.ws.length < INV)
    (pw : Nat) (seg : List UInt8) (vals : List Nat) (blen base pe : Nat) (hr : s.r = { offset := base, pkgEnd := pe }) (hpe : pe ≤ d.size)
    (hpw : 1 ≤ pw ∧ pw ≤ 4) (hv : pw + (4 + blen) < pkgBoundF pw) (hseg : NameOK [seg]) (hs4 : seg.length = 4)
    (hvl : kd.ws.length = vals.length) (hvb : (encVals kd.ws vals).length ≤ blen)
    (hb : BytesAt d base ([0x5b, kd.b2] ++ encPkgLength (pw + (4 + blen)) pw ++ seg ++ encVals kd.ws vals))
    (hfit : base + 2 + pw + 4 + blen ≤ pe) :
    ∃ s' x c sb es, parseNextObject d (f + kd.ws.length + 8) s = .ok (PRes.ok, s') ∧
      DevOpen d s s' kd x c sb (base + 2 + pw) (base + 2 + pw + 4 + blen) es ∧ es.map (·.n) = kd.ws ∧ es.map (·.v) = vals ∧
      s'.r = { offset := base + 2 + pw + 4 + (encVals kd.ws vals).length, pkgEnd := base + 2 + pw + 4 + blen } := by
  obtain ⟨r1, r2, r3, r4⟩ := dev_row kd
  obtain ⟨fl, a1, a2, a3, a4, a5, a6, a7, a8⟩ := rowSummary_spec (row_blk kd)
  obtain ⟨n1, n2, n3, n4, n5, _⟩ := kd.op_ne
  have hwl := kd.ws_le
  have hb0 : BytesAt d base [0x5b, kd.b2] := BytesAt.left (BytesAt.left (BytesAt.left hb))
  have hbp : BytesAt d (base + 2) (encPkgLength (pw + (4 + blen)) pw) := by
    have := BytesAt.right (BytesAt.left (BytesAt.left hb)); simpa using this
  have hbs : BytesAt d (base + 2 + pw) seg := by
    have := BytesAt.right (BytesAt.left hb)
    rw [List.length_append, encPkgLength_length _ _ hpw.1] at this
    simpa [Nat.add_assoc] using this
  have hbv : BytesAt d (base + 2 + pw + 4) (encVals kd.ws vals) := by
    have := BytesAt.right hb
    rw [List.length_append, List.length_append, encPkgLength_length _ _ hpw.1, hs4] at this
    simpa [Nat.add_assoc] using this
  have eopc : nextOpcode d { offset := base, pkgEnd := pe } = .ok ((kd.op, PRes.ok), { offset := base + 2, pkgEnd := pe }) := by
    have h0 := hb0 0 (by simp)
    have h1 := hb0 1 (by simp)
    simp at h0 h1
    rw [← r4]
    exact nextOpcode_ext d base pe kd.b2 h0 h1 (by omega) r1
  obtain ⟨x, s5, o, hk⟩ := nextObject_openG (f + kd.ws.length + 7) h hne (by omega) kd.op 2 base pe hr hpe (by omega) eopc a6 r2 r3
  -- `parseObjectArgs`
  suffices hs : ∃ s' c sb es, parseObjectArgs d (f + kd.ws.length + 7) x s5 = .ok (PRes.ok, s') ∧
      DevOpen d s s' kd x c sb (base + 2 + pw) (base + 2 + pw + 4 + blen) es ∧ es.map (·.n) = kd.ws ∧ es.map (·.v) = vals ∧
      s'.r = { offset := base + 2 + pw + 4 + (encVals kd.ws vals).length, pkgEnd := base + 2 + pw + 4 + blen } by
    obtain ⟨s', c, sb, es, e, r⟩ := hs
    exact ⟨s', x, c, sb, es, hk _ _ e, r⟩
  rw [parseObjectArgs, bind_run (getObj_live o.lx), o.opx]
  rw [if_neg n1, if_neg n2, if_neg n3, if_neg n4, if_neg n5, o.infx, a1]
  rw [bind_run (optP_ex fl s5)]
  suffices hs : ∃ s' c sb es, parseArgs d (f + kd.ws.length + 6) (pOpcodeTableIndex kd.op true) x 0 s5 = .ok (PRes.shortCircuit, s') ∧
      DevOpen d s s' kd x c sb (base + 2 + pw) (base + 2 + pw + 4 + blen) es ∧ es.map (·.n) = kd.ws ∧ es.map (·.v) = vals ∧
      s'.r = { offset := base + 2 + pw + 4 + (encVals kd.ws vals).length, pkgEnd := base + 2 + pw + 4 + blen } by
    obtain ⟨s', c, sb, es, e, r⟩ := hs
    exact ⟨s', c, sb, es, by rw [bind_run e]; rfl, r⟩
  -- argument 0: the package length
  have hab5 : s5.allBlocks = false := by rw [o.rest.ab]; exact hsk
  let pe1 := base + 2 + pw + 4 + blen
  have e_off : lex offset s5 = .ok (base + 2, s5) := by
    have : offset s5.r = .ok (base + 2, s5.r) := by rw [o.r]; rfl
    have := lex_eq this
    rw [this]
  have e_pl : lex (parsePkgLength d) s5 = .ok ((pw + (4 + blen), PRes.ok), { s5 with r := { offset := base + 2 + pw, pkgEnd := pe } }) := by
    apply lex_eq
    rw [o.r]
    exact pkglen_rt d _ pw (base + 2) pe hpw hv (fun i hi => hbp i (by rw [encPkgLength_length _ _ hpw.1]; exact hi)) (by omega)
  generalize hs5a : ({ s5 with r := { offset := base + 2 + pw, pkgEnd := pe } } : PState) = s5a at e_pl
  have hu : u32 (base + 2 + (pw + (4 + blen))) = pe1 := by
    unfold u32
    rw [Nat.mod_eq_of_lt (by omega)]
    show base + 2 + (pw + (4 + blen)) = base + 2 + pw + 4 + blen
    omega
  have e_push := pushPkgEnd_run d pe1 s5a (show pe1 ≤ d.size by omega)
  generalize hs5b : ({ s5a with pkgEndStack := s5a.pkgEndStack.push pe1, r := { s5a.r with pkgEnd := pe1 } } : PState) = s5b at e_push
  have e_arg0 : parsePkgLenArg d (pOpcodeTableIndex kd.op true) x s5 = .ok ((none, PRes.ok), s5b) := by
    unfold parsePkgLenArg
    rw [bind_run e_off, bind_run e_pl]
    rw [if_neg (fun hq => hq rfl), a1, bind_run (optP_ex fl s5a), bind_run (allBlocks_ex s5a)]
    have : s5a.allBlocks = false := by rw [← hs5a]; exact hab5
    rw [this, a4]
    rw [if_neg (by decide)]
    dsimp only
    rw [hu, bind_run e_push]
    rfl
  -- the state with the package open
  have ht5b : s5b.tree = s5.tree := by rw [← hs5b, ← hs5a]
  have hr5b : s5b.r = { offset := base + 2 + pw, pkgEnd := pe1 } := by rw [← hs5b, ← hs5a]
  have hsc5b : s5b.scopeStack = s5.scopeStack := by rw [← hs5b, ← hs5a]
  have hpk5b : s5b.pkgEndStack = s5.pkgEndStack.push pe1 := by rw [← hs5b, ← hs5a]
  have hab5b : s5b.allBlocks = false := by rw [← hs5b, ← hs5a]; exact hab5
  have hth5b : s5b.tableHandle = s5.tableHandle := by rw [← hs5b, ← hs5a]
  have h5b : FP d s5b := by
    refine ⟨?_, by rw [ht5b]; exact o.fp.tree, ?_⟩
    · rw [hr5b]; exact ⟨by show base + 2 + pw ≤ d.size; omega, by show pe1 ≤ d.size; omega⟩
    · intro y hy; rw [hsc5b] at hy; rw [ht5b]; exact o.fp.scopes y hy
  -- argument 1: the name
  have hx5b : live s5b.tree x = true := by rw [ht5b]; exact o.lx
  obtain ⟨c, s6, e6, h6, c1, c2, c3, c4, c5, c6, fc, ci, cth⟩ := name_object_roundtrip hd h5b (by
      rw [ht5b]; have := o.size; omega) false 0 [seg] (base + 2 + pw) pe1 hr5b (by show pe1 ≤ d.size; omega) hseg
    (by have : encName false 0 [seg] = seg := by simp [encName]
        rw [this]; exact hbs) (by simp [encName, hs4]; show base + 2 + pw + 4 ≤ pe1; omega)
  have hlen : (encName false 0 [seg]).length = 4 := by simp [encName, hs4]
  rw [hlen] at c4 c6
  simp only [List.cons_ne_nil, ↓reduceIte, Nat.sub_zero] at c4
  obtain ⟨hk6c, hk6⟩ := fresh1_kids fc h5b.tree.wf h6.tree.wf
  obtain ⟨s7a, e7, h7a, hs7a, hsz7a, sp7a, hl7a, hP7a, _, _, _, hK7a⟩ :=
    append_step_k h6 h5b.tree.wf (fun y hy => ⟨by rw [fc.livex y (fc.ne hy)]; exact hy, by
      show (slot s6.tree y).parentIndex = (slot s5b.tree y).parentIndex; rw [fc.old y (fc.ne hy)]⟩) hx5b c1 c2 c3
  have hxc : x ≠ c := fc.ne hx5b
  have hx6 : live s6.tree x = true := by rw [fc.livex x hxc]; exact hx5b
  have hx7a : live s7a.tree x = true := by rw [hl7a]; exact hx6
  have hc7a : live s7a.tree c = true := by rw [hl7a]; exact c2
  have hr7a : s7a.r = { offset := base + 2 + pw + 4, pkgEnd := pe1 } := by
    have : s7a.r = s6.r := by rw [hs7a]
    rw [this, c6]
  -- the fixed constant arguments
  have harg : ∀ i, i < kd.ws.length → argAt (pOpcodeTableIndex kd.op true) (2 + i) = argTy (kd.ws.getD i 0) := by
    intro i hi
    rw [a8 (2 + i) (by omega)]
    cases kd
    · simp [BKind.ws] at hi
    · simp [BKind.ws] at hi
    · have : i = 0 ∨ i = 1 ∨ i = 2 := by simp [BKind.ws] at hi; omega
      rcases this with e | e | e <;> subst e <;> rfl
    · have : i = 0 ∨ i = 1 := by simp [BKind.ws] at hi; omega
      rcases this with e | e <;> subst e <;> rfl
  obtain ⟨s7, es, hm1, hm2, ab, hr7, hk7⟩ := const_args (info := pOpcodeTableIndex kd.op true) (x := x) a6 kd.ws vals (f + 3) 2 s7a
    (base + 2 + pw + 4) pe1 hvl kd.ws_ok h7a hx7a hr7a (show pe1 ≤ d.size by omega) hbv (show base + 2 + pw + 4 + _ ≤ pe1 by omega)
    (by rw [hsz7a]; have := fc.size.2; rw [ht5b] at this; have := o.size; omega) (by rw [a7]; omega) harg
  have h7 : FP d s7 := ab.fp
  have hx7 : live s7.tree x = true := ab.oldl x hx7a
  have hc7 : live s7.tree c = true := ab.oldl c hc7a
  have hesl : es.length = kd.ws.length := by rw [← hm1, List.length_map]
  -- the last argument: the scope block
  have hsz7' : s7.tree.pool.size < INV := by
    have := ab.size
    rw [hsz7a] at this; have := fc.size.2; rw [ht5b] at this; have := o.size; omega
  obtain ⟨sb, s8, e8, h8, f8, hr8, hop8, hinf8, hidx8⟩ := newObject_step h7 opIntScopeBlock hsz7' (by decide) info_502
  have hth8 : (slot s8.tree sb).tableHandle = s7.tableHandle := newObject_handle e8
  have e_off8 : lex offset s8 = .ok (s8.r.offset, s8) := by
    have : offset s8.r = .ok (s8.r.offset, s8.r) := rfl
    have := lex_eq this
    rw [this]
  obtain ⟨s9, e9, h9, hp9, hsl9, hr9⟩ := upd_step h8 f8.liven (fun o => { o with amlOffset := s8.r.offset }) (by keeps_links) Iff.rfl
    (h8.tree.info _ f8.liven)
  have f9 : Fresh1 sb s7 s9 := f8.thenPay hp9
  have hsb9 : live s9.tree sb = true := f9.liven
  have hidx9 : (slot s9.tree sb).index = sb := by rw [hsl9]; exact hidx8
  generalize hs10 : ({ s9 with scopeStack := s9.scopeStack.push sb } : PState) = s10
  have e_nsb : newScopeBlock s7 = .ok (sb, s10) := by
    unfold newScopeBlock
    rw [bind_run e8, bind_run e_off8, bind_run e9, bind_run (getObj_live hsb9), hidx9]
    show (scopeEnter sb >>= fun _ => pure sb) s9 = _
    rw [bind_run (show scopeEnter sb s9 = .ok ((), { s9 with scopeStack := s9.scopeStack.push sb }) from rfl), hs10]
    rfl
  have ht10 : s10.tree = s9.tree := by rw [← hs10]
  have h10 : FP d s10 := by
    refine ⟨by rw [← hs10]; exact h9.inv, by rw [ht10]; exact h9.tree, ?_⟩
    intro y hy
    rw [← hs10] at hy
    simp only [Array.toList_push, List.mem_append, List.mem_cons, List.mem_nil_iff, or_false] at hy
    rw [ht10]
    rcases hy with hy | hy
    · exact h9.scopes y hy
    · rw [hy]; exact hsb9
  obtain ⟨hk9sb, hk9⟩ := fresh1_kids f9 h7.tree.wf h9.tree.wf
  obtain ⟨s11, e11, h11, hs11, hsz11, sp11, hl11, hP11, _, _, _, hK11⟩ :=
    append_step_k h10 h7.tree.wf (fun y hy => ⟨by rw [ht10, f9.livex y (f9.ne hy)]; exact hy, by
      rw [ht10]; show (slot s9.tree y).parentIndex = (slot s7.tree y).parentIndex; rw [f9.old y (f9.ne hy)]⟩) hx7 f9.nlive
      (by rw [ht10]; exact hsb9) (by rw [ht10]; exact f9.pn)
  have b0 : argAt (pOpcodeTableIndex kd.op true) 0 = 15 := by rw [a8 0 (by omega)]; rfl
  have b1 : argAt (pOpcodeTableIndex kd.op true) 1 = 9 := by rw [a8 1 (by omega)]; rfl
  have bL : argAt (pOpcodeTableIndex kd.op true) (2 + kd.ws.length) = 1 := by
    rw [a8 (2 + kd.ws.length) (by omega)]
    cases kd <;> rfl
  have hab7 : s7.allBlocks = false := by
    rw [ab.rest.ab]
    have : s7a.allBlocks = s6.allBlocks := by rw [hs7a]
    rw [this, fc.same.1]; exact hab5b
  have hab10 : s10.allBlocks = false := by
    rw [← hs10]
    show s9.allBlocks = false
    rw [f9.same.1]; exact hab7
  have erun : parseArgs d (f + kd.ws.length + 6) (pOpcodeTableIndex kd.op true) x 0 s5 = .ok (PRes.shortCircuit, s11) := by
    unfold parseArgs
    rw [a5, bind_run (optP_ex _ s5), if_pos (by omega), opArg_of_info a6 0, b0, bind_run (optP_ex _ s5)]
    unfold parseArg
    rw [if_neg (by decide), if_neg (by decide), if_pos (by decide), bind_run e_arg0]
    dsimp only
    rw [if_pos rfl, Nat.zero_add]
    unfold parseArgs
    rw [a5, bind_run (optP_ex _ s5b), if_pos (by omega), opArg_of_info a6 1, b1, bind_run (optP_ex _ s5b)]
    unfold parseArg
    have e6' : parseSimpleArg d 9 s5b = .ok ((some c, PRes.ok), s6) := e6
    rw [if_pos (by decide), bind_run e6']
    dsimp only
    rw [bind_run e7, if_pos rfl]
    rw [show (1 + 1 : Nat) = 2 from rfl]
    have q : f + kd.ws.length + 4 = f + 3 + 1 + kd.ws.length := by omega
    rw [q]
    apply hk7
    unfold parseArgs
    rw [a5, bind_run (optP_ex _ s7), if_pos (by omega), opArg_of_info a6 (2 + kd.ws.length), bL, bind_run (optP_ex _ s7)]
    unfold parseArg
    rw [if_neg (by decide), if_neg (by decide), if_neg (by decide), if_neg (by decide), if_neg (by decide),
      if_pos (by decide), bind_assoc, bind_run e_nsb, bind_assoc, bind_run (allBlocks_ex s10), hab10]
    simp only [Bool.not_false, ↓reduceIte]
    rw [bind_run (show (pure (some sb, PRes.shortCircuit) : P (Option Nat × PRes)) s10 = .ok ((some sb, PRes.shortCircuit), s10) from rfl)]
    dsimp only
    rw [bind_run e11, if_neg (by decide)]
    rfl
  -- the facts about the final state
  have hxsb : x ≠ sb := f9.ne hx7
  have hcsb : c ≠ sb := f9.ne hc7
  have ht : topOf s ≠ x := fun e => by
    obtain ⟨_, htl, _⟩ := scopeCurrent_top h hne
    rw [e, o.nx] at htl; cases htl
  have hke : ∀ a ∈ es, a.e ≠ x ∧ a.e ≠ c ∧ a.e ≠ sb := by
    intro a ha
    have hn := ab.new a ha
    have hl := (ab.args a ha).le
    exact ⟨fun e => (by rw [e, hx7a] at hn; cases hn), fun e => (by rw [e, hc7a] at hn; cases hn), f9.ne hl⟩
  -- liveness along the chain
  have l57a : ∀ y, live s5.tree y = true → live s7a.tree y = true := by
    intro y hy
    have hy5b : live s5b.tree y = true := by rw [ht5b]; exact hy
    rw [hl7a, fc.livex y (fc.ne hy5b)]; exact hy5b
  have l711 : ∀ y, live s7.tree y = true → live s11.tree y = true := by
    intro y hy
    rw [hl11, ht10, f9.livex y (f9.ne hy)]; exact hy
  have l5 : ∀ y, live s5.tree y = true → live s11.tree y = true := fun y hy => l711 y (ab.oldl y (l57a y hy))
  have pay711 : ∀ y, live s7.tree y = true → Pay (slot s11.tree y) = Pay (slot s7.tree y) := by
    intro y hy
    rw [sp11.pay y, ht10, f9.old y (f9.ne hy)]
  have pay5 : ∀ y, live s5.tree y = true → Pay (slot s11.tree y) = Pay (slot s5.tree y) := by
    intro y hy
    have hy5b : live s5b.tree y = true := by rw [ht5b]; exact hy
    rw [pay711 y (ab.oldl y (l57a y hy)), ab.oldpay y (l57a y hy), sp7a.pay y, fc.old y (fc.ne hy5b), ht5b]
  have par711 : ∀ y, live s7.tree y = true → C13.P s11.tree y = C13.P s7.tree y := by
    intro y hy
    rw [hP11, if_neg (f9.ne hy), ht10]
    show (slot s9.tree y).parentIndex = _
    rw [f9.old y (f9.ne hy)]
    rfl
  have par5 : ∀ y, live s5.tree y = true → C13.P s11.tree y = C13.P s5.tree y := by
    intro y hy
    have hy5b : live s5b.tree y = true := by rw [ht5b]; exact hy
    rw [par711 y (ab.oldl y (l57a y hy)), ab.oldpar y (l57a y hy), hP7a, if_neg (fc.ne hy5b)]
    show (slot s6.tree y).parentIndex = _
    rw [fc.old y (fc.ne hy5b), ht5b]
    rfl
  have kid711 : ∀ y, live s7.tree y = true → K s11.tree y = if y = x then K s7.tree x ++ [sb] else K s7.tree y := by
    intro y hy
    have hy10 : live s10.tree y = true := by rw [ht10, f9.livex y (f9.ne hy)]; exact hy
    rw [hK11 y hy10, ht10, hk9 x hx7, hk9 y hy]
  have hk7x : K s7.tree x = c :: es.map (·.e) := by
    rw [ab.kx, hK7a x hx6, if_pos rfl, hk6 x hx5b, ht5b, o.kx]; rfl
  have kid5 : ∀ y, live s5.tree y = true → K s11.tree y = if y = x then c :: (es.map (·.e) ++ [sb]) else K s5.tree y := by
    intro y hy
    have hy5b : live s5b.tree y = true := by rw [ht5b]; exact hy
    have hy6 : live s6.tree y = true := by rw [fc.livex y (fc.ne hy5b)]; exact hy5b
    rw [kid711 y (ab.oldl y (l57a y hy))]
    by_cases hyx : y = x
    · rw [if_pos hyx, if_pos hyx, hk7x]; rfl
    · rw [if_neg hyx, if_neg hyx, ab.oldk y (l57a y hy) hyx, hK7a y hy6, if_neg hyx, hk6 y hy5b, ht5b]
  have hth5 : s5.tableHandle = s.tableHandle := o.rest.th
  have hth7a : s7a.tableHandle = s.tableHandle := by
    have : s7a.tableHandle = s6.tableHandle := by rw [hs7a]
    rw [this, fc.same.2.1, hth5b, hth5]
  have hth7 : s7.tableHandle = s.tableHandle := by rw [ab.rest.th, hth7a]
  have hsb10 : live s10.tree sb = true := by rw [ht10]; exact hsb9
  have hc10 : live s10.tree c = true := by rw [ht10, f9.livex c hcsb]; exact hc7
  have payc : Pay (slot s11.tree c) = Pay (slot s6.tree c) := by
    rw [pay711 c hc7, ab.oldpay c hc7a, sp7a.pay c]
  refine ⟨s11, c, sb, es, erun, ?_, hm1, hm2, ?_⟩
  · refine ⟨h11, o.nx, ?_, ?_, l5 x o.lx, by rw [hl11]; exact hc10, by rw [hl11]; exact hsb10,
      by rw [pay_opcode (pay5 x o.lx)]; exact o.opx, by rw [pay_info (pay5 x o.lx)]; exact o.infx,
      by rw [pay_handle (pay5 x o.lx)]; exact o.thx, ?_, ?_, ?_, ?_, ?_, ?_, ?_, ?_, ?_, ?_, ?_, ?_, ?_, ?_, ?_, ab.nd, hke, ?_, ?_, ?_, ?_, ?_, ?_,
      ⟨hxc, hxsb, hcsb⟩⟩
    · -- `c` not live in `s`
      cases hq : live s.tree c with
      | false => rfl
      | true => have := o.old.lv c hq; rw [← ht5b, c1] at this; cases this
    · cases hq : live s.tree sb with
      | false => rfl
      | true =>
        have h5 := o.old.lv sb hq
        have : live s7.tree sb = true := ab.oldl sb (l57a sb h5)
        rw [f9.nlive] at this; cases this
    · rw [pay_opcode payc]; exact c5
    · rw [pay_info payc]; exact ci
    · rw [pay_handle payc, cth, hth5b, hth5]
    · rw [pay_value payc]; exact c4
    · rw [pay_opcode (sp11.pay sb), ht10, hsl9]; exact hop8
    · rw [pay_info (sp11.pay sb), ht10, hsl9]; exact hinf8
    · rw [pay_handle (sp11.pay sb), ht10, hsl9]; show (slot s8.tree sb).tableHandle = _; rw [hth8, hth7]
    · rw [kid5 x o.lx, if_pos rfl]
    · rw [kid711 c hc7, if_neg (fun e => hxc e.symm), ab.oldk c hc7a (fun e => hxc e.symm), hK7a c c2, if_neg (fun e => hxc e.symm)]
      exact hk6c
    · rw [hK11 sb hsb10, if_neg (fun e => hxsb e.symm), ht10]; exact hk9sb
    · rw [par5 x o.lx]; exact o.px
    · rw [par711 c hc7, ab.oldpar c hc7a, hP7a, if_pos rfl]
    · rw [hP11, if_pos rfl]
    · intro a ha
      have ca := ab.args a ha
      rw [hth7a] at ca
      obtain ⟨k1, k2, k3⟩ := hke a ha
      refine ca.frame ⟨?_, pay711 a.e ca.le, par711 a.e ca.le, ?_⟩
      · rw [l711 a.e ca.le, ca.le]
      · rw [kid711 a.e ca.le, if_neg k1]
    · intro a ha
      have := ab.new a ha
      cases hq : live s.tree a.e with
      | false => rfl
      | true => rw [l57a _ (o.old.lv _ hq)] at this; cases this
    · have e1 : s11.scopeStack = s10.scopeStack := by rw [hs11]
      have e2 : s10.scopeStack = s9.scopeStack.push sb := by rw [← hs10]
      have e3 : s7a.scopeStack = s6.scopeStack := by rw [hs7a]
      rw [e1, e2, f9.scope, ab.rest.sc, e3, fc.scope, hsc5b, o.rest.sc]
    · have e1 : s11.pkgEndStack = s10.pkgEndStack := by rw [hs11]
      have e2 : s10.pkgEndStack = s9.pkgEndStack := by rw [← hs10]
      have e3 : s7a.pkgEndStack = s6.pkgEndStack := by rw [hs7a]
      rw [e1, e2, f9.pkg, ab.rest.pk, e3, fc.pkg, hpk5b, o.rest.pk]
    · have e1 : s11.allBlocks = s10.allBlocks := by rw [hs11]
      rw [e1, hab10, hsk]
    · have e1 : s11.tableHandle = s10.tableHandle := by rw [hs11]
      have e2 : s10.tableHandle = s9.tableHandle := by rw [← hs10]
      rw [e1, e2, f9.same.2.1, hth7]
    · refine ⟨fun y hy => l5 y (o.old.lv y hy), fun y hy => by rw [par5 y (o.old.lv y hy)]; exact o.old.par y hy,
        fun y hy => by rw [pay5 y (o.old.lv y hy)]; exact o.old.pay y hy, ?_⟩
      intro y hy
      have hyx : y ≠ x := fun e => by rw [e, o.nx] at hy; cases hy
      rw [kid5 y (o.old.lv y hy), if_neg hyx]; exact o.old.kids y hy
    · have := o.size
      have := fc.size.2
      have := f9.size.2
      have := ab.size
      rw [hsz11, ht10]
      rw [hsz7a] at *
      rw [ht5b] at *
      omega
  · have e1 : s11.r = s10.r := by rw [hs11]
    have e2 : s10.r = s9.r := by rw [← hs10]
    rw [e1, e2, hr9, hr8, hr7]

/-! ## leaf named objects: rows and the first pass -/

set_option maxRecDepth 20000 in
theorem row_257 : rowSummary 257 = some (true, false, false, 1, [9]) := by decide +kernel
set_option maxRecDepth 20000 in
theorem row_256 : rowSummary 256 = some (true, false, false, 2, [9, 5]) := by decide +kernel

theorem row_leaf (kd : LKind) : rowSummary kd.op = some (true, false, false, kd.ws.length + 1, 9 :: kd.ws.map argTy) := by
  cases kd
  · exact row_257
  · exact row_256

set_option maxRecDepth 20000 in
theorem leaf_row (kd : LKind) : pOpcodeTableIndex (0xff + kd.b2.toNat) false ≠ badOpcode ∧ kd.op ≠ pOpIntFreedObject ∧
    kd.op ≠ opNoop ∧ 0xff + kd.b2.toNat = kd.op ∧ (∀ n ∈ kd.ws, n = 1 ∨ n = 2 ∨ n = 4) := by
  cases kd <;> decide +kernel

theorem LKind.op_ne (kd : LKind) : kd.op ≠ opBytePrefix ∧ kd.op ≠ opWordPrefix ∧ kd.op ≠ opDwordPrefix ∧ kd.op ≠ opQwordPrefix ∧
    kd.op ≠ opStringPrefix ∧ kd.op ≠ opIntScopeBlock ∧ kd.op ≠ opScope ∧ kd.op ≠ opIntNamePathOrMethodCall ∧ kd.op ≠ 0x1fd ∧
    kd.op ≠ 0x08 := by
  cases kd <;> decide

/-- the objects a leaf named declaration creates in the first pass: the object `x`, its name path `c`, its constant arguments -/
structure LeafOpen (d : Bytes) (s s' : PState) (kd : LKind) (x c off : Nat) (es : List CArg) : Prop where
  fp : FP d s'
  nx : live s.tree x = false
  nc : live s.tree c = false
  lx : live s'.tree x = true
  lc : live s'.tree c = true
  opx : (slot s'.tree x).opcode = kd.op
  infx : (slot s'.tree x).infoIndex = pOpcodeTableIndex kd.op true
  thx : (slot s'.tree x).tableHandle = s.tableHandle
  opc : (slot s'.tree c).opcode = opIntNamePath
  infc : (slot s'.tree c).infoIndex = pOpcodeTableIndex opIntNamePath true
  thc : (slot s'.tree c).tableHandle = s.tableHandle
  valc : (slot s'.tree c).value = .bytes off 4
  kx : K s'.tree x = c :: es.map (·.e)
  kc : K s'.tree c = []
  px : C13.P s'.tree x = topOf s
  pc : C13.P s'.tree c = x
  args : ∀ a ∈ es, ConstT s'.tree s.tableHandle x a
  newes : ∀ a ∈ es, live s.tree a.e = false
  nd : (x :: c :: es.map (·.e)).Nodup
  rest : SameRest s s'
  old : OldKept s s' (topOf s) x
  size : s'.tree.pool.size ≤ s.tree.pool.size + 2 + es.length

set_option maxRecDepth 10000 in
theorem leaf_open {d : Bytes} (hd : d.size + 1024 ≤ 4294967296) (f : Nat) (kd : LKind) {s : PState} (h : FP d s)
    (hne : s.scopeStack.size ≠ 0) (hsz : s.tree.pool.size + 3 < INV)
    (seg : List UInt8) (vals : List Nat) (base pe : Nat) (hr : s.r = { offset := base, pkgEnd := pe }) (hpe : pe ≤ d.size)
    (hseg : NameOK [seg]) (hs4 : seg.length = 4) (hvl : kd.ws.length = vals.length)
    (hb : BytesAt d base ([0x5b, kd.b2] ++ seg ++ encVals kd.ws vals)) (hfit : base + 2 + 4 + (encVals kd.ws vals).length ≤ pe) :
    ∃ s' x c es, parseNextObject d (f + kd.ws.length + 5) s = .ok (PRes.ok, s') ∧ LeafOpen d s s' kd x c (base + 2) es ∧
      es.map (·.n) = kd.ws ∧ es.map (·.v) = vals ∧
      s'.r = { offset := base + 2 + 4 + (encVals kd.ws vals).length, pkgEnd := pe } := by
  obtain ⟨r1, r2, r3, r4, r5⟩ := leaf_row kd
  obtain ⟨fl, a1, a2, a3, a4, a5, a6, a7, a8⟩ := rowSummary_spec (row_leaf kd)
  obtain ⟨n1, n2, n3, n4, n5, _⟩ := kd.op_ne
  have hwl : kd.ws.length ≤ 1 := by cases kd <;> simp [LKind.ws]
  have hb0 : BytesAt d base [0x5b, kd.b2] := BytesAt.left (BytesAt.left hb)
  have hbs : BytesAt d (base + 2) seg := by
    have := BytesAt.right (BytesAt.left hb); simpa using this
  have hbv : BytesAt d (base + 2 + 4) (encVals kd.ws vals) := by
    have := BytesAt.right hb
    rw [List.length_append, hs4] at this
    simpa [Nat.add_assoc] using this
  have eopc : nextOpcode d { offset := base, pkgEnd := pe } = .ok ((kd.op, PRes.ok), { offset := base + 2, pkgEnd := pe }) := by
    have h0 := hb0 0 (by simp)
    have h1 := hb0 1 (by simp)
    simp at h0 h1
    rw [← r4]
    exact nextOpcode_ext d base pe kd.b2 h0 h1 (by omega) r1
  obtain ⟨x, s5, o, hk⟩ := nextObject_openG (f + kd.ws.length + 4) h hne (by omega) kd.op 2 base pe hr hpe (by omega) eopc a6 r2 r3
  -- argument 0: the name
  obtain ⟨c, s6, e6, h6, c1, c2, c3, c4, c5, c6, fc, ci, cth⟩ := name_object_roundtrip hd o.fp (by have := o.size; omega)
    false 0 [seg] (base + 2) pe o.r hpe hseg
    (by have : encName false 0 [seg] = seg := by simp [encName]
        rw [this]; exact hbs) (by simp [encName, hs4]; omega)
  have hlen : (encName false 0 [seg]).length = 4 := by simp [encName, hs4]
  rw [hlen] at c4 c6
  simp only [List.cons_ne_nil, ↓reduceIte, Nat.sub_zero] at c4
  obtain ⟨hk6c, hk6⟩ := fresh1_kids fc o.fp.tree.wf h6.tree.wf
  obtain ⟨s7, e7, h7, hs7, hsz7, sp7, hl7, hP7, _, _, _, hK7⟩ :=
    append_step_k h6 o.fp.tree.wf (fun y hy => ⟨by rw [fc.livex y (fc.ne hy)]; exact hy, by
      show (slot s6.tree y).parentIndex = (slot s5.tree y).parentIndex; rw [fc.old y (fc.ne hy)]⟩) o.lx c1 c2 c3
  have hx6 : live s6.tree x = true := by rw [fc.livex x (fc.ne o.lx)]; exact o.lx
  have hx7 : live s7.tree x = true := by rw [hl7]; exact hx6
  have hr7 : s7.r = { offset := base + 2 + 4, pkgEnd := pe } := by
    have : s7.r = s6.r := by rw [hs7]
    rw [this, c6]
  -- the constant arguments
  have harg : ∀ i, i < kd.ws.length → argAt (pOpcodeTableIndex kd.op true) (1 + i) = argTy (kd.ws.getD i 0) := by
    intro i hi
    rw [a8 (1 + i) (by omega)]
    have hi0 : i = 0 := by omega
    subst hi0
    cases kd
    · simp [LKind.ws] at hi
    · rfl
  obtain ⟨s8, es, hm1, hm2, ab, hr8, hk8⟩ := const_args (info := pOpcodeTableIndex kd.op true) (x := x) a6 kd.ws vals (f + 1) 1 s7 (base + 2 + 4) pe hvl r5
    h7 hx7 hr7 hpe hbv hfit (by rw [hsz7]; have := fc.size.2; have := o.size; omega) (by rw [a7]; omega) harg
  have hxc : x ≠ c := fc.ne o.lx
  have hc7 : live s7.tree c = true := by rw [hl7]; exact c2
  have hth5 : s5.tableHandle = s.tableHandle := o.rest.th
  have hth7 : s7.tableHandle = s.tableHandle := by
    have : s7.tableHandle = s6.tableHandle := by rw [hs7]
    rw [this, fc.same.2.1, hth5]
  have ht : topOf s ≠ x := fun e => by
    obtain ⟨_, htl, _⟩ := scopeCurrent_top h hne
    rw [e, o.nx] at htl; cases htl
  -- frames from `s5` to `s8`
  have l5 : ∀ y, live s5.tree y = true → live s8.tree y = true := fun y hy =>
    ab.oldl y (by rw [hl7, fc.livex y (fc.ne hy)]; exact hy)
  have l57 : ∀ y, live s5.tree y = true → live s7.tree y = true := fun y hy => by rw [hl7, fc.livex y (fc.ne hy)]; exact hy
  have pay5 : ∀ y, live s5.tree y = true → Pay (slot s8.tree y) = Pay (slot s5.tree y) := fun y hy => by
    rw [ab.oldpay y (l57 y hy), sp7.pay y, fc.old y (fc.ne hy)]
  have par5 : ∀ y, live s5.tree y = true → C13.P s8.tree y = C13.P s5.tree y := fun y hy => by
    rw [ab.oldpar y (l57 y hy), hP7, if_neg (fc.ne hy)]
    show (slot s6.tree y).parentIndex = _
    rw [fc.old y (fc.ne hy)]; rfl
  have kid5 : ∀ y, live s5.tree y = true → y ≠ x → K s8.tree y = K s5.tree y := fun y hy hyx => by
    have hy6 : live s6.tree y = true := by rw [fc.livex y (fc.ne hy)]; exact hy
    rw [ab.oldk y (l57 y hy) hyx, hK7 y hy6, if_neg hyx, hk6 y hy]
  have erun : parseObjectArgs d (f + kd.ws.length + 4) x s5 = .ok (PRes.ok, s8) := by
    rw [parseObjectArgs, bind_run (getObj_live o.lx), o.opx]
    rw [if_neg n1, if_neg n2, if_neg n3, if_neg n4, if_neg n5, o.infx, a1, bind_run (optP_ex fl s5)]
    have eargs : parseArgs d (f + kd.ws.length + 3) (pOpcodeTableIndex kd.op true) x 0 s5 = .ok (PRes.ok, s8) := by
      unfold parseArgs
      have b0 : argAt (pOpcodeTableIndex kd.op true) 0 = 9 := a8 0 (by omega)
      rw [a5, bind_run (optP_ex _ s5), if_pos (by omega), opArg_of_info a6 0, b0, bind_run (optP_ex _ s5)]
      unfold parseArg
      have e6' : parseSimpleArg d 9 s5 = .ok ((some c, PRes.ok), s6) := e6
      rw [if_pos (by decide), bind_run e6']
      dsimp only
      rw [bind_run e7, if_pos rfl]
      have q : f + kd.ws.length + 2 = f + 1 + 1 + kd.ws.length := by omega
      rw [q, Nat.zero_add]
      apply hk8
      unfold parseArgs
      rw [a5, bind_run (optP_ex _ s8), if_neg (by omega)]
      rfl
    rw [bind_run eargs]
    rfl
  have hke : ∀ a ∈ es, a.e ≠ x ∧ a.e ≠ c := by
    intro a ha
    have := ab.new a ha
    exact ⟨fun e => (by rw [e, hx7] at this; cases this), fun e => (by rw [e, hc7] at this; cases this)⟩
  refine ⟨s8, x, c, es, hk _ _ erun, ?_, hm1, hm2, hr8⟩
  refine ⟨ab.fp, o.nx, ?_, l5 x o.lx, ab.oldl c hc7, by rw [pay_opcode (pay5 x o.lx)]; exact o.opx,
    by rw [pay_info (pay5 x o.lx)]; exact o.infx, by rw [pay_handle (pay5 x o.lx)]; exact o.thx, ?_, ?_, ?_, ?_, ?_, ?_, ?_, ?_, ?_, ?_, ?_, ?_, ?_, ?_⟩
  · cases hq : live s.tree c with
    | false => rfl
    | true => have := o.old.lv c hq; rw [c1] at this; cases this
  · rw [pay_opcode (ab.oldpay c hc7), pay_opcode (sp7.pay c)]; exact c5
  · rw [pay_info (ab.oldpay c hc7), pay_info (sp7.pay c)]; exact ci
  · rw [pay_handle (ab.oldpay c hc7), pay_handle (sp7.pay c), cth, hth5]
  · rw [pay_value (ab.oldpay c hc7), pay_value (sp7.pay c)]; exact c4
  · rw [ab.kx, hK7 x hx6, if_pos rfl, hk6 x o.lx, o.kx]; rfl
  · rw [ab.oldk c hc7 (fun e => hxc e.symm), hK7 c c2, if_neg (fun e => hxc e.symm)]; exact hk6c
  · rw [par5 x o.lx]; exact o.px
  · rw [ab.oldpar c hc7, hP7, if_pos rfl]
  · intro a ha
    have := ab.args a ha
    rw [hth7] at this
    exact this
  · intro a ha
    have := ab.new a ha
    cases hq : live s.tree a.e with
    | false => rfl
    | true => rw [l57 _ (o.old.lv _ hq)] at this; cases this
  · simp only [List.nodup_cons, List.mem_cons, List.mem_map, not_or]
    refine ⟨⟨hxc, ?_⟩, ?_, ab.nd⟩
    · rintro ⟨a, ha, e⟩; exact (hke a ha).1 e
    · rintro ⟨a, ha, e⟩; exact (hke a ha).2 e
  · exact (o.rest.trans ((fresh1_rest fc).trans (SameRest.ofTree hs7))).trans ab.rest
  · refine ⟨fun y hy => l5 y (o.old.lv y hy), fun y hy => by rw [par5 y (o.old.lv y hy)]; exact o.old.par y hy,
      fun y hy => by rw [pay5 y (o.old.lv y hy)]; exact o.old.pay y hy, ?_⟩
    intro y hy
    have hyx : y ≠ x := fun e => by rw [e, o.nx] at hy; cases hy
    rw [kid5 y (o.old.lv y hy) hyx]; exact o.old.kids y hy
  · have := o.size
    have := fc.size.2
    have := ab.size
    rw [hsz7] at *
    omega

/-! ## the layout of a program in the pool -/

/-- a program with the pool positions of its objects: `Name` object, name path, integer; device, name path, scope block -/
inductive Node where
  | name (x c k off : Nat) (seg : List UInt8) (dv : DVal)
  | dev (kd : BKind) (x c sb off pw : Nat) (seg : List UInt8) (es : List CArg) (kids : List Node)
  | leaf (kd : LKind) (x c off : Nat) (seg : List UInt8) (es : List CArg)

mutual
def Node.prog : Node → PObj
  | .name _ _ _ _ seg dv => .name seg dv
  | .dev kd _ _ _ _ pw seg es kids => .dev kd pw seg (es.map (·.v)) (progs kids)
  | .leaf kd _ _ _ seg es => .leaf kd seg (es.map (·.v))
def progs : List Node → List PObj
  | [] => []
  | n :: ns => n.prog :: progs ns
end

/-- what the nodes contribute to the child list of their scope block: before `connectNamedObjArgs` a `Name` declaration
contributes its `Name` object and its integer, afterwards only the `Name` object -/
def tops (done : Bool) : List Node → List Nat
  | [] => []
  | .name x _ k _ _ _ :: ns => (if done then [x] else [x, k]) ++ tops done ns
  | .dev _ x _ _ _ _ _ _ _ :: ns => x :: tops done ns
  | .leaf _ x _ _ _ _ :: ns => x :: tops done ns

mutual
/-- all pool positions of a node -/
def Node.objs : Node → List Nat
  | .name x c k _ _ _ => [x, c, k]
  | .dev _ x c sb _ _ _ es kids => [x, c, sb] ++ (es.map (·.e) ++ objsL kids)
  | .leaf _ x c _ _ es => x :: c :: es.map (·.e)
def objsL : List Node → List Nat
  | [] => []
  | n :: ns => n.objs ++ objsL ns
end

/-- the three objects of `Name(NAME, integer)` under the scope block `p` -/
structure NameT (d : Bytes) (t : ObjectTree) (h p x c k off : Nat) (seg : List UInt8) (dv : DVal) (done : Bool) : Prop where
  lx : live t x = true
  lc : live t c = true
  lk : live t k = true
  opx : (slot t x).opcode = 8
  infx : (slot t x).infoIndex = pOpcodeTableIndex 8 true
  thx : (slot t x).tableHandle = h
  opc : (slot t c).opcode = opIntNamePath
  infc : (slot t c).infoIndex = pOpcodeTableIndex opIntNamePath true
  thc : (slot t c).tableHandle = h
  valc : (slot t c).value = .bytes off 4
  opk : (slot t k).opcode = dv.op
  infk : (slot t k).infoIndex = pOpcodeTableIndex dv.op true
  thk : (slot t k).tableHandle = h
  dat : DataAt d t k dv
  kx : K t x = if done then [c, k] else [c]
  kc : K t c = []
  kk : K t k = []
  px : C13.P t x = p
  pc : C13.P t c = x
  pk : C13.P t k = if done then x else p
  nm : done = true → (slot t x).name = Name.ofList seg
  bytes : BytesAt d off seg
  seg4 : seg.length = 4

/-- the three objects of `Device(NAME){…}` under the scope block `p` (without the contents of its scope block) -/
structure DevT (d : Bytes) (t : ObjectTree) (h p : Nat) (kd : BKind) (x c sb off : Nat) (seg : List UInt8) (es : List CArg)
    (done : Bool) : Prop where
  lx : live t x = true
  lc : live t c = true
  lsb : live t sb = true
  opx : (slot t x).opcode = kd.op
  infx : (slot t x).infoIndex = pOpcodeTableIndex kd.op true
  thx : (slot t x).tableHandle = h
  opc : (slot t c).opcode = opIntNamePath
  infc : (slot t c).infoIndex = pOpcodeTableIndex opIntNamePath true
  thc : (slot t c).tableHandle = h
  valc : (slot t c).value = .bytes off 4
  opsb : (slot t sb).opcode = opIntScopeBlock
  infsb : (slot t sb).infoIndex = pOpcodeTableIndex opIntScopeBlock true
  thsb : (slot t sb).tableHandle = h
  kx : K t x = c :: (es.map (·.e) ++ [sb])
  kc : K t c = []
  px : C13.P t x = p
  pc : C13.P t c = x
  psb : C13.P t sb = x
  args : ∀ a ∈ es, ConstT t h x a
  wsok : es.map (·.n) = kd.ws
  nm : done = true → (slot t x).name = Name.ofList seg
  bytes : BytesAt d off seg
  seg4 : seg.length = 4

/-- the objects of `Event(NAME)` / `Mutex(NAME, sync)` under the scope block `p` -/
structure LeafT (d : Bytes) (t : ObjectTree) (h p : Nat) (kd : LKind) (x c off : Nat) (seg : List UInt8) (es : List CArg)
    (done : Bool) : Prop where
  lx : live t x = true
  lc : live t c = true
  opx : (slot t x).opcode = kd.op
  infx : (slot t x).infoIndex = pOpcodeTableIndex kd.op true
  thx : (slot t x).tableHandle = h
  opc : (slot t c).opcode = opIntNamePath
  infc : (slot t c).infoIndex = pOpcodeTableIndex opIntNamePath true
  thc : (slot t c).tableHandle = h
  valc : (slot t c).value = .bytes off 4
  kx : K t x = c :: es.map (·.e)
  kc : K t c = []
  px : C13.P t x = p
  pc : C13.P t c = x
  args : ∀ a ∈ es, ConstT t h x a
  nm : done = true → (slot t x).name = Name.ofList seg
  bytes : BytesAt d off seg
  seg4 : seg.length = 4
  wsok : es.map (·.n) = kd.ws

mutual
/-- the objects of a node are in the pool as declared; `dk`: the contents of scope blocks are connected, `dn`: the node
itself is -/
def NodeOK (d : Bytes) (t : ObjectTree) (h : Nat) (dk dn : Bool) : Nat → Node → Prop
  | p, .name x c k off seg dv => NameT d t h p x c k off seg dv dn
  | p, .dev kd x c sb off _ seg es kids => DevT d t h p kd x c sb off seg es dn ∧ K t sb = tops dk kids ∧ NodesOK d t h dk sb kids
  | p, .leaf kd x c off seg es => LeafT d t h p kd x c off seg es dn
def NodesOK (d : Bytes) (t : ObjectTree) (h : Nat) (dk : Bool) : Nat → List Node → Prop
  | _, [] => True
  | p, n :: ns => NodeOK d t h dk dk p n ∧ NodesOK d t h dk p ns
end

/-! ## frames -/

theorem NameT.frame {d : Bytes} {t t' : ObjectTree} {h p x c k off : Nat} {seg : List UInt8} {dv : DVal} {b : Bool} (io : NameT d t h p x c k off seg dv b)
    (hx : SameAt t t' x) (hc : SameAt t t' c) (hk : SameAt t t' k) : NameT d t' h p x c k off seg dv b := by
  obtain ⟨x1, x2, x3, x4⟩ := hx
  obtain ⟨c1, c2, c3, c4⟩ := hc
  obtain ⟨k1, k2, k3, k4⟩ := hk
  exact ⟨by rw [x1]; exact io.lx, by rw [c1]; exact io.lc, by rw [k1]; exact io.lk,
    by rw [pay_opcode x2]; exact io.opx, by rw [pay_info x2]; exact io.infx, by rw [pay_handle x2]; exact io.thx,
    by rw [pay_opcode c2]; exact io.opc, by rw [pay_info c2]; exact io.infc, by rw [pay_handle c2]; exact io.thc,
    by rw [pay_value c2]; exact io.valc,
    by rw [pay_opcode k2]; exact io.opk, by rw [pay_info k2]; exact io.infk, by rw [pay_handle k2]; exact io.thk,
    io.dat.of_pay k2, by rw [x4]; exact io.kx, by rw [c4]; exact io.kc, by rw [k4]; exact io.kk,
    by rw [x3]; exact io.px, by rw [c3]; exact io.pc, by rw [k3]; exact io.pk,
    fun hd => by rw [pay_name x2]; exact io.nm hd, io.bytes, io.seg4⟩

theorem DevT.frame {d : Bytes} {t t' : ObjectTree} {h p : Nat} {kd : BKind} {x c sb off : Nat} {seg : List UInt8} {es : List CArg}
    {b : Bool} (io : DevT d t h p kd x c sb off seg es b) (hx : SameAt t t' x) (hc : SameAt t t' c)
    (hsb : live t' sb = live t sb ∧ Pay (slot t' sb) = Pay (slot t sb) ∧ C13.P t' sb = C13.P t sb)
    (he : ∀ a ∈ es, SameAt t t' a.e) :
    DevT d t' h p kd x c sb off seg es b := by
  obtain ⟨x1, x2, x3, x4⟩ := hx
  obtain ⟨c1, c2, c3, c4⟩ := hc
  obtain ⟨k1, k2, k3⟩ := hsb
  exact ⟨by rw [x1]; exact io.lx, by rw [c1]; exact io.lc, by rw [k1]; exact io.lsb,
    by rw [pay_opcode x2]; exact io.opx, by rw [pay_info x2]; exact io.infx, by rw [pay_handle x2]; exact io.thx,
    by rw [pay_opcode c2]; exact io.opc, by rw [pay_info c2]; exact io.infc, by rw [pay_handle c2]; exact io.thc,
    by rw [pay_value c2]; exact io.valc,
    by rw [pay_opcode k2]; exact io.opsb, by rw [pay_info k2]; exact io.infsb, by rw [pay_handle k2]; exact io.thsb,
    by rw [x4]; exact io.kx, by rw [c4]; exact io.kc,
    by rw [x3]; exact io.px, by rw [c3]; exact io.pc, by rw [k3]; exact io.psb,
    fun a ha => (io.args a ha).frame (he a ha), io.wsok,
    fun hd => by rw [pay_name x2]; exact io.nm hd, io.bytes, io.seg4⟩

theorem LeafT.frame {d : Bytes} {t t' : ObjectTree} {h p : Nat} {kd : LKind} {x c off : Nat} {seg : List UInt8} {es : List CArg}
    {b : Bool} (io : LeafT d t h p kd x c off seg es b) (hx : SameAt t t' x) (hc : SameAt t t' c)
    (he : ∀ a ∈ es, SameAt t t' a.e) : LeafT d t' h p kd x c off seg es b := by
  obtain ⟨x1, x2, x3, x4⟩ := hx
  obtain ⟨c1, c2, c3, c4⟩ := hc
  exact ⟨by rw [x1]; exact io.lx, by rw [c1]; exact io.lc,
    by rw [pay_opcode x2]; exact io.opx, by rw [pay_info x2]; exact io.infx, by rw [pay_handle x2]; exact io.thx,
    by rw [pay_opcode c2]; exact io.opc, by rw [pay_info c2]; exact io.infc, by rw [pay_handle c2]; exact io.thc,
    by rw [pay_value c2]; exact io.valc, by rw [x4]; exact io.kx, by rw [c4]; exact io.kc,
    by rw [x3]; exact io.px, by rw [c3]; exact io.pc, fun a ha => (io.args a ha).frame (he a ha),
    fun hd => by rw [pay_name x2]; exact io.nm hd, io.bytes, io.seg4, io.wsok⟩

mutual
theorem NodeOK.frame {d : Bytes} {t t' : ObjectTree} {h : Nat} {dk dn : Bool} :
    ∀ (p : Nat) (n : Node), NodeOK d t h dk dn p n → (∀ y ∈ n.objs, SameAt t t' y) → NodeOK d t' h dk dn p n
  | p, .name x c k off seg dv, ok, hf => by
    unfold NodeOK at ok ⊢
    exact ok.frame (hf x (by simp [Node.objs])) (hf c (by simp [Node.objs])) (hf k (by simp [Node.objs]))
  | p, .dev kd x c sb off pw seg es kids, ok, hf => by
    unfold NodeOK at ok ⊢
    obtain ⟨o1, o2, o3⟩ := ok
    have hsb := hf sb (by simp [Node.objs])
    refine ⟨o1.frame (hf x (by simp [Node.objs])) (hf c (by simp [Node.objs])) ⟨hsb.1, hsb.2.1, hsb.2.2.1⟩
        (fun a ha => hf a.e (by
          simp only [Node.objs, List.mem_append, List.mem_cons, List.mem_map]
          exact Or.inr (Or.inl ⟨a, ha, rfl⟩))), by rw [hsb.2.2.2]; exact o2,
      NodesOK.frame sb kids o3 (fun y hy => hf y (by simp [Node.objs, hy]))⟩
  | p, .leaf kd x c off seg es, ok, hf => by
    unfold NodeOK at ok ⊢
    exact ok.frame (hf x (by simp [Node.objs])) (hf c (by simp [Node.objs]))
      (fun a ha => hf a.e (by simp only [Node.objs, List.mem_cons, List.mem_map]; exact Or.inr (Or.inr ⟨a, ha, rfl⟩)))
theorem NodesOK.frame {d : Bytes} {t t' : ObjectTree} {h : Nat} {dk : Bool} :
    ∀ (p : Nat) (ns : List Node), NodesOK d t h dk p ns → (∀ y ∈ objsL ns, SameAt t t' y) → NodesOK d t' h dk p ns
  | _, [], _, _ => by unfold NodesOK; trivial
  | p, n :: ns, ok, hf => by
    unfold NodesOK at ok ⊢
    exact ⟨NodeOK.frame p n ok.1 (fun y hy => hf y (by simp [objsL, hy])), NodesOK.frame p ns ok.2 (fun y hy => hf y (by simp [objsL, hy]))⟩
end

/-- the objects of well-placed nodes are live -/
theorem NodesOK.live {d : Bytes} {t : ObjectTree} {h : Nat} {dk : Bool} :
    ∀ (p : Nat) (ns : List Node), NodesOK d t h dk p ns → ∀ y ∈ objsL ns, live t y = true
  | _, [], _, y, hy => by simp [objsL] at hy
  | p, .name x c k off seg dv :: ns, ok, y, hy => by
    unfold NodesOK NodeOK at ok
    simp only [objsL, Node.objs, List.mem_append, List.mem_cons, List.mem_nil_iff, or_false] at hy
    rcases hy with (e | e | e) | hy
    · rw [e]; exact ok.1.lx
    · rw [e]; exact ok.1.lc
    · rw [e]; exact ok.1.lk
    · exact NodesOK.live p ns ok.2 y hy
  | p, .dev kd x c sb off pw seg es kids :: ns, ok, y, hy => by
    unfold NodesOK NodeOK at ok
    simp only [objsL, Node.objs, List.mem_append, List.mem_cons, List.mem_nil_iff, or_false, List.mem_map] at hy
    rcases hy with ((e | e | e) | ⟨a, ha, e⟩ | hy) | hy
    · rw [e]; exact ok.1.1.lx
    · rw [e]; exact ok.1.1.lc
    · rw [e]; exact ok.1.1.lsb
    · rw [← e]; exact (ok.1.1.args a ha).le
    · exact NodesOK.live sb kids ok.1.2.2 y hy
    · exact NodesOK.live p ns ok.2 y hy
  | p, .leaf kd x c off seg es :: ns, ok, y, hy => by
    unfold NodesOK NodeOK at ok
    simp only [objsL, Node.objs, List.mem_append, List.mem_cons, List.mem_map] at hy
    rcases hy with (e | e | ⟨a, ha, e⟩) | hy
    · rw [e]; exact ok.1.lx
    · rw [e]; exact ok.1.lc
    · rw [← e]; exact (ok.1.args a ha).le
    · exact NodesOK.live p ns ok.2 y hy

/-! ## the object loop with open packages -/

/-- what `parseObjectList` does when the inner loop returns -/
def tailPOL (d : Bytes) (fuel N : Nat) (b : Bool) : P PRes :=
  if !b then pure .failed
  else do
    let sz ← stackSizes
    if sz.1 = sz.2 then scopeExit else pure ()
    popPkgEnd d
    parseObjectList d fuel N

theorem pol_unfold (d : Bytes) (fuel N : Nat) (s : PState) (hne : s.scopeStack.size ≠ 0) :
    parseObjectList d fuel (N + 1) s = (objectListInner d fuel fuel >>= tailPOL d fuel N) s := by
  rw [parseObjectList]
  have e0 : stackSizes s = .ok ((s.pkgEndStack.size, s.scopeStack.size), s) := rfl
  rw [bind_run e0, if_neg hne]
  rfl

/-- the reader stands at `base` in a package that ends at `pe`, whose scope block is `top` -/
structure OCtx (d : Bytes) (s : PState) (top base pe : Nat) : Prop where
  fp : FP d s
  sk : s.allBlocks = false
  r : s.r = { offset := base, pkgEnd := pe }
  hpe : pe ≤ d.size
  htop : s.scopeStack.back? = some top
  hpk : s.pkgEndStack.back? = some pe
  sz : s.pkgEndStack.size = s.scopeStack.size
  pkok : ∀ e ∈ s.pkgEndStack.toList, e ≤ d.size

theorem back_ne {α : Type} {a : Array α} {x : α} (h : a.back? = some x) : a.size ≠ 0 := by
  intro h0
  have : a = #[] := Array.eq_empty_of_size_eq_zero h0
  rw [this] at h
  cases h

theorem OCtx.ne {d : Bytes} {s : PState} {top base pe : Nat} (c : OCtx d s top base pe) : s.scopeStack.size ≠ 0 := back_ne c.htop

theorem OCtx.topOf {d : Bytes} {s : PState} {top base pe : Nat} (c : OCtx d s top base pe) : topOf s = top := by
  unfold S.topOf; rw [c.htop]; rfl

theorem OCtx.topl {d : Bytes} {s : PState} {top base pe : Nat} (c : OCtx d s top base pe) : live s.tree top = true := by
  obtain ⟨_, hl, _⟩ := scopeCurrent_top c.fp c.ne
  rw [c.topOf] at hl; exact hl

/-- the state after the innermost package is closed -/
def closed (s : PState) : PState :=
  { s with scopeStack := s.scopeStack.pop, pkgEndStack := s.pkgEndStack.pop,
           r := { offset := s.r.offset, pkgEnd := (s.pkgEndStack.pop.back?).getD s.r.pkgEnd } }

theorem close_run {d : Bytes} {s : PState} {top base pe : Nat} (c : OCtx d s top base pe) (fuel N : Nat) :
    tailPOL d fuel N true s = parseObjectList d fuel N (closed s) := by
  unfold tailPOL
  rw [if_neg (by decide)]
  have e0 : stackSizes s = .ok ((s.pkgEndStack.size, s.scopeStack.size), s) := rfl
  rw [bind_run e0]
  dsimp only
  rw [if_pos c.sz]
  have e1 : scopeExit s = .ok ((), { s with scopeStack := s.scopeStack.pop }) := by
    unfold scopeExit; rw [if_neg c.ne]; rfl
  rw [bind_run e1]
  have hpk : s.pkgEndStack.size ≠ 0 := back_ne c.hpk
  have e2 : popPkgEnd d { s with scopeStack := s.scopeStack.pop } = .ok ((), closed s) := by
    unfold popPkgEnd closed
    cases hb : s.pkgEndStack.pop.back? with
    | none =>
      simp only [modify, modifyGet, MonadStateOf.modifyGet, StateT.modifyGet, pkgEndTop, bind, StateT.bind, pure,
        StateT.pure, Except.bind, Except.pure, hpk, ne_eq, not_false_eq_true, if_true, hb, Option.getD_none]
    | some e =>
      have he : e ≤ d.size := c.pkok e (by
        have := Array.mem_of_back? hb
        have := Array.mem_toList_iff.mpr this
        rw [Array.toList_pop] at this
        exact List.dropLast_subset _ this)
      have h2 : ¬ e > d.size := by omega
      simp only [modify, modifyGet, MonadStateOf.modifyGet, StateT.modifyGet, pkgEndTop, bind, StateT.bind, pure,
        StateT.pure, Except.bind, Except.pure, hpk, ne_eq, not_false_eq_true, if_true, hb, lex, setPkgEnd, h2, if_false,
        Option.getD_some]
  rw [bind_run e2]

/-- what the object loop has built when the package that was open in `s` is closed: the nodes `ns` under `top` -/
structure Built (d : Bytes) (s s' : PState) (top pe : Nat) (ns : List Node) : Prop where
  fp : FP d s'
  sc : s'.scopeStack = s.scopeStack.pop
  pk : s'.pkgEndStack = s.pkgEndStack.pop
  r : s'.r = { offset := pe, pkgEnd := (s.pkgEndStack.pop.back?).getD pe }
  ab : s'.allBlocks = s.allBlocks
  th : s'.tableHandle = s.tableHandle
  ktop : K s'.tree top = K s.tree top ++ tops false ns
  ok : NodesOK d s'.tree s.tableHandle false top ns
  oldl : ∀ y, live s.tree y = true → live s'.tree y = true
  oldpay : ∀ y, live s.tree y = true → Pay (slot s'.tree y) = Pay (slot s.tree y)
  oldpar : ∀ y, live s.tree y = true → C13.P s'.tree y = C13.P s.tree y
  oldk : ∀ y, live s.tree y = true → y ≠ top → K s'.tree y = K s.tree y
  new : ∀ y ∈ objsL ns, live s.tree y = false
  nodup : (objsL ns).Nodup
  size : s'.tree.pool.size ≤ s.tree.pool.size + 3 * sizePs (progs ns)

theorem Built.sameAt {d : Bytes} {s s' : PState} {top pe : Nat} {ns : List Node} (b : Built d s s' top pe ns) {y : Nat}
    (hy : live s.tree y = true) (hyt : y ≠ top) : SameAt s.tree s'.tree y :=
  ⟨by rw [hy, b.oldl y hy], b.oldpay y hy, b.oldpar y hy, b.oldk y hy hyt⟩

theorem Built.nil {d : Bytes} {s : PState} {top pe : Nat} (c : OCtx d s top pe pe) : Built d s (closed s) top pe [] := by
  have hpe' : (s.pkgEndStack.pop.back?).getD pe ≤ d.size := by
    cases hb : s.pkgEndStack.pop.back? with
    | none => exact c.hpe
    | some e =>
      exact c.pkok e (by
        have := Array.mem_of_back? hb
        have := Array.mem_toList_iff.mpr this
        rw [Array.toList_pop] at this
        exact List.dropLast_subset _ this)
  have hr : (closed s).r = { offset := pe, pkgEnd := (s.pkgEndStack.pop.back?).getD pe } := by
    unfold closed; rw [c.r]
  refine ⟨⟨by rw [hr]; exact ⟨c.hpe, hpe'⟩, c.fp.tree, ?_⟩, rfl, rfl, hr, rfl, rfl, (by simp [tops]; rfl), (by unfold NodesOK; trivial),
    fun _ h => h, fun _ _ => rfl, fun _ _ => rfl, fun _ _ _ => rfl, fun _ hy => by simp [objsL] at hy, by simp [objsL],
    Nat.le_add_right _ _⟩
  intro y hy
  apply c.fp.scopes y
  have : y ∈ s.scopeStack.pop.toList := hy
  rw [Array.toList_pop] at this
  exact List.dropLast_subset _ this

theorem not_live_of {s s1 : PState} (h : ∀ y, live s.tree y = true → live s1.tree y = true) {y : Nat}
    (hy : live s1.tree y = false) : live s.tree y = false := by
  cases hq : live s.tree y with
  | false => rfl
  | true => rw [h y hq] at hy; cases hy

/-- a `Name` declaration, then the rest of the package -/
theorem Built.consName {d : Bytes} {s s1 s2 s' : PState} {top base pe x c k off len : Nat} {seg : List UInt8} {dv : DVal} {ns : List Node}
    (cx : OCtx d s top base pe) (nd : NameDecl d s s1 x c off len) (hlen : len = 4) (cd : DataDecl d s1 s2 k dv)
    (hb : BytesAt d off seg) (hs4 : seg.length = 4) (b : Built d s2 s' top pe ns) :
    Built d s s' top pe (.name x c k off seg dv :: ns) := by
  have ht : topOf s = top := cx.topOf
  have ht1 : topOf s1 = top := by rw [topOf_rest nd.rest, ht]
  have topl := cx.topl
  have ndo := nd.old
  have cdo := cd.old
  rw [ht] at ndo
  rw [ht1] at cdo
  have topl1 : live s1.tree top = true := ndo.lv _ topl
  have topl2 : live s2.tree top = true := cdo.lv _ topl1
  have hxt : x ≠ top := fun e => by have := nd.nx; rw [e, topl] at this; cases this
  have hct : c ≠ top := fun e => by have := nd.nc; rw [e, topl] at this; cases this
  have hkt : k ≠ top := fun e => by have := cd.nk; rw [e, topl1] at this; cases this
  have lx2 : live s2.tree x = true := cdo.lv _ nd.lx
  have lc2 : live s2.tree c = true := cdo.lv _ nd.lc
  have hth1 : s1.tableHandle = s.tableHandle := nd.rest.th
  have hth2 : s2.tableHandle = s.tableHandle := by rw [cd.rest.th, hth1]
  have px := cdo.pay _ nd.lx
  have pc := cdo.pay _ nd.lc
  have nt2 : NameT d s2.tree s.tableHandle top x c k off seg dv false :=
    ⟨lx2, lc2, cd.lk, by rw [pay_opcode px]; exact nd.opx, by rw [pay_info px]; exact nd.infx, by rw [pay_handle px]; exact nd.thx,
      by rw [pay_opcode pc]; exact nd.opc, by rw [pay_info pc]; exact nd.infc, by rw [pay_handle pc]; exact nd.thc,
      by rw [pay_value pc, nd.valc, hlen], cd.opk, cd.infk, by rw [cd.thk, hth1], cd.dat,
      by rw [cdo.kids _ nd.lx, if_neg hxt]; exact nd.kx, by rw [cdo.kids _ nd.lc, if_neg hct]; exact nd.kc, cd.kk,
      by rw [cdo.par _ nd.lx, nd.px, ht], by rw [cdo.par _ nd.lc]; exact nd.pc, by rw [cd.pk, ht1]; rfl, fun hq => (by cases hq), hb, hs4⟩
  have hsc2 : s2.scopeStack = s.scopeStack := by rw [cd.rest.sc, nd.rest.sc]
  have hpk2 : s2.pkgEndStack = s.pkgEndStack := by rw [cd.rest.pk, nd.rest.pk]
  have l02 : ∀ y, live s.tree y = true → live s2.tree y = true := fun y hy => cdo.lv _ (ndo.lv _ hy)
  refine ⟨b.fp, by rw [b.sc, hsc2], by rw [b.pk, hpk2], by rw [b.r, hpk2], by rw [b.ab, cd.rest.ab, nd.rest.ab], by rw [b.th, hth2],
    ?_, ?_, fun y hy => b.oldl _ (l02 y hy), ?_, ?_, ?_, ?_, ?_, ?_⟩
  · rw [b.ktop, cdo.kids _ topl1, if_pos rfl, ndo.kids _ topl, if_pos rfl]
    simp [tops]
  · unfold NodesOK NodeOK
    refine ⟨nt2.frame (b.sameAt lx2 hxt) (b.sameAt lc2 hct) (b.sameAt cd.lk hkt), ?_⟩
    have := b.ok
    rw [hth2] at this
    exact this
  · intro y hy
    rw [b.oldpay _ (l02 y hy), cdo.pay _ (ndo.lv _ hy), ndo.pay _ hy]
  · intro y hy
    rw [b.oldpar _ (l02 y hy), cdo.par _ (ndo.lv _ hy), ndo.par _ hy]
  · intro y hy hyt
    rw [b.oldk _ (l02 y hy) hyt, cdo.kids _ (ndo.lv _ hy), if_neg hyt, ndo.kids _ hy, if_neg hyt]
  · intro y hy
    simp only [objsL, Node.objs, List.mem_append, List.mem_cons, List.mem_nil_iff, or_false] at hy
    rcases hy with (e | e | e) | hy
    · rw [e]; exact nd.nx
    · rw [e]; exact nd.nc
    · rw [e]; exact not_live_of ndo.lv cd.nk
    · exact not_live_of l02 (b.new y hy)
  · have hxc : x ≠ c := fun e => by
      have h1 := nd.pc; rw [← e, nd.px, ht] at h1; exact hxt h1.symm
    have hxk : x ≠ k := fun e => by have := cd.nk; rw [← e, nd.lx] at this; cases this
    have hck : c ≠ k := fun e => by have := cd.nk; rw [← e, nd.lc] at this; cases this
    simp only [objsL, Node.objs]
    rw [List.nodup_append]
    refine ⟨by simp [hxc, hxk, hck], b.nodup, ?_⟩
    intro a ha bb hbb e
    have hbl := b.new bb hbb
    simp only [List.mem_cons, List.mem_nil_iff, or_false] at ha
    rcases ha with e' | e' | e' <;> rw [← e, e'] at hbl
    · rw [lx2] at hbl; cases hbl
    · rw [lc2] at hbl; cases hbl
    · rw [cd.lk] at hbl; cases hbl
  · have := b.size
    have := nd.size
    have := cd.size
    simp only [progs, Node.prog, sizePs, sizeP]
    omega

/-- a `Device`, its contents, then the rest of the package -/
theorem Built.consDev {d : Bytes} {s s1 s2 s' : PState} {kd : BKind} {top base pe x c sb off pe1 pw : Nat} {seg : List UInt8}
    {es : List CArg} {nsb nsr : List Node} (cx : OCtx d s top base pe) (dv : DevOpen d s s1 kd x c sb off pe1 es) (hb : BytesAt d off seg)
    (hs4 : seg.length = 4) (hws : es.map (·.n) = kd.ws) (bb : Built d s1 s2 sb pe1 nsb) (br : Built d s2 s' top pe nsr) :
    Built d s s' top pe (.dev kd x c sb off pw seg es nsb :: nsr) := by
  have ht : topOf s = top := cx.topOf
  have topl := cx.topl
  have dvo := dv.old
  rw [ht] at dvo
  have topl1 : live s1.tree top = true := dvo.lv _ topl
  have htsb : top ≠ sb := fun e => by have := dv.nsb; rw [← e, topl] at this; cases this
  have hxt : x ≠ top := fun e => by have := dv.nx; rw [e, topl] at this; cases this
  have hct : c ≠ top := fun e => by have := dv.nc; rw [e, topl] at this; cases this
  have hxsb : x ≠ sb := dv.xcsb.2.1
  have hcsb : c ≠ sb := dv.xcsb.2.2
  have hsc2 : s2.scopeStack = s.scopeStack := by rw [bb.sc, dv.sc, Array.pop_push]
  have hpk2 : s2.pkgEndStack = s.pkgEndStack := by rw [bb.pk, dv.pk, Array.pop_push]
  have hth2 : s2.tableHandle = s.tableHandle := by rw [bb.th, dv.th]
  have lx2 : live s2.tree x = true := bb.oldl _ dv.lx
  have lc2 : live s2.tree c = true := bb.oldl _ dv.lc
  have lsb2 : live s2.tree sb = true := bb.oldl _ dv.lsb
  have l02 : ∀ y, live s.tree y = true → live s2.tree y = true := fun y hy => bb.oldl _ (dvo.lv _ hy)
  -- the device in `s1`, then in `s2`
  have dt1 : DevT d s1.tree s.tableHandle top kd x c sb off seg es false :=
    ⟨dv.lx, dv.lc, dv.lsb, dv.opx, dv.infx, dv.thx, dv.opc, dv.infc, dv.thc, dv.valc, dv.opsb, dv.infsb, dv.thsb, dv.kx, dv.kc,
      by rw [dv.px, ht], dv.pc, dv.psb, dv.args, hws, fun hq => (by cases hq), hb, hs4⟩
  have dt2 := dt1.frame (bb.sameAt dv.lx hxsb) (bb.sameAt dv.lc hcsb)
    ⟨by rw [dv.lsb, lsb2], bb.oldpay _ dv.lsb, bb.oldpar _ dv.lsb⟩
    (fun a ha => bb.sameAt (dv.args a ha).le (dv.hke a ha).2.2)
  have hksb2 : K s2.tree sb = tops false nsb := by rw [bb.ktop, dv.ksb]; rfl
  have ok2 : NodesOK d s2.tree s.tableHandle false sb nsb := by have := bb.ok; rw [dv.th] at this; exact this
  have livesb : ∀ y ∈ objsL nsb, live s2.tree y = true := NodesOK.live sb nsb ok2
  have newsb : ∀ y ∈ objsL nsb, live s.tree y = false := fun y hy => not_live_of dvo.lv (bb.new y hy)
  have node2 : NodeOK d s2.tree s.tableHandle false false top (.dev kd x c sb off pw seg es nsb) := by
    unfold NodeOK; exact ⟨dt2, hksb2, ok2⟩
  have hobjs : ∀ y ∈ (Node.dev kd x c sb off pw seg es nsb).objs, live s2.tree y = true ∧ live s.tree y = false := by
    intro y hy
    simp only [Node.objs, List.mem_append, List.mem_cons, List.mem_nil_iff, or_false, List.mem_map] at hy
    rcases hy with (e | e | e) | ⟨a, ha, e⟩ | hy
    · rw [e]; exact ⟨lx2, dv.nx⟩
    · rw [e]; exact ⟨lc2, dv.nc⟩
    · rw [e]; exact ⟨lsb2, dv.nsb⟩
    · rw [← e]; exact ⟨bb.oldl _ (dv.args a ha).le, dv.newes a ha⟩
    · exact ⟨livesb y hy, newsb y hy⟩
  refine ⟨br.fp, by rw [br.sc, hsc2], by rw [br.pk, hpk2], by rw [br.r, hpk2], by rw [br.ab, bb.ab, dv.ab], by rw [br.th, hth2],
    ?_, ?_, fun y hy => br.oldl _ (l02 y hy), ?_, ?_, ?_, ?_, ?_, ?_⟩
  · rw [br.ktop, bb.oldk _ topl1 htsb, dvo.kids _ topl, if_pos rfl]
    simp [tops]
  · unfold NodesOK
    refine ⟨NodeOK.frame top _ node2 (fun y hy => ?_), ?_⟩
    · obtain ⟨h1, h2⟩ := hobjs y hy
      exact br.sameAt h1 (fun e => by rw [e, topl] at h2; cases h2)
    · have := br.ok
      rw [hth2] at this
      exact this
  · intro y hy
    rw [br.oldpay _ (l02 y hy), bb.oldpay _ (dvo.lv _ hy), dvo.pay _ hy]
  · intro y hy
    rw [br.oldpar _ (l02 y hy), bb.oldpar _ (dvo.lv _ hy), dvo.par _ hy]
  · intro y hy hyt
    have hysb : y ≠ sb := fun e => by have := dv.nsb; rw [← e, hy] at this; cases this
    rw [br.oldk _ (l02 y hy) hyt, bb.oldk _ (dvo.lv _ hy) hysb, dvo.kids _ hy, if_neg hyt]
  · intro y hy
    simp only [objsL, List.mem_append] at hy
    rcases hy with hy | hy
    · exact (hobjs y hy).2
    · exact not_live_of l02 (br.new y hy)
  · simp only [objsL]
    rw [List.nodup_append]
    refine ⟨?_, br.nodup, ?_⟩
    · simp only [Node.objs]
      rw [List.nodup_append]
      have hesb : ∀ a ∈ es, a.e ∉ objsL nsb := fun a ha hm => by
        have := bb.new _ hm; rw [(dv.args a ha).le] at this; cases this
      refine ⟨by simp [dv.xcsb.1, dv.xcsb.2.1, dv.xcsb.2.2], ?_, ?_⟩
      · rw [List.nodup_append]
        refine ⟨dv.nde, bb.nodup, ?_⟩
        intro a ha b' hb' e
        obtain ⟨a', ha', ea⟩ := List.mem_map.1 ha
        exact hesb a' ha' (by rw [ea, e]; exact hb')
      intro a ha b' hb' e
      simp only [List.mem_cons, List.mem_nil_iff, or_false] at ha
      rcases List.mem_append.1 hb' with hb' | hb'
      · obtain ⟨a', ha', ea⟩ := List.mem_map.1 hb'
        obtain ⟨k1, k2, k3⟩ := dv.hke a' ha'
        rcases ha with e' | e' | e'
        · exact k1 (by rw [ea, ← e, e'])
        · exact k2 (by rw [ea, ← e, e'])
        · exact k3 (by rw [ea, ← e, e'])
      · have hbl := bb.new b' hb'
        rcases ha with e' | e' | e' <;> rw [← e, e'] at hbl
        · rw [dv.lx] at hbl; cases hbl
        · rw [dv.lc] at hbl; cases hbl
        · rw [dv.lsb] at hbl; cases hbl
    · intro a ha b' hb' e
      have h1 := (hobjs a ha).1
      have h2 := br.new b' hb'
      rw [← e, h1] at h2; cases h2
  · have := br.size
    have := bb.size
    have := dv.size
    have hel : es.length = kd.ws.length := by rw [← hws, List.length_map]
    simp only [progs, Node.prog, sizePs, sizeP]
    omega

/-- an `Event` / `Mutex` declaration, then the rest of the package -/
theorem Built.consLeaf {d : Bytes} {s s1 s' : PState} {kd : LKind} {top base pe x c off : Nat} {seg : List UInt8} {es : List CArg}
    {ns : List Node} (cx : OCtx d s top base pe) (lo : LeafOpen d s s1 kd x c off es) (hb : BytesAt d off seg)
    (hs4 : seg.length = 4) (hws : es.map (·.n) = kd.ws) (b : Built d s1 s' top pe ns) :
    Built d s s' top pe (.leaf kd x c off seg es :: ns) := by
  have ht : topOf s = top := cx.topOf
  have topl := cx.topl
  have loo := lo.old
  rw [ht] at loo
  have topl1 : live s1.tree top = true := loo.lv _ topl
  have hxt : x ≠ top := fun e => by have := lo.nx; rw [e, topl] at this; cases this
  have hct : c ≠ top := fun e => by have := lo.nc; rw [e, topl] at this; cases this
  have het : ∀ a ∈ es, a.e ≠ top := fun a ha e => by have := lo.newes a ha; rw [e, topl] at this; cases this
  have hel : kd.ws.length ≤ 1 := by cases kd <;> simp [LKind.ws]
  have hesl : es.length ≤ 1 := by have := congrArg List.length hws; simp at this; omega
  have lt1 : LeafT d s1.tree s.tableHandle top kd x c off seg es false :=
    ⟨lo.lx, lo.lc, lo.opx, lo.infx, lo.thx, lo.opc, lo.infc, lo.thc, lo.valc, lo.kx, lo.kc, by rw [lo.px, ht], lo.pc, lo.args,
      fun hq => (by cases hq), hb, hs4, hws⟩
  refine ⟨b.fp, by rw [b.sc, lo.rest.sc], by rw [b.pk, lo.rest.pk], by rw [b.r, lo.rest.pk], by rw [b.ab, lo.rest.ab], by rw [b.th, lo.rest.th],
    ?_, ?_, fun y hy => b.oldl _ (loo.lv y hy), ?_, ?_, ?_, ?_, ?_, ?_⟩
  · rw [b.ktop, loo.kids _ topl, if_pos rfl]
    simp [tops]
  · unfold NodesOK NodeOK
    refine ⟨lt1.frame (b.sameAt lo.lx hxt) (b.sameAt lo.lc hct) (fun a ha => b.sameAt (lo.args a ha).le (het a ha)), ?_⟩
    have := b.ok
    rw [lo.rest.th] at this
    exact this
  · intro y hy
    rw [b.oldpay _ (loo.lv y hy), loo.pay _ hy]
  · intro y hy
    rw [b.oldpar _ (loo.lv y hy), loo.par _ hy]
  · intro y hy hyt
    rw [b.oldk _ (loo.lv y hy) hyt, loo.kids _ hy, if_neg hyt]
  · intro y hy
    simp only [objsL, Node.objs, List.mem_append, List.mem_cons, List.mem_map] at hy
    rcases hy with (e | e | ⟨a, ha, e⟩) | hy
    · rw [e]; exact lo.nx
    · rw [e]; exact lo.nc
    · rw [← e]; exact lo.newes a ha
    · exact not_live_of loo.lv (b.new y hy)
  · simp only [objsL, Node.objs]
    rw [List.nodup_append]
    refine ⟨lo.nd, b.nodup, ?_⟩
    intro a ha b' hb' e
    have hbl := b.new b' hb'
    have hal : live s1.tree a = true := by
      simp only [List.mem_cons, List.mem_map] at ha
      rcases ha with e' | e' | ⟨q, hq, e'⟩
      · rw [e']; exact lo.lx
      · rw [e']; exact lo.lc
      · rw [← e']; exact (lo.args q hq).le
    rw [← e, hal] at hbl; cases hbl
  · have := b.size
    have := lo.size
    simp only [progs, Node.prog, sizePs, sizeP]
    omega

theorem oli_eof {d : Bytes} (fuel m : Nat) {s : PState} (he : s.r.eof = true) : objectListInner d fuel (m + 1) s = .ok (true, s) := by
  rw [objectListInner, bind_run (lex_eof s), he]
  rfl

theorem oli_step {d : Bytes} (fuel m : Nat) {s s1 : PState} (he : s.r.eof = false) (e : parseNextObject d fuel s = .ok (PRes.ok, s1)) :
    objectListInner d fuel (m + 1) s = objectListInner d fuel m s1 := by
  rw [objectListInner, bind_run (lex_eof s), he]
  simp only [Bool.false_eq_true, ↓reduceIte]
  rw [bind_run e, if_neg (by decide)]

theorem bind_congr_run {α β : Type} {x y : P α} {f : α → P β} {s s1 : PState} (e : x s = y s1) : (x >>= f) s = (y >>= f) s1 := by
  show (StateT.bind x f) s = (StateT.bind y f) s1
  simp only [StateT.bind, e]

/-- **the object loop on a nested program**: from a state in which the reader stands at the encoding of `os` and the open
package ends right behind it, the inner loop and the closing of the package bring the parser to `parseObjectList` in a state
in which `os` is built under the scope block of the package -/
theorem ol_nest {d : Bytes} (hd : d.size + 1024 ≤ 4294967296) (fuel : Nat) :
    ∀ (os : List PObj) (s : PState) (m N top base pe : Nat), OCtx d s top base pe → BytesAt d base (encPs os) →
      base + (encPs os).length = pe → okPs os → 2 * sizePs os + 1 ≤ m → 2 * sizePs os + 9 ≤ fuel → closesPs os ≤ N →
      s.tree.pool.size + 3 * sizePs os < INV →
      ∃ s' ns, progs ns = os ∧
        (objectListInner d fuel m >>= tailPOL d fuel N) s = parseObjectList d fuel (N - closesPs os) s' ∧
        Built d s s' top pe ns
  | [], s, m, N, top, base, pe, cx, _, hlen, _, hm, _, _, _ => by
    obtain ⟨m', rfl⟩ : ∃ m', m = m' + 1 := ⟨m - 1, by omega⟩
    have hbp : base = pe := by simpa [encPs] using hlen
    subst hbp
    have he : s.r.eof = true := by rw [cx.r]; simp [Reader.eof]
    refine ⟨closed s, [], rfl, ?_, Built.nil cx⟩
    rw [bind_run (oli_eof fuel m' he), close_run cx]
    rfl
  | .name seg dv :: rest, s, m, N, top, base, pe, cx, hb, hlen, hok, hm, hfuel, hN, hsz => by
    obtain ⟨m', rfl⟩ : ∃ m', m = m' + 2 := ⟨m - 2, by simp only [sizePs, sizeP] at hm; omega⟩
    obtain ⟨f, rfl⟩ : ∃ f, fuel = f + 5 := ⟨fuel - 5, by omega⟩
    simp only [okPs, okP] at hok
    obtain ⟨⟨hq, hs4, hdv⟩, hokr⟩ := hok
    simp only [encPs, encP] at hb hlen
    simp only [sizePs, sizeP] at hm hfuel hsz
    simp only [closesPs, closesP, Nat.zero_add] at hN ⊢
    have hen : encName false 0 [seg] = seg := by simp [encName]
    have hb1 : BytesAt d base (0x08 :: (seg ++ dv.enc)) := BytesAt.left hb
    have hb2 : BytesAt d (base + (0x08 :: (seg ++ dv.enc)).length) (encPs rest) := BytesAt.right hb
    obtain ⟨hop, hb3⟩ := BytesAt.tail hb1
    have hbn : BytesAt d (base + 1) seg := BytesAt.left hb3
    have hbi : BytesAt d (base + 1 + seg.length) dv.enc := BytesAt.right hb3
    have hql : (0x08 :: (seg ++ dv.enc)).length = 1 + seg.length + dv.enc.length := by
      simp; omega
    rw [List.length_append] at hlen
    have hip := dv.enc_pos
    obtain ⟨s1, x, c, e1, nd, hr1⟩ := name_decl_k hd f cx.fp cx.sk cx.ne (by omega) false 0 [seg] base pe cx.r cx.hpe hq hop
      (by rw [hen]; exact hbn) (by rw [hen]; omega)
    rw [hen] at hr1
    have hne1 : s1.scopeStack.size ≠ 0 := by rw [nd.rest.sc]; exact cx.ne
    obtain ⟨s2, k, e2, cd, hr2⟩ := data_decl_first_pass (f + 2) nd.fp hne1 (by have := nd.size; omega) dv hdv _ pe hr1 cx.hpe
      hbi (by omega)
    have hr2' : s2.r = { offset := base + (0x08 :: (seg ++ dv.enc)).length, pkgEnd := pe } := by
      rw [hr2, hql]; congr 1; omega
    have hsc2 : s2.scopeStack = s.scopeStack := by rw [cd.rest.sc, nd.rest.sc]
    have hpk2 : s2.pkgEndStack = s.pkgEndStack := by rw [cd.rest.pk, nd.rest.pk]
    have cx2 : OCtx d s2 top (base + (0x08 :: (seg ++ dv.enc)).length) pe :=
      ⟨cd.fp, by rw [cd.rest.ab, nd.rest.ab]; exact cx.sk, hr2', cx.hpe, by rw [hsc2]; exact cx.htop, by rw [hpk2]; exact cx.hpk,
        by rw [hsc2, hpk2]; exact cx.sz, by rw [hpk2]; exact cx.pkok⟩
    obtain ⟨s', ns, hp, e', b'⟩ := ol_nest hd (f + 5) rest s2 m' N top (base + (0x08 :: (seg ++ dv.enc)).length) pe cx2 hb2 (by omega) hokr (by omega)
      (by omega) hN (by have := nd.size; have := cd.size; omega)
    refine ⟨s', .name x c k (base + 1) seg dv :: ns, by simp [progs, Node.prog, hp], ?_,
      Built.consName cx nd (by rw [hen, hs4]; simp) cd hbn hs4 b'⟩
    have ne1 : s.r.eof = false := by rw [cx.r]; simp [Reader.eof]; omega
    have ne2 : s1.r.eof = false := by rw [hr1]; simp [Reader.eof]; omega
    rw [← e']
    apply bind_congr_run
    rw [oli_step (f + 5) (m' + 1) ne1 e1, oli_step (f + 5) m' ne2 e2]
  | .dev kd pw seg vals body :: rest, s, m, N, top, base, pe, cx, hb, hlen, hok, hm, hfuel, hN, hsz => by
    obtain ⟨m', rfl⟩ : ∃ m', m = m' + 1 := ⟨m - 1, by omega⟩
    have hwl := kd.ws_le
    simp only [sizePs, sizeP] at hm hfuel hsz
    obtain ⟨f, rfl⟩ : ∃ f, fuel = f + kd.ws.length + 8 := ⟨fuel - kd.ws.length - 8, by omega⟩
    simp only [okPs, okP] at hok
    obtain ⟨⟨hpw1, hpw4, hv, hseg, hs4, hvl, hokb⟩, hokr⟩ := hok
    simp only [encPs, encP] at hb hlen
    simp only [closesPs, closesP] at hN ⊢
    rw [hs4] at hb hlen hv
    generalize hvlen : (encVals kd.ws vals).length = vlen at hb hlen hv
    generalize hbl : (encPs body).length = bl at hb hlen hv
    generalize hblen : vlen + bl = blen at hb hlen hv
    -- the bytes
    have hbd : BytesAt d base ([0x5b, kd.b2] ++ encPkgLength (pw + (4 + blen)) pw ++ (seg ++ (encVals kd.ws vals ++ encPs body))) :=
      BytesAt.left hb
    have hbr : BytesAt d (base + ([0x5b, kd.b2] ++ encPkgLength (pw + (4 + blen)) pw ++ (seg ++ (encVals kd.ws vals ++ encPs body))).length)
        (encPs rest) := BytesAt.right hb
    have hdl : ([0x5b, kd.b2] ++ encPkgLength (pw + (4 + blen)) pw ++ (seg ++ (encVals kd.ws vals ++ encPs body))).length =
        2 + pw + 4 + blen := by
      simp only [List.length_append, List.length_cons, List.length_nil, encPkgLength_length _ _ hpw1, hs4, hvlen, hbl]
      omega
    rw [hdl] at hbr
    rw [List.length_append, hdl] at hlen
    have hsplit : [0x5b, kd.b2] ++ encPkgLength (pw + (4 + blen)) pw ++ (seg ++ (encVals kd.ws vals ++ encPs body)) =
        ([0x5b, kd.b2] ++ encPkgLength (pw + (4 + blen)) pw ++ seg ++ encVals kd.ws vals) ++ encPs body := by simp
    rw [hsplit] at hbd
    have hbh : BytesAt d base ([0x5b, kd.b2] ++ encPkgLength (pw + (4 + blen)) pw ++ seg ++ encVals kd.ws vals) := BytesAt.left hbd
    have hbb : BytesAt d (base + 2 + pw + 4 + vlen) (encPs body) := by
      have := BytesAt.right hbd
      simp only [List.length_append, List.length_cons, List.length_nil, encPkgLength_length _ _ hpw1, hs4, hvlen] at this
      have e : base + (0 + 1 + 1 + pw + 4 + vlen) = base + 2 + pw + 4 + vlen := by omega
      rw [e] at this
      exact this
    obtain ⟨s1, x, c, sb, es, e1, dv, hm1, hm2, hr1⟩ := dev_open hd f kd cx.fp cx.sk cx.ne (by omega) pw seg vals blen base pe cx.r cx.hpe
      ⟨hpw1, hpw4⟩ hv hseg hs4 hvl (by omega) hbh (by omega)
    rw [hvlen] at hr1
    have hesl : es.length = kd.ws.length := by rw [← hm1, List.length_map]
    have hpe1 : base + 2 + pw + 4 + blen ≤ d.size := by have := cx.hpe; omega
    have cx1 : OCtx d s1 sb (base + 2 + pw + 4 + vlen) (base + 2 + pw + 4 + blen) :=
      ⟨dv.fp, by rw [dv.ab]; exact cx.sk, hr1, hpe1, by rw [dv.sc]; simp, by rw [dv.pk]; simp,
        by rw [dv.sc, dv.pk, Array.size_push, Array.size_push, cx.sz], by
          intro e he
          rw [dv.pk] at he
          simp only [Array.toList_push, List.mem_append, List.mem_cons, List.mem_nil_iff, or_false] at he
          rcases he with he | he
          · exact cx.pkok e he
          · rw [he]; exact hpe1⟩
    obtain ⟨s2, nsb, hpb, eb, bb⟩ := ol_nest hd (f + kd.ws.length + 8) body s1 m' N sb (base + 2 + pw + 4 + vlen) (base + 2 + pw + 4 + blen)
      cx1 hbb (by rw [hbl]; omega) hokb (by omega) (by omega) (by omega) (by have := dv.size; omega)
    -- back in the enclosing package
    have hsc2 : s2.scopeStack = s.scopeStack := by rw [bb.sc, dv.sc, Array.pop_push]
    have hpk2 : s2.pkgEndStack = s.pkgEndStack := by rw [bb.pk, dv.pk, Array.pop_push]
    have hr2 : s2.r = { offset := base + 2 + pw + 4 + blen, pkgEnd := pe } := by
      rw [bb.r, dv.pk, Array.pop_push, cx.hpk]; rfl
    have cx2 : OCtx d s2 top (base + 2 + pw + 4 + blen) pe :=
      ⟨bb.fp, by rw [bb.ab, dv.ab]; exact cx.sk, hr2, cx.hpe, by rw [hsc2]; exact cx.htop, by rw [hpk2]; exact cx.hpk,
        by rw [hsc2, hpk2]; exact cx.sz, by rw [hpk2]; exact cx.pkok⟩
    obtain ⟨N2, hN2⟩ : ∃ N2, N - closesPs body = N2 + 1 := ⟨N - closesPs body - 1, by omega⟩
    have hsize2 : s2.tree.pool.size ≤ s.tree.pool.size + 3 + kd.ws.length + 3 * sizePs body := by
      have h1 := bb.size; have h2 := dv.size; rw [hpb] at h1; omega
    obtain ⟨s', nsr, hpr, er, br⟩ := ol_nest hd (f + kd.ws.length + 8) rest s2 (f + kd.ws.length + 8) N2 top (base + 2 + pw + 4 + blen) pe cx2
      (by have e : base + (2 + pw + 4 + blen) = base + 2 + pw + 4 + blen := by omega
          rw [e] at hbr; exact hbr) (by omega) hokr (by omega) (by omega) (by omega) (by omega)
    refine ⟨s', .dev kd x c sb (base + 2 + pw) pw seg es nsb :: nsr, by simp [progs, Node.prog, hpb, hpr, hm2], ?_,
      Built.consDev cx dv (by
        have := BytesAt.right (BytesAt.left hbh)
        simp only [List.length_append, List.length_cons, List.length_nil, encPkgLength_length _ _ hpw1] at this
        have e : base + (0 + 1 + 1 + pw) = base + 2 + pw := by omega
        rw [e] at this; exact this) hs4 hm1 bb br⟩
    have ne1 : s.r.eof = false := by rw [cx.r]; simp [Reader.eof]; omega
    have e3 : N - (1 + closesPs body + closesPs rest) = N2 - closesPs rest := by omega
    rw [e3, ← er, ← pol_unfold d (f + kd.ws.length + 8) N2 s2 (by rw [hsc2]; exact cx.ne), ← hN2, ← eb]
    apply bind_congr_run
    rw [oli_step (f + kd.ws.length + 8) m' ne1 e1]
  | .leaf kd seg vals :: rest, s, m, N, top, base, pe, cx, hb, hlen, hok, hm, hfuel, hN, hsz => by
    obtain ⟨m', rfl⟩ : ∃ m', m = m' + 1 := ⟨m - 1, by omega⟩
    have hel : kd.ws.length ≤ 1 := by cases kd <;> simp [LKind.ws]
    obtain ⟨f, rfl⟩ : ∃ f, fuel = f + kd.ws.length + 5 := ⟨fuel - kd.ws.length - 5, by omega⟩
    simp only [okPs, okP] at hok
    obtain ⟨⟨hseg, hs4, hvl⟩, hokr⟩ := hok
    simp only [encPs, encP] at hb hlen
    simp only [sizePs, sizeP] at hm hfuel hsz
    simp only [closesPs, closesP, Nat.zero_add] at hN ⊢
    have hb1 : BytesAt d base ([0x5b, kd.b2] ++ seg ++ encVals kd.ws vals) := BytesAt.left hb
    have hb2 : BytesAt d (base + ([0x5b, kd.b2] ++ seg ++ encVals kd.ws vals).length) (encPs rest) := BytesAt.right hb
    have hdl : ([0x5b, kd.b2] ++ seg ++ encVals kd.ws vals).length = 2 + 4 + (encVals kd.ws vals).length := by
      simp only [List.length_append, List.length_cons, List.length_nil, hs4]
    rw [hdl] at hb2
    rw [List.length_append, hdl] at hlen
    obtain ⟨s1, x, c, es, e1, lo, hm1, hm2, hr1⟩ := leaf_open hd f kd cx.fp cx.ne (by omega) seg vals base pe cx.r cx.hpe hseg hs4 hvl
      hb1 (by omega)
    have hbseg : BytesAt d (base + 2) seg := by
      have := BytesAt.right (BytesAt.left hb1); simpa using this
    have cx1 : OCtx d s1 top (base + 2 + 4 + (encVals kd.ws vals).length) pe :=
      ⟨lo.fp, by rw [lo.rest.ab]; exact cx.sk, hr1, cx.hpe, by rw [lo.rest.sc]; exact cx.htop, by rw [lo.rest.pk]; exact cx.hpk,
        by rw [lo.rest.sc, lo.rest.pk]; exact cx.sz, by rw [lo.rest.pk]; exact cx.pkok⟩
    have hesl : es.length ≤ 1 := by have := congrArg List.length hm1; simp at this; omega
    obtain ⟨s', ns, hp, e', b'⟩ := ol_nest hd (f + kd.ws.length + 5) rest s1 m' N top (base + 2 + 4 + (encVals kd.ws vals).length) pe cx1
      (by have e : base + (2 + 4 + (encVals kd.ws vals).length) = base + 2 + 4 + (encVals kd.ws vals).length := by omega
          rw [e] at hb2; exact hb2) (by omega) hokr (by omega) (by omega) hN (by have := lo.size; omega)
    refine ⟨s', .leaf kd x c (base + 2) seg es :: ns, by simp [progs, Node.prog, hp, hm2], ?_, Built.consLeaf cx lo hbseg hs4 hm1 b'⟩
    have ne1 : s.r.eof = false := by rw [cx.r]; simp [Reader.eof]; omega
    rw [← e']
    apply bind_congr_run
    rw [oli_step (f + kd.ws.length + 5) m' ne1 e1]

/-- **the first pass on a nested program** (`Device(NAME){…}` around `Name(NAME, integer)`, any depth): it succeeds, and
every declaration is in the pool as the layout `ns` says, under the root -/
theorem firstPass_nest {d : Bytes} (hd : d.size + 1024 ≤ 4294967296) (hh : headerLen ≤ d.size) (os : List PObj)
    (hok : okPs os) (hb : BytesAt d headerLen (encPs os)) (hlen : headerLen + (encPs os).length = d.size)
    (s : PState) (ht : TreeG s.tree) (hsz : s.tree.pool.size + 3 * sizePs os < INV) (fuel : Nat)
    (hfuel : 2 * sizePs os + closesPs os + 11 ≤ fuel) (handle : Nat) :
    ∃ s' ns, progs ns = os ∧ firstPass d fuel handle s = .ok (PRes.ok, s') ∧ Built d (initState d handle s) s' 0 d.size ns := by
  rw [firstPass_eq d fuel handle s hh]
  have hI : FP d (initState d handle s) := by
    refine ⟨⟨hh, Nat.le_refl _⟩, ht, ?_⟩
    intro x hx
    have : x = 0 := by simpa [initState] using hx
    rw [this]; exact ht.root
  have cx : OCtx d (initState d handle s) 0 headerLen d.size :=
    ⟨hI, rfl, rfl, Nat.le_refl _, by simp [initState], by simp [initState], by simp [initState], by
      intro e he
      have : e = d.size := by simpa [initState] using he
      rw [this]; exact Nat.le_refl _⟩
  obtain ⟨N, rfl⟩ : ∃ N, fuel = N + 1 := ⟨fuel - 1, by omega⟩
  obtain ⟨s', ns, hp, e, b⟩ := ol_nest hd (N + 1) os (initState d handle s) (N + 1) N 0 headerLen d.size cx hb hlen hok (by omega)
    (by omega) (by omega) hsz
  refine ⟨s', ns, hp, ?_, b⟩
  rw [pol_unfold d (N + 1) N _ cx.ne, e]
  obtain ⟨k, hk⟩ : ∃ k, N - closesPs os = k + 1 := ⟨N - closesPs os - 1, by omega⟩
  rw [hk, parseObjectList]
  have e0 : stackSizes s' = .ok ((s'.pkgEndStack.size, s'.scopeStack.size), s') := rfl
  rw [bind_run e0]
  have : s'.scopeStack.size = 0 := by rw [b.sc]; simp [initState]
  rw [if_pos this]
  rfl

end Firefly.AmlParser.F
