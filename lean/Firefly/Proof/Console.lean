import Firefly.Spec.Console
/-!
Lemmas for C19: what the checked-access loops of `Model/FbMem.lean` compute, as pointwise facts
about `fb[i]?`, and the division/remainder facts that connect linear framebuffer offsets with
(row, column) coordinates.
-/
namespace Firefly.ConsoleProof
open Firefly.FbMem

theorem put_eq {fb : Array α} {i : Nat} {v : α} (h : i < fb.size) :
    put fb i v = some (fb.set i v h) := by simp [put, h]

theorem fillRange_spec (v : α) : ∀ (n : Nat) (fb : Array α) (s : Nat), s + n ≤ fb.size →
    ∃ fb', fillRange v fb s n = some fb' ∧ fb'.size = fb.size ∧
      ∀ i, fb'[i]? = if s ≤ i ∧ i < s + n then some v else fb[i]? := by
  intro n
  induction n with
  | zero =>
    intro fb s _
    refine ⟨fb, rfl, rfl, fun i => ?_⟩
    have : ¬ (s ≤ i ∧ i < s + 0) := by omega
    rw [if_neg this]
  | succ n ih =>
    intro fb s h
    have hs : s < fb.size := by omega
    obtain ⟨fb', h1, h2, h3⟩ := ih (fb.set s v hs) (s+1) (by simp; omega)
    refine ⟨fb', ?_, ?_, ?_⟩
    · simp [fillRange, put_eq hs, h1]
    · simpa using h2
    · intro i
      rw [h3, Array.getElem?_set]
      by_cases h1 : s + 1 ≤ i ∧ i < s + 1 + n
      · have : s ≤ i ∧ i < s + (n + 1) := by omega
        rw [if_pos h1, if_pos this]
      · by_cases h2 : s = i
        · have : s ≤ i ∧ i < s + (n + 1) := by omega
          rw [if_neg h1, if_pos h2, if_pos this]
        · have : ¬ (s ≤ i ∧ i < s + (n + 1)) := by omega
          rw [if_neg h1, if_neg h2, if_neg this]

theorem copyAsc_spec (src : Nat → Nat) : ∀ (n : Nat) (fb : Array α) (i : Nat),
    i + n ≤ fb.size →
    (∀ k, i ≤ k → k < i + n → src k < fb.size ∧ (src k < i ∨ k ≤ src k)) →
    ∃ fb', copyAsc src fb i n = some fb' ∧ fb'.size = fb.size ∧
      ∀ k, fb'[k]? = if i ≤ k ∧ k < i + n then fb[src k]? else fb[k]? := by
  intro n
  induction n with
  | zero =>
    intro fb i _ _
    refine ⟨fb, rfl, rfl, fun k => ?_⟩
    have : ¬ (i ≤ k ∧ k < i + 0) := by omega
    rw [if_neg this]
  | succ n ih =>
    intro fb i h hsrc
    have hi : i < fb.size := by omega
    have hs := (hsrc i (Nat.le_refl _) (by omega)).1
    obtain ⟨fb', h1, h2, h3⟩ := ih (fb.set i fb[src i] hi) (i+1) (by simp; omega) (by
      intro k hk1 hk2
      have := hsrc k (by omega) (by omega)
      simp only [Array.size_set]
      omega)
    refine ⟨fb', ?_, ?_, ?_⟩
    · simp [copyAsc, Array.getElem?_eq_getElem hs, put_eq hi, h1]
    · simpa using h2
    · intro k
      rw [h3]
      by_cases hk : i + 1 ≤ k ∧ k < i + 1 + n
      · have hk' : i ≤ k ∧ k < i + (n + 1) := by omega
        have := hsrc k (by omega) (by omega)
        have hne : ¬ i = src k := by omega
        rw [if_pos hk, if_pos hk', Array.getElem?_set, if_neg hne]
      · by_cases hk2 : i = k
        · have hk' : i ≤ k ∧ k < i + (n + 1) := by omega
          subst hk2
          rw [if_neg hk, if_pos hk', Array.getElem?_set, if_pos rfl, Array.getElem?_eq_getElem hs]
        · have hk' : ¬ (i ≤ k ∧ k < i + (n + 1)) := by omega
          rw [if_neg hk, if_neg hk', Array.getElem?_set, if_neg hk2]

theorem copyDesc_spec (src : Nat → Nat) : ∀ (n : Nat) (fb : Array α) (i : Nat),
    i < fb.size → n ≤ i + 1 →
    (∀ k, i + 1 - n ≤ k → k ≤ i → src k < fb.size ∧ (src k ≤ k ∨ i < src k)) →
    ∃ fb', copyDesc src fb i n = some fb' ∧ fb'.size = fb.size ∧
      ∀ k, fb'[k]? = if i + 1 - n ≤ k ∧ k ≤ i then fb[src k]? else fb[k]? := by
  intro n
  induction n with
  | zero =>
    intro fb i _ _ _
    refine ⟨fb, rfl, rfl, fun k => ?_⟩
    have : ¬ (i + 1 - 0 ≤ k ∧ k ≤ i) := by omega
    rw [if_neg this]
  | succ n ih =>
    intro fb i hi hn hsrc
    have hs := (hsrc i (by omega) (Nat.le_refl _)).1
    by_cases hn0 : n = 0
    · subst hn0
      refine ⟨fb.set i fb[src i] hi, ?_, by simp, ?_⟩
      · simp [copyDesc, Array.getElem?_eq_getElem hs, put_eq hi]
      · intro k
        by_cases hk : i = k
        · subst hk
          have : i + 1 - (0 + 1) ≤ i ∧ i ≤ i := by omega
          rw [if_pos this, Array.getElem?_set, if_pos rfl, Array.getElem?_eq_getElem hs]
        · have : ¬ (i + 1 - (0 + 1) ≤ k ∧ k ≤ i) := by omega
          rw [if_neg this, Array.getElem?_set, if_neg hk]
    · obtain ⟨fb', h1, h2, h3⟩ := ih (fb.set i fb[src i] hi) (i-1) (by simp; omega) (by omega) (by
        intro k hk1 hk2
        have := hsrc k (by omega) (by omega)
        simp only [Array.size_set]
        omega)
      refine ⟨fb', ?_, ?_, ?_⟩
      · simp [copyDesc, Array.getElem?_eq_getElem hs, put_eq hi, h1]
      · simpa using h2
      · intro k
        rw [h3]
        by_cases hk : i - 1 + 1 - n ≤ k ∧ k ≤ i - 1
        · have hk' : i + 1 - (n + 1) ≤ k ∧ k ≤ i := by omega
          have := hsrc k (by omega) (by omega)
          have hne : ¬ i = src k := by omega
          rw [if_pos hk, if_pos hk', Array.getElem?_set, if_neg hne]
        · by_cases hk2 : i = k
          · have hk' : i + 1 - (n + 1) ≤ k ∧ k ≤ i := by omega
            subst hk2
            rw [if_neg hk, if_pos hk', Array.getElem?_set, if_pos rfl, Array.getElem?_eq_getElem hs]
          · have hk' : ¬ (i + 1 - (n + 1) ≤ k ∧ k ≤ i) := by omega
            rw [if_neg hk, if_neg hk', Array.getElem?_set, if_neg hk2]


/-! ## rows and columns -/

theorem row_range {pitch R c0 len i : Nat} (h : c0 + len ≤ pitch) :
    (R * pitch + c0 ≤ i ∧ i < R * pitch + c0 + len) ↔
      (i / pitch = R ∧ c0 ≤ i % pitch ∧ i % pitch < c0 + len) := by
  have hdm := Nat.div_add_mod i pitch
  constructor
  · intro ⟨h1, h2⟩
    have hp : 0 < pitch := by omega
    have hq : i / pitch = R := by
      apply Nat.div_eq_of_lt_le
      · omega
      · rw [Nat.succ_mul]; omega
    rw [hq, Nat.mul_comm] at hdm
    omega
  · intro ⟨h1, h2, h3⟩
    rw [h1, Nat.mul_comm] at hdm
    omega

theorem div_lt_of_lt_mul {i W H : Nat} (h : i < W * H) : i / W < H :=
  (Nat.div_lt_iff_lt_mul (by
    rcases Nat.eq_zero_or_pos W with h0 | h0
    · subst h0; simp at h
    · exact h0)).2 (by rw [Nat.mul_comm] at h; exact h)

/-! ## text console -/
section Text
open Firefly.VgaText

theorem text_fillRows_spec (clr : UInt16) (W x0 w : Nat) (hw : x0 + w ≤ W) :
    ∀ (h : Nat) (fb : Array UInt16) (R : Nat), (R + h) * W ≤ fb.size → fb.size + W < 4294967296 →
    ∃ fb', fillRows clr w W fb (R * W + x0) h = some fb' ∧ fb'.size = fb.size ∧
      ∀ i, fb'[i]? = if (R ≤ i / W ∧ i / W < R + h) ∧ x0 ≤ i % W ∧ i % W < x0 + w then some clr else fb[i]? := by
  intro h
  induction h with
  | zero =>
    intro fb R _ _
    refine ⟨fb, rfl, rfl, fun i => ?_⟩
    have : ¬ ((R ≤ i / W ∧ i / W < R + 0) ∧ x0 ≤ i % W ∧ i % W < x0 + w) := by omega
    rw [if_neg this]
  | succ h ih =>
    intro fb R hsz hB
    have e1 : (R + (h + 1)) * W = R * W + h * W + W := by rw [Nat.add_mul, Nat.succ_mul]; omega
    have e2 : (R + 1 + h) * W = R * W + h * W + W := by rw [Nat.add_mul, Nat.add_mul]; omega
    have e3 : (R + 1) * W = R * W + W := by rw [Nat.add_mul]; omega
    have hcnt : add32 (R * W + x0) w - (R * W + x0) = w := by unfold add32; omega
    obtain ⟨fb1, g1, g2, g3⟩ := fillRange_spec clr w fb (R * W + x0) (by omega)
    have hnext : add32 (R * W + x0) W = (R + 1) * W + x0 := by unfold add32; omega
    obtain ⟨fb', k1, k2, k3⟩ := ih fb1 (R + 1) (by omega) (by omega)
    refine ⟨fb', ?_, by omega, ?_⟩
    · simp only [fillRows, hcnt, g1, hnext, k1]
    · intro i
      rw [k3, g3]
      have hr := @row_range W R x0 w i hw
      by_cases hA : (R + 1 ≤ i / W ∧ i / W < R + 1 + h) ∧ x0 ≤ i % W ∧ i % W < x0 + w
      · have hB' : (R ≤ i / W ∧ i / W < R + (h + 1)) ∧ x0 ≤ i % W ∧ i % W < x0 + w := by omega
        rw [if_pos hA, if_pos hB']
      · rw [if_neg hA]
        by_cases hC : R * W + x0 ≤ i ∧ i < R * W + x0 + w
        · have := hr.1 hC
          have hB' : (R ≤ i / W ∧ i / W < R + (h + 1)) ∧ x0 ≤ i % W ∧ i % W < x0 + w := by omega
          rw [if_pos hC, if_pos hB']
        · have hB' : ¬ ((R ≤ i / W ∧ i / W < R + (h + 1)) ∧ x0 ≤ i % W ∧ i % W < x0 + w) := by
            intro hh
            apply hC
            apply hr.2
            omega
          rw [if_neg hC, if_neg hB']

end Text

end Firefly.ConsoleProof
