import Firefly.Spec.Console
/-!
Lemmas for C19: what the checked-access loops of `Model/FbMem.lean` compute, as pointwise facts
about `fb[i]?`, and the division/remainder facts that connect linear framebuffer offsets with
(row, column) coordinates.
-/
namespace Firefly.ConsoleProof
open Firefly.FbMem

theorem put_eq {fb : Array α} {i : Nat} {v : α} (h : i < fb.size) :
    put fb i v = some (fb.set i v h) := by simp [put, h]

theorem fillRange_spec (v : α) : ∀ (n : Nat) (fb : Array α) (s : Nat), s + n ≤ fb.size →
    ∃ fb', fillRange v fb s n = some fb' ∧ fb'.size = fb.size ∧
      ∀ i, fb'[i]? = if s ≤ i ∧ i < s + n then some v else fb[i]? := by
  intro n
  induction n with
  | zero =>
    intro fb s _
    refine ⟨fb, rfl, rfl, fun i => ?_⟩
    have : ¬ (s ≤ i ∧ i < s + 0) := by omega
    rw [if_neg this]
  | succ n ih =>
    intro fb s h
    have hs : s < fb.size := by omega
    obtain ⟨fb', h1, h2, h3⟩ := ih (fb.set s v hs) (s+1) (by simp; omega)
    refine ⟨fb', ?_, ?_, ?_⟩
    · simp [fillRange, put_eq hs, h1]
    · simpa using h2
    · intro i
      rw [h3, Array.getElem?_set]
      by_cases h1 : s + 1 ≤ i ∧ i < s + 1 + n
      · have : s ≤ i ∧ i < s + (n + 1) := by omega
        rw [if_pos h1, if_pos this]
      · by_cases h2 : s = i
        · have : s ≤ i ∧ i < s + (n + 1) := by omega
          rw [if_neg h1, if_pos h2, if_pos this]
        · have : ¬ (s ≤ i ∧ i < s + (n + 1)) := by omega
          rw [if_neg h1, if_neg h2, if_neg this]

theorem copyAsc_spec (src : Nat → Nat) : ∀ (n : Nat) (fb : Array α) (i : Nat),
    i + n ≤ fb.size →
    (∀ k, i ≤ k → k < i + n → src k < fb.size ∧ (src k < i ∨ k ≤ src k)) →
    ∃ fb', copyAsc src fb i n = some fb' ∧ fb'.size = fb.size ∧
      ∀ k, fb'[k]? = if i ≤ k ∧ k < i + n then fb[src k]? else fb[k]? := by
  intro n
  induction n with
  | zero =>
    intro fb i _ _
    refine ⟨fb, rfl, rfl, fun k => ?_⟩
    have : ¬ (i ≤ k ∧ k < i + 0) := by omega
    rw [if_neg this]
  | succ n ih =>
    intro fb i h hsrc
    have hi : i < fb.size := by omega
    have hs := (hsrc i (Nat.le_refl _) (by omega)).1
    obtain ⟨fb', h1, h2, h3⟩ := ih (fb.set i fb[src i] hi) (i+1) (by simp; omega) (by
      intro k hk1 hk2
      have := hsrc k (by omega) (by omega)
      simp only [Array.size_set]
      omega)
    refine ⟨fb', ?_, ?_, ?_⟩
    · simp [copyAsc, Array.getElem?_eq_getElem hs, put_eq hi, h1]
    · simpa using h2
    · intro k
      rw [h3]
      by_cases hk : i + 1 ≤ k ∧ k < i + 1 + n
      · have hk' : i ≤ k ∧ k < i + (n + 1) := by omega
        have := hsrc k (by omega) (by omega)
        have hne : ¬ i = src k := by omega
        rw [if_pos hk, if_pos hk', Array.getElem?_set, if_neg hne]
      · by_cases hk2 : i = k
        · have hk' : i ≤ k ∧ k < i + (n + 1) := by omega
          subst hk2
          rw [if_neg hk, if_pos hk', Array.getElem?_set, if_pos rfl, Array.getElem?_eq_getElem hs]
        · have hk' : ¬ (i ≤ k ∧ k < i + (n + 1)) := by omega
          rw [if_neg hk, if_neg hk', Array.getElem?_set, if_neg hk2]

theorem copyDesc_spec (src : Nat → Nat) : ∀ (n : Nat) (fb : Array α) (i : Nat),
    i < fb.size → n ≤ i + 1 →
    (∀ k, i + 1 - n ≤ k → k ≤ i → src k < fb.size ∧ (src k ≤ k ∨ i < src k)) →
    ∃ fb', copyDesc src fb i n = some fb' ∧ fb'.size = fb.size ∧
      ∀ k, fb'[k]? = if i + 1 - n ≤ k ∧ k ≤ i then fb[src k]? else fb[k]? := by
  intro n
  induction n with
  | zero =>
    intro fb i _ _ _
    refine ⟨fb, rfl, rfl, fun k => ?_⟩
    have : ¬ (i + 1 - 0 ≤ k ∧ k ≤ i) := by omega
    rw [if_neg this]
  | succ n ih =>
    intro fb i hi hn hsrc
    have hs := (hsrc i (by omega) (Nat.le_refl _)).1
    by_cases hn0 : n = 0
    · subst hn0
      refine ⟨fb.set i fb[src i] hi, ?_, by simp, ?_⟩
      · simp [copyDesc, Array.getElem?_eq_getElem hs, put_eq hi]
      · intro k
        by_cases hk : i = k
        · subst hk
          have : i + 1 - (0 + 1) ≤ i ∧ i ≤ i := by omega
          rw [if_pos this, Array.getElem?_set, if_pos rfl, Array.getElem?_eq_getElem hs]
        · have : ¬ (i + 1 - (0 + 1) ≤ k ∧ k ≤ i) := by omega
          rw [if_neg this, Array.getElem?_set, if_neg hk]
    · obtain ⟨fb', h1, h2, h3⟩ := ih (fb.set i fb[src i] hi) (i-1) (by simp; omega) (by omega) (by
        intro k hk1 hk2
        have := hsrc k (by omega) (by omega)
        simp only [Array.size_set]
        omega)
      refine ⟨fb', ?_, ?_, ?_⟩
      · simp [copyDesc, Array.getElem?_eq_getElem hs, put_eq hi, h1]
      · simpa using h2
      · intro k
        rw [h3]
        by_cases hk : i - 1 + 1 - n ≤ k ∧ k ≤ i - 1
        · have hk' : i + 1 - (n + 1) ≤ k ∧ k ≤ i := by omega
          have := hsrc k (by omega) (by omega)
          have hne : ¬ i = src k := by omega
          rw [if_pos hk, if_pos hk', Array.getElem?_set, if_neg hne]
        · by_cases hk2 : i = k
          · have hk' : i + 1 - (n + 1) ≤ k ∧ k ≤ i := by omega
            subst hk2
            rw [if_neg hk, if_pos hk', Array.getElem?_set, if_pos rfl, Array.getElem?_eq_getElem hs]
          · have hk' : ¬ (i + 1 - (n + 1) ≤ k ∧ k ≤ i) := by omega
            rw [if_neg hk, if_neg hk', Array.getElem?_set, if_neg hk2]


/-! ## rows and columns -/

theorem row_range {pitch R c0 len i : Nat} (h : c0 + len ≤ pitch) :
    (R * pitch + c0 ≤ i ∧ i < R * pitch + c0 + len) ↔
      (i / pitch = R ∧ c0 ≤ i % pitch ∧ i % pitch < c0 + len) := by
  have hdm := Nat.div_add_mod i pitch
  constructor
  · intro ⟨h1, h2⟩
    have hp : 0 < pitch := by omega
    have hq : i / pitch = R := by
      apply Nat.div_eq_of_lt_le
      · omega
      · rw [Nat.succ_mul]; omega
    rw [hq, Nat.mul_comm] at hdm
    omega
  · intro ⟨h1, h2, h3⟩
    rw [h1, Nat.mul_comm] at hdm
    omega

theorem div_lt_of_lt_mul {i W H : Nat} (h : i < W * H) : i / W < H :=
  (Nat.div_lt_iff_lt_mul (by
    rcases Nat.eq_zero_or_pos W with h0 | h0
    · subst h0; simp at h
    · exact h0)).2 (by rw [Nat.mul_comm] at h; exact h)

/-! ## pixels -/

theorem putPixel_spec : ∀ (comp : List α) (fb : Array α) (off : Nat),
    off + comp.length ≤ fb.size → fb.size < 4294967296 →
    ∃ fb', putPixel fb off comp = some fb' ∧ fb'.size = fb.size ∧
      ∀ k, fb'[k]? = if off ≤ k ∧ k < off + comp.length then comp[k - off]? else fb[k]? := by
  intro comp
  induction comp with
  | nil =>
    intro fb off _ _
    refine ⟨fb, rfl, rfl, fun k => ?_⟩
    have : ¬ (off ≤ k ∧ k < off + ([] : List α).length) := by simp only [List.length_nil]; omega
    rw [if_neg this]
  | cons c cs ih =>
    intro fb off h hsz
    simp only [List.length_cons] at h
    have ho : off < fb.size := by omega
    have hnext : add32 off 1 = off + 1 := by unfold add32; omega
    obtain ⟨fb', h1, h2, h3⟩ := ih (fb.set off c ho) (off + 1) (by simp; omega) (by simpa using hsz)
    refine ⟨fb', ?_, by simpa using h2, fun k => ?_⟩
    · simp only [putPixel, put_eq ho, hnext, h1]
    · rw [h3]
      simp only [List.length_cons]
      by_cases hA : off + 1 ≤ k ∧ k < off + 1 + cs.length
      · have hB : off ≤ k ∧ k < off + (cs.length + 1) := by omega
        rw [if_pos hA, if_pos hB]
        have : k - off = (k - (off + 1)) + 1 := by omega
        rw [this, List.getElem?_cons_succ]
      · rw [if_neg hA, Array.getElem?_set]
        by_cases hk : off = k
        · have hB : off ≤ k ∧ k < off + (cs.length + 1) := by omega
          rw [if_pos hk, if_pos hB]
          have : k - off = 0 := by omega
          rw [this]; rfl
        · have hB : ¬ (off ≤ k ∧ k < off + (cs.length + 1)) := by omega
          rw [if_neg hk, if_neg hB]

/-- proof-side generalisation of `pixRow`: pixel `x` of the row gets the bytes `colorAt x` -/
def pixRowF (colorAt : Nat → List α) (step : Nat) : (n : Nat) → (fb : Array α) → (off x : Nat) → Option (Array α)
  | 0, fb, _, _ => some fb
  | n+1, fb, off, x =>
    match putPixel fb off (colorAt x) with
    | none => none
    | some fb' => pixRowF colorAt step n fb' (add32 off step) (x+1)

theorem pixRow_eq (comp : List α) (step : Nat) : ∀ (n : Nat) (fb : Array α) (off x : Nat),
    pixRow comp step fb off n = pixRowF (fun _ => comp) step n fb off x := by
  intro n
  induction n with
  | zero => intros; rfl
  | succ n ih =>
    intro fb off x
    simp only [pixRow, pixRowF]
    cases putPixel fb off comp with
    | none => rfl
    | some fb' => exact ih fb' _ _

theorem pixRowF_spec (colorAt : Nat → List α) (step len : Nat) (hlen : ∀ x, (colorAt x).length = len)
    (hstep : len ≤ step) (hpos : 0 < step) :
    ∀ (n : Nat) (fb : Array α) (off x : Nat), off + n * step ≤ fb.size → fb.size + step < 4294967296 →
    ∃ fb', pixRowF colorAt step n fb off x = some fb' ∧ fb'.size = fb.size ∧
      ∀ k, fb'[k]? = if off ≤ k ∧ k < off + n * step ∧ (k - off) % step < len
                     then (colorAt (x + (k - off) / step))[(k - off) % step]? else fb[k]? := by
  intro n
  induction n with
  | zero =>
    intro fb off x _ _
    refine ⟨fb, rfl, rfl, fun k => ?_⟩
    have : ¬ (off ≤ k ∧ k < off + 0 * step ∧ (k - off) % step < len) := by omega
    rw [if_neg this]
  | succ n ih =>
    intro fb off x h hsz
    have e1 : (n + 1) * step = n * step + step := Nat.succ_mul n step
    obtain ⟨fb1, g1, g2, g3⟩ := putPixel_spec (colorAt x) fb off (by rw [hlen]; omega) (by omega)
    have hnext : add32 off step = off + step := by unfold add32; omega
    obtain ⟨fb', k1, k2, k3⟩ := ih fb1 (off + step) (x + 1) (by omega) (by omega)
    refine ⟨fb', ?_, by omega, fun k => ?_⟩
    · simp only [pixRowF, g1, hnext, k1]
    · rw [k3, g3, hlen]
      by_cases hk : off + step ≤ k
      · -- a later pixel
        have hsub : k - off = (k - (off + step)) + step := by omega
        have hm : (k - off) % step = (k - (off + step)) % step := by rw [hsub, Nat.add_mod_right]
        have hd : (k - off) / step = (k - (off + step)) / step + 1 := by rw [hsub, Nat.add_div_right _ hpos]
        have hnot : ¬ (off ≤ k ∧ k < off + len) := by omega
        by_cases hA : off + step ≤ k ∧ k < off + step + n * step ∧ (k - (off + step)) % step < len
        · have hB : off ≤ k ∧ k < off + (n + 1) * step ∧ (k - off) % step < len := by omega
          rw [if_pos hA, if_pos hB, hm, hd]
          have : x + 1 + (k - (off + step)) / step = x + ((k - (off + step)) / step + 1) := by omega
          rw [this]
        · have hB : ¬ (off ≤ k ∧ k < off + (n + 1) * step ∧ (k - off) % step < len) := by omega
          rw [if_neg hA, if_neg hB, if_neg hnot]
      · have hA : ¬ (off + step ≤ k ∧ k < off + step + n * step ∧ (k - (off + step)) % step < len) := by omega
        rw [if_neg hA]
        by_cases hC : off ≤ k ∧ k < off + len
        · have hm : (k - off) % step = k - off := Nat.mod_eq_of_lt (by omega)
          have hd : (k - off) / step = 0 := Nat.div_eq_of_lt (by omega)
          have hB : off ≤ k ∧ k < off + (n + 1) * step ∧ (k - off) % step < len := by omega
          rw [if_pos hC, if_pos hB, hm, hd, Nat.add_zero]
        · have hB : ¬ (off ≤ k ∧ k < off + (n + 1) * step ∧ (k - off) % step < len) := by
            intro ⟨b1, b2, b3⟩
            have hm : (k - off) % step = k - off := Nat.mod_eq_of_lt (by omega)
            omega
          rw [if_neg hC, if_neg hB]

/-- proof-side generalisation of the row loops: pixel `(px, py)` gets `colorAt px py` -/
def rowsF (colorAt : Nat → Nat → List α) (step pitch n : Nat) : (h : Nat) → (fb : Array α) → (rowOff py : Nat) → Option (Array α)
  | 0, fb, _, _ => some fb
  | h+1, fb, rowOff, py =>
    match pixRowF (fun x => colorAt x py) step n fb rowOff 0 with
    | none => none
    | some fb' => rowsF colorAt step pitch n h fb' (add32 rowOff pitch) (py+1)

theorem rowsF_spec (colorAt : Nat → Nat → List α) (step len pitch n c0 : Nat)
    (hlen : ∀ x y, (colorAt x y).length = len) (hstep : len ≤ step) (hpos : 0 < step)
    (hrow : c0 + n * step ≤ pitch) :
    ∀ (h : Nat) (fb : Array α) (R py : Nat), (R + h) * pitch ≤ fb.size → fb.size + pitch + step < 4294967296 →
    ∃ fb', rowsF colorAt step pitch n h fb (R * pitch + c0) py = some fb' ∧ fb'.size = fb.size ∧
      ∀ i, fb'[i]? =
        if (R ≤ i / pitch ∧ i / pitch < R + h) ∧ c0 ≤ i % pitch ∧ i % pitch < c0 + n * step ∧ (i % pitch - c0) % step < len
        then (colorAt ((i % pitch - c0) / step) (py + (i / pitch - R)))[(i % pitch - c0) % step]? else fb[i]? := by
  intro h
  induction h with
  | zero =>
    intro fb R py _ _
    refine ⟨fb, rfl, rfl, fun i => ?_⟩
    have : ¬ ((R ≤ i / pitch ∧ i / pitch < R + 0) ∧ c0 ≤ i % pitch ∧ i % pitch < c0 + n * step ∧ (i % pitch - c0) % step < len) := by omega
    rw [if_neg this]
  | succ h ih =>
    intro fb R py hsz hB
    have e1 : (R + (h + 1)) * pitch = R * pitch + h * pitch + pitch := by rw [Nat.add_mul, Nat.succ_mul]; omega
    have e2 : (R + 1 + h) * pitch = R * pitch + h * pitch + pitch := by rw [Nat.add_mul, Nat.add_mul]; omega
    have e3 : (R + 1) * pitch = R * pitch + pitch := by rw [Nat.add_mul]; omega
    obtain ⟨fb1, g1, g2, g3⟩ := pixRowF_spec (fun x => colorAt x py) step len (fun x => hlen x py) hstep hpos n fb
      (R * pitch + c0) 0 (by omega) (by omega)
    have hnext : add32 (R * pitch + c0) pitch = (R + 1) * pitch + c0 := by unfold add32; omega
    obtain ⟨fb', k1, k2, k3⟩ := ih fb1 (R + 1) (py + 1) (by omega) (by omega)
    refine ⟨fb', ?_, by omega, fun i => ?_⟩
    · simp only [rowsF, g1, hnext, k1]
    · rw [k3, g3]
      have hr := @row_range pitch R c0 (n * step) i hrow
      by_cases hA : (R + 1 ≤ i / pitch ∧ i / pitch < R + 1 + h) ∧ c0 ≤ i % pitch ∧ i % pitch < c0 + n * step ∧ (i % pitch - c0) % step < len
      · have hB' : (R ≤ i / pitch ∧ i / pitch < R + (h + 1)) ∧ c0 ≤ i % pitch ∧ i % pitch < c0 + n * step ∧ (i % pitch - c0) % step < len := by omega
        rw [if_pos hA, if_pos hB']
        have : py + 1 + (i / pitch - (R + 1)) = py + (i / pitch - R) := by omega
        rw [this]
      · rw [if_neg hA]
        by_cases hC : R * pitch + c0 ≤ i ∧ i < R * pitch + c0 + n * step
        · have hq := hr.1 hC
          have hdm := Nat.div_add_mod i pitch
          rw [hq.1, Nat.mul_comm] at hdm
          have hsub : i - (R * pitch + c0) = i % pitch - c0 := by omega
          by_cases hD : (i % pitch - c0) % step < len
          · have hB' : (R ≤ i / pitch ∧ i / pitch < R + (h + 1)) ∧ c0 ≤ i % pitch ∧ i % pitch < c0 + n * step ∧ (i % pitch - c0) % step < len := by omega
            have hC' : R * pitch + c0 ≤ i ∧ i < R * pitch + c0 + n * step ∧ (i - (R * pitch + c0)) % step < len := by
              rw [hsub]; omega
            rw [if_pos hC', if_pos hB', hsub]
            have : py + (i / pitch - R) = py := by omega
            rw [this, Nat.zero_add]
          · have hB' : ¬ ((R ≤ i / pitch ∧ i / pitch < R + (h + 1)) ∧ c0 ≤ i % pitch ∧ i % pitch < c0 + n * step ∧ (i % pitch - c0) % step < len) := by omega
            have hC' : ¬ (R * pitch + c0 ≤ i ∧ i < R * pitch + c0 + n * step ∧ (i - (R * pitch + c0)) % step < len) := by
              rw [hsub]; omega
            rw [if_neg hC', if_neg hB']
        · have hB' : ¬ ((R ≤ i / pitch ∧ i / pitch < R + (h + 1)) ∧ c0 ≤ i % pitch ∧ i % pitch < c0 + n * step ∧ (i % pitch - c0) % step < len) := by
            intro hh
            apply hC
            apply hr.2
            omega
          have hC' : ¬ (R * pitch + c0 ≤ i ∧ i < R * pitch + c0 + n * step ∧ (i - (R * pitch + c0)) % step < len) := by
            intro hh; exact hC ⟨hh.1, hh.2.1⟩
          rw [if_neg hC', if_neg hB']

theorem col_range {bpp px0 n b : Nat} (hb : 0 < bpp) :
    ((px0 * bpp ≤ b ∧ b < px0 * bpp + n * bpp) ↔ (px0 ≤ b / bpp ∧ b / bpp < px0 + n)) ∧
    (px0 * bpp ≤ b → (b - px0 * bpp) % bpp = b % bpp ∧ (b - px0 * bpp) / bpp = b / bpp - px0) := by
  constructor
  · rw [← Nat.add_mul, Nat.le_div_iff_mul_le hb, Nat.div_lt_iff_lt_mul hb]
  · intro h
    have e : b = (b - px0 * bpp) + px0 * bpp := by omega
    constructor
    · conv => rhs; rw [e, Nat.add_mul_mod_self_right]
    · have : b / bpp = (b - px0 * bpp) / bpp + px0 := by
        conv => lhs; rw [e, Nat.add_mul_div_right _ _ hb]
      clear e
      generalize (b - px0 * bpp) / bpp = q at this ⊢
      generalize b / bpp = q' at this ⊢
      omega

open Firefly.VesaFb in
/-- the loop-shaped description produced by `rowsF_spec` is the `paint` specification -/
theorem paint_bridge (c : Cons) (fb : Array UInt8) (len px0 n R h : Nat) (color : Nat → Nat → List UInt8)
    (hlen : ∀ x y, (color x y).length = len) (hbpp : 0 < c.bytesPerPixel) (i : Nat) :
    (if (R ≤ i / c.pitch ∧ i / c.pitch < R + h) ∧ px0 * c.bytesPerPixel ≤ i % c.pitch ∧
          i % c.pitch < px0 * c.bytesPerPixel + n * c.bytesPerPixel ∧
          (i % c.pitch - px0 * c.bytesPerPixel) % c.bytesPerPixel < len
      then (color ((i % c.pitch - px0 * c.bytesPerPixel) / c.bytesPerPixel) (0 + (i / c.pitch - R)))[(i % c.pitch - px0 * c.bytesPerPixel) % c.bytesPerPixel]?
      else fb[i]?).getD 0 =
    Firefly.Spec.Console.paint c (fun j => fb.getD j 0) px0 (px0 + n) R (R + h) color i := by
  have hc := @col_range c.bytesPerPixel px0 n (i % c.pitch) hbpp
  simp only [Firefly.Spec.Console.paint, Nat.zero_add]
  by_cases hrect : R ≤ i / c.pitch ∧ i / c.pitch < R + h ∧ px0 ≤ i % c.pitch / c.bytesPerPixel ∧ i % c.pitch / c.bytesPerPixel < px0 + n
  · have h1 := hc.1.2 ⟨hrect.2.2.1, hrect.2.2.2⟩
    have h2 := hc.2 h1.1
    rw [if_pos hrect, h2.1, h2.2]
    by_cases hk : i % c.pitch % c.bytesPerPixel < len
    · rw [if_pos ⟨⟨hrect.1, hrect.2.1⟩, h1.1, h1.2, hk⟩]
      have hk' : i % c.pitch % c.bytesPerPixel < (color (i % c.pitch / c.bytesPerPixel - px0) (i / c.pitch - R)).length := by
        rw [hlen]; exact hk
      rw [List.getElem?_eq_getElem hk']
      rfl
    · rw [if_neg (by intro hh; exact hk hh.2.2.2)]
      have hk' : (color (i % c.pitch / c.bytesPerPixel - px0) (i / c.pitch - R)).length ≤ i % c.pitch % c.bytesPerPixel := by
        rw [hlen]; omega
      rw [List.getElem?_eq_none hk', Array.getD_eq_getD_getElem?]
  · rw [if_neg hrect, if_neg (by
      intro hh
      apply hrect
      have := hc.1.1 ⟨hh.2.1, hh.2.2.1⟩
      exact ⟨hh.1.1, hh.1.2, this.1, this.2⟩), Array.getD_eq_getD_getElem?]

open Firefly.VesaFb in
theorem vesa_fillRows_eq (comp : List UInt8) (step pitch n c0 : Nat) (hpos : 0 < step) (hlen : comp.length ≤ step)
    (hrow : c0 + n * step ≤ pitch) :
    ∀ (h : Nat) (fb : Array UInt8) (R py : Nat), (R + h) * pitch ≤ fb.size → fb.size + pitch + step < 4294967296 →
      fillRows comp step pitch (n * step) fb (R * pitch + c0) h
        = rowsF (fun _ _ => comp) step pitch n h fb (R * pitch + c0) py := by
  intro h
  induction h with
  | zero => intros; rfl
  | succ h ih =>
    intro fb R py hsz hB
    have e1 : (R + (h + 1)) * pitch = R * pitch + h * pitch + pitch := by rw [Nat.add_mul, Nat.succ_mul]; omega
    have e2 : (R + 1 + h) * pitch = R * pitch + h * pitch + pitch := by rw [Nat.add_mul, Nat.add_mul]; omega
    have hcnt : (add32 (R * pitch + c0) (n * step) - (R * pitch + c0) + (step - 1)) / step = n := by
      have : add32 (R * pitch + c0) (n * step) - (R * pitch + c0) = n * step := by unfold add32; omega
      rw [this]
      have : n * step + (step - 1) = (step - 1) + n * step := by omega
      rw [this, Nat.add_mul_div_right _ _ hpos, Nat.div_eq_of_lt (by omega)]; omega
    have hnext : add32 (R * pitch + c0) pitch = (R + 1) * pitch + c0 := by
      unfold add32; rw [Nat.add_mul]; omega
    simp only [fillRows, rowsF, hcnt, pixRow_eq comp step n fb _ 0]
    cases hp : pixRowF (fun _ => comp) step n fb (R * pitch + c0) 0 with
    | none => rfl
    | some fb' =>
      have hsz' : fb'.size = fb.size := by
        obtain ⟨fb1, g1, g2, _⟩ := pixRowF_spec (fun _ => comp) step comp.length (fun _ => rfl) hlen
          hpos n fb (R * pitch + c0) 0 (by omega) (by omega)
        rw [hp] at g1; cases g1; exact g2
      simp only [hnext]
      exact ih fb' (R + 1) (py + 1) (by omega) (by omega)

/-! ## row-wise scrolling -/
section Scroll
open Firefly.VesaFb

theorem scrollRowsUp_spec (offset rowBytes pitch : Nat) (hrb : rowBytes ≤ pitch) :
    ∀ (n : Nat) (fb : Array UInt8) (R : Nat), (R + n) * pitch + offset ≤ fb.size → fb.size + pitch < 4294967296 →
    ∃ fb', scrollRowsUp offset rowBytes pitch fb (R * pitch) n = some fb' ∧ fb'.size = fb.size ∧
      ∀ i, fb'[i]? = if (R ≤ i / pitch ∧ i / pitch < R + n) ∧ i % pitch < rowBytes then fb[i + offset]? else fb[i]? := by
  intro n
  induction n with
  | zero =>
    intro fb R _ _
    refine ⟨fb, rfl, rfl, fun i => ?_⟩
    have : ¬ ((R ≤ i / pitch ∧ i / pitch < R + 0) ∧ i % pitch < rowBytes) := by omega
    rw [if_neg this]
  | succ n ih =>
    intro fb R hsz hB
    have e1 : (R + (n + 1)) * pitch = R * pitch + n * pitch + pitch := by rw [Nat.add_mul, Nat.succ_mul]; omega
    have e2 : (R + 1 + n) * pitch = R * pitch + n * pitch + pitch := by rw [Nat.add_mul, Nat.add_mul]; omega
    have e3 : (R + 1) * pitch = R * pitch + pitch := by rw [Nat.add_mul]; omega
    have hcnt : add32 (R * pitch) rowBytes - R * pitch = rowBytes := by unfold add32; omega
    obtain ⟨fb1, g1, g2, g3⟩ := copyAsc_spec (fun i => add32 i offset) rowBytes fb (R * pitch) (by omega)
      (by intro k hk1 hk2; simp only [add32]; omega)
    have hnext : add32 (R * pitch) pitch = (R + 1) * pitch := by unfold add32; omega
    obtain ⟨fb', k1, k2, k3⟩ := ih fb1 (R + 1) (by omega) (by omega)
    refine ⟨fb', ?_, by omega, fun i => ?_⟩
    · simp only [scrollRowsUp, hcnt, g1, hnext, k1]
    · rw [k3]
      have hr := @row_range pitch R 0 rowBytes i (by omega)
      have hr' := @row_range pitch R 0 rowBytes (i + offset) (by omega)
      by_cases hA : (R + 1 ≤ i / pitch ∧ i / pitch < R + 1 + n) ∧ i % pitch < rowBytes
      · have hB' : (R ≤ i / pitch ∧ i / pitch < R + (n + 1)) ∧ i % pitch < rowBytes := by omega
        rw [if_pos hA, if_pos hB', g3]
        -- the source lies below row R: not touched by the first row copy
        have hge : (R + 1) * pitch ≤ i := by
          have hdm := Nat.div_add_mod i pitch
          have h2 : (R + 1) * pitch ≤ (i / pitch) * pitch := Nat.mul_le_mul_right pitch hA.1.1
          rw [Nat.mul_comm pitch (i / pitch)] at hdm
          omega
        rw [if_neg (by omega)]
      · rw [if_neg hA, g3]
        by_cases hC : R * pitch ≤ i ∧ i < R * pitch + rowBytes
        · have hq := hr.1 (by omega)
          have hB' : (R ≤ i / pitch ∧ i / pitch < R + (n + 1)) ∧ i % pitch < rowBytes := by omega
          rw [if_pos hC, if_pos hB']
          have : add32 i offset = i + offset := by unfold add32; omega
          rw [this]
        · have hB' : ¬ ((R ≤ i / pitch ∧ i / pitch < R + (n + 1)) ∧ i % pitch < rowBytes) := by
            intro hh
            apply hC
            have := hr.2 (by omega)
            omega
          rw [if_neg hC, if_neg hB']

theorem scrollRowsDown_spec (offset rowBytes pitch : Nat) (hrb : rowBytes ≤ pitch) (hoff : pitch ≤ offset) (hp : 0 < pitch) :
    ∀ (n : Nat) (fb : Array UInt8) (R : Nat), (R + n) * pitch ≤ fb.size → offset ≤ R * pitch → fb.size + pitch < 4294967296 →
    ∃ fb', scrollRowsDown offset rowBytes pitch fb ((R + n) * pitch) n = some fb' ∧ fb'.size = fb.size ∧
      ∀ i, fb'[i]? = if (R ≤ i / pitch ∧ i / pitch < R + n) ∧ i % pitch < rowBytes then fb[i - offset]? else fb[i]? := by
  intro n
  induction n with
  | zero =>
    intro fb R _ _ _
    refine ⟨fb, rfl, rfl, fun i => ?_⟩
    have : ¬ ((R ≤ i / pitch ∧ i / pitch < R + 0) ∧ i % pitch < rowBytes) := by omega
    rw [if_neg this]
  | succ n ih =>
    intro fb R hsz hR hB
    have e1 : (R + (n + 1)) * pitch = (R + n) * pitch + pitch := by rw [← Nat.add_assoc, Nat.succ_mul]
    have e2 : (R + n) * pitch = R * pitch + n * pitch := Nat.add_mul _ _ _
    have hs : sub32 ((R + (n + 1)) * pitch) pitch = (R + n) * pitch := by unfold sub32; omega
    have hcnt : add32 ((R + n) * pitch) rowBytes - (R + n) * pitch = rowBytes := by unfold add32; omega
    obtain ⟨fb1, g1, g2, g3⟩ := copyAsc_spec (fun i => sub32 i offset) rowBytes fb ((R + n) * pitch) (by omega)
      (by intro k hk1 hk2; simp only [sub32]; omega)
    obtain ⟨fb', k1, k2, k3⟩ := ih fb1 R (by omega) hR (by omega)
    refine ⟨fb', ?_, by omega, fun i => ?_⟩
    · simp only [scrollRowsDown, hs, hcnt, g1, k1]
    · rw [k3]
      have hr := @row_range pitch (R + n) 0 rowBytes i (by omega)
      by_cases hA : (R ≤ i / pitch ∧ i / pitch < R + n) ∧ i % pitch < rowBytes
      · have hB' : (R ≤ i / pitch ∧ i / pitch < R + (n + 1)) ∧ i % pitch < rowBytes := by omega
        rw [if_pos hA, if_pos hB', g3]
        have hlt : i < (R + n) * pitch := by
          have hdm := Nat.div_add_mod i pitch
          have hm := Nat.mod_lt i hp
          have h2 : (i / pitch + 1) * pitch ≤ (R + n) * pitch := Nat.mul_le_mul_right pitch (show i / pitch + 1 ≤ R + n by omega)
          rw [Nat.add_mul, Nat.one_mul] at h2
          rw [Nat.mul_comm pitch (i / pitch)] at hdm
          omega
        rw [if_neg (by omega)]
      · rw [if_neg hA, g3]
        by_cases hC : (R + n) * pitch ≤ i ∧ i < (R + n) * pitch + rowBytes
        · have hq := hr.1 (by omega)
          have hB' : (R ≤ i / pitch ∧ i / pitch < R + (n + 1)) ∧ i % pitch < rowBytes := by omega
          rw [if_pos hC, if_pos hB']
          have : sub32 i offset = i - offset := by unfold sub32; omega
          rw [this]
        · have hB' : ¬ ((R ≤ i / pitch ∧ i / pitch < R + (n + 1)) ∧ i % pitch < rowBytes) := by
            intro hh
            apply hC
            have := hr.2 (by omega)
            omega
          rw [if_neg hC, if_neg hB']

theorem rows_count {A B pitch : Nat} (hp : 0 < pitch) (h : B ≤ A) :
    (A * pitch - B * pitch + (pitch - 1)) / pitch = A - B := by
  rw [← Nat.sub_mul]
  have : (A - B) * pitch + (pitch - 1) = (pitch - 1) + (A - B) * pitch := by omega
  rw [this, Nat.add_mul_div_right _ _ hp, Nat.div_eq_of_lt (by omega)]; omega

end Scroll

/-! ## the glyph walk of `write8/16/24` -/
section Glyph
open Firefly.VesaFb

set_option maxRecDepth 100000 in
theorem bit_iff : ∀ j : Fin 8, ∀ rd : Fin 256,
    ((rd.val &&& (128 >>> j.val)) ≠ 0) = ((rd.val >>> (7 - j.val)) % 2 = 1) := by decide

theorem mask_ne : ∀ j : Fin 8, 128 >>> j.val ≠ 0 := by decide

/-- state of the walk at the head of the pixel loop, before pixel `x` of a glyph row whose first
font byte is `rowBase`: after 8 pixels the mask has run out and the font offset still points at
the previous byte; otherwise the mask selects bit `7 - x%8` of byte `x/8`. -/
def GlyphInv (f : Font) (rowBase x fontOff rd mask : Nat) : Prop :=
  if x % 8 = 0 ∧ x ≠ 0 then mask = 0 ∧ fontOff + 1 = rowBase + x / 8
  else mask = 128 >>> (x % 8) ∧ fontOff = rowBase + x / 8 ∧ rd = (f.data.getD (rowBase + x / 8) 0).toNat

/-- bytes of pixel `x` of the row: foreground where the glyph bit is set -/
def glyphColor (f : Font) (fgC bgC : List UInt8) (rowBase x : Nat) : List UInt8 :=
  if ((f.data.getD (rowBase + x / 8) 0).toNat >>> (7 - x % 8)) % 2 = 1 then fgC else bgC

theorem glyphRow_eq (f : Font) (fgC bgC : List UInt8) (step rowBase : Nat) (hsz : f.data.size < 4294967296) :
    ∀ (n : Nat) (fb : Array UInt8) (fbOff fontOff rd mask x : Nat), GlyphInv f rowBase x fontOff rd mask →
      (n ≠ 0 → rowBase + (x + n - 1) / 8 < f.data.size) →
      glyphRow f fgC bgC step n fb fbOff fontOff rd mask =
        match pixRowF (glyphColor f fgC bgC rowBase) step n fb fbOff x with
        | none => none
        | some fb' => some (fb', if n = 0 then fontOff else rowBase + (x + n - 1) / 8) := by
  intro n
  induction n with
  | zero => intros; simp [glyphRow, pixRowF]
  | succ n ih =>
    intro fb fbOff fontOff rd mask x hinv hbound
    have hb : rowBase + x / 8 < f.data.size := by have := hbound (by omega); omega
    have hget : f.data[rowBase + x / 8]? = some f.data[rowBase + x / 8] := Array.getElem?_eq_getElem hb
    have hgetD : f.data.getD (rowBase + x / 8) 0 = f.data[rowBase + x / 8] := by
      rw [Array.getD_eq_getD_getElem?, hget]; rfl
    -- the state after the `if mask == 0` step
    have hst : (if mask = 0 then (f.data[add32 fontOff 1]?).map (fun d => (add32 fontOff 1, d.toNat, 128))
        else some (fontOff, rd, mask)) =
        some (rowBase + x / 8, (f.data[rowBase + x / 8]).toNat, 128 >>> (x % 8)) := by
      unfold GlyphInv at hinv
      by_cases hc : x % 8 = 0 ∧ x ≠ 0
      · rw [if_pos hc] at hinv
        have ha : add32 fontOff 1 = rowBase + x / 8 := by unfold add32; omega
        rw [if_pos hinv.1, ha, hget, hc.1]; rfl
      · rw [if_neg hc] at hinv
        have hne : mask ≠ 0 := by
          rw [hinv.1]; exact mask_ne ⟨x % 8, by omega⟩
        rw [if_neg hne, hinv.1, hinv.2.1, hinv.2.2, hgetD]
    have hcol : (if (f.data[rowBase + x / 8]).toNat &&& (128 >>> (x % 8)) ≠ 0 then fgC else bgC) =
        glyphColor f fgC bgC rowBase x := by
      unfold glyphColor
      rw [hgetD]
      have := bit_iff ⟨x % 8, by omega⟩ ⟨(f.data[rowBase + x / 8]).toNat, UInt8.toNat_lt _⟩
      simp only at this
      simp only [this]
    simp only [glyphRow, pixRowF]
    rw [hst]
    simp only [hcol]
    cases hp : putPixel fb fbOff (glyphColor f fgC bgC rowBase x) with
    | none => rfl
    | some fb' =>
      simp only []
      have hinv' : GlyphInv f rowBase (x + 1) (rowBase + x / 8) (f.data[rowBase + x / 8]).toNat (128 >>> (x % 8) >>> 1) := by
        unfold GlyphInv
        by_cases hc : (x + 1) % 8 = 0 ∧ x + 1 ≠ 0
        · rw [if_pos hc]
          have h7 : x % 8 = 7 := by omega
          rw [h7]
          exact ⟨by decide, by omega⟩
        · rw [if_neg hc]
          have h1 : (x + 1) % 8 = x % 8 + 1 := by omega
          have h2 : (x + 1) / 8 = x / 8 := by omega
          rw [h1, h2, hgetD]
          exact ⟨(Nat.shiftRight_add _ _ _).symm, rfl, rfl⟩
      rw [ih fb' (add32 fbOff step) (rowBase + x / 8) _ _ (x + 1) hinv' (by intro hn; have := hbound (by omega); omega)]
      cases pixRowF (glyphColor f fgC bgC rowBase) step n fb' (add32 fbOff step) (x + 1) with
      | none => rfl
      | some fb'' =>
        simp only []
        by_cases hn : n = 0
        · subst hn; simp
        · rw [if_neg hn, if_neg (by omega)]
          have : rowBase + (x + 1 + n - 1) / 8 = rowBase + (x + (n + 1) - 1) / 8 := by omega
          rw [this]

/-- pixel `(px, py)` of the glyph whose data starts at `base` -/
def glyphColor2 (f : Font) (fgC bgC : List UInt8) (base px py : Nat) : List UInt8 :=
  glyphColor f fgC bgC (base + py * f.bpr) px

theorem glyphRows_eq (f : Font) (fgC bgC : List UInt8) (step pitch base : Nat) (hsz : f.data.size < 4294967296)
    (hgw : 1 ≤ f.gw) (hbpr : (f.gw - 1) / 8 + 1 = f.bpr) :
    ∀ (n : Nat) (fb : Array UInt8) (fbRowOff py : Nat), base + (py + n) * f.bpr ≤ f.data.size →
      glyphRows f fgC bgC step pitch n fb fbRowOff (base + py * f.bpr) =
        rowsF (glyphColor2 f fgC bgC base) step pitch f.gw n fb fbRowOff py := by
  intro n
  induction n with
  | zero => intros; rfl
  | succ n ih =>
    intro fb fbRowOff py hb
    have e1 : (py + (n + 1)) * f.bpr = py * f.bpr + n * f.bpr + f.bpr := by rw [Nat.add_mul, Nat.succ_mul]; omega
    have e2 : (py + 1 + n) * f.bpr = py * f.bpr + n * f.bpr + f.bpr := by rw [Nat.add_mul, Nat.add_mul]; omega
    have e3 : (py + 1) * f.bpr = py * f.bpr + f.bpr := by rw [Nat.add_mul]; omega
    have hlt : base + py * f.bpr < f.data.size := by omega
    have hget : f.data[base + py * f.bpr]? = some f.data[base + py * f.bpr] := Array.getElem?_eq_getElem hlt
    have hinv : GlyphInv f (base + py * f.bpr) 0 (base + py * f.bpr) (f.data[base + py * f.bpr]).toNat 128 := by
      unfold GlyphInv
      rw [if_neg (by omega)]
      refine ⟨rfl, rfl, ?_⟩
      rw [Array.getD_eq_getD_getElem?]
      simp only [Nat.zero_div, Nat.add_zero, hget]; rfl
    have hrow := glyphRow_eq f fgC bgC step (base + py * f.bpr) hsz f.gw fb fbRowOff (base + py * f.bpr)
      (f.data[base + py * f.bpr]).toNat 128 0 hinv (by intro _; omega)
    simp only [glyphRows, rowsF, hget, hrow]
    show (match (match pixRowF (glyphColor f fgC bgC (base + py * f.bpr)) step f.gw fb fbRowOff 0 with
          | none => none
          | some fb' => some (fb', if f.gw = 0 then base + py * f.bpr else base + py * f.bpr + (0 + f.gw - 1) / 8)) with
        | none => none
        | some (fb', fo) => glyphRows f fgC bgC step pitch n fb' (add32 fbRowOff pitch) (add32 fo 1)) = _
    have hcol : (fun x => glyphColor2 f fgC bgC base x py) = glyphColor f fgC bgC (base + py * f.bpr) := rfl
    rw [hcol]
    cases pixRowF (glyphColor f fgC bgC (base + py * f.bpr)) step f.gw fb fbRowOff 0 with
    | none => rfl
    | some fb' =>
      simp only []
      have hfo : add32 (if f.gw = 0 then base + py * f.bpr else base + py * f.bpr + (0 + f.gw - 1) / 8) 1
          = base + (py + 1) * f.bpr := by
        rw [if_neg (by omega)]; unfold add32
        have : (0 + f.gw - 1) / 8 = (f.gw - 1) / 8 := by rw [Nat.zero_add]
        rw [this]; omega
      rw [hfo]
      exact ih fb' _ (py + 1) (by omega)

end Glyph

/-! ## text console -/
section Text
open Firefly.VgaText

theorem text_fillRows_spec (clr : UInt16) (W x0 w : Nat) (hw : x0 + w ≤ W) :
    ∀ (h : Nat) (fb : Array UInt16) (R : Nat), (R + h) * W ≤ fb.size → fb.size + W < 4294967296 →
    ∃ fb', fillRows clr w W fb (R * W + x0) h = some fb' ∧ fb'.size = fb.size ∧
      ∀ i, fb'[i]? = if (R ≤ i / W ∧ i / W < R + h) ∧ x0 ≤ i % W ∧ i % W < x0 + w then some clr else fb[i]? := by
  intro h
  induction h with
  | zero =>
    intro fb R _ _
    refine ⟨fb, rfl, rfl, fun i => ?_⟩
    have : ¬ ((R ≤ i / W ∧ i / W < R + 0) ∧ x0 ≤ i % W ∧ i % W < x0 + w) := by omega
    rw [if_neg this]
  | succ h ih =>
    intro fb R hsz hB
    have e1 : (R + (h + 1)) * W = R * W + h * W + W := by rw [Nat.add_mul, Nat.succ_mul]; omega
    have e2 : (R + 1 + h) * W = R * W + h * W + W := by rw [Nat.add_mul, Nat.add_mul]; omega
    have e3 : (R + 1) * W = R * W + W := by rw [Nat.add_mul]; omega
    have hcnt : add32 (R * W + x0) w - (R * W + x0) = w := by unfold add32; omega
    obtain ⟨fb1, g1, g2, g3⟩ := fillRange_spec clr w fb (R * W + x0) (by omega)
    have hnext : add32 (R * W + x0) W = (R + 1) * W + x0 := by unfold add32; omega
    obtain ⟨fb', k1, k2, k3⟩ := ih fb1 (R + 1) (by omega) (by omega)
    refine ⟨fb', ?_, by omega, ?_⟩
    · simp only [fillRows, hcnt, g1, hnext, k1]
    · intro i
      rw [k3, g3]
      have hr := @row_range W R x0 w i hw
      by_cases hA : (R + 1 ≤ i / W ∧ i / W < R + 1 + h) ∧ x0 ≤ i % W ∧ i % W < x0 + w
      · have hB' : (R ≤ i / W ∧ i / W < R + (h + 1)) ∧ x0 ≤ i % W ∧ i % W < x0 + w := by omega
        rw [if_pos hA, if_pos hB']
      · rw [if_neg hA]
        by_cases hC : R * W + x0 ≤ i ∧ i < R * W + x0 + w
        · have := hr.1 hC
          have hB' : (R ≤ i / W ∧ i / W < R + (h + 1)) ∧ x0 ≤ i % W ∧ i % W < x0 + w := by omega
          rw [if_pos hC, if_pos hB']
        · have hB' : ¬ ((R ≤ i / W ∧ i / W < R + (h + 1)) ∧ x0 ≤ i % W ∧ i % W < x0 + w) := by
            intro hh
            apply hC
            apply hr.2
            omega
          rw [if_neg hC, if_neg hB']

end Text

end Firefly.ConsoleProof
