import Firefly.Proof.AmlTreeAbs
/-!
Lemmas for C13: `Find` on encoded paths is `resolve` on the abstracted forest.
-/
namespace Firefly.C13
open Firefly.AmlTree Firefly.AmlTree.ObjectTree

/-- the four bytes of `expr` at offset `seg` are the name `nm` -/
def SliceIs (expr : List UInt8) (seg : Nat) (nm : Name) : Prop :=
  expr[seg + 0]? = some nm.b0 ∧ expr[seg + 1]? = some nm.b1 ∧ expr[seg + 2]? = some nm.b2 ∧ expr[seg + 3]? = some nm.b3

theorem sliceIs_of_drop {expr : List UInt8} {off : Nat} {nm : Name} {tl : List UInt8}
    (h : expr.drop off = nm.toList ++ tl) : SliceIs expr off nm := by
  have g : ∀ k, expr[off + k]? = (nm.toList ++ tl)[k]? := by
    intro k; rw [← h, List.getElem?_drop]
  exact ⟨by rw [g]; rfl, by rw [g]; rfl, by rw [g]; rfl, by rw [g]; rfl⟩

theorem matchName_eq (expr : List UInt8) (seg : Nat) (nm o : Name) (h : SliceIs expr seg nm) :
    matchName expr seg o [0, 1, 2, 3] = .ok (decide (o = nm)) := by
  obtain ⟨h0, h1, h2, h3⟩ := h
  obtain ⟨a0, a1, a2, a3⟩ := o
  obtain ⟨n0, n1, n2, n3⟩ := nm
  simp only [matchName, h0, h1, h2, h3, Name.get, Name.mk.injEq]
  by_cases e0 : n0 = a0
  · subst e0
    by_cases e1 : n1 = a1
    · subst e1
      by_cases e2 : n2 = a2
      · subst e2
        by_cases e3 : n3 = a3
        · subst e3; simp
        · have : ¬ a3 = n3 := fun h => e3 h.symm
          simp [e3, this]
      · have : ¬ a2 = n2 := fun h => e2 h.symm
        simp [e2, this]
    · have : ¬ a1 = n1 := fun h => e1 h.symm
      simp [e1, this]
  · have : ¬ a0 = n0 := fun h => e0 h.symm
    simp [e0, this]

theorem scanSiblings_eq {t : ObjectTree} (hs : t.pool.size ≤ INV) (expr : List UInt8) (seg : Nat) (nm : Name)
    (hsl : SliceIs expr seg nm) (q : Nat → Bool) (hq : ∀ k, q k = true ↔ (slot t k).name = nm) :
    ∀ (l : List Nat) (f i : Nat), Chain t (Nx t) i l → l.length ≤ f →
      scanSiblings t expr seg f i = .ok ((l.find? q).map fun k => (k, slot t k)) := by
  intro l
  induction l with
  | nil =>
    intro f i hc _
    have : i = INV := hc
    cases f <;> simp [scanSiblings, this, INV]
  | cons x xs ih =>
    intro f i hc hf
    obtain ⟨rfl, hl, hc'⟩ := hc
    cases f with
    | zero => simp at hf
    | succ f =>
      have hne : i ≠ InvalidIndex := live_ne_INV hs hl
      have hm := matchName_eq expr seg nm (slot t i).name hsl
      have := ih f (Nx t i) hc' (by simpa using hf)
      simp only [scanSiblings, hne, if_false, objectAt_live hl, deref_some, obj_eq (live_lt hl),
        bind, Except.bind, hm, List.find?]
      by_cases hn : (slot t i).name = nm
      · have := (hq i).2 hn
        simp [hn, this, pure, Except.pure]
      · have hqf : q i = false := by
          cases h : q i with
          | false => rfl
          | true => exact absurd ((hq i).1 h) hn
        simp only [hn, decide_false, Bool.false_eq_true, if_false, hqf]
        exact this

/-- scanning the arguments of a live object for a name is `lookIn` on the abstracted forest -/
theorem scanArgs_eq {t : ObjectTree} (w : WF t) (expr : List UInt8) (seg : Nat) (nm : Name)
    (hsl : SliceIs expr seg nm) {s : Nat} (hl : live t s = true) :
    scanSiblings t expr seg t.fuel (slot t s).firstArgIndex =
      .ok (((abs t).lookIn s nm).map fun k => (k, slot t k)) := by
  have hc := w.kids_chain hl
  have hlen : ((abs t).kids s).length ≤ t.fuel := by
    obtain ⟨l, hc', _, hlen⟩ := w.args_eq hl
    have := chain_det (Nx t) w.size_le _ _ _ hc hc'
    rw [this]; simp [ObjectTree.fuel]; omega
  have := scanSiblings_eq w.size_le expr seg nm hsl (fun k => (abs t).name k = nm)
    (fun k => by simp only [abs]; exact decide_eq_true_iff) _ t.fuel _ hc hlen
  exact this

/-- the bytes of a list of segments -/
def flat (segs : List Name) : List UInt8 := segs.flatMap Name.toList

theorem flat_cons (s : Name) (rest : List Name) : flat (s :: rest) = s.toList ++ flat rest := by
  simp [flat]

theorem lookIn_live {t : ObjectTree} (w : WF t) {s k : Nat} {nm : Name} (hl : live t s = true)
    (h : (abs t).lookIn s nm = some k) : live t k = true := by
  have := List.mem_of_find?_eq_some h
  exact ((w.kids_mem s hl k).1 this).1

/-- one iteration of the `nextSegment` loop at a segment boundary -/
theorem loop_step {t : ObjectTree} (w : WF t) (expr : List UInt8) (s : Name) (tl : List UInt8)
    (n scope off0 off : Nat) (hl : live t scope = true) (h0 : off0 < expr.length)
    (hskip : skipPrefix expr expr.length off0 = off) (hdrop : expr.drop off = s.toList ++ tl) :
    findRelativeLoop t expr (n + 1) scope off0 =
      match (abs t).lookIn scope s with
      | none => .ok INV
      | some k => findRelativeLoop t expr n k (off + amlNameLen) := by
  have hlen : expr.length - off = 4 + tl.length := by
    have := congrArg List.length hdrop
    simp [Name.toList] at this; omega
  have h4 : ¬ expr.length - off < amlNameLen := by simp [amlNameLen]; omega
  conv => lhs; unfold findRelativeLoop
  simp only [h0, if_true, hskip, h4, if_false, objectAt_live hl, deref_some, obj_eq (live_lt hl), bind,
    Except.bind, scanArgs_eq w expr off s (sliceIs_of_drop hdrop) hl]
  cases (abs t).lookIn scope s with
  | none => rfl
  | some k => rfl

theorem skip_id (expr : List UInt8) (f off : Nat) (b : UInt8) (h : expr[off]? = some b)
    (hb : isNameStart b = true) : skipPrefix expr (f + 1) off = off := by
  simp [skipPrefix, h, hb]

/-- the loop over aligned segments is `descend` -/
theorem loop_run {t : ObjectTree} (w : WF t) (expr : List UInt8) :
    ∀ (rest : List Name) (n scope off : Nat), live t scope = true → expr.drop off = flat rest →
      (∀ s ∈ rest, isNameStart s.b0 = true) → expr.length < n + off → off ≤ expr.length →
      findRelativeLoop t expr n scope off = .ok (optIdx ((abs t).descend scope rest)) := by
  intro rest
  induction rest with
  | nil =>
    intro n scope off hl hd _ _ hle
    have : ¬ off < expr.length := by
      have := congrArg List.length hd
      simp [flat] at this; omega
    cases n <;> simp [findRelativeLoop, this, Forest.descend, optIdx]
  | cons s rest ih =>
    intro n scope off hl hd hns hfuel hle
    rw [flat_cons] at hd
    have hlen : expr.length - off = 4 + (flat rest).length := by
      have := congrArg List.length hd
      simp [Name.toList] at this; omega
    have h0 : off < expr.length := by omega
    cases n with
    | zero => omega
    | succ n =>
      have hb : expr[off]? = some s.b0 := by
        have := (sliceIs_of_drop hd).1
        simpa using this
      have hsk : skipPrefix expr expr.length off = off := by
        cases hL : expr.length with
        | zero => omega
        | succ f => exact skip_id expr f off s.b0 hb (hns s (by simp))
      rw [loop_step w expr s (flat rest) n scope off off hl h0 hsk hd]
      simp only [Forest.descend]
      cases hk : (abs t).lookIn scope s with
      | none => simp [optIdx]
      | some k =>
        simp only [Option.bind]
        apply ih n k (off + amlNameLen) (lookIn_live w hl hk)
        · have := congrArg (List.drop 4) hd
          simpa [List.drop_drop, Name.toList, amlNameLen, Nat.add_comm] using this
        · exact fun s' hs' => hns s' (by simp [hs'])
        · simp [amlNameLen]; omega
        · simp [amlNameLen]; omega

/-- an encoded body is an optional DualNamePrefix / MultiNamePrefix+count followed by the segments -/
theorem encodeBody_shape (segs : List Name) (form : Form) (h : segs ≠ []) :
    ∃ hdr, encodeBody segs form = hdr ++ flat segs ∧ (hdr = [] ∨ hdr = [0x2e] ∨ ∃ c, hdr = [0x2f, c]) := by
  cases segs with
  | nil => exact absurd rfl h
  | cons a rest =>
    cases form with
    | raw => exact ⟨[], by simp [encodeBody, flat], Or.inl rfl⟩
    | multi => exact ⟨[0x2f, UInt8.ofNat (rest.length + 1)], by simp [encodeBody, flat], Or.inr (Or.inr ⟨_, rfl⟩)⟩
    | canon =>
      cases rest with
      | nil => exact ⟨[], by simp [encodeBody, flat], Or.inl rfl⟩
      | cons b rest2 =>
        cases rest2 with
        | nil => exact ⟨[0x2e], by simp [encodeBody, flat], Or.inr (Or.inl rfl)⟩
        | cons c rest3 =>
          exact ⟨[0x2f, UInt8.ofNat (rest3.length + 1 + 1 + 1)], by simp [encodeBody, flat],
            Or.inr (Or.inr ⟨_, rfl⟩)⟩

theorem skip_hdr (hdr tl : List UInt8) (b : UInt8) (f : Nat) (hb : isNameStart b = true) (hf : 3 ≤ f)
    (hh : hdr = [] ∨ hdr = [0x2e] ∨ ∃ c, hdr = [0x2f, c]) :
    skipPrefix (hdr ++ b :: tl) f 0 = hdr.length := by
  obtain ⟨f, rfl⟩ : ∃ g, f = g + 3 := ⟨f - 3, by omega⟩
  rcases hh with rfl | rfl | ⟨c, rfl⟩
  · simp [skipPrefix, hb]
  · have : isNameStart 0x2e = false := by decide
    simp [skipPrefix, hb, this]
  · have : isNameStart 0x2f = false := by decide
    simp [skipPrefix, hb, this]

theorem findRelative_encodeBody {t : ObjectTree} (w : WF t) (segs : List Name) (form : Form)
    (hns : ∀ s ∈ segs, isNameStart s.b0 = true) {scope : Nat} (hl : live t scope = true) :
    t.findRelative scope (encodeBody segs form) = .ok (optIdx ((abs t).descend scope segs)) := by
  cases segs with
  | nil =>
    have : encodeBody [] form = [] := by cases form <;> rfl
    rw [this]
    simp [ObjectTree.findRelative, findRelativeLoop, Forest.descend, optIdx]
  | cons s rest =>
    obtain ⟨hdr, he, hh⟩ := encodeBody_shape (s :: rest) form (by simp)
    rw [he, flat_cons]
    generalize hE : hdr ++ (s.toList ++ flat rest) = expr
    have hlen : expr.length = hdr.length + 4 + (flat rest).length := by
      rw [← hE]; simp [Name.toList]; omega
    have hdrop : expr.drop hdr.length = s.toList ++ flat rest := by
      rw [← hE]; simp
    have hsk : skipPrefix expr expr.length 0 = hdr.length := by
      rw [← hE]
      have : hdr ++ (s.toList ++ flat rest) = hdr ++ s.b0 :: ([s.b1, s.b2, s.b3] ++ flat rest) := by
        simp [Name.toList]
      rw [this]
      apply skip_hdr _ _ _ _ (hns s (by simp)) _ hh
      simp; omega
    unfold ObjectTree.findRelative
    rw [loop_step w expr s (flat rest) expr.length scope 0 hdr.length hl (by omega) hsk hdrop]
    simp only [Forest.descend]
    cases hk : (abs t).lookIn scope s with
    | none => simp [optIdx]
    | some k =>
      simp only [Option.bind]
      apply loop_run w expr rest _ k _ (lookIn_live w hl hk)
      · have := congrArg (List.drop 4) hdrop
        simpa [List.drop_drop, Name.toList, amlNameLen, Nat.add_comm] using this
      · exact fun s' hs' => hns s' (by simp [hs'])
      · simp [amlNameLen]
      · simp [amlNameLen]; omega

theorem nameStart_ne {b : UInt8} (h : isNameStart b = true) : b ≠ 0x5c ∧ b ≠ 0x5e := by
  constructor <;> (rintro rfl; revert h; decide)

theorem climb_live {t : ObjectTree} (w : WF t) : ∀ (k scope s : Nat), live t scope = true →
    (abs t).climb k scope = some s → live t s = true := by
  intro k
  induction k with
  | zero => intro scope s hl h; simp [Forest.climb] at h; rw [← h]; exact hl
  | succ k ih =>
    intro scope s hl h
    simp only [Forest.climb, w.parentOf_abs scope hl] at h
    by_cases hp : P t scope = INV
    · simp [hp] at h
    · simp only [hp, if_false, Option.bind] at h
      exact ih _ s ((w.links hl).1.resolve_left hp) h

/-- the `'^'` loop followed by a name: climb, then `findRelative` -/
theorem findCarets_body {t : ObjectTree} (w : WF t) (b : UInt8) (tl : List UInt8) (hb : b ≠ 0x5e) :
    ∀ (k scope : Nat), live t scope = true →
      t.findCarets scope (List.replicate k 0x5e ++ b :: tl) =
        match (abs t).climb k scope with
        | none => .ok INV
        | some s => t.findRelative s (b :: tl) := by
  intro k
  induction k with
  | zero => intro scope _; simp [findCarets, hb, Forest.climb]
  | succ k ih =>
    intro scope hl
    simp only [List.replicate_succ, List.cons_append, findCarets, if_true, objectAt_live hl, deref_some,
      obj_eq (live_lt hl), bind, Except.bind, Forest.climb, w.parentOf_abs scope hl]
    by_cases hp : P t scope = INV
    · have : (slot t scope).parentIndex = InvalidIndex := hp
      simp [this, hp, pure, Except.pure, INV]
    · have hp' : ¬ (slot t scope).parentIndex = InvalidIndex := hp
      simp only [hp', if_false, hp, Option.bind]
      exact ih _ ((w.links hl).1.resolve_left hp)

/-- ranks strictly decrease along a parent chain -/
theorem chain_rk {t : ObjectTree} (rk : Nat → Nat)
    (hrk : ∀ i, live t i = true → P t i ≠ INV → rk (P t i) < rk i) (hs : t.pool.size ≤ INV) :
    ∀ (l : List Nat) (a : Nat), Chain t (P t) a (a :: l) → ∀ y ∈ l, rk y < rk a := by
  intro l
  induction l with
  | nil => intro a _ y hy; simp at hy
  | cons z zs ih =>
    intro a hc y hy
    obtain ⟨_, hl, hc'⟩ := hc
    obtain ⟨hz, hzl, _⟩ := id hc'
    have h1 := hrk a hl (by rw [hz]; exact live_ne_INV hs hzl)
    rw [hz] at h1
    rcases List.mem_cons.1 hy with rfl | hy
    · exact h1
    · have := ih z (hz ▸ hc') y hy
      omega

theorem nodup_subset_length : ∀ (m l : List Nat), l.Nodup → (∀ x ∈ l, x ∈ m) → l.length ≤ m.length := by
  intro m
  induction m with
  | nil =>
    intro l _ hsub
    cases l with
    | nil => simp
    | cons a l => exact absurd (hsub a (by simp)) (by simp)
  | cons a m ih =>
    intro l hd hsub
    by_cases ha : a ∈ l
    · have := ih (l.erase a) (hd.erase a) (by
        intro x hx
        have := (hd.mem_erase_iff).1 hx
        rcases List.mem_cons.1 (hsub x this.2) with e | e
        · exact absurd e this.1
        · exact e)
      have := List.length_erase_of_mem ha
      simp; omega
    · have := ih l hd (by
        intro x hx
        rcases List.mem_cons.1 (hsub x hx) with e | e
        · exact absurd (e ▸ hx) ha
        · exact e)
      simp; omega

/-- parent chains are no longer than the number of live nodes -/
theorem WF.parChain_ids {t : ObjectTree} (w : WF t) (i : Nat) (h : live t i = true) :
    ∃ l, Chain t (P t) i l ∧ l.length ≤ t.pool.size ∧ l.length ≤ (abs t).ids.length := by
  obtain ⟨l, hc, hlen⟩ := w.parChain i (Or.inr h)
  refine ⟨l, hc, hlen, ?_⟩
  obtain ⟨rk, hrk⟩ := w.rank
  have hnd : ∀ (l : List Nat) (a : Nat), Chain t (P t) a l → l.Nodup ∧ ∀ x ∈ l, live t x = true := by
    intro l
    induction l with
    | nil => intro _ _; simp
    | cons y ys ih =>
      intro a hc
      obtain ⟨rfl, hl, hc'⟩ := id hc
      have := ih _ hc'
      refine ⟨?_, ?_⟩
      · rw [List.nodup_cons]
        refine ⟨fun hm => ?_, this.1⟩
        have := chain_rk rk hrk w.size_le ys a hc a hm
        omega
      · intro x hx
        rcases List.mem_cons.1 hx with rfl | hx
        · exact hl
        · exact this.2 x hx
  have := hnd l i hc
  exact nodup_subset_length _ l this.1 (fun x hx => (mem_ids x).2 (this.2 x hx))

/-- the scope-then-enclosing-scopes loop is `searchUp` -/
theorem findUpward_eq {t : ObjectTree} (w : WF t) (nm : Name) :
    ∀ (l : List Nat) (f g scope : Nat), Chain t (P t) scope l → l ≠ [] → l.length ≤ f → l.length ≤ g →
      findUpward t nm.toList f scope = .ok (optIdx ((abs t).searchUp nm g scope)) := by
  intro l
  induction l with
  | nil => intro _ _ _ _ h; exact absurd rfl h
  | cons x xs ih =>
    intro f g scope hc _ hf hg
    obtain ⟨rfl, hl, hc'⟩ := hc
    cases f with
    | zero => simp at hf
    | succ f =>
    cases g with
    | zero => simp at hg
    | succ g =>
      have hne : scope ≠ InvalidIndex := live_ne_INV w.size_le hl
      have hsl : SliceIs nm.toList 0 nm := sliceIs_of_drop (tl := []) (by simp)
      simp only [findUpward, hne, if_false, objectAt_live hl, deref_some, obj_eq (live_lt hl), bind, Except.bind,
        scanArgs_eq w nm.toList 0 nm hsl hl, Forest.searchUp]
      cases hk : (abs t).lookIn scope nm with
      | some k =>
        have hkl := lookIn_live w hl hk
        simp [optIdx, pure, Except.pure, w.index_eq k (live_lt hkl)]
      | none =>
        simp only [Option.map, w.parentOf_abs scope hl]
        by_cases hp : P t scope = INV
        · have : (slot t scope).parentIndex = InvalidIndex := hp
          cases f <;> simp [findUpward, this, hp, optIdx, INV]
        · simp only [hp, if_false, Option.bind]
          have hpl : live t (P t scope) = true := (w.links hl).1.resolve_left hp
          cases xs with
          | nil => exact absurd (hc' : P t scope = INV) hp
          | cons y ys =>
            exact ih f g (P t scope) hc' (by simp) (by simpa using hf) (by simpa using hg)

/-- first byte and length of a non-empty encoded body -/
theorem encodeBody_head (segs : List Name) (form : Form) (h : segs ≠ [])
    (hns : ∀ s ∈ segs, isNameStart s.b0 = true) :
    ∃ b tl, encodeBody segs form = b :: tl ∧ b ≠ 0x5c ∧ b ≠ 0x5e ∧ 3 ≤ tl.length := by
  obtain ⟨hdr, he, hh⟩ := encodeBody_shape segs form h
  cases segs with
  | nil => exact absurd rfl h
  | cons s rest =>
    rw [flat_cons] at he
    rcases hh with rfl | rfl | ⟨c, rfl⟩
    · exact ⟨s.b0, _, by rw [he]; simp [Name.toList]; rfl, (nameStart_ne (hns s (by simp))).1,
        (nameStart_ne (hns s (by simp))).2, by simp⟩
    · exact ⟨0x2e, _, by rw [he]; rfl, by decide, by decide, by simp [Name.toList]⟩
    · exact ⟨0x2f, _, by rw [he]; rfl, by decide, by decide, by simp [Name.toList]⟩

/-- a body that is not a plain single segment is longer than one segment -/
theorem encodeBody_long (segs : List Name) (form : Form) (h : segs ≠ [])
    (hs : ¬ (segs.length = 1 ∧ (form = .canon ∨ form = .raw))) : (encodeBody segs form).length > amlNameLen := by
  cases segs with
  | nil => exact absurd rfl h
  | cons a rest =>
    cases form with
    | multi => simp [encodeBody, amlNameLen, Name.toList]
    | raw =>
      cases rest with
      | nil => simp at hs
      | cons b r => simp [encodeBody, amlNameLen, Name.toList]
    | canon =>
      cases rest with
      | nil => simp at hs
      | cons b r =>
        cases r with
        | nil => simp [encodeBody, amlNameLen, Name.toList]
        | cons c r2 => simp [encodeBody, amlNameLen, Name.toList]

theorem encodeBody_single (nm : Name) (form : Form) (hf : form = .canon ∨ form = .raw) :
    encodeBody [nm] form = nm.toList := by
  rcases hf with rfl | rfl <;> simp [encodeBody]

/-- **Find = resolve** on every valid path -/
theorem find_correct' {t : ObjectTree} (w : WF t) (hroot : live t 0 = true) (scope : Nat)
    (hs : live t scope = true) (p : Path) (hv : p.valid = true) :
    t.Find scope (encode p) = .ok (optIdx (resolve (abs t) scope p)) := by
  obtain ⟨pre, segs, form⟩ := p
  simp only [Path.valid, Path.segsOK, Bool.and_eq_true, List.all_eq_true, decide_eq_true_eq,
    Bool.not_eq_true', Bool.and_eq_false_iff] at hv
  obtain ⟨⟨hns, _⟩, hne⟩ := hv
  have hsc : scope ≠ InvalidIndex := live_ne_INV w.size_le hs
  by_cases hsegs : segs = []
  · -- bare prefixes
    subst hsegs
    have hb : encodeBody [] form = [] := by cases form <;> rfl
    cases pre with
    | root =>
      simp [encode, encodePre, hb, ObjectTree.Find, hsc, resolve, Path.isSimple, Forest.descend, optIdx]
    | up k =>
      cases k with
      | zero => simp at hne
      | succ k =>
        have h1 : encode ⟨.up (k + 1), [], form⟩ = List.replicate (k + 1) 0x5e := by
          simp [encode, encodePre, hb]
        have h2 : resolve (abs t) scope ⟨.up (k + 1), [], form⟩ = (abs t).climb (k + 1) scope := by
          simp only [resolve, Path.isSimple]
          cases (abs t).climb (k + 1) scope <;> simp [Forest.descend]
        rw [h2, ← w.findCarets_climb (k + 1) scope hs, h1]
        simp [ObjectTree.Find, List.replicate_succ, hsc]
  · obtain ⟨b, tl, hbody, hb1, hb2, htl⟩ := encodeBody_head segs form hsegs hns
    have hdesc := fun (s : Nat) (hl : live t s = true) => findRelative_encodeBody w segs form hns hl
    cases pre with
    | root =>
      have hr : resolve (abs t) scope ⟨.root, segs, form⟩ = (abs t).descend 0 segs := by
        simp [resolve, Path.isSimple]
      rw [hr, ← hdesc 0 hroot]
      simp [encode, encodePre, hbody, ObjectTree.Find, hsc]
    | up k =>
      cases k with
      | succ k =>
        have hr : resolve (abs t) scope ⟨.up (k + 1), segs, form⟩ =
            ((abs t).climb (k + 1) scope).bind fun s => (abs t).descend s segs := by
          simp [resolve, Path.isSimple]
        have he : encode ⟨.up (k + 1), segs, form⟩ = List.replicate (k + 1) 0x5e ++ b :: tl := by
          simp [encode, encodePre, hbody]
        have hF : t.Find scope (List.replicate (k + 1) 0x5e ++ b :: tl) =
            t.findCarets scope (List.replicate (k + 1) 0x5e ++ b :: tl) := by
          simp [ObjectTree.Find, List.replicate_succ, hsc]
        rw [hr, he, hF, findCarets_body w b tl hb2 (k + 1) scope hs]
        cases hc : (abs t).climb (k + 1) scope with
        | none => simp [optIdx]
        | some s =>
          simp only [Option.bind]
          rw [← hbody]
          exact hdesc s (climb_live w _ _ _ hs hc)
      | zero =>
        have he : encode ⟨.up 0, segs, form⟩ = b :: tl := by simp [encode, encodePre, hbody]
        by_cases hsim : segs.length = 1 ∧ (form = .canon ∨ form = .raw)
        · -- the search rule
          obtain ⟨h1, hf⟩ := hsim
          obtain ⟨nm, rfl⟩ : ∃ nm, segs = [nm] := by
            cases segs with
            | nil => simp at h1
            | cons a r => cases r with
              | nil => exact ⟨a, rfl⟩
              | cons _ _ => simp at h1
          have hr : resolve (abs t) scope ⟨.up 0, [nm], form⟩ =
              (abs t).searchUp nm ((abs t).ids.length + 1) scope := by
            rcases hf with rfl | rfl <;> simp [resolve, Path.isSimple]
          have hbt : b :: tl = nm.toList := by rw [← hbody]; exact encodeBody_single nm form hf
          obtain ⟨l, hc, hl1, hl2⟩ := w.parChain_ids scope hs
          have hl0 : l ≠ [] := by
            intro e; rw [e] at hc; exact hsc hc
          rw [hr, he, hbt, ← findUpward_eq w nm l t.fuel _ scope hc hl0
            (by simp [ObjectTree.fuel]; omega) (by omega)]
          have h0 : nm.toList = nm.b0 :: [nm.b1, nm.b2, nm.b3] := rfl
          have hn := nameStart_ne (hns nm (by simp))
          rw [h0]
          simp [ObjectTree.Find, hsc, hn.1, hn.2, amlNameLen]
        · have hr : resolve (abs t) scope ⟨.up 0, segs, form⟩ = (abs t).descend scope segs := by
            have : Path.isSimple ⟨.up 0, segs, form⟩ = false := by
              simp only [Path.isSimple, Bool.and_eq_false_iff, Bool.or_eq_false_iff]
              by_cases h1 : segs.length = 1
              · right
                have := fun hf => hsim ⟨h1, hf⟩
                cases form <;> simp at this ⊢
              · left; right; simpa using h1
            simp [resolve, this, Forest.climb]
          have hlong := encodeBody_long segs form hsegs hsim
          rw [hr, he, ← hdesc scope hs, hbody]
          rw [hbody] at hlong
          have hlong' : ¬ (tl.length + 1 ≤ amlNameLen) := by simp at hlong; omega
          simp [ObjectTree.Find, hsc, hb1, hb2, hlong']

end Firefly.C13
