import Firefly.Proof.PmmInv
/-! `AllocFrame` / `FreeFrame` refine "remove a free frame" / "add a held frame". -/
namespace Firefly.Pmm

theorem allocScan_some {ps : List Pool} {k i blk off : Nat} (h : allocScan ps k = some (i, blk, off)) :
    k ≤ i ∧ ∃ p, ps[i - k]? = some p ∧ p.freeCount ≠ 0 ∧ scanWords p.words 0 = some (blk, off) := by
  induction ps generalizing k with
  | nil => simp [allocScan] at h
  | cons p ps ih =>
    unfold allocScan at h
    by_cases hf : p.freeCount = 0
    · simp only [hf, if_true] at h
      obtain ⟨h1, q, h2, h3⟩ := ih h
      refine ⟨by omega, q, ?_, h3⟩
      have : i - k = (i - (k + 1)) + 1 := by omega
      rw [this]; simpa using h2
    · simp only [hf, if_false] at h
      cases hs : scanWords p.words 0 with
      | none =>
        simp only [hs] at h
        obtain ⟨h1, q, h2, h3⟩ := ih h
        refine ⟨by omega, q, ?_, h3⟩
        have : i - k = (i - (k + 1)) + 1 := by omega
        rw [this]; simpa using h2
      | some r =>
        obtain ⟨b, o⟩ := r
        simp only [hs] at h
        injection h with h
        injection h with h1 h2
        injection h2 with h2 h3
        subst h1 h2 h3
        exact ⟨Nat.le_refl _, p, by simp, hf, hs⟩

theorem allocScan_none {ps : List Pool} {k : Nat} (h : allocScan ps k = none) :
    ∀ p ∈ ps, p.freeCount = 0 ∨ scanWords p.words 0 = none := by
  induction ps generalizing k with
  | nil => simp
  | cons p ps ih =>
    unfold allocScan at h
    intro q hq
    rw [List.mem_cons] at hq
    by_cases hf : p.freeCount = 0
    · simp only [hf, if_true] at h
      rcases hq with rfl | hq
      · exact Or.inl hf
      · exact ih h q hq
    · simp only [hf, if_false] at h
      cases hs : scanWords p.words 0 with
      | none =>
        simp only [hs] at h
        rcases hq with rfl | hq
        · exact Or.inr hs
        · exact ih h q hq
      | some r => obtain ⟨b, o⟩ := r; simp [hs] at h

theorem dec32_eq (n : Nat) (h1 : 0 < n) (_h2 : n < 4294967296) : dec32 n = n - 1 := by
  unfold dec32; rw [if_neg (by omega)]

theorem inc32_eq (n : Nat) (h2 : n + 1 < 4294967296) : inc32 n = n + 1 := by
  unfold inc32; rw [if_neg (by omega)]

theorem dec32_count (fc c c' n : Nat) (hfc : fc = c) (hcount : c' + 1 = c) (hle : c ≤ n)
    (hsm : n < 4294967296) : dec32 fc = c' := by
  rw [dec32_eq _ (by omega) (by omega)]; omega

theorem inc32_count (fc c c' n : Nat) (hfc : fc = c) (hcount : c + 1 = c') (hle : c' ≤ n)
    (hsm : n < 4294967296) : inc32 fc = c' := by
  rw [inc32_eq _ (by omega)]; omega

/-- facts about the bit a successful word scan returns, for a pool that satisfies its invariant -/
theorem scan_in_pool {p : Pool} (hp : PoolInv p) (hfc : p.freeCount ≠ 0) {blk off : Nat}
    (hs : scanWords p.words 0 = some (blk, off)) :
    blk * 64 + off < p.n ∧ off < 64 ∧ blk < p.words.length ∧ bitAt p.words (blk * 64 + off) = false := by
  obtain ⟨_, h2, h3, h4, h5⟩ := scanWords_some hs
  simp only [Nat.sub_zero] at h2 h4 h5
  have hc : 0 < countClear p.words p.n := by rw [← hp.cnt]; omega
  obtain ⟨j, hjn, hj⟩ := countP_range_pos _ _ hc
  simp only [Bool.not_eq_true'] at hj
  have : ¬ j < blk * 64 + off := fun hlt => by rw [h5 j hlt] at hj; cases hj
  exact ⟨by omega, h3, h2, h4⟩

theorem bitMask_mod (k : Nat) : bitMask (k % 64) = bitMask k := by
  unfold bitMask; rw [Nat.mod_mod]

theorem take_eq (p : Pool) (blk off : Nat) (h : off < 64) :
    p.take blk off = p.take ((blk * 64 + off) / 64) (blk * 64 + off) := by
  have h1 : (blk * 64 + off) / 64 = blk := by omega
  have h2 : (blk * 64 + off) % 64 = off := by omega
  have : bitMask off = bitMask (blk * 64 + off) := by rw [← bitMask_mod (blk * 64 + off), h2]
  unfold Pool.take; rw [h1, this]

@[simp] theorem take_start (p : Pool) (a b : Nat) : (p.take a b).start = p.start := by unfold Pool.take; rfl
@[simp] theorem take_end (p : Pool) (a b : Nat) : (p.take a b).end_ = p.end_ := by unfold Pool.take; rfl
@[simp] theorem give_start (p : Pool) (a : Nat) : (p.give a).start = p.start := by unfold Pool.give; rfl
@[simp] theorem give_end (p : Pool) (a : Nat) : (p.give a).end_ = p.end_ := by unfold Pool.give; rfl

/-- effect of setting bit `k` (a clear bit of an in-range frame) on one pool -/
theorem pool_take {p : Pool} (hp : PoolInv p) (k : Nat) (hk : k < p.n) (hclear : bitAt p.words k = false)
    (hlen : k / 64 < p.words.length) :
    PoolInv (p.take (k / 64) k) ∧ (p.take (k / 64) k).freeCount + 1 = p.freeCount ∧
    ∀ g, (p.take (k / 64) k).freeAt g = (p.freeAt g && !decide (g = p.start + k)) := by
  have hw : (p.take (k / 64) k).words = p.words.set (k / 64) (p.words.getD (k / 64) 0 ||| bitMask k) := by
    unfold Pool.take; rfl
  have hfcd : (p.take (k / 64) k).freeCount = dec32 p.freeCount := by unfold Pool.take; rfl
  have hcount : countClear (p.take (k / 64) k).words p.n + 1 = countClear p.words p.n := by
    unfold countClear
    apply countP_range_update _ _ _ k hk
    · intro i hi
      rw [hw, bitAt_set_or _ _ hlen]; simp [hi]
    · simp [hclear]
    · rw [hw, bitAt_set_or _ _ hlen]; simp
  have hdec : dec32 p.freeCount = countClear (p.take (k / 64) k).words p.n :=
    dec32_count p.freeCount (countClear p.words p.n) (countClear (p.take (k / 64) k).words p.n) p.n
      hp.cnt hcount (countP_range_le _ _) hp.small
  refine ⟨⟨hp.le, hp.small, ?_, by rw [hfcd]; exact hdec⟩, ?_, ?_⟩
  · rw [hw, List.length_set]; exact hp.len
  · rw [hfcd, hdec, hp.cnt]; exact hcount
  · intro g
    unfold Pool.freeAt
    rw [hw, bitAt_set_or _ _ hlen, take_start, take_end]
    by_cases hin : p.start ≤ g ∧ g ≤ p.end_
    · have e : (g - p.start = k) ↔ (g = p.start + k) := by omega
      simp only [hin, and_self, decide_true, Bool.true_and, Bool.not_or]
      rw [decide_eq_decide.2 e]
    · simp [hin]

/-- effect of clearing bit `k` (a set bit of an in-range frame) on one pool -/
theorem pool_give {p : Pool} (hp : PoolInv p) (k : Nat) (hk : k < p.n) (hset : bitAt p.words k = true)
    (hlen : k / 64 < p.words.length) :
    PoolInv (p.give k) ∧ (p.give k).freeCount = p.freeCount + 1 ∧
    ∀ g, (p.give k).freeAt g = (p.freeAt g || decide (g = p.start + k)) := by
  have hw : (p.give k).words = p.words.set (k / 64) (p.words.getD (k / 64) 0 &&& ~~~(bitMask k)) := by
    unfold Pool.give; rfl
  have hfcd : (p.give k).freeCount = inc32 p.freeCount := by unfold Pool.give; rfl
  have hcount : countClear p.words p.n + 1 = countClear (p.give k).words p.n := by
    unfold countClear
    apply countP_range_update _ _ _ k hk
    · intro i hi
      rw [hw, bitAt_set_andNot _ _ hlen]; simp [hi]
    · rw [hw, bitAt_set_andNot _ _ hlen]; simp
    · simp [hset]
  have hinc : inc32 p.freeCount = countClear (p.give k).words p.n :=
    inc32_count p.freeCount (countClear p.words p.n) (countClear (p.give k).words p.n) p.n
      hp.cnt hcount (countP_range_le _ _) hp.small
  refine ⟨⟨hp.le, hp.small, ?_, by rw [hfcd]; exact hinc⟩, ?_, ?_⟩
  · rw [hw, List.length_set]; exact hp.len
  · rw [hfcd, hinc, hp.cnt]; omega
  · intro g
    unfold Pool.freeAt
    rw [hw, bitAt_set_andNot _ _ hlen, give_start, give_end]
    have hn : p.n = p.end_ - p.start + 1 := rfl
    have := hp.le
    by_cases hin : p.start ≤ g ∧ g ≤ p.end_
    · have e : (g - p.start = k) ↔ (g = p.start + k) := by omega
      simp only [hin, and_self, decide_true, Bool.true_and, Bool.not_and, Bool.not_not]
      rw [decide_eq_decide.2 e]
    · have : g ≠ p.start + k := by omega
      simp [hin, this]

/-- replacing pool `i` by one with the same range: membership in the new list -/
theorem mem_set_iff {ps : List Pool} {i : Nat} {p p' : Pool} (h : ps[i]? = some p) (q : Pool) :
    q ∈ ps.set i p' ↔ q = p' ∨ ∃ j, j ≠ i ∧ ps[j]? = some q := by
  have hil := (List.getElem?_eq_some_iff.1 h).1
  constructor
  · intro hq
    obtain ⟨j, hj⟩ := List.mem_iff_getElem?.1 hq
    by_cases e : j = i
    · subst e
      rw [List.getElem?_set_self (by simpa using hil)] at hj
      exact Or.inl (by injection hj with hj; exact hj.symm)
    · rw [List.getElem?_set_ne (by omega)] at hj
      exact Or.inr ⟨j, e, hj⟩
  · rintro (rfl | ⟨j, hne, hj⟩)
    · exact List.mem_iff_getElem?.2 ⟨i, by rw [List.getElem?_set_self (by simpa using hil)]⟩
    · exact List.mem_iff_getElem?.2 ⟨j, by rw [List.getElem?_set_ne (by omega)]; exact hj⟩

theorem freeAt_range {p : Pool} {g : Nat} (h : p.freeAt g = true) : p.start ≤ g ∧ g ≤ p.end_ := by
  unfold Pool.freeAt at h
  simp only [Bool.and_eq_true, decide_eq_true_eq] at h
  exact h.1

/-- **alloc_some** — a successful `AllocFrame` returns a frame that was free, keeps the invariant
and the pool layout, and removes exactly that frame from the free set. -/
theorem alloc_some {bm bm' : Bitmap} {f : Nat} (hI : Inv bm) (h : alloc bm = (bm', some f)) :
    isFree bm f ∧ Inv bm' ∧ ranges bm'.pools = ranges bm.pools ∧ bm'.total = bm.total ∧
    bm'.reserved = bm.reserved + 1 ∧ ∀ g, isFree bm' g ↔ (isFree bm g ∧ g ≠ f) := by
  unfold alloc at h
  cases hs : allocScan bm.pools 0 with
  | none => simp [hs] at h
  | some r =>
    obtain ⟨i, blk, off⟩ := r
    obtain ⟨_, p, hp, hfc, hscan⟩ := allocScan_some hs
    simp only [Nat.sub_zero] at hp
    simp only [hs, hp] at h
    have hpm : p ∈ bm.pools := List.mem_of_getElem? hp
    have hpi := hI.pools p hpm
    obtain ⟨hk, hoff, hblk, hclear⟩ := scan_in_pool hpi hfc hscan
    have hkd : (blk * 64 + off) / 64 = blk := by omega
    obtain ⟨hp'inv, hp'fc, hp'free⟩ := pool_take hpi (blk * 64 + off) hk hclear (by omega)
    rw [← take_eq p blk off hoff] at hp'inv hp'fc hp'free
    injection h with hbm hf
    injection hf with hf
    subst hbm hf
    have hfree_f : p.freeAt (p.start + (blk * 64 + off)) = true := by
      unfold Pool.freeAt
      have : p.n = p.end_ - p.start + 1 := rfl
      have hle := hpi.le
      have hin : p.start ≤ p.start + (blk * 64 + off) ∧ p.start + (blk * 64 + off) ≤ p.end_ := by
        clear hkd hp'inv hp'fc hp'free hs hscan; omega
      simp [hin, hclear]
    have hsum := sum_map_set bm.pools (·.freeCount) i (p.take blk off) p hp
    have hge := le_sum_of_getElem? bm.pools (·.freeCount) i p hp
    have hacct := hI.acct
    have hle := hI.le
    have hsmall := hI.small
    unfold freeSum at hacct
    have hfcpos : 0 < p.freeCount := Nat.pos_of_ne_zero hfc
    have hinc : inc32 bm.reserved = bm.reserved + 1 := inc32_eq _ (by omega)
    have hnsum := sum_map_set bm.pools (·.n) i (p.take blk off) p hp
    have hn' : (p.take blk off).n = p.n := rfl
    refine ⟨⟨p, hpm, hfree_f⟩, ⟨?_, ?_, ?_, hsmall, ?_, ?_⟩, ?_, rfl, hinc, ?_⟩
    · intro q hq
      rcases (mem_set_iff hp q).1 hq with rfl | ⟨j, _, hj⟩
      · exact hp'inv
      · exact hI.pools q (List.mem_of_getElem? hj)
    · show RangesSorted (ranges (bm.pools.set i _))
      rw [ranges_set bm.pools i p (p.take blk off) hp rfl rfl]; exact hI.sorted
    · show inc32 bm.reserved ≤ bm.total
      rw [hinc]; omega
    · show bm.total - inc32 bm.reserved = freeSum (bm.pools.set i _)
      unfold freeSum; rw [hinc]; omega
    · show bm.total = nSum (bm.pools.set i _)
      have := hI.tot
      unfold nSum at *; omega
    · exact ranges_set bm.pools i p (p.take blk off) hp rfl rfl
    · intro g
      constructor
      · rintro ⟨q, hq, hqf⟩
        rcases (mem_set_iff hp q).1 hq with rfl | ⟨j, hne, hj⟩
        · rw [hp'free] at hqf
          simp only [Bool.and_eq_true, Bool.not_eq_true', decide_eq_false_iff_not] at hqf
          exact ⟨⟨p, hpm, hqf.1⟩, hqf.2⟩
        · refine ⟨⟨q, List.mem_of_getElem? hj, hqf⟩, ?_⟩
          intro hgf
          subst hgf
          exact hne (sorted_unique hI.sorted hj hp _ (freeAt_range hqf) (freeAt_range hfree_f))
      · rintro ⟨⟨q, hq, hqf⟩, hne⟩
        obtain ⟨j, hj⟩ := List.mem_iff_getElem?.1 hq
        by_cases e : j = i
        · subst e
          rw [hp] at hj; injection hj with hj; subst hj
          refine ⟨_, (mem_set_iff hp _).2 (Or.inl rfl), ?_⟩
          rw [hp'free]; simp [hqf, hne]
        · exact ⟨q, (mem_set_iff hp q).2 (Or.inr ⟨j, e, hj⟩), hqf⟩

/-- **alloc_none** — `AllocFrame` reports out-of-memory only when no frame is free, and then
changes nothing. -/
theorem alloc_none {bm bm' : Bitmap} (hI : Inv bm) (h : alloc bm = (bm', none)) :
    bm' = bm ∧ (∀ g, ¬ isFree bm g) ∧ freeSum bm.pools = 0 := by
  unfold alloc at h
  cases hs : allocScan bm.pools 0 with
  | some r =>
    obtain ⟨i, blk, off⟩ := r
    obtain ⟨_, p, hp, _⟩ := allocScan_some hs
    simp only [Nat.sub_zero] at hp
    simp [hs, hp] at h
  | none =>
    simp only [hs] at h
    injection h with h
    have hall := allocScan_none hs
    have hzero : ∀ p ∈ bm.pools, p.freeCount = 0 := by
      intro p hp
      rcases hall p hp with h0 | hn
      · exact h0
      · have hpi := hI.pools p hp
        rw [hpi.cnt]
        apply countP_range_zero
        intro i hi
        have hlen := hpi.len
        unfold wordsFor at hlen
        have := scanWords_none hn i (by omega)
        simp [this]
    refine ⟨h.symm, ?_, ?_⟩
    · rintro g ⟨p, hp, hpf⟩
      have hpi := hI.pools p hp
      have h0 := hzero p hp
      rw [hpi.cnt] at h0
      unfold Pool.freeAt at hpf
      simp only [Bool.and_eq_true, decide_eq_true_eq, Bool.not_eq_true'] at hpf
      have hn : p.n = p.end_ - p.start + 1 := rfl
      have : 0 < countClear p.words p.n := by
        unfold countClear
        rw [List.countP_pos_iff]
        exact ⟨g - p.start, List.mem_range.2 (by omega), by simp [hpf.2]⟩
      omega
    · unfold freeSum
      rw [List.sum_eq_zero_iff_forall_eq_nat]
      intro x hx
      obtain ⟨p, hp, rfl⟩ := List.mem_map.1 hx
      exact hzero p hp

theorem sum_le_sum {α} (l : List α) (g h : α → Nat) (hle : ∀ x ∈ l, g x ≤ h x) :
    (l.map g).sum ≤ (l.map h).sum := by
  induction l with
  | nil => simp
  | cons a l ih =>
    simp only [List.map_cons, List.sum_cons]
    have := hle a (by simp)
    have := ih (fun x hx => hle x (by simp [hx]))
    omega

theorem sum_lt_sum {α} (l : List α) (g h : α → Nat) (hle : ∀ x ∈ l, g x ≤ h x) (i : Nat) (y : α)
    (hy : l[i]? = some y) (hlt : g y < h y) : (l.map g).sum < (l.map h).sum := by
  induction l generalizing i with
  | nil => simp at hy
  | cons a l ih =>
    simp only [List.map_cons, List.sum_cons]
    cases i with
    | zero =>
      simp at hy; subst hy
      have := sum_le_sum l g h (fun x hx => hle x (by simp [hx]))
      omega
    | succ i =>
      simp at hy
      have := ih (fun x hx => hle x (by simp [hx])) i hy
      have := hle a (by simp)
      omega

theorem freeCount_le_n {p : Pool} (hp : PoolInv p) : p.freeCount ≤ p.n := by
  rw [hp.cnt]; exact countP_range_le _ _

/-- **free_notManaged** — a frame outside every pool is rejected and nothing changes. -/
theorem free_notManaged {bm bm' : Bitmap} {f : Nat} (h : free bm f = (bm', .notManaged)) :
    bm' = bm ∧ ¬ isFree bm f := by
  unfold free at h
  cases hp : poolForFrame bm.pools f with
  | none =>
    simp only [hp] at h
    injection h with h
    refine ⟨h.symm, ?_⟩
    rintro ⟨q, hq, hqf⟩
    exact poolForFrame_none hp q hq (freeAt_range hqf)
  | some i =>
    simp only [hp] at h
    split at h
    · cases h
    · split at h
      · cases h
      · split at h <;> cases h

/-- **free_doubleFree** — freeing a frame that is free is rejected and nothing changes. -/
theorem free_doubleFree {bm bm' : Bitmap} {f : Nat} (h : free bm f = (bm', .doubleFree)) :
    bm' = bm ∧ isFree bm f := by
  unfold free at h
  cases hp : poolForFrame bm.pools f with
  | none => simp [hp] at h
  | some i =>
    obtain ⟨p, hpi, hin⟩ := poolForFrame_some hp
    simp only [hp, hpi] at h
    cases hw : p.words[(f - p.start) / 64]? with
    | none => simp [hw] at h
    | some w =>
      simp only [hw] at h
      split at h
      · rename_i hz
        injection h with h
        refine ⟨h.symm, p, List.mem_of_getElem? hpi, ?_⟩
        unfold Pool.freeAt bitAt
        rw [and_bitMask_eq_zero] at hz
        simp [hin, hw, hz]
      · cases h

/-- **free_ok** — a successful `FreeFrame` was given a frame of a pool that was not free, keeps
the invariant and the pool layout, and adds exactly that frame to the free set. -/
theorem free_ok {bm bm' : Bitmap} {f : Nat} (hI : Inv bm) (h : free bm f = (bm', .ok)) :
    ¬ isFree bm f ∧ Inv bm' ∧ ranges bm'.pools = ranges bm.pools ∧ bm'.total = bm.total ∧
    bm'.reserved + 1 = bm.reserved ∧ ∀ g, isFree bm' g ↔ (isFree bm g ∨ g = f) := by
  unfold free at h
  cases hp : poolForFrame bm.pools f with
  | none => simp [hp] at h
  | some i =>
    obtain ⟨p, hpi, hin⟩ := poolForFrame_some hp
    simp only [hp, hpi] at h
    cases hw : p.words[(f - p.start) / 64]? with
    | none => simp [hw] at h
    | some w =>
      simp only [hw] at h
      split at h
      · cases h
      · rename_i hz
        injection h with hbm
        subst hbm
        have hpm : p ∈ bm.pools := List.mem_of_getElem? hpi
        have hpinv := hI.pools p hpm
        have hwd : p.words.getD ((f - p.start) / 64) 0 = w := by
          simp [List.getD_eq_getElem?_getD, hw]
        have hset : bitAt p.words (f - p.start) = true := by
          unfold bitAt; rw [hwd]
          rw [and_bitMask_eq_zero] at hz
          simpa using hz
        have hn : p.n = p.end_ - p.start + 1 := rfl
        have hk : f - p.start < p.n := by omega
        have hlen : (f - p.start) / 64 < p.words.length := (List.getElem?_eq_some_iff.1 hw).1
        obtain ⟨hp'inv, hp'fc, hp'free⟩ := pool_give hpinv (f - p.start) hk hset hlen
        have hfeq : p.start + (f - p.start) = f := by omega
        rw [hfeq] at hp'free
        have hnotfree : ¬ isFree bm f := by
          rintro ⟨q, hq, hqf⟩
          obtain ⟨j, hj⟩ := List.mem_iff_getElem?.1 hq
          have := sorted_unique hI.sorted hj hpi f (freeAt_range hqf) hin
          subst this
          rw [hpi] at hj; injection hj with hj; subst hj
          unfold Pool.freeAt at hqf
          simp [hset] at hqf
        have hsum := sum_map_set bm.pools (·.freeCount) i (p.give (f - p.start)) p hpi
        have hnsum := sum_map_set bm.pools (·.n) i (p.give (f - p.start)) p hpi
        have hn' : (p.give (f - p.start)).n = p.n := rfl
        have hacct := hI.acct
        have htot := hI.tot
        have hle := hI.le
        have hsmall := hI.small
        unfold freeSum at hacct
        unfold nSum at htot
        have hfclt : p.freeCount < p.n := by
          have := freeCount_le_n hp'inv
          rw [hp'fc, hn'] at this; omega
        have hlt := sum_lt_sum bm.pools (·.freeCount) (·.n)
          (fun x hx => freeCount_le_n (hI.pools x hx)) i p hpi hfclt
        have hdec : dec32 bm.reserved = bm.reserved - 1 := dec32_eq _ (by omega) (by omega)
        refine ⟨hnotfree, ⟨?_, ?_, ?_, hsmall, ?_, ?_⟩, ?_, rfl, ?_, ?_⟩
        · intro q hq
          rcases (mem_set_iff hpi q).1 hq with rfl | ⟨j, _, hj⟩
          · exact hp'inv
          · exact hI.pools q (List.mem_of_getElem? hj)
        · show RangesSorted (ranges (bm.pools.set i _))
          rw [ranges_set bm.pools i p (p.give (f - p.start)) hpi rfl rfl]; exact hI.sorted
        · show dec32 bm.reserved ≤ bm.total
          rw [hdec]; omega
        · show bm.total - dec32 bm.reserved = freeSum (bm.pools.set i _)
          unfold freeSum; rw [hdec]; omega
        · show bm.total = nSum (bm.pools.set i _)
          unfold nSum; omega
        · exact ranges_set bm.pools i p (p.give (f - p.start)) hpi rfl rfl
        · show dec32 bm.reserved + 1 = bm.reserved
          rw [hdec]; omega
        · intro g
          constructor
          · rintro ⟨q, hq, hqf⟩
            rcases (mem_set_iff hpi q).1 hq with rfl | ⟨j, hne, hj⟩
            · rw [hp'free] at hqf
              simp only [Bool.or_eq_true, decide_eq_true_eq] at hqf
              rcases hqf with hqf | hqf
              · exact Or.inl ⟨p, hpm, hqf⟩
              · exact Or.inr hqf
            · exact Or.inl ⟨q, List.mem_of_getElem? hj, hqf⟩
          · rintro (⟨q, hq, hqf⟩ | rfl)
            · obtain ⟨j, hj⟩ := List.mem_iff_getElem?.1 hq
              by_cases e : j = i
              · subst e
                rw [hpi] at hj; injection hj with hj; subst hj
                refine ⟨_, (mem_set_iff hpi _).2 (Or.inl rfl), ?_⟩
                rw [hp'free]; simp [hqf]
              · exact ⟨q, (mem_set_iff hpi q).2 (Or.inr ⟨j, e, hj⟩), hqf⟩
            · refine ⟨_, (mem_set_iff hpi _).2 (Or.inl rfl), ?_⟩
              rw [hp'free]; simp

/-- **free_never_panics** — on a state satisfying the invariant `FreeFrame` never indexes outside
a bitmap. -/
theorem free_never_panics {bm : Bitmap} (hI : Inv bm) (f : Nat) : (free bm f).2 ≠ .panic := by
  unfold free
  cases hp : poolForFrame bm.pools f with
  | none => simp
  | some i =>
    obtain ⟨p, hpi, hin⟩ := poolForFrame_some hp
    simp only [hpi]
    have hpinv := hI.pools p (List.mem_of_getElem? hpi)
    have hn : p.n = p.end_ - p.start + 1 := rfl
    have hlen := hpinv.len
    unfold wordsFor at hlen
    have : (f - p.start) / 64 < p.words.length := by omega
    rw [List.getElem?_eq_getElem this]
    simp only
    split <;> simp

end Firefly.Pmm
