import Firefly.Proof.AmlFirstPass
import Firefly.Proof.AmlTreeAbs
import Firefly.Proof.AmlTreeFind
/-!
Panic-freedom and well-formedness of the tree passes that do not free objects
(`attachSiblingsAsArgs`, `connectNamedObjArgs`, …): whatever they return, they do not end in `.panic`,
and in the state they return the pool satisfies `C13.WF` with the same set of live slots.
Termination (the fuel bound) is not part of these statements.
-/
namespace Firefly.AmlParser
open Firefly.AmlLex Firefly.AmlTree Firefly.C13
open Firefly.Gen.C12

/-! local copies of three one-line wrappers of `Props/C13.lean` (so that this file does not import a `Props` file) -/

theorem find_total' {t : ObjectTree} (w : WF t) (hroot : live t 0 = true) (scope : Nat)
    (hs : scope = INV ∨ live t scope = true) (expr : List UInt8) :
    ∃ r, t.Find scope expr = .ok r ∧ (r = INV ∨ live t r = true) :=
  find_ok w scope expr hroot hs

theorem numArgs_total' {t : ObjectTree} (w : WF t) (i : Nat) (hl : live t i = true) :
    ∃ k, t.NumArgs (some i) = .ok k := by
  obtain ⟨l, hc, ha, hlen⟩ := w.args_eq hl
  have := countLoop_eq w.size_le l t.fuel _ 0 hc (by simp [ObjectTree.fuel]; omega)
  simp only [Fi] at this
  exact ⟨0 + l.length, by simp [ObjectTree.NumArgs, obj_eq (live_lt hl), bind, Except.bind, this]⟩

theorem closestNamedAncestor_total' {t : ObjectTree} (w : WF t) (named : Nat → Option Bool)
    (hn : ∀ i, live t i = true → (named (slot t i).infoIndex).isSome = true)
    (i : Nat) (hl : live t i = true) :
    ∃ r, t.ClosestNamedAncestor named (some i) = .ok r ∧ (r = INV ∨ live t r = true) := by
  obtain ⟨l, hc, hlen⟩ := w.parChain (C13.P t i) (w.links hl).1
  have := closestLoop_ok w.size_le named hn l t.fuel _ hc (by simp [ObjectTree.fuel]; omega)
  simpa [ObjectTree.ClosestNamedAncestor, obj_eq (live_lt hl), bind, Except.bind, C13.P, GoodIdx] using this

/-- `x` run from `s` does not panic (it returns, or runs out of fuel), and `Q` holds of what it returns -/
def NPs {α : Type} (x : P α) (s : PState) (Q : α → PState → Prop) : Prop :=
  (∀ e, x s = .error e → e = .outOfFuel) ∧ (∀ a s', x s = .ok (a, s') → Q a s')

theorem NPs.bind {α β : Type} {x : P α} {f : α → P β} {s : PState} {Q : α → PState → Prop} {R : β → PState → Prop}
    (hx : NPs x s Q) (hf : ∀ a s1, Q a s1 → NPs (f a) s1 R) : NPs (x >>= f) s R := by
  show NPs (StateT.bind x f) s R
  unfold NPs StateT.bind
  cases hxs : x s with
  | error e =>
    have := hx.1 e hxs
    refine ⟨fun e' he' => ?_, fun a s' he' => ?_⟩
    · simp only [bind, Except.bind] at he'; cases he'; exact this
    · simp only [bind, Except.bind] at he'; cases he'
  | ok p =>
    obtain ⟨a, s1⟩ := p
    have h1 := hf a s1 (hx.2 a s1 hxs)
    exact ⟨fun e' he' => h1.1 e' he', fun b s' he' => h1.2 b s' he'⟩

theorem NPs.pure {α : Type} {a : α} {s : PState} {Q : α → PState → Prop} (h : Q a s) : NPs (pure a : P α) s Q :=
  ⟨fun e he => (by cases he), fun b s' he => (by cases he; exact h)⟩

theorem NPs.fuel {α : Type} {s : PState} {Q : α → PState → Prop} : NPs (throw .outOfFuel : P α) s Q :=
  ⟨fun e he => (by cases he; rfl), fun b s' he => (by cases he)⟩

theorem NPs.of_eq {α : Type} {x : P α} {s s1 : PState} {a : α} {Q : α → PState → Prop} (e : x s = .ok (a, s1)) (h : Q a s1) :
    NPs x s Q :=
  ⟨fun e' he => (by rw [e] at he; cases he), fun b s' he => (by rw [e] at he; cases he; exact h)⟩

theorem NPs.of_ex {α : Type} {x : P α} {s : PState} {Q : α → PState → Prop} (h : ∃ a s1, x s = .ok (a, s1) ∧ Q a s1) :
    NPs x s Q := by
  obtain ⟨a, s1, e, hq⟩ := h
  exact NPs.of_eq e hq

theorem NPs.mono {α : Type} {x : P α} {s : PState} {Q R : α → PState → Prop} (h : NPs x s Q) (hq : ∀ a s', Q a s' → R a s') :
    NPs x s R :=
  ⟨h.1, fun a s' he => hq a s' (h.2 a s' he)⟩

/-- a step that returns `(a, s1)` followed by `f a` -/
theorem NPs.step {α β : Type} {x : P α} {f : α → P β} {s s1 : PState} {a : α} {R : β → PState → Prop}
    (e : x s = .ok (a, s1)) (hf : NPs (f a) s1 R) : NPs (x >>= f) s R :=
  NPs.bind (NPs.of_eq (Q := fun a' s' => a' = a ∧ s' = s1) e ⟨rfl, rfl⟩) (fun a' s' h => by rw [h.1, h.2]; exact hf)

/-! ## the invariant of the tree passes -/

/-- invariant of the parser state during the tree passes -/
structure TP (s : PState) : Prop where
  wf : WF s.tree
  root : live s.tree 0 = true
  info : ∀ x, live s.tree x = true → InfoOK (slot s.tree x).infoIndex

/-- nothing was created or freed -/
structure Mv (s s' : PState) : Prop where
  size : s'.tree.pool.size = s.tree.pool.size
  live : ∀ x, live s'.tree x = live s.tree x
  handle : s'.tableHandle = s.tableHandle
  /-- the reader and the two stacks are not touched by the tree passes -/
  rs : s'.r = s.r ∧ s'.scopeStack = s.scopeStack ∧ s'.pkgEndStack = s.pkgEndStack ∧ s'.streamEnd = s.streamEnd

theorem Mv.refl (s : PState) : Mv s s := ⟨rfl, fun _ => rfl, rfl, rfl, rfl, rfl, rfl⟩
theorem Mv.trans {a b c : PState} (h1 : Mv a b) (h2 : Mv b c) : Mv a c :=
  ⟨by rw [h2.size, h1.size], fun x => by rw [h2.live, h1.live], by rw [h2.handle, h1.handle],
   by rw [h2.rs.1, h1.rs.1], by rw [h2.rs.2.1, h1.rs.2.1], by rw [h2.rs.2.2.1, h1.rs.2.2.1], by rw [h2.rs.2.2.2, h1.rs.2.2.2]⟩

theorem getObj_live {s : PState} {i : Nat} (h : live s.tree i = true) : getObj i s = .ok (slot s.tree i, s) :=
  getObj_ex (live_lt h)

theorem objectAt_live' {s : PState} {i : Nat} (h : live s.tree i = true) : objectAt i s = .ok (some i, s) := by
  unfold objectAt
  rw [objectAt_live h]
  rfl

/-! ### acyclicity facts from `WF.rank` and `WF.order` -/

theorem wf_P_ne_self {t : ObjectTree} (w : WF t) {x : Nat} (hx : live t x = true) : C13.P t x ≠ x := by
  obtain ⟨rk, hrk⟩ := w.rank
  intro e
  have := hrk x hx (by rw [e]; exact live_ne_INV w.size_le hx)
  rw [e] at this; omega

theorem wf_P_P_ne {t : ObjectTree} (w : WF t) {x y : Nat} (hx : live t x = true) (hy : live t y = true)
    (hxy : C13.P t x = y) : C13.P t y ≠ x := by
  obtain ⟨rk, hrk⟩ := w.rank
  intro e
  have h1 := hrk x hx (by rw [hxy]; exact live_ne_INV w.size_le hy)
  have h2 := hrk y hy (by rw [e]; exact live_ne_INV w.size_le hx)
  rw [hxy] at h1; rw [e] at h2; omega

theorem wf_Nx_ne_self {t : ObjectTree} (w : WF t) {x : Nat} (hx : live t x = true) : Nx t x ≠ x := by
  obtain ⟨pos, hpos⟩ := w.order
  intro e
  have := hpos x hx (by rw [e]; exact live_ne_INV w.size_le hx)
  rw [e] at this; omega

/-- an ancestor-or-self has a rank that is not larger -/
theorem isAnc_rank {t : ObjectTree} (w : WF t) (rk : Nat → Nat)
    (hrk : ∀ i, live t i = true → C13.P t i ≠ INV → rk (C13.P t i) < rk i) (a : Nat) :
    ∀ (f x : Nat), live t x = true → C13.isAncestorOrSelf t a f x = true → rk a ≤ rk x := by
  intro f
  induction f with
  | zero => intro x _ h; simp [C13.isAncestorOrSelf] at h
  | succ f ih =>
    intro x hx h
    simp only [C13.isAncestorOrSelf, Bool.or_eq_true, decide_eq_true_eq, Bool.and_eq_true, ne_eq, decide_not,
      Bool.not_eq_true', decide_eq_false_iff_not] at h
    rcases h with h | ⟨hp, h⟩
    · rw [h]; exact Nat.le_refl _
    · have hlp : live t (C13.P t x) = true := by
        rcases (w.lP hx).lp with h0 | h0
        · exact absurd h0 hp
        · exact h0
      have := ih _ hlp h
      have := hrk x hx hp
      omega

/-! ### tree operations as steps -/

theorem TP.ofTree {s : PState} (h : TP s) {t' : ObjectTree} (w' : WF t') (hl : ∀ x, live t' x = live s.tree x)
    (sp : SamePay s.tree t') : TP { s with tree := t' } := by
  refine ⟨w', by show live t' 0 = true; rw [hl]; exact h.root, ?_⟩
  intro x hx
  show InfoOK (slot t' x).infoIndex
  have hpay := congrArg (fun p => p.2.1) (sp.pay x)
  have : (slot t' x).infoIndex = (slot s.tree x).infoIndex := hpay
  rw [this]
  exact h.info x (by rw [← hl]; exact hx)

/-- `detach(obj, arg)` under its contract -/
theorem detach_step' {s : PState} (h : TP s) {obj arg : Nat} (ho : live s.tree obj = true) (ha : live s.tree arg = true)
    (hp : C13.P s.tree arg = obj) :
    ∃ s1, tree (·.detach obj arg) s = .ok ((), s1) ∧ TP s1 ∧ Mv s s1 ∧ s1 = { s with tree := s1.tree } ∧
      SamePay s.tree s1.tree ∧
      (∀ x, C13.P s1.tree x = if x = arg then INV else C13.P s.tree x) ∧
      (∀ x, Nx s1.tree x = if x = arg then INV else if x = Pv s.tree arg ∧ Pv s.tree arg ≠ INV then Nx s.tree arg else Nx s.tree x) ∧
      (∀ x, La s1.tree x = if x = obj ∧ La s.tree obj = arg then Pv s.tree arg else La s.tree x) ∧
      (∀ x, Fi s1.tree x = if x = obj ∧ Fi s.tree obj = arg then Nx s.tree arg else Fi s.tree x) := by
  have hpre : detachPre s.tree obj arg = true := by
    simp only [detachPre, Bool.and_eq_true, decide_eq_true_eq]
    exact ⟨⟨ho, ha⟩, hp⟩
  obtain ⟨t', e, w', hsz, hlive, _, hP, _, hNx, hFi, hLa⟩ := detach_wf h.wf hpre
  have sp := detach_samePay e
  exact ⟨_, tree_ex e, h.ofTree w' hlive sp, ⟨hsz, hlive, rfl, rfl, rfl, rfl, rfl⟩, rfl, sp, hP, hNx, hLa, hFi⟩

/-- `append(obj, arg)` under its contract -/
theorem append_step' {s : PState} (h : TP s) {obj arg : Nat} (hpre : appendPre s.tree obj arg = true) :
    ∃ s1, tree (·.append obj arg) s = .ok ((), s1) ∧ TP s1 ∧ Mv s s1 ∧ s1 = { s with tree := s1.tree } ∧
      SamePay s.tree s1.tree ∧
      (∀ x, C13.P s1.tree x = if x = arg then obj else C13.P s.tree x) ∧
      (∀ x, Nx s1.tree x = if x = arg then INV else if x = La s.tree obj ∧ La s.tree obj ≠ INV then arg else Nx s.tree x) ∧
      (∀ x, Fi s1.tree x = if x = obj ∧ La s.tree obj = INV then arg else Fi s.tree x) := by
  obtain ⟨t', e, w', hsz, hlive, _, hP, _, hNx, hFi, _⟩ := append_wf h.wf hpre
  have sp := append_samePay e
  exact ⟨_, tree_ex e, h.ofTree w' hlive sp, ⟨hsz, hlive, rfl, rfl, rfl, rfl, rfl⟩, rfl, sp, hP, hNx, hFi⟩

/-- the ancestor walk only looks at parents of nodes other than the one searched for -/
theorem isAnc_congr {t t' : ObjectTree} (a : Nat) (hP : ∀ x, x ≠ a → C13.P t' x = C13.P t x) :
    ∀ (f x : Nat), C13.isAncestorOrSelf t' a f x = C13.isAncestorOrSelf t a f x := by
  intro f
  induction f with
  | zero => intro x; rfl
  | succ f ih =>
    intro x
    simp only [C13.isAncestorOrSelf]
    by_cases hx : x = a
    · simp [hx]
    · rw [hP x hx, ih]

/-- moving the live node `sib` (a child of `p`) to the end of `target`'s list, when `sib` is not an
ancestor of `target` -/
theorem move_step {s : PState} (h : TP s) {p target sib : Nat} (ht : live s.tree target = true) (hs : live s.tree sib = true)
    (hp : C13.P s.tree sib = p) (hpl : live s.tree p = true) (htp : target ≠ p)
    (hanc : C13.isAncestorOrSelf s.tree sib s.tree.fuel target = false) :
    ∃ s1 s2, tree (·.detach p sib) s = .ok ((), s1) ∧ tree (·.append target sib) s1 = .ok ((), s2) ∧ TP s2 ∧ Mv s s2 ∧
      s2 = { s with tree := s2.tree } ∧ SamePay s.tree s2.tree ∧
      (∀ x, C13.P s2.tree x = if x = sib then target else C13.P s.tree x) ∧
      (∀ x, Nx s2.tree x = if x = sib then INV else if x = La s.tree target ∧ La s.tree target ≠ INV then sib
        else if x = Pv s.tree sib ∧ Pv s.tree sib ≠ INV then Nx s.tree sib else Nx s.tree x) := by
  obtain ⟨s1, e1, h1, m1, hs1, sp1, hP1, hNx1, hLa1, _⟩ := detach_step' h hpl hs hp
  have hla : La s1.tree target = La s.tree target := by
    rw [hLa1, if_neg (fun hc => htp hc.1)]
  have hpre : appendPre s1.tree target sib = true := by
    simp only [appendPre, Bool.and_eq_true, decide_eq_true_eq, Bool.not_eq_true']
    refine ⟨⟨⟨by rw [m1.live]; exact ht, by rw [m1.live]; exact hs⟩, by rw [hP1, if_pos rfl]⟩, ?_⟩
    have hf : s1.tree.fuel = s.tree.fuel := by unfold ObjectTree.fuel; rw [m1.size]
    rw [hf, isAnc_congr (t := s.tree) (t' := s1.tree) sib (fun x hx => by rw [hP1, if_neg hx])]
    exact hanc
  obtain ⟨s2, e2, h2, m2, hs2, sp2, hP2, hNx2, _⟩ := append_step' h1 hpre
  refine ⟨s1, s2, e1, e2, h2, m1.trans m2, ?_, sp1.trans sp2, ?_, ?_⟩
  · rw [hs2, hs1]
  · intro x
    rw [hP2]
    split
    · rfl
    · rename_i hx; rw [hP1, if_neg hx]
  · intro x
    rw [hNx2, hla]
    split
    · rfl
    · split
      · rfl
      · rename_i hx _; rw [hNx1, if_neg hx]

theorem isAnc_step {t : ObjectTree} {a f x : Nat} (h : C13.isAncestorOrSelf t a f x = true) (hne : x ≠ a) :
    ∃ f', f = f' + 1 ∧ C13.P t x ≠ INV ∧ C13.isAncestorOrSelf t a f' (C13.P t x) = true := by
  cases f with
  | zero => simp [C13.isAncestorOrSelf] at h
  | succ f' =>
    simp only [C13.isAncestorOrSelf, Bool.or_eq_true, decide_eq_true_eq, Bool.and_eq_true, ne_eq, decide_not,
      Bool.not_eq_true', decide_eq_false_iff_not] at h
    rcases h with h | ⟨hp, h⟩
    · exact absurd h hne
    · exact ⟨f', rfl, hp, h⟩

/-- a node is not an ancestor of its own parent -/
theorem anc_parent_absurd {t : ObjectTree} (w : WF t) {a p f : Nat} (ha : live t a = true) (hp : C13.P t a = p)
    (hpl : live t p = true) (h : C13.isAncestorOrSelf t a f p = true) : False := by
  obtain ⟨rk, hrk⟩ := w.rank
  have h1 := isAnc_rank w rk hrk a f p hpl h
  have h2 := hrk a ha (by rw [hp]; exact live_ne_INV w.size_le hpl)
  rw [hp] at h2
  omega

theorem invalidIndex_eq : invalidIndex = INV := rfl

/-! ### frames: the ancestors of a node keep their parents -/

/-- every ancestor-or-self of `x` has the same parent in `s'` as in `s` -/
def Frame (s s' : PState) (x : Nat) : Prop := ∀ a, anc s.tree a x → C13.P s'.tree a = C13.P s.tree a

theorem Frame.refl (s : PState) (x : Nat) : Frame s s x := fun _ _ => rfl

theorem chain_transfer {t t' : ObjectTree} (hl : ∀ y, live t' y = live t y) :
    ∀ (l : List Nat) (x : Nat), Chain t (C13.P t) x l → (∀ y ∈ l, C13.P t' y = C13.P t y) → Chain t' (C13.P t') x l := by
  intro l
  induction l with
  | nil => intro x h _; exact h
  | cons y ys ih =>
    intro x h hp
    obtain ⟨rfl, hy, hc⟩ := h
    refine ⟨rfl, by rw [hl]; exact hy, ?_⟩
    rw [hp x (List.mem_cons_self ..)]
    exact ih _ hc (fun z hz => hp z (List.mem_cons_of_mem _ hz))

/-- under a frame for `x`, `x` has the same ancestors -/
theorem anc_of_frame {s s' : PState} (h : TP s) (m : Mv s s') {x : Nat} (hx : live s.tree x = true) (fr : Frame s s' x) (a : Nat) :
    anc s'.tree a x ↔ anc s.tree a x := by
  obtain ⟨l, hc, _⟩ := h.wf.parChain x (Or.inr hx)
  have hc' : Chain s'.tree (C13.P s'.tree) x l :=
    chain_transfer m.live l x hc (fun y hy => fr y ⟨l, hc, hy⟩)
  constructor
  · rintro ⟨l', hc2, hm⟩
    have : l' = l := chain_det (C13.P s'.tree) (by rw [m.size]; exact h.wf.size_le) _ _ _ hc2 hc'
    rw [this] at hm
    exact ⟨l, hc, hm⟩
  · rintro ⟨l', hc2, hm⟩
    have : l' = l := chain_det (C13.P s.tree) h.wf.size_le _ _ _ hc2 hc
    rw [this] at hm
    exact ⟨l, hc', hm⟩

theorem Frame.trans {a b c : PState} (h : TP a) (m : Mv a b) {x : Nat} (hx : live a.tree x = true)
    (f1 : Frame a b x) (f2 : Frame b c x) : Frame a c x := by
  intro y hy
  rw [f2 y ((anc_of_frame h m hx f1 y).2 hy), f1 y hy]

/-- the ancestors of the parent are ancestors of the child -/
theorem Frame.lift {s s' : PState} (h : TP s) {c obj : Nat} (hc : live s.tree c = true) (hp : C13.P s.tree c = obj)
    (f : Frame s s' c) : Frame s s' obj := by
  intro a ha
  apply f
  by_cases hca : c = a
  · rw [← hca]; exact h.wf.anc_self hc
  · rw [h.wf.anc_step hc hca, hp]; exact ha

theorem Frame.self {s s' : PState} (h : TP s) {x : Nat} (hx : live s.tree x = true) (f : Frame s s' x) :
    C13.P s'.tree x = C13.P s.tree x := f x (h.wf.anc_self hx)


/-- `attachSiblingsAsArgs(parentObj, targetObj, numArgs, useParentSiblings)` started at the sibling behind
`targetObj` (or, those exhausted, behind its parent): never panics, keeps the pool well-formed and frees nothing -/
theorem attach_np (parentObj targetObj : Nat) (useParent : Bool) :
    ∀ (n sib0 : Nat) {s : PState}, TP s → live s.tree targetObj = true → live s.tree parentObj = true →
      (useParent = true → C13.P s.tree targetObj = parentObj) →
      (sib0 = Nx s.tree targetObj ∨ (useParent = true ∧ Nx s.tree targetObj = INV ∧ sib0 = Nx s.tree parentObj)) →
      NPs (attachSiblingsAsArgs parentObj targetObj useParent n sib0) s (fun _ s' => TP s' ∧ Mv s s' ∧ Frame s s' targetObj ∧ SamePay s.tree s'.tree) := by
  intro n
  induction n with
  | zero =>
    intro sib0 s h _ _ _ _
    unfold attachSiblingsAsArgs
    exact NPs.pure ⟨h, Mv.refl s, Frame.refl s _, SamePay.refl _⟩
  | succ n ih =>
    intro sib0 s h ht hpo hup hsib
    have w := h.wf
    have hinv : ∀ j, live s.tree j = true → j ≠ INV := fun j hj => live_ne_INV w.size_le hj
    unfold attachSiblingsAsArgs
    have main : ∀ S, (S = INV ∨ (S = Nx s.tree targetObj ∧ S ≠ INV) ∨
        (useParent = true ∧ Nx s.tree targetObj = INV ∧ S = Nx s.tree parentObj ∧ S ≠ INV)) →
        NPs (if S = invalidIndex then pure PRes.failed else do
          let __do_lift ← objectAt S
          let siblingObj ← derefP __do_lift
          let so ← getObj siblingObj
          let __do_lift ← objectAt so.parentIndex
          let realParent ← derefP __do_lift
          tree fun x => x.detach realParent siblingObj
          tree fun x => x.append targetObj siblingObj
          attachSiblingsAsArgs parentObj targetObj useParent n so.nextSiblingIndex) s (fun _ s' => TP s' ∧ Mv s s' ∧ Frame s s' targetObj ∧ SamePay s.tree s'.tree) := by
      intro S hcls
      by_cases hS0 : S = invalidIndex
      · rw [if_pos hS0]
        exact NPs.pure ⟨h, Mv.refl s, Frame.refl s _, SamePay.refl _⟩
      · rw [if_neg hS0]
        have lt := w.lP ht
        have lq := w.lP hpo
        -- the facts about the sibling that is moved
        have facts : live s.tree S = true ∧ live s.tree (C13.P s.tree S) = true ∧ targetObj ≠ C13.P s.tree S ∧ targetObj ≠ S ∧
            C13.isAncestorOrSelf s.tree S s.tree.fuel targetObj = false ∧
            (La s.tree targetObj ≠ targetObj) ∧
            ((Pv s.tree S = targetObj) ∨
              (useParent = true ∧ Nx s.tree targetObj = INV ∧ Pv s.tree S = parentObj ∧ targetObj ≠ parentObj ∧
                parentObj ≠ S ∧ La s.tree targetObj ≠ parentObj)) := by
          have hlat : La s.tree targetObj ≠ targetObj := by
            intro e
            have := (lt.la (by rw [e]; exact hinv _ ht)).1
            rw [e] at this
            exact wf_P_ne_self w ht this
          rcases hcls with h0 | ⟨hA, hA0⟩ | ⟨hB1, hB2, hB3, hB0⟩
          · exact absurd h0 hS0
          · -- the next sibling of `targetObj`
            have hnx : Nx s.tree targetObj ≠ INV := by rw [← hA]; exact hA0
            have hSl : live s.tree S = true := by
              rcases lt.lnx with h1 | h1
              · exact absurd h1 hnx
              · rw [hA]; exact h1
            obtain ⟨hpv, hpp⟩ := lt.nx hnx
            rw [← hA] at hpv hpp
            have hpt : C13.P s.tree targetObj ≠ INV := fun e => hnx (lt.det e).2
            have hpl : live s.tree (C13.P s.tree S) = true := by
              rw [hpp]
              rcases lt.lp with h1 | h1
              · exact absurd h1 hpt
              · exact h1
            have hne : targetObj ≠ S := by rw [hA]; exact fun e => wf_Nx_ne_self w ht e.symm
            refine ⟨hSl, hpl, by rw [hpp]; exact fun e => wf_P_ne_self w ht e.symm, hne, ?_, hlat, Or.inl hpv⟩
            cases hanc : C13.isAncestorOrSelf s.tree S s.tree.fuel targetObj with
            | false => rfl
            | true =>
              exfalso
              obtain ⟨f', _, _, h2⟩ := isAnc_step hanc hne
              rw [← hpp] at h2
              exact anc_parent_absurd w hSl rfl hpl h2
          · -- the next sibling of the parent
            have hq : C13.P s.tree targetObj = parentObj := hup hB1
            have hSl : live s.tree S = true := by
              rcases lq.lnx with h1 | h1
              · rw [hB3] at hB0; exact absurd h1 hB0
              · rw [hB3]; exact h1
            have hnxq : Nx s.tree parentObj ≠ INV := by rw [← hB3]; exact hB0
            obtain ⟨hpv, hpp⟩ := lq.nx hnxq
            rw [← hB3] at hpv hpp
            have hpq : C13.P s.tree parentObj ≠ INV := fun e => hnxq (lq.det e).2
            have hpl : live s.tree (C13.P s.tree S) = true := by
              rw [hpp]
              rcases lq.lp with h1 | h1
              · exact absurd h1 hpq
              · exact h1
            have htq : targetObj ≠ parentObj := by rw [← hq]; exact fun e => wf_P_ne_self w ht e.symm
            have hqS : parentObj ≠ S := by rw [hB3]; exact fun e => wf_Nx_ne_self w hpo e.symm
            have hne : targetObj ≠ S := by
              intro e
              have h1 : C13.P s.tree parentObj = parentObj := by rw [← hpp, ← e, hq]
              exact wf_P_ne_self w hpo h1
            have htp : targetObj ≠ C13.P s.tree S := by
              rw [hpp]
              intro e
              exact wf_P_P_ne w ht hpo hq e.symm
            have hlaq : La s.tree targetObj ≠ parentObj := by
              intro e
              have := (lt.la (by rw [e]; exact hinv _ hpo)).1
              rw [e] at this
              exact wf_P_P_ne w ht hpo hq this
            refine ⟨hSl, hpl, htp, hne, ?_, hlat, Or.inr ⟨hB1, hB2, hpv, htq, hqS, hlaq⟩⟩
            cases hanc : C13.isAncestorOrSelf s.tree S s.tree.fuel targetObj with
            | false => rfl
            | true =>
              exfalso
              obtain ⟨f', _, _, h2⟩ := isAnc_step hanc hne
              rw [hq] at h2
              obtain ⟨f'', _, _, h3⟩ := isAnc_step h2 hqS
              rw [← hpp] at h3
              exact anc_parent_absurd w hSl rfl hpl h3
        obtain ⟨hSl, hpl, htp, hne, hanc, hlat, hpvS⟩ := facts
        refine NPs.step (objectAt_live' hSl) ?_
        refine NPs.step (derefP_some_ex S) ?_
        refine NPs.step (getObj_live hSl) ?_
        refine NPs.step (objectAt_live' hpl) ?_
        refine NPs.step (derefP_some_ex _) ?_
        obtain ⟨s1, s2, e1, e2, h2, m2, hs2, sp2, hP2, hNx2⟩ := move_step h ht hSl rfl hpl htp hanc
        refine NPs.step e1 ?_
        refine NPs.step e2 ?_
        -- the invariant for the next round
        have hup2 : useParent = true → C13.P s2.tree targetObj = parentObj := by
          intro hu; rw [hP2, if_neg hne]; exact hup hu
        have hNt : Nx s2.tree targetObj = if targetObj = Pv s.tree S ∧ Pv s.tree S ≠ INV then Nx s.tree S else Nx s.tree targetObj := by
          rw [hNx2, if_neg hne, if_neg (fun hc => hlat hc.1.symm)]
        have hsib2 : Nx s.tree S = Nx s2.tree targetObj ∨
            (useParent = true ∧ Nx s2.tree targetObj = INV ∧ Nx s.tree S = Nx s2.tree parentObj) := by
          rcases hpvS with hA | ⟨hB1, hB2, hpv, htq, hqS, hlaq⟩
          · left
            rw [hNt, if_pos ⟨hA.symm, by rw [hA]; exact hinv _ ht⟩]
          · right
            refine ⟨hB1, ?_, ?_⟩
            · rw [hNt, if_neg (fun hc => htq (by rw [hc.1, hpv])), hB2]
            · rw [hNx2, if_neg hqS, if_neg (fun hc => hlaq hc.1.symm), if_pos ⟨hpv.symm, by rw [hpv]; exact hinv _ hpo⟩]
        have := ih (Nx s.tree S) h2 (by rw [m2.live]; exact ht) (by rw [m2.live]; exact hpo) hup2 hsib2
        have fr2 : Frame s s2 targetObj := by
          intro a ha
          rw [hP2]
          split
          · rename_i haS
            exfalso
            rw [haS] at ha
            exact h.wf.not_anc ht hanc ha
          · rfl
        exact this.mono (fun a s' hq => ⟨hq.1, m2.trans hq.2.1, Frame.trans h m2 ht fr2 hq.2.2.1, sp2.trans hq.2.2.2⟩)

    dsimp only
    split
    · rename_i hc
      refine NPs.step (getObj_live hpo) ?_
      refine NPs.step (a := Nx s.tree parentObj) (s1 := s) rfl ?_
      apply main
      by_cases hS0 : Nx s.tree parentObj = INV
      · exact Or.inl hS0
      · right; right
        rcases hsib with h1 | ⟨h1, h2, h3⟩
        · exact ⟨hc.2, by rw [← h1]; exact hc.1, rfl, hS0⟩
        · exact ⟨h1, h2, rfl, hS0⟩
    · rename_i hc
      refine NPs.step (a := sib0) (s1 := s) rfl ?_
      apply main
      by_cases hS0 : sib0 = INV
      · exact Or.inl hS0
      · right
        rcases hsib with h1 | ⟨h1, h2, h3⟩
        · exact Or.inl ⟨h1, hS0⟩
        · exact Or.inr ⟨h1, h2, h3, hS0⟩

/-! ### `connectNamedObjArgs` -/

/-- a payload update of a live slot -/
theorem updObj_tp {s : PState} (h : TP s) {i : Nat} (hi : live s.tree i = true) (f : Obj → Obj) (hf : KeepsLinks f)
    (hl : KeepsLive s.tree i f) (hinfo : InfoOK (f (slot s.tree i)).infoIndex) :
    ∃ s1, updObj i f s = .ok ((), s1) ∧ TP s1 ∧ Mv s s1 ∧ SameLinks s.tree s1.tree := by
  have hlt := live_lt hi
  have sl := sameLinks_setAt s.tree i f hf hl
  refine ⟨_, updObj_ex f hlt, ⟨wf_of_sameLinks h.wf sl, ?_, ?_⟩, ⟨sl.size, sl.live, rfl, rfl, rfl, rfl, rfl⟩, sl⟩
  · show live (setAt s.tree i f) 0 = true
    rw [sl.live]; exact h.root
  · intro x hx
    show InfoOK (slot (setAt s.tree i f) x).infoIndex
    have hx' : live s.tree x = true := by rw [← sl.live]; exact hx
    rw [slot_setAt']
    split
    · rename_i hc; rw [← hc.1]; exact hinfo
    · exact h.info x hx'

theorem firstTermArg_np (info : Nat) (hinfo : InfoOK info) (argCount : Nat) :
    ∀ (n i : Nat) (s : PState), NPs (firstTermArg info n i argCount) s (fun _ s' => s' = s) := by
  intro n
  induction n with
  | zero => intro i s; unfold firstTermArg; exact NPs.pure rfl
  | succ n ih =>
    intro i s
    unfold firstTermArg
    split
    · rw [opArg_of_info hinfo i]
      refine NPs.step (optP_ex _ s) ?_
      split
      · exact NPs.pure rfl
      · exact ih (i + 1) s
    · exact NPs.pure rfl

theorem numArgs_np {s : PState} (h : TP s) {obj : Nat} (ho : live s.tree obj = true) :
    ∃ k, numArgs obj s = .ok (k, s) := by
  obtain ⟨k, e⟩ := numArgs_total' h.wf obj ho
  refine ⟨k, ?_⟩
  unfold numArgs
  show (StateT.bind getTree _) s = _
  simp only [StateT.bind, getTree, bind, Except.bind, pure, Except.pure, liftR, e]

theorem nextOf_live {s : PState} {i : Nat} (h : live s.tree i = true) : nextOf i s = .ok (Nx s.tree i, s) := by
  unfold nextOf
  show (StateT.bind _ _) s = _
  simp only [StateT.bind, getObj_live h]
  rfl

theorem prevOf_live {s : PState} {i : Nat} (h : live s.tree i = true) : prevOf i s = .ok (Pv s.tree i, s) := by
  unfold prevOf
  show (StateT.bind _ _) s = _
  simp only [StateT.bind, getObj_live h]
  rfl

theorem tableHandle_ex (s : PState) : tableHandle s = .ok (s.tableHandle, s) := rfl

theorem bind_ex' {α β : Type} {x : P α} {f : α → P β} {s s1 s2 : PState} {a : α} {b : β} (e1 : x s = .ok (a, s1))
    (e2 : f a s1 = .ok (b, s2)) : (x >>= f) s = .ok (b, s2) := by
  show (StateT.bind x f) s = _
  simp only [StateT.bind, e1]
  exact e2

/-- one iteration of the `connectNamedObjArgs` loop after the recursive call -/
theorem connectNamedStep_np (d : Bytes) {s : PState} (h : TP s) {obj argObj : Nat} (ho : live s.tree obj = true)
    (ha : live s.tree argObj = true) :
    NPs (connectNamedStep d obj argObj) s (fun _ s' => TP s' ∧ Mv s s') := by
  unfold connectNamedStep
  refine NPs.step (getObj_live ha) ?_
  have hinfo := h.info argObj ha
  obtain ⟨fl, hfl⟩ := opFlags_of_info hinfo
  rw [hfl]
  refine NPs.step (optP_ex fl s) ?_
  refine NPs.step (tableHandle_ex s) ?_
  split
  · exact NPs.pure ⟨h, Mv.refl s⟩
  · rename_i hc
    have hfi : Fi s.tree argObj ≠ INV := by
      intro e
      apply hc
      right; right; left
      exact e
    have hfl : live s.tree (Fi s.tree argObj) = true := by
      rcases (h.wf.lP ha).lfi with h1 | h1
      · exact absurd h1 hfi
      · exact h1
    refine NPs.step (objectAt_live' hfl) ?_
    refine NPs.step (derefP_some_ex _) ?_
    refine NPs.step (getObj_live hfl) ?_
    split
    · exact NPs.pure ⟨h, Mv.refl s⟩
    · rename_i nb _
      split
      · exact NPs.pure ⟨h, Mv.refl s⟩
      · obtain ⟨s1, e1, h1, m1, sl1⟩ := updObj_tp h ha
          (fun o => { o with name := Name.ofList (nb.2.2.drop (nb.2.1 - Gen.C12.amlNameLen)) }) (by keeps_links) Iff.rfl hinfo
        refine NPs.step e1 ?_
        rw [opArgCount_of_info hinfo]
        refine NPs.step (optP_ex _ s1) ?_
        refine NPs.bind (firstTermArg_np _ hinfo _ _ _ s1) ?_
        intro ti s2 hs2
        subst hs2
        have ha1 : live s2.tree argObj = true := by rw [m1.live]; exact ha
        obtain ⟨k, ek⟩ := numArgs_np h1 ha1
        refine NPs.step ek ?_
        split
        · exact NPs.pure ⟨h1, m1⟩
        · refine NPs.step (nextOf_live ha1) ?_
          have := attach_np obj argObj false (argCnt (slot s.tree argObj).infoIndex - ti) (Nx s2.tree argObj) h1 ha1
            (by rw [m1.live]; exact ho) (fun hc => by cases hc) (Or.inl rfl)
          refine NPs.bind this ?_
          intro res s3 hq
          split
          · exact NPs.pure ⟨hq.1, m1.trans hq.2.1⟩
          · exact NPs.pure ⟨hq.1, m1.trans hq.2.1⟩

/-- `connectNamedObjArgs` and its argument loop, by induction on the fuel -/
theorem connectNamed_np (d : Bytes) : ∀ (f : Nat),
    (∀ {s : PState} (objIndex : Nat), TP s → live s.tree objIndex = true →
      NPs (connectNamedObjArgs d f objIndex) s (fun _ s' => TP s' ∧ Mv s s')) ∧
    (∀ {s : PState} (obj argIndex : Nat), TP s → live s.tree obj = true → (argIndex = INV ∨ live s.tree argIndex = true) →
      NPs (connectNamedLoop d f obj argIndex) s (fun _ s' => TP s' ∧ Mv s s')) := by
  intro f
  induction f with
  | zero =>
    constructor
    · intro s _ _ _; unfold connectNamedObjArgs; exact NPs.fuel
    · intro s _ _ _ _ _; unfold connectNamedLoop; exact NPs.fuel
  | succ f ih =>
    constructor
    · intro s objIndex h ho
      unfold connectNamedObjArgs
      refine NPs.step (objectAt_live' ho) ?_
      refine NPs.step (derefP_some_ex _) ?_
      refine NPs.step (getObj_live ho) ?_
      refine ih.2 objIndex _ h ho ?_
      rcases (h.wf.lP ho).lla with h1 | h1
      · exact Or.inl h1
      · exact Or.inr h1
    · intro s obj argIndex h ho ha
      unfold connectNamedLoop
      by_cases hi : argIndex = invalidIndex
      · rw [if_pos hi]; exact NPs.pure ⟨h, Mv.refl s⟩
      · rw [if_neg hi]
        have hal : live s.tree argIndex = true := by
          rcases ha with h1 | h1
          · exact absurd h1 hi
          · exact h1
        refine NPs.step (objectAt_live' hal) ?_
        refine NPs.step (derefP_some_ex _) ?_
        refine NPs.step (getObj_live hal) ?_
        rw [h.wf.index_eq argIndex (live_lt hal)]
        refine NPs.bind (ih.1 argIndex h hal) ?_
        intro res s1 hq
        obtain ⟨h1, m1⟩ := hq
        split
        · exact NPs.pure ⟨h1, m1⟩
        · have ho1 : live s1.tree obj = true := by rw [m1.live]; exact ho
          have ha1 : live s1.tree argIndex = true := by rw [m1.live]; exact hal
          refine NPs.bind (connectNamedStep_np d h1 ho1 ha1) ?_
          intro r s2 hq2
          obtain ⟨h2, m2⟩ := hq2
          cases r with
          | inl res => exact NPs.pure ⟨h2, m1.trans m2⟩
          | inr _ =>
            have ha2 : live s2.tree argIndex = true := by rw [m2.live]; exact ha1
            refine NPs.step (prevOf_live ha2) ?_
            have := ih.2 obj (Pv s2.tree argIndex) h2 (by rw [m2.live]; exact ho1) (by
              rcases (h2.wf.lP ha2).lpv with h3 | h3
              · exact Or.inl h3
              · exact Or.inr h3)
            exact this.mono (fun a s' hq3 => ⟨hq3.1, (m1.trans m2).trans hq3.2⟩)

/-! ### `relocateNamedObjects` -/

/-- attached objects stay attached -/
def KeepAtt (s s' : PState) : Prop := ∀ x, C13.P s.tree x ≠ INV → C13.P s'.tree x ≠ INV

theorem KeepAtt.refl (s : PState) : KeepAtt s s := fun _ h => h
theorem KeepAtt.trans {a b c : PState} (h1 : KeepAtt a b) (h2 : KeepAtt b c) : KeepAtt a c := fun x h => h2 x (h1 x h)
theorem KeepAtt.ofLinks {s s' : PState} (h : SameLinks s.tree s'.tree) : KeepAtt s s' := fun x hx => by rw [h.p]; exact hx

theorem findScopeBlock_np {s : PState} (h : TP s) : ∀ (f i : Nat), (i = INV ∨ live s.tree i = true) →
    NPs (findScopeBlock f i) s (fun r s' => s' = s ∧ ∀ x, r = some x → live s.tree x = true) := by
  intro f
  induction f with
  | zero => intro i _; unfold findScopeBlock; exact NPs.fuel
  | succ f ih =>
    intro i hi
    unfold findScopeBlock
    by_cases h0 : i = invalidIndex
    · rw [if_pos h0]; exact NPs.pure ⟨rfl, fun x hx => by cases hx⟩
    · rw [if_neg h0]
      have hl : live s.tree i = true := by
        rcases hi with h1 | h1
        · exact absurd h1 h0
        · exact h1
      refine NPs.step (objectAt_live' hl) ?_
      refine NPs.step (derefP_some_ex _) ?_
      refine NPs.step (getObj_live hl) ?_
      split
      · exact NPs.pure ⟨rfl, fun x hx => by cases hx; exact hl⟩
      · refine ih _ ?_
        rcases (h.wf.lP hl).lnx with h1 | h1
        · exact Or.inl h1
        · exact Or.inr h1

theorem scopeBlockOf_np {s : PState} (h : TP s) (fuel : Nat) {t0 : Nat} (ht : live s.tree t0 = true) :
    NPs (scopeBlockOf fuel t0) s (fun r s' => s' = s ∧ ∀ x, r = some x → live s.tree x = true) := by
  unfold scopeBlockOf
  refine NPs.step (getObj_live ht) ?_
  split
  · refine findScopeBlock_np h fuel _ ?_
    rcases (h.wf.lP ht).lfi with h1 | h1
    · exact Or.inl h1
    · exact Or.inr h1
  · exact NPs.pure ⟨rfl, fun x hx => by cases hx; exact ht⟩

/-- the guard of `relocateNamedObjects`: when it answers "no", `obj` is not `a` or one of its ancestors -/
theorem isAncP_np {s : PState} (h : TP s) {obj : Nat} (ho : live s.tree obj = true) : ∀ (f a : Nat), live s.tree a = true →
    NPs (AmlParser.isAncestorOrSelf obj f a) s
      (fun r s' => s' = s ∧ (r = false → ∀ f', C13.isAncestorOrSelf s.tree obj f' a = false)) := by
  intro f
  induction f with
  | zero => intro a _; unfold AmlParser.isAncestorOrSelf; exact NPs.fuel
  | succ f ih =>
    intro a ha
    unfold AmlParser.isAncestorOrSelf
    have hne : a ≠ invalidIndex := live_ne_INV h.wf.size_le ha
    rw [if_neg hne]
    refine NPs.step (getObj_live ho) ?_
    rw [h.wf.index_eq obj (live_lt ho)]
    by_cases hao : a = obj
    · rw [if_pos hao]
      exact NPs.pure ⟨rfl, fun hc => by cases hc⟩
    · rw [if_neg hao]
      refine NPs.step (objectAt_live' ha) ?_
      refine NPs.step (derefP_some_ex _) ?_
      refine NPs.step (getObj_live ha) ?_
      show NPs (AmlParser.isAncestorOrSelf obj f (C13.P s.tree a)) s _
      have step : ∀ f', (∀ f'', C13.isAncestorOrSelf s.tree obj f'' (C13.P s.tree a) = false) →
          C13.isAncestorOrSelf s.tree obj f' a = false := by
        intro f' hrec
        cases f' with
        | zero => rfl
        | succ f' =>
          simp only [C13.isAncestorOrSelf, hrec, Bool.and_false, Bool.or_false, decide_eq_false_iff_not]
          exact hao
      rcases (h.wf.lP ha).lp with hp | hp
      · -- the root of the chain
        rw [hp]
        cases f with
        | zero => unfold AmlParser.isAncestorOrSelf; exact NPs.fuel
        | succ f =>
          unfold AmlParser.isAncestorOrSelf
          rw [if_pos invalidIndex_eq.symm]
          refine NPs.pure ⟨rfl, fun _ f' => ?_⟩
          cases f' with
          | zero => rfl
          | succ f' =>
            simp only [C13.isAncestorOrSelf, hp, ne_eq, not_true_eq_false, decide_false, Bool.false_and, Bool.or_false,
              decide_eq_false_iff_not]
            exact hao
      · exact (ih _ hp).mono (fun r s' hq => ⟨hq.1, fun hr f' => step f' (hq.2 hr)⟩)

theorem passCounters_ex (s : PState) : passCounters s = .ok ((s.resolvePasses, s.relocatedObjects), s) := rfl

/-- the relocation of one named object -/
theorem relocateOne_np (d : Bytes) (fuel : Nat) {s : PState} (h : TP s) {obj : Nat} (ho : live s.tree obj = true)
    (hp : C13.P s.tree obj ≠ INV) (hfi : Fi s.tree obj ≠ INV) (off len : Nat) (bytes : List UInt8) :
    NPs (relocateOne d fuel obj off len bytes) s (fun _ s' => TP s' ∧ Mv s s' ∧ KeepAtt s s') := by
  unfold relocateOne
  refine NPs.step (a := s.tree) (s1 := s) rfl ?_
  have hn : ∀ i, live s.tree i = true → (namedInfo (slot s.tree i).infoIndex).isSome = true := by
    intro i hi
    obtain ⟨fl, hfl⟩ := opFlags_of_info (h.info i hi)
    unfold namedInfo; rw [hfl]; rfl
  obtain ⟨anc, eanc, hanc⟩ := closestNamedAncestor_total' h.wf namedInfo hn obj ho
  have e1 : liftR (s.tree.ClosestNamedAncestor namedInfo (some obj)) s = .ok (anc, s) := by
    unfold liftR; rw [eanc]; rfl
  refine NPs.step e1 ?_
  obtain ⟨ti, efind, hti⟩ := find_total' h.wf h.root anc hanc (bytes.take (len - Gen.C12.amlNameLen))
  have e2 : liftR (s.tree.Find anc (bytes.take (len - Gen.C12.amlNameLen))) s = .ok (ti, s) := by
    unfold liftR; rw [efind]; rfl
  refine NPs.step e2 ?_
  by_cases hti0 : ti = invalidIndex
  · rw [if_pos hti0]
    refine NPs.step (passCounters_ex s) ?_
    split
    · exact NPs.pure ⟨h, Mv.refl s, KeepAtt.refl s⟩
    · exact NPs.pure ⟨h, Mv.refl s, KeepAtt.refl s⟩
  · rw [if_neg hti0]
    have htl : live s.tree ti = true := by
      rcases hti with h1 | h1
      · exact absurd h1 hti0
      · exact h1
    refine NPs.step (objectAt_live' htl) ?_
    refine NPs.step (derefP_some_ex _) ?_
    refine NPs.bind (scopeBlockOf_np h fuel htl) ?_
    intro r s1 hq
    obtain ⟨hs1, hr⟩ := hq
    subst hs1
    cases r with
    | none => exact NPs.pure ⟨h, Mv.refl _, KeepAtt.refl _⟩
    | some target =>
      have htg := hr target rfl
      refine NPs.step (getObj_live htg) ?_
      rw [h.wf.index_eq target (live_lt htg)]
      refine NPs.bind (isAncP_np h ho fuel target htg) ?_
      intro b s2 hq2
      obtain ⟨hs2, hb⟩ := hq2
      subst hs2
      cases b with
      | true => exact NPs.pure ⟨h, Mv.refl _, KeepAtt.refl _⟩
      | false =>
        have hnanc := hb rfl
        have hpl : live s2.tree (C13.P s2.tree obj) = true := by
          rcases (h.wf.lP ho).lp with h1 | h1
          · exact absurd h1 hp
          · exact h1
        refine NPs.step (getObj_live ho) ?_
        refine NPs.step (objectAt_live' hpl) ?_
        refine NPs.step (derefP_some_ex _) ?_
        obtain ⟨s3, e3, h3, m3, hs3, _, hP3, _, _, hFi3⟩ := detach_step' h hpl ho rfl
        refine NPs.step e3 ?_
        have hto : target ≠ obj := by
          intro e
          have := hnanc 1
          simp [C13.isAncestorOrSelf, e] at this
        have hpre : appendPre s3.tree target obj = true := by
          simp only [appendPre, Bool.and_eq_true, decide_eq_true_eq, Bool.not_eq_true']
          refine ⟨⟨⟨by rw [m3.live]; exact htg, by rw [m3.live]; exact ho⟩, by rw [hP3, if_pos rfl]⟩, ?_⟩
          rw [isAnc_congr (t := s2.tree) (t' := s3.tree) obj (fun x hx => by rw [hP3, if_neg hx])]
          exact hnanc _
        obtain ⟨s4, e4, h4, m4, hs4, _, hP4, _, hFi4⟩ := append_step' h3 hpre
        refine NPs.step e4 ?_
        have ho4 : live s4.tree obj = true := by rw [m4.live, m3.live]; exact ho
        refine NPs.step (getObj_live ho4) ?_
        have hparne : obj ≠ C13.P s2.tree obj := fun e => wf_P_ne_self h.wf ho e.symm
        have hfi4 : Fi s4.tree obj = Fi s2.tree obj := by
          rw [hFi4, if_neg (fun hc => hto hc.1.symm), hFi3, if_neg (fun hc => hparne hc.1)]
        have hfl4 : live s4.tree (Fi s4.tree obj) = true := by
          rcases (h4.wf.lP ho4).lfi with h1 | h1
          · rw [hfi4] at h1; exact absurd h1 hfi
          · exact h1
        refine NPs.step (objectAt_live' hfl4) ?_
        refine NPs.step (derefP_some_ex _) ?_
        obtain ⟨s5, e5, h5, m5, sl5⟩ := updObj_tp h4 hfl4
          (fun fo => { fo with value := .bytes (off + (len - Gen.C12.amlNameLen)) (len - (len - Gen.C12.amlNameLen)) })
          (by keeps_links) Iff.rfl (h4.info _ hfl4)
        refine NPs.step e5 ?_
        have e6 : (modify fun s => { s with relocatedObjects := u32 (s.relocatedObjects + 1) } : P Unit) s5 =
            .ok ((), { s5 with relocatedObjects := u32 (s5.relocatedObjects + 1) }) := rfl
        refine NPs.step e6 ?_
        refine NPs.pure ⟨⟨h5.wf, h5.root, h5.info⟩, ⟨?_, ?_, ?_, ?_⟩, ?_⟩
        · show s5.tree.pool.size = _
          rw [m5.size, m4.size, m3.size]
        · intro x; show live s5.tree x = _
          rw [m5.live, m4.live, m3.live]
        · show s5.tableHandle = _
          rw [m5.handle, m4.handle, m3.handle]
        · exact ((m3.trans m4).trans m5).rs
        · intro x hx
          show C13.P s5.tree x ≠ INV
          rw [sl5.p, hP4]
          split
          · exact live_ne_INV h.wf.size_le htg
          · rename_i hxo; rw [hP3, if_neg hxo]; exact hx

theorem relocateNamed_np (d : Bytes) (fuel : Nat) {s : PState} (h : TP s) {obj : Nat} (ho : live s.tree obj = true)
    (hp : C13.P s.tree obj ≠ INV) (hfi : Fi s.tree obj ≠ INV) :
    NPs (relocateNamed d fuel obj) s (fun _ s' => TP s' ∧ Mv s s' ∧ KeepAtt s s') := by
  unfold relocateNamed
  refine NPs.step (getObj_live ho) ?_
  have hfl : live s.tree (Fi s.tree obj) = true := by
    rcases (h.wf.lP ho).lfi with h1 | h1
    · exact absurd h1 hfi
    · exact h1
  refine NPs.step (objectAt_live' hfl) ?_
  refine NPs.step (derefP_some_ex _) ?_
  refine NPs.step (getObj_live hfl) ?_
  split
  · exact NPs.pure ⟨h, Mv.refl s, KeepAtt.refl s⟩
  · split
    · exact relocateOne_np d fuel h ho hp hfi _ _ _
    · exact NPs.pure ⟨h, Mv.refl s, KeepAtt.refl s⟩

/-- `relocateNamedObjects` and its loop over the children, by induction on the fuel -/
theorem relocate_np (d : Bytes) : ∀ (f : Nat),
    (∀ {s : PState} (objIndex : Nat), TP s → live s.tree objIndex = true →
      (C13.P s.tree objIndex ≠ INV ∨ (slot s.tree objIndex).opcode = opIntScopeBlock) →
      NPs (relocateNamedObjects d f objIndex) s (fun _ s' => TP s' ∧ Mv s s' ∧ KeepAtt s s')) ∧
    (∀ {s : PState} (sib : Nat) (res : PRes), TP s → (sib = INV ∨ (live s.tree sib = true ∧ C13.P s.tree sib ≠ INV)) →
      NPs (relocateLoop d f sib res) s (fun _ s' => TP s' ∧ Mv s s' ∧ KeepAtt s s')) := by
  intro f
  induction f with
  | zero =>
    constructor
    · intro s _ _ _ _; unfold relocateNamedObjects; exact NPs.fuel
    · intro s _ _ _ _; unfold relocateLoop; exact NPs.fuel
  | succ f ih =>
    constructor
    · intro s objIndex h ho hroot
      unfold relocateNamedObjects
      refine NPs.step (objectAt_live' ho) ?_
      refine NPs.step (derefP_some_ex _) ?_
      refine NPs.step (getObj_live ho) ?_
      obtain ⟨fl, hfl⟩ := opFlags_of_info (h.info objIndex ho)
      rw [hfl]
      refine NPs.step (optP_ex fl s) ?_
      -- the counter reset does not touch the tree
      have cont : ∀ s0 : PState, s0.tree = s.tree → s0.tableHandle = s.tableHandle →
          (s0.r = s.r ∧ s0.scopeStack = s.scopeStack ∧ s0.pkgEndStack = s.pkgEndStack ∧ s0.streamEnd = s.streamEnd) →
          NPs (if hasFlag fl flagExecutable = true then pure PRes.ok
            else do
              let __do_lift ← tableHandle
              if hasFlag fl flagNamed = true ∧ (slot s.tree objIndex).firstArgIndex ≠ invalidIndex ∧
                    (slot s.tree objIndex).tableHandle = __do_lift ∧ (slot s.tree objIndex).opcode ≠ opIntScopeBlock then do
                  let __do_lift ← relocateNamed d f objIndex
                  match __do_lift with
                    | Sum.inl res => pure res
                    | Sum.inr val => do
                      let __do_lift ← getObj objIndex
                      relocateLoop d f __do_lift.firstArgIndex PRes.ok
                else relocateLoop d f (slot s.tree objIndex).firstArgIndex PRes.ok) s0
            (fun _ s' => TP s' ∧ Mv s s' ∧ KeepAtt s s') := by
        intro s0 ht0 hh0 hrs0
        have h0 : TP s0 := ⟨by rw [ht0]; exact h.wf, by rw [ht0]; exact h.root, by rw [ht0]; exact h.info⟩
        have m0 : Mv s s0 := ⟨by rw [ht0], fun x => by rw [ht0], hh0, hrs0⟩
        have k0 : KeepAtt s s0 := fun x hx => by rw [ht0]; exact hx
        have ho0 : live s0.tree objIndex = true := by rw [ht0]; exact ho
        have kids : ∀ {s1 : PState}, TP s1 → live s1.tree objIndex = true →
            (Fi s1.tree objIndex = INV ∨ (live s1.tree (Fi s1.tree objIndex) = true ∧ C13.P s1.tree (Fi s1.tree objIndex) ≠ INV)) := by
          intro s1 h1 ho1
          by_cases hf : Fi s1.tree objIndex = INV
          · exact Or.inl hf
          · right
            have l1 := h1.wf.lP ho1
            refine ⟨?_, ?_⟩
            · rcases l1.lfi with h2 | h2
              · exact absurd h2 hf
              · exact h2
            · rw [(l1.fi hf).1]; exact live_ne_INV h1.wf.size_le ho1
        split
        · exact NPs.pure ⟨h0, m0, k0⟩
        · refine NPs.step (tableHandle_ex s0) ?_
          split
          · rename_i hc
            have hp : C13.P s0.tree objIndex ≠ INV := by
              rw [ht0]
              rcases hroot with h1 | h1
              · exact h1
              · exact absurd h1 hc.2.2.2
            have hfi : Fi s0.tree objIndex ≠ INV := by rw [ht0]; exact hc.2.1
            refine NPs.bind (relocateNamed_np d f h0 ho0 hp hfi) ?_
            intro r s1 hq
            obtain ⟨h1, m1, k1⟩ := hq
            cases r with
            | inl res => exact NPs.pure ⟨h1, m0.trans m1, k0.trans k1⟩
            | inr _ =>
              have ho1 : live s1.tree objIndex = true := by rw [m1.live]; exact ho0
              refine NPs.step (getObj_live ho1) ?_
              exact (ih.2 _ PRes.ok h1 (kids h1 ho1)).mono
                (fun a s' hq => ⟨hq.1, (m0.trans m1).trans hq.2.1, (k0.trans k1).trans hq.2.2⟩)
          · have := kids h0 ho0
            rw [ht0] at this
            exact (ih.2 _ PRes.ok h0 (by rw [ht0]; exact this)).mono
              (fun a s' hq => ⟨hq.1, m0.trans hq.2.1, k0.trans hq.2.2⟩)
      dsimp only
      by_cases h00 : objIndex = 0
      · rw [if_pos h00]
        refine NPs.step (s1 := { s with relocatedObjects := 0 }) (a := ()) rfl ?_
        exact cont _ rfl rfl ⟨rfl, rfl, rfl, rfl⟩
      · rw [if_neg h00]
        exact cont s rfl rfl ⟨rfl, rfl, rfl, rfl⟩
    · intro s sib res h hsib
      unfold relocateLoop
      by_cases h0 : sib = invalidIndex
      · rw [if_pos h0]; exact NPs.pure ⟨h, Mv.refl s, KeepAtt.refl s⟩
      · rw [if_neg h0]
        obtain ⟨hl, hp⟩ : live s.tree sib = true ∧ C13.P s.tree sib ≠ INV := by
          rcases hsib with h1 | h1
          · exact absurd h1 h0
          · exact h1
        refine NPs.step (objectAt_live' hl) ?_
        refine NPs.step (derefP_some_ex _) ?_
        refine NPs.step (getObj_live hl) ?_
        rw [h.wf.index_eq sib (live_lt hl)]
        refine NPs.bind (ih.1 sib h hl (Or.inl hp)) ?_
        intro r s1 hq
        obtain ⟨h1, m1, k1⟩ := hq
        -- the sibling saved before the call is still a live attached object
        have hnext : Nx s.tree sib = INV ∨ (live s1.tree (Nx s.tree sib) = true ∧ C13.P s1.tree (Nx s.tree sib) ≠ INV) := by
          by_cases hn : Nx s.tree sib = INV
          · exact Or.inl hn
          · right
            have l := h.wf.lP hl
            refine ⟨?_, ?_⟩
            · rw [m1.live]
              rcases l.lnx with h2 | h2
              · exact absurd h2 hn
              · exact h2
            · apply k1
              rw [(l.nx hn).2]; exact hp
        have loop : ∀ res', NPs (relocateLoop d f (slot s.tree sib).nextSiblingIndex res') s1
            (fun _ s' => TP s' ∧ Mv s s' ∧ KeepAtt s s') := by
          intro res'
          exact (ih.2 _ res' h1 hnext).mono (fun a s' hq => ⟨hq.1, m1.trans hq.2.1, k1.trans hq.2.2⟩)
        cases r with
        | failed => exact NPs.pure ⟨h1, m1, k1⟩
        | requireExtraPass => exact loop _
        | ok => exact loop _
        | shortCircuit => exact loop _

/-! ### `connectNonNamedObjArgs` -/

theorem connectNonNamedStep_np {s : PState} (h : TP s) {obj argObj : Nat} (ho : live s.tree obj = true)
    (ha : live s.tree argObj = true) (hp : C13.P s.tree argObj = obj) :
    NPs (connectNonNamedStep obj argObj) s (fun _ s' => TP s' ∧ Mv s s' ∧ Frame s s' argObj) := by
  unfold connectNonNamedStep
  refine NPs.step (getObj_live ha) ?_
  have hinfo := h.info argObj ha
  obtain ⟨fl, hfl⟩ := opFlags_of_info hinfo
  rw [hfl]
  refine NPs.step (optP_ex fl s) ?_
  refine NPs.step (tableHandle_ex s) ?_
  split
  · exact NPs.pure ⟨h, Mv.refl s, Frame.refl s _⟩
  · rw [opArgCount_of_info hinfo]
    refine NPs.step (optP_ex _ s) ?_
    refine NPs.bind (firstTermArg_np _ hinfo _ _ _ s) ?_
    intro ti s2 hs2
    subst hs2
    obtain ⟨k, ek⟩ := numArgs_np h ha
    refine NPs.step ek ?_
    split
    · exact NPs.pure ⟨h, Mv.refl _, Frame.refl _ _⟩
    · refine NPs.step (nextOf_live ha) ?_
      have := attach_np obj argObj true (argCnt (slot s2.tree argObj).infoIndex - ti) (Nx s2.tree argObj) h ha ho
        (fun _ => hp) (Or.inl rfl)
      refine NPs.bind this ?_
      intro res s3 hq
      split
      · exact NPs.pure ⟨hq.1, hq.2.1, hq.2.2.1⟩
      · exact NPs.pure ⟨hq.1, hq.2.1, hq.2.2.1⟩

/-- `connectNonNamedObjArgs` and its argument loop, by induction on the fuel -/
theorem connectNonNamed_np : ∀ (f : Nat),
    (∀ {s : PState} (objIndex : Nat), TP s → live s.tree objIndex = true →
      NPs (connectNonNamedObjArgs f objIndex) s (fun _ s' => TP s' ∧ Mv s s' ∧ Frame s s' objIndex)) ∧
    (∀ {s : PState} (obj argIndex : Nat), TP s → live s.tree obj = true →
      (argIndex = INV ∨ (live s.tree argIndex = true ∧ C13.P s.tree argIndex = obj)) →
      NPs (connectNonNamedLoop f obj argIndex) s (fun _ s' => TP s' ∧ Mv s s' ∧ Frame s s' obj)) := by
  intro f
  induction f with
  | zero =>
    constructor
    · intro s _ _ _; unfold connectNonNamedObjArgs; exact NPs.fuel
    · intro s _ _ _ _ _; unfold connectNonNamedLoop; exact NPs.fuel
  | succ f ih =>
    constructor
    · intro s objIndex h ho
      unfold connectNonNamedObjArgs
      refine NPs.step (objectAt_live' ho) ?_
      refine NPs.step (derefP_some_ex _) ?_
      refine NPs.step (getObj_live ho) ?_
      refine ih.2 objIndex _ h ho ?_
      have l := h.wf.lP ho
      by_cases hla : La s.tree objIndex = INV
      · exact Or.inl hla
      · right
        refine ⟨?_, (l.la hla).1⟩
        rcases l.lla with h1 | h1
        · exact absurd h1 hla
        · exact h1
    · intro s obj argIndex h ho ha
      unfold connectNonNamedLoop
      by_cases hi : argIndex = invalidIndex
      · rw [if_pos hi]; exact NPs.pure ⟨h, Mv.refl s, Frame.refl s _⟩
      · rw [if_neg hi]
        obtain ⟨hal, hap⟩ : live s.tree argIndex = true ∧ C13.P s.tree argIndex = obj := by
          rcases ha with h1 | h1
          · exact absurd h1 hi
          · exact h1
        refine NPs.step (objectAt_live' hal) ?_
        refine NPs.step (derefP_some_ex _) ?_
        refine NPs.step (getObj_live hal) ?_
        rw [h.wf.index_eq argIndex (live_lt hal)]
        refine NPs.bind (ih.1 argIndex h hal) ?_
        intro res s1 hq
        obtain ⟨h1, m1, f1⟩ := hq
        have fo1 : Frame s s1 obj := f1.lift h hal hap
        split
        · exact NPs.pure ⟨h1, m1, fo1⟩
        · have ho1 : live s1.tree obj = true := by rw [m1.live]; exact ho
          have ha1 : live s1.tree argIndex = true := by rw [m1.live]; exact hal
          have hp1 : C13.P s1.tree argIndex = obj := by rw [f1.self h hal]; exact hap
          refine NPs.bind (connectNonNamedStep_np h1 ho1 ha1 hp1) ?_
          intro r s2 hq2
          obtain ⟨h2, m2, f2⟩ := hq2
          have fo2 : Frame s s2 obj := Frame.trans h m1 ho fo1 (f2.lift h1 ha1 hp1)
          split
          · exact NPs.pure ⟨h2, m1.trans m2, fo2⟩
          · have ha2 : live s2.tree argIndex = true := by rw [m2.live]; exact ha1
            have hp2 : C13.P s2.tree argIndex = obj := by rw [f2.self h1 ha1]; exact hp1
            refine NPs.step (prevOf_live ha2) ?_
            have l2 := h2.wf.lP ha2
            have := ih.2 obj (Pv s2.tree argIndex) h2 (by rw [m2.live]; exact ho1) (by
              by_cases hpv : Pv s2.tree argIndex = INV
              · exact Or.inl hpv
              · right
                refine ⟨?_, by rw [(l2.pv hpv).2]; exact hp2⟩
                rcases l2.lpv with h3 | h3
                · exact absurd h3 hpv
                · exact h3)
            exact this.mono (fun a s' hq3 => ⟨hq3.1, (m1.trans m2).trans hq3.2.1,
              Frame.trans h (m1.trans m2) ho fo2 hq3.2.2⟩)

/-! ### `resolveMethodCalls` -/

theorem chain_mem_live {t : ObjectTree} (step : Nat → Nat) : ∀ (l : List Nat) (x y : Nat), Chain t step x l → y ∈ l →
    live t y = true := by
  intro l
  induction l with
  | nil => intro x y _ h; cases h
  | cons z zs ih =>
    intro x y hc hy
    obtain ⟨_, hz, hc'⟩ := hc
    rcases List.mem_cons.1 hy with e | e
    · rw [e]; exact hz
    · exact ih _ _ hc' e

theorem argAt_total' {t : ObjectTree} (w : WF t) (i k : Nat) (hl : live t i = true) :
    ∃ r, t.ArgAt (some i) k = .ok r ∧ ∀ x, r = some x → live t x = true := by
  obtain ⟨l, hc, ha, hlen⟩ := w.args_eq hl
  have := argLoop_eq w.size_le k l t.fuel _ 0 hc (by simp [ObjectTree.fuel]; omega) (by omega)
  simp only [Fi] at this
  refine ⟨l[k - 0]?, by simp [ObjectTree.ArgAt, obj_eq (live_lt hl), bind, Except.bind, this], ?_⟩
  intro x hx
  exact chain_mem_live _ l _ x hc (List.mem_of_getElem? hx)

/-- every unresolved name-or-call object holds the `[]byte` of its path -/
def CallShape (s : PState) : Prop :=
  ∀ x, live s.tree x = true → (slot s.tree x).opcode = opIntNamePathOrMethodCall → ∃ off len, (slot s.tree x).value = .bytes off len

/-- `CallShape` only depends on the payloads of the live slots -/
theorem CallShape.ofPay {s s' : PState} (h : CallShape s) (hl : ∀ x, live s'.tree x = live s.tree x)
    (sp : SamePay s.tree s'.tree) : CallShape s' := by
  intro x hx hop
  have hpay := sp.pay x
  have ho : (slot s'.tree x).opcode = (slot s.tree x).opcode := congrArg (fun p => p.1) hpay
  have hv : (slot s'.tree x).value = (slot s.tree x).value := congrArg (fun p => p.2.2.2.2.2.2.2) hpay
  rw [hv]
  exact h x (by rw [← hl]; exact hx) (by rw [← ho]; exact hop)

/-- `argObj.opcode = op; argObj.infoIndex = pOpcodeTableIndex(op, true)` for an opcode other than "freed" and
"name or call" -/
theorem mutateOpcode_np {s : PState} (h : TP s) (hc : CallShape s) {argObj : Nat} (ha : live s.tree argObj = true) (op : Nat)
    (hop : op ≠ pOpIntFreedObject) (hop2 : op ≠ opIntNamePathOrMethodCall) (hinfo : InfoOK (pOpcodeTableIndex op true)) :
    ∃ s1, mutateOpcode argObj op s = .ok ((), s1) ∧ TP s1 ∧ CallShape s1 ∧ Mv s s1 ∧ SameLinks s.tree s1.tree ∧
      (slot s1.tree argObj).opcode = op := by
  unfold mutateOpcode
  have hl : KeepsLive s.tree argObj (fun o => { o with opcode := op }) := by
    unfold KeepsLive
    exact ⟨fun hq => absurd hq hop, fun hq => absurd hq (live_opcode ha)⟩
  obtain ⟨s1, e1, h1, m1, sl1⟩ := updObj_tp h ha (fun o => { o with opcode := op }) (by keeps_links) hl (h.info argObj ha)
  have ha1 : live s1.tree argObj = true := by rw [m1.live]; exact ha
  obtain ⟨s2, e2, h2, m2, sl2⟩ := updObj_tp h1 ha1 (fun o => { o with infoIndex := pOpcodeTableIndex op true }) (by keeps_links)
    Iff.rfl hinfo
  have hlt := live_lt ha
  have hs1 : s1 = { s with tree := setAt s.tree argObj (fun o => { o with opcode := op }) } := by
    have := updObj_ex (s := s) (fun o => { o with opcode := op }) hlt
    rw [this] at e1; cases e1; rfl
  have hs2 : s2 = { s1 with tree := setAt s1.tree argObj (fun o => { o with infoIndex := pOpcodeTableIndex op true }) } := by
    have := updObj_ex (s := s1) (fun o => { o with infoIndex := pOpcodeTableIndex op true }) (live_lt ha1)
    rw [this] at e2; cases e2; rfl
  have hslot : ∀ x, slot s2.tree x = if x = argObj then { slot s.tree x with opcode := op, infoIndex := pOpcodeTableIndex op true }
      else slot s.tree x := by
    intro x
    rw [hs2]
    show slot (setAt s1.tree argObj _) x = _
    rw [slot_setAt', hs1]
    show (if argObj = x ∧ x < (setAt s.tree argObj _).pool.size then _ else slot (setAt s.tree argObj _) x) = _
    rw [slot_setAt']
    by_cases hx : x = argObj
    · subst hx; simp [hlt]
    · have : ¬ (argObj = x ∧ x < s.tree.pool.size) := fun hq => hx hq.1.symm
      simp [hx, this, Ne.symm hx]
  refine ⟨s2, bind_ex' e1 e2, h2, ?_, m1.trans m2, sl1.trans sl2, by rw [hslot, if_pos rfl]⟩
  intro x hx hopx
  rw [hslot] at hopx ⊢
  by_cases hxa : x = argObj
  · rw [if_pos hxa] at hopx; exact absurd hopx hop2
  · rw [if_neg hxa] at hopx ⊢
    exact hc x (by rw [← m1.live, ← m2.live]; exact hx) hopx

/-- storing the index of the resolved object in a slot that is no longer a name-or-call object -/
theorem setIdx_np {s : PState} (h : TP s) (hc : CallShape s) {argObj : Nat} (ha : live s.tree argObj = true) (v : Nat)
    (hop : (slot s.tree argObj).opcode ≠ opIntNamePathOrMethodCall) :
    ∃ s1, updObj argObj (fun o => { o with value := .idx v }) s = .ok ((), s1) ∧ TP s1 ∧ CallShape s1 ∧ Mv s s1 ∧
      SameLinks s.tree s1.tree := by
  obtain ⟨s1, e1, h1, m1, sl1⟩ := updObj_tp h ha (fun o => { o with value := .idx v }) (by keeps_links) Iff.rfl (h.info argObj ha)
  refine ⟨s1, e1, h1, ?_, m1, sl1⟩
  have hs1 : s1 = { s with tree := setAt s.tree argObj (fun o => { o with value := .idx v }) } := by
    have := updObj_ex (s := s) (fun o => { o with value := .idx v }) (live_lt ha)
    rw [this] at e1; cases e1; rfl
  intro x hx hopx
  rw [hs1] at hopx ⊢
  change (slot (setAt s.tree argObj _) x).opcode = _ at hopx
  show ∃ off len, (slot (setAt s.tree argObj _) x).value = _
  rw [slot_setAt'] at hopx ⊢
  by_cases hxa : argObj = x ∧ x < s.tree.pool.size
  · rw [if_pos hxa] at hopx
    rw [← hxa.1] at hopx
    exact absurd hopx hop
  · rw [if_neg hxa] at hopx ⊢
    exact hc x (by rw [← m1.live]; exact hx) hopx

theorem frame_ofLinks {s s' : PState} (sl : SameLinks s.tree s'.tree) (x : Nat) : Frame s s' x := fun a _ => sl.p a

/-- the `case pOpMethod:` of `resolveMethodCalls` -/
theorem resolveToMethod_np {s : PState} (h : TP s) (hc : CallShape s) {obj argObj resolvedObj : Nat}
    (ho : live s.tree obj = true) (ha : live s.tree argObj = true) (hr : live s.tree resolvedObj = true)
    (hp : C13.P s.tree argObj = obj) :
    NPs (resolveToMethod obj argObj resolvedObj) s (fun _ s' => TP s' ∧ CallShape s' ∧ Mv s s' ∧ Frame s s' argObj) := by
  unfold resolveToMethod
  refine NPs.step (getObj_live hr) ?_
  obtain ⟨s1, e1, h1, c1, m1, sl1, hop1⟩ := mutateOpcode_np h hc ha opIntMethodCall (by decide) (by decide)
    info_const.2.2.2.2.2.2.2.2.2.2.2.2.2
  refine NPs.step e1 ?_
  have ha1 : live s1.tree argObj = true := by rw [m1.live]; exact ha
  obtain ⟨s2, e2, h2, c2, m2, sl2⟩ := setIdx_np h1 c1 ha1 (slot s.tree resolvedObj).index (by rw [hop1]; decide)
  refine NPs.step e2 ?_
  refine NPs.step (a := s2.tree) (s1 := s2) rfl ?_
  have m12 := m1.trans m2
  have sl12 := sl1.trans sl2
  have hr2 : live s2.tree resolvedObj = true := by rw [m12.live]; exact hr
  obtain ⟨r, er, hrl⟩ := argAt_total' h2.wf resolvedObj 1 hr2
  have e3 : liftR (s2.tree.ArgAt (some resolvedObj) 1) s2 = .ok (r, s2) := by
    unfold liftR; rw [er]; rfl
  refine NPs.step e3 ?_
  have fr12 : Frame s s2 argObj := frame_ofLinks sl12 _
  cases r with
  | none => exact NPs.pure ⟨h2, c2, m12, fr12⟩
  | some mf =>
    have hmf := hrl mf rfl
    refine NPs.step (getObj_live hmf) ?_
    split
    · rename_i argCount _
      have ha2 : live s2.tree argObj = true := by rw [m12.live]; exact ha
      refine NPs.step (nextOf_live ha2) ?_
      have := attach_np obj argObj true (argCount &&& 0x7) (Nx s2.tree argObj) h2 ha2 (by rw [m12.live]; exact ho)
        (fun _ => by rw [sl12.p]; exact hp) (Or.inl rfl)
      refine NPs.bind this ?_
      intro res s3 hq
      obtain ⟨h3, m3, f3, sp3⟩ := hq
      have c3 : CallShape s3 := c2.ofPay m3.live sp3
      have fr : Frame s s3 argObj := Frame.trans h m12 ha fr12 f3
      split
      · exact NPs.pure ⟨h3, c3, m12.trans m3, fr⟩
      · exact NPs.pure ⟨h3, c3, m12.trans m3, fr⟩
    · exact NPs.pure ⟨h2, c2, m12, fr12⟩

/-- one iteration of the `resolveMethodCalls` loop after the recursive call -/
theorem resolveStep_np (d : Bytes) {s : PState} (h : TP s) (hc : CallShape s) {obj argObj : Nat}
    (ho : live s.tree obj = true) (ha : live s.tree argObj = true) (hp : C13.P s.tree argObj = obj) :
    NPs (resolveStep d obj argObj) s (fun _ s' => TP s' ∧ CallShape s' ∧ Mv s s' ∧ Frame s s' argObj) := by
  unfold resolveStep
  refine NPs.step (getObj_live ha) ?_
  refine NPs.step (tableHandle_ex s) ?_
  split
  · exact NPs.pure ⟨h, hc, Mv.refl s, Frame.refl s _⟩
  · rename_i hcond
    have hopc : (slot s.tree argObj).opcode = opIntNamePathOrMethodCall := by
      by_cases hq : (slot s.tree argObj).opcode = opIntNamePathOrMethodCall
      · exact hq
      · exact absurd (Or.inl hq) hcond
    obtain ⟨off, len, hv⟩ := hc argObj ha hopc
    have eb : bytesValue d argObj s = .ok (sliceBytes d off len, s) := by
      unfold bytesValue
      show (StateT.bind _ _) s = _
      simp only [StateT.bind, getObj_live ha, bind, Except.bind, hv, valBytes]
      rfl
    refine NPs.step eb ?_
    refine NPs.step (a := s.tree) (s1 := s) rfl ?_
    have hscope : C13.P s.tree argObj = INV ∨ live s.tree (C13.P s.tree argObj) = true := (h.wf.lP ha).lp
    obtain ⟨ti, efind, hti⟩ := find_total' h.wf h.root (C13.P s.tree argObj) hscope (sliceBytes d off len)
    have e2 : liftR (s.tree.Find (slot s.tree argObj).parentIndex (sliceBytes d off len)) s = .ok (ti, s) := by
      unfold liftR
      have : (slot s.tree argObj).parentIndex = C13.P s.tree argObj := rfl
      rw [this, efind]; rfl
    refine NPs.step e2 ?_
    by_cases hti0 : ti = invalidIndex
    · rw [if_pos hti0]
      obtain ⟨s1, e1, h1, c1, m1, sl1, _⟩ := mutateOpcode_np h hc ha opIntNamePath (by decide) (by decide)
        info_const.2.2.2.2.2.2.1
      refine NPs.step e1 ?_
      exact NPs.pure ⟨h1, c1, m1, frame_ofLinks sl1 _⟩
    · rw [if_neg hti0]
      have htl : live s.tree ti = true := by
        rcases hti with h1 | h1
        · exact absurd h1 hti0
        · exact h1
      refine NPs.step (objectAt_live' htl) ?_
      refine NPs.step (derefP_some_ex _) ?_
      refine NPs.step (getObj_live htl) ?_
      split
      · exact resolveToMethod_np h hc ho ha htl hp
      · obtain ⟨s1, e1, h1, c1, m1, sl1, hop1⟩ := mutateOpcode_np h hc ha opIntResolvedNamePath (by decide) (by decide)
          info_const.2.2.2.2.2.2.2.2.2.2.2.2.1
        refine NPs.step e1 ?_
        have ha1 : live s1.tree argObj = true := by rw [m1.live]; exact ha
        obtain ⟨s2, e2', h2, c2, m2, sl2⟩ := setIdx_np h1 c1 ha1 (slot s.tree ti).index (by rw [hop1]; decide)
        refine NPs.step e2' ?_
        exact NPs.pure ⟨h2, c2, m1.trans m2, frame_ofLinks (sl1.trans sl2) _⟩

/-- `resolveMethodCalls` and its argument loop, by induction on the fuel -/
theorem resolve_np (d : Bytes) : ∀ (f : Nat),
    (∀ {s : PState} (objIndex : Nat), TP s → CallShape s → live s.tree objIndex = true →
      NPs (resolveMethodCalls d f objIndex) s (fun _ s' => TP s' ∧ CallShape s' ∧ Mv s s' ∧ Frame s s' objIndex)) ∧
    (∀ {s : PState} (obj argIndex : Nat), TP s → CallShape s → live s.tree obj = true →
      (argIndex = INV ∨ (live s.tree argIndex = true ∧ C13.P s.tree argIndex = obj)) →
      NPs (resolveLoop d f obj argIndex) s (fun _ s' => TP s' ∧ CallShape s' ∧ Mv s s' ∧ Frame s s' obj)) := by
  intro f
  induction f with
  | zero =>
    constructor
    · intro s _ _ _ _; unfold resolveMethodCalls; exact NPs.fuel
    · intro s _ _ _ _ _ _; unfold resolveLoop; exact NPs.fuel
  | succ f ih =>
    constructor
    · intro s objIndex h hc ho
      unfold resolveMethodCalls
      refine NPs.step (objectAt_live' ho) ?_
      refine NPs.step (derefP_some_ex _) ?_
      refine NPs.step (getObj_live ho) ?_
      refine ih.2 objIndex _ h hc ho ?_
      have l := h.wf.lP ho
      by_cases hla : La s.tree objIndex = INV
      · exact Or.inl hla
      · right
        refine ⟨?_, (l.la hla).1⟩
        rcases l.lla with h1 | h1
        · exact absurd h1 hla
        · exact h1
    · intro s obj argIndex h hc ho ha
      unfold resolveLoop
      by_cases hi : argIndex = invalidIndex
      · rw [if_pos hi]; exact NPs.pure ⟨h, hc, Mv.refl s, Frame.refl s _⟩
      · rw [if_neg hi]
        obtain ⟨hal, hap⟩ : live s.tree argIndex = true ∧ C13.P s.tree argIndex = obj := by
          rcases ha with h1 | h1
          · exact absurd h1 hi
          · exact h1
        refine NPs.step (objectAt_live' hal) ?_
        refine NPs.step (derefP_some_ex _) ?_
        refine NPs.step (getObj_live hal) ?_
        rw [h.wf.index_eq argIndex (live_lt hal)]
        refine NPs.bind (ih.1 argIndex h hc hal) ?_
        intro res s1 hq
        obtain ⟨h1, c1, m1, f1⟩ := hq
        have fo1 : Frame s s1 obj := f1.lift h hal hap
        split
        · exact NPs.pure ⟨h1, c1, m1, fo1⟩
        · have ho1 : live s1.tree obj = true := by rw [m1.live]; exact ho
          have ha1 : live s1.tree argIndex = true := by rw [m1.live]; exact hal
          have hp1 : C13.P s1.tree argIndex = obj := by rw [f1.self h hal]; exact hap
          refine NPs.bind (resolveStep_np d h1 c1 ho1 ha1 hp1) ?_
          intro r s2 hq2
          obtain ⟨h2, c2, m2, f2⟩ := hq2
          have fo2 : Frame s s2 obj := Frame.trans h m1 ho fo1 (f2.lift h1 ha1 hp1)
          split
          · exact NPs.pure ⟨h2, c2, m1.trans m2, fo2⟩
          · have ha2 : live s2.tree argIndex = true := by rw [m2.live]; exact ha1
            have hp2 : C13.P s2.tree argIndex = obj := by rw [f2.self h1 ha1]; exact hp1
            refine NPs.step (prevOf_live ha2) ?_
            have l2 := h2.wf.lP ha2
            have := ih.2 obj (Pv s2.tree argIndex) h2 c2 (by rw [m2.live]; exact ho1) (by
              by_cases hpv : Pv s2.tree argIndex = INV
              · exact Or.inl hpv
              · right
                refine ⟨?_, by rw [(l2.pv hpv).2]; exact hp2⟩
                rcases l2.lpv with h3 | h3
                · exact absurd h3 hpv
                · exact h3)
            exact this.mono (fun a s' hq3 => ⟨hq3.1, hq3.2.1, (m1.trans m2).trans hq3.2.2.1,
              Frame.trans h (m1.trans m2) ho fo2 hq3.2.2.2⟩)

end Firefly.AmlParser
