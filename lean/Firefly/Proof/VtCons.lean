import Firefly.Spec.Term
/-!
Lemmas about the abstract console of C18 (`Spec/Term.lean`, `Console`): what `write`, `scrollUp`
and `fill` do to the cell shown at a position, and that they keep the screen's shape.
-/
namespace Firefly.VtCons
open Firefly.Vt Firefly.Term
set_option linter.unusedSimpArgs false

/-- shape of a console screen: `h` lines of `w` cells -/
structure WF (k : Console) : Prop where
  len : k.cells.length = k.h
  rows : ∀ r, r < k.h → (k.cells.getD r []).length = k.w

theorem at_eq (k : Console) (r c : Nat) : k.at r c = ((k.cells[r]?.getD [])[c]?).getD default := by
  simp [Console.at, List.getD_eq_getElem?_getD]

theorem row_eq {k : Console} (wf : WF k) {r : Nat} (hr : r < k.h) :
    ∃ line, k.cells[r]? = some line ∧ line.length = k.w := by
  have h1 : r < k.cells.length := by rw [wf.len]; exact hr
  refine ⟨k.cells[r], by simp [h1], ?_⟩
  have := wf.rows r hr
  simpa [List.getD_eq_getElem?_getD, h1] using this

theorem new_wf (w h : Nat) (c : Cell) : WF (Console.new w h c) := by
  constructor
  · simp [Console.new]
  · intro r hr
    have hr' : r < h := hr
    simp [Console.new, List.getD_eq_getElem?_getD, List.getElem?_replicate, hr']

/-- a write inside the grid changes exactly the addressed cell -/
theorem write_in {k : Console} (wf : WF k) (ch fg bg : UInt8) {x y : Nat}
    (hx : 1 ≤ x ∧ x ≤ k.w) (hy : 1 ≤ y ∧ y ≤ k.h) :
    (k.write ch fg bg x y).w = k.w ∧ (k.write ch fg bg x y).h = k.h ∧ WF (k.write ch fg bg x y) ∧
      (k.write ch fg bg x y).outside = k.outside ∧
      ∀ r c, r < k.h → c < k.w →
        (k.write ch fg bg x y).at r c = if r = y - 1 ∧ c = x - 1 then ⟨ch, fg, bg⟩ else k.at r c := by
  have hin : 1 ≤ x ∧ x ≤ k.w ∧ 1 ≤ y ∧ y ≤ k.h := ⟨hx.1, hx.2, hy.1, hy.2⟩
  have e : k.write ch fg bg x y =
      { k with cells := k.cells.modify (y - 1) fun line => line.set (x - 1) ⟨ch, fg, bg⟩ } := by
    simp [Console.write, hin]
  rw [e]
  refine ⟨rfl, rfl, ⟨by simp [wf.len], ?_⟩, rfl, ?_⟩
  · intro r hr
    obtain ⟨line, hl, hlen⟩ := row_eq wf (show r < k.h from hr)
    simp only [List.getD_eq_getElem?_getD, List.getElem?_modify, hl, Option.map_eq_map, Option.map_some,
      Option.getD_some]
    split <;> simp [hlen]
  · intro r c hr hc
    obtain ⟨line, hl, hlen⟩ := row_eq wf hr
    simp only [at_eq, List.getElem?_modify, hl, Option.map_eq_map, Option.map_some, Option.getD_some]
    by_cases h1 : y - 1 = r
    · have h1' : r = y - 1 := h1.symm
      simp only [h1, if_true, List.getElem?_set]
      by_cases h2 : x - 1 = c
      · have h2' : c = x - 1 := h2.symm
        have : c < line.length := by rw [hlen]; exact hc
        simp [h2, this]
      · have h2' : ¬ c = x - 1 := fun h => h2 h.symm
        simp [h2, h2']
    · have h1' : ¬ r = y - 1 := fun h => h1 h.symm
      simp [h1, h1']

/-- scrolling up by one line: line `r+1` moves to line `r`, the last line keeps its contents -/
theorem scroll1 {k : Console} (wf : WF k) (h1 : 1 ≤ k.h) :
    (k.scrollUp 1).w = k.w ∧ (k.scrollUp 1).h = k.h ∧ WF (k.scrollUp 1) ∧ (k.scrollUp 1).outside = k.outside ∧
      ∀ r c, r < k.h → c < k.w → (k.scrollUp 1).at r c = if r + 1 < k.h then k.at (r + 1) c else k.at r c := by
  have hn : ¬ (1 = 0 ∨ 1 > k.h) := by omega
  have e : k.scrollUp 1 = { k with cells := k.cells.drop 1 ++ k.cells.drop (k.h - 1) } := by
    unfold Console.scrollUp; rw [if_neg hn]
  have hlen := wf.len
  have rowAt : ∀ r, r < k.h → (k.cells.drop 1 ++ k.cells.drop (k.h - 1))[r]? =
      if r + 1 < k.h then k.cells[r + 1]? else k.cells[r]? := by
    intro r hr
    rw [List.getElem?_append]
    simp only [List.length_drop, hlen, List.getElem?_drop]
    by_cases c1 : r + 1 < k.h
    · have : r < k.h - 1 := by omega
      simp [c1, this, Nat.add_comm]
    · have : ¬ r < k.h - 1 := by omega
      have e2 : k.h - 1 + (r - (k.h - 1)) = r := by omega
      simp [c1, this, e2]
  rw [e]
  refine ⟨rfl, rfl, ⟨by simp [hlen] <;> omega, ?_⟩, rfl, ?_⟩
  · intro r hr
    have hr' : r < k.h := hr
    simp only [List.getD_eq_getElem?_getD, rowAt r hr']
    by_cases c1 : r + 1 < k.h
    · have := wf.rows (r + 1) c1
      simpa [c1, List.getD_eq_getElem?_getD] using this
    · have := wf.rows r hr'
      simpa [c1, List.getD_eq_getElem?_getD] using this
  · intro r c hr hc
    simp only [at_eq, rowAt r hr]
    by_cases c1 : r + 1 < k.h <;> simp [c1]

/-- a fill inside the grid blanks exactly the rectangle -/
theorem fill_in {k : Console} (wf : WF k) {x y fw fh : Nat} (fg bg : UInt8)
    (hin : 1 ≤ x ∧ 1 ≤ y ∧ x + fw ≤ k.w + 1 ∧ y + fh ≤ k.h + 1) :
    (k.fill x y fw fh fg bg).w = k.w ∧ (k.fill x y fw fh fg bg).h = k.h ∧ WF (k.fill x y fw fh fg bg) ∧
      (k.fill x y fw fh fg bg).outside = k.outside ∧
      ∀ r c, r < k.h → c < k.w →
        (k.fill x y fw fh fg bg).at r c =
          if y ≤ r + 1 ∧ r + 1 < y + fh ∧ x ≤ c + 1 ∧ c + 1 < x + fw then ⟨32, fg, bg⟩ else k.at r c := by
  have e : k.fill x y fw fh fg bg = { k with cells := Console.fillCells k.cells x y fw fh fg bg } := by
    unfold Console.fill
    simp only [hin, and_self, if_true]
  rw [e]
  unfold Console.fillCells
  refine ⟨rfl, rfl, ⟨by simp [wf.len], ?_⟩, rfl, ?_⟩
  · intro r hr
    obtain ⟨line, hl, hlen⟩ := row_eq wf (show r < k.h from hr)
    simp only [List.getD_eq_getElem?_getD, List.getElem?_mapIdx, hl, Option.map_some, Option.getD_some]
    split <;> simp [hlen]
  · intro r c hr hc
    obtain ⟨line, hl, hlen⟩ := row_eq wf hr
    have hcl : c < line.length := by rw [hlen]; exact hc
    simp only [at_eq, List.getElem?_mapIdx, hl, Option.map_some, Option.getD_some]
    by_cases c1 : y ≤ r + 1 ∧ r + 1 < y + fh
    · simp only [c1, and_self, if_true, true_and, List.getElem?_mapIdx]
      have : line[c]? = some line[c] := by simp [hcl]
      rw [this]
      by_cases c2 : x ≤ c + 1 ∧ c + 1 < x + fw <;> simp [c2]
    · have : ¬ (y ≤ r + 1 ∧ r + 1 < y + fh ∧ x ≤ c + 1 ∧ c + 1 < x + fw) := fun h => c1 ⟨h.1, h.2.1⟩
      simp [c1, this]

theorem applyLog_append (k : Console) (a b : List Call) :
    k.applyLog (a ++ b) = (k.applyLog b).applyLog a := by
  simp [Console.applyLog, List.foldr_append]

theorem applyLog_cons (k : Console) (c : Call) (log : List Call) :
    k.applyLog (c :: log) = (k.applyLog log).apply c := rfl

/-- two screens of the same shape showing the same cells are equal -/
theorem cells_ext {k : Console} (wf : WF k) {g : Grid} (hl : g.length = k.h)
    (hrow : ∀ r, r < k.h → (g.getD r []).length = k.w)
    (hat : ∀ r c, r < k.h → c < k.w → k.at r c = (g.getD r []).getD c default) : k.cells = g := by
  apply List.ext_getElem (by rw [wf.len, hl])
  intro r h1 h2
  have hr : r < k.h := by rw [← wf.len]; exact h1
  have e1 := wf.rows r hr
  have e2 := hrow r hr
  simp only [List.getD_eq_getElem?_getD, List.getElem?_eq_getElem h1, List.getElem?_eq_getElem h2,
    Option.getD_some] at e1 e2
  apply List.ext_getElem (by rw [e1, e2])
  intro c h3 h4
  have hc : c < k.w := by rw [← e1]; exact h3
  have := hat r c hr hc
  simpa [Console.at, List.getD_eq_getElem?_getD, List.getElem?_eq_getElem h1, List.getElem?_eq_getElem h2,
    List.getElem?_eq_getElem h3, List.getElem?_eq_getElem h4] using this

end Firefly.VtCons
