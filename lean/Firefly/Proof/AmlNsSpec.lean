import Firefly.Model.AmlProg
/-!
Sanity of the executable specification of C11: the namespace `namespaceOf` assigns to ANY program is a tree — no path
is declared twice and every declared path of more than one segment has its parent scope declared.
-/
namespace Firefly.AmlProg

/-- the paths of a namespace are pairwise different, and every path with more than one segment has its parent -/
def NsOK (ns : Namespace) : Prop :=
  (ns.objs.map (·.1)).Nodup ∧ ∀ p ∈ ns.objs.map (·.1), 1 < p.length → ns.has (p.take (p.length - 1)) = true

theorem has_iff (ns : Namespace) (p : Path) : ns.has p = true ↔ p ∈ ns.objs.map (·.1) := by
  unfold Namespace.has
  simp only [List.any_eq_true, beq_iff_eq, List.mem_map]

theorem NsOK.congr {ns ns' : Namespace} (h : NsOK ns) (e : ns'.objs = ns.objs) : NsOK ns' := by
  unfold NsOK Namespace.has at *
  rw [e]; exact h

theorem err_objs (st : NsSt) (e : String) : (st.err e).ns.objs = st.ns.objs := rfl

theorem add_ok (st : NsSt) (p : Path) (desc : String) (h : NsOK st.ns) : NsOK (st.add p desc).ns := by
  unfold NsSt.add
  split
  · exact h.congr (err_objs _ _)
  · rename_i hnot
    split
    · exact h.congr (err_objs _ _)
    · rename_i hpar
      have hnot' : p ∉ st.ns.objs.map (·.1) := fun hm => hnot ((has_iff _ _).2 hm)
      refine ⟨?_, ?_⟩
      · show ((st.ns.objs ++ [(p, desc)]).map (·.1)).Nodup
        rw [List.map_append, List.nodup_append]
        refine ⟨h.1, by simp, ?_⟩
        intro a ha b hb
        simp at hb
        rw [hb]
        intro e
        exact hnot' (e ▸ ha)
      · intro q hq hlen
        have hq' : q ∈ (st.ns.objs ++ [(p, desc)]).map (·.1) := hq
        rw [List.map_append, List.mem_append] at hq'
        rw [has_iff]
        show q.take (q.length - 1) ∈ (st.ns.objs ++ [(p, desc)]).map (·.1)
        rw [List.map_append, List.mem_append]
        rcases hq' with hq' | hq'
        · exact Or.inl ((has_iff _ _).1 (h.2 q hq' hlen))
        · simp at hq'
          rw [hq'] at hlen ⊢
          have : ¬ (p.length > 1 ∧ (!st.ns.has (p.take (p.length - 1))) = true) := hpar
          have hh : st.ns.has (p.take (p.length - 1)) = true := by
            cases hc : st.ns.has (p.take (p.length - 1)) with
            | true => rfl
            | false => exact absurd ⟨hlen, by rw [hc]; rfl⟩ this
          exact Or.inl ((has_iff _ _).1 hh)

theorem declUnits_ok (scope : Path) : ∀ (us : List FieldU) (off acc lock upd : Nat) (st : NsSt), NsOK st.ns →
    NsOK (declUnits scope us off acc lock upd st).ns := by
  intro us
  induction us with
  | nil => intro _ _ _ _ st h; unfold declUnits; exact h
  | cons u us ih =>
    intro off acc lock upd st h
    cases u <;> unfold declUnits
    · exact ih _ _ _ _ _ (add_ok _ _ _ h)
    · exact ih _ _ _ _ _ h
    · exact ih _ _ _ _ _ h
    · exact ih _ _ _ _ _ h
    · exact ih _ _ _ _ _ h
    · exact ih _ _ _ _ _ h

mutual
theorem declObj_ok (scope : Path) : ∀ (o : Obj) (st : NsSt), NsOK st.ns → NsOK (declObj scope o st).ns
  | .name n d, st, h => by
    unfold declObj
    split
    · exact add_ok _ _ _ h
    · exact h.congr (err_objs _ _)
  | .scope _ n body, st, h => by
    unfold declObj
    split
    · exact declObjs_ok _ body st h
    · exact h.congr (err_objs _ _)
  | .device _ n body, st, h => by
    unfold declObj
    split
    · exact declObjs_ok _ body _ (add_ok _ _ _ h)
    · exact h.congr (err_objs _ _)
  | .method _ n flags body, st, h => by
    unfold declObj
    split
    · exact (add_ok st _ _ h).congr rfl
    · exact h.congr (err_objs _ _)
  | .region n space off len, st, h => by
    unfold declObj
    split
    · exact add_ok _ _ _ h
    · exact h.congr (err_objs _ _)
  | .field _ _ flags units, st, h => by
    unfold declObj; exact declUnits_ok _ _ _ _ _ _ _ h
  | .indexField _ _ _ flags units, st, h => by
    unfold declObj; exact declUnits_ok _ _ _ _ _ _ _ h
  | .bankField _ _ _ _ flags units, st, h => by
    unfold declObj; exact declUnits_ok _ _ _ _ _ _ _ h
  | .mutex n sync, st, h => by
    unfold declObj
    split
    · exact add_ok _ _ _ h
    · exact h.congr (err_objs _ _)
  | .event n, st, h => by
    unfold declObj
    split
    · exact add_ok _ _ _ h
    · exact h.congr (err_objs _ _)
  | .processor _ n id addr len body, st, h => by
    unfold declObj
    split
    · exact declObjs_ok _ body _ (add_ok _ _ _ h)
    · exact h.congr (err_objs _ _)
  | .powerres _ n level order body, st, h => by
    unfold declObj
    split
    · exact declObjs_ok _ body _ (add_ok _ _ _ h)
    · exact h.congr (err_objs _ _)
  | .thermal _ n body, st, h => by
    unfold declObj
    split
    · exact declObjs_ok _ body _ (add_ok _ _ _ h)
    · exact h.congr (err_objs _ _)
  | .call name args, st, h => by
    unfold declObj; exact h.congr rfl
theorem declObjs_ok (scope : Path) : ∀ (os : List Obj) (st : NsSt), NsOK st.ns → NsOK (declObjs scope os st).ns
  | [], st, h => by unfold declObjs; exact h
  | o :: os, st, h => by unfold declObjs; exact declObjs_ok scope os _ (declObj_ok scope o st h)
end

theorem resolveCalls_objs (st : NsSt) : (resolveCalls st).ns.objs = st.ns.objs := by
  unfold resolveCalls
  show (List.foldl _ st st.pending).ns.objs = _
  generalize st.pending = l
  induction l generalizing st with
  | nil => rfl
  | cons x l ih =>
    rw [List.foldl_cons, ih]
    obtain ⟨scope, nm, k⟩ := x
    dsimp only
    split
    · split
      · split <;> rfl
      · rfl
    · rfl

/-- **the specification's namespace is a tree, for every program**: no path is declared twice, and every declared
path with more than one segment has its parent declared -/
theorem namespaceOf_ok (tables : List (List Obj)) : NsOK (namespaceOf tables) := by
  unfold namespaceOf
  have h0 : NsOK ({ ns := defaultNs } : NsSt).ns := by
    unfold NsOK
    refine ⟨by decide, ?_⟩
    intro p hp hlen
    have : p.length = 1 := by
      simp [defaultNs] at hp
      rcases hp with e | e | e | e | e <;> rw [e] <;> rfl
    omega
  generalize ({ ns := defaultNs } : NsSt) = st at h0
  induction tables generalizing st with
  | nil => exact h0
  | cons t ts ih =>
    rw [List.foldl_cons]
    exact ih _ ((declObjs_ok [] t st h0).congr (resolveCalls_objs _))

end Firefly.AmlProg
