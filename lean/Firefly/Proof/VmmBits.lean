import Firefly.Model.Vmm
import Firefly.Proof.Bits
/-! Bit-level and address-arithmetic lemmas for the vmm model: masks as `Nat` arithmetic and the
closed form of the entry addresses that `walk` computes inside the recursive window. -/
namespace Firefly.Vmm
open Firefly.Gen.C04

theorem and_low (x : W) (k : Nat) (hk : k ≤ 64) : (x &&& BitVec.ofNat 64 (2 ^ k - 1)).toNat = x.toNat % 2 ^ k := by
  rw [BitVec.toNat_and, BitVec.toNat_ofNat]
  have : (2 ^ k - 1) % 2 ^ 64 = 2 ^ k - 1 := by
    apply Nat.mod_eq_of_lt
    have : 2 ^ k ≤ 2 ^ 64 := Nat.pow_le_pow_right (by omega) hk
    omega
  rw [this, Nat.and_two_pow_sub_one_eq_mod]

theorem and_511 (x : W) : (x &&& 511#64).toNat = x.toNat % 512 := and_low x 9 (by omega)
theorem and_fff (x : W) : (x &&& 0xfff#64).toNat = x.toNat % 4096 := and_low x 12 (by omega)
theorem and_7 (x : W) : (x &&& 7#64).toNat = x.toNat % 8 := and_low x 3 (by omega)

theorem hwMask_split : hwMask = (BitVec.ofNat 64 (2 ^ 52 - 1)) &&& ~~~(4096#64 - 1) := by decide

theorem and_hwMask_toNat (x : W) : (x &&& hwMask).toNat = x.toNat % 2 ^ 52 / 4096 * 4096 := by
  rw [hwMask_split, ← BitVec.and_assoc, Firefly.Bits.toNat_and_mask12, and_low x 52 (by omega)]

/-- the kernel's frame mask is the hardware's -/
theorem physMask_eq : physMask = hwMask := by decide

/-- kernel-side table index of `va` at level `L`, as `walk` computes it -/
def idxW (va : W) (L : Nat) : W := (va >>> levelShift L) &&& (((1 : W) <<< levelBits L) - 1)
/-- the same index as a number: bits `39-9L … 47-9L` of `va` -/
def kidx (va : W) (L : Nat) : Nat := va.toNat / 2 ^ (39 - 9 * L) % 512

theorem kidx_lt (va : W) (L : Nat) : kidx va L < 512 := Nat.mod_lt _ (by omega)

theorem idxW_toNat (va : W) (L : Nat) (hL : L < 4) : (idxW va L).toNat = kidx va L := by
  have h : L = 0 ∨ L = 1 ∨ L = 2 ∨ L = 3 := by omega
  rcases h with h | h | h | h <;> subst h <;>
    simp [idxW, kidx, levelShift, levelBits, pageLevelShifts, pageLevelBits, BitVec.toNat_ushiftRight, Nat.shiftRight_eq_div_pow] <;>
    exact Nat.and_two_pow_sub_one_eq_mod _ 9

theorem hwIdx_eq (va : W) (s : Nat) : hwIdx va s = va.toNat / 2 ^ s % 512 := by
  unfold hwIdx
  rw [and_511]
  simp [BitVec.toNat_ushiftRight, Nat.shiftRight_eq_div_pow]

/-- the hardware index at shift `39-9L` is the kernel's index at level `L` -/
theorem hwIdx_kidx (va : W) (L : Nat) : hwIdx va (39 - 9 * L) = kidx va L := hwIdx_eq va _

/-- the entry address `walk` computes at level `L` (add / shift-left recurrence from `pdtVirtualAddr`) -/
def E (va : W) : Nat → W
  | 0 => pdtVA + (idxW va 0 <<< pointerShift)
  | L + 1 => (E va L <<< levelBits L) + (idxW va (L + 1) <<< pointerShift)

theorem E0_toNat (va : W) : (E va 0).toNat = 2 ^ 64 - 4096 + 8 * kidx va 0 := by
  have h := idxW_toNat va 0 (by omega)
  have hlt := kidx_lt va 0
  simp only [E, pdtVA, w, pdtVirtualAddr, pointerShift, BitVec.toNat_add, BitVec.toNat_shiftLeft, BitVec.toNat_ofNat, h, Nat.shiftLeft_eq]
  omega

theorem E1_toNat (va : W) : (E va 1).toNat = 2 ^ 64 - 2 ^ 21 + 4096 * kidx va 0 + 8 * kidx va 1 := by
  have h := idxW_toNat va 1 (by omega)
  have h0 := E0_toNat va
  have hlt := kidx_lt va 0
  have hlt := kidx_lt va 1
  simp only [E, levelBits, pageLevelBits, List.getD_cons_zero, pointerShift, BitVec.toNat_add, BitVec.toNat_shiftLeft, h, Nat.shiftLeft_eq] at h0 ⊢
  omega

theorem E2_toNat (va : W) :
    (E va 2).toNat = 2 ^ 64 - 2 ^ 30 + 2 ^ 21 * kidx va 0 + 4096 * kidx va 1 + 8 * kidx va 2 := by
  have h := idxW_toNat va 2 (by omega)
  have h1 := E1_toNat va
  have hlt := kidx_lt va 0
  have hlt := kidx_lt va 1
  have hlt := kidx_lt va 2
  rw [E] at ⊢
  simp only [levelBits, pageLevelBits, List.getD_cons_succ, List.getD_cons_zero, pointerShift, BitVec.toNat_add, BitVec.toNat_shiftLeft, h, Nat.shiftLeft_eq, h1]
  omega

theorem E3_toNat (va : W) :
    (E va 3).toNat = 2 ^ 64 - 2 ^ 39 + 2 ^ 30 * kidx va 0 + 2 ^ 21 * kidx va 1 + 4096 * kidx va 2 + 8 * kidx va 3 := by
  have h := idxW_toNat va 3 (by omega)
  have h2 := E2_toNat va
  have hlt := kidx_lt va 0
  have hlt := kidx_lt va 1
  have hlt := kidx_lt va 2
  have hlt := kidx_lt va 3
  rw [E] at ⊢
  simp only [levelBits, pageLevelBits, List.getD_cons_succ, List.getD_cons_zero, pointerShift, BitVec.toNat_add, BitVec.toNat_shiftLeft, h, Nat.shiftLeft_eq, h2]
  omega

/-- address of the table the level-`L` entry points to, as `Map` computes it for `Memset`:
`entryAddr << pageLevelBits[L+1]` -/
def nextTableVA (va : W) (L : Nat) : W := E va L <<< levelBits (L + 1)

end Firefly.Vmm
