/-
Shared helpers for the line-protocol replay drivers (core Lean only).
-/
namespace Firefly.Util

/-- split a protocol line into non-empty blank-separated tokens -/
def toks (s : String) : List String :=
  (s.splitOn " ").filter (· ≠ "")

def nat! (s : String) : Nat := s.toNat?.getD 0

def hexDigit (c : Char) : Nat :=
  if c.isDigit then c.toNat - 48
  else if c.toNat ≥ 97 then c.toNat - 87
  else c.toNat - 55

/-- decode a lower/upper-case hex string ("-" = empty) into bytes -/
def hexBytes (s : String) : List UInt8 :=
  if s = "-" then [] else
  let rec go : List Char → List UInt8
    | a :: b :: rest => UInt8.ofNat (hexDigit a * 16 + hexDigit b) :: go rest
    | _ => []
  go s.toList

def hexNib (n : Nat) : Char :=
  if n < 10 then Char.ofNat (48 + n) else Char.ofNat (87 + n)

def bytesHex (bs : List UInt8) : String :=
  if bs.isEmpty then "-" else
  String.ofList (bs.flatMap fun b => [hexNib (b.toNat / 16), hexNib (b.toNat % 16)])

def joinNats (ns : List Nat) : String :=
  " ".intercalate (ns.map toString)

/-- Counters printed as `STAT key value` at the end of a replay. -/
structure Stats where
  kv : List (String × Nat) := []

def Stats.bump (s : Stats) (k : String) (n : Nat := 1) : Stats :=
  match s.kv.find? (·.1 = k) with
  | some _ => { kv := s.kv.map fun (k', v) => if k' = k then (k', v + n) else (k', v) }
  | none => { kv := s.kv ++ [(k, n)] }

def Stats.print (s : Stats) : IO Unit :=
  for (k, v) in s.kv do IO.println s!"STAT {k} {v}"

end Firefly.Util
