import Firefly.Replay.Vmm
/-! Replay of C06 traces: model vs implementation, and the property oracle (zero frame never
writable, copy-on-write faults get a private copy, everything else panics) on the implementation's
observations. -/
namespace Firefly.Replay.C06
open Firefly.Util Firefly.Replay.Vmm

def p36 (p : Nat) : Nat := p % 2 ^ 36
def tempPage : Nat := Firefly.Gen.C04.tempMappingAddr / 4096
def hasRW (e : Nat) : Bool := (e >>> 1) % 2 = 1
def hasCoW (e : Nat) : Bool := (e >>> 9) % 2 = 1

abbrev Fails := List (String × String)
def chk (ok : Bool) (clause feature : String) : Fails := if ok then [] else [(clause, feature)]

structure Ctx where
  pre : Obs
  post : Obs
  queue : List Nat
  tmpFail : Bool
  roots : List Nat      -- every address-space root the case has created (active root first)

/-- no present leaf of any known address space maps the zero frame writable -/
def zeroNeverRW (o : Obs) (roots : List Nat) : Bool :=
  !o.protect || roots.all fun r =>
    match leaves o.mem r with
    | some ls => ls.all fun (_, e) => !(entFrame e = o.zeroFrame && hasRW e)
    | none => true

/-- number of levels the temporary mapping still needs -/
def tmpLevelsMissing (d : Dump) (root : Nat) : Nat :=
  match leafOf d root (p36 tempPage) with
  | .absent k => 3 - k
  | _ => 0

def oracle (c : Ctx) (name : String) (op : List Nat) : Option Fails :=
  let pre := c.pre; let post := c.post
  let root := pre.cr3 / 4096
  let inv := if post.aborted then [] else chk (zeroNeverRW post c.roots) "zero-never-rw" name
  let guard (f fl : Nat) : Option Fails :=
    if pre.protect && f = pre.zeroFrame && hasRW fl then
      some (inv ++ chk (post.code = 3) "zero-frame-guard" name)
    else none
  match name, op with
  | "map", [_, f, fl] => (guard f fl).orElse fun _ => some inv
  | "pmap", [_, _, f, fl] => (guard f fl).orElse fun _ => some inv
  | "region", [f, size, fl] =>
    if 0 < size && size ≤ 2 ^ 32 then (guard f fl).orElse fun _ => some inv else some inv
  | "ident", [f, size, fl] =>
    if 0 < size && size ≤ 2 ^ 32 then (guard f fl).orElse fun _ => some inv else some inv
  | "maptmp", [f] =>
    if pre.protect && f = pre.zeroFrame then some (inv ++ chk (post.code = 3 && pre.mem == post.mem) "zero-frame-guard" name)
    else some inv
  | "rzf", [] =>
    if post.aborted then none else
    if post.code = 0 then
      some (inv ++ chk (post.protect && c.queue.head? = some post.zeroFrame) "reserve-arms-guard" name ++
        chk (match post.mem.frame post.zeroFrame with | .sparse [] => true | _ => false) "zero-frame-zeroed" name)
    else some (inv ++ chk (post.protect = pre.protect) "reserve-fail-not-armed" name)
  | "gpf", _ => some (chk (post.aborted && 200 ≤ post.code && post.code < 300) "gpf-panics" name)
  | "pf", [addr, _] =>
    let page := p36 (addr / 4096)
    match leafOf pre.mem root page, leaves pre.mem root with
    | .huge _, _ => none
    | lp, some a =>
      let recoverable := match lp with
        | .entry e => entPresent e && !hasRW e && hasCoW e
        | _ => false
      if !recoverable then
        some (chk (post.aborted && 200 ≤ post.code && post.code < 300) "otherwise-panics" "not-cow")
      else
        let e := match lp with | .entry e => e | _ => 0
        let enough := c.queue.length ≥ 1 + tmpLevelsMissing pre.mem root
        let copy := c.queue.headD 0
        let blocked := c.tmpFail || !enough || (pre.protect && copy = pre.zeroFrame) || page = p36 tempPage
        if blocked then
          some (chk (post.aborted && 200 ≤ post.code && post.code < 300) "failure-panics" "cow-failure")
        else if post.aborted then some [("cow-resumes", "cow")]
        else
          match leaves post.mem root with
          | none => none
          | some b =>
            let old := entFrame e
            let want := ((e &&& (2 ^ 64 - 1 - physMaskN - 512)) ||| 3) ||| (copy * 4096)
            some (inv ++
              chk (leafOf post.mem root page == .entry want) "cow-entry-private-rw" "cow" ++
              chk (post.mem.frame copy == pre.mem.frame old) "cow-copy-equal-contents" "cow" ++
              chk (post.mem.frame old == pre.mem.frame old) "cow-shared-frame-untouched" "cow" ++
              chk (match leafOf post.mem root (p36 tempPage) with
                   | .entry e => !entPresent e
                   | .absent _ => true
                   | .huge _ => false) "cow-temp-unmapped" "cow" ++
              chk (b == (lset a page want).filter (·.1 ≠ p36 tempPage))
                "cow-others-untouched" "cow" ++
              chk (post.flushes.contains (addr / 4096 * 4096)) "cow-flush" "cow")
    | _, none => none
  | _, _ => some inv

structure CSt where
  r : RSt := {}
  stats : Stats := {}
  caseId : String := ""
  prev : Obs := {}
  queue : List Nat := []
  tmpFail : Bool := false
  roots : List Nat := []

def processLine (st : CSt) (line : String) : IO CSt := do
  match line.splitOn " | " with
  | [opS, obsS] =>
    let name := (toks opS).headD "?"
    let op := ((toks opS).drop 1).map nat!
    let mut st := { st with stats := st.stats.bump "ops" |>.bump s!"op_{name}" }
    if name = "memset" || name = "memcopy" then
      let (mm, pf) ← muLine st.caseId opS obsS name op
      return { st with stats := (st.stats.bump "mismatch" mm |>.bump "propfail" pf |>.bump "memutil_ops") }
    let (r, m) := modelStep st.r name op
    st := { st with r := r }
    if m.trimAscii.toString ≠ obsS.trimAscii.toString then
      IO.println s!"MISMATCH case={st.caseId} op={opS} model={m} impl={obsS}"
      st := { st with stats := st.stats.bump "mismatch" }
    match parseObs obsS st.prev.mem with
    | none =>
      IO.println s!"MISMATCH case={st.caseId} unparsable observation: {line}"
      return st
    | some post =>
      if name = "init" then
        st := { st with queue := [], tmpFail := false, roots := [op.getD 2 0] }
      if let ("pinit", [_, f]) := (name, op) then
        if !st.roots.contains f then st := { st with roots := st.roots ++ [f] }
      let c : Ctx := { pre := st.prev, post := post, queue := st.queue, tmpFail := st.tmpFail, roots := st.roots }
      match oracle c name op with
      | none => st := { st with stats := st.stats.bump "out_of_domain" }
      | some fails =>
        st := { st with stats := st.stats.bump "oracle_checked" }
        for (cl, ft) in fails do
          IO.println s!"PROPFAIL case={st.caseId} clause={cl} feature={ft} op={opS} impl={obsS}"
          st := { st with stats := st.stats.bump "propfail" }
      if name = "pf" then
        st := { st with stats := st.stats.bump (if post.aborted then s!"pf_panic_{post.code}" else "pf_recovered") }
      if name = "map" && post.code = 3 then st := { st with stats := st.stats.bump "guard_hits" }
      let queue := match name with
        | "alloc" => op
        | _ => if post.aborted then st.queue else st.queue.drop post.allocs
      let tmpFail := match name, op with
        | "tmpfail", [b] => b != 0
        | _, _ => st.tmpFail
      return { st with prev := if post.aborted then st.prev else post, queue := queue, tmpFail := tmpFail }
  | _ =>
    match toks line with
    | ["case", id] => return { st with caseId := id, stats := st.stats.bump "cases" }
    | [] => return st
    | _ => IO.println s!"MISMATCH case={st.caseId} unparsable line: {line}"; return st

def run (lines : Array String) : IO Unit := do
  let mut st : CSt := {}
  for l in lines do st ← processLine st l
  st.stats.print

end Firefly.Replay.C06
