import Firefly.Util
import Firefly.Model.Vmm
import Firefly.Model.MemUtil
/-! Shared replay machinery of the vmm properties (C04, C05, C06): op interpreter for the model,
canonical observation text, parser for the implementation's observation, and the software-MMU view
of a memory dump that the oracles use (independent of the model's `mmu`). -/
namespace Firefly.Replay.Vmm
open Firefly.Util Firefly.Vmm

/-! ## compacted memory: one array per touched frame, sorted by frame number; the dump text of a
frame is cached until the frame is written again -/
structure Tab where
  f : Nat
  a : Array W
  frag : Option String := none

abbrev Tabs := List Tab

def zeroTab : Array W := Array.replicate 512 0

def Tabs.modify (t : Tabs) (f : Nat) (fn : Array W → Array W) : Tabs :=
  match t with
  | [] => [{ f := f, a := fn zeroTab }]
  | x :: r =>
    if x.f = f then { f := f, a := fn x.a } :: r
    else if f < x.f then { f := f, a := fn zeroTab } :: x :: r
    else x :: Tabs.modify r f fn

def applyCell (t : Tabs) : Cell → Tabs
  | .word f i v => Tabs.modify t f (fun a => a.setIfInBounds i v)
  | .frame f g => Tabs.modify t f (fun _ => Array.ofFn (n := 512) fun i => g i.val)

def tabsToLog (t : Tabs) : List Cell := t.map fun x => .frame x.f (fun i => x.a.getD i 0)

def hashTab (a : Array W) : W :=
  a.foldl (fun h x => (h ^^^ x) * 1099511628211#64) 14695981039346656037#64

/-- dump text of one frame ("" when it is all zero) -/
def fragOf (f : Nat) (a : Array W) : String := Id.run do
  let k := a.foldl (fun k x => if x != 0 then k + 1 else k) 0
  if k = 0 then return ""
  if k > 300 then return s!" {f} 999 {k} {(hashTab a).toNat}"
  let mut s := s!" {f} {k}"
  let mut i := 0
  for x in a do
    if x != 0 then s := s ++ s!" {i} {x.toNat}"
    i := i + 1
  return s

def Tabs.refresh (t : Tabs) : Tabs :=
  t.map fun x => match x.frag with
    | some _ => x
    | none => { x with frag := some (fragOf x.f x.a) }

def dumpTabs (t : Tabs) : String :=
  let frags := t.filterMap fun x =>
    let s := match x.frag with
      | some s => s
      | none => fragOf x.f x.a
    if s = "" then none else some s
  s!"{frags.length}{String.join frags}"

structure RSt where
  st : St := { mem := { base := 0, n := 0, log := [] }, cr3 := 0 }
  tabs : Tabs := []
  pdts : Array W := Array.replicate 4 0
  secs : List Section := []
  lastDump : String := ""

/-- fold the cells the last op prepended to the log into the per-frame arrays -/
def RSt.compact (r : RSt) : RSt :=
  let log := r.st.mem.log
  let newCells := log.take (log.length - r.tabs.length)
  let tabs := (newCells.reverse.foldl applyCell r.tabs).refresh
  { r with tabs := tabs, st := { r.st with mem := { r.st.mem with log := tabsToLog tabs } } }

def stateStr (r : RSt) : String × RSt :=
  let st := r.st
  let d := dumpTabs r.tabs
  let head := s!"F {st.flushes.length}{String.join (st.flushes.map fun a => s!" {a.toNat}")} A {st.allocs} C {st.cr3.toNat} U {st.cursor.toNat} Z {st.zeroFrame.toNat} {if st.protect then 1 else 0} K {st.kpdt.toNat}"
  if d = r.lastDump then (head ++ " M same", r) else (head ++ " M " ++ d, { r with lastDump := d })

def sections : List Nat → List Section
  | a :: b :: c :: rest => { flags := w a, addr := w b, size := w c } :: sections rest
  | _ => []

/-- the kernel's flag constants by name (regenerated from the compiled package), in x86-64 bit order -/
def namedFlags : List Nat :=
  [Firefly.Gen.C04.flagPresent, Firefly.Gen.C04.flagRW, Firefly.Gen.C04.flagUserAccessible,
   Firefly.Gen.C04.flagWriteThroughCaching, Firefly.Gen.C04.flagDoNotCache, Firefly.Gen.C04.flagAccessed,
   Firefly.Gen.C04.flagDirty, Firefly.Gen.C04.flagHugePage, Firefly.Gen.C04.flagGlobal,
   Firefly.Gen.C04.flagCopyOnWrite, Firefly.Gen.C04.flagNoExecute]

/-- what the x86-64 architecture (and the kernel's documentation of its software bit) says those flags
are: literal bit positions, independent of the package's constants -/
def archFlagBits : List Nat := [0, 1, 2, 3, 4, 5, 6, 7, 8, 9, 63]

/-- run one op on the model: new state and the observation text -/
def modelStep (r : RSt) (name : String) (op : List Nat) : RSt × String :=
  let st0 := { r.st with flushes := [], allocs := 0 }
  let fin (res : R (Nat × W)) (r : RSt) : RSt × String :=
    match res with
    | .error .fault => (r, "100")
    | .error (.panic c) => (r, s!"{c}")
    | .ok ((code, val), st) =>
      let r := ({ r with st := st } : RSt).compact
      let (s, r) := stateStr r
      (r, s!"{code} {val.toNat} {s}")
  let code (res : R Nat) : R (Nat × W) := res.map fun (c, st) => ((c, 0), st)
  let unit (res : R Unit) : R (Nat × W) := res.map fun (_, st) => ((0, 0), st)
  let pdt (k : Nat) : W := r.pdts.getD k 0
  match name, op with
  | "init", [base, n, root] =>
    let st : St := { mem := { base := base, n := n, log := [.word root 511 (w (root * 4096 + 3))] }, cr3 := w (root * 4096) }
    fin (.ok ((0, 0), st)) { st := st }
  | "alloc", fs =>
    let mem := fs.foldl (fun m f => if m.backed f then m.setFrame f (fun i => w f * w (2 * i + 1) + w i) else m) st0.mem
    fin (.ok ((0, 0), { st0 with free := fs.map w, mem := mem })) r
  | "map", [p, f, fl] => fin (code (mapOp st0 (w p) (w f) (w fl))) r
  | "mapflag", [p, f, i] => fin (code (mapOp st0 (w p) (w f) (fPresent ||| w (namedFlags.getD i 0)))) r
  | "unmap", [p] => fin (code (unmapOp st0 (w p))) r
  | "xlate", [va] => fin (translate st0 (w va)) r
  | "maptmp", [f] => fin (mapTemporary st0 (w f)) r
  | "pinit", [k, f] => fin (code (pdtInit st0 (w f))) { r with pdts := r.pdts.setIfInBounds k (w f) }
  | "pmap", [k, p, f, fl] => fin (code (pdtMap st0 (pdt k) (w p) (w f) (w fl))) r
  | "punmap", [k, p] => fin (code (pdtUnmap st0 (pdt k) (w p))) r
  | "act", [k] => fin (.ok ((0, 0), pdtActivate st0 (pdt k))) r
  | "region", [f, sz, fl] => fin (mapRegion st0 (w f) (w sz) (w fl)) r
  | "ident", [f, sz, fl] => fin (identityMapRegion st0 (w f) (w sz) (w fl)) r
  | "fill", [f, seed] =>
    fin (.ok ((0, 0), { st0 with mem := st0.mem.setFrame f (fun i => w seed * w (2 * i + 1) + w i) })) r
  | "poke", [f, i, v] => fin (.ok ((0, 0), { st0 with mem := st0.mem.wr f i (w v) })) r
  | "setz", [f, p] => fin (.ok ((0, 0), { st0 with zeroFrame := w f, protect := p != 0 })) r
  | "tmpfail", [b] => fin (.ok ((0, 0), { st0 with tmpFail := b != 0 })) r
  | "rzf", [] => fin (code (reserveZeroedFrame st0)) r
  | "pf", [addr, _] => fin (unit (pageFault st0 (w addr))) r
  | "gpf", [_, _] => fin (unit (gpFault st0)) r
  | "secs", xs => fin (.ok ((0, 0), st0)) { r with secs := sections xs }
  | "secsmb", xs =>
    -- through multiboot.VisitElfSections: empty sections are not reported, the flags word is cut to 32 bits
    fin (.ok ((0, 0), st0)) { r with secs := (sections xs).filterMap fun s =>
      if s.size = 0 then none else some { s with flags := s.flags &&& 0xffffffff#64 } }
  | "reserve", [sz] =>
    let ((c, a), st) := earlyReserve st0 (w sz)
    fin (.ok ((c, a), st)) r
  | "setup", [off] => fin (code (setupPDTForKernel st0 (w off) r.secs)) r
  | _, _ => (r, "bad-op")

/-! ## the implementation's observation -/
inductive FrameDump where
  | sparse (es : List (Nat × Nat))
  | hashed (count hash : Nat)
deriving BEq, Repr

abbrev Dump := List (Nat × FrameDump)

structure Obs where
  code : Nat := 0
  val : Nat := 0
  aborted : Bool := false
  flushes : List Nat := []
  allocs : Nat := 0
  cr3 : Nat := 0
  cursor : Nat := 0
  zeroFrame : Nat := 0
  protect : Bool := false
  kpdt : Nat := 0
  mem : Dump := []
deriving Repr

def pairs : Nat → List Nat → List (Nat × Nat) × List Nat
  | 0, xs => ([], xs)
  | k + 1, i :: v :: xs => let (ps, rest) := pairs k xs; ((i, v) :: ps, rest)
  | _, xs => ([], xs)

def parseFrames : Nat → List Nat → Dump
  | 0, _ => []
  | nf + 1, f :: 999 :: c :: h :: rest => (f, .hashed c h) :: parseFrames nf rest
  | nf + 1, f :: k :: rest => let (ps, rest) := pairs k rest; (f, .sparse ps) :: parseFrames nf rest
  | _, _ => []

/-- parse `code val F n a.. A k C c U u Z z p K k M (same | dump)`; `prev` = memory of the previous op -/
def parseObs (s : String) (prev : Dump) : Option Obs :=
  match toks s with
  | [c] => some { code := nat! c, aborted := true, mem := prev }
  | c :: v :: "F" :: nfl :: rest =>
    let nfl := nat! nfl
    let fl := (rest.take nfl).map nat!
    match rest.drop nfl with
    | "A" :: a :: "C" :: cr3 :: "U" :: u :: "Z" :: z :: p :: "K" :: k :: "M" :: m =>
      let mem := match m with
        | ["same"] => prev
        | nf :: xs => parseFrames (nat! nf) (xs.map nat!)
        | [] => []
      some { code := nat! c, val := nat! v, flushes := fl, allocs := nat! a, cr3 := nat! cr3, cursor := nat! u,
             zeroFrame := nat! z, protect := p = "1", kpdt := nat! k, mem := mem }
    | _ => none
  | _ => none

/-! ## software-MMU view of a dump (oracle side) -/
def Dump.frame (d : Dump) (f : Nat) : FrameDump := (d.lookup f).getD (.sparse [])
def Dump.rd (d : Dump) (f i : Nat) : Nat :=
  match d.frame f with
  | .sparse es => (es.lookup i).getD 0
  | .hashed _ _ => 0

def physMaskN : Nat := 0x000ffffffffff000
def entFrame (e : Nat) : Nat := (e &&& physMaskN) >>> 12
def entPresent (e : Nat) : Bool := e % 2 = 1
def entHuge (e : Nat) : Bool := (e >>> 7) % 2 = 1

/-- index `k` (0 = top level) of a 36-bit page index -/
def pageIdx (p : Nat) (k : Nat) : Nat := (p >>> (9 * (3 - k))) % 512

inductive Leaf where
  | absent (level : Nat)       -- first non-present level
  | huge (level : Nat)
  | entry (e : Nat)            -- raw leaf entry (present or not)
deriving BEq, Repr

/-- hardware walk of page `p` (36-bit index) from `root` in dump `d` -/
def leafOf (d : Dump) (root : Nat) (p : Nat) : Leaf := Id.run do
  let mut t := root
  for k in [0, 1, 2] do
    if let .hashed _ _ := d.frame t then return .huge k   -- opaque (dense data frame used as a table)
    let e := d.rd t (pageIdx p k)
    if !entPresent e then return .absent k
    if k > 0 && entHuge e then return .huge k
    t := entFrame e
  if let .hashed _ _ := d.frame t then return .huge 3
  return .entry (d.rd t (pageIdx p 3))

/-- table frames reachable from `root` (root included), entry 511 of the root excluded -/
def tableFrames (d : Dump) (root : Nat) : List Nat := Id.run do
  let mut out := [root]
  let mut level := [root]
  for k in [0, 1, 2] do
    let mut next := []
    for t in level do
      match d.frame t with
      | .sparse es =>
        for (i, e) in es do
          if entPresent e && !(k = 0 && i = 511) && !(k > 0 && entHuge e) then next := entFrame e :: next
      | .hashed _ _ => pure ()
    out := out ++ next
    level := next
  return out

/-- every present leaf reachable from `root` outside the recursive slot: (36-bit page index, raw entry),
sorted by page; `none` if the structure is not a plain tree of sparse tables (huge bits, too dense) -/
def leaves (d : Dump) (root : Nat) : Option (List (Nat × Nat)) := Id.run do
  let mut level : List (Nat × Nat) := [(0, root)]     -- (index prefix, table frame)
  for k in [0, 1, 2] do
    let mut next := []
    for (pre, t) in level do
      match d.frame t with
      | .sparse es =>
        for (i, e) in es do
          if entPresent e && !(k = 0 && i = 511) then
            if k > 0 && entHuge e then return none
            next := (pre * 512 + i, entFrame e) :: next
      | .hashed _ _ => return none
    if next.length > 4096 then return none
    level := next
  let mut out := []
  for (pre, t) in level do
    match d.frame t with
    | .sparse es => for (i, e) in es do if entPresent e then out := (pre * 512 + i, e) :: out
    | .hashed _ _ => return none
  return some (out.toArray.qsort (fun a b => a.1 < b.1)).toList

def lset (l : List (Nat × Nat)) (p e : Nat) : List (Nat × Nat) :=
  let l := l.filter (·.1 ≠ p)
  if entPresent e then ((p, e) :: l).toArray.qsort (fun a b => a.1 < b.1) |>.toList else l

/-! ## kernel.Memset / kernel.Memcopy on a guarded host buffer -/
open Firefly.MemUtil in
def muN : Nat := 20736

open Firefly.MemUtil in
def muPattern (seed : Nat) : Bytes := fun i => BitVec.ofNat 8 (i * 7 + seed * 13 + i / 256)

open Firefly.MemUtil in
/-- hash of the whole buffer, number of bytes differing from the pattern, first / last such index -/
def muObs (seed : Nat) (final : Bytes) : String := Id.run do
  let mut h : BitVec 64 := 14695981039346656037#64
  let mut nd := 0
  let mut first := muN
  let mut last := muN
  for i in [0:muN] do
    let b := final i
    h := (h ^^^ BitVec.ofNat 64 b.toNat) * 1099511628211#64
    if b != muPattern seed i then
      nd := nd + 1
      if first = muN then first := i
      last := i
  return s!"{h.toNat} {nd} {first} {last}"

open Firefly.MemUtil in
/-- observation of the model (the functions as written) -/
def muModel (name : String) (op : List Nat) : String :=
  match name, op with
  | "memset", [seed, off, val, size] =>
    match memset (muPattern seed) off (BitVec.ofNat 8 val) (BitVec.ofNat 64 size) with
    | .done mem _ => muObs seed mem
    | .hang => "hang"
  | "memcopy", [seed, src, dst, size] => muObs seed (memcopy (muPattern seed) src dst (BitVec.ofNat 64 size))
  | _, _ => "bad-op"

open Firefly.MemUtil in
/-- observation required by the specification: exactly `[off, off+size)` becomes `value` / the source -/
def muSpec (name : String) (op : List Nat) : String :=
  match name, op with
  | "memset", [seed, off, val, size] =>
    muObs seed (fun i => if off ≤ i ∧ i < off + size then BitVec.ofNat 8 val else muPattern seed i)
  | "memcopy", [seed, src, dst, size] =>
    muObs seed (fun i => if dst ≤ i ∧ i < dst + size then muPattern seed (src + (i - dst)) else muPattern seed i)
  | _, _ => "bad-op"

/-- handle a memset / memcopy trace line: (model mismatch?, failing clause?) -/
def muLine (caseId opS obsS name : String) (op : List Nat) : IO (Nat × Nat) := do
  let mut mm := 0
  let mut pf := 0
  let m := muModel name op
  if m ≠ obsS.trimAscii.toString then
    IO.println s!"MISMATCH case={caseId} op={opS} model={m} impl={obsS}"
    mm := 1
  if muSpec name op ≠ obsS.trimAscii.toString then
    IO.println s!"PROPFAIL case={caseId} clause={if name = "memset" then "memset-fills" else "memcopy-copies"} feature=memutil op={opS} impl={obsS}"
    pf := 1
  return (mm, pf)

end Firefly.Replay.Vmm
