import Firefly.Util
import Firefly.Model.Vt
import Firefly.Spec.Term
import Firefly.Replay.C17
/-!
Replay of C18 traces.  Line protocol (harness/tty/c18_test.go):

    font <id> <gw> <gh> <bytesPerRow> <hex data>                      (once, before the cases)
    case <id>
    K mock <w> <h> <fg> <bg>                               | <text> <outside>
    K text <cols> <rows> <fg> <bg>                         | <text> <outside>
    K vesa <font> <cols> <rows> <fg> <bg> <nb> <pkfg> <pkbg> | <text> <outside>
    A <tab> <sb>      | <vt> ; <text> <outside>      NewVT(tab, sb).AttachTo(console)
    W <hex>           | <vt> ; <text> <outside>
    P <x> <y>         | <vt> ; <text> <outside>
    S <0|1>           | <vt> ; <text> <outside>
    L <tab> <sb> <hex> | <vt> ; <text> <outside>     hal.linkTTYToConsole as the kernel links the pair
                                                      (cases `hal-…`, harness/hal/c18hal_test.go): the
                                                      shipped VT is attached, receives the early kfmt
                                                      output <hex> and is activated — one observation

`<vt>` = `panic` or `<cx> <cy> <vy> <active> <datahash>`; `<text>` = hash of the canonical text area
of the screen read back from the console (mock: the cells; text mode: the words; framebuffer: the
`nb` stored bytes of every pixel of every cell, pixel row by pixel row); `<outside>` = hash of the
bytes that are not part of the cell grid (mock: number of draw requests outside the grid).
(1) model: VT model + abstract console (`Spec/Term.lean`) rendered the same way; (2) oracle on the
implementation's read-back against the reference terminal's viewport.
-/
namespace Firefly.Replay.C18
open Firefly.Util Firefly.Vt Firefly.Term Firefly.Replay.C17

structure Font where
  gw : Nat
  gh : Nat
  bpr : Nat
  data : Array UInt8
  deriving Inhabited

inductive Kind where
  | mock
  | text
  | vesa (f : Font) (nb : Nat) (pkFg pkBg : Array UInt8) (fg bg : UInt8)
  deriving Inhabited

def glyphBit (f : Font) (ch px py : Nat) : Bool :=
  ((f.data.getD (ch * f.bpr * f.gh + py * f.bpr + px / 8) 0).toNat >>> (7 - px % 8)) % 2 = 1

/-- hash of the canonical text area showing `cells` -/
def render (k : Kind) (cells : Grid) : UInt64 :=
  match k with
  | .mock => cells.foldl (fun h line => line.foldl (fun h c => mix (mix (mix h c.ch.toNat) c.fg.toNat) c.bg.toNat) h) hash0
  | .text => cells.foldl (fun h line => line.foldl
      (fun h c => mix h (c.ch.toNat + 256 * ((c.bg.toNat * 16 + c.fg.toNat) % 256))) h) hash0
  | .vesa f _ pkFg pkBg fg _ =>
    cells.foldl (fun h line =>
      (List.range f.gh).foldl (fun h py =>
        line.foldl (fun h c =>
          (List.range f.gw).foldl (fun h px =>
            -- a cell in the console's default colours; any other colour has no known pixel value
            let on := glyphBit f c.ch.toNat px py
            let bytes := if on then (if c.fg = fg then pkFg else #[]) else pkBg
            bytes.foldl (fun h b => mix h b.toNat) h) h) h) h) hash0

structure St where
  stats : Stats := {}
  caseId : String := ""
  fonts : Array Font := #[]
  kind : Kind := .mock
  w : Nat := 0
  h : Nat := 0
  fg : UInt8 := 0
  bg : UInt8 := 0
  vt : Option VT := none
  ref : Option Term := none
  cons : Console := Console.new 0 0 default
  painted : Bool := false
  scr0 : List String := []
  prevScr : List String := []

def short (s : String) : String := if s.length > 200 then (s.take 200).toString ++ "…" else s

def processLine (st : St) (line : String) : IO St := do
  match line.splitOn " | " with
  | [opS, obsS] =>
    let op := toks opS
    match op with
    | "K" :: rest =>
      let scr := toks obsS
      let st := { st with scr0 := scr, prevScr := scr, painted := false, vt := none, ref := none }
      match rest with
      | ["mock", w, h, fg, bg] =>
        return { st with kind := .mock, w := nat! w, h := nat! h, fg := UInt8.ofNat (nat! fg), bg := UInt8.ofNat (nat! bg),
                         stats := st.stats.bump "kind_mock" }
      | ["text", w, h, fg, bg] =>
        return { st with kind := .text, w := nat! w, h := nat! h, fg := UInt8.ofNat (nat! fg), bg := UInt8.ofNat (nat! bg),
                         stats := st.stats.bump "kind_text" }
      | ["vesa", fid, w, h, fg, bg, nb, pkfg, pkbg] =>
        let f := st.fonts.getD (nat! fid) default
        let fgb := UInt8.ofNat (nat! fg); let bgb := UInt8.ofNat (nat! bg)
        return { st with kind := .vesa f (nat! nb) (hexBytes pkfg).toArray (hexBytes pkbg).toArray fgb bgb,
                         w := nat! w, h := nat! h, fg := fgb, bg := bgb,
                         stats := st.stats.bump "kind_vesa" |>.bump s!"vesa_bytes{nat! nb}" |>.bump s!"vesa_font{nat! fid}" }
      | _ => IO.println s!"MISMATCH case={st.caseId} unparsable console line: {short line}"; return st
    | _ =>
    let (vtS, scrS) := match obsS.splitOn " ; " with
      | [a, b] => (a.trimAscii.toString, b.trimAscii.toString)
      | _ => ("?", "?")
    let scr := toks scrS
    let mut st := { st with stats := st.stats.bump "ops" |>.bump s!"op_{op.headD "?"}" }
    -- (1) model
    let res : Res :=
      match st.vt, op with
      | _, ["A", tab, sb] => attachTo (newVT (nat! tab) (nat! sb)) st.w st.h st.fg st.bg
      | some t, ["W", hex] => write { t with out := [] } (hexBytes hex)
      | some t, ["P", x, y] => .ok (setCursorPosition { t with out := [] } (nat! x) (nat! y))
      | some t, ["S", a] => setState { t with out := [] } (a = "1")
      | _, ["L", tab, sb, hex] =>
        (attachTo (newVT (nat! tab) (nat! sb)) st.w st.h st.fg st.bg).bind fun t =>
          (write t (hexBytes hex)).bind fun t => setState t true
      | _, _ => .panic
    match op with
    | ["A", tab, sb] =>
      st := { st with cons := Console.new st.w st.h ⟨0xee, 0xee, 0xee⟩,
                      ref := some (Term.new st.w st.h (nat! sb) (nat! tab) st.fg st.bg) }
    | ["W", hex] =>
      if let some r := st.ref then
        st := { st with ref := some (r.run ((hexBytes hex).map Op.byte)), stats := st.stats.bump "bytes" (hexBytes hex).length }
    | ["P", x, y] => if let some r := st.ref then st := { st with ref := some (r.setCursor (nat! x) (nat! y)) }
    | ["L", tab, sb, hex] =>
      st := { st with cons := Console.new st.w st.h ⟨0xee, 0xee, 0xee⟩,
                      ref := some ((Term.new st.w st.h (nat! sb) (nat! tab) st.fg st.bg).run ((hexBytes hex).map Op.byte)),
                      stats := st.stats.bump "hal_links" |>.bump "bytes" (hexBytes hex).length }
    | _ => pure ()
    let mut mvt := "panic"
    if let .ok t := res then
      mvt := s!"{t.cursorX} {t.cursorY} {t.viewportY} {b2n t.active} {(hashBytes t.data).toNat}"
      let cons := st.cons.applyLog t.out
      st := { st with cons := cons, painted := st.painted || !t.out.isEmpty,
                      stats := st.stats.bump "console_calls" t.out.length }
      if op = ["S", "1"] ∧ !t.out.isEmpty then st := { st with stats := st.stats.bump "redraws" }
    st := { st with vt := match res with | .ok t => some t | .panic => none }
    let outside0 := st.scr0.getD 1 "?"
    let mscr : List String :=
      if st.painted then
        [toString (render st.kind st.cons.cells).toNat,
         match st.kind with | .mock => toString st.cons.outside | _ => outside0]
      else st.scr0
    if mvt ≠ vtS ∨ mscr ≠ scr then
      IO.println s!"MISMATCH case={st.caseId} op={short opS} model={mvt} ; {" ".intercalate mscr} impl={short obsS}"
      st := { st with stats := st.stats.bump "mismatch" }
    -- (2) oracle on the implementation's observation
    let mut fails : List String := []
    let vtT := toks vtS
    if vtT = ["panic"] then fails := fails ++ ["no-panic"]
    if scr.getD 1 "" ≠ outside0 then fails := fails ++ ["no-outside-draw"]
    match vtT, st.ref with
    | [_, _, _, act, _], some r =>
      if act = "1" then
        st := { st with stats := st.stats.bump "active_ops" }
        if scr.getD 0 "" ≠ toString (render st.kind r.viewport).toNat then
          fails := fails ++ [if op = ["S", "1"] ∨ op.head? = some "L" then "activate-redraws" else "active-sync"]
      else
        st := { st with stats := st.stats.bump "inactive_ops" }
        if scr ≠ st.prevScr then fails := fails ++ ["inactive-untouched"]
    | _, _ => pure ()
    for cl in fails do
      IO.println s!"PROPFAIL case={st.caseId} clause={cl} feature={if st.caseId.startsWith "hal" then "hal-linked-" else ""}{match st.kind with | .mock => "mock" | .text => "text" | .vesa .. => "vesa"} op={short opS} impl={short obsS}"
      st := { st with stats := st.stats.bump "propfail" }
    st := { st with prevScr := scr }
    return st
  | _ =>
    match toks line with
    | ["case", id] => return { st with caseId := id, vt := none, ref := none, stats := st.stats.bump "cases" }
    | ["font", id, gw, gh, bpr, hex] =>
      let f : Font := { gw := nat! gw, gh := nat! gh, bpr := nat! bpr, data := (hexBytes hex).toArray }
      return { st with fonts := if nat! id < st.fonts.size then st.fonts.set! (nat! id) f else st.fonts.push f }
    | [] => return st
    | _ => IO.println s!"MISMATCH case={st.caseId} unparsable line: {short line}"; return st

def run (lines : Array String) : IO Unit := do
  let mut st : St := {}
  for l in lines do st ← processLine st l
  st.stats.print

end Firefly.Replay.C18
