import Firefly.Util
import Firefly.Model.Kfmt
/-! Replay of C15 traces: the Lean model of `Fprintf` vs the implementation, and the property
oracle (spec `render` in list vocabulary) on the implementation's observations.  Core Lean only. -/
namespace Firefly.Replay.C15
open Firefly.Util Firefly.Kfmt Firefly.Gen.C15

def hex2 (b : UInt8) : String := String.ofList [hexNib (b.toNat / 16), hexNib (b.toNat % 16)]

def hexRange (bs : Array UInt8) (lo hi : Nat) : String := Id.run do
  let mut s := ""
  for i in [lo:hi] do
    s := s ++ hex2 bs[i]!
  return s

def addTok (out tok : String) : String := if out.isEmpty then tok else out ++ "." ++ tok

/-- same canonical run-length encoding as `c15Encode` of the Go harness: tokens joined by `.`,
a run of ≥ 32 equal bytes is `<hh>*<count>`, everything else hex; `-` for the empty output -/
def encode (l : List UInt8) : String := Id.run do
  let bs := l.toArray
  if bs.size = 0 then return "-"
  let mut out := ""
  let mut lit := 0
  let mut i := 0
  while i < bs.size do
    let mut j := i
    while j < bs.size && bs[j]! == bs[i]! do
      j := j + 1
    if j - i ≥ 32 then
      if i > lit then out := addTok out (hexRange bs lit i)
      out := addTok out (hex2 bs[i]! ++ "*" ++ toString (j - i))
      lit := j
    i := j
  if bs.size > lit then out := addTok out (hexRange bs lit bs.size)
  return out

/-- decoder of that encoding (used only to compute the feature tag of a failure) -/
def decode (s : String) : List UInt8 :=
  if s = "-" then [] else
  (s.splitOn ".").foldl (fun acc tok =>
    match tok.splitOn "*" with
    | [h, n] => acc ++ List.replicate (nat! n) ((hexBytes h).headD 0)
    | _ => acc ++ hexBytes tok) []

def parseArg (tok : String) : Option Arg :=
  match tok.splitOn ":" with
  | [k, v] =>
    let n := v.toNat?.getD 0
    let i := v.toInt?.getD 0
    match k with
    | "u8" => some (.uns .u8 n) | "u16" => some (.uns .u16 n) | "u32" => some (.uns .u32 n)
    | "u64" => some (.uns .u64 n) | "up" => some (.uns .uptr n)
    | "i8" => some (.sgn .i8 i) | "i16" => some (.sgn .i16 i) | "i32" => some (.sgn .i32 i)
    | "i64" => some (.sgn .i64 i) | "i" => some (.sgn .int i)
    | "s" => some (.str (hexBytes v)) | "b" => some (.bytes (hexBytes v))
    | "t" => some (.bool (v = "1")) | "o" => some .other
    | _ => none
  | _ => none

def parseArgs (ts : List String) : Option (List Arg) := ts.mapM parseArg

def initBuf : List UInt8 := List.replicate numFmtBufLen 0

/-- model observation (index-level model of the Fprintf loop, proved equal to the list-traversal
model `fprintf`), same canonical text as the harness prints -/
def modelObs (fmt : List UInt8) (args : List Arg) : String :=
  match fprintfIdx initBuf fmt args with
  | .panic => "panic"
  | .ok ws => s!"ok {ws.length} {encode ws.flatten}"

def argClass : Arg → String
  | .uns _ _ => "uns"
  | .sgn _ v => if v < 0 then "neg" else "sgn"
  | .str _ => "str" | .bytes _ => "bytes" | .bool _ => "bool" | .other => "other"

def verbName : Verb → String
  | .d => "d" | .x => "x" | .o => "o" | .s => "s" | .t => "t"

def widthClass (w : Nat) : String :=
  if w = 0 then "0" else if w < maxBufSize then "1-31" else "32+"

def isPrefix : List UInt8 → List UInt8 → Bool
  | [], _ => true
  | _, [] => false
  | a :: as, b :: bs => a == b && isPrefix as bs

def verbTag (v : Verb) (w : Nat) (a : Arg) : String :=
  s!"verb={verbName v},arg={argClass a},width={widthClass w}"

/-- structural feature of the first piece whose expected rendering is not what the implementation
wrote at that position (`last` = the last verb piece that matched as a prefix: blamed when only
the tail differs) -/
def featureOf (last : String) : List Piece → List Arg → List UInt8 → String
  | [], args, out =>
    if (args.map fun _ => errExtraArg).flatten == out then "none"
    else if last ≠ "" then s!"after:{last}" else if args.isEmpty then "trailing-bytes" else "surplus-args"
  | .lit c :: ps, args, out => if isPrefix [c] out then featureOf last ps args (out.drop 1) else
      if last ≠ "" then s!"after:{last}" else "literal"
  | .pct :: ps, args, out => if isPrefix [37] out then featureOf last ps args (out.drop 1) else
      if last ≠ "" then s!"after:{last}" else "percent"
  | .verb _ _ :: ps, [], out =>
    if isPrefix errMissingArg out then featureOf "" ps [] (out.drop errMissingArg.length) else "missing-arg"
  | .verb v w :: ps, a :: args, out =>
    let e := render v w a
    if isPrefix e out then featureOf (verbTag v w a) ps args (out.drop e.length)
    else verbTag v w a

structure St where
  stats : Stats := {}
  caseId : String := ""

def pieceStats (s : Stats) (ps : List Piece) (args : List Arg) : Stats := Id.run do
  let mut s := s
  let mut args := args
  for p in ps do
    match p with
    | .lit _ => pure ()
    | .pct => s := s.bump "piece_pct"
    | .verb v w =>
      s := s.bump s!"verb_{verbName v}" |>.bump s!"width_{widthClass w}"
      if w > 100 then s := s.bump "width_gt100"
      match args with
      | [] => s := s.bump "arg_missing"
      | a :: rest =>
        s := s.bump s!"arg_{argClass a}"
        if render v w a == errWrongArgType then s := s.bump "arg_wrongtype"
        args := rest
  if !args.isEmpty then s := s.bump "arg_surplus_cases"
  return s

def processLine (st : St) (line : String) : IO St := do
  match line.splitOn " | " with
  | [opS, obsS] =>
    let obsS := obsS.trimAscii.toString
    match toks opS with
    | kind :: fh :: argToks =>
      if kind = "S" then
        -- allocation clause at a call-site-shaped caller: `S <shape> <via> <bytes> | <allocs>`
        let mut st := { st with stats := st.stats.bump "ops" |>.bump "op_S" }
        if obsS ≠ "0" then
          IO.println s!"MISMATCH case={st.caseId} op={opS} model=0 impl={obsS}"
          IO.println s!"PROPFAIL case={st.caseId} clause=no-alloc feature=callsite:{fh} op={opS} impl={obsS}"
          st := { st with stats := st.stats.bump "mismatch" |>.bump "propfail" }
        if argToks.getLast? = some "0" then
          IO.println s!"MISMATCH case={st.caseId} call-site shape wrote nothing: {opS}"
        return st
      let some args := parseArgs argToks
        | IO.println s!"MISMATCH case={st.caseId} unparsable arguments: {opS}"; return st
      let fmt := hexBytes fh
      let mut st := { st with stats := st.stats.bump "ops" |>.bump s!"op_{kind}" }
      if kind = "A" then
        -- allocation clause: measured on the implementation; the model performs no allocation
        if obsS ≠ "0" then
          IO.println s!"MISMATCH case={st.caseId} op={opS} model=0 impl={obsS}"
          IO.println s!"PROPFAIL case={st.caseId} clause=no-alloc feature=allocs op={opS} impl={obsS}"
          st := { st with stats := st.stats.bump "mismatch" |>.bump "propfail" }
        return st
      if kind ≠ "F" then
        IO.println s!"MISMATCH case={st.caseId} unknown op: {opS}"; return st
      -- (1) model vs implementation
      let m := modelObs fmt args
      if m ≠ obsS then
        IO.println s!"MISMATCH case={st.caseId} op={opS} model={m} impl={obsS}"
        st := { st with stats := st.stats.bump "mismatch" }
      -- (2) property oracle on the implementation's observation
      if obsS = "panic" then
        IO.println s!"PROPFAIL case={st.caseId} clause=no-panic feature=panic op={opS} impl={obsS}"
        st := { st with stats := st.stats.bump "propfail" |>.bump "impl_panic" }
      let implOut := match toks obsS with
        | ["ok", _, enc] => some enc
        | _ => none
      match parse .text fmt with
      | none => st := { st with stats := st.stats.bump "format_outside_grammar" }
      | some pieces =>
        st := { st with stats := pieceStats (st.stats.bump "format_supported") pieces args }
        if args.all Arg.inRange then
          let want := encode (specOutput pieces args)
          match implOut with
          | some enc =>
            if enc ≠ want then
              let ft := featureOf "" pieces args (decode enc)
              IO.println s!"PROPFAIL case={st.caseId} clause=exact feature={ft} op={opS} impl={obsS} detail=want:{want}"
              st := { st with stats := st.stats.bump "propfail" }
            else if enc.length > 4000 ∨ (enc.splitOn "*").length > 1 then
              st := { st with stats := st.stats.bump "long_output" }
          | none => pure ()
        else
          IO.println s!"MISMATCH case={st.caseId} argument out of range of its type: {opS}"
      return st
    | _ => IO.println s!"MISMATCH case={st.caseId} unparsable line: {line}"; return st
  | _ =>
    match toks line with
    | ["case", id] => return { st with caseId := id, stats := st.stats.bump "cases" }
    | [] => return st
    | t :: _ =>
      if t = "#" then return st
      IO.println s!"MISMATCH case={st.caseId} unparsable line: {line}"; return st

def run (lines : Array String) : IO Unit := do
  let mut st : St := {}
  for l in lines do st ← processLine st l
  st.stats.print

end Firefly.Replay.C15
