import Firefly.Replay.AmlCommon
/-! Replay of C12 traces: the Lean parser model against the real parser on the same byte strings,
and the property oracle (outcome ∈ {ok, err}; every stored slice inside the table; tree well-formed;
printable) on the implementation's observations. -/
namespace Firefly.Replay.C12
open Firefly.Util Firefly.AmlTree Firefly.AmlLex Firefly.AmlParser Firefly.Replay.Aml

structure St where
  stats : Stats := {}
  caseId : String := ""
  bases : Array (Array UInt8) := #[]
  /-- the model's tree of the current case (`none` after a model panic/outOfFuel) -/
  tree : Option ObjectTree := none
  /-- lengths of the tables parsed into the current case's tree so far -/
  tlens : Array Nat := #[]
  /-- size of the implementation's pool before the table being observed (default scopes at the start of a case) -/
  implPool : Nat := 0
  rowLimit : Nat := 160

def sizeBucket (n : Nat) : String :=
  if n = 0 then "0" else if n ≤ 8 then "1-8" else if n ≤ 64 then "9-64" else if n ≤ 512 then "65-512" else ">512"

/-- model observation for one `P` line; returns the text and the new tree -/
def modelObs (st : St) (handle : Nat) (payload : Array UInt8) : String × Option ObjectTree :=
  match st.tree with
  | none => ("model-dead", none)
  | some t =>
    let d := mkTable payload
    let tlens := st.tlens.push d.size
    let ps : PState := { tree := t }
    match parseAML d (fuelFor d t) handle ps with
    | .ok (ok, s) => (observation s.tree (if ok then "ok" else "err") handle tlens st.rowLimit, some s.tree)
    | .error .panic => ("panic", none)
    | .error .outOfFuel => ("outOfFuel", none)

/-- the clause a non-{ok, err} outcome of the implementation violates — decided on the implementation's
observation alone (a recovered Go panic is `never-panics` whatever the model does) -/
def crashClause (kind : String) : String × String :=
  if kind = "panic" ∨ kind = "fatal" ∨ kind = "flaky-fatal" then ("never-panics", kind)
  else if kind = "overflow" ∨ kind = "flaky-overflow" then ("never-overflows-stack", kind)
  else if kind = "timeout" ∨ kind = "flaky-timeout" then ("terminates", kind)
  else if kind = "memory" ∨ kind = "flaky-memory" then ("work-bounded", kind)
  else ("outcome", kind)

/-- objects one table of `len` payload bytes may allocate over the WHOLE parse (all passes).  `first_pass_total`
proves the budget 16 per byte for the first pass; measured on the unchanged tree the whole parse never allocates
more than 2 per byte (statistic `objs_per_byte_le_*`), so the oracle enforces 4 per byte plus a constant. -/
def workBound (len : Nat) : Nat := 4 * len + 16

def oracle (st : St) (curLen : Nat) (obs : List String) : List (String × String) :=
  match obs with
  | outcome :: pr :: pool :: free :: orph :: bad :: wf :: _hash :: rows =>
    let fails : List (String × String) :=
      (if outcome ≠ "ok" ∧ outcome ≠ "err" then [crashClause outcome] else []) ++
      -- work proportional to the input: the objects this table allocated (implementation's pool growth)
      (let grown := nat! pool - st.implPool
       if outcome = "ok" ∨ outcome = "err" then
         if grown > workBound (curLen - Gen.C12.headerLen) then [("work-bounded", s!"objects-{grown}-for-{curLen - Gen.C12.headerLen}-bytes")] else []
       else []) ++
      (if bad ≠ "0" then [("slices-in-table", "stored-slice-outside-table")] else []) ++
      (if wf ≠ "ok" then [("tree-wf", wf)] else []) ++
      (if pr ≠ "ok" ∧ pr ≠ "skip" then [("print", pr)] else [])
    -- re-derive the Go-side flags from the dumped rows when they are present
    if rows.length = nat! pool ∧ rows.length > 0 then
      let parsed := (rows.toArray.mapIdx fun j r => parseRow j curLen st.tlens r)
      let t : ObjectTree := { pool := parsed.map (·.1), freeListHeadIndex := parseIdx free }
      let nbad := (parsed.filter fun (o, ok) => o.opcode ≠ Gen.C12.opIntFreedObject ∧ !ok).size
      let wf' := wfCheck t
      fails ++
      (if toString nbad ≠ bad then [("slices-in-table", s!"oracle-twin-disagrees-{nbad}")] else []) ++
      (if wf' ≠ wf then [("tree-wf", s!"oracle-twin-disagrees-{wf'}")] else []) ++
      (if toString (orphans t) ≠ orph then [("tree-wf", "oracle-twin-disagrees-orphans")] else [])
    else fails
  | [kind] => [crashClause kind]
  | _ => [("outcome", "bad-line")]

def processLine (st : St) (line : String) : IO St := do
  match line.splitOn " | " with
  | [opS, obsS] =>
    match toks opS with
    | ["P", handle, base, edits] =>
      let handle := nat! handle
      let payload := applyEdits (st.bases.getD (nat! base) #[]) edits
      let curLen := Gen.C12.headerLen + payload.size
      let obs := toks obsS
      let mut st := { st with stats := st.stats.bump "ops" |>.bump s!"len_{sizeBucket payload.size}" }
      let (m, t') := modelObs st handle payload
      let implOutcome := obs.headD "?"
      st := { st with stats := st.stats.bump s!"outcome_{implOutcome}" }
      -- after a panic the Go tree is whatever the panic left behind; only the outcome is compared
      let same := if m = "panic" ∨ m = "outOfFuel" ∨ m = "model-dead" then m = implOutcome
                  else m = obsS.trimAscii.toString
      if !same then
        IO.println s!"MISMATCH case={st.caseId} op={opS} model={(m.take 300).toString} impl={(obsS.take 300).toString}"
        st := { st with stats := st.stats.bump "mismatch" }
      -- the shape hypotheses of the tree-pass theorems, evaluated on the model's run of this table
      match st.tree with
      | some t =>
        let d := mkTable payload
        for hyp in shapeAudit d (fuelFor d t) handle { tree := t } do
          if hyp = "#block" then
            st := { st with stats := st.stats.bump "deferred_blocks_audited" }
          else if hyp = "#pool-hyp-holds" then
            st := { st with stats := st.stats.bump "prefix_pool_hyp_holds" }
          else if hyp = "#pool-hyp-fails" then
            st := { st with stats := st.stats.bump "prefix_pool_hyp_fails" }
          else if hyp = "#methods-hyp-holds" then
            st := { st with stats := st.stats.bump "prefix_methods_hyp_holds" }
          else if hyp = "#methods-hyp-fails" then
            st := { st with stats := st.stats.bump "prefix_methods_hyp_fails" }
          else if hyp = "#whole-parse-covered" then
            st := { st with stats := st.stats.bump "whole_parse_theorem_applies" }
          else if hyp = "#whole-parse-open" then
            st := { st with stats := st.stats.bump "whole_parse_theorem_open" }
          else
            IO.println s!"PROPFAIL case={st.caseId} clause=shape-hypothesis feature={hyp} op={(opS.take 400).toString}"
            st := { st with stats := st.stats.bump "propfail" }
      | none => pure ()
      for (cl, feat) in oracle st curLen obs do
        IO.println s!"PROPFAIL case={st.caseId} clause={cl} feature={feat} op={(opS.take 400).toString} impl={(obsS.take 200).toString}"
        st := { st with stats := st.stats.bump "propfail" }
      match obs with
      | _ :: _ :: pool :: _ :: orph :: _ =>
        let grown := nat! pool - st.implPool
        let len := payload.size
        let ratio := if grown ≤ len then 1 else if grown ≤ 2 * len then 2 else if grown ≤ 4 * len then 4 else if grown ≤ 8 * len then 8 else 16
        let stats := st.stats.bump s!"pool_{sizeBucket (nat! pool)}" |>.bump "orphans" (nat! orph) |>.bump s!"objs_per_byte_le_{ratio}"
        st := { st with stats := stats, implPool := nat! pool }
      | _ => pure ()
      return { st with tree := t', tlens := st.tlens.push curLen }
    | _ => IO.println s!"MISMATCH case={st.caseId} unparsable op: {opS.take 100}"; return st
  | _ =>
    match toks line with
    | ["case", id] =>
      let t := match defaultTree 0 with | .ok t => some t | .error _ => none
      return { st with caseId := id, tree := t, tlens := #[], implPool := (t.map (·.pool.size)).getD 0, stats := st.stats.bump "cases" }
    | ["base", k, hex] =>
      let k := nat! k
      let bs := if k = st.bases.size then st.bases.push (hexArr hex) else st.bases
      return { st with bases := bs }
    | [] => return st
    | _ => IO.println s!"MISMATCH case={st.caseId} unparsable line: {line.take 100}"; return st

def run (lines : Array String) : IO Unit := do
  let lim := ((← IO.getEnv "VERIF_AML_ROWS").bind String.toNat?).getD 160
  let mut st : St := { rowLimit := lim }
  for l in lines do st ← processLine st l
  st.stats.print

end Firefly.Replay.C12
