import Firefly.Util
import Firefly.Replay.Pmm
/-!
Replay of C09 traces.

* `map` / `binit` / `init` / `a` / `f x` / `s` lines are the sequential operations of a round; they go
  through the pmm model and its oracles (`Firefly.Replay.Pmm.step`), so the Lean side always knows the
  allocator state the stress phase starts from and must end in.
* `lk | b` — after every sequential call: was the allocator's lock left held (`1`)?
* `round W ops yield procs p n1 n2 … o r1 r2 … | dup lost stuck totalsOk t total reserved free0 held drained
  c allocOk oom freeOk unmanagedOk foreign allocBad freeBad unmanagedBad panics cleanupBad` — one
  multi-core stress phase (`n_i`: frames of the i-th pool in memory-map order, `r_i`: its rank by address).  The oracle recomputes the verdicts from the raw counters and from the
  *model's* state at the start of the phase.
-/
namespace Firefly.Replay.C09
open Firefly.Util Firefly.Pmm

structure St where
  p : Firefly.Replay.Pmm.St := { prop := "all" }

def failLine (st : St) (clause opS obsS : String) : String :=
  s!"PROPFAIL case={st.p.caseId} clause={clause} op={opS} impl={obsS}"

/-- returns the new state, PROPFAIL lines, and the model's observation ("" = nothing to compare) -/
def step (st : St) (opS obsS : String) : St × List String × String := Id.run do
  let op := toks opS
  let obs := toks obsS
  match op with
  | ["lk"] =>
    let p := { st.p with stats := (st.p.stats.bump "ops").bump "op_lk" }
    let fails := if obs = ["0"] then [] else [failLine st "lock-released-on-return" opS obsS]
    return ({ st with p := p }, fails, "0")
  | "round" :: w :: _ :: yld :: _ =>
    let mut stats := ((st.p.stats.bump "ops").bump "op_round").bump s!"round_workers_{w}"
    stats := stats.bump s!"round_yield_{yld}"
    let bm := st.p.bm
    let free0M := bm.total - bm.reserved
    match obs with
    | [dup, lost, stuck, tok, "t", total, reserved, free0, held, drained, "c",
       allocOk, oom, freeOk, unmOk, foreign, allocBad, freeBad, unmBad, panics, cleanupBad] =>
      let n := fun (s : String) => nat! s
      let mut fails : List String := []
      stats := stats.bump "stress_alloc_ok" (n allocOk)
      stats := stats.bump "stress_oom" (n oom)
      stats := stats.bump "stress_free_ok" (n freeOk)
      stats := stats.bump "stress_unmanaged_free" (n unmOk)
      if n oom > 0 then stats := stats.bump "rounds_with_oom"
      if n held > 0 then stats := stats.bump "rounds_ending_with_held_frames"
      if stuck ≠ "0" then
        fails := fails ++ [failLine st "no-call-blocks-forever" opS obsS]
        return ({ st with p := { st.p with stats := stats.bump "propfail" } }, fails, "")
      if dup ≠ "0" ∨ foreign ≠ "0" then fails := fails ++ [failLine st "no-frame-held-twice" opS obsS]
      -- every frame that is not held is allocatable again: the drain hands out exactly free0 - held frames
      if lost ≠ "0" ∨ n drained + n held ≠ n free0 then
        fails := fails ++ [failLine st "freed-frame-allocatable-again" opS obsS]
      if tok ≠ "1" ∨ n total - n reserved + n held ≠ n free0 ∨ n reserved > n total then
        fails := fails ++ [failLine st "totals-after-quiescence" opS obsS]
      if allocBad ≠ "0" ∨ freeBad ≠ "0" ∨ unmBad ≠ "0" ∨ panics ≠ "0" ∨ cleanupBad ≠ "0" then
        fails := fails ++ [failLine st "call-results" opS obsS]
      -- model: the phase starts from the model's state, so total and the free count are predicted
      let model := s!"0 0 0 1 t {bm.total} {bm.reserved + n held} {free0M} {held} {free0M - n held} c " ++
        s!"{allocOk} {oom} {freeOk} {unmOk} 0 0 0 0 0 0"
      if ¬ fails.isEmpty then stats := stats.bump "propfail" fails.length
      return ({ st with p := { st.p with stats := stats } }, fails, model)
    | _ =>
      return ({ st with p := { st.p with stats := stats } }, [failLine st "bad-line" opS obsS], "bad-line")
  | _ =>
    if obs = ["stuck"] then
      -- a sequential call that never returned (watchdog)
      let p := { st.p with stats := ((st.p.stats.bump "ops").bump "propfail") }
      return ({ st with p := p }, [failLine st "no-call-blocks-forever" opS obsS], "")
    let (p, model) := Firefly.Replay.Pmm.step { st.p with fails := [] } opS obsS
    return ({ st with p := { p with fails := [] } }, p.fails, model)

def processLine (st : St) (line : String) : IO St := do
  let line := if line.endsWith " |" then line ++ " " else line
  match line.splitOn " | " with
  | [opS, obsS] =>
    let (st', fails, model) := step st opS obsS
    let mut st := st'
    for f in fails do IO.println f
    let obsN := " ".intercalate (toks obsS)
    if model ≠ "" ∧ " ".intercalate (toks model) ≠ obsN then
      IO.println s!"MISMATCH case={st.p.caseId} op={opS} model={model} impl={obsS}"
      st := { st with p := { st.p with stats := st.p.stats.bump "mismatch" } }
    return st
  | _ =>
    match toks line with
    | ["case", id] => return { st with p := { st.p with caseId := id, stats := st.p.stats.bump "cases" } }
    | [] => return st
    | "map" :: _ => let (st', _, _) := step st line ""; return st'
    | _ => IO.println s!"MISMATCH case={st.p.caseId} unparsable line: {line}"; return st

def run (lines : Array String) : IO Unit := do
  let mut st : St := {}
  for l in lines do st ← processLine st l
  st.p.stats.print

end Firefly.Replay.C09
