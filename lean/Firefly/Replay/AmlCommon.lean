import Firefly.Util
import Firefly.Model.AmlParser
import Firefly.Model.AmlNs
import Firefly.Model.AmlShapes
/-!
Shared by the C11 and C12 replay drivers (core Lean only): table construction, edit scripts,
the canonical tree dump (textually identical to `amlRow`/`amlObservation` of the Go harness),
the executable well-formedness oracle `wfCheck` (twin of Go `amlWF`, cross-checked on every dumped
tree), the slice oracle and the model of `PrettyPrint`'s panic sites.
-/
namespace Firefly.Replay.Aml
open Firefly.Util Firefly.AmlTree Firefly.AmlLex Firefly.AmlParser
open Firefly.Gen.C12 (headerLen invalidIndex opIntFreedObject opMethod opIntMethodCall opIntResolvedNamePath
  opIntNamedField opStringPrefix opIntNamePath opDwordPrefix)

/-- header + payload exactly as `amlStream` (parser_fuzz.go) -/
def mkTable (payload : Array UInt8) : Array UInt8 := Firefly.AmlNs.mkTable payload

def hexArr (s : String) : Array UInt8 := (hexBytes s).toArray

/-- one edit of the harness' edit scripts (`amlApplyEdits`) -/
def applyEdit (b : Array UInt8) (e : String) : Array UInt8 :=
  let k := e.front
  let rest := (e.drop 1).toString
  if k = 't' then b.extract 0 (min (nat! rest) b.size)
  else match rest.splitOn ":" with
    | [o, a] =>
      let off := min (nat! o) b.size
      if k = 'x' then
        if off < b.size then b.set! off (b[off]! ^^^ (hexBytes a).headD 0) else b
      else if k = 's' then
        if off < b.size then b.set! off ((hexBytes a).headD 0) else b
      else if k = 'i' then b.extract 0 off ++ hexArr a ++ b.extract off b.size
      else if k = 'd' then
        let n := min (nat! a) (b.size - off)
        b.extract 0 off ++ b.extract (off + n) b.size
      else b
    | _ => b

def applyEdits (b : Array UInt8) (es : String) : Array UInt8 :=
  if es = "-" then b else (es.splitOn ",").foldl applyEdit b

/-! ## canonical dump -/

def idxStr (i : Nat) : String := if i = invalidIndex then "-" else toString i

def hex2 (b : UInt8) : String := String.ofList [hexNib (b.toNat / 16), hexNib (b.toNat % 16)]

/-- `curHandle`: handle of the table just parsed (values of objects of earlier tables print as `B`) -/
def valStr (curHandle : Nat) (o : Obj) : String :=
  match o.value with
  | .none => "n"
  | .u64 v => s!"u{v}"
  | .idx i => s!"i{idxStr i}"
  | .bytes off len =>
    if off = 0 ∧ len = 0 then "z0"
    else if o.tableHandle ≠ curHandle ∧ o.tableHandle ≥ 1 then s!"B{o.tableHandle - 1}:{off}:{len}"
    else s!"b{off}:{len}"
  | .field a b c d e f g h i => s!"f{a}:{b}:{c}:{d}:{e}:{f}:{g}:{idxStr h}:{idxStr i}"

def rowStr (curHandle : Nat) (o : Obj) : String :=
  s!"{o.opcode},{o.infoIndex},{o.tableHandle},{hex2 o.name.b0}{hex2 o.name.b1}{hex2 o.name.b2}{hex2 o.name.b3}," ++
  s!"{idxStr o.parentIndex},{idxStr o.prevSiblingIndex},{idxStr o.nextSiblingIndex},{idxStr o.firstArgIndex}," ++
  s!"{idxStr o.lastArgIndex},{o.amlOffset},{o.pkgEnd},{valStr curHandle o}"

def fnv (h : UInt64) (s : String) : UInt64 :=
  s.toUTF8.foldl (fun h b => (h ^^^ b.toUInt64) * 0x100000001b3) h

def hex16 (h : UInt64) : String :=
  String.ofList ((List.range 16).map fun i => hexNib ((h.toNat >>> (4 * (15 - i))) % 16))

/-! ## oracles on a dumped tree -/

def live (t : ObjectTree) (i : Nat) : Bool :=
  match t.pool[i]? with
  | some o => o.opcode ≠ opIntFreedObject
  | none => false

/-- twin of Go `amlWF`: first failing clause or "ok" -/
def wfCheck (t : ObjectTree) : String := Id.run do
  let pool := t.pool
  let n := pool.size
  if n = 0 then return "ok"
  if !live t 0 ∨ pool[0]!.parentIndex ≠ invalidIndex then return "root"
  -- free list
  let mut freed : Array Bool := Array.replicate n false
  let mut i := t.freeListHeadIndex
  let mut steps := 0
  while i ≠ invalidIndex do
    if i ≥ n then return "freelist"
    if pool[i]!.opcode ≠ opIntFreedObject ∨ freed[i]! then return "freelist"
    freed := freed.set! i true
    i := pool[i]!.nextSiblingIndex
    steps := steps + 1
    if steps > n + 1 then return "freelist"
  for j in [0:n] do
    if pool[j]!.opcode = opIntFreedObject ∧ !freed[j]! then return "freelist"
    if pool[j]!.index ≠ j then return "index"
  -- child lists
  let mut childCount : Array Nat := Array.replicate n 0
  for j in [0:n] do
    let o := pool[j]!
    if live t j then
      if (o.firstArgIndex = invalidIndex) ≠ (o.lastArgIndex = invalidIndex) then return "list"
      let mut prev := invalidIndex
      let mut cnt := 0
      let mut c := o.firstArgIndex
      while c ≠ invalidIndex do
        if !live t c then return "dangling"
        if cnt > n then return "cycle"
        cnt := cnt + 1
        if pool[c]!.parentIndex ≠ j ∨ pool[c]!.prevSiblingIndex ≠ prev then return "list"
        prev := c
        c := pool[c]!.nextSiblingIndex
      if prev ≠ o.lastArgIndex then return "list"
      childCount := childCount.set! j cnt
  let mut hasParent : Array Nat := Array.replicate n 0
  for j in [0:n] do
    if live t j then
      let o := pool[j]!
      if o.parentIndex = invalidIndex then
        if o.prevSiblingIndex ≠ invalidIndex ∨ o.nextSiblingIndex ≠ invalidIndex then return "orphan-links"
      else
        if !live t o.parentIndex then return "dangling"
        hasParent := hasParent.set! o.parentIndex (hasParent[o.parentIndex]! + 1)
  for j in [0:n] do
    if live t j ∧ hasParent[j]! ≠ childCount[j]! then return "parent"
  for j in [0:n] do
    if live t j then
      let mut a := pool[j]!.parentIndex
      let mut cnt := 0
      while a ≠ invalidIndex do
        if cnt > n then return "cycle"
        cnt := cnt + 1
        a := pool[a]!.parentIndex
  for j in [0:n] do
    if live t j then
      match pool[j]!.value with
      | .idx x => if !live t x then return "ref"
      | _ => pure ()
  return "ok"

def orphans (t : ObjectTree) : Nat := Id.run do
  let mut c := 0
  for j in [1:t.pool.size] do
    if live t j ∧ t.pool[j]!.parentIndex = invalidIndex then c := c + 1
  return c

/-- number of `[]byte` values of live objects that do not lie inside their table;
`tlens[h-1]` = length of the table with handle `h` -/
def sliceBad (t : ObjectTree) (tlens : Array Nat) : Nat := Id.run do
  let mut bad := 0
  for o in t.pool do
    if o.opcode ≠ opIntFreedObject then
      match o.value with
      | .bytes off len =>
        if !(off = 0 ∧ len = 0) then
          let tl := tlens.getD (o.tableHandle - 1) 0
          if o.tableHandle = 0 ∨ off + len > tl then bad := bad + 1
      | _ => pure ()
  return bad

/-! ## `PrettyPrint`: the panic sites of `toString` -/

mutual
def printWalk (t : ObjectTree) : Nat → Nat → Res Unit
  | 0, _ => .error .outOfFuel
  | f+1, index => do
    let cur ← ObjectTree.deref (t.ObjectAt index)
    let o ← t.obj cur
    if o.opcode = opMethod then
      let _ ← t.ArgAt (some cur) 1
    if o.opcode = opIntMethodCall then
      match o.value with
      | .idx i =>
        let m := t.ObjectAt i
        let fl ← ObjectTree.deref (← t.ArgAt m 1)
        match (← t.obj fl).value with
        | .u64 _ => pure ()
        | _ => throw .panic
      | _ => throw .panic
    else if o.opcode = opIntResolvedNamePath then
      match o.value with
      | .idx i => let _ ← ObjectTree.deref (t.ObjectAt i)
      | _ => throw .panic
    else if o.opcode = opIntNamedField then
      match o.value with
      | .field .. => pure ()
      | _ => throw .panic
    else if o.opcode = opStringPrefix ∨ o.opcode = opIntNamePath then
      match o.value with
      | .bytes .. => pure ()
      | _ => throw .panic
    else
      match o.value with
      | .u64 _ =>
        if o.opcode = opDwordPrefix then
          let _ ← ObjectTree.deref (t.ObjectAt o.parentIndex)
      | _ => pure ()
    printKids t f o.firstArgIndex

def printKids (t : ObjectTree) : Nat → Nat → Res Unit
  | 0, _ => .error .outOfFuel
  | f+1, argIndex => do
    if argIndex = invalidIndex then return
    printWalk t f argIndex
    let a ← ObjectTree.deref (t.ObjectAt argIndex)
    printKids t f (← t.obj a).nextSiblingIndex
end

/-- fuel of the print walk: one frame per level and per sibling, at most `size + 1` levels of at most `size`
siblings (`print_total` proves it is enough on every well-formed pool) -/
def printFuel (t : ObjectTree) : Nat := (t.pool.size + 2) * (t.pool.size + 2)

/-- `PrettyPrint(w)`: "ok" | "panic" (| "overflow" if the walk does not end: only on a non-WF tree) -/
def printOutcome (t : ObjectTree) : String :=
  if t.pool.size = 0 then "ok" else
  match printWalk t (printFuel t) 0 with
  | .ok _ => "ok"
  | .error .panic => "panic"
  | .error .outOfFuel => "overflow"

/-- the observation line for a tree (same text as Go `amlObservation`) -/
def observation (t : ObjectTree) (outcome : String) (curHandle : Nat) (tlens : Array Nat) (rowLimit : Nat) : String :=
  let bad := sliceBad t tlens
  let wf := wfCheck t
  let pr := if bad = 0 ∧ wf = "ok" then printOutcome t else "skip"
  let rows := t.pool.map (rowStr curHandle)
  let h := rows.foldl (fun h r => fnv (fnv h r) " ") 0xcbf29ce484222325
  let head := s!"{outcome} {pr} {t.pool.size} {idxStr t.freeListHeadIndex} {orphans t} {bad} {wf} {hex16 h}"
  if rows.size ≤ rowLimit then rows.foldl (fun s r => s ++ " " ++ r) head else head

/-! ## reading a dumped tree back (oracle input) -/

def parseIdx (s : String) : Nat := if s = "-" then invalidIndex else nat! s

def parseVal (s : String) : Val × Option (Nat × Int × Nat) :=
  -- second component: for byte slices, (table index or 2^32 for "current", offset (may be negative), len)
  let k := s.front
  let rest := (s.drop 1).toString
  if k = 'n' then (.none, none)
  else if k = 'u' then (.u64 (nat! rest), none)
  else if k = 'i' then (.idx (parseIdx rest), none)
  else if k = 'z' then (.bytes 0 0, some (4294967296, 0, nat! rest))
  else if k = 'b' then
    match rest.splitOn ":" with
    | [o, l] => (.bytes (nat! o) (nat! l), some (4294967296, o.toInt?.getD (-1), nat! l))
    | _ => (.none, none)
  else if k = 'B' then
    match rest.splitOn ":" with
    | [t, o, l] => (.bytes (nat! o) (nat! l), some (nat! t, o.toInt?.getD (-1), nat! l))
    | _ => (.none, none)
  else if k = 'f' then
    match rest.splitOn ":" with
    | [a, b, c, d, e, f, g, h, i] =>
      (.field (nat! a) (nat! b) (nat! c) (nat! d) (nat! e) (nat! f) (nat! g) (parseIdx h) (parseIdx i), none)
    | _ => (.none, none)
  else (.none, none)

/-- one dumped row → object, and whether its byte slice (if any) is inside its table -/
def parseRow (j : Nat) (curLen : Nat) (tlens : Array Nat) (s : String) : Obj × Bool :=
  match s.splitOn "," with
  | [op, info, tab, name, par, prev, next, first, last, off, pe, v] =>
    let (val, sl) := parseVal v
    let okSlice := match sl with
      | none => true
      | some (tb, o, l) =>
        if v.front = 'z' then l = 0
        else
          let tl := if tb = 4294967296 then curLen else tlens.getD tb 0
          o ≥ 0 ∧ o.toNat + l ≤ tl
    ({ opcode := nat! op, infoIndex := nat! info, tableHandle := nat! tab, name := Name.ofList (hexBytes name),
       index := j, parentIndex := parseIdx par, prevSiblingIndex := parseIdx prev, nextSiblingIndex := parseIdx next,
       firstArgIndex := parseIdx first, lastArgIndex := parseIdx last, amlOffset := nat! off, pkgEnd := nat! pe,
       value := val }, okSlice)
  | _ => ({}, false)

end Firefly.Replay.Aml
