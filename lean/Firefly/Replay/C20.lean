import Firefly.Util
import Firefly.Model.Redirects
/-! Replay of C20 traces.  `#tree` lines carry the abstract source tree the harness wrote to
disk; every `run` line is one execution of the real `FindRedirects` on it.  Per run: model vs
implementation (ordered list), and the property oracle on the implementation's list:
`exactly-once` (multiset = the tree's annotations) and `same-order-each-run` (equal to the
first run on the same tree). -/
namespace Firefly.Replay.C20
open Firefly.Util Firefly.Redirects

def strOfHex (s : String) : String :=
  match String.fromUTF8? (ByteArray.mk (hexBytes s).toArray) with
  | some r => r
  | none => "�" ++ s

def hexOfStr (s : String) : String := bytesHex s.toUTF8.toList

/-! ### tree parser (see the grammar in harness/kbuild/c20_test.go) -/

abbrev P := StateT (List String) (Except String)

def tok : P String := do
  match (← get) with
  | t :: ts => set ts; return t
  | [] => throw "unexpected end of tree line"

def natTok : P Nat := do
  let t ← tok
  match t.toNat? with
  | some n => return n
  | none => throw s!"expected a number, got {t}"

def strTok : P String := do return strOfHex (← tok)

def rep {α : Type} (n : Nat) (p : P α) : P (List α) := do
  let mut out : Array α := #[]
  for _ in [0:n] do out := out.push (← p)
  return out.toList

def pDecl : P Decl := do
  match (← tok) with
  | "f" => let n ← strTok; let k ← natTok; return .func n (← rep k strTok)
  | "o" => let k ← natTok; return .other (← rep k strTok)
  | t => throw s!"expected f|o, got {t}"

mutual
partial def pEntries : P (List Entry) := do
  let n ← natTok
  rep n pEntry
partial def pEntry : P Entry := do
  match (← tok) with
  | "D" => let n ← strTok; return .dir n (← pEntries)
  | "F" =>
    let n ← strTok
    let nd ← natTok
    let ds ← rep nd pDecl
    let nc ← natTok
    return .file { name := n, decls := ds, comments := (← rep nc strTok) }
  | t => throw s!"expected D|F, got {t}"
end

def parseTree (ts : List String) : Except String Tree :=
  match pEntries.run ts with
  | .ok (t, []) => .ok t
  | .ok (_, r) => .error s!"{r.length} trailing tokens"
  | .error e => .error e

/-! ### canonical text of a result -/

def showResult (rs : List Redirect) : String :=
  " ".intercalate (toString rs.length :: rs.flatMap fun (s, d) => [hexOfStr s, hexOfStr d])

def pairs : List String → List (String × String)
  | a :: b :: rest => (a, b) :: pairs rest
  | _ => []

/-- multiset difference -/
def msub (xs ys : List (String × String)) : List (String × String) :=
  ys.foldl (fun acc y => acc.erase y) xs

/-! ### distribution counters, per tree -/

structure TreeStats where
  dirs : Nat := 0
  files : Nat := 0
  sourceFiles : Nat := 0
  testFiles : Nat := 0
  funcDecls : Nat := 0
  otherDecls : Nat := 0
  directiveTexts : Nat := 0     -- comments anywhere that carry the directive prefix
  multiFuncs : Nat := 0         -- functions with ≥ 2 directives
  multiFiles : Nat := 0         -- source files with ≥ 2 annotated functions (order-sensitive)
  maxDepth : Nat := 0

def countDirectives (ts : List String) : Nat := (ts.filter isDirective).length

def fileStats (s : TreeStats) (f : File) : TreeStats :=
  let src := isSourceFile f.name
  let annotated := f.decls.filter fun d => match d with
    | .func _ doc => countDirectives doc > 0
    | .other _ => false
  let multi := f.decls.filter fun d => match d with
    | .func _ doc => countDirectives doc ≥ 2
    | .other _ => false
  let allTexts := f.comments ++ f.decls.flatMap fun d => match d with
    | .func _ doc => doc
    | .other doc => doc
  { s with
    files := s.files + 1
    sourceFiles := s.sourceFiles + (if src then 1 else 0)
    testFiles := s.testFiles + (if hasSuffix f.name "_test.go" then 1 else 0)
    funcDecls := s.funcDecls + (f.decls.filter fun d => match d with | .func .. => true | _ => false).length
    otherDecls := s.otherDecls + (f.decls.filter fun d => match d with | .other .. => true | _ => false).length
    directiveTexts := s.directiveTexts + countDirectives allTexts
    multiFuncs := s.multiFuncs + (if src then multi.length else 0)
    multiFiles := s.multiFiles + (if src ∧ annotated.length ≥ 2 then 1 else 0) }

partial def treeStats (depth : Nat) (s : TreeStats) : List Entry → TreeStats
  | [] => s
  | .file f :: es => treeStats depth (fileStats s f) es
  | .dir _ kids :: es =>
    let s := treeStats (depth + 1) { s with dirs := s.dirs + 1, maxDepth := max s.maxDepth (depth + 1) } kids
    treeStats depth s es

/-! ### replay -/

structure St where
  stats : Stats := {}
  caseId : String := ""
  digest : String := ""
  tree : Option Tree := none
  model : String := ""
  expected : List (String × String) := []
  firstRun : Option String := none
  /-- import path of the kernel module as its go.mod declares it (`#module` line) -/
  modulePath : String := "github.com/ProjectSerenity/firefly/kernel"

def bumpTree (st : Stats) (t : Tree) (nAnn : Nat) : Stats :=
  let s := treeStats 0 {} t
  st |>.bump "trees" |>.bump "dirs" s.dirs |>.bump "files" s.files |>.bump "source_files" s.sourceFiles
     |>.bump "test_files" s.testFiles |>.bump "func_decls" s.funcDecls |>.bump "other_decls" s.otherDecls
     |>.bump "annotations" nAnn |>.bump "lookalike_directive_texts" (s.directiveTexts - nAnn)
     |>.bump "funcs_with_2plus_directives" s.multiFuncs |>.bump "files_with_2plus_annotated_funcs" s.multiFiles
     |>.bump s!"trees_depth_{s.maxDepth}" |>.bump (if nAnn = 0 then "trees_without_annotation" else "trees_with_annotation")

def processLine (st : St) (line : String) : IO St := do
  match toks line with
  | [] => return st
  | ["case", id] => return { st with caseId := id, tree := none, firstRun := none, stats := st.stats.bump "cases" }
  | ["#module", m] => return { st with modulePath := strOfHex m }
  | "#tree" :: digest :: rest =>
    match parseTree rest with
    | .error e =>
      IO.println s!"MISMATCH case={st.caseId} op=#tree {digest} model=unparsable-tree({e}) impl=-"
      return { st with tree := none, digest := digest }
    | .ok t =>
      let ann := annotations t
      return { st with tree := some t, digest := digest, firstRun := none,
                       model := showResult (findRedirects t),
                       -- "fully qualified" is judged against the module path of kernel/go.mod, not
                       -- against the constant the code (and hence the model) uses
                       expected := ann.map fun (s, d) =>
                         (hexOfStr s, hexOfStr (st.modulePath ++ (d.drop Gen.C20.pkgPrefix.length).toString)),
                       stats := bumpTree st.stats t ann.length }
  | ["run", digest, "|", "panic"] =>
    IO.println s!"PROPFAIL case={st.caseId} clause=no-crash feature=panic op=run {digest} impl=panic"
    return { st with stats := st.stats.bump "ops" |>.bump "propfail" }
  | "run" :: digest :: "|" :: n :: obs =>
    let opS := s!"run {digest}"
    let implS := " ".intercalate (n :: obs)
    let mut st := { st with stats := st.stats.bump "ops" }
    if st.tree.isNone ∨ digest ≠ st.digest then
      IO.println s!"MISMATCH case={st.caseId} op={opS} model=no-tree impl={implS.take 200}"
      return { st with stats := st.stats.bump "mismatch" }
    let impl := pairs obs
    if nat! n ≠ impl.length ∨ obs.length ≠ 2 * impl.length then
      IO.println s!"MISMATCH case={st.caseId} op={opS} model=malformed-observation impl={implS.take 200}"
      return { st with stats := st.stats.bump "mismatch" }
    st := { st with stats := st.stats.bump (if impl.isEmpty then "runs_empty_table" else "runs_nonempty_table") }
    -- (1) model vs implementation: the ordered list
    if st.model ≠ implS then
      IO.println s!"MISMATCH case={st.caseId} op={opS} model={st.model} impl={implS}"
      st := { st with stats := st.stats.bump "mismatch" }
    -- (2) the property, on what the implementation returned
    let missing := msub st.expected impl
    let extra := msub impl st.expected
    if ¬ missing.isEmpty ∨ ¬ extra.isEmpty then
      let feature := if extra.isEmpty then "annotation-missing" else if missing.isEmpty then "entry-without-annotation" else "wrong-entry"
      let w := (missing ++ extra).headD ("-", "-")
      IO.println s!"PROPFAIL case={st.caseId} clause=exactly-once feature={feature} op={opS} impl={implS} detail=missing:{missing.length},extra:{extra.length},first:{strOfHex w.1}->{strOfHex w.2}"
      st := { st with stats := st.stats.bump "propfail" }
    match st.firstRun with
    | none => st := { st with firstRun := some implS }
    | some first =>
      if first ≠ implS then
        let feature := if (msub (pairs ((toks first).drop 1)) impl).isEmpty ∧ (msub impl (pairs ((toks first).drop 1))).isEmpty
          then "same-entries-different-order" else "different-entries"
        IO.println s!"PROPFAIL case={st.caseId} clause=same-order-each-run feature={feature} op={opS} impl={implS} detail=first-run:{first}"
        st := { st with stats := st.stats.bump "propfail" |>.bump "runs_differing_from_first" }
    return st
  | _ =>
    IO.println s!"MISMATCH case={st.caseId} unparsable line: {line.take 200}"
    return { st with stats := st.stats.bump "mismatch" }

def run (lines : Array String) : IO Unit := do
  let mut st : St := {}
  for l in lines do st ← processLine st l
  st.stats.print

end Firefly.Replay.C20
