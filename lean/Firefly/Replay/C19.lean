import Firefly.Util
import Firefly.Gen.C19
import Firefly.Spec.Console
/-! Replay of C19 traces: executable console models vs the implementation's framebuffer after
every operation, and the property oracle (pointwise specs of `Spec/Console.lean`) evaluated on
the implementation's framebuffer. Core Lean only. -/
namespace Firefly.Replay.C19
open Firefly.Util Firefly.Spec.Console

/-- the harness's position-dependent fill pattern (`c19pat`) -/
def pat (salt i : Nat) : Nat :=
  ((((i + salt * 40503) % 4294967296) * 2654435761) % 4294967296) >>> 16

def u32 (s : String) : Nat := nat! s % 4294967296

/-- One diff token `off:hex…` → (offset or none for a negative one, bytes). -/
def parseRun (tok : String) : Option Nat × List UInt8 :=
  match tok.splitOn ":" with
  | [o, h] => (if o.startsWith "-" then none else some (nat! o), hexBytes h)
  | _ => (none, [])

def words : List UInt8 → List UInt16
  | hi :: lo :: rest => UInt16.ofNat (hi.toNat * 256 + lo.toNat) :: words rest
  | _ => []

/-- apply `vals` at `off…`; returns the array and whether an index fell outside it -/
def applyRun (a : Array α) (off : Option Nat) (vals : List α) : Array α × Bool :=
  match off with
  | none => (a, true)
  | some o => Id.run do
    let mut a := a
    let mut bad := false
    let mut k := o
    for v in vals do
      if k < a.size then a := a.setIfInBounds k v else bad := true
      k := k + 1
    return (a, bad)

structure Obs (α : Type) where
  panic : Bool
  guardHit : Bool
  fb : Array α
  changed : Nat

def applyDiff (cur : Array α) (toks : List String) (conv : List UInt8 → List α) : Obs α := Id.run do
  if toks = ["panic"] then return { panic := true, guardHit := false, fb := cur, changed := 0 }
  let mut a := cur
  let mut bad := false
  let mut n := 0
  for t in toks do
    if t = "-" then continue
    let (off, bytes) := parseRun t
    let vals := conv bytes
    let (a', b) := applyRun a off vals
    a := a'
    bad := bad || b
    n := n + vals.length
  return { panic := false, guardHit := bad, fb := a, changed := n }

inductive Kind | none | text | vesa
  deriving BEq

structure St where
  stats : Stats := {}
  caseId : String := ""
  /-- fonts declared by `fontdef <id> …` lines, newest first -/
  fonts : List (Nat × VesaFb.Font) := []
  kind : Kind := .none
  tc : VgaText.Cons := { width := 0, height := 0 }
  tfb : Array UInt16 := #[]
  vc : VesaFb.Cons := VesaFb.new 0 0 0 0 0 0 0 0 0 0
  vfb : Array UInt8 := #[]

def firstDiff [BEq α] [Inhabited α] (a b : Array α) : Option Nat := Id.run do
  if a.size ≠ b.size then return some (min a.size b.size)
  for i in [0:a.size] do
    if !(a[i]! == b[i]!) then return some i
  return none

/-- Compare model and implementation, run the oracle on the implementation's framebuffer.
`pad i` says whether index `i` is a padding byte. Returns the lines to print. -/
def judge [BEq α] [Inhabited α] [ToString α] (caseId opS obsS clause feature : String) (cur : Array α) (o : Obs α)
    (model : Option (Array α)) (spec : Nat → α) (pad : Nat → Bool) : List String := Id.run do
  let mut out : List String := []
  -- model vs implementation
  match model, o.panic with
  | none, true => pure ()
  | none, false => out := out ++ [s!"MISMATCH case={caseId} op={opS} model=panic impl={obsS.take 120}"]
  | some _, true => out := out ++ [s!"MISMATCH case={caseId} op={opS} model=ok impl=panic"]
  | some m, false =>
    match firstDiff m o.fb with
    | some i => out := out ++ [s!"MISMATCH case={caseId} op={opS} model=[{i}]={m[i]!} impl=[{i}]={o.fb[i]!} {obsS.take 120}"]
    | none => pure ()
  -- oracle
  if o.panic then
    out := out ++ [s!"PROPFAIL case={caseId} clause=no-oob feature={feature} op={opS} impl=panic"]
  else
    if o.guardHit then
      out := out ++ [s!"PROPFAIL case={caseId} clause=no-oob feature=guard op={opS} impl={obsS.take 200}"]
    let mut badMain : Option Nat := none
    let mut badPad : Option Nat := none
    for i in [0:o.fb.size] do
      let v := o.fb[i]!
      if !(spec i == v) then
        if pad i && !(v == cur[i]!) then
          if badPad.isNone then badPad := some i
        else if badMain.isNone then badMain := some i
    if let some i := badPad then
      out := out ++ [s!"PROPFAIL case={caseId} clause=padding-untouched feature={feature} op={opS} impl=[{i}]={o.fb[i]!} spec=[{i}]={spec i} {obsS.take 160}"]
    if let some i := badMain then
      out := out ++ [s!"PROPFAIL case={caseId} clause={clause} feature={feature} op={opS} impl=[{i}]={o.fb[i]!} spec=[{i}]={spec i} {obsS.take 160}"]
  return out

def emit (st : St) (lines : List String) : IO St := do
  let mut st := st
  for l in lines do
    IO.println l
    st := { st with stats := st.stats.bump (if l.startsWith "MISMATCH" then "mismatch" else "propfail") }
  return st

def bump (st : St) (k : String) : St := { st with stats := st.stats.bump k }

/-- feature tag of a fill: does `origin + extent - 1` leave 32 bits? -/
def fillFeature (cols rows x y w h : Nat) : String :=
  if clamp x cols + w ≥ 4294967296 + 1 ∨ clamp y rows + h ≥ 4294967296 + 1 then "sum-wraps" else "-"

def fillStat (r : Rect) (w h : Nat) : String :=
  if r.x1 ≤ r.x0 ∨ r.y1 ≤ r.y0 then "fill_empty"
  else if r.x1 - r.x0 < w ∨ r.y1 - r.y0 < h then "fill_clipped" else "fill_whole"

/-- independent check of a packed colour for sane layouts: each field, extracted again, holds
the top `size` bits of its component -/
def packOk (c : VesaFb.Cons) (rgb : UInt8 × UInt8 × UInt8) (bits : Nat) (packedVal : Nat) : Bool :=
  let fields := [(rgb.1.toNat, c.rSize, c.rPos), (rgb.2.1.toNat, c.gSize, c.gPos), (rgb.2.2.toNat, c.bSize, c.bPos)]
  let sane := fields.all (fun (_, s, p) => s ≤ 8 ∧ p + s ≤ bits) &&
    (c.rPos + c.rSize ≤ c.gPos ∨ c.gPos + c.gSize ≤ c.rPos) &&
    (c.rPos + c.rSize ≤ c.bPos ∨ c.bPos + c.bSize ≤ c.rPos) &&
    (c.gPos + c.gSize ≤ c.bPos ∨ c.bPos + c.bSize ≤ c.gPos)
  !sane || fields.all (fun (v, s, p) => (packedVal >>> p) % 2^s = v >>> (8 - s))

def parsePalette (hex : String) : Array (UInt8 × UInt8 × UInt8) :=
  let rec go : List UInt8 → List (UInt8 × UInt8 × UInt8)
    | r :: g :: b :: rest => (r, g, b) :: go rest
    | _ => []
  (go (hexBytes hex)).toArray

def processLine (st : St) (line : String) : IO St := do
  if line.startsWith "#" then return st   -- comment (e.g. the boot command line of a HAL case)
  if line.startsWith "fontdef " then
    match toks line with
    | [_, id, gw, gh, bpr, hex] =>
      return { st with fonts := (nat! id, { gw := nat! gw, gh := nat! gh, bpr := nat! bpr, data := (hexBytes hex).toArray }) :: st.fonts }
    | _ => IO.println s!"MISMATCH case={st.caseId} unparsable fontdef"; return st
  match line.splitOn " |" with
  | [opS, obsS0] =>
    let obsS := obsS0.trimAscii.toString
    let op := toks opS
    let obs := toks obsS
    let st := bump (bump st "ops") s!"op_{op.headD "?"}"
    match op with
    -- ------------------------------------------------------------ text console
    | ["T", cols, rows, guard, salt] =>
      let c : VgaText.Cons := { width := u32 cols, height := u32 rows, paletteLen := Gen.C19.vgaPaletteLen,
                                defaultFg := Gen.C19.vgaDefaultFg, defaultBg := Gen.C19.vgaDefaultBg, clearChar := Gen.C19.vgaClearChar }
      let n := VgaText.fbLen c
      let m := s!"{n} {c.paletteLen} {c.defaultFg} {c.defaultBg} {c.clearChar}"
      let fb := Array.ofFn (n := n) fun i => UInt16.ofNat (pat (nat! salt) (nat! guard + i.val))
      let st := { st with kind := .text, tc := c, tfb := fb }
      if m ≠ obsS then emit st [s!"MISMATCH case={st.caseId} op={opS} model={m} impl={obsS}"] else return st
    | ["tw", ch, fg, bg, x, y] =>
      let c := st.tc
      let (ch, fg, bg, x, y) := (nat! ch, nat! fg, nat! bg, u32 x, u32 y)
      let cur := st.tfb
      let o := applyDiff cur obs words
      let inGrid := 1 ≤ x ∧ x ≤ c.width ∧ 1 ≤ y ∧ y ≤ c.height
      let feature := if inGrid ∧ bg + 1 = c.paletteLen then "bg=max" else "-"
      let ls := judge st.caseId opS obsS "write-frame" feature cur o (VgaText.write c cur ch fg bg x y)
        (textWrite c (fun i => cur.getD i 0) ch fg bg x y) (fun _ => false)
      let st := bump st (if inGrid then "write_in_grid" else "write_outside")
      emit { st with tfb := o.fb } ls
    | ["tf", x, y, w, h, fg, bg] =>
      let c := st.tc
      let (x, y, w, h, fg, bg) := (u32 x, u32 y, u32 w, u32 h, nat! fg, nat! bg)
      let cur := st.tfb
      let o := applyDiff cur obs words
      let ls := judge st.caseId opS obsS "fill-clip" (fillFeature c.width c.height x y w h) cur o (VgaText.fill c cur x y w h fg bg)
        (textFill c (fun i => cur.getD i 0) x y w h fg bg) (fun _ => false)
      let st := bump st (fillStat (fillRect c.width c.height x y w h) w h)
      emit { st with tfb := o.fb } ls
    | ["ts", dir, lines] =>
      let c := st.tc
      let (dir, lines) := (nat! dir, u32 lines)
      let cur := st.tfb
      let o := applyDiff cur obs words
      let ls := judge st.caseId opS obsS "scroll-exact" "-" cur o (VgaText.scroll c cur dir lines)
        (textScroll c (fun i => cur.getD i 0) dir lines) (fun _ => false)
      let st := bump st (if 1 ≤ lines ∧ lines ≤ c.height ∧ dir ≤ 1 then s!"scroll_dir{dir}" else "scroll_ignored")
      emit { st with tfb := o.fb } ls
    -- ------------------------------------------------------------ pixel console
    | ["V", width, height, bpp, pitch, rp, rs, gp, gs, bp, bs, guard, salt] =>
      let c := VesaFb.new (u32 width) (u32 height) (nat! bpp) (u32 pitch) (nat! rp) (nat! rs) (nat! gp) (nat! gs) (nat! bp) (nat! bs)
      let n := VesaFb.fbLen c
      let m := s!"{c.bytesPerPixel} {n} {Gen.C19.vesaDefaultFg} {Gen.C19.vesaDefaultBg} {Gen.C19.vesaClearChar} -"
      let fb := Array.ofFn (n := n) fun i => UInt8.ofNat (pat (nat! salt) (nat! guard + i.val))
      let st := bump (bump st s!"bpp_{c.bpp}") (if c.pitch > c.width * c.bytesPerPixel then "pitch_slack" else "pitch_tight")
      let st := { st with kind := .vesa, vc := c, vfb := fb }
      if m ≠ obsS then emit st [s!"MISMATCH case={st.caseId} op={opS} model={m} impl={obsS}"] else return st
    | ["pal", hex] =>
      return { st with vc := { st.vc with palette := parsePalette hex } }
    | ["font", fid] =>
      -- `SetFont`: observation = the grid the console reports afterwards.  The model recomputes the
      -- grid from this font and the logo rows (an unfit font gives an empty grid); later operations
      -- are replayed on the grid the implementation really has.
      let c0 := st.vc
      let fontOf : Option (Option VesaFb.Font) :=
        if fid = "-1" then some none else (st.fonts.find? (·.1 = nat! fid)).map (fun p => some p.2)
      match fontOf, obs with
      | none, _ => emit st [s!"MISMATCH case={st.caseId} op={opS} unknown font"]
      | _, ["panic"] => emit st [s!"PROPFAIL case={st.caseId} clause=no-oob feature=set-font op={opS} impl=panic"]
      | some fo, [cols, rows] =>
        let (cols, rows) := (u32 cols, u32 rows)
        let cm := match fo with
          | some f => VesaFb.setFont c0 f
          | none => c0                      -- SetFont(nil) changes nothing
        let mut ls : List String := []
        if (cm.cols, cm.rows) ≠ (cols, rows) then
          ls := ls ++ [s!"MISMATCH case={st.caseId} op={opS} model={cm.cols} {cm.rows} impl={cols} {rows}"]
        match cm.font with
        | some f =>
          if ¬ (rows * f.gh + cm.offsetY ≤ cm.height ∧ cols * f.gw ≤ cm.width) then
            ls := ls ++ [s!"PROPFAIL case={st.caseId} clause=grid-fits feature=set-font op={opS} impl={obsS}"]
        | none => pure ()
        let st := bump st (match fo with
          | some f => if cm.cols = 0 ∨ cm.rows = 0 then "font_unfit" else s!"font_{f.gw}x{f.gh}"
          | none => "font_nil")
        emit { st with vc := { cm with cols := cols, rows := rows } } ls
      | _, _ => emit st [s!"MISMATCH case={st.caseId} op={opS} bad observation"]
    | ["hal", fid] =>
      -- the console as `hal.onConsoleInit` configured it (logo, then font — in whatever order the
      -- kernel really used): observation = offsetY, cols, rows, then the diff of the logo drawing
      let c0 := st.vc
      let cur := st.vfb
      match (st.fonts.find? (·.1 = nat! fid)).map (·.2), obs with
      | some f, offY :: cols :: rows :: diff =>
        let (offY, cols, rows) := (u32 offY, u32 cols, u32 rows)
        -- the model configures in the documented order: SetLogo before SetFont
        let cm := VesaFb.setFont (VesaFb.setLogoHeight c0 offY) f
        let o := applyDiff cur diff id
        let mut ls : List String := []
        if (cm.cols, cm.rows) ≠ (cols, rows) then
          ls := ls ++ [s!"MISMATCH case={st.caseId} op={opS} model={cm.cols} {cm.rows} impl={cols} {rows}"]
        if ¬ (rows * f.gh + offY ≤ c0.height ∧ cols * f.gw ≤ c0.width) then
          ls := ls ++ [s!"PROPFAIL case={st.caseId} clause=grid-fits feature=hal-configured op={opS} impl={obsS.take 60}"]
        if o.guardHit then ls := ls ++ [s!"PROPFAIL case={st.caseId} clause=no-oob feature=guard op={opS} impl={obsS.take 160}"]
        let mut bad : Option Nat := none
        for i in [0:o.fb.size] do
          if o.fb[i]! ≠ cur[i]! ∧ bad.isNone ∧ ¬ (i / c0.pitch < offY ∧ i % c0.pitch < c0.width * c0.bytesPerPixel) then bad := some i
        if let some i := bad then
          ls := ls ++ [s!"PROPFAIL case={st.caseId} clause=logo-contained feature=hal-configured op={opS} impl=[{i}]={o.fb[i]!}"]
        -- later operations are replayed on the geometry the implementation really has
        let c := { cm with cols := cols, rows := rows }
        let st := bump (bump st (if offY = 0 then "hal_nologo" else "hal_logo")) s!"font_{f.gw}x{f.gh}"
        emit { st with vc := c, vfb := o.fb } ls
      | _, ["panic"] => emit st [s!"PROPFAIL case={st.caseId} clause=no-oob feature=hal-configured op={opS} impl=panic"]
      | _, _ => emit st [s!"MISMATCH case={st.caseId} op={opS} unknown font or bad observation"]
    | ["logo", _w, h, _align] =>
      let c0 := st.vc
      let cur := st.vfb
      match obs with
      | ["panic"] => emit st [s!"PROPFAIL case={st.caseId} clause=no-oob feature=logo op={opS} impl=panic"]
      | offY :: diff =>
        let c := VesaFb.setLogoHeight c0 (u32 h)
        let o := applyDiff cur diff id
        let mut ls : List String := []
        if toString c.offsetY ≠ offY then ls := ls ++ [s!"MISMATCH case={st.caseId} op={opS} model={c.offsetY} impl={offY}"]
        if o.guardHit then ls := ls ++ [s!"PROPFAIL case={st.caseId} clause=no-oob feature=guard op={opS} impl={obsS.take 160}"]
        -- the logo drawing itself is not modelled: it must stay inside the logo rows, off the padding
        let mut bad : Option Nat := none
        for i in [0:o.fb.size] do
          if o.fb[i]! ≠ cur[i]! ∧ bad.isNone ∧ ¬ (i / c.pitch < u32 h ∧ i % c.pitch < c.width * c.bytesPerPixel) then bad := some i
        if let some i := bad then
          ls := ls ++ [s!"PROPFAIL case={st.caseId} clause=logo-contained feature=- op={opS} impl=[{i}]={o.fb[i]!}"]
        let st := bump st (if u32 h = 0 then "logo_h0" else if u32 h % 2 = 1 then "logo_odd" else "logo_even")
        emit { st with vc := c, vfb := o.fb } ls
      | [] => emit st [s!"MISMATCH case={st.caseId} op={opS} empty observation"]
    | ["vw", ch, fg, bg, x, y] =>
      let c := st.vc
      let (ch, fg, bg, x, y) := (nat! ch, nat! fg, nat! bg, u32 x, u32 y)
      let cur := st.vfb
      let o := applyDiff cur obs id
      let old := fun i => cur.getD i 0
      let spec := match c.font with
        | some f => pixWrite c f old ch fg bg x y
        | none => old
      let rowBytes := c.width * c.bytesPerPixel
      let ls := judge st.caseId opS obsS "write-frame" "-" cur o (VesaFb.write c cur ch fg bg x y) spec
        (fun i => i % c.pitch ≥ rowBytes)
      let st := bump st (if c.font.isNone then "write_nofont" else if 1 ≤ x ∧ x ≤ c.cols ∧ 1 ≤ y ∧ y ≤ c.rows then "write_in_grid" else "write_outside")
      emit { st with vfb := o.fb } ls
    | ["vf", x, y, w, h, fg, bg] =>
      let c := st.vc
      let (x, y, w, h, fg, bg) := (u32 x, u32 y, u32 w, u32 h, nat! fg, nat! bg)
      let cur := st.vfb
      let o := applyDiff cur obs id
      let old := fun i => cur.getD i 0
      let spec := match c.font with
        | some f => pixFill c f old x y w h bg
        | none => old
      let rowBytes := c.width * c.bytesPerPixel
      let ls := judge st.caseId opS obsS "fill-clip" (fillFeature c.cols c.rows x y w h) cur o (VesaFb.fill c cur x y w h fg bg) spec
        (fun i => i % c.pitch ≥ rowBytes)
      let st := bump st (if c.font.isNone then "fill_nofont" else fillStat (fillRect c.cols c.rows x y w h) w h)
      emit { st with vfb := o.fb } ls
    | ["vs", dir, lines] =>
      let c := st.vc
      let (dir, lines) := (nat! dir, u32 lines)
      let cur := st.vfb
      let o := applyDiff cur obs id
      let old := fun i => cur.getD i 0
      let spec := match c.font with
        | some f => pixScroll c f old dir lines
        | none => old
      let rowBytes := c.width * c.bytesPerPixel
      let feature := if c.pitch > rowBytes then "pitch>rowbytes" else "-"
      let ls := judge st.caseId opS obsS "scroll-exact" feature cur o (VesaFb.scroll c cur dir lines) spec
        (fun i => i % c.pitch ≥ rowBytes)
      let st := bump st (if c.font.isNone then "scroll_nofont" else if 1 ≤ lines ∧ lines ≤ c.rows ∧ dir ≤ 1 then s!"scroll_dir{dir}" else "scroll_ignored")
      emit { st with vfb := o.fb } ls
    | [pk, idx] =>
      let c := st.vc
      let (model, bits) := if pk = "pk16" then (VesaFb.packColor16 c (nat! idx), 16) else (VesaFb.packColor24 c (nat! idx), 24)
      let m := match model with
        | none => "panic"
        | some l => joinNats (l.map (·.toNat))
      let mut ls : List String := []
      if m ≠ obsS then ls := ls ++ [s!"MISMATCH case={st.caseId} op={opS} model={m} impl={obsS}"]
      let vals := obs.map nat!
      let packedVal := (vals.zipIdx.map fun (v, k) => v * 256 ^ k).foldl (· + ·) 0
      match c.palette[nat! idx]? with
      | some rgb =>
        if obs = ["panic"] ∨ !(packOk c rgb bits packedVal) then
          ls := ls ++ [s!"PROPFAIL case={st.caseId} clause=pack-color feature=- op={opS} impl={obsS}"]
      | none => pure ()
      emit st ls
    | ["chk"] =>
      let sum := match st.kind with
        | .text => (st.tfb.zipIdx.foldl (fun (acc : Nat) (p : UInt16 × Nat) => (acc + (p.2 + 1) * p.1.toNat) % 4294967296) 0)
        | .vesa => (st.vfb.zipIdx.foldl (fun (acc : Nat) (p : UInt8 × Nat) => (acc + (p.2 + 1) * p.1.toNat) % 4294967296) 0)
        | .none => 0
      if toString sum ≠ obsS then emit st [s!"MISMATCH case={st.caseId} op={opS} model={sum} impl={obsS}"] else return st
    | ["off", x, y] =>
      let m := toString (VesaFb.fbOffset st.vc (u32 x) (u32 y))
      if m ≠ obsS then emit st [s!"MISMATCH case={st.caseId} op={opS} model={m} impl={obsS}"] else return st
    | _ => emit st [s!"MISMATCH case={st.caseId} unparsable op: {opS.take 80}"]
  | _ =>
    match toks line with
    | ["case", id] => return { st with caseId := id, kind := .none, stats := st.stats.bump "cases" }
    | [] => return st
    | _ => IO.println s!"MISMATCH case={st.caseId} unparsable line: {line.take 80}"; return st

def run (lines : Array String) : IO Unit := do
  let mut st : St := {}
  for l in lines do st ← processLine st l
  st.stats.print

end Firefly.Replay.C19
