import Firefly.Util
import Firefly.Model.Pmm
/-! Replay of pmm traces (C01, C02, C03): model vs implementation line by line, and the property
oracles evaluated on the implementation's observations only. -/
namespace Firefly.Replay.Pmm
open Firefly.Util Firefly.Pmm

structure St where
  prop : String
  stats : Stats := {}
  caseId : String := ""
  -- model state
  map : List Region := []
  boot : Boot := { allocCount := 0, last := 0, kStart := 0, kEnd := 0 }
  bm : Bitmap := { pools := [], total := 0, reserved := 0 }
  -- oracle state (built from the implementation's observations and the inputs only)
  kFrames : Nat × Nat := (1, 0)          -- kernel frame range (inclusive)
  bootTaken : List Nat := []             -- frames the early allocator handed out, in order
  held : List Nat := []                  -- frames currently held by callers
  inited : Bool := false
  bootOom : Bool := false                -- the early allocator has reported out-of-memory since the last init
  fails : List String := []

def regions : List Nat → List Region
  | a :: l :: t :: rest => { addr := a, len := l, typ := t } :: regions rest
  | _ => []

/-- spec: frame `f` lies wholly inside a region reported as available -/
def availFrame (m : List Region) (f : Nat) : Bool :=
  m.any fun r => r.typ = 1 ∧ r.addr ≤ f * 4096 ∧ (f + 1) * 4096 ≤ r.addr + r.len

/-- spec: all frames wholly inside available regions (maps in the harness are small) -/
def availFrames (m : List Region) : List Nat :=
  (m.filter (·.typ = 1)).flatMap fun r =>
    let s := (r.addr + 4095) / 4096
    let e := (r.addr + r.len) / 4096
    (List.range (e - s)).map (s + ·)

def inKernel (k : Nat × Nat) (f : Nat) : Bool := k.1 ≤ f ∧ f ≤ k.2

def usable (st : St) : List Nat :=
  (availFrames st.map).filter fun f => !inKernel st.kFrames f && !st.bootTaken.contains f

def poolStr (p : Pool) : String :=
  s!"{p.start} {p.end_} {p.freeCount} {p.words.length} {joinNats (p.words.map (·.toNat))}"

def bmStr (bm : Bitmap) : String :=
  let ps := " ".intercalate (bm.pools.map poolStr)
  (s!"{bm.total} {bm.reserved} {bm.pools.length} {ps}").trimAscii.toString

/-- free frames according to a pool dump `start end free nwords w…` repeated `npools` times (the
implementation's own bitmap, bit `63 - i%64` of word `i/64`) -/
def dumpFree : Nat → List Nat → List Nat
  | 0, _ => []
  | n+1, start :: end_ :: _ :: nw :: rest =>
    let ws := rest.take nw
    let fr := (List.range (end_ + 1 - start)).filter fun i =>
      !(BitVec.ofNat 64 (ws.getD (i / 64) 0)).getLsbD (63 - i % 64)
    fr.map (start + ·) ++ dumpFree n (rest.drop nw)
  | _, _ => []

def sortNat (l : List Nat) : List Nat := (l.toArray.qsort (· < ·)).toList

def optFrame : Option Nat → String
  | some f => toString f
  | none => "-1"

def outcomeCode : Outcome → Nat
  | .ok => 0 | .oom => 1 | .reserveErr => 2 | .mapErr => 3 | .panic => 9

def freeCode : FreeRes → Nat
  | .ok => 0 | .notManaged => 1 | .doubleFree => 2 | .panic => 9

def fail (st : St) (prop clause : String) (opS obsS : String) : St :=
  if st.prop = prop ∨ st.prop = "all" then
    { st with fails := st.fails ++ [s!"PROPFAIL case={st.caseId} clause={clause} op={opS} impl={obsS}"],
              stats := st.stats.bump "propfail" }
  else st

/-- metadata frames reported by the harness's `mapFn` stub: obs tail after the pool dump is
`m <n> f1 … fn` -/
def metaFrames (obs : List String) : List Nat :=
  match obs.dropWhile (· ≠ "m") with
  | _ :: _ :: fs => fs.map nat!
  | _ => []

def step (st : St) (opS obsS : String) : St × String := Id.run do
  let op := toks opS
  let obs := toks obsS
  let mut st := { st with stats := (st.stats.bump "ops").bump s!"op_{op.headD "?"}" }
  match op with
  | "map" :: rest =>
    st := { st with map := regions (rest.map nat!), bootTaken := [], held := [], inited := false }
    return (st, "")
  | ["binit", ks, ke] =>
    let b := bootInit (nat! ks) (nat! ke)
    st := { st with boot := b, kFrames := (nat! ks / 4096, (nat! ke + 4095) / 4096 - 1), bootTaken := [], held := [],
                    inited := false, bootOom := false }
    return (st, s!"{b.kStart} {b.kEnd}")
  | ["balloc"] =>
    let (b, r) := bootAlloc st.map st.boot
    st := { st with boot := b }
    -- oracle C02 on the implementation's frame
    match obs with
    | fS :: _ =>
      if fS = "-1" then st := { st with stats := st.stats.bump "boot_oom", bootOom := true }
      else
        let f := nat! fS
        st := { st with stats := st.stats.bump "boot_ok" }
        if st.bootOom then st := fail st "C02" "boot-oom-is-final" opS obsS
        if !availFrame st.map f then st := fail st "C02" "boot-frame-in-available-ram" opS obsS
        if inKernel st.kFrames f then st := fail st "C02" "boot-frame-not-kernel" opS obsS
        match st.bootTaken.getLast? with
        | some l => if ¬ (l < f) then st := fail st "C02" "boot-strictly-ascending" opS obsS
        | none => pure ()
        st := { st with bootTaken := st.bootTaken ++ [f] }
    | _ => st := fail st "C02" "bad-line" opS obsS
    return (st, s!"{optFrame r} {b.allocCount} {b.last}")
  | ["breplay", n] =>
    let b0 := { st.boot with allocCount := 0, last := 0 }
    let (_, rs) := bootAllocN st.map (nat! n) b0
    let want := (st.bootTaken.take (nat! n)).map toString
    if obs ≠ want then st := fail st "C02" "boot-replay-exact" opS obsS
    return (st, " ".intercalate (rs.map optFrame))
  | ["init", rok, mfa] =>
    let r := bitmapInit st.map st.boot (rok = "1") (if mfa = "-1" then none else some (nat! mfa))
    st := { st with boot := r.boot, bm := r.bm, stats := st.stats.bump s!"init_outcome_{outcomeCode r.outcome}" }
    let model :=
      if r.outcome = .ok then s!"0 {r.boot.allocCount} {r.boot.last} {bmStr r.bm}"
      else s!"{outcomeCode r.outcome} {r.boot.allocCount} {r.boot.last}"
    -- oracle C03 on the implementation's outcome
    match obs with
    | code :: _ =>
      let metaF := metaFrames obs
      st := { st with bootTaken := st.bootTaken ++ metaF }
      if code = "9" then st := fail st "C03" "init-never-crashes" opS obsS
      if code = "2" ∧ rok = "1" then st := fail st "C03" "init-ok-or-oom" opS obsS
      if code = "3" ∧ mfa = "-1" then st := fail st "C03" "init-ok-or-oom" opS obsS
      if code = "0" then
        st := { st with inited := true }
        match obs with
        | _ :: _ :: _ :: total :: reserved :: _ =>
          let av := (availFrames st.map).length
          let us := (usable st).length
          if nat! total ≠ av then st := fail st "C03" "init-total-is-available-ram" opS obsS
          if nat! total - nat! reserved ≠ us ∨ nat! reserved > nat! total then
            st := fail st "C03" "init-free-count-is-usable" opS obsS
          -- the frames left free by the hand-over are exactly the usable ones: every early
          -- allocation (and every kernel frame) was recovered and marked reserved, nothing else
          match (obs.takeWhile (· ≠ "m")).map nat! with
          | _ :: _ :: _ :: _ :: _ :: np :: pools =>
            let freeImpl := sortNat (dumpFree np pools)
            if freeImpl ≠ sortNat (usable st) then
              st := fail st "C02" "handover-recovers-early-frames" opS obsS
              st := fail st "C03" "init-free-set-is-usable" opS obsS
              st := fail st "C01" "init-free-set-is-usable" opS obsS
          | _ => pure ()
        | _ => st := fail st "C03" "bad-line" opS obsS
    | _ => st := fail st "C03" "bad-line" opS obsS
    let implModelCmp := if r.outcome = .ok then
        -- compare everything before the metadata frame list
        " ".intercalate (obs.takeWhile (· ≠ "m"))
      else " ".intercalate (obs.take 3)
    return (st, if implModelCmp = model then obsS else model)
  | ["a"] =>
    let (bm, r) := alloc st.bm
    st := { st with bm := bm }
    match obs with
    | [fS] =>
      if fS = "-1" then
        st := { st with stats := st.stats.bump "alloc_oom" }
        if st.held.length ≠ (usable st).length then st := fail st "C03" "oom-only-when-all-usable-held" opS obsS
      else if fS = "panic" then st := fail st "C03" "alloc-never-crashes" opS obsS
      else
        let f := nat! fS
        st := { st with stats := st.stats.bump "alloc_ok" }
        if !availFrame st.map f then st := fail st "C01" "frame-in-available-ram" opS obsS
        if inKernel st.kFrames f then st := fail st "C01" "frame-not-kernel-image" opS obsS
        if st.bootTaken.contains f then st := fail st "C01" "frame-not-early-allocated" opS obsS
        if st.held.contains f then st := fail st "C01" "frame-not-held-by-another" opS obsS
        -- C03: "exactly the usable frames can be allocated": what comes out is a usable frame nobody holds
        if !((usable st).contains f) ∨ st.held.contains f then
          st := fail st "C03" "allocated-frame-is-usable-and-free" opS obsS
        st := { st with held := f :: st.held }
    | _ => st := fail st "C01" "bad-line" opS obsS
    return (st, optFrame r)
  | ["f", fS] =>
    let f := nat! fS
    let (bm, r) := free st.bm f
    st := { st with bm := bm, stats := st.stats.bump s!"free_code_{freeCode r}" }
    match obs with
    | [code] =>
      let isHeld := st.held.contains f
      let managed := availFrame st.map f
      if code = "9" then st := fail st "C03" "free-never-crashes" opS obsS
      else if isHeld ∧ code ≠ "0" then st := fail st "C03" "free-of-held-frame-succeeds" opS obsS
      else if ¬ isHeld ∧ code = "0" then st := fail st "C03" "bad-free-rejected" opS obsS
      else if ¬ managed ∧ code ≠ "1" then st := fail st "C03" "unmanaged-free-rejected" opS obsS
      if code = "0" then st := { st with held := st.held.erase f }
    | _ => st := fail st "C03" "bad-line" opS obsS
    return (st, toString (freeCode r))
  | ["s"] =>
    match obs with
    | total :: reserved :: _ =>
      if st.inited then
        let us := (usable st).length
        if nat! total - nat! reserved ≠ us - st.held.length ∨ nat! reserved > nat! total then
          st := fail st "C03" "stats-agree-with-free-frames" opS obsS
    | _ => st := fail st "C03" "bad-line" opS obsS
    return (st, bmStr st.bm)
  | _ => return (st, "bad-op")

/-- `pinit ks ke` = the package entry point `Init`: `BootMemAllocator.init` followed by
`BitmapAllocator.init` with both vmm seams succeeding -/
def pinitPre (st : St) (opS : String) : St × String :=
  match toks opS with
  | ["pinit", ks, ke] =>
    let b := bootInit (nat! ks) (nat! ke)
    ({ st with boot := b, kFrames := (nat! ks / 4096, (nat! ke + 4095) / 4096 - 1), bootTaken := [],
               held := [], inited := false, bootOom := false, stats := st.stats.bump "pinit" }, "init 1 -1")
  | _ => (st, opS)

def processLine (st : St) (line : String) : IO St := do
  let line := if line.endsWith " |" then line ++ " " else line
  match line.splitOn " | " with
  | [opS0, obsS] =>
    let (st, opS) := pinitPre st opS0
    let (st', model) := step st opS obsS
    let mut st := { st' with fails := [] }
    for f in st'.fails do IO.println f
    let obsN := " ".intercalate (toks obsS)
    if model ≠ "" ∧ " ".intercalate (toks model) ≠ obsN then
      IO.println s!"MISMATCH case={st.caseId} op={opS} model={model} impl={obsS}"
      st := { st with stats := st.stats.bump "mismatch" }
    return st
  | _ =>
    match toks line with
    | ["case", id] => return { st with caseId := id, stats := st.stats.bump "cases" }
    | [] => return st
    | "map" :: _ => let (st', _) := step st line ""; return st'
    | _ => IO.println s!"MISMATCH case={st.caseId} unparsable line: {line}"; return st

def run (prop : String) (lines : Array String) : IO Unit := do
  let mut st : St := { prop := prop }
  for l in lines do st ← processLine st l
  st.stats.print

end Firefly.Replay.Pmm
