import Firefly.Util
import Firefly.Model.Acpi
/-! Replay of C14 traces: model vs implementation, and the property oracle on the
implementation's observations.

One line = one hardware detection on one firmware image:
`D low hi M n (base hex)* C n (addr rev kind rsdt xsdt)* R n (addr width rev sumok k e*)* T n (addr sig len sumok d32 d64)*`
` | found root useX nmap (p f fl)* nunmap p* res ntab (sig addr len)* nlog (kind sig addr len oem oemtab)* nim (frame size fl)*`
The `C/R/T` part is the generator's ground truth about the image (which root pointer candidates
exist and which are valid, what each root table lists, which tables sum to zero); the oracle
judges the implementation's observation against it, without using the model. -/
namespace Firefly.Replay.C14
open Firefly.Util Firefly.Acpi Firefly.Gen.C14

structure Seg where
  base : Nat
  bytes : ByteArray

def memOf (segs : Array Seg) : Mem := fun a =>
  match segs.find? (fun s => s.base ≤ a && a < s.base + s.bytes.size) with
  | some s => s.bytes.get! (a - s.base)
  | none => 0

structure Cand where
  addr : Nat
  rev : Nat
  kind : Nat
  rsdt : Nat
  xsdt : Nat

structure Root where
  addr : Nat
  width : Nat
  rev : Nat
  ok : Bool
  entries : List Nat

structure Tab where
  addr : Nat
  sig : Nat
  len : Nat
  ok : Bool
  d32 : Nat
  d64 : Nat

structure Image where
  low : Nat := 0
  hi : Nat := 0
  segs : Array Seg := #[]
  cands : List Cand := []
  roots : List Root := []
  tabs : List Tab := []

/-- take `n` tokens as numbers -/
def takeNats (ts : List String) (n : Nat) : List Nat × List String :=
  ((ts.take n).map nat!, ts.drop n)

partial def parseSegs : Nat → List String → Array Seg → Array Seg × List String
  | 0, ts, acc => (acc, ts)
  | n + 1, b :: h :: ts, acc => parseSegs n ts (acc.push ⟨nat! b, ByteArray.mk (hexBytes h).toArray⟩)
  | _, ts, acc => (acc, ts)

partial def parseRoots : Nat → List String → List Root → List Root × List String
  | 0, ts, acc => (acc.reverse, ts)
  | n + 1, a :: w :: r :: ok :: k :: ts, acc =>
    let (es, ts) := takeNats ts (nat! k)
    parseRoots n ts (⟨nat! a, nat! w, nat! r, ok = "1", es⟩ :: acc)
  | _, ts, acc => (acc.reverse, ts)

def chunks (k : Nat) : Nat → List Nat → List (List Nat)
  | 0, _ => []
  | n + 1, l => l.take k :: chunks k n (l.drop k)

def parseImage (ts : List String) : Option Image :=
  match ts with
  | "D" :: low :: hi :: "M" :: n :: ts =>
    let (segs, ts) := parseSegs (nat! n) ts #[]
    match ts with
    | "C" :: n :: ts =>
      let (cs, ts) := takeNats ts (5 * nat! n)
      let cands := (chunks 5 (nat! n) cs).filterMap fun
        | [a, r, k, p, q] => some (⟨a, r, k, p, q⟩ : Cand)
        | _ => none
      match ts with
      | "R" :: n :: ts =>
        let (roots, ts) := parseRoots (nat! n) ts []
        match ts with
        | "T" :: n :: ts =>
          let (xs, _) := takeNats ts (6 * nat! n)
          let tabs := (chunks 6 (nat! n) xs).filterMap fun
            | [a, s, l, ok, p, q] => some (⟨a, s, l, ok = 1, p, q⟩ : Tab)
            | _ => none
          some { low := nat! low, hi := nat! hi, segs, cands, roots, tabs }
        | _ => none
      | _ => none
    | _ => none
  | _ => none

/-! ### canonical observation text -/

def lexLt : List Nat → List Nat → Bool
  | [], [] => false
  | [], _ => true
  | _, [] => false
  | a :: as, b :: bs => a < b || (a == b && lexLt as bs)

def insertSorted (x : List Nat) : List (List Nat) → List (List Nat)
  | [] => [x]
  | y :: ys => if lexLt y x then y :: insertSorted x ys else x :: y :: ys

def sortRecs (l : List (List Nat)) : List (List Nat) := l.foldr insertSorted []

def counted (recs : List (List Nat)) : List Nat := recs.length :: recs.flatten

/-- the model's observation for an image, in the harness's format -/
def modelObs (img : Image) : String :=
  let m := memOf img.segs
  let pages := probePages img.low img.hi
  let mapPart := counted (pages.map fun p => [p, p, flagPresent]) ++ counted (pages.map fun p => [p])
  match locateRSDT m img.low img.hi with
  | .missing => joinNats ([0, 0, 0] ++ mapPart ++ [9, 0, 0, 0])
  | .found root x =>
    if lenAt m root < sizeofSDTHeader then "out-of-domain(root table shorter than its header)" else
    let (res, st) := enumerateTables m root x
    let tabs := sortRecs (st.tables.map fun (s, a) => [s, a, lenAt m a])
    let logs :=
      (st.skipped.map fun a => [0, sigAt m a, a, lenAt m a, 0, 0]) ++
      (if res = .ok then st.tables.map fun (s, a) =>
        [1, s, a, lenAt m a, rdLE m (a + hdrOEMIDOff) hdrOEMIDSize, rdLE m (a + hdrOEMTableIDOff) hdrOEMTableIDSize]
       else [])
    joinNats ([1, root, if x then 1 else 0] ++ mapPart ++ [if res = .ok then 0 else 1] ++ counted tabs ++
      counted (sortRecs logs) ++ counted (st.maps.map fun (f, s) => [f, s, flagPresent]))

/-! ### the implementation's observation -/

structure Obs where
  found : Nat := 0
  root : Nat := 0
  useX : Nat := 0
  res : Nat := 9
  tabs : List (List Nat) := []
  logs : List (List Nat) := []

def takeRecs (k : Nat) (l : List Nat) : List (List Nat) × List Nat :=
  match l with
  | n :: rest => (chunks k n rest, rest.drop (k * n))
  | [] => ([], [])

def parseObs (l : List Nat) : Option Obs :=
  match l with
  | found :: root :: useX :: rest =>
    let (_, rest) := takeRecs 3 rest
    let (_, rest) := takeRecs 1 rest
    match rest with
    | res :: rest =>
      let (tabs, rest) := takeRecs 3 rest
      let (logs, _) := takeRecs 6 rest
      some { found, root, useX, res, tabs, logs }
    | [] => none
  | _ => none

/-! ### oracle -/

structure Fail where
  clause : String
  feature : String

/-- what the generator says lies at `a` (physical memory outside the image reads as zero: an
empty table with signature 0) -/
def tabAt (img : Image) (a : Nat) : Tab :=
  (img.tabs.find? (·.addr == a)).getD ⟨a, 0, 0, true, 0, 0⟩

def insertExp (t : List (List Nat)) (r : List Nat) : List (List Nat) :=
  r :: t.filter (fun p => p.head? != r.head?)

/-- expected `tableMap` and skipped tables when the root table `r` is enumerated -/
def expectedEnum (img : Image) (r : Root) : List (List Nat) × List (List Nat) :=
  r.entries.foldl (fun (reg, skip) e =>
    let t := tabAt img e
    if !t.ok then (reg, skip ++ [[0, t.sig, t.addr, t.len, 0, 0]]) else
    let reg := insertExp reg [t.sig, t.addr, t.len]
    if t.sig == fadtSignature then
      let d := tabAt img (if r.rev ≥ 2 then t.d64 else t.d32)
      if d.ok then (insertExp reg [d.sig, d.addr, d.len], skip)
      else (reg, skip ++ [[0, d.sig, d.addr, d.len, 0, 0]])
    else (reg, skip)) ([], [])

def revTag (rev : Nat) : String := if rev = 0 then "rev0" else "rev>0"

def hasDupSig (recs : List (List Nat)) : Bool :=
  let sigs := recs.filterMap (·.head?)
  sigs.any fun s => (sigs.filter (· == s)).length > 1

def oracle (img : Image) (o : Obs) : List Fail × List String :=
  Id.run do
    let mut fails : List Fail := []
    let mut tags : List String := []
    -- (1) root pointer: the lowest checksum-valid candidate on the 16-byte grid, wholly inside the window.
    -- Candidate kinds: 0 valid; 1/2/3/5 must never be accepted (bad checksum / off the grid / wrong
    -- signature byte / valid ACPI-1.0 part but the 36 bytes do not sum to zero, lying Length field);
    -- 6 = revision>0, 36 bytes sum to zero but bad 20-byte checksum: the property does not say whether
    -- that is "its checksum", so accepting or skipping it are both allowed (the model pins what the code does).
    let sorted := sortRecs ((img.cands.filter (fun c => c.kind == 0 || c.kind == 6)).map fun c => [c.addr, c.kind, c.rev, c.rsdt, c.xsdt])
    let optional := sorted.takeWhile (fun c => c.getD 1 0 == 6)
    let primary := (sorted.dropWhile (fun c => c.getD 1 0 == 6)).head?
    let wantOf := fun (c : List Nat) => (if c.getD 2 0 == 0 then c.getD 3 0 else c.getD 4 0, if c.getD 2 0 == 0 then 0 else 1)
    let straddle := img.cands.any (·.kind == 4)
    let matchesOpt := o.found == 1 && optional.any (fun c => wantOf c == (o.root, o.useX))
    if !optional.isEmpty then tags := "optional_ext_checksum_only_candidate" :: tags
    let decoyRoot := img.cands.any (fun d => d.kind != 0 && d.kind != 6 && d.kind != 4 && (o.root == d.rsdt || o.root == d.xsdt))
    match primary with
    | some c =>
      let other := if c.getD 2 0 == 0 then c.getD 4 0 else c.getD 3 0
      let ft := revTag (c.getD 2 0)
      tags := s!"expect_found_{ft}" :: tags
      if matchesOpt then pure ()
      else if o.found != 1 then fails := ⟨"rsdp-found", ft⟩ :: fails
      else if wantOf c == (o.root, o.useX) then pure ()
      else if o.root == other || o.root == (wantOf c).1 then fails := ⟨"root-by-revision", ft⟩ :: fails
      else if decoyRoot then fails := ⟨"rsdp-decoy-never", ft⟩ :: fails
      else if img.cands.any (fun d => d.kind == 0 && d.addr != c.getD 0 0 && (o.root == d.rsdt || o.root == d.xsdt)) then
        fails := ⟨"rsdp-lowest", ft⟩ :: fails
      else fails := ⟨"rsdp-decoy-never", ft⟩ :: fails
    | none =>
      if straddle then tags := "outside_domain_rsdp_sticks_out_of_window" :: tags
      else
        tags := "expect_missing" :: tags
        if o.found != 0 && !matchesOpt then fails := ⟨"rsdp-decoy-never", "no-valid-candidate"⟩ :: fails
    -- (2) enumeration, judged on the root table the implementation says it used
    if o.found == 1 then
      match img.roots.find? (·.addr == o.root) with
      | none => tags := "root_not_in_image" :: tags
      | some r =>
        if (o.useX == 1) != (r.width == 8) then fails := ⟨"entry-width", s!"width{r.width}"⟩ :: fails
        if !r.ok then tags := "root_bad_checksum" :: tags
        else
          let (reg, skip) := expectedEnum img r
          let dup := hasDupSig ((r.entries.map fun e => [(tabAt img e).sig]) ++
            (r.entries.filterMap fun e => let t := tabAt img e
              if t.ok && t.sig == fadtSignature then some [(tabAt img (if r.rev ≥ 2 then t.d64 else t.d32)).sig] else none))
          let ft := (if dup then "dup-sig," else "") ++ s!"width{r.width}"
          if dup then tags := "dup_sig" :: tags
          if o.res != 0 then fails := ⟨"bad-checksum-not-fatal", ft⟩ :: fails
          let reg := sortRecs reg
          if o.tabs != reg then
            let missing := reg.any fun x => !(o.tabs.any (·.head? == x.head?))
            let extra := o.tabs.any fun x => !(reg.any (·.head? == x.head?))
            fails := ⟨"registered-iff", ft ++ (if missing then ",valid-table-missing" else "") ++
              (if extra then ",unexpected-table" else "") ++ (if !missing && !extra then ",wrong-table-for-signature" else "")⟩ :: fails
          if sortRecs (o.logs.filter (·.head? == some 0)) != sortRecs skip then
            fails := ⟨"skipped-logged-once", ft⟩ :: fails
          if o.res == 0 && sortRecs ((o.logs.filter (·.head? == some 1)).map fun l => (l.drop 1).take 3) != o.tabs then
            fails := ⟨"table-info-logged", ft⟩ :: fails
          tags := s!"skipped_{min skip.length 4}" :: s!"registered_{min reg.length 9}" :: tags
    return (fails.reverse, tags)

structure St where
  stats : Stats := {}
  caseId : String := ""

def processLine (st : St) (line : String) : IO St := do
  if line.startsWith "#" then return st
  match line.splitOn " | " with
  | [opS, obsS] =>
    let mut st := { st with stats := st.stats.bump "ops" }
    let short := (opS.take 60).toString
    match parseImage (toks opS) with
    | none =>
      IO.println s!"MISMATCH case={st.caseId} op={short} model=unparsable-op impl={obsS}"
      return { st with stats := st.stats.bump "mismatch" }
    | some img =>
      let mo := modelObs img
      let obsT := obsS.trimAscii.toString
      if mo ≠ obsT then
        IO.println s!"MISMATCH case={st.caseId} op={short} model={mo} impl={obsT}"
        st := { st with stats := st.stats.bump "mismatch" }
      match parseObs ((toks obsS).map nat!) with
      | none =>
        IO.println s!"PROPFAIL case={st.caseId} clause=observation-shape feature=- op={short} impl={obsT}"
        st := { st with stats := st.stats.bump "propfail" }
      | some o =>
        if (toks obsS).any (fun t => t.toNat?.isNone) then
          IO.println s!"PROPFAIL case={st.caseId} clause=observation-shape feature=- op={short} impl={obsT}"
          st := { st with stats := st.stats.bump "propfail" }
        let (fails, tags) := oracle img o
        for f in fails do
          IO.println s!"PROPFAIL case={st.caseId} clause={f.clause} feature={f.feature} op={short} impl={obsT}"
          st := { st with stats := st.stats.bump "propfail" }
        let mut s := st.stats
        for t in tags do s := s.bump t
        s := s.bump (if o.found == 1 then (if o.useX == 1 then "impl_found_xsdt" else "impl_found_rsdt") else "impl_missing")
        s := s.bump s!"res_{o.res}"
        s := s.bump s!"cands_{min img.cands.length 6}"
        s := s.bump s!"decoys_{min (img.cands.filter (·.kind != 0)).length 6}"
        for c in img.cands do s := s.bump s!"cand_kind_{c.kind}"
        if img.low == rsdpLocationLow && img.hi == rsdpLocationHi then s := s.bump "real_bios_window"
        st := { st with stats := s }
      return st
  | _ =>
    match toks line with
    | ["case", id] => return { st with caseId := id, stats := st.stats.bump "cases" }
    | [] => return st
    | _ => IO.println s!"MISMATCH case={st.caseId} unparsable line: {(line.take 80).toString}"; return st

def run (lines : Array String) : IO Unit := do
  let mut st : St := {}
  for l in lines do st ← processLine st l
  st.stats.print

end Firefly.Replay.C14
