import Firefly.Replay.Vmm
/-! Replay of C04 traces: model vs implementation, and the property oracle evaluated on the
implementation's observations (page-table memory as the hardware would walk it, flush list,
allocator calls, returned errors). -/
namespace Firefly.Replay.C04
open Firefly.Util Firefly.Replay.Vmm

def p36 (p : Nat) : Nat := p % 2 ^ 36
def inWindow (p : Nat) : Bool := pageIdx (p36 p) 0 = 511
def flagsOK (fl : Nat) : Bool := fl &&& physMaskN = 0
def mkEnt (f fl : Nat) : Nat := (f * 4096) ||| fl
def pageVA (p : Nat) : Nat := p * 4096 % 2 ^ 64
def tempPage : Nat := Firefly.Gen.C04.tempMappingAddr / 4096

/-- is `root` a table whose last entry maps itself (present, not huge)? -/
def recursiveOK (d : Dump) (root : Nat) : Bool :=
  let e := d.rd root 511
  entPresent e && !entHuge e && entFrame e = root

abbrev Fails := List (String × String)

def chk (ok : Bool) (clause feature : String) : Fails := if ok then [] else [(clause, feature)]

structure Ctx where
  pre : Obs
  post : Obs
  queue : List Nat      -- allocator script before the op
  base : Nat
  n : Nat

def Ctx.inArena (c : Ctx) (f : Nat) : Bool := c.base ≤ f && f < c.base + c.n

/-- frames consumed by the op (handed out dirty) now hold at most one entry: new levels start empty -/
def newLevelsEmpty (c : Ctx) : Bool :=
  (c.queue.take c.post.allocs).all fun f =>
    (match c.post.mem.frame f with | .sparse es => es.length ≤ 1 | _ => false)

/-- one page mapped in the address space rooted at `root`; `none` = outside the property's domain -/
def mapCheck (c : Ctx) (root p f fl : Nat) (feature : String) : Option Fails :=
  let q := p36 p
  if inWindow p || f ≥ 2 ^ 40 || !flagsOK fl || !recursiveOK c.pre.mem root || !c.inArena root then none else
  match leafOf c.pre.mem root q, leaves c.pre.mem root, leaves c.post.mem root with
  | .huge _, _, _ => none
  | lp, some a, some b =>
    let needed := match lp with | .absent k => 3 - k | _ => 0
    let zguard := c.pre.protect && f = c.pre.zeroFrame && (fl >>> 1) % 2 = 1
    if zguard then some (chk (c.post.code = 3 && a == b) "zero-frame-guard" feature) else
    some <|
      if c.post.code = 0 then
        chk (needed ≤ c.queue.length) "alloc-error-iff" feature ++
        chk (leafOf c.post.mem root q == .entry (mkEnt f fl)) "map-exact-entry" feature ++
        chk (b == lset a q (mkEnt f fl)) "others-unchanged" feature ++
        chk (c.post.flushes.contains (pageVA p)) "flush-changed-page" feature ++
        chk (c.post.allocs = needed) "alloc-count" feature ++
        chk (newLevelsEmpty c) "new-level-empty" feature
      else if c.post.code = 4 then
        chk (needed > c.queue.length) "alloc-error-iff" feature ++
        chk (a == b) "fail-no-translation-change" feature
      else [("unexpected-error", feature)]
  | _, _, _ => none

def unmapCheck (c : Ctx) (root p : Nat) (feature : String) : Option Fails :=
  let q := p36 p
  if inWindow p || !recursiveOK c.pre.mem root || !c.inArena root then none else
  match leafOf c.pre.mem root q, leaves c.pre.mem root, leaves c.post.mem root with
  | .huge _, _, _ => none
  | .absent _, some a, some b =>
    some (chk (c.post.code = 1) "unmap-error-iff" feature ++ chk (a == b) "fail-no-translation-change" feature)
  | .entry _, some a, some b =>
    some (chk (c.post.code = 0) "unmap-error-iff" feature ++
      chk (b == a.filter (·.1 ≠ q)) "unmapped-absent/others-unchanged" feature ++
      chk (c.post.flushes.contains (pageVA p)) "flush-changed-page" feature ++
      chk (c.post.allocs = 0) "alloc-count" feature)
  | _, _, _ => none

/-- an operation on an inactive address space leaves every table of the active one bit-identical -/
def activeIdentical (c : Ctx) : Bool :=
  let root := c.pre.cr3 / 4096
  c.post.cr3 = c.pre.cr3 &&
  (tableFrames c.pre.mem root).all fun t => c.pre.mem.frame t == c.post.mem.frame t

def ceilPages (size : Nat) : Nat := (size + 4095) / 4096

/-- a run of `n` pages `p0+i ↦ f0+i` -/
def regionCheck (c : Ctx) (p0 f0 n fl : Nat) (feature : String) : Option Fails :=
  let root := c.pre.cr3 / 4096
  if f0 + n > 2 ^ 40 || !flagsOK fl || !recursiveOK c.pre.mem root || inWindow p0 || inWindow (p0 + n) then none else
  match leaves c.pre.mem root, leaves c.post.mem root with
  | some a, some b =>
    let inRun (q : Nat) : Bool := (List.range n).any fun i => p36 (p0 + i) = q
    if c.post.code = 0 then
      let want := (List.range n).foldl (fun l i => lset l (p36 (p0 + i)) (mkEnt (f0 + i) fl)) a
      some (chk (b == want) "region-maps-exact-pages" feature ++
        chk ((List.range n).all fun i => c.post.flushes.contains (pageVA (p0 + i))) "flush-changed-page" feature)
    else if c.post.code = 4 then
      -- the allocator failed at some page: the address space is the old one with the requests before
      -- that page applied, and nothing else - in particular a page mapped earlier (inside or outside
      -- the run) and never unmapped still translates
      let prefixOK := (List.range (n + 1)).any fun k =>
        b == (List.range k).foldl (fun l i => lset l (p36 (p0 + i)) (mkEnt (f0 + i) fl)) a
      some (chk (a.filter (fun x => !inRun x.1) == b.filter (fun x => !inRun x.1)) "fail-no-other-change" feature ++
        chk prefixOK "fail-keeps-established-prefix" feature)
    else some (chk (a == b) "fail-no-translation-change" feature)
  | _, _ => none

def oracle (c : Ctx) (name : String) (op : List Nat) (pdts : Array Nat) : Option Fails :=
  let pre := c.pre; let post := c.post
  let root := pre.cr3 / 4096
  if post.aborted then none else
  match name, op with
  | "map", [p, f, fl] => mapCheck c root p f fl "active"
  | "mapflag", [p, f, i] =>
    -- the named flag must land on its architectural bit of the hardware entry
    mapCheck c root p f (1 ||| 2 ^ (archFlagBits.getD i 0)) s!"named-flag-{i}"
  | "maptmp", [f] =>
    if pre.protect && f = pre.zeroFrame then some (chk (post.code = 3 && pre.mem == post.mem) "zero-frame-guard" "temp")
    else (mapCheck c root tempPage f 3 "temp").map (· ++ chk (post.code ≠ 0 || post.val = tempPage) "temp-page" "temp")
  | "unmap", [p] => unmapCheck c root p "active"
  | "pmap", [k, p, f, fl] =>
    let pf := pdts.getD k 0
    if pf = root then mapCheck c root p f fl "pdt-active"
    else (mapCheck c pf p f fl "pdt-inactive").map (· ++ chk (activeIdentical c) "inactive-leaves-active-identical" "pdt-inactive")
  | "punmap", [k, p] =>
    let pf := pdts.getD k 0
    if pf = root then unmapCheck c root p "pdt-active"
    else if !recursiveOK pre.mem pf then none
    else (unmapCheck c pf p "pdt-inactive").map (· ++ chk (activeIdentical c) "inactive-leaves-active-identical" "pdt-inactive")
  | "xlate", [va] =>
    let pure := chk (pre.mem == post.mem && post.flushes.isEmpty && post.allocs = 0) "translate-pure" "xlate"
    match leafOf pre.mem root (p36 (va / 4096)) with
    | .huge _ => none
    | .absent _ => some (pure ++ chk (post.code = 1) "translate-unmapped" "xlate")
    | .entry e =>
      if entPresent e then some (pure ++ chk (post.code = 0 && post.val = entFrame e * 4096 + va % 4096) "translate-frame-plus-offset" "xlate")
      else some (pure ++ chk (post.code = 1) "translate-unmapped" "xlate")
  | "region", [f, size, fl] =>
    if size > 2 ^ 64 - 4096 then some (chk (post.code = 5 && pre.mem == post.mem) "region-no-space" "region") else
    let n := ceilPages size
    if post.code = 5 then some (chk (n * 4096 > pre.cursor && pre.mem == post.mem) "region-no-space" "region") else
    (regionCheck c (post.cursor / 4096) f n fl "region").map
      (· ++ chk (post.cursor + n * 4096 = pre.cursor && (post.code ≠ 0 || post.val = post.cursor / 4096)) "region-reserved-exact" "region")
  | "ident", [f, size, fl] =>
    if size > 2 ^ 64 - 4096 then none else
    (regionCheck c f f (ceilPages size) fl "ident").map (· ++ chk (post.code ≠ 0 || post.val = f) "ident-start" "ident")
  | "pinit", [_, f] =>
    if f * 4096 % 2 ^ 64 = pre.cr3 then some (chk (pre.mem == post.mem && post.code = 0) "init-active-noop" "pinit")
    else if !c.inArena f || !recursiveOK pre.mem root then none
    else match leaves pre.mem root, leaves post.mem root with
      | some a, some b =>
        if post.code = 0 then
          some (chk (post.mem.frame f == .sparse [(511, mkEnt f 3)]) "init-empty-recursive" "pinit" ++
            chk (b == a.filter (·.1 ≠ p36 tempPage)) "others-unchanged" "pinit")
        else some (chk (a == b) "fail-no-translation-change" "pinit")
      | _, _ => none
  | "act", [k] => some (chk (post.cr3 = pdts.getD k 0 * 4096 % 2 ^ 64 && pre.mem == post.mem) "activated" "act")
  | "init", _ => some []
  | "alloc", _ => some []
  | _, _ => none

structure CSt where
  r : RSt := {}
  stats : Stats := {}
  caseId : String := ""
  prev : Obs := {}
  queue : List Nat := []
  pdts : Array Nat := Array.replicate 4 0
  base : Nat := 0
  n : Nat := 0

def processLine (st : CSt) (line : String) : IO CSt := do
  match line.splitOn " | " with
  | [opS, obsS] =>
    let name := (toks opS).headD "?"
    let op := ((toks opS).drop 1).map nat!
    let mut st := { st with stats := st.stats.bump "ops" |>.bump s!"op_{name}" }
    if name = "memset" || name = "memcopy" then
      let (mm, pf) ← muLine st.caseId opS obsS name op
      return { st with stats := (st.stats.bump "mismatch" mm |>.bump "propfail" pf |>.bump "memutil_ops") }
    -- model vs implementation
    let (r, m) := modelStep st.r name op
    st := { st with r := r }
    if m.trimAscii.toString ≠ obsS.trimAscii.toString then
      IO.println s!"MISMATCH case={st.caseId} op={opS} model={m} impl={obsS}"
      st := { st with stats := st.stats.bump "mismatch" }
    -- oracle on the implementation's observation
    match parseObs obsS st.prev.mem with
    | none =>
      IO.println s!"MISMATCH case={st.caseId} unparsable observation: {line}"
      return st
    | some post =>
      if name = "init" then
        st := { st with base := op.getD 0 0, n := op.getD 1 0, pdts := Array.replicate 4 0, queue := [] }
      let c : Ctx := { pre := st.prev, post := post, queue := st.queue, base := st.base, n := st.n }
      match oracle c name op st.pdts with
      | none => st := { st with stats := st.stats.bump (if post.aborted then s!"abort_{post.code}" else "out_of_domain") }
      | some fails =>
        st := { st with stats := st.stats.bump "oracle_checked" }
        for (cl, ft) in fails do
          IO.println s!"PROPFAIL case={st.caseId} clause={cl} feature={ft} op={opS} impl={obsS}"
          st := { st with stats := st.stats.bump "propfail" }
      if !post.aborted then
        st := { st with stats := st.stats.bump s!"code_{post.code}" }
        if post.allocs > 0 then st := { st with stats := st.stats.bump s!"newlevels_{post.allocs}" }
      match name, op with
      | "pmap", k :: _ | "punmap", k :: _ =>
        if st.pdts.getD k 0 ≠ st.prev.cr3 / 4096 then st := { st with stats := st.stats.bump "inactive_ops" }
      | _, _ => pure ()
      let queue := match name with
        | "alloc" => op
        | _ => st.queue.drop post.allocs
      let pdts := match name, op with
        | "pinit", [k, f] => st.pdts.setIfInBounds k f
        | _, _ => st.pdts
      return { st with prev := if post.aborted then st.prev else post, queue := queue, pdts := pdts }
  | _ =>
    match toks line with
    | ["case", id] => return { st with caseId := id, stats := st.stats.bump "cases" }
    | [] => return st
    | _ => IO.println s!"MISMATCH case={st.caseId} unparsable line: {line}"; return st

def run (lines : Array String) : IO Unit := do
  let mut st : CSt := {}
  for l in lines do st ← processLine st l
  st.stats.print

end Firefly.Replay.C04
