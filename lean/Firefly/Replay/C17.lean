import Firefly.Util
import Firefly.Model.Vt
import Firefly.Spec.Term
/-!
Replay of C17 traces.  Line protocol (harness/tty/c17_test.go):

    case <id>
    N <full> <tab> <sb>            | obs     NewVT(tab, sb)
    A <full> <w> <h> <fg> <bg>     | obs     AttachTo(mock console w×h, default colours fg/bg)
    W <full> <hex bytes>           | obs     Write(bytes)
    P <full> <x> <y>               | obs     SetCursorPosition(x, y)
    S <full> <0|1>                 | obs     SetState(Inactive|Active)

    obs = panic | ok <n> <err> <cx> <cy> <vy> <active> <ncalls> <callhash> <len> <datahash> <hex|->

`n err` = return values of Write (0 0 for other ops); `ncalls callhash` = console calls made by this
op; `len datahash` = length and hash of the whole data buffer; the buffer itself in hex when
`full = 1`.  (1) model observation vs implementation, textually; (2) the oracle: the
implementation's dumped state against the reference terminal run on the same history.
-/
namespace Firefly.Replay.C17
open Firefly.Util Firefly.Vt Firefly.Term

def mix (h : UInt64) (v : Nat) : UInt64 := (h ^^^ UInt64.ofNat v) * 0x100000001b3
def hash0 : UInt64 := 0xcbf29ce484222325

def hashBytes (d : Array UInt8) : UInt64 := d.foldl (fun h b => mix h b.toNat) hash0

def hashCall (h : UInt64) : Call → UInt64
  | .write ch fg bg x y => [1, ch.toNat, fg.toNat, bg.toNat, x, y].foldl mix h
  | .scroll dir n => [2, dir, n].foldl mix h
  | .fill x y w hh fg bg => [3, x, y, w, hh, fg.toNat, bg.toNat].foldl mix h

/-- hash of a call log kept newest-first -/
def hashCalls (log : List Call) : UInt64 := log.reverse.foldl hashCall hash0

def hexOfArray (d : Array UInt8) : String :=
  if d.isEmpty then "-" else
  String.ofList (d.foldr (fun b acc => hexNib (b.toNat / 16) :: hexNib (b.toNat % 16) :: acc) [])

def bytesOfHex (s : String) : Array UInt8 := (hexBytes s).toArray

def b2n (b : Bool) : Nat := if b then 1 else 0

def obsOf (full : Bool) (n err : Nat) (t : VT) : String :=
  s!"ok {n} {err} {t.cursorX} {t.cursorY} {t.viewportY} {b2n t.active} {t.out.length} {(hashCalls t.out).toNat} {t.data.size} {(hashBytes t.data).toNat} {if full then hexOfArray t.data else "-"}"

/-- flatten the reference grid into the byte layout of `VT.data` -/
def flatten (g : Grid) : Array UInt8 :=
  g.foldl (fun acc line => line.foldl (fun acc c => acc.push c.ch |>.push c.fg |>.push c.bg) acc) #[]

structure St where
  stats : Stats := {}
  caseId : String := ""
  /-- model state; `none` after a panic (the case ends there) -/
  vt : Option VT := none
  /-- reference terminal, from the `A` op on -/
  ref : Option Term := none
  /-- the theorems' domain: w,h ≥ 1 and no 32-bit overflow of the buffer size -/
  inDomain : Bool := false
  tab : Nat := 0
  sb : Nat := 0
  nontrivial : Bool := false

/-- classify the bytes of a write against the reference (branch counters) and run it -/
def refWrite (t : Term) (bs : List UInt8) (stats : Stats) : Term × Stats := Id.run do
  let mut t := t
  let mut cr := 0; let mut lfN := 0; let mut bs0 := 0; let mut bs1 := 0; let mut tab := 0
  let mut wrap := 0; let mut adv := 0; let mut scr := 0; let mut plain := 0
  for b in bs do
    let lastLine := t.cy == t.h
    let willLf := b == 10 || (b != 13 && b != 8 && b != 9 && t.cx == t.w)
    if willLf && lastLine && t.vy == t.sb then scr := scr + 1
    if willLf && lastLine && t.vy != t.sb then adv := adv + 1
    if b == 13 then cr := cr + 1
    else if b == 10 then lfN := lfN + 1
    else if b == 8 && t.cx > 1 then bs1 := bs1 + 1
    else if b == 8 then bs0 := bs0 + 1
    else if b == 9 then tab := tab + 1
    else if t.cx == t.w then wrap := wrap + 1
    else plain := plain + 1
    t := t.byte b
  let stats := stats.bump "byte_cr" cr |>.bump "byte_lf" lfN |>.bump "byte_bs_col1" bs0
    |>.bump "byte_bs" bs1 |>.bump "byte_tab" tab |>.bump "byte_wrap" wrap |>.bump "byte_plain" plain
    |>.bump "viewport_advance" adv |>.bump "buffer_scroll" scr
  return (t, stats)

def geomStats (stats : Stats) (w h sb tab : Nat) : Stats :=
  let s := stats
  let s := if w = 1 then s.bump "geom_w1" else s
  let s := if h = 1 then s.bump "geom_h1" else s
  let s := if w = 1 ∧ h = 1 then s.bump "geom_1x1" else s
  let s := if sb = 0 then s.bump "geom_sb0" else s
  let s := if tab = 0 then s.bump "geom_tab0" else s
  let s := if w * h ≥ 1000 then s.bump "geom_big" else s
  s

def processLine (st : St) (line : String) : IO St := do
  match line.splitOn " | " with
  | [opS, obsS] =>
    let op := toks opS
    let obs := toks obsS
    let mut st := { st with stats := st.stats.bump "ops" |>.bump s!"op_{op.headD "?"}" }
    let full := op.getD 1 "0" = "1"
    -- (1) model
    let (res, n, err) : Res × Nat × Nat :=
      match st.vt, op with
      | _, ["N", _, tab, sb] => (.ok (newVT (nat! tab) (nat! sb)), 0, 0)
      | some t, ["A", _, w, h, fg, bg] =>
        (attachTo { t with out := [] } (nat! w) (nat! h) (UInt8.ofNat (nat! fg)) (UInt8.ofNat (nat! bg)), 0, 0)
      | some t, ["W", _, hex] =>
        let bs := hexBytes hex
        if !t.attached && !bs.isEmpty then (.ok { t with out := [] }, 0, 1)
        else (write { t with out := [] } bs, bs.length, 0)
      | some t, ["P", _, x, y] => (.ok (setCursorPosition { t with out := [] } (nat! x) (nat! y)), 0, 0)
      | some t, ["S", _, a] => (setState { t with out := [] } (a = "1"), 0, 0)
      | _, _ => (.panic, 0, 0)
    let m := match res with
      | .ok t => obsOf full n err t
      | .panic => "panic"
    if m ≠ obsS.trimAscii.toString then
      let short (s : String) := if s.length > 300 then (s.take 300).toString ++ "…" else s
      IO.println s!"MISMATCH case={st.caseId} op={short opS} model={short m} impl={short obsS}"
      st := { st with stats := st.stats.bump "mismatch" }
    st := { st with vt := match res with | .ok t => some t | .panic => none }
    -- (2) reference terminal and oracle on the implementation's observation
    match op with
    | ["N", _, tab, sb] => st := { st with tab := nat! tab, sb := nat! sb, ref := none, inDomain := false }
    | ["A", _, w, h, fg, bg] =>
      let w := nat! w; let h := nat! h
      let dom := w ≥ 1 ∧ h ≥ 1 ∧ w * (h + st.sb) * 3 < 4294967296
      st := { st with ref := if dom then some (Term.new w h st.sb st.tab (UInt8.ofNat (nat! fg)) (UInt8.ofNat (nat! bg))) else none,
                      inDomain := dom, stats := geomStats st.stats w h st.sb st.tab }
      if !dom then st := { st with stats := st.stats.bump "outside_domain" }
    | ["W", _, hex] =>
      if let some r := st.ref then
        let bs := hexBytes hex
        let (r', stats) := refWrite r bs st.stats
        st := { st with ref := some r', stats := stats.bump "bytes" bs.length,
                        nontrivial := st.nontrivial || bs.length > 0 }
    | ["P", _, x, y] =>
      if let some r := st.ref then st := { st with ref := some (r.setCursor (nat! x) (nat! y)) }
    | _ => pure ()
    if st.inDomain then
      if let some r := st.ref then
        let fails : List String :=
          match obs with
          | ["panic"] => ["in-bounds"]
          | ["ok", _, _, cx, cy, vy, _, _, _, len, hash, hex] =>
            if hex ≠ "-" ∨ nat! len = 0 then
              Term.oracle r (nat! cx) (nat! cy) (nat! vy) (bytesOfHex hex)
            else
              -- hash-only dump: same clauses, contents compared by hash of the reference grid
              let flat := flatten r.grid
              (if nat! len ≠ flat.size then ["buffer-size"] else []) ++
              (if (nat! cx, nat! cy) ≠ (r.cx, r.cy) then ["cursor"] else []) ++
              (if nat! vy ≠ r.vy then ["viewport"] else []) ++
              (if nat! hash ≠ (hashBytes flat).toNat then ["contents"] else []) ++
              (if ¬ (1 ≤ nat! cx ∧ nat! cx ≤ r.w ∧ 1 ≤ nat! cy ∧ nat! cy ≤ r.h ∧ nat! vy + r.h ≤ r.h + r.sb)
                then ["cursor-in-viewport"] else [])
          | _ => ["bad-line"]
        for cl in fails do
          let short (s : String) := if s.length > 300 then (s.take 300).toString ++ "…" else s
          IO.println s!"PROPFAIL case={st.caseId} clause={cl} feature=w{r.w}h{r.h}sb{r.sb}tab{r.tab} op={short opS} impl={short obsS}"
          st := { st with stats := st.stats.bump "propfail" }
        if full then st := { st with stats := st.stats.bump "full_dumps" }
    if obs = ["panic"] then st := { st with stats := st.stats.bump "impl_panics" }
    return st
  | _ =>
    match toks line with
    | ["case", id] =>
      return { st with caseId := id, vt := none, ref := none, inDomain := false, stats := st.stats.bump "cases" }
    | [] => return st
    | _ => IO.println s!"MISMATCH case={st.caseId} unparsable line: {line}"; return st

def run (lines : Array String) : IO Unit := do
  let mut st : St := {}
  for l in lines do st ← processLine st l
  st.stats.print

end Firefly.Replay.C17
