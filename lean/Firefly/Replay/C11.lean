import Firefly.Replay.AmlCommon
import Firefly.Model.AmlProg
/-! Replay of C11 traces: AST → `encode` (cross-checked against the Go encoder), the parser model
against the real parser on the encoded tables, and the property oracle
`nsOf (tree of the real parser) = namespaceOf (program)`. -/
namespace Firefly.Replay.C11
open Firefly.Util Firefly.AmlLex Firefly.AmlParser Firefly.Replay.Aml Firefly.AmlProg
open Firefly.AmlTree (ObjectTree)

/-! ## s-expression reader (twin of the `sx()` printers of c11_test.go) -/

def pName (tok : String) : NameP :=
  match (tok.drop 1).toString.splitOn ":" with
  | [rc, segs] =>
    let cs := rc.toList
    { root := cs.headD '0' = '1', carets := (String.ofList (cs.drop 1)).toNat?.getD 0,
      segs := if segs = "" then [] else segs.splitOn "." }
  | _ => {}

def pInt (tok : String) : Nat × Nat :=
  match (tok.drop 1).toString.splitOn ":" with
  | [w, v] => (nat! w, nat! v)
  | _ => (0, 0)

partial def pDatas : List String → List Data × List String
  | ")" :: rest => ([], rest)
  | "(" :: "p" :: w :: rest =>
    let (elems, rest) := pDatas rest
    let (more, rest) := pDatas rest
    (.pkg (nat! w) elems :: more, rest)
  | tok :: rest =>
    let d : Data :=
      if tok.front = 'i' then let (w, v) := pInt tok; .int w v
      else if tok.front = 's' then .str (hexBytes (tok.drop 1).toString)
      else match (tok.drop 1).toString.splitOn ":" with
        | [w, size, hex] => .buf (nat! w) (nat! size) (hexBytes hex)
        | _ => .int 0 0
    let (more, rest) := pDatas rest
    (d :: more, rest)
  | [] => ([], [])

partial def pTerms : List String → List Term × List String
  | ")" :: rest => ([], rest)
  | "(" :: "call" :: n :: rest =>
    let (args, rest) := pTerms rest
    let (more, rest) := pTerms rest
    (.call (pName n) args :: more, rest)
  | "(" :: "add" :: rest =>
    let (ab, rest) := pTermsUntilT rest
    let (more, rest) := pTerms rest
    (ab :: more, rest)
  | tok :: rest =>
    if tok.front = 'L' ∧ false then ([], rest) else
    let t : Term :=
      if tok.front = 'i' then let (w, v) := pInt tok; .int w v
      else if tok.front = 'L' then .loc (nat! (tok.drop 1).toString)
      else .arg (nat! (tok.drop 1).toString)
    let (more, rest) := pTerms rest
    (t :: more, rest)
  | [] => ([], [])
where
  /-- `a b T<n|-> )` of an add -/
  pTermsUntilT (toks : List String) : Term × List String :=
    -- read exactly two terms, then the target token and the closing paren
    let (a, rest) := one toks
    let (b, rest) := one rest
    match rest with
    | t :: ")" :: rest =>
      let tgt := if t = "T-" then none else some (nat! (t.drop 1).toString)
      (.add a b tgt, rest)
    | _ => (.add a b none, rest)
  one (toks : List String) : Term × List String :=
    match toks with
    | "(" :: "call" :: n :: rest =>
      let (args, rest) := pTerms rest
      (.call (pName n) args, rest)
    | "(" :: "add" :: rest => pTermsUntilT rest
    | tok :: rest =>
      (if tok.front = 'i' then let (w, v) := pInt tok; .int w v
       else if tok.front = 'L' then .loc (nat! (tok.drop 1).toString)
       else .arg (nat! (tok.drop 1).toString), rest)
    | [] => (.int 0 0, [])

partial def pStmts : List String → List Stmt × List String
  | ")" :: rest => ([], rest)
  | "noop" :: rest => let (more, rest) := pStmts rest; (.noop :: more, rest)
  | "(" :: "store" :: rest =>
    let (ts, rest) := pTerms rest  -- reads the term and the L<n> (as a loc term) up to ")"
    let s : Stmt := match ts with
      | [t, .loc l] => .store t l
      | _ => .noop
    let (more, rest) := pStmts rest
    (s :: more, rest)
  | "(" :: "ret" :: rest =>
    let (ts, rest) := pTerms rest
    let (more, rest) := pStmts rest
    (.ret (ts.headD (.int 0 0)) :: more, rest)
  | "(" :: "call" :: n :: rest =>
    let (args, rest) := pTerms rest
    let (more, rest) := pStmts rest
    (.call (pName n) args :: more, rest)
  | "(" :: "if" :: w :: rest =>
    let (p, rest) := pTerms.one rest
    let (body, rest) := pStmts rest
    let (more, rest) := pStmts rest
    (.ifs (nat! w) p body :: more, rest)
  | "(" :: "while" :: w :: rest =>
    let (p, rest) := pTerms.one rest
    let (body, rest) := pStmts rest
    let (more, rest) := pStmts rest
    (.whiles (nat! w) p body :: more, rest)
  | _ :: rest => pStmts rest
  | [] => ([], [])

def pUnits : List String → List FieldU × List String
  | ")" :: rest => ([], rest)
  | tok :: rest =>
    let body := (tok.drop 1).toString.splitOn ":"
    let u : FieldU :=
      if tok.front = 'u' then match body with
        | [name, w, bits] => .named name (nat! w) (nat! bits)
        | _ => .access 0 0
      else if tok.front = 'r' then match body with
        | [w, bits] => .reserved (nat! w) (nat! bits)
        | _ => .access 0 0
      else if tok.front = 'x' then match body with
        | [ty, attr, len] => .xaccess (nat! ty) (nat! attr) (nat! len)
        | _ => .access 0 0
      else if tok.front = 'c' then .connName (tok.drop 1).toString
      else if tok.front = 'b' then match body with
        | [w, hex] => .connBuf (nat! w) (hexBytes hex)
        | [w] => .connBuf (nat! w) []
        | _ => .access 0 0
      else match body with
        | [ty, attr] => .access (nat! ty) (nat! attr)
        | _ => .access 0 0
    let (more, rest) := pUnits rest
    (u :: more, rest)
  | [] => ([], [])

partial def pObjs : List String → List Obj × List String
  | ")" :: rest => ([], rest)
  | "(" :: "name" :: n :: rest =>
    let (ds, rest) := pDatas rest
    let (more, rest) := pObjs rest
    (.name (pName n) (ds.headD (.int 0 0)) :: more, rest)
  | "(" :: "scope" :: w :: n :: rest =>
    let (body, rest) := pObjs rest
    let (more, rest) := pObjs rest
    (.scope (nat! w) (pName n) body :: more, rest)
  | "(" :: "device" :: w :: n :: rest =>
    let (body, rest) := pObjs rest
    let (more, rest) := pObjs rest
    (.device (nat! w) (pName n) body :: more, rest)
  | "(" :: "thermal" :: w :: n :: rest =>
    let (body, rest) := pObjs rest
    let (more, rest) := pObjs rest
    (.thermal (nat! w) (pName n) body :: more, rest)
  | "(" :: "method" :: w :: n :: flags :: rest =>
    let (body, rest) := pStmts rest
    let (more, rest) := pObjs rest
    (.method (nat! w) (pName n) (nat! flags) body :: more, rest)
  | "(" :: "region" :: n :: space :: rest =>
    let (ts, rest) := pTerms rest
    let (more, rest) := pObjs rest
    (.region (pName n) (nat! space) (ts.headD (.int 0 0)) ((ts.drop 1).headD (.int 0 0)) :: more, rest)
  | "(" :: "field" :: w :: n :: flags :: rest =>
    let (us, rest) := pUnits rest
    let (more, rest) := pObjs rest
    (.field (nat! w) (pName n) (nat! flags) us :: more, rest)
  | "(" :: "ifield" :: w :: n1 :: n2 :: flags :: rest =>
    let (us, rest) := pUnits rest
    let (more, rest) := pObjs rest
    (.indexField (nat! w) (pName n1) (pName n2) (nat! flags) us :: more, rest)
  | "(" :: "bfield" :: w :: n1 :: n2 :: v :: flags :: rest =>
    let (us, rest) := pUnits rest
    let (more, rest) := pObjs rest
    let (vw, vv) := pInt v
    (.bankField (nat! w) (pName n1) (pName n2) (.int vw vv) (nat! flags) us :: more, rest)
  | "(" :: "mutex" :: n :: sync :: ")" :: rest =>
    let (more, rest) := pObjs rest
    (.mutex (pName n) (nat! sync) :: more, rest)
  | "(" :: "event" :: n :: ")" :: rest =>
    let (more, rest) := pObjs rest
    (.event (pName n) :: more, rest)
  | "(" :: "proc" :: w :: n :: id :: addr :: len :: rest =>
    let (body, rest) := pObjs rest
    let (more, rest) := pObjs rest
    (.processor (nat! w) (pName n) (nat! id) (nat! addr) (nat! len) body :: more, rest)
  | "(" :: "power" :: w :: n :: lvl :: order :: rest =>
    let (body, rest) := pObjs rest
    let (more, rest) := pObjs rest
    (.powerres (nat! w) (pName n) (nat! lvl) (nat! order) body :: more, rest)
  | "(" :: "call" :: n :: rest =>
    let (args, rest) := pTerms rest
    let (more, rest) := pObjs rest
    (.call (pName n) args :: more, rest)
  | _ :: rest => pObjs rest
  | [] => ([], [])

/-! ## replay -/

structure St where
  stats : Stats := {}
  caseId : String := ""
  feats : List String := []
  tree : Option ObjectTree := none
  tlens : Array Nat := #[]
  tables : Array (Array UInt8) := #[]
  progs : List (List Obj) := []

/-- the structural feature a failing clause is attributed to (known findings are keyed on
clause + feature): the first of the clause's candidate features that the case exhibits -/
def featureOf (clause : String) (feats : List String) : String :=
  let cands :=
    if clause = "parse-ok" then ["path-descends-through-scoped-object", "if-empty-body", "deferred-nested-block", "name-caret",
      "scope-search-shadowed-later"]
    else if clause = "named-object-path" then ["name-caret", "path-descends-through-scoped-object", "scope-search-shadowed-later"]
    else if clause = "call-arity" then ["call-arg-expression", "deferred-nested-block", "name-caret", "scope-search-shadowed-later"]
    else []
  (cands.find? feats.contains).getD "-"

def sortNs (l : List (Path × String)) : List String :=
  ((l.map fun (p, d) => s!"{".".intercalate p}={d}").toArray.qsort (· < ·)).toList

def sortCalls (l : List (Path × Nat)) : List String :=
  ((l.map fun (p, k) => s!"{".".intercalate p}/{k}").toArray.qsort (· < ·)).toList

/-- first element of `a` that is not in `b` (as multisets, both sorted) -/
def firstDiff : List String → List String → Option String
  | [], [] => none
  | x :: _, [] => some s!"unexpected:{x}"
  | [], y :: _ => some s!"missing:{y}"
  | x :: xs, y :: ys => if x = y then firstDiff xs ys else if x < y then some s!"unexpected:{x}" else some s!"missing:{y}"

def processLine (st : St) (line : String) : IO St := do
  match line.splitOn " | " with
  | [opS, obsS] =>
    match toks opS with
    | "T" :: handle :: hex :: sx =>
      let handle := nat! handle
      let (objs, _) := pObjs (sx ++ [")"])
      let payload := hexArr hex
      let mut st := { st with stats := st.stats.bump "ops" }
      -- 1. encoder twins
      if (encode objs).toArray ≠ payload then
        IO.println s!"MISMATCH case={st.caseId} op=encode model={bytesHex (encode objs)} impl={hex}"
        st := { st with stats := st.stats.bump "mismatch" }
      -- 2. model vs implementation on the tree
      let d := mkTable payload
      let tlens := st.tlens.push d.size
      let tables := st.tables.push d
      let progs := st.progs ++ [objs]
      let obs := toks obsS
      let implOutcome := obs.headD "?"
      st := { st with stats := st.stats.bump s!"outcome_{implOutcome}" }
      let (m, t') := match st.tree with
        | none => ("model-dead", none)
        | some t =>
          match parseAML d (fuelFor d t) handle { tree := t } with
          | .ok (ok, s) => (observation s.tree (if ok then "ok" else "err") handle tlens 1073741824 ++ s!" #passes={s.resolvePasses}", some s.tree)
          | .error .panic => ("panic", none)
          | .error .outOfFuel => ("outOfFuel", none)
      let passes := ((m.splitOn " #passes=").getD 1 "?")
      let m := (m.splitOn " #passes=").headD m
      st := { st with stats := st.stats.bump s!"resolve_passes_{passes}" }
      if passes = "4" ∨ passes = "5" then IO.println s!"INFO case={st.caseId} table={handle} resolve_passes={passes} outcome={implOutcome}"
      let same := if m = "panic" ∨ m = "outOfFuel" ∨ m = "model-dead" then m = implOutcome else m = obsS.trimAscii.toString
      if !same then
        IO.println s!"MISMATCH case={st.caseId} op=T {handle} {hex} model={(m.take 200).toString} impl={(obsS.take 200).toString}"
        st := { st with stats := st.stats.bump "mismatch" }
      -- 3. the property oracle on the implementation's tree
      let want := namespaceOf progs
      let fail (clause detail : String) : IO Unit :=
        IO.println s!"PROPFAIL case={st.caseId} clause={clause} feature={featureOf clause st.feats} op=T {handle} {(hex.take 300).toString} detail={detail} impl={(obsS.take 100).toString}"
      if !want.errors.isEmpty then
        IO.println s!"MISMATCH case={st.caseId} op=generator-ill-scoped model={want.errors} impl=-"
        st := { st with stats := st.stats.bump "mismatch" }
      else if implOutcome ≠ "ok" then
        fail "parse-ok" implOutcome
        st := { st with stats := st.stats.bump "propfail" }
      else
        match obs with
        | _ :: _ :: pool :: free :: _ :: _ :: _ :: _ :: rows =>
          if rows.length ≠ nat! pool then
            IO.println s!"MISMATCH case={st.caseId} op=rows-missing model=- impl={pool}"
          else
            let parsed := rows.toArray.mapIdx fun j r => (parseRow j d.size st.tlens r).1
            let t : ObjectTree := { pool := parsed, freeListHeadIndex := parseIdx free }
            let got := nsOf t tables
            match firstDiff (sortNs got.objs) (sortNs want.objs) with
            | some dif =>
              fail "named-object-path" dif; st := { st with stats := st.stats.bump "propfail" }
              if (← IO.getEnv "VERIF_DEBUG").isSome then
                IO.println s!"DEBUG got={sortNs got.objs}"
                IO.println s!"DEBUG want={sortNs want.objs}"
            | none => pure ()
            match firstDiff (sortCalls got.calls) (sortCalls want.calls) with
            | some dif =>
              fail "call-arity" dif; st := { st with stats := st.stats.bump "propfail" }
              if (← IO.getEnv "VERIF_DEBUG").isSome then
                IO.println s!"DEBUG got={sortCalls got.calls}"
                IO.println s!"DEBUG want={sortCalls want.calls}"
            | none => pure ()
            if unresolvedWalk t (t.pool.size + 1) 0 ≠ 0 then
              fail "call-arity" "unresolved-name-or-call"; st := { st with stats := st.stats.bump "propfail" }
            st := { st with stats := st.stats.bump "objects" want.objs.length |>.bump "calls" want.calls.length }
        | _ => fail "parse-ok" "bad-line"
      for f in st.feats do
        if handle = 1 then st := { st with stats := st.stats.bump s!"feat_{f}" }
      return { st with tree := t', tlens := tlens, tables := tables, progs := progs }
    | _ => IO.println s!"MISMATCH case={st.caseId} unparsable op: {opS.take 100}"; return st
  | _ =>
    match toks line with
    | ["case", id, feats] =>
      let t := match defaultTree 0 with | .ok t => some t | .error _ => none
      return { st with caseId := id, feats := if feats = "-" then [] else feats.splitOn ",", tree := t, tlens := #[],
                       tables := #[], progs := [], stats := st.stats.bump "cases" }
    | [] => return st
    | _ => IO.println s!"MISMATCH case={st.caseId} unparsable line: {line.take 100}"; return st

def run (lines : Array String) : IO Unit := do
  let mut st : St := {}
  for l in lines do st ← processLine st l
  st.stats.print

end Firefly.Replay.C11
