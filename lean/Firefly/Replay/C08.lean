import Std.Data.HashMap
import Firefly.Util
import Firefly.Model.Spin
/-! Replay of C08 traces (model vs implementation + property oracle on the implementation's
observations) and the targeted search: a breadth-first exploration of the *regenerated* model with
2–3 threads that prints a violating schedule.  The search exists to find a replay when a proof
breaks; it is never the reason the property is claimed.  Core Lean only. -/
namespace Firefly.Replay.C08
open Firefly.Util Firefly.Spin Firefly.Gen.C08

def lockAddr : Nat := 4096
def yieldAddr : Nat := 8192
def junk : Choice := .havoc 57005 57005 57005 57005 false

/-- does the thread stand in front of a `CALL`? -/
def atCall (t : Thread) : Bool :=
  match t.ph with
  | .asm _ _ pc => match acquireAsm[pc]? with
    | some (.call _) => true
    | _ => false
  | _ => false

/-- run a Go body to completion on the shared state (nobody else moves) -/
def runAlone (cfg : Config) : Nat → Shared → Thread → Option (Shared × Thread)
  | 0, _, _ => none
  | fuel + 1, sh, t =>
    if t.ph = .idle then some (sh, t) else
    match tstep cfg sh t junk with
    | none => none
    | some (sh', t') => runAlone cfg fuel sh' t'

/-- the other party's `Release()` (yield hook / second goroutine) -/
def releaser (cfg : Config) (sh : Shared) : Shared :=
  match runAlone cfg 64 sh { ph := .go .release 0 } with
  | some (sh', _) => sh'
  | none => sh

inductive Outcome where
  | done (sh : Shared) (t : Thread) (yields : Nat)
  | hang
  | fault

/-- run thread `t` until it is idle again; after its `k`-th executed CALL the other party releases
the lock. -/
def runYield (cfg : Config) (k : Nat) : Nat → Shared → Thread → Nat → Outcome
  | 0, _, _, _ => .hang
  | fuel + 1, sh, t, y =>
    if t.ph = .idle then .done sh t y else
    let calling := atCall t
    match tstep cfg sh t junk with
    | none => .fault
    | some (sh', t') =>
      if t'.ph = .fault then .fault else
      if calling then
        let y' := y + 1
        runYield cfg k fuel (if y' = k then releaser cfg sh' else sh') t' y'
      else runYield cfg k fuel sh' t' y

structure Sim where
  sh : Shared := {}
  t : Thread := {}

def cfgYield : Config := { lockAddr := lockAddr, yieldFn := yieldAddr }
def cfgNil : Config := { lockAddr := lockAddr, yieldFn := 0 }

/-- model observation for one op line; also returns the new simulation state -/
def modelObs (sim : Sim) : List String → String × Sim
  | ["T"] =>
    match runAlone cfgYield 64 sim.sh { sim.t with ph := .go .try_ 0 } with
    | some (sh, t) => (s!"{if t.ret = some true then 1 else 0} {sh.lock}", { sh := sh, t := t })
    | none => ("stuck", sim)
  | ["R"] =>
    match runAlone cfgYield 64 sim.sh { sim.t with ph := .go .release 0, held := false } with
    | some (sh, t) => (s!"{sh.lock}", { sh := sh, t := t })
    | none => ("stuck", sim)
  | ["A", k] =>
    match runYield cfgYield (nat! k) 400000 sim.sh { sim.t with ph := .go .acquire 0 } 0 with
    | .done sh t y => (s!"{y} {sh.lock}", { sh := sh, t := t })
    | .hang => ("hang 1", sim)
    | .fault => ("panic", {})
  | ["AX", k, a] =>
    match runYield cfgYield (nat! k) 400000 sim.sh { sim.t with ph := .asm .acquire 0 0, att := nat! a } 0 with
    | .done sh t y => (s!"{y} {sh.lock}", { sh := sh, t := t })
    | .hang => ("hang 1", sim)
    | .fault => ("panic", {})
  | ["AN"] =>
    -- first Acquire on the free lock; second Acquire spins (yieldFn = nil) until the other
    -- goroutine releases, here after 500 steps of spinning
    match runAlone cfgNil 64 sim.sh { sim.t with ph := .go .acquire 0, held := false } with
    | none => ("stuck", sim)
    | some (sh1, t1) =>
      let rec spin : Nat → Shared → Thread → Option (Shared × Thread)
        | 0, sh, t => some (sh, t)
        | n + 1, sh, t => match tstep cfgNil sh t junk with
          | some (sh', t') => if t'.ph = .idle ∨ t'.ph = .fault then none else spin n sh' t'
          | none => none
      match spin 500 sh1 { t1 with ph := .go .acquire 0, held := false } with
      | none => ("no-spin", sim)
      | some (sh2, t2) =>
        match runAlone cfgNil 64 (releaser cfgNil sh2) t2 with
        | some (sh3, t3) => (s!"{sh3.lock}", { sh := sh3, t := t3 })
        | none => ("stuck", sim)
  | "S" :: _ => ("0 0 0 0", sim)
  | "CL" :: _ => ("0 0 0", sim)
  | "H" :: _ => ("ok", sim)
  | _ => ("bad-op", sim)

/-- property oracle on the implementation's observation. `w` = lock word before the op (as the
implementation reported it). Returns failing clauses and the lock word after. -/
def oracle (w : Nat) (op obs : List String) : List String × Nat :=
  match op, obs with
  | _, ["panic"] => (["no-crash"], 0)
  | ["T"], [r, w'] =>
    ((if (r = "1") ≠ (w = 0) then ["try-exact"] else []) ++
     (if w' ≠ "1" then ["try-word"] else []), nat! w')
  | ["R"], [w'] => (if w' ≠ "0" then ["release-frees"] else [], nat! w')
  | "A" :: k :: _, [y, w'] | "AX" :: k :: _, [y, w'] =>
    if y = "hang" then (["deadlock"], nat! w') else
    ((if w = 0 ∧ y ≠ "0" then ["acquire-free-immediate"] else []) ++
     (if w ≠ 0 ∧ (nat! k = 0 ∨ nat! y < nat! k) then ["acquire-only-when-free"] else []) ++
     (if w' ≠ "1" then ["acquire-word"] else []), nat! w')
  | ["AN"], [w'] => (if w' ≠ "1" then ["acquire-word"] else [], nat! w')
  | "S" :: _, [v, lost, word, hang] =>
    ((if v ≠ "0" then ["mutex"] else []) ++ (if lost ≠ "0" then ["handover"] else []) ++
     (if word ≠ "0" then ["release-frees"] else []) ++
     (if hang = "1" then ["deadlock"] else if hang ≠ "0" then ["no-crash"] else []), 0)
  | "CL" :: _, [dups, lost, stuck] =>
    -- the lock's real clients (AllocFrame/FreeFrame) under concurrency
    ((if dups ≠ "0" then ["client-mutual-exclusion"] else []) ++ (if lost ≠ "0" then ["client-accounting"] else []) ++
     (if stuck = "1" then ["client-deadlock"] else if stuck ≠ "0" then ["no-crash"] else []), 0)
  | "H" :: _, _ => (["deadlock"], w)
  | _, _ => (["bad-line"], w)

/-! ## Targeted search: breadth-first exploration of the regenerated model -/

def moves (t : Thread) : List Choice :=
  match t.ph with
  | .idle => if t.held then [.callTry, .callRelease] else [.callAcquire, .callTry]
  | .fault => []
  | _ => [junk]

/-- the same move as a Lean term, so that a printed schedule can be re-checked by the kernel:
`example : ((runSched cfg (init n) sched).any fun s => (s.threads.filter (·.held)).length > 1) = true := by decide` -/
def leanMove (i : Nat) (ch : Choice) : String :=
  let c := match ch with
    | .callAcquire => ".callAcquire" | .callTry => ".callTry" | .callRelease => ".callRelease"
    | .csRead => ".csRead" | .csWrite => ".csWrite" | .run => ".run"
    | .havoc a b c d z => s!".havoc {a} {b} {c} {d} {z}"
  s!"({i}, {c})"

def showMove (s : State) (i : Nat) (ch : Choice) : String :=
  let what := match ch with
    | .callAcquire => "Acquire()" | .callTry => "TryToAcquire()" | .callRelease => "Release()"
    | .csRead => "csRead" | .csWrite => "csWrite"
    | _ => match (s.threads[i]?.getD {}).ph with
      | .go m pc => s!"{match m with | .acquire => "Acquire" | .try_ => "TryToAcquire" | .release => "Release"}.go[{pc}]"
      | .asm _ _ pc => s!"asm[{pc}]"
      | _ => "?"
  s!"t{i}:{what}|{leanMove i ch}"

/-- violated clause of a model state, if any -/
def badState (s : State) : Option String :=
  let holders := (s.threads.filter (·.held)).length
  if holders > 1 then some "mutex"
  else if s.threads.any (·.ph = .fault) then some "no-fault"
  else if s.threads.all (·.ph = .idle) ∧ s.sh.lock ≠ holders then some "lock-word"
  else none

/-- dead values do not distinguish states: an idle thread's registers, flag and temporaries are
never read again (every method overwrites them before use is *not* assumed: they are reset to the
same junk a `CALL` leaves, which is what an arbitrary caller would leave there) -/
def normThread (t : Thread) : Thread :=
  if t.ph = .idle then { ph := .idle, held := t.held, ax := 57005, bx := 57005, cx := 57005, dx := 57005 } else t

def normState (s : State) : State := { s with threads := s.threads.map normThread }

structure Found where
  clause : String
  sched : List String
  states : Nat

def bfs (cfg : Config) (n : Nat) (limit : Nat) : Nat × Option Found := Id.run do
  let s0 := normState (init n)
  let mut seen : Std.HashMap State (Option (State × String)) := Std.HashMap.emptyWithCapacity 65536
  seen := seen.insert s0 none
  let mut frontier : Array State := #[s0]
  let mut count := 1
  let path (seen : Std.HashMap State (Option (State × String))) (s : State) : List String := Id.run do
    let mut acc : List String := []
    let mut cur := s
    let mut fuel := 100000
    while fuel > 0 do
      fuel := fuel - 1
      match seen.get? cur with
      | some (some (p, mv)) => acc := mv :: acc; cur := p
      | _ => fuel := 0
    return acc
  while frontier.size > 0 ∧ count < limit do
    let mut next : Array State := #[]
    for s in frontier do
      for i in List.range n do
        for ch in moves (s.threads[i]?.getD {}) do
          match step cfg s i ch with
          | none => pure ()
          | some s1 =>
            let s' := normState s1
            if ¬ seen.contains s' then
              seen := seen.insert s' (some (s, showMove s i ch))
              count := count + 1
              match badState s' with
              | some cl => return (count, some { clause := cl, sched := path seen s', states := count })
              | none => next := next.push s'
    frontier := next
  return (count, none)

/-- explore with `n` threads, with and without a yield function; print PROPFAIL on a violation -/
def search (n : Nat) : IO (Bool × Nat) := do
  let mut ok := true
  let mut total := 0
  for (cfg, name) in [(cfgNil, "nil"), (cfgYield, "set")] do
    let (cnt, r) := bfs cfg n 4000000
    total := total + cnt
    match r with
    | some f =>
      ok := false
      let human := f.sched.map fun m => (m.splitOn "|").headD ""
      let lean := f.sched.map fun m => (m.splitOn "|").getD 1 ""
      IO.println s!"PROPFAIL case=search clause={f.clause} feature=model-search op=search {n} yieldFn={name} schedule: {" ".intercalate human} impl=model-of-regenerated-program states={f.states} lean-schedule: cfg.lockAddr={cfg.lockAddr} cfg.yieldFn={cfg.yieldFn} [{", ".intercalate lean}]"
    | none => pure ()
  return (ok, total)

structure St where
  searched : Bool := false
  stats : Stats := {}
  sim : Sim := {}
  word : Nat := 0
  caseId : String := ""

def processLine (st : St) (line : String) : IO St := do
  if line.startsWith "# stress " then
    let mut stats := st.stats
    for kv in toks (line.drop 9).toString do
      match kv.splitOn "=" with
      | [k, v] => stats := stats.bump s!"stress_{k}" (nat! v)
      | _ => pure ()
    return { st with stats := stats }
  if line.startsWith "#" then return st
  match line.splitOn " | " with
  | [opS, obsS] =>
    let op := toks opS
    let obs := toks obsS
    let mut st := { st with stats := st.stats.bump "ops" |>.bump s!"op_{op.headD "?"}" }
    if op.head? = some "search" ∧ ¬ tieBroken.isEmpty then
      return { st with searched := true }
    if op.head? = some "search" then
      let n := nat! (op.getD 1 "2")
      let (ok, cnt) ← search n
      st := { st with searched := true, stats := st.stats.bump s!"search{n}_states" cnt }
      if ¬ ok then
        IO.println s!"MISMATCH case={st.caseId} op={opS} model=violation impl={obsS}"
        st := { st with stats := st.stats.bump "mismatch" }
      return st
    -- with a broken tie there is no model of the current source: only the oracle judges
    let (m, sim') := if tieBroken.isEmpty then modelObs st.sim op else (obsS.trimAscii.toString, st.sim)
    if m ≠ obsS.trimAscii.toString then
      IO.println s!"MISMATCH case={st.caseId} op={opS} model={m} impl={obsS}"
      st := { st with stats := st.stats.bump "mismatch" }
    let (fails, w') := oracle st.word op obs
    for cl in fails do
      IO.println s!"PROPFAIL case={st.caseId} clause={cl} feature=impl op={opS} impl={obsS}"
      st := { st with stats := st.stats.bump "propfail" }
    -- distribution counters
    match op, obs with
    | ["T"], ["1", _] => st := { st with stats := st.stats.bump "try_true" }
    | ["T"], ["0", _] => st := { st with stats := st.stats.bump "try_false" }
    | "A" :: k :: _, _ | "AX" :: k :: _, _ =>
      st := { st with stats := st.stats.bump (if nat! k = 0 then "acquire_free" else "acquire_contended") |>.bump "yields" (nat! (obs.headD "0")) }
    | ["R"], _ => st := { st with stats := st.stats.bump (if st.word = 0 then "release_free" else "release_held") }
    | _, _ => pure ()
    -- after a crash the harness continues on a fresh lock
    return { st with sim := (if obs = ["panic"] then {} else sim'), word := w' }
  | _ =>
    match toks line with
    | ["case", id] => return { st with caseId := id, sim := {}, word := 0, stats := st.stats.bump "cases" }
    | [] => return st
    | _ => IO.println s!"MISMATCH case={st.caseId} unparsable line: {line}"; return st

def run (lines : Array String) : IO Unit := do
  let mut st : St := {}
  for why in tieBroken do
    IO.println s!"MISMATCH case=tie op=translate model=BROKEN-TIE {why} impl=source-changed"
    st := { st with searched := true, stats := st.stats.bump "tie_broken" }
  for l in lines do st ← processLine st l
  if ¬ st.searched then
    -- the trace carries no search request (e.g. the harness died early): search anyway, it is cheap
    for n in [2, 3] do
      let (_, cnt) ← search n
      st := { st with stats := st.stats.bump s!"search{n}_states" cnt }
  st.stats.print

end Firefly.Replay.C08
