import Firefly.Replay.Vmm
/-! Replay of C05 traces: model vs implementation, and the property oracle for
`setupPDTForKernel` (sections mapped exactly, W^X, nothing else, reservations kept, activated)
evaluated on the implementation's page tables. -/
namespace Firefly.Replay.C05
open Firefly.Util Firefly.Replay.Vmm

def p36 (p : Nat) : Nat := p % 2 ^ 36
def tempAddr : Nat := Firefly.Gen.C04.tempMappingAddr
def tempPage : Nat := tempAddr / 4096

abbrev Fails := List (String × String)
def chk (ok : Bool) (clause feature : String) : Fails := if ok then [] else [(clause, feature)]

structure Sec where
  flags : Nat
  addr : Nat
  size : Nat

def secsOf : List Nat → List Sec
  | a :: b :: c :: rest => { flags := a, addr := b, size := c } :: secsOf rest
  | _ => []

/-- pages (full page numbers) a section touches -/
def Sec.pages (s : Sec) : List Nat :=
  let first := s.addr / 4096
  let last := (s.addr + s.size - 1) / 4096
  (List.range (last - first + 1)).map (first + ·)

/-- expected hardware entry for page `p` of section `s`: frame = (addr-off)/4096 + (p - addr/4096);
Present; RW iff writable; NX iff not executable; never User -/
def Sec.entry (s : Sec) (off p : Nat) : Nat :=
  let frame := (s.addr - off) / 4096 + (p - s.addr / 4096)
  let rw := if s.flags % 2 = 1 then 2 else 0
  let nx := if (s.flags / 4) % 2 = 1 then 0 else 2 ^ 63
  frame * 4096 + 1 + rw + nx

def sortPairs (l : List (Nat × Nat)) : List (Nat × Nat) := (l.toArray.qsort (fun a b => a.1 < b.1)).toList

def distinctCount (l : List Nat) : Nat := l.eraseDups.length

structure Ctx where
  pre : Obs
  post : Obs
  queue : List Nat
  tmpFail : Bool
  secs : List Sec
  /-- regions reserved earlier in the case, as observed on the implementation: (first page, page count) -/
  resv : List (Nat × Nat)

def oracle (c : Ctx) (off : Nat) : Option Fails :=
  let pre := c.pre; let post := c.post
  if post.aborted then none else
  let oldRoot := pre.cr3 / 4096
  let inRange := c.secs.filter (·.addr ≥ off)
  -- domain: sizes ≥ 1, no wrap, sections do not share a page, frames fit
  let secPages := inRange.flatMap (·.pages)
  let domain := inRange.all (fun s => s.size ≥ 1 && s.addr + s.size ≤ 2 ^ 64 && (s.addr - off) / 4096 + s.size / 4096 + 2 < 2 ^ 40) &&
    distinctCount (secPages.map p36) = secPages.length && secPages.all (fun p => pageIdx (p36 p) 0 ≠ 511)
  if !domain then none else
  -- the reserved pages are the ones the implementation handed out earlier in this case (not whatever the
  -- reservation cursor says now: a cursor garbled by a failed request must not hide them)
  let rsvPages := (c.resv.flatMap fun (p, n) => (List.range n).map (p + ·)).mergeSort (· ≤ ·)
  let rsvOld := rsvPages.map fun p => (p, leafOf pre.mem oldRoot (p36 p))
  let rsvAllMapped := rsvOld.all fun (_, l) => match l with | .entry e => entPresent e | _ => false
  if rsvOld.any (fun (_, l) => match l with | .huge _ => true | _ => false) then none else
  if pre.cursor % 4096 ≠ 0 || rsvPages.any (fun p => secPages.any fun q => p36 q = p36 p) then none else
  let want := sortPairs (
    inRange.flatMap (fun s => s.pages.map fun p => (p36 p, s.entry off p)) ++
    rsvOld.map (fun (p, l) => (p36 p, match l with | .entry e => entFrame e * 4096 + 3 | _ => 0)))
  -- frames needed: the new root, the temporary mapping's missing levels, one table per distinct prefix
  let allPages := (secPages ++ rsvPages).map p36
  let needed := 1 + (match leafOf pre.mem oldRoot (p36 tempPage) with | .absent k => 3 - k | _ => 0) +
    distinctCount (allPages.map (· / 512)) + distinctCount (allPages.map (· / 512 / 512)) +
    distinctCount (allPages.map (· / 512 / 512 / 512))
  let newRoot := c.queue.headD 0
  if post.code = 0 then
    some (
      chk (!c.tmpFail && rsvAllMapped && needed ≤ c.queue.length) "error-paths" "success-despite-failure" ++
      chk (post.cr3 = newRoot * 4096 && post.kpdt = newRoot) "activated" "setup" ++
      (match leaves post.mem newRoot with
       | none => [("sections-exact", "unreadable")]
       | some got =>
         chk (inRange.all fun s => s.pages.all fun p => got.lookup (p36 p) == some (s.entry off p)) "sections-exact" "setup" ++
         chk (inRange.all fun s => s.pages.all fun p =>
           match got.lookup (p36 p) with
           | some e => (e / 4) % 2 = 0 && ((e / 2) % 2 = 1) = (s.flags % 2 = 1) && ((e / 2 ^ 63) % 2 = 0) = ((s.flags / 4) % 2 = 1)
           | none => false) "w-xor-x" "setup" ++
         chk (rsvOld.all fun (p, l) => match l, got.lookup (p36 p) with
           | .entry e, some e' => entFrame e' = entFrame e && entPresent e'
           | _, _ => false) "reservations-kept" "setup" ++
         chk (got == want) "nothing-else" "setup"))
  else
    some (
      chk (post.cr3 = pre.cr3) "not-activated-on-error" "setup" ++
      chk (match post.code with
        | 4 => needed > c.queue.length
        | 6 => c.tmpFail
        | 1 => !rsvAllMapped
        | _ => false) "error-paths" s!"code-{post.code}")

structure CSt where
  r : RSt := {}
  stats : Stats := {}
  caseId : String := ""
  prev : Obs := {}
  queue : List Nat := []
  tmpFail : Bool := false
  secs : List Sec := []
  resv : List (Nat × Nat) := []

def processLine (st : CSt) (line : String) : IO CSt := do
  match line.splitOn " | " with
  | [opS, obsS] =>
    let name := (toks opS).headD "?"
    let op := ((toks opS).drop 1).map nat!
    let mut st := { st with stats := st.stats.bump "ops" |>.bump s!"op_{name}" }
    if name = "memset" || name = "memcopy" then
      let (mm, pf) ← muLine st.caseId opS obsS name op
      return { st with stats := (st.stats.bump "mismatch" mm |>.bump "propfail" pf |>.bump "memutil_ops") }
    let (r, m) := modelStep st.r name op
    st := { st with r := r }
    if m.trimAscii.toString ≠ obsS.trimAscii.toString then
      IO.println s!"MISMATCH case={st.caseId} op={opS} model={m} impl={obsS}"
      st := { st with stats := st.stats.bump "mismatch" }
    match parseObs obsS st.prev.mem with
    | none =>
      IO.println s!"MISMATCH case={st.caseId} unparsable observation: {line}"
      return st
    | some post =>
      if name = "init" then st := { st with queue := [], tmpFail := false, secs := [], resv := [] }
      -- a successful reservation (or a region whose mapping failed after the reservation) hands out
      -- the pages between the new and the old cursor
      if (name = "reserve" || name = "region") && !post.aborted && (post.code = 0 || (name = "region" && post.code = 4))
          && post.cursor < st.prev.cursor && st.prev.cursor - post.cursor ≤ 2 ^ 32 then
        st := { st with resv := (post.cursor / 4096, (st.prev.cursor - post.cursor) / 4096) :: st.resv }
      if name = "setup" then
        let c : Ctx := { pre := st.prev, post := post, queue := st.queue, tmpFail := st.tmpFail, secs := st.secs, resv := st.resv }
        match oracle c (op.getD 0 0) with
        | none => st := { st with stats := st.stats.bump (if post.aborted then s!"abort_{post.code}" else "out_of_domain") }
        | some fails =>
          st := { st with stats := st.stats.bump "oracle_checked" |>.bump s!"setup_code_{post.code}"
                    |>.bump "section_pages" ((st.secs.filter (·.addr ≥ op.getD 0 0)).flatMap (·.pages)).length }
          for (cl, ft) in fails do
            IO.println s!"PROPFAIL case={st.caseId} clause={cl} feature={ft} op={opS} secs={String.intercalate "," (st.secs.map fun s => s!"{s.flags}:{s.addr}:{s.size}")} impl={obsS}"
            st := { st with stats := st.stats.bump "propfail" }
      let queue := match name with
        | "alloc" => op
        | _ => if post.aborted then st.queue else st.queue.drop post.allocs
      let tmpFail := match name, op with
        | "tmpfail", [b] => b != 0
        | _, _ => st.tmpFail
      let secs := if name = "secs" then secsOf op
        else if name = "secsmb" then (secsOf op).filterMap fun s =>
          if s.size = 0 then none else some { s with flags := s.flags % 2 ^ 32 }
        else st.secs
      return { st with prev := if post.aborted then st.prev else post, queue := queue, tmpFail := tmpFail, secs := secs }
  | _ =>
    match toks line with
    | ["case", id] => return { st with caseId := id, stats := st.stats.bump "cases" }
    | [] => return st
    | _ => IO.println s!"MISMATCH case={st.caseId} unparsable line: {line}"; return st

def run (lines : Array String) : IO Unit := do
  let mut st : CSt := {}
  for l in lines do st ← processLine st l
  st.stats.print

end Firefly.Replay.C05
