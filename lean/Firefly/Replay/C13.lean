import Firefly.Util
import Firefly.Gen.C13
import Firefly.Spec.C13
/-!
Replay of C13 traces.  For every line the model is stepped **from the implementation's dumped
pre-state** and its observation (return value, free-list head, pool length, every pool row) is
compared with the implementation's; the property oracle (`wfWhy`, effect on the abstract forest,
free-slot reuse, `resolve`) runs on the implementation's dumped pool and results only.

A case stays *in contract* while every operation so far satisfied its decidable caller contract
(`appendPre` …, evaluated here on the implementation's pool); after the first violation the rest of
the case is compared with the model but not judged by the oracle.
-/
namespace Firefly.Replay.C13
open Firefly.Util Firefly.AmlTree Firefly.AmlTree.ObjectTree Firefly.C13

def named (i : Nat) : Option Bool := Firefly.Gen.C13.namedTable[i]?

/-- the dumped columns of one pool slot -/
def rowStr (i : Nat) (o : Obj) : String :=
  s!"{i} {o.index} {o.parentIndex} {o.firstArgIndex} {o.lastArgIndex} {o.prevSiblingIndex} {o.nextSiblingIndex} {o.opcode} {o.infoIndex} {bytesHex o.name.toList}"

def parseRow : List String → Option (Nat × Obj)
  | [i, ix, p, f, l, pv, nx, op, info, nm] =>
    some (nat! i, { index := nat! ix, parentIndex := nat! p, firstArgIndex := nat! f, lastArgIndex := nat! l,
                    prevSiblingIndex := nat! pv, nextSiblingIndex := nat! nx, opcode := nat! op,
                    infoIndex := nat! info, name := Name.ofList (hexBytes nm) })
  | _ => none

def chunks10 : Nat → List String → List (List String)
  | 0, _ => []
  | f+1, l => if l.length < 10 then [] else l.take 10 :: chunks10 f (l.drop 10)

/-- apply the changed rows of an observation to the implementation's pool -/
def applyRows (t : ObjectTree) (fh len : Nat) (rows : List (Nat × Obj)) : ObjectTree :=
  let pool := if len > t.pool.size then t.pool ++ Array.replicate (len - t.pool.size) (default : Obj)
              else t.pool.extract 0 len
  let pool := rows.foldl (fun p (i, o) => p.setIfInBounds i o) pool
  { pool := pool, freeListHeadIndex := fh }

/-- the dumped view of a tree (columns the harness prints); other fields are ignored -/
def view (t : ObjectTree) : ObjectTree :=
  { t with pool := t.pool.map fun o =>
      { index := o.index, parentIndex := o.parentIndex, firstArgIndex := o.firstArgIndex,
        lastArgIndex := o.lastArgIndex, prevSiblingIndex := o.prevSiblingIndex,
        nextSiblingIndex := o.nextSiblingIndex, opcode := o.opcode, infoIndex := o.infoIndex, name := o.name } }

def firstDiff (a b : ObjectTree) : String :=
  if a.freeListHeadIndex ≠ b.freeListHeadIndex then s!"freeHead {a.freeListHeadIndex}/{b.freeListHeadIndex}"
  else if a.pool.size ≠ b.pool.size then s!"len {a.pool.size}/{b.pool.size}"
  else match (List.range a.pool.size).find? (fun i => a.pool[i]? ≠ b.pool[i]?) with
    | some i => s!"row [{rowStr i (slot a i)}]/[{rowStr i (slot b i)}]"
    | none => "-"

def errTok : Err → String
  | .panic => "panic"
  | .outOfFuel => "outOfFuel"

def ptrOf (s : String) : Option Nat := if s = "nil" then none else some (nat! s)

/-- abstract forest as comparable data: (id, name, children) in id order -/
def forestRows (t : ObjectTree) : List (Nat × Name × List Nat) :=
  let F := abs t
  F.ids.map fun i => (i, F.name i, F.kids i)

def insertSorted (x : Nat) : List Nat → List Nat
  | [] => [x]
  | y :: ys => if x < y then x :: y :: ys else if x = y then y :: ys else y :: insertSorted x ys

/-- the "obvious effect" of an in-contract operation on the abstract forest -/
def expectedForest (before : List (Nat × Name × List Nat)) (op : List String) (ret : Nat) : Option (List (Nat × Name × List Nat)) :=
  let onKids (p : Nat) (f : List Nat → List Nat) := before.map fun (i, nm, ks) => if i = p then (i, nm, f ks) else (i, nm, ks)
  match op with
  | ["N", _, _, _, nm] =>
    let ids := insertSorted ret (before.map (·.1))
    some (ids.map fun i => if i = ret then (i, Name.ofList (hexBytes nm), []) else
      match before.find? (·.1 = i) with | some r => r | none => (i, Name.zero, []))
  | ["A", o, a] => some (onKids (nat! o) (· ++ [nat! a]))
  | ["AA", o, a, n] => some (onKids (nat! o) (insertAfter (nat! n) (nat! a)))
  | ["D", o, a] => some (onKids (nat! o) (·.erase (nat! a)))
  | ["F", o] => some ((before.filter (·.1 ≠ nat! o)).map fun (i, nm, ks) => (i, nm, ks.erase (nat! o)))
  | _ => none

/-- caller contract of a mutating op, on the implementation's pre-state -/
def contract (t : ObjectTree) : List String → Bool
  | ["N", _, _, _, _] => newPre t
  | ["DS", _, _] => t.pool.size = 0 && t.freeListHeadIndex = INV
  | ["A", o, a] => appendPre t (nat! o) (nat! a)
  | ["AA", o, a, n] => appendAfterPre t (nat! o) (nat! a) (nat! n)
  | ["D", o, a] => detachPre t (nat! o) (nat! a)
  | ["F", o] => freePre t (nat! o)
  | _ => false

/-- model step from state `t`: return token and post-state (`none` after a panic: the Go code may
have written part of the update; the model does not describe torn states) -/
def modelMut (t : ObjectTree) : List String → String × Option ObjectTree
  | ["N", opc, info, th, nm] =>
    match t.newNamedObject (nat! opc) (nat! info) (nat! th) (Name.ofList (hexBytes nm)) with
    | .ok (t', i) => (toString (slot t' i).index, some t')
    | .error e => (errTok e, none)
  | ["DS", info, th] =>
    match t.CreateDefaultScopes (nat! info) (nat! th) with
    | .ok t' => ("0", some t') | .error e => (errTok e, none)
  | ["A", o, a] =>
    match t.append (nat! o) (nat! a) with | .ok t' => ("0", some t') | .error e => (errTok e, none)
  | ["AA", o, a, n] =>
    match t.appendAfter (nat! o) (nat! a) (nat! n) with | .ok t' => ("0", some t') | .error e => (errTok e, none)
  | ["D", o, a] =>
    match t.detach (nat! o) (nat! a) with | .ok t' => ("0", some t') | .error e => (errTok e, none)
  | ["F", o] =>
    match t.free (nat! o) with | .ok t' => ("0", some t') | .error e => (errTok e, none)
  | _ => ("bad-op", none)

def resTok : Res Nat → String
  | .ok n => toString n
  | .error e => errTok e

/-- model observation of a query -/
def modelQuery (t : ObjectTree) : List String → String
  | ["L", sc, e] => resTok (t.Find (nat! sc) (hexBytes e))
  | ["NA", p] => resTok (t.NumArgs (ptrOf p))
  | ["AT", p, k] =>
    match t.ArgAt (ptrOf p) (nat! k) with
    | .ok (some i) => toString (slot t i).index
    | .ok none => "nil"
    | .error e => errTok e
  | ["CA", p] => resTok (t.ClosestNamedAncestor named (ptrOf p))
  | ["OA", i] => if (t.ObjectAt (nat! i)).isSome then "1" else "0"
  | _ => "bad-op"

/-- spec of `ClosestNamedAncestor` over the abstract forest: nearest enclosing named object,
not found once a `Scope` directive is crossed -/
def closestNamedSpec (t : ObjectTree) (F : Forest) : Nat → Nat → Nat
  | 0, _ => INV
  | f+1, i =>
    match F.parentOf i with
    | none => INV
    | some a =>
      if (slot t a).opcode = pOpScope then INV
      else if named (slot t a).infoIndex = some true then a
      else closestNamedSpec t F f a

/-- does the count byte of a MultiNamePath collide with a name-start character (defect D8) -/
def d8Feature (p : Path) : Bool :=
  (p.form = .multi || (p.form = .canon && p.segs.length ≥ 3)) && isNameStart (UInt8.ofNat p.segs.length)

/-- oracle for a query on the implementation's pool; returns (clause, feature) failures -/
def queryOracle (t : ObjectTree) (op : List String) (obs : String) : List (String × String) :=
  let F := abs t
  match op with
  | ["L", sc, e] =>
    let sc := nat! sc; let e := hexBytes e
    if ¬ (live t 0 && (sc = INV || live t sc)) then [] else
    if obs = "panic" then [("lookup-crash", "any")] else
    let r := nat! obs
    match decode e with
    | some p =>
      let want := if sc = INV then INV else optIdx (resolve F sc p)
      if r = want then [] else
        [(if p.isSimple then "lookup-search-rule" else match p.pre with
            | .root => "lookup-absolute" | .up 0 => "lookup-downward" | .up _ => "lookup-parent-prefix",
          if d8Feature p then "multiname-count-is-name-char" else "path")]
    | none => if r = INV || live t r then [] else [("lookup-garbage-result", "any")]
  | ["NA", p] =>
    match ptrOf p with
    | none => if obs = "0" then [] else [("numargs", "nil")]
    | some i => if ¬ live t i then [] else if obs = toString (F.kids i).length then [] else [("numargs", "any")]
  | ["AT", p, k] =>
    match ptrOf p with
    | none => if obs = "nil" then [] else [("argat", "nil")]
    | some i =>
      if ¬ live t i then [] else
      let want := match (F.kids i)[nat! k]? with | some c => toString c | none => "nil"
      if obs = want then [] else [("argat", "any")]
  | ["CA", p] =>
    match ptrOf p with
    | none => if obs = toString INV then [] else [("closest-named-ancestor", "nil")]
    | some i =>
      if ¬ live t i then [] else
      if obs = toString (closestNamedSpec t F (F.ids.length + 1) i) then [] else [("closest-named-ancestor", "any")]
  | ["OA", i] => if obs = (if live t (nat! i) then "1" else "0") then [] else [("objectat", "any")]
  | _ => [("bad-line", "any")]

structure St where
  stats : Stats := {}
  /-- the implementation's pool as dumped so far -/
  impl : ObjectTree := NewObjectTree
  inContract : Bool := true
  caseId : String := ""

def isMut (op : List String) : Bool := ["N", "DS", "A", "AA", "D", "F", "PT"].contains (op.headD "")

def sizeBucket (n : Nat) : String :=
  if n ≤ 3 then "1-3" else if n ≤ 15 then "4-15" else if n ≤ 60 then "16-60" else if n ≤ 200 then "61-200" else "200+"

def processLine (st : St) (line : String) : IO St := do
  match line.splitOn " | " with
  | [opS, obsS] =>
    let op := toks opS
    let obs := toks obsS
    let mut st := { st with stats := st.stats.bump "ops" |>.bump s!"op_{op.headD "?"}" }
    let t := st.impl
    if isMut op then
      match obs with
      | ret :: fh :: len :: _k :: rowToks =>
        let rows := (chunks10 (rowToks.length + 1) rowToks).filterMap parseRow
        let after := applyRows t (nat! fh) (nat! len) rows
        if op.head? = some "PT" then
          -- a table loaded by the real parser (a client of the tree operations): the parser is not
          -- replayed; the implementation's pool is judged as it stands after the load
          st := { st with stats := st.stats.bump s!"parse_{ret}" }
          if ret = "hang" then
            -- the real parser did not return (the pool is not dumped): reported, whatever caused it
            IO.println s!"PROPFAIL case={st.caseId} clause=parser-hang feature=parser-history-hang op={(opS.take 200).toString} impl=hang"
            return { st with inContract := false, stats := st.stats.bump "propfail" }
          else if ret = "panic" then
            st := { st with inContract := false, stats := st.stats.bump "impl_panic" }
          else if st.inContract then
            match wfWhy after with
            | some why =>
              IO.println s!"PROPFAIL case={st.caseId} clause={why} feature=parser-history-{ret} op={(opS.take 200).toString} impl={(obsS.take 160).toString}"
              st := { st with inContract := false, stats := st.stats.bump "propfail" }
            | none => st := { st with stats := st.stats.bump "parse_wf_checked" }
          return { st with impl := after }
        -- 1. model vs implementation
        let (mret, mpost) := modelMut t op
        if mret ≠ ret then
          IO.println s!"MISMATCH case={st.caseId} op={opS} model={mret} impl={ret}"
          st := { st with stats := st.stats.bump "mismatch" }
        else match mpost with
          | some m =>
            let d := firstDiff (view m) (view after)
            if d ≠ "-" then
              IO.println s!"MISMATCH case={st.caseId} op={opS} model={d} impl=(state differs)"
              st := { st with stats := st.stats.bump "mismatch" }
          | none => pure ()
        if ret = "panic" then st := { st with stats := st.stats.bump "impl_panic" }
        -- 2. oracle on the implementation's observation
        if st.inContract then
          if ¬ contract t op then
            st := { st with inContract := false, stats := st.stats.bump "cases_leaving_contract" }
          else
            let mut fails : List (String × String) := []
            if ret = "panic" then fails := fails ++ [("op-crash", op.headD "")]
            match wfWhy after with
            | some why => fails := fails ++ [(why, op.headD "")]
            | none => pure ()
            if ret ≠ "panic" then
              match expectedForest (forestRows t) op (nat! ret) with
              | some want => if want ≠ forestRows after then fails := fails ++ [("effect-on-forest", op.headD "")]
              | none => pure ()
            if op.head? = some "N" ∧ ret ≠ "panic" then
              let freed := (List.range t.pool.size).filter fun i => !live t i
              let r := nat! ret
              if freed.isEmpty then
                if ¬ (r = t.pool.size ∧ after.pool.size = t.pool.size + 1) then fails := fails ++ [("new-grows-by-one", "N")]
                st := { st with stats := st.stats.bump "new_grow" }
              else
                if ¬ (freed.contains r ∧ after.pool.size = t.pool.size) then fails := fails ++ [("reuse-freed-first", "N")]
                st := { st with stats := st.stats.bump "new_reuse" }
            for (cl, ft) in fails do
              IO.println s!"PROPFAIL case={st.caseId} clause={cl} feature={ft} op={opS} impl={(obsS.take 160).toString}"
              st := { st with stats := st.stats.bump "propfail" }
            -- a broken pool is reported once: the rest of the case is only compared with the model
            if ¬ fails.isEmpty then st := { st with inContract := false }
            st := { st with stats := st.stats.bump "oracle_ops" }
        else st := { st with stats := st.stats.bump "ops_out_of_contract" }
        st := { st with impl := after }
      | _ => IO.println s!"MISMATCH case={st.caseId} unparsable observation: {line}"
    else
      let m := modelQuery t op
      let o := obsS.trimAscii.toString
      if m ≠ o then
        IO.println s!"MISMATCH case={st.caseId} op={opS} model={m} impl={o}"
        st := { st with stats := st.stats.bump "mismatch" }
      if o = "panic" then st := { st with stats := st.stats.bump "impl_panic" }
      if st.inContract then
        for (cl, ft) in queryOracle t op o do
          IO.println s!"PROPFAIL case={st.caseId} clause={cl} feature={ft} op={opS} impl={o}"
          st := { st with stats := st.stats.bump "propfail" }
        if op.head? = some "L" then
          let e := hexBytes (op.getD 2 "-")
          match decode e with
          | some p =>
            let k := if p.isSimple then "lookup_simple" else match p.pre with
              | .root => "lookup_root" | .up 0 => "lookup_down" | .up _ => "lookup_caret"
            st := { st with stats := st.stats.bump k |>.bump s!"lookup_segs_{min p.segs.length 7}"
                              |>.bump (if o = toString INV then "lookup_notfound" else "lookup_found") }
            if d8Feature p then st := { st with stats := st.stats.bump "lookup_multiname_count_65_90_95" }
            if p.isSimple ∧ o ≠ toString INV ∧ o ≠ "panic" then
              let sc := nat! (op.getD 1 "0")
              if (abs t).parentOf (nat! o) ≠ some sc then
                st := { st with stats := st.stats.bump "lookup_simple_found_in_enclosing_scope" }
          | none => st := { st with stats := st.stats.bump "lookup_outside_encoder_image"
                              |>.bump (if o = toString INV then "lookup_notfound" else "lookup_found") }
      else st := { st with stats := st.stats.bump "ops_out_of_contract" }
    return st
  | _ =>
    match toks line with
    | ["case", id] =>
      let sz := st.impl.pool.size
      let stats := if st.caseId = "" then st.stats else st.stats.bump s!"pool_{sizeBucket sz}"
      return { st with caseId := id, impl := NewObjectTree, inContract := true, stats := stats.bump "cases" }
    | [] => return st
    | _ => IO.println s!"MISMATCH case={st.caseId} unparsable line: {line}"; return st

def run (lines : Array String) : IO Unit := do
  let mut st : St := {}
  for l in lines do st ← processLine st l
  (st.stats.bump s!"pool_{sizeBucket st.impl.pool.size}").print

end Firefly.Replay.C13
