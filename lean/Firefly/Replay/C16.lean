import Firefly.Util
import Firefly.Model.Hal
import Firefly.Spec.C16
/-! Replay of C16 traces: model vs implementation, and the property oracle on the
implementation's observations (the oracle uses only `Firefly.C16.Spec`, never the model state). -/
namespace Firefly.Replay.C16
open Firefly.Util Firefly.Ring Firefly.Prefix Firefly.Hal Firefly.C16.Spec

def int! (s : String) : Int := if s.startsWith "-" then - Int.ofNat (nat! (s.drop 1).toString) else Int.ofNat (nat! s)

/-- parse the driver records of a `detect` line; the second component is (id, kind token, a, b):
console a×b characters, shipped VT with scrollback a and tab width b -/
partial def parseDriversG : List String → List (Driver × (Nat × String × Nat × Nat))
  | id :: order :: kind :: a :: b :: pok :: name :: maj :: mi :: pat :: err :: nch :: rest =>
    let n := nat! nch
    let d : Driver := {
      id := nat! id, order := int! order,
      kind := if kind = "0" then .console else if kind = "1" ∨ kind = "3" then .tty else .other,
      probeOk := pok = "1", name := hexBytes name, major := nat! maj, minor := nat! mi, patch := nat! pat,
      initLog := (rest.take n).map hexBytes,
      initErr := if err = "ok" then none else some (hexBytes (err.drop 1).toString) }
    (d, (nat! id, kind, nat! a, nat! b)) :: parseDriversG (rest.drop n)
  | _ => []

def parseDrivers (ts : List String) : List Driver := (parseDriversG ts).map (·.1)
def parseGeo (ts : List String) : List (Nat × String × Nat × Nat) := (parseDriversG ts).map (·.2)

/-- split observation tokens at single-letter markers -/
def sections (ts : List String) : List (String × List String) :=
  let step (acc : List (String × List String)) (t : String) : List (String × List String) :=
    if t.length = 1 ∧ t.front.isUpper then (t, []) :: acc
    else match acc with
      | (k, v) :: rest => (k, t :: v) :: rest
      | [] => []
  (ts.foldl step []).reverse.map fun (k, v) => (k, v.reverse)

def sect (ss : List (String × List String)) (k : String) : List String :=
  ((ss.find? (·.1 = k)).map (·.2)).getD []

def optId (o : Option Nat) : String := match o with | some i => toString i | none => "-1"

def reorder (regs : List Driver) (ids : List Int) : List Driver :=
  ids.filterMap fun i => regs.find? fun d => Int.ofNat d.id = i

structure St where
  stats : Stats := {}
  caseId : String := ""
  -- model
  hal : Hal := { ring := emptyAt 0 }
  pw : PW := {}
  regs : List Driver := []
  geo : List (Nat × String × Nat × Nat) := []
  specCons : Option Nat := none   -- console the specification says is active
  -- specification state for the oracle
  pending : List UInt8 := []      -- what the early buffer must still hold
  linked : Option Nat := none     -- terminal that must be the sink
  ttyExp : List UInt8 := []       -- what that terminal must have received
  pfx : List UInt8 := []
  atStart : Bool := true
  failLines : List (List UInt8) := []
  /-- distribution notes of the last oracle step (counted as STAT lines) -/
  notes : List String := []

def ttyIds (regs : List Driver) : List Nat := (regs.filter (·.kind == .tty)).map (·.id)

def geoOf (geo : List (Nat × String × Nat × Nat)) (i : Nat) : String × Nat × Nat :=
  ((geo.find? (·.1 = i)).map (·.2)).getD ("?", 0, 0)

def vtIds (geo : List (Nat × String × Nat × Nat)) : List Nat := (geo.filter (·.2.1 = "3")).map (·.1)

/-- the terminal a shipped VT `t` attached to console `c` must be after receiving `bs` -/
def termFor (geo : List (Nat × String × Nat × Nat)) (t c : Nat) (bs : List UInt8) : Firefly.Term.Term :=
  let (_, w, h) := geoOf geo c
  let (_, sb, tab) := geoOf geo t
  shown w h sb tab bs

/-- model observation; returns the new model state and the canonical text -/
def modelStep (st : St) (op : List String) (implObs : List String) : St × String :=
  match op with
  | ["reset", p] =>
    let hal : Hal := { ring := emptyAt (nat! p) }
    ({ st with hal := hal, regs := [], geo := [] }, s!"{hal.ring.r} {hal.ring.w}")
  | ["w", _, hx] =>
    let hal := st.hal.log (hexBytes hx)
    ({ st with hal := hal }, s!"{optId hal.sink} {hal.ring.r} {hal.ring.w}")
  | ["rd", k] =>
    let res := st.hal.ring.read (nat! k)
    ({ st with hal := { st.hal with ring := res.ring } },
      s!"{res.n} {if res.eof then 1 else 0} {bytesHex res.out} {res.ring.r} {res.ring.w}")
  | ["ss"] =>
    let d := st.hal.ring.drainAll
    ({ st with hal := { st.hal with ring := d.2 } }, s!"{bytesHex d.1} {d.2.r} {d.2.w}")
  | ["pn", hx] => ({ st with pw := { pfx := hexBytes hx, bap := 0 } }, "0")
  | ["pw", hx] =>
    let r := st.pw.write (hexBytes hx)
    ({ st with pw := r.pw }, s!"{r.n} {r.pw.bap} {r.chunks.length}{String.join (r.chunks.map fun c => " " ++ bytesHex c)}")
  | "detect" :: _ :: rest =>
    let regs := parseDrivers rest
    -- sort.Sort is a parameter of the model: instantiate it with the permutation the implementation produced
    let sorted := reorder regs ((sect (sections implObs) "S").map int!)
    let hal := detectHardware (fun _ => sorted) st.hal regs
    let ids (l : List Nat) := String.join (l.map fun i => s!" {i}")
    let ttys := String.join ((ttyIds regs).map fun i =>
      if hal.activeTTY = some i then
        s!" {i} {optId hal.ttyAttached} {hal.ttyState} {hal.ttyAttachCalls} {hal.ttySetStateCalls} {hal.ttyRecv.length}"
      else s!" {i} -1 0 0 0 0")
    ({ st with hal := hal, regs := regs, geo := parseGeo rest },
      s!"S{ids (sorted.map (·.id))} P{ids hal.probes} I{ids hal.inits} C {optId hal.activeConsole} T {optId hal.activeTTY} A{ids hal.activeDrivers} K {optId hal.sink} R {hal.ring.r} {hal.ring.w} Y{ttys}")
  | ["end"] =>
    let ttys := String.join ((ttyIds st.regs).map fun i =>
      s!" {i} {bytesHex (if st.hal.activeTTY = some i then st.hal.ttyRecv else [])}")
    let d := st.hal.ring.drain 700 (3 * N)
    -- the shipped terminal: the reference terminal of C17 fed with what the model's TTY received
    let term : Option (Nat × Nat × Firefly.Term.Term) :=
      match st.hal.activeTTY, st.hal.ttyAttached with
      | some t, some c => if (geoOf st.geo t).1 = "3" then some (t, c, termFor st.geo t c st.hal.ttyRecv) else none
      | _, _ => none
    let vts := String.join ((vtIds st.geo).map fun i =>
      match term with
      | some (t, _, tm) =>
        if t = i then s!" {i} {tm.cx} {tm.cy} {tm.vy} {st.hal.ttyState} {bytesHex (gridBytes tm.grid)}" else s!" {i} 1 1 0 0 -"
      | none => s!" {i} 1 1 0 0 -")
    let grids := match term with
      | some (_, c, tm) => if st.hal.ttyState = stateActive then s!" {c} {bytesHex (gridBytes tm.viewport)}" else ""
      | none => ""
    ({ st with hal := { st.hal with ring := d.2 } }, s!"K {optId st.hal.sink} Y{ttys} R {bytesHex d.1} V{vts} G{grids}")
  | _ => (st, "bad-op")

/-- pairs (id, fields) from the flat `Y` section; `w` fields per terminal -/
def chunked (w : Nat) : Nat → List String → List (List String)
  | 0, _ => []
  | fuel + 1, l => if l.length < w then [] else l.take w :: chunked w fuel (l.drop w)

/-- the oracle: returns the new specification state and the failing (clause, feature) pairs -/
def oracleStep (st : St) (op : List String) (obs : List String) : St × List (String × String) :=
  let fail (c : Bool) (cl ft : String) : List (String × String) := if c then [] else [(cl, ft)]
  if obs = ["hang"] ∨ obs = ["panic"] then (st, [("log-exactly-once", obs.headD "")]) else
  match op with
  | ["reset", _] =>
    ({ st with pending := [], linked := none, ttyExp := [], failLines := [], specCons := none, geo := [] }, [])
  | ["w", _, hx] =>
    let bs := hexBytes hx
    let st' := match st.linked with
      | some _ => { st with ttyExp := st.ttyExp ++ bs }
      | none => { st with pending := lastN cap (st.pending ++ bs) }
    (st', fail (obs.head? = some (optId st.linked)) "sink-is-tty" "write")
  | ["rd", k] =>
    match obs with
    | [n, eof, hx, _, _] =>
      let n := nat! n; let k := nat! k; let out := hexBytes hx
      ({ st with pending := st.pending.drop n },
        fail (out = st.pending.take n ∧ out.length = n ∧ n ≤ k) "ring-last-N" "read-oldest-first" ++
        fail ((eof = "1") = st.pending.isEmpty) "ring-last-N" "eof-iff-empty" ++
        fail (k = 0 ∨ st.pending.isEmpty ∨ n > 0) "ring-last-N" "read-progress")
    | _ => (st, [("ring-last-N", "read-panic")])
  | ["ss"] =>
    match obs with
    | [hx, _, _] => ({ st with pending := [] }, fail (hexBytes hx = st.pending) "log-exactly-once" "drain")
    | _ => (st, [("log-exactly-once", "drain-bad")])
  | ["pn", hx] => ({ st with pfx := hexBytes hx, atStart := true }, [])
  | ["pw", hx] =>
    let p := hexBytes hx
    match obs with
    | n :: _ :: _ :: chunks =>
      let seen := (chunks.map hexBytes).flatten
      ({ st with atStart := lineState st.atStart p },
        fail (seen = prefixStream st.pfx st.atStart p) "prefix-lines" "writer" ++
        fail (n = toString p.length) "prefix-lines" "count")
    | _ => (st, [("prefix-lines", "bad")])
  | "detect" :: _ :: rest =>
    let regs := parseDrivers rest
    let ss := sections obs
    let idsOf (k : String) := (sect ss k).map int!
    let sIds := idsOf "S"; let pIds := idsOf "P"
    let sorted := reorder regs pIds
    let regIds := regs.map fun d => Int.ofNat d.id
    let isPerm := pIds.length = regIds.length ∧ regIds.all (fun i => pIds.count i = 1)
    let nondecr := (sorted.zip (sorted.drop 1)).all fun (a, b) => a.order ≤ b.order
    let c := firstOf .console sorted; let t := firstOf .tty sorted
    let cId := optId (c.map (·.id)); let tId := optId (t.map (·.id))
    let both := c.isSome && t.isSome
    let nat2int (l : List Nat) := l.map Int.ofNat
    -- the log
    let lc := if both then linkCount sorted false false else none
    let logOf (ds : List Driver) := (ds.map driverLog).flatten
    let st' := match lc with
      | some j => { st with pending := [], linked := t.map Driver.id,
                            ttyExp := ttyStream (st.pending ++ logOf (sorted.take j)) (logOf (sorted.drop j)) }
      | none => { st with pending := lastN cap (st.pending ++ logOf sorted) }
    let st' := { st' with notes :=
      match lc with
      | some j =>
        [if (sorted.findIdx? fun (d : Driver) => succ d && d.kind == Kind.console).getD 0 < (sorted.findIdx? fun (d : Driver) => succ d && d.kind == Kind.tty).getD 0
           then "link_console_first" else "link_tty_first",
         if (st.pending ++ logOf (sorted.take j)).length > cap then "link_prelog_gt_cap" else "link_prelog_le_cap",
         if j < sorted.length then "link_before_last_driver" else "link_at_last_driver"]
      | none => if (st.pending ++ logOf sorted).length > cap then ["unlinked_log_gt_cap"] else [] }
    let st' := { st' with specCons := c.map Driver.id, geo := parseGeo rest }
    let st' := { st' with failLines := (sorted.filter fun (d : Driver) => d.probeOk && d.initErr.isSome).map fun (d : Driver) => halPrefix d ++ tailOf d }
    -- terminals
    let ys := chunked 6 64 (sect ss "Y")
    let yFails := ys.flatMap fun y =>
      match y with
      | [id, att, state, _, _, rlen] =>
        if both ∧ id = tId then
          fail (att = cId ∧ nat! state = stateActive) "linked-both-orders" (if (sorted.findIdx? fun (d : Driver) => succ d && d.kind == Kind.console).getD 0 < (sorted.findIdx? fun (d : Driver) => succ d && d.kind == Kind.tty).getD 0 then "console-first" else "tty-first") ++
          fail (nat! rlen = st'.ttyExp.length) "log-exactly-once" "length-after-detect"
        else
          fail (att = "-1" ∧ nat! state = stateInactive) "first-wins" "other-tty-untouched" ++
          fail (rlen = "0") "log-exactly-once" "other-tty-silent"
      | _ => [("first-wins", "bad")]
    (st',
      fail (obs ≠ ["panic"]) "probe-order" "panic" ++
      fail (isPerm ∧ sIds = pIds) "probe-order" "each-driver-once" ++
      fail nondecr "probe-order" "non-decreasing" ++
      fail (idsOf "I" = nat2int ((sorted.filter (·.probeOk)).map (·.id))) "probe-order" "init-after-probe" ++
      fail (idsOf "A" = nat2int (activeIds sorted)) "failed-never-active" "active-list" ++
      fail (sect ss "C" = [cId]) "first-wins" "console" ++
      fail (sect ss "T" = [tId]) "first-wins" "tty" ++
      fail (sect ss "K" = [if both then tId else "-1"]) "linked-both-orders" "sink" ++
      yFails)
  | ["end"] =>
    let ss := sections obs
    let ys := chunked 2 64 (sect ss "Y")
    let ring := hexBytes ((sect ss "R").headD "-")
    let visible := match st.linked with
      | some t => ((ys.find? fun y => y.head? = some (toString t)).map fun y => hexBytes (y.getD 1 "-")).getD []
      | none => ring
    let expected := match st.linked with | some _ => st.ttyExp | none => st.pending
    let yFails := ys.flatMap fun y =>
      match y with
      | [id, hx] =>
        if st.linked = some (nat! id) then fail (hexBytes hx = st.ttyExp) "log-exactly-once" "tty-stream"
        else fail (hx = "-") "log-exactly-once" "other-tty-silent"
      | _ => [("log-exactly-once", "bad")]
    -- the shipped terminal must hold, and its console must show, every byte of the expected stream:
    -- the reference terminal fed with (last cap bytes logged before the link) ++ (everything after)
    let want : Option (Nat × Nat × Firefly.Term.Term) :=
      match st.linked, st.specCons with
      | some t, some c => if (geoOf st.geo t).1 = "3" then some (t, c, termFor st.geo t c st.ttyExp) else none
      | _, _ => none
    let vFails := (chunked 6 64 (sect ss "V")).flatMap fun v =>
      match v, want with
      | [id, cx, cy, vy, state, data], some (t, _, tm) =>
        if nat! id = t then
          fail (hexBytes data = gridBytes tm.grid) "log-exactly-once" "terminal-shows-log" ++
          fail (nat! cx = tm.cx ∧ nat! cy = tm.cy ∧ nat! vy = tm.vy) "log-exactly-once" "terminal-cursor" ++
          fail (nat! state = stateActive) "linked-both-orders" "terminal-active"
        else fail (data = "-" ∧ nat! state = stateInactive) "first-wins" "other-tty-untouched"
      | [_, _, _, _, state, data], none => fail (data = "-" ∧ nat! state = stateInactive) "first-wins" "other-tty-untouched"
      | _, _ => [("log-exactly-once", "bad")]
    let gs := chunked 2 64 (sect ss "G")
    let gFails :=
      (match want with
       | some (_, c, tm) =>
         fail (gs.any fun g => g = [toString c, bytesHex (gridBytes tm.viewport)]) "log-exactly-once" "console-shows-terminal"
       | none => []) ++
      gs.flatMap fun g => fail (want.any fun (_, c, _) => g.head? = some (toString c)) "first-wins" "other-console-untouched"
    (st,
      yFails ++ vFails ++ gFails ++
      fail (ring = (if st.linked.isSome then [] else st.pending)) "log-exactly-once" (if st.linked.isSome then "ring-empty-after-link" else "unlinked-ring") ++
      fail (sect ss "K" = [optId st.linked]) "linked-both-orders" "sink-at-end" ++
      st.failLines.flatMap fun l =>
        fail (!(isInfix l expected) || isInfix l visible) "failed-never-active" "init-failed-logged")
  | _ => (st, [("bad-line", "-")])

def statKey (op : List String) (obs : List String) : List String :=
  match op with
  | "detect" :: n :: _ =>
    let ss := sections obs
    let c := sect ss "C" ≠ ["-1"]; let t := sect ss "T" ≠ ["-1"]
    [s!"detect_n{if nat! n > 19 then "20-40" else if nat! n > 12 then "13-19" else if nat! n > 8 then "9-12" else if nat! n > 3 then "4-8" else if nat! n > 0 then "1-3" else "0"}",
     if c ∧ t then "detect_linked" else if c then "detect_console_only" else if t then "detect_tty_only" else "detect_neither",
     if (sect ss "I").length < (sect ss "P").length then "detect_some_probe_nil" else "detect_all_probed",
     if (sect ss "A").length < (sect ss "I").length then "detect_some_init_failed" else "detect_no_init_failed"]
  | ["rd", _] => [match obs with | _ :: "1" :: _ => "rd_eof" | "0" :: _ => "rd_zero" | _ => "rd_data"]
  | ["w", _, hx] => [if hx.length > 2 * cap then "w_gt_cap" else if hx = "-" then "w_empty" else "w_small"]
  | _ => []

def processLine (st : St) (line : String) : IO St := do
  match line.splitOn " | " with
  | [opS, obsS] =>
    let op := toks opS
    let obs := toks obsS
    let mut st := { st with stats := st.stats.bump "ops" |>.bump s!"op_{op.headD "?"}" }
    for k in statKey op obs do st := { st with stats := st.stats.bump k }
    let opShort := if opS.length > 300 then (opS.take 300).toString ++ "..." else opS
    let obsShort := if obsS.length > 600 then (obsS.take 600).toString ++ "..." else obsS
    let (st1, m) := modelStep st op obs
    st := st1
    if m.trimAscii.toString ≠ obsS.trimAscii.toString then
      let mShort := if m.length > 600 then (m.take 600).toString ++ "..." else m
      IO.println s!"MISMATCH case={st.caseId} op={opShort} model={mShort} impl={obsShort}"
      st := { st with stats := st.stats.bump "mismatch" }
    let wasLinked := st.linked.isSome
    let (st2, fails) := oracleStep { st with notes := [] } op obs
    st := st2
    for k in st.notes do st := { st with stats := st.stats.bump k }
    if op.head? = some "end" ∧ wasLinked ∧ (st.linked.map fun t => (geoOf st.geo t).1) = some "3" then
      st := { st with stats := st.stats.bump "end_linked_shipped_vt" }
    if op.head? = some "end" then
      st := { st with stats := st.stats.bump (if wasLinked then "end_linked" else "end_unlinked") }
      if st.ttyExp.length > cap ∧ wasLinked then st := { st with stats := st.stats.bump "end_tty_gt_cap" }
    for (cl, ft) in fails do
      IO.println s!"PROPFAIL case={st.caseId} clause={cl} feature={ft} op={opShort} impl={obsShort}"
      st := { st with stats := st.stats.bump "propfail" }
    return st
  | _ =>
    match toks line with
    | ["case", id] => return { st with caseId := id, stats := st.stats.bump "cases" }
    | [] => return st
    | _ => IO.println s!"MISMATCH case={st.caseId} unparsable line: {line.take 200}"; return st

def run (lines : Array String) : IO Unit := do
  let mut st : St := {}
  for l in lines do st ← processLine st l
  st.stats.print

end Firefly.Replay.C16
