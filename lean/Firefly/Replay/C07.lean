import Firefly.Util
import Firefly.Model.AddrSpace
/-! Replay of C07 traces: model vs implementation, and the property oracle on the
implementation's observations. -/
namespace Firefly.Replay.C07
open Firefly.Util Firefly.AddrSpace

def w (s : String) : W := BitVec.ofNat 64 (nat! s)
def failAtOf (s : String) : Option Nat := if s = "-1" then none else some (nat! s)
def ceilBytes (n : Nat) : Nat := (n + 4095) / 4096 * 4096

def callsStr (cs : List (W × W × W)) : String :=
  joinNats (cs.flatMap fun (p, f, fl) => [p.toNat, f.toNat, fl.toNat])

/-- model observation for one op line (same canonical text as the Go harness prints) -/
def modelObs : List String → String
  | ["R", c, s] =>
    match earlyReserve (w c) (w s) with
    | some a => s!"1 {a.toNat} {a.toNat}"
    | none => s!"0 0 {(w c).toNat}"
  | ["M", c, f, s, fl, fa] =>
    let r := mapRegion (w c) (w f) (w s) (w fl) (failAtOf fa)
    s!"{if r.ok then 1 else 0} {r.page.toNat} {r.cursor.toNat} {r.calls.length} {callsStr r.calls}"
  | ["I", f, s, fl, fa] =>
    let r := identityMapRegion (w f) (w s) (w fl) (failAtOf fa)
    s!"{if r.ok then 1 else 0} {r.page.toNat} {r.calls.length} {callsStr r.calls}"
  | ["GR", c, sz] =>
    match gortReserve (w c) (w sz) with
    | some a => s!"0 {a.toNat} 1 {a.toNat}"
    | none => s!"1 0 0 {(w c).toNat}"
  | ["GM", va, sz, fa, zf] =>
    let (ret, calls) := gortMap (w va) (w sz) (w zf) (failAtOf fa)
    (s!"{ret.toNat} {calls.length} {callsStr calls}").trimAscii.toString
  | ["GA", c, sz, afa, mfa] =>
    let (ret, cur, ms, calls) := gortAlloc (w c) (w sz) (BitVec.ofNat 64 0x1001) (failAtOf afa) (failAtOf mfa)
    (s!"{ret.toNat} {cur.toNat} {ms} {calls.length} {callsStr calls}").trimAscii.toString
  | ["K", c] =>
    -- switching to the kernel's own address space leaves the reservation cursor where it is (the
    -- result code depends on the page tables and is not modelled: only the cursor is compared)
    s!"{(w c).toNat}"
  | ["X"] =>
    -- after a region has been mapped through the real Map, the leaf tables it touches translate
    -- nothing but what was mapped: 0 stray pages
    "0"
  | ["P", req] =>
    -- the bitmap allocator maps its own state through a reservation of `req` bytes: one page per
    -- 4096 bytes (rounded up), starting at the reserved address, consecutively
    s!"0 {ceilBytes (nat! req) / 4096} 0 1"
  | _ => "bad-op"

/-- triples from a flat list -/
def triples : List Nat → List (Nat × Nat × Nat)
  | a :: b :: c :: rest => (a, b, c) :: triples rest
  | _ => []

/-- property oracle on an implementation observation; returns failing clause names -/
def oracle (op : List String) (obs : List Nat) : List String :=
  match op, obs with
  | ["R", c, s], [ok, addr, cur'] =>
    let c := nat! c % 2^64; let s := nat! s % 2^64
    let fits := ceilBytes s ≤ c
    (if (ok = 1) ≠ fits then ["fits-iff"] else []) ++
    (if ok = 1 ∧ c % 4096 = 0 ∧ addr % 4096 ≠ 0 then ["reserve-aligned"] else []) ++
    (if ok = 1 ∧ ¬ (addr + s ≤ c ∧ cur' = addr) then ["reserve-below-cursor"] else []) ++
    (if ok = 0 ∧ cur' ≠ c then ["fail-pure"] else [])
  | ["M", c, f, s, fl, fa], ok :: page :: cur' :: n :: calls =>
    let c := nat! c % 2^64; let s := nat! s % 2^64; let f := nat! f; let fl := nat! fl
    let want := ceilBytes s / 4096
    if ok = 1 then
      (if ¬ (cur' + ceilBytes s = c ∧ page * 4096 = cur') then ["region-reserved-exact"] else []) ++
      (if n ≠ want ∨ triples calls ≠ (List.range want).map (fun i => ((page + i) % 2^64, (f + i) % 2^64, fl))
        then ["region-maps-exact-pages"] else [])
    else
      (if fa = "-1" ∧ ceilBytes s ≤ c then ["region-fits-iff"] else []) ++
      -- a region request that does not fit reserves nothing: the cursor stays where it was
      (if fa = "-1" ∧ ¬ (ceilBytes s ≤ c) ∧ cur' ≠ c then ["region-fail-pure"] else [])
  | ["I", f, s, fl, _], ok :: page :: n :: calls =>
    let s := nat! s % 2^64; let f := nat! f; let fl := nat! fl
    let want := ceilBytes s / 4096
    if ok = 1 ∧ f + want < 2^64 ∧ s ≤ 2^64 - 4096 then
      (if page ≠ f ∨ n ≠ want ∨ triples calls ≠ (List.range want).map (fun i => (f + i, f + i, fl))
        then ["identity-maps-exact-pages"] else [])
    else []
  | ["GR", c, sz], [panicked, addr, _, cur'] =>
    let c := nat! c; let sz := nat! sz
    if panicked = 0 then
      (if ¬ (addr + sz ≤ c ∧ addr % 4096 = (c % 4096) ∧ cur' = addr) then ["gort-reserve-at-least-requested"] else [])
    else (if cur' ≠ c then ["gort-reserve-fail-pure"] else []) ++
         (if ceilBytes sz ≤ c then ["gort-reserve-fits-iff"] else [])
  | ["GM", va, sz, _, zf], ret :: n :: calls =>
    let va := nat! va; let sz := nat! sz; let zf := nat! zf
    let want := ceilBytes sz / 4096
    let rw := Firefly.Gen.C07.flagRW
    (if (triples calls).any (fun (_, f, fl) => f = zf ∧ (fl / rw) % 2 = 1) then ["zero-frame-mapped-writable"] else []) ++
    (if ret ≠ 0 then
      (if n ≠ want ∨ ret ≠ ceilBytes va ∨
          (triples calls).map (·.1) ≠ (List.range want).map (fun i => ceilBytes va / 4096 + i) ∨
          (triples calls).any (fun (_, f, _) => f ≠ zf)
        then ["gort-map-exact-pages"] else [])
     else [])
  | ["GA", c, sz, _, _], ret :: cur' :: ms :: n :: calls =>
    let c := nat! c; let sz := nat! sz
    let want := ceilBytes sz / 4096
    if ret ≠ 0 then
      (if ¬ (ret + ceilBytes sz = c ∧ cur' = ret) then ["gort-alloc-reserved-exact"] else []) ++
      (if n ≠ want ∨ ms ≠ want ∨ (triples calls).map (·.1) ≠ (List.range want).map (fun i => ret / 4096 + i) ∨
          ¬ ((triples calls).map (·.2.1)).Nodup
        then ["gort-alloc-exact-pages"] else [])
    else (if ceilBytes sz ≤ c ∧ op.getD 3 "" = "-1" ∧ op.getD 4 "" = "-1" then ["gort-alloc-fits-iff"] else [])
  | ["P", req], [code, n, first, contig] =>
    if code = 0 then
      (if n ≠ ceilBytes (nat! req) / 4096 ∨ first ≠ 0 ∨ contig ≠ 1 then ["client-maps-exact-pages"] else [])
    else []
  | ["K", c], [_, cur'] =>
    -- every region reserved before stays reserved: the next reservation must start below them
    (if cur' ≠ nat! c then ["setup-keeps-reservations"] else [])
  | ["X"], stray :: _ => (if stray ≠ 0 then ["region-maps-nothing-else"] else [])
  | ["map"], _ => []
  | _, _ => ["bad-line"]

structure St where
  stats : Stats := {}
  /-- history oracle: successful regions of the current history (addr, size), newest first -/
  hist : List (Nat × Nat) := []
  /-- cursor left by the previous op; the history continues only if the next op starts there -/
  last : Nat := 0
  caseId : String := ""

def processLine (st : St) (line : String) : IO St := do
  match line.splitOn " | " with
  | [opS, obsS] =>
    let op := toks opS
    let obs := (toks obsS).map nat!
    let mut st := { st with stats := st.stats.bump "ops" |>.bump s!"op_{op.headD "?"}" }
    let m := modelObs op
    let implCmp := if op.head? = some "K" then " ".intercalate ((toks obsS).drop 1)
      else if op.head? = some "X" then (toks obsS).headD "" else obsS
    if m.trimAscii.toString ≠ implCmp.trimAscii.toString then
      IO.println s!"MISMATCH case={st.caseId} op={opS} model={m} impl={obsS}"
      st := { st with stats := st.stats.bump "mismatch" }
    for cl in oracle op obs do
      IO.println s!"PROPFAIL case={st.caseId} clause={cl} op={opS} impl={obsS}"
      st := { st with stats := st.stats.bump "propfail" }
    -- history clause: within one case, R ops run on the real (threaded) cursor
    match op with
    | _ :: c :: _ => if op.head? ≠ some "I" ∧ op.head? ≠ some "GM" ∧ nat! c ≠ st.last then st := { st with hist := [] }
    | _ => pure ()
    match op, obs with
    | ["R", _, _], [_, _, cur'] => st := { st with last := cur' }
    | ("M" :: _), (_ :: _ :: cur' :: _) => st := { st with last := cur' }
    | ["K", _], [_, cur'] => st := { st with last := cur', stats := st.stats.bump "setup_switches" }
    | _, _ => pure ()
    match op, obs with
    | ["R", _, s], [1, addr, _] =>
      let s := nat! s
      for (a, _) in st.hist do
        if ¬ (addr + s ≤ a) then
          IO.println s!"PROPFAIL case={st.caseId} clause=history-disjoint op={opS} impl={obsS}"
          st := { st with stats := st.stats.bump "propfail" }
      st := { st with hist := (addr, s) :: st.hist, stats := st.stats.bump "reserve_ok" }
    | ["R", _, _], [0, _, _] => st := { st with stats := st.stats.bump "reserve_fail" }
    | ("M" :: _), (1 :: _) => st := { st with stats := st.stats.bump "region_ok" }
    | ("M" :: _), (0 :: _) => st := { st with stats := st.stats.bump "region_fail" }
    | _, _ => pure ()
    return st
  | _ =>
    match toks line with
    | ["case", id] => return { st with caseId := id, hist := [], stats := st.stats.bump "cases" }
    | [] => return st
    | "map" :: _ => return st
    | "#" :: _ => return st
    | _ => IO.println s!"MISMATCH case={st.caseId} unparsable line: {line}"; return st

def run (lines : Array String) : IO Unit := do
  let mut st : St := {}
  for l in lines do st ← processLine st l
  st.stats.print

end Firefly.Replay.C07
