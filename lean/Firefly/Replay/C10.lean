import Firefly.Util
import Firefly.Model.Multiboot
import Firefly.Spec.Multiboot
/-! Replay of C10 traces: model vs implementation, Lean `encode` vs the Go generator's encoder,
and the property oracle (expectations computed from the *spec* of the case, never from the
model) on the implementation's observations. -/
namespace Firefly.Replay.C10
open Firefly.Util Firefly.Multiboot Firefly.MBSpec

structure St where
  stats : Stats := {}
  caseId : String := ""
  base : Nat := 0
  sbase : Nat := 0
  stab : List UInt8 := []
  tags : Array Tag := #[]
  isWf : Bool := false
  mem : Mem := ⟨0, [], 0, []⟩
  /-- largest number of regions the implementation has visited so far in this case -/
  maxVisit : Nat := 0
  /-- the last client step (`#X <name>`: real kernel code that received pointers into the block
  ran between two enumerations); "" = none yet in this case -/
  client : String := ""

def hexs (bs : List UInt8) : String := bytesHex bs

/-! ### parsing the case description -/

def parseEnts : List String → List MemEntry
  | a :: l :: t :: rest => ⟨nat! a, nat! l, nat! t⟩ :: parseEnts rest
  | _ => []

def parseSecs : List String → List Sec
  | a :: b :: c :: d :: e :: f :: g :: h :: i :: j :: rest =>
    ⟨nat! a, nat! b, nat! c, nat! d, nat! e, nat! f, nat! g, nat! h, nat! i, nat! j⟩ :: parseSecs rest
  | _ => []

def takeParts : Nat → List String → List (List UInt8) × List String
  | 0, r => ([], r)
  | n + 1, p :: r => let (ps, r') := takeParts n r; (hexBytes p :: ps, r')
  | _, [] => ([], [])

def parseToks : Nat → List String → List CmdTok
  | 0, _ => []
  | n + 1, np :: rest =>
    match takeParts (nat! np) rest with
    | (ps, sep :: rest') => ⟨ps, hexBytes sep⟩ :: parseToks n rest'
    | (ps, []) => [⟨ps, []⟩]
  | _, [] => []

def parseTag : List String → Option Tag
  | "mmap" :: esz :: ver :: _ :: rest => some (.mmap (nat! esz) (nat! ver) (parseEnts rest))
  | ["fb", phys, pitch, w, h, bpp, ty, rsv, color] =>
    some (.fb (nat! phys) (nat! pitch) (nat! w) (nat! h) (nat! bpp) (nat! ty) (nat! rsv) (hexBytes color))
  | "cmd" :: lead :: n :: rest => some (.cmd (hexBytes lead) (parseToks (nat! n) rest))
  | "elf" :: entsize :: shndx :: trail :: _ :: rest =>
    some (.elf (nat! entsize) (nat! shndx) (parseSecs rest) (hexBytes trail))
  | ["other", ty, payload] => some (.other (nat! ty) (hexBytes payload))
  | _ => none

/-! ### canonical observation text (same as the Go harness prints) -/

def regionsStr (rs : List Region) : String :=
  joinNats (rs.flatMap fun r => [r.addr, r.len, r.ty])

def sectionsStr (ss : List Section) : String :=
  " ".intercalate (ss.map fun s => s!"{hexs s.name} {s.flags} {s.addr} {s.size}")

def kvStr (kv : KV) : String :=
  " ".intercalate (kv.map fun (k, v) => s!"{hexs k} {hexs v}")

def trimS (s : String) : String := s.trimAscii.toString

def relOff (base p : Nat) : Nat := (p + 2^64 - base) % 2^64

def fbStr (base : Nat) (i : FbInfo) : String :=
  let head := s!"ok {relOff base i.ptr} {i.phys} {i.pitch} {i.width} {i.height} {i.bpp} {i.ty}"
  match i.rgb with
  | some c => s!"{head} rgb {joinNats (c.map (·.toNat))}"
  | none => s!"{head} norgb"

/-- model observation for one op; also returns the memory after the op -/
def modelObs (st : St) : List String → String × Mem
  | ["T", ty] =>
    match findTag st.mem (nat! ty) with
    | .ok (p, size) => ((if p = 0 then s!"ok nil {size}" else s!"ok {relOff st.base p} {size}"), st.mem)
    | .fault => ("fault", st.mem)
    | .fuel => ("fuel", st.mem)
  | ["M", stop] =>
    let (rs, status, m') := visitMemRegions st.mem (nat! stop)
    (trimS s!"{status.toString} {rs.length} {regionsStr rs}", m')
  | ["F"] =>
    match framebuffer st.mem with
    | .ok none => ("ok nil", st.mem)
    | .ok (some i) => (fbStr st.base i, st.mem)
    | .fault => ("fault", st.mem)
    | .fuel => ("fuel", st.mem)
  | ["C"] =>
    match bootCmdLine st.mem with
    | .ok kv => (trimS s!"ok {kv.length} {kvStr kv}", st.mem)
    | .fault => ("fault", st.mem)
    | .fuel => ("fuel", st.mem)
  | ["E"] =>
    let (ss, status) := visitElfSections st.mem
    (trimS s!"{status.toString} {ss.length} {sectionsStr ss}", st.mem)
  | ["D"] => (hexs st.mem.blk, st.mem)
  | _ => ("bad-op", st.mem)

/-! ### the property oracle -/

/-- offset of the contents of the first tag of type `t`, and its content size -/
def specFind (t : Nat) : List Tag → Nat → Option (Nat × Nat)
  | [], _ => none
  | x :: xs, off => if x.typeNo = t then some (off + 8, x.body.length) else specFind t xs (off + (encTag x).length)

/-- why the region lists differ: only in the type of entries encoded with type = memUnknown? -/
def regionFeature (want got : List Region) (ents : List MemEntry) : String :=
  if want.length = got.length ∧
     (List.zip (List.zip want got) ents).all (fun ((w, g), e) =>
        w = g ∨ (w.addr = g.addr ∧ w.len = g.len ∧ e.ty = 5 ∧ g.ty = 5)) then "type-eq-memUnknown"
  else "-"

/-- failing (clause, feature) pairs for an implementation observation on a well-formed case -/
def oracle (st : St) (op : List String) (obs : String) : List (String × String) :=
  let tags := st.tags.toList
  let faulted := obs = "fault" ∨ obs.startsWith "fault " ∨ obs = "panic" ∨ obs.startsWith "panic "
  if obs = "hang" then [("terminates", s!"op-{op.headD "?"}")] else
  if faulted then [("reads-in-bounds", s!"op-{op.headD "?"}")] else
  match op with
  | ["T", ty] =>
    let want := match specFind (nat! ty) tags 8 with
      | some (off, size) => s!"ok {off} {size}"
      | none => "ok nil 0"
    if obs = want then [] else
      [((if (firstOf (nat! ty) tags).isNone then "absent-is-empty" else "first-tag-wins"), "find-tag")]
  | ["M", stop] =>
    let all := expRegions tags
    let stop := nat! stop
    let (want, status) := if 1 ≤ stop ∧ stop ≤ all.length then (all.take stop, "stop") else (all, "done")
    let wantS := trimS s!"{status} {want.length} {regionsStr want}"
    if obs = wantS then [] else
      let got := (toks obs).drop 2
      let gotR := (parseEnts got).map fun e => (⟨e.addr, e.len, e.ty⟩ : Region)
      let ents := match firstOf 6 tags with | some (.mmap _ _ es) => es | _ => []
      let feat := regionFeature want gotR ents
      let feat := if feat = "-" ∧ st.client ≠ "" then s!"after-{st.client}" else feat
      [((if (firstOf 6 tags).isNone then "absent-is-empty" else "memmap-exact"), feat)]
  | ["F"] =>
    let got := toks obs
    match expFb tags with
    | none => if obs = "ok nil" then [] else [("absent-is-empty", "fb")]
    | some (fieldsW, rgb) =>
      let off := (specFind 8 tags 8).map (·.1) |>.getD 0
      let tail := match rgb with | some c => s!"rgb {joinNats (c.map UInt8.toNat)}" | none => "norgb"
      let want := s!"ok {off} {joinNats fieldsW} {tail}"
      if " ".intercalate got = want then []
      else [("framebuffer-exact", if st.client ≠ "" then s!"after-{st.client}" else if rgb.isSome then "rgb" else "norgb")]
  | ["C"] =>
    let kv := expCmd tags
    if obs = trimS s!"ok {kv.length} {kvStr kv}" then []
    else [((if (firstOf 1 tags).isNone then "absent-is-empty" else "cmdline-exact"), "-")]
  | ["E"] =>
    let ss := expSections st.stab tags
    if obs = trimS s!"done {ss.length} {sectionsStr ss}" then []
    else [((if (firstOf 9 tags).isNone then "absent-is-empty" else "elf-exact"), "-")]
  | ["D"] =>
    if obs = hexs (encode (normFirst st.maxVisit tags)) then []
    else [("writes-confined", if st.client ≠ "" then s!"after-{st.client}" else "-")]
  | _ => [("bad-line", "-")]

/-! ### statistics -/

def bucket (n : Nat) : String :=
  if n = 0 then "0" else if n = 1 then "1" else if n ≤ 4 then "2-4" else if n ≤ 12 then "5-12" else "13+"

def caseStats (s : Stats) (tags : List Tag) : Stats := Id.run do
  let mut s := s.bump s!"tags_{bucket tags.length}"
  let dup (t : Nat) := (tags.filter (·.typeNo = t)).length ≥ 2
  if dup 1 ∨ dup 6 ∨ dup 8 ∨ dup 9 then s := s.bump "dup_tag_cases"
  for t in tags do
    if padLen t.body.length ≠ 0 then s := s.bump "padded_tags"
    match t with
    | .mmap esz _ ents =>
      s := s.bump s!"mmap_esz_{esz}" |>.bump s!"mmap_entries_{bucket ents.length}"
      for e in ents do
        s := s.bump (if e.ty = 0 then "type_0" else if e.ty ≤ 4 then "type_1-4" else if e.ty = 5 then "type_5"
                     else if e.ty = 6 then "type_6" else "type_big")
    | .fb _ _ _ _ _ ty _ _ => s := s.bump s!"fb_type_{if ty ≤ 3 then toString ty else "other"}"
    | .cmd _ toks =>
      s := s.bump s!"cmd_tokens_{bucket toks.length}"
      for t in toks do s := s.bump s!"cmd_parts_{if t.parts.length ≤ 2 then toString t.parts.length else "3+"}"
    | .elf _ _ secs _ =>
      s := s.bump s!"elf_sections_{bucket secs.length}"
      s := s.bump "elf_holes" (secs.filter (·.size = 0)).length
    | .other .. => s := s.bump "other_tags"
  return s

/-! ### the line loop -/

def processLine (st : St) (line : String) : IO St := do
  if line.startsWith "#" then
    match toks line with
    | ["#S", base, sbase, stab] =>
      return { st with base := nat! base, sbase := nat! sbase, stab := hexBytes stab, tags := #[], maxVisit := 0,
                       client := "" }
    | ["#X", name] =>
      -- a client of the multiboot API ran on the real code; the block must still say the same
      return { st with client := name, stats := st.stats.bump s!"client_{name}" }
    | "#I" :: rest =>
      match parseTag rest with
      | some t => return { st with tags := st.tags.push t }
      | none => IO.println s!"MISMATCH case={st.caseId} unparsable spec line: {line}"; return st
    | ["#B", kind, hex] =>
      let blk := hexBytes hex
      let mut st := { st with isWf := kind = "wf", mem := ⟨st.base, blk, st.sbase, st.stab⟩ }
      if kind = "wf" then
        st := { st with stats := caseStats (st.stats.bump "wf_cases") st.tags.toList }
        let enc := encode st.tags.toList
        if enc ≠ blk then
          IO.println s!"MISMATCH case={st.caseId} op=encode model={hexs enc} impl={hex}"
          st := { st with stats := st.stats.bump "mismatch" }
        if ¬ wf st.base st.sbase st.stab st.tags.toList then
          IO.println s!"MISMATCH case={st.caseId} op=generator-not-wellformed model=wf impl=notwf"
          st := { st with stats := st.stats.bump "mismatch" }
      else
        st := { st with stats := st.stats.bump "raw_cases" }
      return st
    | _ => IO.println s!"MISMATCH case={st.caseId} unparsable line: {line}"; return st
  match line.splitOn " | " with
  | [opS, obsS] =>
    let op := toks opS
    let obs := trimS obsS
    let mut st := { st with stats := st.stats.bump "ops" |>.bump s!"op_{op.headD "?"}" }
    let (m, mem') := modelObs st op
    if m ≠ obs then
      IO.println s!"MISMATCH case={st.caseId} op={opS} model={m} impl={obs}"
      st := { st with stats := st.stats.bump "mismatch" }
    let status := (toks obs).headD "?"
    if op.headD "" ≠ "D" then st := { st with stats := st.stats.bump s!"{op.headD "?"}_{status}" }
    if op.headD "" = "M" then
      let n := nat! ((toks obs).getD 1 "0")
      st := { st with maxVisit := max st.maxVisit n, stats := st.stats.bump s!"visited_{bucket n}" }
    if st.isWf then
      for (cl, feat) in oracle st op obs do
        IO.println s!"PROPFAIL case={st.caseId} clause={cl} feature={feat} op={opS} impl={obs}"
        st := { st with stats := st.stats.bump "propfail" }
    return { st with mem := mem' }
  | _ =>
    match toks line with
    | ["case", id] => return { st with caseId := id, isWf := false, stats := st.stats.bump "cases" }
    | [] => return st
    | _ => IO.println s!"MISMATCH case={st.caseId} unparsable line: {line}"; return st

def run (lines : Array String) : IO Unit := do
  let mut st : St := {}
  for l in lines do st ← processLine st l
  st.stats.print

end Firefly.Replay.C10
