import Firefly.Model.Acpi
/-!
Specification vocabulary for C14 (core Lean only): what a checksum-valid root pointer is, which
root table it designates, and which tables an enumeration has to consider. The numbers written
out here (signature bytes, 20/36 bytes, offsets 15/16/24, header field 8) are the property's and
the ACPI specification's; `Props/C14.lean` proves that the model, instantiated with the constants
printed from the compiled Go code, agrees with them.
-/
namespace Firefly.Acpi

/-- the plain (unbounded) sum of the `n` bytes at `a` -/
def byteSum (m : Mem) (a n : Nat) : Nat := ((List.range n).map fun i => rd m (a + i)).sum

/-- "the bytes sum to zero" (mod 256) -/
def SumsToZero (m : Mem) (a n : Nat) : Prop := byteSum m a n % 256 = 0

/-- `"RSD PTR "` -/
def rsdPtrSignature : List Nat := [82, 83, 68, 32, 80, 84, 82, 32]

/-- A checksum-valid root pointer structure starts at `a`: the 8 signature bytes, and the
structure's bytes — 20 for revision 0, 36 otherwise — sum to zero. -/
def ValidRsdpAt (m : Mem) (a : Nat) : Prop :=
  (List.range 8).map (fun i => rd m (a + i)) = rsdPtrSignature ∧
  (if rd m (a + 15) = 0 then SumsToZero m a 20 else SumsToZero m a 36)

instance (m : Mem) (a : Nat) : Decidable (ValidRsdpAt m a) := by
  unfold ValidRsdpAt SumsToZero; exact inferInstance

/-- the root table a root pointer at `a` designates, and whether it is the 64-bit one:
revision 0 → the 32-bit RSDT address at offset 16; otherwise the 64-bit XSDT address at offset 24 -/
def rootOf (m : Mem) (a : Nat) : Nat × Bool :=
  if rd m (a + 15) = 0 then (rdLE m (a + 16) 4, false) else (rdLE m (a + 24) 8, true)

/-- Addresses the enumeration has to consider, in order: every entry of the root table and,
directly behind a checksum-valid FADT, the DSDT it points to (the 32-bit field, or the 64-bit
field when the root table's revision byte is ≥ 2 — the rule the code implements). -/
def considered (m : Mem) (root : Nat) (useXSDT : Bool) : List Nat :=
  (entries m root useXSDT).flatMap fun a =>
    if tableOK m a && sigAt m a == Firefly.Gen.C14.fadtSignature then [a, dsdtPtr m (rd m (root + 8)) a] else [a]

end Firefly.Acpi
