import Firefly.Model.Hal
import Firefly.Spec.Term
/-!
# C16 — specification and executable oracle

The property restated over plain byte lists, independent of ring indices and of the bring-up
state machine. The oracle (`Firefly.Replay.C16`) evaluates these on the implementation's
observations; the theorems (`Firefly.Props.C16`) prove that the model satisfies them. Core Lean only.
-/
namespace Firefly.C16.Spec
open Firefly.Ring Firefly.Prefix Firefly.Hal

/-- a driver comes up: its probe found hardware and its initialisation succeeded -/
def succ (d : Driver) : Bool := d.probeOk && d.initErr.isNone

/-- everything one driver causes to be logged: its own output and the closing status line, each line
behind the driver's prefix -/
def driverLog (d : Driver) : List UInt8 :=
  if d.probeOk then prefixStream (halPrefix d) true (d.initLog.flatten ++ tailOf d) else []

/-- the first driver of a kind that comes up, in probe order -/
def firstOf (k : Kind) (ds : List Driver) : Option Driver := ds.find? fun d => succ d && d.kind == k

/-- ids of the drivers that come up, in probe order -/
def activeIds (ds : List Driver) : List Nat := (ds.filter succ).map (·.id)

/-- the probe order is acceptable: a permutation of the registry in non-decreasing detection order -/
def SortedPerm (regs sorted : List Driver) : Prop :=
  sorted.Perm regs ∧ sorted.Pairwise (fun a b => a.order ≤ b.order)

/-- number of drivers probed up to and including the one whose arrival completes the console/TTY pair -/
def linkCount : List Driver → Bool → Bool → Option Nat
  | [], _, _ => none
  | d :: ds, haveC, haveT =>
    let haveC' := haveC || (succ d && d.kind == .console)
    let haveT' := haveT || (succ d && d.kind == .tty)
    if haveC' && haveT' then some 1 else (linkCount ds haveC' haveT').map (· + 1)

/-- length of the log at the moment the pair is linked, when `startLen` bytes were logged before the
first of `ds` is probed -/
def linkMoment (startLen : Nat) (ds : List Driver) (haveC haveT : Bool) : Option Nat :=
  (linkCount ds haveC haveT).map fun j => startLen + ((ds.take j).map driverLog).flatten.length

/-- the bytes the terminal must have received, given everything logged before the link (`pre`) and after it -/
def ttyStream (pre post : List UInt8) : List UInt8 := lastN cap pre ++ post

/-- is `pat` a contiguous part of `l` -/
def isInfix (pat : List UInt8) : List UInt8 → Bool
  | [] => pat.isEmpty
  | l@(_ :: t) => pat.isPrefixOf l || isInfix pat t

/-! ### the shipped terminal as the TTY (reference terminal of C17) -/

/-- what a freshly attached terminal — `w × h` viewport, `sb` scrollback lines, tab width `tab`, the
mock consoles' default colours 7 on 0 — holds after receiving `bs` -/
def shown (w h sb tab : Nat) (bs : List UInt8) : Firefly.Term.Term :=
  bs.foldl Firefly.Term.Term.byte (Firefly.Term.Term.new w h sb tab 7 0)

/-- a cell grid as the (char, fg, bg) byte triples the terminal buffer and the recording console hold -/
def gridBytes (g : Firefly.Term.Grid) : List UInt8 :=
  g.flatMap fun line => line.flatMap fun c => [c.ch, c.fg, c.bg]

/-! ### histories -/

/-- one operation on the early buffer -/
inductive RingOp
  | write (bs : List UInt8)
  | read (k : Nat)

/-- a history on the concrete ring; returns the ring and what every `Read` returned -/
def runRing : Ring → List RingOp → Ring × List (List UInt8)
  | rb, [] => (rb, [])
  | rb, .write bs :: ops => runRing (rb.write bs) ops
  | rb, .read k :: ops =>
    let r := runRing (rb.read k).ring ops
    (r.1, (rb.read k).out :: r.2)

/-- the same history on a plain queue that keeps the last `cap` bytes; `ns` says how many bytes each
read took. Returns the queue and what every read must have returned. -/
def runQueue : List UInt8 → List RingOp → List Nat → List UInt8 × List (List UInt8)
  | q, [], _ => (q, [])
  | q, op :: ops, ns =>
    match op with
    | .write bs => runQueue (lastN cap (q ++ bs)) ops ns
    | .read _ =>
      let r := runQueue (q.drop (ns.headD 0)) ops ns.tail
      (r.1, q.take (ns.headD 0) :: r.2)

/-- what the sink of a PrefixWriter sees over a sequence of `Write`s -/
def pwStream : PW → List (List UInt8) → List UInt8 × PW
  | pw, [] => ([], pw)
  | pw, p :: ps =>
    let rest := pwStream (pw.write p).pw ps
    ((pw.write p).chunks.flatten ++ rest.1, rest.2)

/-- the kernel before bring-up: nothing logged, early buffer empty with its indices at `p` -/
def boot (p : Nat) : Hal := { ring := emptyAt p }

/-- a whole boot history: log output, `DetectHardware`, more log output -/
def bringUp (sort : List Driver → List Driver) (p : Nat) (before : List (List UInt8)) (regs : List Driver)
    (after : List (List UInt8)) : Hal :=
  after.foldl Hal.log (detectHardware sort (before.foldl Hal.log (boot p)) regs)

end Firefly.C16.Spec
