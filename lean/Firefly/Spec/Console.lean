import Firefly.Model.VgaText
import Firefly.Model.VesaFb
/-!
# C19 — what the console operations are supposed to do, cell by cell / byte by byte

Pointwise specifications in unbounded arithmetic (no wrap-around anywhere): given the old
framebuffer contents as a function `old : Nat → α`, each `spec…` function says what value every
framebuffer index holds afterwards.  The replay oracle evaluates these functions on the
implementation's framebuffer after every operation; the theorems in `Props/C19.lean` prove that
the executable models compute exactly them.
-/
namespace Firefly.Spec.Console
open Firefly

/-- origin clamped into `1..n` -/
def clamp (x n : Nat) : Nat := if x = 0 then 1 else if x ≥ n then n else x

/-- 0-based half-open cell rectangle `[x0, x1) × [y0, y1)` addressed by a fill -/
structure Rect where
  x0 : Nat
  x1 : Nat
  y0 : Nat
  y1 : Nat
  deriving Repr, DecidableEq

/-- clamp the origin into the grid, clip the extent at the right and bottom edges -/
def fillRect (cols rows x y w h : Nat) : Rect :=
  let cx := clamp x cols
  let cy := clamp y rows
  { x0 := cx - 1, x1 := min (cx - 1 + w) cols, y0 := cy - 1, y1 := min (cy - 1 + h) rows }

/-! ## text console -/
section Text
open VgaText

/-- colour index replaced by the default when it exceeds the palette -/
def textColor (c : Cons) (v dflt : Nat) : Nat := if v > c.paletteLen - 1 then dflt else v

def textWrite (c : Cons) (old : Nat → UInt16) (ch fg bg x y : Nat) : Nat → UInt16 := fun i =>
  if 1 ≤ x ∧ x ≤ c.width ∧ 1 ≤ y ∧ y ≤ c.height ∧ i = (y - 1) * c.width + (x - 1) then
    cellWord ch (textColor c fg c.defaultFg) (textColor c bg c.defaultBg)
  else old i

def textFill (c : Cons) (old : Nat → UInt16) (x y w h fg bg : Nat) : Nat → UInt16 := fun i =>
  let r := fillRect c.width c.height x y w h
  if i < c.width * c.height ∧ r.x0 ≤ i % c.width ∧ i % c.width < r.x1 ∧ r.y0 ≤ i / c.width ∧ i / c.width < r.y1 then
    cellWord c.clearChar fg bg
  else old i

def textScroll (c : Cons) (old : Nat → UInt16) (dir lines : Nat) : Nat → UInt16 := fun i =>
  if 1 ≤ lines ∧ lines ≤ c.height then
    if dir = 0 then
      if i < (c.height - lines) * c.width then old (i + lines * c.width) else old i
    else if dir = 1 then
      if lines * c.width ≤ i ∧ i < c.height * c.width then old (i - lines * c.width) else old i
    else old i
  else old i
end Text

/-! ## pixel console -/
section Pixel
open VesaFb

/-- bit of pixel `(px, py)` in glyph `ch`: byte `px/8` of row `py`, most significant bit first -/
def glyphBit (f : Font) (ch px py : Nat) : Bool :=
  ((f.data.getD (ch * f.bpr * f.gh + py * f.bpr + px / 8) 0).toNat >>> (7 - px % 8)) % 2 = 1

/-- the bytes a pixel of palette colour `idx` is stored as (empty when nothing is stored) -/
def colorBytes (c : Cons) (idx : Nat) : List UInt8 :=
  match pixelBytes c idx with
  | some (some l) => l
  | _ => []

/-- Generic "paint a pixel rectangle" spec: pixel columns `[px0, px1)`, framebuffer rows
`[r0, r1)`; `color px py` gives the stored bytes of the pixel at column `px`, row `py`
(both relative to the rectangle's origin).  Only the first `|bytes|` bytes of each pixel are
written (24-bit colour in a 32-bit pixel leaves the fourth byte alone). -/
def paint (c : Cons) (old : Nat → UInt8) (px0 px1 r0 r1 : Nat) (color : Nat → Nat → List UInt8) : Nat → UInt8 := fun i =>
  let r := i / c.pitch
  let b := i % c.pitch
  let px := b / c.bytesPerPixel
  let k := b % c.bytesPerPixel
  if r0 ≤ r ∧ r < r1 ∧ px0 ≤ px ∧ px < px1 then
    match (color (px - px0) (r - r0))[k]? with
    | some v => v
    | none => old i
  else old i

def pixWrite (c : Cons) (f : Font) (old : Nat → UInt8) (ch fg bg x y : Nat) : Nat → UInt8 :=
  if 1 ≤ x ∧ x ≤ c.cols ∧ 1 ≤ y ∧ y ≤ c.rows then
    paint c old ((x - 1) * f.gw) (x * f.gw) (c.offsetY + (y - 1) * f.gh) (c.offsetY + y * f.gh)
      (fun px py => if glyphBit f ch px py then colorBytes c fg else colorBytes c bg)
  else old

def pixFill (c : Cons) (f : Font) (old : Nat → UInt8) (x y w h bg : Nat) : Nat → UInt8 :=
  let r := fillRect c.cols c.rows x y w h
  paint c old (r.x0 * f.gw) (r.x1 * f.gw) (c.offsetY + r.y0 * f.gh) (c.offsetY + r.y1 * f.gh)
    (fun _ _ => colorBytes c bg)

/-- scrolling moves the visible bytes (`width*bytesPerPixel` per row) of the rows below the logo
by `lines*gh` pixel rows; padding bytes and logo rows keep their contents -/
def pixScroll (c : Cons) (f : Font) (old : Nat → UInt8) (dir lines : Nat) : Nat → UInt8 := fun i =>
  let r := i / c.pitch
  let b := i % c.pitch
  let d := lines * f.gh
  if 1 ≤ lines ∧ lines ≤ c.rows ∧ b < c.width * c.bytesPerPixel then
    if dir = 0 then
      if c.offsetY ≤ r ∧ r + d < c.height then old (i + d * c.pitch) else old i
    else if dir = 1 then
      if c.offsetY + d ≤ r ∧ r < c.height then old (i - d * c.pitch) else old i
    else old i
  else old i

end Pixel
end Firefly.Spec.Console
