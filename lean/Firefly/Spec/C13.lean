import Firefly.Model.AmlTree
/-!
# C13 — specification side (core Lean only; used by the replay oracle and by `Props/C13.lean`)

* `Forest` — the abstract namespace: node identities, ordered child lists, names (a rose forest
  presented by its child-list function; there are **no parent pointers** in it: `parentOf` is
  derived by searching the child lists).
* `resolve` — the ACPI lookup rule in four clauses over "a node's children are its scope".
* `Path`, `encode`, `decode` — name strings as the AML name encoder produces them.
* `WF` — well-formedness of an index-linked pool, and the certificate checker `wfCert` the
  replay oracle runs on the *implementation's* dumped pool (`wfCert_sound : wfCert … → WF`).
* the caller contracts of the five editing operations as decidable predicates.
-/
namespace Firefly.C13
open Firefly.AmlTree Firefly.AmlTree.ObjectTree

abbrev INV : Nat := InvalidIndex

/-! ## total field accessors (`default` outside the pool) -/

def slot (t : ObjectTree) (i : Nat) : Obj := t.pool[i]?.getD default
def P (t : ObjectTree) (i : Nat) : Nat := (slot t i).parentIndex
def Pv (t : ObjectTree) (i : Nat) : Nat := (slot t i).prevSiblingIndex
def Nx (t : ObjectTree) (i : Nat) : Nat := (slot t i).nextSiblingIndex
def Fi (t : ObjectTree) (i : Nat) : Nat := (slot t i).firstArgIndex
def La (t : ObjectTree) (i : Nat) : Nat := (slot t i).lastArgIndex

/-- position `i` holds an object that has not been freed -/
def live (t : ObjectTree) (i : Nat) : Bool :=
  decide (i < t.pool.size) && decide ((slot t i).opcode ≠ pOpIntFreedObject)

/-! ## abstract namespace -/

structure Forest where
  /-- identities of the nodes (live pool positions, ascending) -/
  ids : List Nat
  /-- ordered children = the node's scope -/
  kids : Nat → List Nat
  name : Nat → Name

/-- abstraction of a pool: live positions; children by walking `firstArg`/`nextSibling` -/
def abs (t : ObjectTree) : Forest where
  ids := (List.range t.pool.size).filter (live t)
  kids := fun i => match t.args i with | .ok l => l | .error _ => []
  name := fun i => (slot t i).name

namespace Forest

/-- the node whose child list contains `i` -/
def parentOf (F : Forest) (i : Nat) : Option Nat := F.ids.find? fun p => (F.kids p).contains i

/-- first child of `s` named `nm` -/
def lookIn (F : Forest) (s : Nat) (nm : Name) : Option Nat := (F.kids s).find? fun k => F.name k = nm

/-- clause "each `^` one level up"; `none` above a root -/
def climb (F : Forest) : Nat → Nat → Option Nat
  | 0, s => some s
  | k+1, s => (F.parentOf s).bind (climb F k)

/-- clause "multi-segment names are resolved downward only" -/
def descend (F : Forest) : Nat → List Name → Option Nat
  | s, [] => some s
  | s, nm :: rest => (F.lookIn s nm).bind fun k => descend F k rest

/-- clause "single-segment names are searched in the starting scope and then each enclosing scope" -/
def searchUp (F : Forest) (nm : Name) : Nat → Nat → Option Nat
  | 0, _ => none
  | f+1, s =>
    match F.lookIn s nm with
    | some k => some k
    | none => (F.parentOf s).bind (searchUp F nm f)

end Forest

/-! ## name strings -/

inductive Pre where
  /-- `\` -/
  | root
  /-- `k` parent prefixes `^` (`k = 0`: a relative name) -/
  | up (k : Nat)
  deriving DecidableEq, Repr

inductive Form where
  /-- NameSeg / DualNamePrefix(0x2e) / MultiNamePrefix(0x2f) by segment count -/
  | canon
  /-- MultiNamePrefix + SegCount for any count ≥ 1 -/
  | multi
  /-- segments just concatenated (`"FOOFBAR0"`), as the package's own tests pass them -/
  | raw
  deriving DecidableEq, Repr

structure Path where
  pre : Pre
  segs : List Name
  form : Form
  deriving DecidableEq, Repr

/-- a name segment starts with `A–Z` or `_` -/
def Path.segsOK (p : Path) : Bool := p.segs.all fun s => isNameStart s.b0

/-- the expressions the lookup is specified for: name-start lead characters, at most 255 segments,
not the empty relative name -/
def Path.valid (p : Path) : Bool :=
  p.segsOK && decide (p.segs.length ≤ 255) && !(p.pre = .up 0 && p.segs.isEmpty)

def encodePre : Pre → List UInt8
  | .root => [0x5c]
  | .up k => List.replicate k 0x5e

def encodeBody (segs : List Name) (form : Form) : List UInt8 :=
  let bytes := segs.flatMap Name.toList
  match form, segs.length with
  | _, 0 => []
  | .raw, _ => bytes
  | .multi, n => 0x2f :: UInt8.ofNat n :: bytes
  | .canon, 1 => bytes
  | .canon, 2 => 0x2e :: bytes
  | .canon, n => 0x2f :: UInt8.ofNat n :: bytes

def encode (p : Path) : List UInt8 := encodePre p.pre ++ encodeBody p.segs p.form

/-- "the search rules apply": a relative, unprefixed, plain single NameSeg -/
def Path.isSimple (p : Path) : Bool :=
  p.pre = .up 0 && p.segs.length = 1 && (p.form = .canon || p.form = .raw)

/-- **The lookup rule.**  root prefix → start at node 0; `k` carets → `k` parents up (not found
above a root); a simple name → scope, then each enclosing scope; anything else → downward only. -/
def resolve (F : Forest) (scope : Nat) (p : Path) : Option Nat :=
  if p.isSimple then
    match p.segs with
    | nm :: _ => F.searchUp nm (F.ids.length + 1) scope
    | [] => none
  else
    let start := match p.pre with
      | .root => some 0
      | .up k => F.climb k scope
    start.bind fun s => F.descend s p.segs

/-- the `uint32` result convention of `Find` -/
def optIdx : Option Nat → Nat
  | some i => i
  | none => INV

/-! ### decoding (for the oracle: which `Path`, if any, does a byte string encode?) -/

def takeSegs : Nat → List UInt8 → Option (List Name)
  | 0, [] => some []
  | 0, _ => none
  | n+1, a :: b :: c :: d :: rest => (takeSegs n rest).map (⟨a, b, c, d⟩ :: ·)
  | _+1, _ => none

def stripCarets : List UInt8 → Nat × List UInt8
  | [] => (0, [])
  | b :: rest => if b = 0x5e then let (k, r) := stripCarets rest; (k + 1, r) else (0, b :: rest)

def decodeBody (b : List UInt8) : Option (List Name × Form) :=
  match b with
  | [] => some ([], .canon)
  | c :: rest =>
    if c = 0x2e then (takeSegs 2 rest).map (·, .canon)
    else if c = 0x2f then
      match rest with
      | [] => none
      | n :: rest =>
        if n = 0 then none else (takeSegs n.toNat rest).map (·, if n.toNat ≥ 3 then .canon else .multi)
    else if b.length % 4 = 0 then
      (takeSegs (b.length / 4) b).map (·, if b.length = 4 then .canon else .raw)
    else none

/-- candidate path of a byte string (prefix, then body) -/
def decodeCandidate (e : List UInt8) : Option Path :=
  let (pre, body) : Pre × List UInt8 := match e with
    | [] => (.up 0, [])
    | b :: rest => if b = 0x5c then (.root, rest) else let (k, r) := stripCarets e; (.up k, r)
  (decodeBody body).map fun (segs, form) => ⟨pre, segs, form⟩

/-- the path a byte string encodes, if it is in the image of `encode` on valid paths -/
def decode (e : List UInt8) : Option Path :=
  match decodeCandidate e with
  | none => none
  | some p => if p.valid && encode p = e then some p else none

/-! ## well-formedness -/

/-- a link field is either the sentinel or a live position -/
def linkOK (t : ObjectTree) (x : Nat) : Bool := x = INV || live t x

/-- local link agreement at a live position `i` (both directions) -/
def localOK (t : ObjectTree) (i : Nat) : Bool :=
  let p := P t i; let pv := Pv t i; let nx := Nx t i; let fi := Fi t i; let la := La t i
  linkOK t p && linkOK t pv && linkOK t nx && linkOK t fi && linkOK t la &&
  -- a detached node has no siblings
  (p ≠ INV || (pv = INV && nx = INV)) &&
  -- sibling links mirror each other and stay under one parent
  (pv = INV || (Nx t pv = i && P t pv = p)) &&
  (nx = INV || (Pv t nx = i && P t nx = p)) &&
  -- the ends of a sibling list are what the parent records
  (p = INV || pv ≠ INV || Fi t p = i) &&
  (p = INV || nx ≠ INV || La t p = i) &&
  -- the recorded ends are children of `i` and are ends
  (fi = INV || (P t fi = i && Pv t fi = INV)) &&
  (la = INV || (P t la = i && Nx t la = INV)) &&
  (decide (fi = INV) == decide (la = INV))

/-- the free list from `head`: threaded through `nextSiblingIndex`, freed slots only -/
def FreeChain (t : ObjectTree) : Nat → List Nat → Prop
  | h, [] => h = INV
  | h, x :: xs => h = x ∧ x < t.pool.size ∧ live t x = false ∧ FreeChain t (Nx t x) xs

def freeChainB (t : ObjectTree) : Nat → List Nat → Bool
  | h, [] => h = INV
  | h, x :: xs => h = x && decide (x < t.pool.size) && !live t x && freeChainB t (Nx t x) xs

/-- **Well-formed pool.** -/
structure WF (t : ObjectTree) : Prop where
  /-- every position differs from the sentinel -/
  size_le : t.pool.size ≤ INV
  /-- `obj.index` is the object's pool position -/
  index_eq : ∀ i, i < t.pool.size → (slot t i).index = i
  /-- links agree in both directions and only reach live objects (no freed object reachable) -/
  loc : ∀ i, live t i = true → localOK t i = true
  /-- parent chains are acyclic -/
  rank : ∃ rk : Nat → Nat, ∀ i, live t i = true → P t i ≠ INV → rk (P t i) < rk i
  /-- sibling chains are acyclic -/
  order : ∃ pos : Nat → Nat, ∀ i, live t i = true → Nx t i ≠ INV → pos i < pos (Nx t i)
  /-- the free list is exactly the set of freed slots -/
  free : ∃ fl, FreeChain t t.freeListHeadIndex fl ∧ ∀ i, i < t.pool.size → live t i = false → i ∈ fl

/-- certificate check: `rk`, `pos` are candidate rank arrays and `fl` the candidate free list -/
def wfCert (t : ObjectTree) (rk pos : Array Nat) (fl : List Nat) : Bool :=
  decide (t.pool.size ≤ INV) &&
  (List.range t.pool.size).all (fun i =>
    (slot t i).index = i &&
    (if live t i then
      localOK t i &&
      (P t i = INV || decide (rk.getD (P t i) 0 < rk.getD i 0)) &&
      (Nx t i = INV || decide (pos.getD i 0 < pos.getD (Nx t i) 0))
     else fl.contains i)) &&
  freeChainB t t.freeListHeadIndex fl

/-- which clause of `wfCert` fails first (for `PROPFAIL clause=`), `none` if all hold -/
def wfFailure (t : ObjectTree) (rk pos : Array Nat) (fl : List Nat) : Option String :=
  if ¬ t.pool.size ≤ INV then some "wf-size" else
  if ¬ freeChainB t t.freeListHeadIndex fl then some "wf-free-list-chain" else
  (List.range t.pool.size).findSome? fun i =>
    if (slot t i).index ≠ i then some "wf-index" else
    if live t i then
      if ¬ localOK t i then some "wf-links"
      else if ¬ (P t i = INV || decide (rk.getD (P t i) 0 < rk.getD i 0)) then some "wf-parent-cycle"
      else if ¬ (Nx t i = INV || decide (pos.getD i 0 < pos.getD (Nx t i) 0)) then some "wf-sibling-cycle"
      else none
    else if ¬ fl.contains i then some "wf-free-list-misses-slot" else none

/-- untrusted certificate computation: first-child/next-sibling traversal from the roots -/
def certLoop (t : ObjectTree) : Nat → List (Nat × Nat × Nat) → Array Nat → Array Nat → Array Nat × Array Nat
  | 0, _, rk, pos => (rk, pos)
  | _, [], rk, pos => (rk, pos)
  | f+1, (i, d, p) :: stack, rk, pos =>
    if i < t.pool.size then
      let stack := if Nx t i ≠ INV then (Nx t i, d, p + 1) :: stack else stack
      let stack := if Fi t i ≠ INV then (Fi t i, d + 1, 0) :: stack else stack
      certLoop t f stack (rk.setIfInBounds i d) (pos.setIfInBounds i p)
    else certLoop t f stack rk pos

def freeWalk (t : ObjectTree) : Nat → Nat → List Nat
  | 0, _ => []
  | f+1, h => if h < t.pool.size then h :: freeWalk t f (Nx t h) else []

/-- candidate certificate for `t` -/
def mkCert (t : ObjectTree) : Array Nat × Array Nat × List Nat :=
  let n := t.pool.size
  let roots := (List.range n).filter fun i => live t i && P t i = INV
  let z := Array.replicate n 0
  let (rk, pos) := certLoop t (2 * n + 2) (roots.map fun i => (i, 1, 0)) z z
  (rk, pos, freeWalk t (n + 1) t.freeListHeadIndex)

/-- executable well-formedness check used by the oracle -/
def wfCheck (t : ObjectTree) : Bool :=
  let (rk, pos, fl) := mkCert t
  wfCert t rk pos fl

def wfWhy (t : ObjectTree) : Option String :=
  let (rk, pos, fl) := mkCert t
  wfFailure t rk pos fl

/-! ## caller contracts of the editing operations (decidable) -/

/-- `a` is `x` or one of its ancestors (parent walk with fuel) -/
def isAncestorOrSelf (t : ObjectTree) (a : Nat) : Nat → Nat → Bool
  | 0, _ => false
  | f+1, x => x = a || (P t x ≠ INV && isAncestorOrSelf t a f (P t x))

def newPre (t : ObjectTree) : Bool := decide (t.pool.size < INV)

/-- `append(obj, arg)`: both live, `arg` detached, `obj` not inside `arg`'s subtree -/
def appendPre (t : ObjectTree) (obj arg : Nat) : Bool :=
  live t obj && live t arg && P t arg = INV && !isAncestorOrSelf t arg t.fuel obj

/-- `appendAfter(obj, arg, nextTo)`: as `append`, and `nextTo` is a child of `obj` -/
def appendAfterPre (t : ObjectTree) (obj arg nextTo : Nat) : Bool :=
  appendPre t obj arg && live t nextTo && P t nextTo = obj

/-- `detach(obj, arg)`: `arg` is a child of `obj` -/
def detachPre (t : ObjectTree) (obj arg : Nat) : Bool :=
  live t obj && live t arg && P t arg = obj

/-- `free(obj)`: live and without arguments -/
def freePre (t : ObjectTree) (obj : Nat) : Bool :=
  live t obj && Fi t obj = INV && La t obj = INV

/-- insert `x` right after the first occurrence of `a` -/
def insertAfter (a x : Nat) : List Nat → List Nat
  | [] => []
  | y :: ys => if y = a then y :: x :: ys else y :: insertAfter a x ys

/-! ## operation histories -/

/-- the five editing operations -/
inductive Op where
  | new (opcode info tableHandle : Nat)
  | append (obj arg : Nat)
  | appendAfter (obj arg nextTo : Nat)
  | detach (obj arg : Nat)
  | free (obj : Nat)
  deriving DecidableEq, Repr

/-- the caller contract of an operation in state `t` -/
def Op.pre (t : ObjectTree) : Op → Bool
  | .new opcode _ _ => newPre t && decide (opcode ≠ pOpIntFreedObject)
  | .append obj arg => appendPre t obj arg
  | .appendAfter obj arg nextTo => appendAfterPre t obj arg nextTo
  | .detach obj arg => detachPre t obj arg
  | .free obj => freePre t obj

/-- running one operation of the model -/
def Op.run (t : ObjectTree) : Op → Res ObjectTree
  | .new opcode info th => (t.newObject opcode info th).map (·.1)
  | .append obj arg => t.append obj arg
  | .appendAfter obj arg nextTo => t.appendAfter obj arg nextTo
  | .detach obj arg => t.detach obj arg
  | .free obj => t.free obj

/-- running a history -/
def runOps (t : ObjectTree) : List Op → Res ObjectTree
  | [] => .ok t
  | o :: os => (o.run t).bind fun t' => runOps t' os

/-- a contract-respecting history: every operation's contract holds in the state it runs in -/
def Legal (t : ObjectTree) : List Op → Prop
  | [] => True
  | o :: os => o.pre t = true ∧ ∀ t', o.run t = .ok t' → Legal t' os

/-- executable version of `Legal` (used for concrete examples) -/
def legalB (t : ObjectTree) : List Op → Bool
  | [] => true
  | o :: os => o.pre t && (match o.run t with | .ok t' => legalB t' os | .error _ => true)

theorem legal_of_legalB : ∀ (ops : List Op) (t : ObjectTree), legalB t ops = true → Legal t ops := by
  intro ops
  induction ops with
  | nil => intro t _; trivial
  | cons o os ih =>
    intro t h
    simp only [legalB, Bool.and_eq_true] at h
    refine ⟨h.1, fun t' ht' => ?_⟩
    have h2 := h.2
    rw [ht'] at h2
    exact ih t' h2

end Firefly.C13
