import Firefly.Model.Multiboot
/-!
Specification side of C10: what a multiboot2 information block *is* (`Tag`, a list of tags in
any order, duplicates allowed), how it is laid out in memory (`encode` — the same function the
Go generator `c10Encode` implements; the replay compares the two byte for byte), when it is
well formed (`wf`, decidable), and what the kernel must report for it (`exp…`).  Nothing here
looks at bytes when computing an expectation.
-/
namespace Firefly.MBSpec
open Firefly.Multiboot

structure MemEntry where
  addr : Nat
  len : Nat
  ty : Nat
deriving DecidableEq, Repr

structure Sec where
  name : Nat
  typ : Nat
  flags : Nat
  addr : Nat
  off : Nat
  size : Nat
  link : Nat
  info : Nat
  align : Nat
  entsize : Nat
deriving DecidableEq, Repr

/-- one blank-separated word of the command line: its `=`-separated parts and the white space
that follows it -/
structure CmdTok where
  parts : List (List UInt8)
  sep : List UInt8
deriving DecidableEq, Repr

inductive Tag where
  | mmap (esz ver : Nat) (ents : List MemEntry)
  | fb (phys pitch w h bpp ty rsv : Nat) (color : List UInt8)
  | cmd (lead : List UInt8) (toks : List CmdTok)
  | elf (entsize shndx : Nat) (secs : List Sec) (trail : List UInt8)
  | other (ty : Nat) (payload : List UInt8)
deriving DecidableEq, Repr

/-! ### layout -/

def le : Nat → Nat → List UInt8
  | 0, _ => []
  | n + 1, v => UInt8.ofNat (v % 256) :: le n (v / 256)

def Tag.typeNo : Tag → Nat
  | .mmap .. => 6
  | .fb .. => 8
  | .cmd .. => 1
  | .elf .. => 9
  | .other ty _ => ty

def encEntry (esz : Nat) (e : MemEntry) : List UInt8 :=
  le 8 e.addr ++ le 8 e.len ++ le 4 e.ty ++ List.replicate (esz - 20) 0xEE

def encSec (s : Sec) : List UInt8 :=
  le 4 s.name ++ le 4 s.typ ++ le 8 s.flags ++ le 8 s.addr ++ le 8 s.off ++ le 8 s.size ++
  le 4 s.link ++ le 4 s.info ++ le 8 s.align ++ le 8 s.entsize

/-- the parts joined with `=` -/
def joinEq : List (List UInt8) → List UInt8
  | [] => []
  | [p] => p
  | p :: q :: rest => p ++ 0x3D :: joinEq (q :: rest)

def tokText (t : CmdTok) : List UInt8 := joinEq t.parts

def cmdText (lead : List UInt8) (toks : List CmdTok) : List UInt8 :=
  lead ++ toks.flatMap fun t => tokText t ++ t.sep

def Tag.body : Tag → List UInt8
  | .mmap esz ver ents => le 4 esz ++ le 4 ver ++ ents.flatMap (encEntry esz)
  | .fb phys pitch w h bpp ty rsv color =>
    le 8 phys ++ le 4 pitch ++ le 4 w ++ le 4 h ++ le 1 bpp ++ le 1 ty ++ le 2 rsv ++ color
  | .cmd lead toks => cmdText lead toks ++ [0]
  | .elf entsize shndx secs trail =>
    le 4 secs.length ++ le 4 entsize ++ le 4 shndx ++ secs.flatMap encSec ++ trail
  | .other _ payload => payload

def padLen (n : Nat) : Nat := (8 - n % 8) % 8

def encTag (t : Tag) : List UInt8 :=
  le 4 t.typeNo ++ le 4 (8 + t.body.length) ++ t.body ++ List.replicate (padLen t.body.length) 0xA5

def encTags (tags : List Tag) : List UInt8 := tags.flatMap encTag

def endTag : List UInt8 := le 4 0 ++ le 4 8

def encode (tags : List Tag) : List UInt8 :=
  le 4 (16 + (encTags tags).length) ++ le 4 0 ++ encTags tags ++ endTag

/-! ### what must be reported -/

def firstOf (t : Nat) : List Tag → Option Tag
  | [] => none
  | x :: xs => if x.typeNo = t then some x else firstOf t xs

/-- region types outside the defined set 1…4 are reported as reserved (2) -/
def normType (ty : Nat) : Nat := if 1 ≤ ty ∧ ty ≤ 4 then ty else 2

def expRegions (tags : List Tag) : List Region :=
  match firstOf 6 tags with
  | some (.mmap _ _ ents) => ents.map fun e => ⟨e.addr, e.len, normType e.ty⟩
  | _ => []

/-- the first `k` entries with their type normalised -/
def normEnts : Nat → List MemEntry → List MemEntry
  | 0, es => es
  | _ + 1, [] => []
  | k + 1, e :: es => { e with ty := normType e.ty } :: normEnts k es

/-- the tag list after `VisitMemRegions` has shown the first `k` entries of the first memory map
to its visitor: their type fields hold the normalised type, everything else is as before -/
def normFirst (k : Nat) : List Tag → List Tag
  | [] => []
  | .mmap esz ver ents :: rest => .mmap esz ver (normEnts k ents) :: rest
  | x :: rest => x :: normFirst k rest

/-- (fields, RGB layout) — the pointer is not part of the expectation -/
def expFb (tags : List Tag) : Option (List Nat × Option (List UInt8)) :=
  match firstOf 8 tags with
  | some (.fb phys pitch w h bpp ty _ color) =>
    some ([phys, pitch, w, h, bpp, ty], if ty = 1 then some (color.take 6) else none)
  | _ => none

def tokKV (acc : KV) (t : CmdTok) : KV :=
  match t.parts with
  | [k] => kvInsert k k acc
  | [k, v] => kvInsert k v acc
  | _ => acc

def expCmd (tags : List Tag) : KV :=
  match firstOf 1 tags with
  | some (.cmd _ toks) => toks.foldl tokKV []
  | _ => []

/-- NUL-terminated string at `i` in the string table -/
def cstr (stab : List UInt8) (i : Nat) : List UInt8 := (stab.drop i).takeWhile (· ≠ 0)

def expSections (stab : List UInt8) (tags : List Tag) : List Section :=
  match firstOf 9 tags with
  | some (.elf _ _ secs _) =>
    (secs.filter (·.size ≠ 0)).map fun s => ⟨cstr stab s.name, s.flags % 2^32, s.addr, s.size⟩
  | _ => []

/-! ### well-formedness (decidable; every generated case is checked against it) -/

def noSpaceIn : List UInt8 → Bool
  | [] => true
  | b :: rest => spaceWidth (b :: rest) = 0 && noSpaceIn rest

/-- a run of complete white-space runes -/
def spaceRun : List UInt8 → Nat → Bool
  | [], k => k = 0
  | _ :: rest, k + 1 => spaceRun rest k
  | b :: rest, 0 => spaceWidth (b :: rest) ≠ 0 && spaceRun rest (spaceWidth (b :: rest) - 1)

def partOk (p : List UInt8) : Bool := p.all (fun b => b ≠ 0 && b ≠ 0x3D) && noSpaceIn p

def tokOk (last : Bool) (t : CmdTok) : Bool :=
  t.parts.all partOk && tokText t ≠ [] && spaceRun t.sep 0 && (last || t.sep ≠ [])

def toksOk : List CmdTok → Bool
  | [] => true
  | [t] => tokOk true t
  | t :: rest => tokOk false t && toksOk rest

def secOk (stab : List UInt8) (s : Sec) : Bool :=
  s.name < 2^32 && s.typ < 2^32 && s.flags < 2^64 && s.addr < 2^64 && s.off < 2^64 && s.size < 2^64 &&
  s.link < 2^32 && s.info < 2^32 && s.align < 2^64 && s.entsize < 2^64 &&
  (s.size = 0 || (s.name < stab.length && (stab.drop s.name).contains 0))

def Tag.wf (sbase : Nat) (stab : List UInt8) : Tag → Bool
  | .mmap esz ver ents =>
    24 ≤ esz && esz < 2^32 && ver < 2^32 && ents.all fun e => e.addr < 2^64 && e.len < 2^64 && e.ty < 2^32
  | .fb phys pitch w h bpp ty rsv color =>
    phys < 2^64 && pitch < 2^32 && w < 2^32 && h < 2^32 && bpp < 256 && ty < 256 && rsv < 65536 &&
    (ty ≠ 1 || 6 ≤ color.length)
  | .cmd lead toks => spaceRun lead 0 && toksOk toks
  | .elf entsize shndx secs _ =>
    entsize = 64 && shndx < 2^32 && secs.length < 65536 && secs.all (secOk stab) &&
    (secs.all (·.size = 0) || (secs[shndx]?.map (·.addr)) = some sbase)
  | .other ty _ => ty < 2^32 && ty ≠ 0 && ty ≠ 1 && ty ≠ 6 && ty ≠ 8 && ty ≠ 9

/-- the whole input: tags, where the block lies, the string table and where it lies -/
def wf (base sbase : Nat) (stab : List UInt8) (tags : List Tag) : Bool :=
  tags.all (fun t => t.wf sbase stab && 8 + t.body.length + 7 < 2^31) &&
  (encode tags).length < 2^32 &&
  base + (encode tags).length < 2^64 && sbase + stab.length < 2^64 &&
  (base + (encode tags).length ≤ sbase || sbase + stab.length ≤ base)

def mkMem (base sbase : Nat) (stab : List UInt8) (tags : List Tag) : Mem :=
  ⟨base, encode tags, sbase, stab⟩

end Firefly.MBSpec
