import Firefly.Model.Vt
/-!
# The reference terminal of C17 and the abstract console grid of C18

`Term` is the "simple reference terminal" of the property text: a grid of `h + sb` lines of `w`
cells `(char, fg, bg)`, a 1-based cursor inside the viewport and the viewport's first line.
Nothing here knows about byte offsets.  `absVT` reads a `VT` model state (or the state dumped by
the real code) as such a terminal; the oracle compares the two.  Core Lean only.
-/
namespace Firefly.Term
open Firefly.Vt

structure Cell where
  ch : UInt8
  fg : UInt8
  bg : UInt8
  deriving DecidableEq, Repr, Inhabited

abbrev Grid := List (List Cell)

structure Term where
  /-- columns, viewport lines, scrollback lines, tab width -/
  w : Nat
  h : Nat
  sb : Nat
  tab : Nat
  /-- default colours -/
  fg : UInt8
  bg : UInt8
  /-- `h + sb` lines of `w` cells, line 0 first -/
  grid : Grid
  /-- cursor, 1-based, relative to the viewport -/
  cx : Nat
  cy : Nat
  /-- grid line shown on the first console line -/
  vy : Nat
  deriving DecidableEq, Repr

namespace Term

def blank (t : Term) : Cell := ⟨32, t.fg, t.bg⟩

/-- a freshly attached terminal -/
def new (w h sb tab : Nat) (fg bg : UInt8) : Term :=
  { w, h, sb, tab, fg, bg, cx := 1, cy := 1, vy := 0,
    grid := List.replicate (h + sb) (List.replicate w ⟨32, fg, bg⟩) }

/-- store a character at the cursor in the default colours -/
def put (t : Term) (ch : UInt8) : Term :=
  { t with grid := t.grid.modify (t.vy + t.cy - 1) fun line => line.set (t.cx - 1) ⟨ch, t.fg, t.bg⟩ }

/-- line feed: start of the next line; on the last viewport line first move the viewport down
through the scrollback, then scroll the viewport's lines up by one and blank the last one -/
def lf (t : Term) : Term :=
  let t := { t with cx := 1 }
  if t.cy < t.h then { t with cy := t.cy + 1 }
  else if t.vy + t.h < t.h + t.sb then { t with vy := t.vy + 1 }
  else { t with grid := t.grid.take t.vy ++ (t.grid.drop (t.vy + 1)).take (t.h - 1)
                         ++ [List.replicate t.w t.blank] ++ t.grid.drop (t.vy + t.h) }

/-- store and advance, wrapping to the next line after the last column -/
def putAdv (t : Term) (ch : UInt8) : Term :=
  let t := t.put ch
  if t.cx < t.w then { t with cx := t.cx + 1 } else t.lf

def rep (f : Term → Term) : Nat → Term → Term
  | 0, t => t
  | n + 1, t => rep f n (f t)

def byte (t : Term) (b : UInt8) : Term :=
  if b = 13 then { t with cx := 1 }                                   -- carriage return
  else if b = 10 then t.lf                                            -- line feed
  else if b = 8 then (if t.cx > 1 then ({ t with cx := t.cx - 1 }).put 32 else t)  -- backspace
  else if b = 9 then rep (·.putAdv 32) t.tab t                         -- tab
  else t.putAdv b

def clamp (v hi : Nat) : Nat := if v < 1 then 1 else if v > hi then hi else v

def setCursor (t : Term) (x y : Nat) : Term := { t with cx := clamp x t.w, cy := clamp y t.h }

/-- what the user sees: the `h` lines starting at the viewport origin -/
def viewport (t : Term) : Grid := (t.grid.drop t.vy).take t.h

def step (t : Term) : Op → Term
  | .byte b => t.byte b
  | .cursor x y => t.setCursor x y
  | .state _ => t

def run (t : Term) (ops : List Op) : Term := ops.foldl step t

end Term

/-! ## Abstraction: a `VT` state (or a dump of the real one) read as a reference terminal -/

def byteAt (d : Array UInt8) (i : Nat) : UInt8 := d.getD i 0

def cellAt (d : Array UInt8) (w r c : Nat) : Cell :=
  ⟨byteAt d ((r * w + c) * 3), byteAt d ((r * w + c) * 3 + 1), byteAt d ((r * w + c) * 3 + 2)⟩

/-- the `lines × w` grid stored in a data buffer -/
def gridOf (d : Array UInt8) (w lines : Nat) : Grid :=
  (List.range lines).map fun r => (List.range w).map fun c => cellAt d w r c

def absVT (t : VT) : Term :=
  { w := t.viewportWidth, h := t.viewportHeight, sb := t.scrollback, tab := t.tabWidth,
    fg := t.defaultFg, bg := t.defaultBg, cx := t.cursorX, cy := t.cursorY, vy := t.viewportY,
    grid := gridOf t.data t.termWidth t.termHeight }

/-! ## Oracle on the implementation's dumped state -/

/-- Property clauses that fail for one dumped state `(cx, cy, vy, data)` of the real terminal,
given the reference terminal `ref` run on the same history. -/
def oracle (ref : Term) (cx cy vy : Nat) (data : Array UInt8) : List String :=
  (if data.size ≠ ref.w * (ref.h + ref.sb) * 3 then ["buffer-size"] else []) ++
  (if (cx, cy) ≠ (ref.cx, ref.cy) then ["cursor"] else []) ++
  (if vy ≠ ref.vy then ["viewport"] else []) ++
  (if gridOf data ref.w (ref.h + ref.sb) ≠ ref.grid then ["contents"] else []) ++
  (if ¬ (1 ≤ cx ∧ cx ≤ ref.w ∧ 1 ≤ cy ∧ cy ≤ ref.h ∧ vy + ref.h ≤ ref.h + ref.sb) then ["cursor-in-viewport"] else []) ++
  (if (gridOf data ref.w (ref.h + ref.sb)).drop (vy + ref.h) ≠
      List.replicate (ref.sb - vy) (List.replicate ref.w ref.blank) then ["below-viewport-blank"] else [])

/-! ## Abstract console (C18): a grid `h × w` and the meaning of the three calls -/

structure Console where
  w : Nat
  h : Nat
  cells : Grid
  /-- number of draw requests that addressed a cell outside the grid -/
  outside : Nat := 0
  deriving DecidableEq, Repr

namespace Console

def new (w h : Nat) (c : Cell) : Console := { w, h, cells := List.replicate h (List.replicate w c) }

/-- `Write(ch, fg, bg, x, y)`: cell (x,y), 1-based; outside the grid nothing is drawn -/
def write (k : Console) (ch fg bg : UInt8) (x y : Nat) : Console :=
  if 1 ≤ x ∧ x ≤ k.w ∧ 1 ≤ y ∧ y ≤ k.h then
    { k with cells := k.cells.modify (y - 1) fun line => line.set (x - 1) ⟨ch, fg, bg⟩ }
  else { k with outside := k.outside + 1 }

/-- `Scroll(ScrollDirUp, n)`: line `i+n` moves to line `i`; the last `n` lines keep their contents
(the caller repaints them) -/
def scrollUp (k : Console) (n : Nat) : Console :=
  if n = 0 ∨ n > k.h then k else
  { k with cells := k.cells.drop n ++ k.cells.drop (k.h - n) }

/-- blank the cells of lines `y … y+h-1`, columns `x … x+w-1` (1-based) -/
def fillCells (cells : Grid) (x y w h : Nat) (fg bg : UInt8) : Grid :=
  cells.mapIdx fun r line =>
    if y ≤ r + 1 ∧ r + 1 < y + h then
      (line.mapIdx fun c old => if x ≤ c + 1 ∧ c + 1 < x + w then ⟨32, fg, bg⟩ else old)
    else line

/-- `Fill(x, y, w, h, fg, bg)`: every cell of the rectangle becomes a blank in the colours given;
a rectangle that is not inside the grid counts as an outside draw (and is clipped) -/
def fill (k : Console) (x y w h : Nat) (fg bg : UInt8) : Console :=
  let inside := 1 ≤ x ∧ 1 ≤ y ∧ x + w ≤ k.w + 1 ∧ y + h ≤ k.h + 1
  { k with cells := fillCells k.cells x y w h fg bg, outside := if inside then k.outside else k.outside + 1 }

/-- the cell shown at line `r`, column `c` (0-based) -/
def «at» (k : Console) (r c : Nat) : Cell := (k.cells.getD r []).getD c default

def apply (k : Console) : Call → Console
  | .write ch fg bg x y => k.write ch fg bg x y
  | .scroll dir n => if dir = Firefly.Gen.C17.scrollDirUp then k.scrollUp n else { k with outside := k.outside + 1 }
  | .fill x y w h fg bg => k.fill x y w h fg bg

/-- apply a call log (newest first, as `VT.out` keeps it) -/
def applyLog (k : Console) (log : List Call) : Console := log.foldr (fun c k => k.apply c) k

end Console

/-- a console call is inside the grid of a `w × h` console: a cell of the grid, a scroll up by at
most the whole screen, a rectangle inside the grid (the domain on which C19 specifies the
shipped consoles without clipping) -/
def CallOk (w h : Nat) : Call → Prop
  | .write _ _ _ x y => 1 ≤ x ∧ x ≤ w ∧ 1 ≤ y ∧ y ≤ h
  | .scroll dir n => dir = Firefly.Gen.C17.scrollDirUp ∧ 1 ≤ n ∧ n ≤ h
  | .fill x y fw fh _ _ => 1 ≤ x ∧ 1 ≤ y ∧ x + fw ≤ w + 1 ∧ y + fh ≤ h + 1

end Firefly.Term
