import Firefly.Gen.C19Expr
import Firefly.Model.VgaText
import Firefly.Model.VesaFb
/-!
Tie lemmas for C19: the offset, clamp/clip, scroll-bound, cell-word and colour-range expressions
that `tools/exprgen` regenerates from `vga_text.go` / `vesa_fb.go` on every run denote the same
numbers as the terms the console models (`Model/VgaText.lean`, `Model/VesaFb.lean`: `Nat`
arithmetic reduced with `add32`/`sub32`/`mul32`) are built from.  A rewritten expression changes
`Gen/C19Expr.lean` and one of these stops checking.

`exprgen` renders every operand as `BitVec 64`; the Go code computes in `uint32`.  Sums, products
and differences are therefore compared on their low 32 bits (`lo`), which is exact because
truncation commutes with `+ - *`.  Ordered comparisons and divisions do not commute with
truncation: their lemmas carry the hypothesis that makes the 64-bit and the 32-bit value agree
(`1 ≤ x ≤ width` for the clip guards — the state after the clamp that precedes them —,
`offsetY ≤ height` for `SetFont`), stated explicitly each time.
-/
namespace Firefly.Tie.C19
-- `omega` over terms with `% 2^64` / `% 2^32` recurses deeply on the literals
set_option maxRecDepth 8000
open Firefly.FbMem Firefly.Gen.C19Expr

/-- low 32 bits of a regenerated 64-bit term -/
def lo (x : BitVec 64) : Nat := x.toNat % 4294967296

theorem lo_add (a b : BitVec 64) : lo (a + b) = add32 (lo a) (lo b) := by
  simp only [lo, add32, BitVec.toNat_add]; omega
theorem lo_sub (a b : BitVec 64) : lo (a - b) = sub32 (lo a) (lo b) := by
  have := b.isLt
  simp only [lo, sub32, BitVec.toNat_sub]; omega
theorem lo_mul (a b : BitVec 64) : lo (a * b) = mul32 (lo a) (lo b) := by
  simp only [lo, mul32, BitVec.toNat_mul]
  rw [Nat.mod_mod_of_dvd _ (by decide : 4294967296 ∣ 2 ^ 64), Nat.mul_mod]
theorem lo_small (a : BitVec 64) (h : a.toNat < 4294967296) : lo a = a.toNat := Nat.mod_eq_of_lt h
theorem lo_zero : lo 0#64 = 0 := by decide
theorem lo_one : lo 1#64 = 1 := by decide

/-- One normal form for the additive expressions and the guards over them: everything is read
through `toNat` as arithmetic modulo `2^64` / `2^32` and handed to `omega`.  The same script proves
the lemma for any *equivalent* way of writing the Go expression (`w - x + 1` vs `w - (x - 1)`,
a hoisted local, `>=` vs `>` where the assignment is the identity at equality): a
behaviour-preserving rewrite keeps the tie, a changed bound or comparison breaks it. -/
macro "tie_norm" : tactic => `(tactic| simp only [lo, add32, sub32, BitVec.toNat_add, BitVec.toNat_sub, BitVec.toNat_ofNat,
    BitVec.toNat_setWidth, BitVec.toNat_eq, BitVec.lt_def, BitVec.le_def, gt_iff_lt, ge_iff_le, decide_eq_true_eq,
    decide_eq_decide, Bool.or_eq_true, Bool.and_eq_true])
macro "tie_lin" : tactic => `(tactic| (tie_norm <;> omega))
/-- the same for values selected by an `if` chain: split every `if`, then `omega` -/
macro "tie_ite" : tactic => `(tactic| (tie_norm <;> (repeat' split) <;> omega))

/-- guards: a regenerated `Bool` equals the model's decision, through the same normal form -/
macro "tie_guard" : tactic => `(tactic| (rw [Bool.eq_iff_iff]; tie_norm <;> omega))

/-! ## `fbOffset` -/

/-- `((y + offsetY) * pitch) + (x * bytesPerPixel)` -/
theorem tie_fbOffset (y oy p x b : BitVec 64) (hy : y.toNat < 4294967296) (hoy : oy.toNat < 4294967296)
    (hp : p.toNat < 4294967296) (hx : x.toNat < 4294967296) (hb : b.toNat < 4294967296) :
    lo (fbOffset y oy p x b) =
      VesaFb.fbOffset { bpp := 0, bytesPerPixel := b.toNat, width := 0, height := 0, pitch := p.toNat, offsetY := oy.toNat }
        x.toNat y.toNat := by
  simp only [fbOffset, VesaFb.fbOffset, lo_add, lo_mul, lo_small _ hy, lo_small _ hoy, lo_small _ hp, lo_small _ hx, lo_small _ hb]

/-! ## `Fill`: clamp and clip (the D9 sites), both consoles -/

/-- the clamp — guards and assigned values together, as the function `x ↦ x'` it computes — is
`clampOrigin` (so `x >= w` and `x > w` are the same clamp: at `x = w` the assignment is the identity) -/
theorem tie_textFillClamp (x w : BitVec 64) :
    VgaText.clampOrigin x.toNat w.toNat =
      if textFillXZero x then 1 else if textFillXBeyond x w then w.toNat else x.toNat := by
  unfold VgaText.clampOrigin textFillXZero textFillXBeyond
  tie_ite
theorem tie_textFillClampY (y h : BitVec 64) :
    VgaText.clampOrigin y.toNat h.toNat =
      if textFillYZero y then 1 else if textFillYBeyond y h then h.toNat else y.toNat := by
  unfold VgaText.clampOrigin textFillYZero textFillYBeyond
  tie_ite
theorem tie_pixFillClamp (x w : BitVec 64) :
    VesaFb.clampOrigin x.toNat w.toNat =
      if pixFillXZero x then 1 else if pixFillXBeyond x w then w.toNat else x.toNat := by
  unfold VesaFb.clampOrigin pixFillXZero pixFillXBeyond
  tie_ite
theorem tie_pixFillClampY (y h : BitVec 64) :
    VesaFb.clampOrigin y.toNat h.toNat =
      if pixFillYZero y then 1 else if pixFillYBeyond y h then h.toNat else y.toNat := by
  unfold VesaFb.clampOrigin pixFillYZero pixFillYBeyond
  tie_ite

/-- `Fill` returns at once on an empty grid (and, for the pixel console, without a font) -/
theorem tie_fillEmptyGrid (w h font nil : BitVec 64) :
    textFillEmptyGrid w h = decide (w.toNat = 0 ∨ h.toNat = 0) ∧
    pixFillEmptyGrid font nil w h = (decide (font = nil) || decide (w.toNat = 0 ∨ h.toNat = 0)) := by
  constructor
  · unfold textFillEmptyGrid; tie_guard
  · unfold pixFillEmptyGrid; tie_guard

/-- the clipped extent `width - x + 1` -/
theorem tie_textFillClipW (w x : BitVec 64) (hw : w.toNat < 4294967296) (hx : x.toNat < 4294967296) :
    lo (textFillClipW w x) = add32 (sub32 w.toNat x.toNat) 1 := by
  unfold textFillClipW
  tie_lin
theorem tie_textFillClipH (h y : BitVec 64) (hh : h.toNat < 4294967296) (hy : y.toNat < 4294967296) :
    lo (textFillClipH h y) = add32 (sub32 h.toNat y.toNat) 1 := by
  unfold textFillClipH
  tie_lin
theorem tie_pixFillClipW (w x : BitVec 64) (hw : w.toNat < 4294967296) (hx : x.toNat < 4294967296) :
    lo (pixFillClipW w x) = add32 (sub32 w.toNat x.toNat) 1 := by
  unfold pixFillClipW
  tie_lin
theorem tie_pixFillClipH (h y : BitVec 64) (hh : h.toNat < 4294967296) (hy : y.toNat < 4294967296) :
    lo (pixFillClipH h y) = add32 (sub32 h.toNat y.toNat) 1 := by
  unfold pixFillClipH
  tie_lin

/-- the clip guard compares the extent with the room left — no sum of origin and extent, nothing
that can wrap (the repaired D9 expression).  `1 ≤ x ≤ width` is the state after the clamp. -/
theorem tie_fillClipGuard (e w x : BitVec 64) (hw : w.toNat < 4294967296) (hx : 1 ≤ x.toNat ∧ x.toNat ≤ w.toNat) :
    textFillClipWGuard e w x = decide (e.toNat > add32 (sub32 w.toNat x.toNat) 1) ∧
    textFillClipHGuard e w x = decide (e.toNat > add32 (sub32 w.toNat x.toNat) 1) ∧
    pixFillClipWGuard e w x = decide (e.toNat > add32 (sub32 w.toNat x.toNat) 1) ∧
    pixFillClipHGuard e w x = decide (e.toNat > add32 (sub32 w.toNat x.toNat) 1) := by
  have := e.isLt
  refine ⟨?_, ?_, ?_, ?_⟩
  · unfold textFillClipWGuard; tie_lin
  · unfold textFillClipHGuard; tie_lin
  · unfold pixFillClipWGuard; tie_lin
  · unfold pixFillClipHGuard; tie_lin

/-- the clip uses exactly `VgaText.clipExtent` / `VesaFb.clipExtent` -/
theorem tie_clipExtent (e w x : BitVec 64) (hw : w.toNat < 4294967296) (hx : 1 ≤ x.toNat ∧ x.toNat ≤ w.toNat) :
    VgaText.clipExtent e.toNat w.toNat x.toNat = (if textFillClipWGuard e w x then lo (textFillClipW w x) else e.toNat) ∧
    VesaFb.clipExtent e.toNat w.toNat x.toNat = (if pixFillClipWGuard e w x then lo (pixFillClipW w x) else e.toNat) := by
  have g := tie_fillClipGuard e w x hw hx
  have hx' : x.toNat < 4294967296 := by omega
  rw [g.1, g.2.2.1, tie_textFillClipW w x hw hx', tie_pixFillClipW w x hw hx']
  simp only [VgaText.clipExtent, VesaFb.clipExtent, decide_eq_true_eq, and_self]

/-! ## text console: offsets, cell word, colour range (the D10 site), scroll -/

theorem tie_textFillRowOffset (y w x : BitVec 64) (hy : y.toNat < 4294967296) (hw : w.toNat < 4294967296)
    (hx : x.toNat < 4294967296) :
    lo (textFillRowOffset y w x) = add32 (mul32 (sub32 y.toNat 1) w.toNat) (sub32 x.toNat 1) := by
  simp only [textFillRowOffset, lo_add, lo_sub, lo_mul, lo_one, lo_small _ hy, lo_small _ hw, lo_small _ hx]

theorem tie_textFillNextRow (r w : BitVec 64) (hr : r.toNat < 4294967296) (hw : w.toNat < 4294967296) :
    lo (textFillNextRow r w) = add32 r.toNat w.toNat := by
  simp only [textFillNextRow, lo_add, lo_small _ hr, lo_small _ hw]

private theorem word_bound (bg fg : Nat) (hbg : bg < 256) (hfg : fg < 256) :
    (bg <<< 4 ||| fg) <<< 8 < 1048576 := by
  have h1 : bg <<< 4 < 2 ^ 12 := by rw [Nat.shiftLeft_eq]; omega
  have h2 : fg < 2 ^ 12 := by omega
  have := Nat.or_lt_two_pow h1 h2
  rw [Nat.shiftLeft_eq]; omega

/-- `(((uint16(bg) << 4) | uint16(fg)) << 8) | ch`, as a 16-bit value, is `cellWord` -/
theorem tie_textWord (bg fg ch : BitVec 64) (hbg : bg.toNat < 256) (hfg : fg.toNat < 256) (hch : ch.toNat < 65536) :
    (textFillWord bg fg ch).toNat % 65536 = (VgaText.cellWord ch.toNat fg.toNat bg.toNat).toNat ∧
    (textWriteWord bg fg ch).toNat % 65536 = (VgaText.cellWord ch.toNat fg.toNat bg.toNat).toNat := by
  have hb := word_bound bg.toNat fg.toNat hbg hfg
  have h1 : bg.toNat <<< 4 < 2 ^ 12 := by rw [Nat.shiftLeft_eq]; omega
  have h2 : (bg.toNat <<< 4 ||| fg.toNat) < 2 ^ 12 := Nat.or_lt_two_pow h1 (by omega)
  have e1 : bg.toNat % 65536 = bg.toNat := by omega
  have e2 : fg.toNat % 65536 = fg.toNat := by omega
  have e3 : ch.toNat % 65536 = ch.toNat := by omega
  have e4 : bg.toNat <<< 4 % 2 ^ 64 = bg.toNat <<< 4 := by omega
  have e5 : (bg.toNat <<< 4 ||| fg.toNat) <<< 8 % 2 ^ 64 = (bg.toNat <<< 4 ||| fg.toNat) <<< 8 := by omega
  have n16 : (2 : Nat) ^ 16 = 65536 := rfl
  have n4 : 4 % 2 ^ 64 = 4 := rfl
  have n8 : 8 % 2 ^ 64 = 8 := rfl
  have f1 : bg.toNat % 2 ^ 64 = bg.toNat := by omega
  have f2 : fg.toNat % 2 ^ 64 = fg.toNat := by omega
  have f3 : ch.toNat % 2 ^ 64 = ch.toNat := by omega
  simp only [textFillWord, textWriteWord, VgaText.cellWord, BitVec.shiftLeft_eq', BitVec.toNat_or, BitVec.toNat_shiftLeft,
    BitVec.toNat_setWidth, BitVec.toNat_ofNat, UInt16.toNat_ofNat', n16, n4, n8, e1, e2, e3, f1, f2, f3, e4, e5, and_self]

/-- the out-of-grid test of `Write` -/
theorem tie_textWriteOutside (x w y h : BitVec 64) :
    textWriteOutside x w y h = decide (x.toNat < 1 ∨ x.toNat > w.toNat ∨ y.toNat < 1 ∨ y.toNat > h.toNat) := by
  unfold textWriteOutside; tie_guard

/-- `uint8(len(palette) - 1)` and the two colour-range guards: both use `>` (the repaired D10 operator) -/
theorem tie_textWriteColors (len fg bg m : BitVec 64) :
    (textWriteMaxColor len).toNat = (len.toNat + 255) % 256 ∧
    textWriteFgGuard fg m = decide (fg.toNat > m.toNat) ∧ textWriteBgGuard bg m = decide (bg.toNat > m.toNat) := by
  refine ⟨?_, ?_, ?_⟩
  · have := len.isLt
    simp only [textWriteMaxColor, BitVec.toNat_setWidth, BitVec.toNat_sub, BitVec.toNat_ofNat]; omega
  · unfold textWriteFgGuard; tie_guard
  · unfold textWriteBgGuard; tie_guard

theorem tie_textScroll (lines h w : BitVec 64) (hl : lines.toNat < 4294967296) (hh : h.toNat < 4294967296)
    (hw : w.toNat < 4294967296) :
    textScrollIgnored lines h = decide (lines.toNat = 0 ∨ lines.toNat > h.toNat) ∧
    lo (textScrollOffset lines w) = mul32 lines.toNat w.toNat ∧
    lo (textScrollDownStart h w) = sub32 (mul32 h.toNat w.toNat) 1 := by
  refine ⟨?_, ?_, ?_⟩
  · unfold textScrollIgnored; tie_guard
  · simp only [textScrollOffset, lo_mul, lo_small _ hl, lo_small _ hw]
  · simp only [textScrollDownStart, lo_sub, lo_mul, lo_one, lo_small _ hh, lo_small _ hw]

/-! ## pixel console: cell → pixel coordinates, scroll bounds, `SetFont` -/

theorem tie_pixCell (x y e gw gh : BitVec 64) (hx : x.toNat < 4294967296) (hy : y.toNat < 4294967296)
    (he : e.toNat < 4294967296) (hgw : gw.toNat < 4294967296) (hgh : gh.toNat < 4294967296) :
    lo (pixFillPX x gw) = mul32 (sub32 x.toNat 1) gw.toNat ∧ lo (pixFillPY y gh) = mul32 (sub32 y.toNat 1) gh.toNat ∧
    lo (pixFillPW e gw) = mul32 e.toNat gw.toNat ∧ lo (pixFillPH e gh) = mul32 e.toNat gh.toNat ∧
    lo (pixWritePX x gw) = mul32 (sub32 x.toNat 1) gw.toNat ∧ lo (pixWritePY y gh) = mul32 (sub32 y.toNat 1) gh.toNat := by
  simp only [pixFillPX, pixFillPY, pixFillPW, pixFillPH, pixWritePX, pixWritePY, lo_mul, lo_sub, lo_one,
    lo_small _ hx, lo_small _ hy, lo_small _ he, lo_small _ hgw, lo_small _ hgh, and_self]

/-- the out-of-grid test of `Write` (plus the nil-font test, which the model does by a `match`) -/
theorem tie_pixWriteOutside (x w y h font nil : BitVec 64) :
    pixWriteOutside x w y h font nil =
      (decide (x.toNat < 1 ∨ x.toNat > w.toNat ∨ y.toNat < 1 ∨ y.toNat > h.toNat) || decide (font = nil)) := by
  unfold pixWriteOutside; tie_guard

/-- `uint32(glyphIndex) * BytesPerRow * GlyphHeight` -/
theorem tie_pixWriteFontOffset (ch bpr gh : BitVec 64) (hch : ch.toNat < 4294967296) (hb : bpr.toNat < 4294967296)
    (hg : gh.toNat < 4294967296) :
    lo (pixWriteFontOffset ch bpr gh) = mul32 (mul32 ch.toNat bpr.toNat) gh.toNat := by
  have : lo (BitVec.setWidth 64 (BitVec.setWidth 32 ch)) = ch.toNat := by
    simp only [lo, BitVec.toNat_setWidth]; omega
  simp only [pixWriteFontOffset, lo_mul, this, lo_small _ hb, lo_small _ hg]

/-- the rows handed to `fbOffset` by `Scroll`, `rowBytes`, and the row stepping of the two loops -/
theorem tie_pixScroll (lines gh oy h w b r p sz : BitVec 64) (hl : lines.toNat < 4294967296) (hgh : gh.toNat < 4294967296)
    (hoy : oy.toNat < 4294967296) (hh : h.toNat < 4294967296) (hw : w.toNat < 4294967296) (hb : b.toNat < 4294967296)
    (hr : r.toNat < 4294967296) (hp : p.toNat < 4294967296) :
    lo (pixScrollOffsetRow lines gh oy) = sub32 (mul32 lines.toNat gh.toNat) oy.toNat ∧
    lo (pixScrollRowBytes w b) = mul32 w.toNat b.toNat ∧
    lo pixScrollUpStartRow = 0 ∧
    lo (pixScrollUpEndRow h lines gh oy) = sub32 (sub32 h.toNat (mul32 lines.toNat gh.toNat)) oy.toNat ∧
    lo (pixScrollDownStartRow lines gh) = mul32 lines.toNat gh.toNat ∧
    lo (pixScrollUpNextRow r p) = add32 r.toNat p.toNat ∧
    lo (pixScrollDownFirstEnd sz) = sz.toNat % 4294967296 ∧
    lo (pixScrollDownNextEnd r p) = sub32 r.toNat p.toNat ∧
    lo (pixScrollDownRowStart r p) = sub32 r.toNat p.toNat := by
  have e : lo (BitVec.setWidth 64 (BitVec.setWidth 32 sz)) = sz.toNat % 4294967296 := by
    simp only [lo, BitVec.toNat_setWidth]; omega
  simp only [pixScrollOffsetRow, pixScrollRowBytes, pixScrollUpStartRow, pixScrollUpEndRow, pixScrollDownStartRow,
    pixScrollUpNextRow, pixScrollDownFirstEnd, pixScrollDownNextEnd, pixScrollDownRowStart, lo_add, lo_sub, lo_mul, lo_zero, e,
    lo_small _ hl, lo_small _ hgh, lo_small _ hoy, lo_small _ hh, lo_small _ hw, lo_small _ hb, lo_small _ hr, lo_small _ hp,
    and_self]

/-- `SetFont`: `width / GlyphWidth` and `(height - offsetY) / GlyphHeight` (`offsetY ≤ height`: the
logo fits the screen — otherwise the 32-bit difference wraps, and so does the model's `sub32`) -/
theorem tie_setFont (w gw h oy gh : BitVec 64) (hh : h.toNat < 4294967296) (hoy : oy.toNat ≤ h.toNat) :
    (setFontCols w gw).toNat = w.toNat / gw.toNat ∧
    (setFontRows h oy gh).toNat = sub32 h.toNat oy.toNat / gh.toNat := by
  refine ⟨by simp only [setFontCols, BitVec.toNat_udiv], ?_⟩
  have := oy.isLt
  have e : (h - oy).toNat = sub32 h.toNat oy.toNat := by
    simp only [BitVec.toNat_sub, sub32]; omega
  simp only [setFontRows, BitVec.toNat_udiv, e]

/-! ## colour packing -/

/-- one component `uintN(v >> (8 - size)) << pos`: the regenerated 64-bit term (where `8 - size`
wraps at 64 bits) and the model's `component` (where it wraps at 8 bits, as in Go) agree on the
low `n` bits for every 8-bit `v`, `size`, and every `pos` -/
private theorem comp_tie (v s p : BitVec 64) (n : Nat) (hn : 8 ≤ n ∧ n ≤ 64) (hv : v.toNat < 256) (hs : s.toNat < 256) :
    ((BitVec.setWidth 64 (BitVec.setWidth n (v >>> (8#64 - s)))) <<< p).toNat % 2 ^ n =
      VesaFb.component v.toNat s.toNat p.toNat (2 ^ n) := by
  have hA : (v >>> (8#64 - s)).toNat = v.toNat >>> ((8 + (256 - s.toNat % 256)) % 256) := by
    rw [BitVec.ushiftRight_eq', BitVec.toNat_ushiftRight]
    have hk : (8#64 - s).toNat = (2 ^ 64 - s.toNat + 8) % 2 ^ 64 := by
      simp only [BitVec.toNat_sub, BitVec.toNat_ofNat]
    by_cases h8 : s.toNat ≤ 8
    · have e1 : (8#64 - s).toNat = 8 - s.toNat := by rw [hk]; omega
      have e2 : (8 + (256 - s.toNat % 256)) % 256 = 8 - s.toNat := by omega
      rw [e1, e2]
    · have z : ∀ k, 8 ≤ k → v.toNat >>> k = 0 := by
        intro k hk8
        rw [Nat.shiftRight_eq_div_pow]
        apply Nat.div_eq_of_lt
        calc v.toNat < 2 ^ 8 := hv
          _ ≤ 2 ^ k := Nat.pow_le_pow_right (by decide) hk8
      rw [z _ (by rw [hk]; omega), z _ (by omega)]
  have hle : v.toNat >>> ((8 + (256 - s.toNat % 256)) % 256) ≤ v.toNat := Nat.shiftRight_le _ _
  have hpow : 2 ^ 8 ≤ 2 ^ n := Nat.pow_le_pow_right (by decide) hn.1
  have hpow' : 2 ^ n ≤ 2 ^ 64 := Nat.pow_le_pow_right (by decide) hn.2
  have m1 : v.toNat >>> ((8 + (256 - s.toNat % 256)) % 256) % 2 ^ n = v.toNat >>> ((8 + (256 - s.toNat % 256)) % 256) :=
    Nat.mod_eq_of_lt (by omega)
  have m2 : v.toNat >>> ((8 + (256 - s.toNat % 256)) % 256) % 2 ^ 64 = v.toNat >>> ((8 + (256 - s.toNat % 256)) % 256) :=
    Nat.mod_eq_of_lt (by omega)
  simp only [BitVec.shiftLeft_eq', BitVec.toNat_shiftLeft, BitVec.toNat_setWidth, hA, m1, m2, VesaFb.component]
  exact Nat.mod_mod_of_dvd _ (Nat.pow_dvd_pow 2 hn.2)

/-- `packColor16`: the `uint16` value `packed` is the model's `packed … 65536` for the palette
entry `(r, g, b)` and any mask layout -/
theorem tie_packed16 (r rs rp g gs gp b bs bp : BitVec 64)
    (hr : r.toNat < 256) (hg : g.toNat < 256) (hb : b.toNat < 256)
    (hrs : rs.toNat < 256) (hgs : gs.toNat < 256) (hbs : bs.toNat < 256) :
    (packed16 r rs rp g gs gp b bs bp).toNat % 2 ^ 16 =
      VesaFb.component r.toNat rs.toNat rp.toNat (2 ^ 16) ||| VesaFb.component g.toNat gs.toNat gp.toNat (2 ^ 16) |||
        VesaFb.component b.toNat bs.toNat bp.toNat (2 ^ 16) := by
  simp only [packed16, BitVec.toNat_or, Nat.or_mod_two_pow, comp_tie _ _ _ 16 (by decide) hr hrs,
    comp_tie _ _ _ 16 (by decide) hg hgs, comp_tie _ _ _ 16 (by decide) hb hbs]
  simp

/-- `packColor24`: the same with a 32-bit intermediate -/
theorem tie_packed24 (r rs rp g gs gp b bs bp : BitVec 64)
    (hr : r.toNat < 256) (hg : g.toNat < 256) (hb : b.toNat < 256)
    (hrs : rs.toNat < 256) (hgs : gs.toNat < 256) (hbs : bs.toNat < 256) :
    (packed24 r rs rp g gs gp b bs bp).toNat % 2 ^ 32 =
      VesaFb.component r.toNat rs.toNat rp.toNat (2 ^ 32) ||| VesaFb.component g.toNat gs.toNat gp.toNat (2 ^ 32) |||
        VesaFb.component b.toNat bs.toNat bp.toNat (2 ^ 32) := by
  simp only [packed24, BitVec.toNat_or, Nat.or_mod_two_pow, comp_tie _ _ _ 32 (by decide) hr hrs,
    comp_tie _ _ _ 32 (by decide) hg hgs, comp_tie _ _ _ 32 (by decide) hb hbs]
  simp

/-- … which is what the model's `packed` is made of -/
theorem tie_packed_model (c : VesaFb.Cons) (rgb : UInt8 × UInt8 × UInt8) (m : Nat) :
    VesaFb.packed c rgb m = VesaFb.component rgb.1.toNat c.rSize c.rPos m ||| VesaFb.component rgb.2.1.toNat c.gSize c.gPos m |||
      VesaFb.component rgb.2.2.toNat c.bSize c.bPos m := rfl

end Firefly.Tie.C19
