import Firefly.Gen.PmmExpr
import Firefly.Model.Pmm
import Firefly.Proof.Bits
/-!
Tie lemmas for the physical memory manager (C01, C02, C03): the integer expressions and guards
that `tools/exprgen` regenerates from `bitmap_allocator.go` and `bootmem_allocator.go` on every run
denote, under the no-wrap conditions of the property's domain, exactly the arithmetic the `Nat`
model `Firefly.Pmm` is written with. A changed shift, mask, rounding or comparison in the Go source
changes `Gen/PmmExpr.lean` and one of these stops checking.
-/
namespace Firefly.Tie.Pmm
-- `omega` over terms with `% 2^64` recurses deeply on the literal; the default depth is too small
set_option maxRecDepth 8000
open Firefly.Pmm Firefly.Gen.PmmExpr Firefly.Bits

private theorem m4095 : (4095#64 : BitVec 64) = BitVec.ofNat 64 (2^12 - 1) := by decide
private theorem m63 : (63#64 : BitVec 64) = BitVec.ofNat 64 (2^6 - 1) := by decide
private theorem shift12 : BitVec.ofNat 64 Firefly.Gen.Pmm.pageShift = 12#64 := by decide
private theorem e12 : (12#64 : BitVec 64).toNat = 12 := by decide
private theorem n12 : 12 % 2 ^ 64 = 12 := by decide
private theorem n3 : 3 % 2 ^ 64 = 3 := by decide
private theorem n6 : 6 % 2 ^ 64 = 6 := by decide
private theorem ePage : Firefly.Gen.Pmm.pageSize = 4096 := by decide

private theorem k4095 : (2^12 - 1) % 2^64 = 4095 := by decide
private theorem kpsz : BitVec.ofNat 64 Firefly.Gen.Pmm.pageSize = 4096#64 := by decide
private theorem e4096 : (4096#64 : BitVec 64).toNat = 4096 := by decide
private theorem n4096 : 4096 % 2 ^ 64 = 4096 := by decide
private theorem k63 : (2^6 - 1) % 2^64 = 63 := by decide
private theorem e6 : (6#64 : BitVec 64).toNat = 6 := by decide
private theorem e3 : (3#64 : BitVec 64).toNat = 3 := by decide

/-- One arithmetic normal form for every regenerated expression: masks `&&& ~~~(2^k-1)` become
`/ 2^k * 2^k`, shifts become `/ 2^k` and `* 2^k`, everything is read through `toNat`, and `omega`
closes the goal. The same script proves the lemma for any *equivalent* way of writing the Go
expression (dropping a mask that the following shift makes redundant, `>> 12` vs `/ 4096`, …): a
behaviour-preserving rewrite of the source does not break the tie, a changed rounding does. -/
macro "tie_arith" : tactic => `(tactic| (
  simp only [shift12, kpsz, e4096, n4096, m4095, m63, BitVec.ushiftRight_eq', BitVec.shiftLeft_eq', BitVec.toNat_ofNat, n12, n3, n6,
    k4095, k63, e12, e6, e3, ePage, BitVec.toNat_ushiftRight, BitVec.toNat_shiftLeft, Nat.shiftLeft_eq,
    toNat_and_not_lowmask, BitVec.toNat_add, BitVec.toNat_sub, BitVec.toNat_mul, BitVec.toNat_udiv, BitVec.toNat_umod,
    Nat.shiftRight_eq_div_pow] <;> omega))

/-- equality of two regenerated BitVec expressions, through the same normal form -/
macro "tie_same" : tactic => `(tactic| first | rfl | (apply BitVec.eq_of_toNat_eq; tie_arith))

theorem tie_pageSizeMinus1 : rfPageSizeMinus1 = 4095#64 := by decide

/-- round-up of a region start: `regionFrames`' `start` and the boot allocator's `regionStartFrame` -/
theorem tie_regionStart (a : BitVec 64) (h : a.toNat + 4095 < 2^64) (len typ : Nat) :
    (rfStart a).toNat = regionStart { addr := a.toNat, len := len, typ := typ } ∧
    bootRegionStart a = rfStart a := by
  refine ⟨?_, ?_⟩
  · unfold rfStart regionStart; tie_arith
  · unfold bootRegionStart rfStart; tie_same

/-- round-down of a region end -/
theorem tie_regionEndExcl (a l : BitVec 64) (h : a.toNat + l.toNat < 2^64) (typ : Nat) :
    (rfEndExclusive a l).toNat = regionEndExcl { addr := a.toNat, len := l.toNat, typ := typ } := by
  unfold rfEndExclusive regionEndExcl; tie_arith

theorem tie_bootRegionEnd (a l : BitVec 64) (h : a.toNat + l.toNat < 2^64) :
    bootRegionEnd a l = rfEndExclusive a l - 1#64 := by
  unfold bootRegionEnd rfEndExclusive; tie_same

/-- A guard regenerated from an `if` is tied *up to polarity*: `if c { … }` and the guard-clause form
`if !c { continue }` are the same program when the branches are swapped with it, and a flipped
condition whose branches were NOT swapped changes every observation of the correspondence run. What
the lemma pins down is the arithmetic content of the comparison (which operands, strict or not). -/
def UpToNot (g : Bool) (p : Prop) [Decidable p] : Prop := g = decide p ∨ g = !decide p

macro "guard_norm" : tactic => `(tactic| (rw [Bool.eq_iff_iff]; simp [BitVec.le_def, BitVec.lt_def] <;> omega))
macro "tie_guard" : tactic => `(tactic| first | (left; guard_norm) | (right; guard_norm))

theorem tie_noFrame (e s : BitVec 64) : UpToNot (rfNoFrame e s) (e.toNat ≤ s.toNat) := by
  unfold rfNoFrame UpToNot; tie_guard

theorem tie_poolContains (f s e : BitVec 64) :
    UpToNot (poolContains f s e) (s.toNat ≤ f.toNat ∧ f.toNat ≤ e.toNat) := by
  unfold poolContains UpToNot; tie_guard

/-- kernel frame bounds of `BootMemAllocator.init` -/
theorem tie_kernelFrames (ks ke : BitVec 64) (h : ke.toNat + 4095 < 2^64) (hpos : 0 < ke.toNat) :
    (bootKernelStartFrame ks).toNat = (bootInit ks.toNat ke.toNat).kStart ∧
    (bootKernelEndFrame ke).toNat = (bootInit ks.toNat ke.toNat).kEnd := by
  unfold bootKernelStartFrame bootKernelEndFrame bootInit
  constructor
  · tie_arith
  · tie_arith

/-- `markFrame` / `FreeFrame`: word index and MSB-first bit mask of a pool-relative frame -/
theorem tie_block (rel : BitVec 64) : (markBlock rel).toNat = rel.toNat / 64 ∧ freeBlock rel = markBlock rel := by
  refine ⟨?_, ?_⟩
  · unfold markBlock; tie_arith
  · unfold freeBlock markBlock; tie_same

theorem tie_mask (rel : BitVec 64) :
    markMask rel (markBlock rel) = bitMask rel.toNat ∧ freeMask rel (freeBlock rel) = bitMask rel.toNat := by
  have key : (1#64 <<< ((63#64 - ((rel - ((rel >>> 6#64) <<< 6#64)))))) =
      (1#64 : BitVec 64) <<< (63 - rel.toNat % 64) := by
    have h : rel - ((rel >>> 6#64) <<< 6#64) = BitVec.ofNat 64 (rel.toNat % 64) := by
      apply BitVec.eq_of_toNat_eq
      have := rel.isLt
      simp [BitVec.ushiftRight_eq', BitVec.shiftLeft_eq', BitVec.toNat_sub, BitVec.toNat_shiftLeft,
        BitVec.toNat_ushiftRight, Nat.shiftLeft_eq, Nat.shiftRight_eq_div_pow]
      omega
    rw [h]
    have h2 : (63#64 - BitVec.ofNat 64 (rel.toNat % 64)) = BitVec.ofNat 64 (63 - rel.toNat % 64) := by
      apply BitVec.eq_of_toNat_eq
      simp [BitVec.toNat_sub]
      omega
    rw [h2]
    simp [BitVec.shiftLeft_eq', BitVec.toNat_ofNat]
    congr 1; omega
  exact ⟨key, key⟩

theorem tie_relFrame (f s : BitVec 64) (h : s.toNat ≤ f.toNat) :
    (markRelFrame f s).toNat = f.toNat - s.toNat ∧ freeRelFrame f s = markRelFrame f s := by
  refine ⟨?_, rfl⟩
  unfold markRelFrame
  rw [BitVec.toNat_sub_of_le (BitVec.le_def.2 h)]

theorem tie_freeIsFree (w m : BitVec 64) : freeIsFree w m = decide (w &&& m = 0) := rfl

/-- the frame `AllocFrame` returns for word `blk`, bit offset `off` of a pool starting at `s` -/
theorem tie_allocFrameResult (s blk off : BitVec 64)
    (h : s.toNat + (blk.toNat * 64 + off.toNat) < 2^64) :
    (allocFrameResult s blk off).toNat = s.toNat + (blk.toNat * 64 + off.toNat) := by
  unfold allocFrameResult; tie_arith

/-- bitmap sizing: `pageCount`, `freeCount`, bytes of bitmap per pool -/
theorem tie_pageCount (e s : BitVec 64) (h : s.toNat ≤ e.toNat) (hsm : e.toNat - s.toNat + 1 < 2^32) :
    (setupPageCount e s).toNat = e.toNat - s.toNat + 1 ∧ setupFreeCount e s = setupPageCount e s ∧
    (setupFreeCount e s).toNat = (mkPool s.toNat e.toNat).freeCount := by
  have h1 : (setupPageCount e s).toNat = e.toNat - s.toNat + 1 := by
    unfold setupPageCount
    simp only [BitVec.toNat_setWidth, BitVec.toNat_add, BitVec.toNat_sub_of_le (BitVec.le_def.2 h)]
    have := e.isLt
    simp
    omega
  refine ⟨h1, rfl, ?_⟩
  show (setupPageCount e s).toNat = u32 (e.toNat - s.toNat + 1)
  rw [h1]; unfold u32; omega

theorem tie_bitmapBytes (e s : BitVec 64) (h : s.toNat ≤ e.toNat) (hsm : e.toNat - s.toNat + 1 < 2^32) :
    (setupBitmapBytes e s).toNat = wordsFor (e.toNat - s.toNat + 1) * 8 := by
  have := e.isLt
  unfold setupBitmapBytes wordsFor; tie_arith

theorem tie_requiredPages (n sz bm : BitVec 64) (h : n.toNat * sz.toNat + bm.toNat + 4095 < 2^64) :
    (setupRequiredPages n sz bm).toNat = (n.toNat * sz.toNat + bm.toNat + 4095) / 4096 := by
  unfold setupRequiredPages; tie_arith

theorem tie_requiredBytes (n sz bm : BitVec 64) (h : n.toNat * sz.toNat + bm.toNat + 4095 < 2^64) :
    (setupRequiredBytes n sz bm).toNat = (n.toNat * sz.toNat + bm.toNat + 4095) / 4096 * 4096 := by
  unfold setupRequiredBytes; tie_arith

/-! guards of `BootMemAllocator.AllocFrame` -/

theorem tie_bootIgnore (t l : BitVec 64) :
    bootIgnoreRegion t l = decide (t.toNat ≠ Firefly.Gen.Pmm.memAvailable ∨ l.toNat < Firefly.Gen.Pmm.pageSize) := by
  unfold bootIgnoreRegion
  have e1 : (BitVec.ofNat 64 Firefly.Gen.Pmm.memAvailable).toNat = Firefly.Gen.Pmm.memAvailable := by decide
  have e2 : (BitVec.ofNat 64 Firefly.Gen.Pmm.pageSize).toNat = Firefly.Gen.Pmm.pageSize := by decide
  simp only [BitVec.lt_def, ne_eq, e2, Bool.decide_or]
  congr 1
  rw [decide_eq_decide]
  constructor
  · intro h hh; exact h (BitVec.eq_of_toNat_eq (by rw [hh, e1]))
  · intro h hh; exact h (by rw [hh, e1])

theorem tie_bootSkip (l e : BitVec 64) : UpToNot (bootSkipRegion l e) (l.toNat ≥ e.toNat) := by
  unfold bootSkipRegion UpToNot; tie_guard

theorem tie_bootPastEnd (l e : BitVec 64) : UpToNot (bootPastEnd l e) (l.toNat > e.toNat) := by
  unfold bootPastEnd UpToNot; tie_guard

/-- the three-way cursor update of `AllocFrame`, assembled from the regenerated guards, is the
model's `bootNext` -/
theorem tie_bootNext (b : Boot) (s e : Nat) (hl : b.last + 1 < 2^64) (hs : s < 2^64) (he : e < 2^64)
    (hks : b.kStart < 2^64) (hke : b.kEnd + 1 < 2^64) (hac : b.allocCount < 2^64) :
    (if bootJumpKernel (BitVec.ofNat 64 b.last) (BitVec.ofNat 64 s) (BitVec.ofNat 64 b.kStart) (BitVec.ofNat 64 e) then
        (if bootClampCond (bootJumpTarget (BitVec.ofNat 64 b.kEnd)) (BitVec.ofNat 64 s) then BitVec.ofNat 64 s
         else bootJumpTarget (BitVec.ofNat 64 b.kEnd))
      else if bootEnterRegion (BitVec.ofNat 64 b.last) (BitVec.ofNat 64 s) (BitVec.ofNat 64 b.allocCount)
        then BitVec.ofNat 64 s
      else BitVec.ofNat 64 b.last + 1#64).toNat = bootNext b s e := by
  have tL : (BitVec.ofNat 64 b.last).toNat = b.last := by simp; omega
  have tS : (BitVec.ofNat 64 s).toNat = s := by simp; omega
  have tE : (BitVec.ofNat 64 e).toNat = e := by simp; omega
  have tKS : (BitVec.ofNat 64 b.kStart).toNat = b.kStart := by simp; omega
  have tKE : (BitVec.ofNat 64 b.kEnd).toNat = b.kEnd := by simp; omega
  have tAC : (BitVec.ofNat 64 b.allocCount).toNat = b.allocCount := by simp; omega
  have tJT : (bootJumpTarget (BitVec.ofNat 64 b.kEnd)).toNat = b.kEnd + 1 := by
    unfold bootJumpTarget; rw [BitVec.toNat_add, tKE]; simp; omega
  have tL1 : (BitVec.ofNat 64 b.last + 1#64).toNat = b.last + 1 := by
    rw [BitVec.toNat_add, tL]; simp; omega
  have c1 : bootJumpKernel (BitVec.ofNat 64 b.last) (BitVec.ofNat 64 s) (BitVec.ofNat 64 b.kStart) (BitVec.ofNat 64 e) =
      decide ((b.last ≤ s ∧ b.kStart = s) ∨ (b.last ≤ e ∧ b.last + 1 = b.kStart)) := by
    unfold bootJumpKernel
    simp only [BitVec.le_def, tL, tS, tE, Bool.decide_or, Bool.decide_and]
    congr 2
    · rw [decide_eq_decide]
      constructor
      · intro h; rw [← tKS, ← tS, h]
      · intro h; exact BitVec.eq_of_toNat_eq (by rw [tKS, tS, h])
    · rw [decide_eq_decide]
      constructor
      · intro h; rw [← tKS, ← h, tL1]
      · intro h; exact BitVec.eq_of_toNat_eq (by rw [tL1, tKS, h])
  have c2 : bootClampCond (bootJumpTarget (BitVec.ofNat 64 b.kEnd)) (BitVec.ofNat 64 s) = decide (b.kEnd + 1 < s) := by
    unfold bootClampCond; simp only [BitVec.lt_def, tJT, tS]
  have c3 : bootEnterRegion (BitVec.ofNat 64 b.last) (BitVec.ofNat 64 s) (BitVec.ofNat 64 b.allocCount) =
      decide (b.last < s ∨ b.allocCount = 0) := by
    unfold bootEnterRegion
    simp only [BitVec.lt_def, tL, tS, Bool.decide_or]
    congr 1
    rw [decide_eq_decide]
    constructor
    · intro h; have := congrArg BitVec.toNat h; rw [tAC] at this; simpa using this
    · intro h; rw [h]
  rw [c1, c2, c3]
  unfold bootNext
  by_cases h1 : (b.last ≤ s ∧ b.kStart = s) ∨ (b.last ≤ e ∧ b.last + 1 = b.kStart)
  · simp only [h1, decide_true, if_true]
    by_cases h2 : b.kEnd + 1 < s
    · simp [h2, tS]
    · simp [h2, tJT]
  · simp only [h1, decide_false, Bool.false_eq_true, if_false]
    by_cases h3 : b.last < s ∨ b.allocCount = 0
    · simp [h3, tS]
    · simp [h3, tL1]

end Firefly.Tie.Pmm
