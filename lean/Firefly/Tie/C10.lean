import Firefly.Gen.C10Expr
import Firefly.Model.Multiboot
import Firefly.Proof.Bits
/-!
Tie lemmas for C10: the pointer, size, stride and type-test expressions that `tools/exprgen`
regenerates from `kernel/multiboot/multiboot.go` on every run denote the same numbers as the terms
the model (`Model/Multiboot.lean`, `Nat` arithmetic reduced mod 2^64 / 2^32) is built from.  A
changed expression in `findTagByType` or `VisitMemRegions` changes `Gen/C10Expr.lean` and one of
these stops checking.

`exprgen` renders every operand as `BitVec 64` and a conversion `int32(x)`/`uint32(x)` as a
truncation to 32 bits widened again with zeros.  Two consequences, both visible below:
* `ptrTagHeader.size - 8` is a `uint32` subtraction in Go; the lemma compares the low 32 bits.
* `uintptr(int32(size+7) & ^7)` sign-extends in Go (and in the model's `alignStep`); the
  regenerated term zero-extends, so `tie_tagScanNext` carries the hypothesis
  `(size + 7) mod 2^32 < 2^31`, which every well-formed block satisfies (`MBSpec.wf`).
-/
namespace Firefly.Tie.C10
open Firefly.Multiboot Firefly.Gen.C10Expr

theorem tie_tagScanStart (infoData : BitVec 64) :
    (tagScanStart infoData).toNat = (infoData.toNat + 8) % 2^64 := by
  simp [tagScanStart, BitVec.toNat_add]

theorem tie_tagContentsPtr (cur : BitVec 64) :
    (tagContentsPtr cur).toNat = (cur.toNat + 8) % 2^64 := by
  simp [tagContentsPtr, BitVec.toNat_add]

/-- the contents length `size - 8`, evaluated at 32 bits as Go does -/
theorem tie_tagContentsSize (sz : BitVec 64) (h : sz.toNat < 2^32) :
    (tagContentsSize sz).toNat % 2^32 = (sz.toNat + 2^32 - 8) % 2^32 := by
  simp only [tagContentsSize, BitVec.toNat_sub, BitVec.toNat_ofNat]
  omega

/-- the scan step `curPtr += uintptr(int32(size+7) & ^7)` -/
theorem tie_tagScanNext (cur sz : BitVec 64) (hpos : (sz.toNat + 7) % 2^32 < 2^31) :
    (tagScanNext cur sz).toNat = (cur.toNat + alignStep sz.toNat) % 2^64 := by
  have h7 : (7#64) = BitVec.ofNat 64 (2^3 - 1) := by decide
  unfold tagScanNext alignStep
  rw [BitVec.toNat_add, h7, Firefly.Bits.toNat_and_not_lowmask]
  simp only [BitVec.toNat_setWidth, BitVec.toNat_add, BitVec.toNat_ofNat]
  have e : (sz.toNat + 7 % 2^64) % 2^64 % 2^32 % 2^64 = (sz.toNat + 7) % 2^32 := by omega
  rw [e]
  have hlt : (sz.toNat + 7) % 2^32 / 8 * 8 < 2^31 := by omega
  simp only [hlt, if_true]

theorem tie_mmapEnd (p size : BitVec 64) : (mmapEnd p size).toNat = (p.toNat + size.toNat) % 2^64 := by
  simp [mmapEnd, BitVec.toNat_add]

theorem tie_mmapFirst (p : BitVec 64) : (mmapFirst p).toNat = (p.toNat + 8) % 2^64 := by
  simp [mmapFirst, BitVec.toNat_add]

/-- the entry stride comes from the tag's `entrySize`, nothing else -/
theorem tie_mmapNext (cur esz : BitVec 64) : (mmapNext cur esz).toNat = (cur.toNat + esz.toNat) % 2^64 := by
  simp [mmapNext, BitVec.toNat_add]

/-- the type test `entry.Type == 0 || entry.Type >= memUnknown` (the D3 operator) -/
theorem tie_mmapNeedsNorm (ty : BitVec 64) : mmapNeedsNorm ty = needsNorm ty.toNat := by
  unfold mmapNeedsNorm needsNorm
  have h0 : (ty = 0#64) ↔ ty.toNat = 0 := by
    constructor
    · intro h; rw [h]; rfl
    · intro h; apply BitVec.eq_of_toNat_eq; simpa using h
  have h1 : (ty ≥ BitVec.ofNat 64 Firefly.Gen.C10.memUnknown) ↔ ty.toNat ≥ Firefly.Gen.C10.memUnknown := by
    rw [ge_iff_le, BitVec.le_def]
    simp [Firefly.Gen.C10.memUnknown]
  simp only [h0, h1]

end Firefly.Tie.C10
