import Firefly.Gen.C07Expr
import Firefly.Model.AddrSpace
import Firefly.Proof.Bits
/-!
Tie lemmas for C07: the integer expressions and guards that `tools/exprgen` regenerates from the Go
source on every run denote the terms the model is built from. A changed rounding, mask, shift or
comparison in `EarlyReserveRegion`, `MapRegion`, `IdentityMapRegion`, `PageFromAddress` or the
goruntime hooks changes `Gen/C07Expr.lean` and one of these stops checking.

Each lemma is proved by `tie7`: `rfl` when the regenerated term is literally the model's, otherwise
one arithmetic normal form (`toNat`, masks as `/ 2^k * 2^k`, shifts as `/ 2^k`, comparisons on
`Nat`) closed by `omega`. So an *equivalent* way of writing the Go expression (`&^ 4095` for
`& ^(PageSize-1)`, `>> 12` for a mask followed by the shift, `>= x+1` for `> x`) keeps the tie.
-/
namespace Firefly.Tie.C07
open Firefly.AddrSpace Firefly.Gen.C07Expr Firefly.Bits
-- `omega` over terms with `% 2^64` recurses deeply on the literal
set_option maxRecDepth 8000

private theorem kps : BitVec.ofNat 64 Firefly.Gen.C07.pageSize = 4096#64 := by decide
private theorem ksh : BitVec.ofNat 64 Firefly.Gen.C07.pageShift = 12#64 := by decide
private theorem kmask : (4096#64 - 1#64 : BitVec 64) = BitVec.ofNat 64 (2^12 - 1) := by decide
private theorem kmask' : (4096#64 - (1 : BitVec 64)) = BitVec.ofNat 64 (2^12 - 1) := by decide
private theorem m4095 : (4095#64 : BitVec 64) = BitVec.ofNat 64 (2^12 - 1) := by decide
private theorem k4095 : (2^12 - 1) % 2^64 = 4095 := by decide
private theorem e12 : (12#64 : BitVec 64).toNat = 12 := by decide
private theorem n12 : 12 % 2 ^ 64 = 12 := by decide
private theorem n4096 : 4096 % 2 ^ 64 = 4096 := by decide
private theorem psh : Firefly.Gen.C07.pageShift = 12 := by decide

macro "norm7" : tactic => `(tactic| simp only [roundUp, roundWraps, pageOf, pageSizeW, kps, ksh, kmask, kmask', m4095, k4095, e12, n12,
    n4096, psh, BitVec.ushiftRight_eq', BitVec.shiftLeft_eq', BitVec.toNat_ofNat, BitVec.toNat_ushiftRight,
    BitVec.toNat_shiftLeft, Nat.shiftLeft_eq, toNat_and_not_lowmask, BitVec.toNat_add, BitVec.toNat_sub, BitVec.toNat_mul,
    BitVec.toNat_udiv, BitVec.toNat_umod, BitVec.toNat_not, Nat.shiftRight_eq_div_pow, BitVec.lt_def, BitVec.le_def,
    gt_iff_lt, ge_iff_le, decide_eq_decide])
macro "tie7" : tactic =>
  `(tactic| first | with_reducible rfl | (apply BitVec.eq_of_toNat_eq; norm7 <;> omega) | (norm7 <;> omega) | rfl)

theorem tie_earlyReserve_wraps (size : W) : earlyReserveWraps size = roundWraps size := by
  unfold earlyReserveWraps; tie7
theorem tie_earlyReserve_round (size : W) : earlyReserveRound size = roundUp size := by
  unfold earlyReserveRound; tie7
theorem tie_mapRegion_wraps (size : W) : mapRegionWraps size = roundWraps size := by
  unfold mapRegionWraps; tie7
theorem tie_mapRegion_round (size : W) : mapRegionRound size = roundUp size := by
  unfold mapRegionRound; tie7
theorem tie_pageFromAddress (a : W) : pageFromAddress a = pageOf a := by
  unfold pageFromAddress; tie7

/-- `EarlyReserveRegion` as assembled from the regenerated guards and expressions is the model -/
theorem tie_earlyReserve (cursor size : W) :
    (if earlyReserveWraps size then none
     else if earlyReserveNoSpace (earlyReserveRound size) cursor then none
     else some (earlyReserveNewCursor cursor (earlyReserveRound size))) = earlyReserve cursor size := by
  unfold earlyReserve earlyReserveNoSpace earlyReserveNewCursor
  rw [tie_earlyReserve_wraps, tie_earlyReserve_round]
  simp only [decide_eq_true_eq]

theorem tie_mapRegion_pageCount (size : W) :
    mapRegionPageCount size = size >>> Firefly.Gen.C07.pageShift := by
  unfold mapRegionPageCount; tie7

theorem tie_identity_pageCount (size : W) :
    identityPageCount size = roundUp size >>> Firefly.Gen.C07.pageShift := by
  unfold identityPageCount; tie7

/-! goruntime's `sysReserve` / `sysMap` / `sysAlloc` (clients of the reservation) -/

theorem tie_gort_round (size : W) :
    gortReserveSize size = roundUp size ∧ gortMapSize size = roundUp size ∧ gortAllocSize size = roundUp size := by
  unfold gortReserveSize gortMapSize gortAllocSize
  refine ⟨?_, ?_, ?_⟩ <;> tie7

theorem tie_gort_mapStart (va : W) : gortMapStart va = roundUp va := by
  unfold gortMapStart; tie7

theorem tie_gort_pageCount (s : W) :
    gortMapPageCount s = s >>> Firefly.Gen.C07.pageShift ∧ gortAllocPageCount s = s >>> Firefly.Gen.C07.pageShift := by
  unfold gortMapPageCount gortAllocPageCount
  constructor <;> tie7

/-- the overflow guard `regionSize < size` of the three hooks is the model's `roundWraps` -/
theorem tie_gort_wraps (size : W) :
    gortReserveWraps (roundUp size) size = roundWraps size ∧
    gortMapWraps (roundUp size) size = roundWraps size ∧
    gortAllocWraps (roundUp size) size = roundWraps size := by
  have hs := size.isLt
  unfold gortReserveWraps gortMapWraps gortAllocWraps
  refine ⟨?_, ?_, ?_⟩ <;> tie7

end Firefly.Tie.C07
