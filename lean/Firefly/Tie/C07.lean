import Firefly.Gen.C07Expr
import Firefly.Model.AddrSpace
/-!
Tie lemmas for C07: the integer expressions and guards that `tools/exprgen` regenerates from the Go
source on every run are *the same terms* the model is built from. A changed expression in
`EarlyReserveRegion`, `MapRegion`, `IdentityMapRegion` or `PageFromAddress` changes
`Gen/C07Expr.lean` and one of these stops checking.
-/
namespace Firefly.Tie.C07
open Firefly.AddrSpace Firefly.Gen.C07Expr

theorem tie_earlyReserve_wraps (size : W) : earlyReserveWraps size = roundWraps size := rfl
theorem tie_earlyReserve_round (size : W) : earlyReserveRound size = roundUp size := rfl
theorem tie_mapRegion_wraps (size : W) : mapRegionWraps size = roundWraps size := rfl
theorem tie_mapRegion_round (size : W) : mapRegionRound size = roundUp size := rfl
theorem tie_pageFromAddress (a : W) : pageFromAddress a = pageOf a := rfl

/-- `EarlyReserveRegion` as assembled from the regenerated guards and expressions is the model -/
theorem tie_earlyReserve (cursor size : W) :
    (if earlyReserveWraps size then none
     else if earlyReserveNoSpace (earlyReserveRound size) cursor then none
     else some (earlyReserveNewCursor cursor (earlyReserveRound size))) = earlyReserve cursor size := by
  unfold earlyReserve earlyReserveNoSpace earlyReserveNewCursor
  rw [tie_earlyReserve_wraps, tie_earlyReserve_round]
  simp only [decide_eq_true_eq]

theorem tie_mapRegion_pageCount (size : W) :
    mapRegionPageCount size = size >>> Firefly.Gen.C07.pageShift := by
  unfold mapRegionPageCount
  apply BitVec.eq_of_toNat_eq
  simp [BitVec.toNat_ushiftRight, Firefly.Gen.C07.pageShift]

theorem tie_identity_pageCount (size : W) :
    identityPageCount size = roundUp size >>> Firefly.Gen.C07.pageShift := by
  unfold identityPageCount roundUp pageSizeW
  apply BitVec.eq_of_toNat_eq
  simp [BitVec.toNat_ushiftRight, Firefly.Gen.C07.pageShift]

end Firefly.Tie.C07
