import Firefly.Gen.C07Expr
import Firefly.Model.AddrSpace
import Firefly.Proof.Bits
/-!
Tie lemmas for C07: the integer expressions and guards that `tools/exprgen` regenerates from the Go
source on every run are *the same terms* the model is built from. A changed expression in
`EarlyReserveRegion`, `MapRegion`, `IdentityMapRegion` or `PageFromAddress` changes
`Gen/C07Expr.lean` and one of these stops checking.
-/
namespace Firefly.Tie.C07
open Firefly.AddrSpace Firefly.Gen.C07Expr

theorem tie_earlyReserve_wraps (size : W) : earlyReserveWraps size = roundWraps size := rfl
theorem tie_earlyReserve_round (size : W) : earlyReserveRound size = roundUp size := rfl
theorem tie_mapRegion_wraps (size : W) : mapRegionWraps size = roundWraps size := rfl
theorem tie_mapRegion_round (size : W) : mapRegionRound size = roundUp size := rfl
theorem tie_pageFromAddress (a : W) : pageFromAddress a = pageOf a := rfl

/-- `EarlyReserveRegion` as assembled from the regenerated guards and expressions is the model -/
theorem tie_earlyReserve (cursor size : W) :
    (if earlyReserveWraps size then none
     else if earlyReserveNoSpace (earlyReserveRound size) cursor then none
     else some (earlyReserveNewCursor cursor (earlyReserveRound size))) = earlyReserve cursor size := by
  unfold earlyReserve earlyReserveNoSpace earlyReserveNewCursor
  rw [tie_earlyReserve_wraps, tie_earlyReserve_round]
  simp only [decide_eq_true_eq]

theorem tie_mapRegion_pageCount (size : W) :
    mapRegionPageCount size = size >>> Firefly.Gen.C07.pageShift := by
  unfold mapRegionPageCount
  apply BitVec.eq_of_toNat_eq
  simp [BitVec.toNat_ushiftRight, Firefly.Gen.C07.pageShift]

theorem tie_identity_pageCount (size : W) :
    identityPageCount size = roundUp size >>> Firefly.Gen.C07.pageShift := by
  unfold identityPageCount roundUp pageSizeW
  apply BitVec.eq_of_toNat_eq
  simp [BitVec.toNat_ushiftRight, Firefly.Gen.C07.pageShift]

end Firefly.Tie.C07

namespace Firefly.Tie.C07
open Firefly.AddrSpace Firefly.Gen.C07Expr

/-! goruntime's `sysReserve` / `sysMap` / `sysAlloc` (clients of the reservation) -/

private theorem pageSizeW_eq' : pageSizeW = 4096#64 := by decide

theorem tie_gort_round (size : W) :
    gortReserveSize size = roundUp size ∧ gortMapSize size = roundUp size ∧ gortAllocSize size = roundUp size := by
  have h : ∀ s : W, ((s + BitVec.ofNat 64 Firefly.Gen.C07.pageSize) - 1#64) = s + (pageSizeW - 1) := by
    intro s
    rw [pageSizeW_eq']
    have : BitVec.ofNat 64 Firefly.Gen.C07.pageSize = 4096#64 := by decide
    rw [this]
    apply BitVec.eq_of_toNat_eq
    simp [BitVec.toNat_add, BitVec.toNat_sub]
    omega
  unfold gortReserveSize gortMapSize gortAllocSize roundUp
  rw [h]
  exact ⟨rfl, rfl, rfl⟩

theorem tie_gort_mapStart (va : W) : gortMapStart va = roundUp va := rfl

theorem tie_gort_pageCount (s : W) :
    gortMapPageCount s = s >>> Firefly.Gen.C07.pageShift ∧ gortAllocPageCount s = s >>> Firefly.Gen.C07.pageShift := by
  unfold gortMapPageCount gortAllocPageCount
  constructor <;>
  · apply BitVec.eq_of_toNat_eq
    simp [BitVec.toNat_ushiftRight, Firefly.Gen.C07.pageShift]

/-- the overflow guard `regionSize < size` of the three hooks is the model's `roundWraps` -/
theorem tie_gort_wraps (size : W) :
    gortReserveWraps (roundUp size) size = roundWraps size ∧
    gortMapWraps (roundUp size) size = roundWraps size ∧
    gortAllocWraps (roundUp size) size = roundWraps size := by
  have key : decide (roundUp size < size) = roundWraps size := by
    unfold roundWraps roundUp
    rw [pageSizeW_eq']
    have hm : (~~~(4096#64 - 1)) = 18446744073709547520#64 := by decide
    have h1 : (4096#64 - 1 : W) = 4095#64 := by decide
    rw [Firefly.Bits.and_mask12]
    rw [hm, h1]
    have hs := size.isLt
    rw [decide_eq_decide, BitVec.lt_def, gt_iff_lt, BitVec.lt_def]
    simp only [BitVec.toNat_shiftLeft, BitVec.toNat_ushiftRight, BitVec.toNat_add, Nat.shiftLeft_eq,
      Nat.shiftRight_eq_div_pow]
    have e : (4095#64 : W).toNat = 4095 := by decide
    have e2 : (18446744073709547520#64 : W).toNat = 18446744073709547520 := by decide
    rw [e, e2]
    omega
  unfold gortReserveWraps gortMapWraps gortAllocWraps
  exact ⟨key, key, key⟩

end Firefly.Tie.C07
