import Firefly.Gen.C15Expr
import Firefly.Model.Kfmt
/-!
Tie lemmas for C15: the integer expressions and guards of `kernel/kfmt/fmt.go` that `tools/exprgen`
regenerates from the Go source on every run (as `BitVec 64` terms, `Gen/C15Expr.lean`) denote *the
same values* as the terms the model `Model/Kfmt.lean` is built from (`Int`/`Nat` with explicit
`wrap64`).  A changed clamp, digit extraction, sign handling, width accumulation or pad-length
expression in the source changes `Gen/C15Expr.lean` and one of these stops checking.

Go `int` values are read with `BitVec.toInt`, `uint64`/`byte` values with `BitVec.toNat`.
-/
namespace Firefly.Tie.C15
open Firefly.Kfmt Firefly.Gen.C15 Firefly.Gen.C15Expr

private theorem wrap64_eq_bmod (x : Int) : wrap64 x = x.bmod (2^64) := by
  unfold wrap64 Int.bmod
  simp only []
  split <;> omega

/-- `if padLen >= maxBufSize { padLen = maxBufSize - 1 }` is the model's `clampPad` (signed compare) -/
theorem tie_clamp (padLen : BitVec 64) :
    (if clampGuard padLen then clampValue else padLen).toInt = clampPad padLen.toInt := by
  unfold clampGuard clampValue clampPad
  rw [BitVec.sle_eq_decide]
  have h1 : (BitVec.ofNat 64 maxBufSize).toInt = 32 := by decide
  have h2 : (BitVec.ofNat 64 maxBufSize - 1#64).toInt = 31 := by decide
  have h3 : ((maxBufSize : Nat) : Int) = 32 := by decide
  simp only [h1, h3, decide_eq_true_eq, ge_iff_le]
  split
  · rw [h2]; rfl
  · rfl

/-- `uval = uint64(-sval)` is the model's `negMag` -/
theorem tie_negate (sval : BitVec 64) : (negate sval).toNat = negMag sval.toInt := by
  unfold negate negMag wrap64
  rw [BitVec.toNat_neg, BitVec.toInt_eq_toNat_cond]
  have := sval.isLt
  split <;> omega

/-- `remainder = uval % divider`, `uval /= divider`: the `u % d`, `u / d` of `digitLoop` -/
theorem tie_remainder (uval divider : BitVec 64) :
    (remainder uval divider).toNat = uval.toNat % divider.toNat := by
  simp [remainder]

theorem tie_quotient (uval divider : BitVec 64) :
    (quotient uval divider).toNat = uval.toNat / divider.toNat := by
  simp [quotient]

private theorem digit_cases : ∀ n : Nat, n < 16 →
    ((if isDecimalDigit (BitVec.ofNat 64 n) then digitChar (BitVec.ofNat 64 n)
      else letterChar (BitVec.ofNat 64 n)).toNat = (digitCh n).toNat) := by decide

/-- `if remainder < 10 { byte(remainder) + '0' } else { byte(remainder-10) + 'a' }` is `digitCh` -/
theorem tie_digit (r : BitVec 64) (h : r.toNat < 16) :
    (if isDecimalDigit r then digitChar r else letterChar r).toNat = (digitCh r.toNat).toNat := by
  have := digit_cases r.toNat h
  rwa [BitVec.ofNat_toNat, BitVec.setWidth_eq] at this

/-- `if end == right-1` (with `right ≥ 1`) is the model's test `e = right - 1` -/
theorem tie_signAppends (e right : BitVec 64) (h : 0 < right.toNat) :
    signAppends e right = decide (e.toNat = right.toNat - 1) := by
  unfold signAppends
  have hr : (right - 1#64).toNat = right.toNat - 1 := by
    rw [BitVec.toNat_sub_of_le (by rw [BitVec.le_def]; simp; omega)]; rfl
  rw [← hr]
  exact decide_eq_decide.2 BitVec.toNat_inj.symm

/-- `fmtRepeat(w, ' ', padLen-len(castedVal))` (both call sites) is the model's `strPadCount` -/
theorem tie_stringPad (padLen len : BitVec 64) (h : len.toNat < 2^63) :
    (stringPad padLen len).toInt = strPadCount padLen.toInt len.toNat := by
  unfold stringPad strPadCount
  rw [BitVec.toInt_sub, wrap64_eq_bmod]
  have : len.toInt = len.toNat := by rw [BitVec.toInt_eq_toNat_cond]; split <;> omega
  rw [this]

theorem tie_bytesPad (padLen len : BitVec 64) (h : len.toNat < 2^63) :
    (bytesPad padLen len).toInt = strPadCount padLen.toInt len.toNat :=
  tie_stringPad padLen len h

/-- `padLen = (padLen * 10) + int(nextCh-'0')` for a digit character is the model's `accumWidth` -/
theorem tie_widthAccum (padLen : BitVec 64) (c : UInt8) (h : 48 ≤ c.toNat ∧ c.toNat ≤ 57) :
    (widthAccum padLen (BitVec.ofNat 64 c.toNat)).toInt = accumWidth padLen.toInt c := by
  unfold widthAccum accumWidth
  have hc : (BitVec.ofNat 64 c.toNat - 48#64).toInt = ((c.toNat - 48 : Nat) : Int) := by
    have hle : (48#64 : BitVec 64) ≤ BitVec.ofNat 64 c.toNat := by
      rw [BitVec.le_def]; simp; omega
    rw [BitVec.toInt_eq_toNat_cond, BitVec.toNat_sub_of_le hle]
    simp
    omega
  rw [BitVec.toInt_add, BitVec.toInt_mul, hc, wrap64_eq_bmod, wrap64_eq_bmod]
  rfl

/-- `if nextArgIndex >= len(args)` is the guard of `verbLoop` -/
theorem tie_missingArgGuard (nextArgIndex len : BitVec 64) :
    missingArgGuard nextArgIndex len = decide (nextArgIndex.toNat ≥ len.toNat) := by
  simp [missingArgGuard, BitVec.le_def]

end Firefly.Tie.C15
