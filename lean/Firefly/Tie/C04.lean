import Firefly.Gen.C04Expr
import Firefly.Proof.VmmBits
/-!
Tie lemmas for C04: the integer expressions of `walk` (index extraction, entry address, next table
address), of the page-table-entry accessors and of `Frame.Address` / `Page.Address`, regenerated from
the Go source by `tools/exprgen` on every run, are the terms the model (`Firefly/Model/Vmm.lean`) and
the window arithmetic (`Firefly.Vmm.E`) are built from.  A changed expression changes
`Gen/C04Expr.lean` and one of these stops checking.
-/
namespace Firefly.Tie.C04
open Firefly.Vmm Firefly.Gen.C04 Firefly.Gen.C04Expr

theorem shr_ofNat (x : W) (n : Nat) (h : n < 2 ^ 64) : x >>> (BitVec.ofNat 64 n) = x >>> n := by
  apply BitVec.eq_of_toNat_eq
  simp [BitVec.toNat_ushiftRight, Nat.mod_eq_of_lt h]

theorem shl_ofNat (x : W) (n : Nat) (h : n < 2 ^ 64) : x <<< (BitVec.ofNat 64 n) = x <<< n := by
  apply BitVec.eq_of_toNat_eq
  simp [BitVec.toNat_shiftLeft, Nat.mod_eq_of_lt h]

theorem level_lt (L : Nat) : levelShift L < 2 ^ 64 ∧ levelBits L < 2 ^ 64 := by
  unfold levelShift levelBits pageLevelShifts pageLevelBits
  rcases L with _ | _ | _ | _ | _ <;> simp

/-- `entryIndex = (virtAddr >> pageLevelShifts[level]) & ((1 << pageLevelBits[level]) - 1)` -/
theorem tie_walk_entryIndex (va : W) (L : Nat) :
    walkEntryIndex va (BitVec.ofNat 64 (levelShift L)) (BitVec.ofNat 64 (levelBits L)) = idxW va L := by
  unfold walkEntryIndex idxW
  rw [shr_ofNat _ _ (level_lt L).1, shl_ofNat _ _ (level_lt L).2]
  rfl

/-- `entryAddr = tableAddr + (entryIndex << mm.PointerShift)` -/
theorem tie_walk_entryAddr (t i : W) : walkEntryAddr t i = t + (i <<< pointerShift) := by
  unfold walkEntryAddr
  rw [shl_ofNat _ _ (by decide)]

/-- `entryAddr <<= pageLevelBits[level]` -/
theorem tie_walk_nextTable (e : W) (L : Nat) :
    walkNextTable e (BitVec.ofNat 64 (levelBits L)) = e <<< levelBits L := by
  unfold walkNextTable
  rw [shl_ofNat _ _ (level_lt L).2]

/-- the recurrence of `walk`, assembled from the regenerated expressions, is the entry address `E`
the recursive-window theorems are about -/
theorem tie_walk_recurrence (va : W) :
    E va 0 = walkEntryAddr pdtVA (walkEntryIndex va (BitVec.ofNat 64 (levelShift 0)) (BitVec.ofNat 64 (levelBits 0))) ∧
    ∀ L, E va (L + 1) =
      walkEntryAddr (walkNextTable (E va L) (BitVec.ofNat 64 (levelBits L)))
        (walkEntryIndex va (BitVec.ofNat 64 (levelShift (L + 1))) (BitVec.ofNat 64 (levelBits (L + 1)))) := by
  constructor
  · rw [tie_walk_entryAddr, tie_walk_entryIndex]; rfl
  · intro L
    rw [tie_walk_entryAddr, tie_walk_entryIndex, tie_walk_nextTable]; rfl

theorem tie_setFlags (e fl : W) : pteSetFlags e fl = setFlags e fl := rfl
theorem tie_clearFlags (e fl : W) : pteClearFlags e fl = clearFlags e fl := rfl

theorem tie_frame (e : W) : pteFrame e = frameOf e := by
  unfold pteFrame frameOf physMask w
  rw [shr_ofNat _ _ (by decide)]

theorem tie_frameAddress (f : W) : frameAddress f = frameAddr f := by
  unfold frameAddress frameAddr
  rw [shl_ofNat _ _ (by decide)]

theorem tie_pageAddress (p : W) : pageAddress p = pageAddr p := by
  unfold pageAddress pageAddr
  rw [shl_ofNat _ _ (by decide)]

end Firefly.Tie.C04
