import Firefly.Model.AddrSpace
import Firefly.Proof.Bits
/-!
# C07 — Kernel virtual-region reservations never overlap and never wrap

Statement (properties.jsonl): every successful reservation of kernel virtual address space
returns a page-aligned region at least as large as requested that lies entirely below every
region reserved before it and below the temporary-mapping page, so no two reservations ever
overlap; a request that does not fit fails with an error and reserves nothing.  Mapping a
physical range through such a reservation maps exactly the pages needed to cover the requested
size, consecutive pages to consecutive frames.
-/
namespace Firefly.C07
open Firefly.AddrSpace Firefly.Bits

/-- number of bytes of whole pages needed for `n` bytes (unbounded arithmetic) -/
def ceilPages (n : Nat) : Nat := (n + 4095) / 4096

private theorem pageSizeW_eq : pageSizeW = 4096#64 := by decide
private theorem pageShift_eq : Firefly.Gen.C07.pageShift = 12 := by decide

theorem roundWraps_iff (size : W) : roundWraps size = true ↔ 2^64 < ceilPages size.toNat * 4096 + 1 := by
  unfold roundWraps ceilPages
  rw [pageSizeW_eq]
  have h : (~~~(4096#64 - 1)) = 18446744073709547520#64 := by decide
  rw [h]
  simp only [decide_eq_true_eq, BitVec.lt_def, gt_iff_lt]
  have := size.isLt
  simp; omega

theorem roundUp_toNat (size : W) (h : roundWraps size = false) :
    (roundUp size).toNat = ceilPages size.toNat * 4096 := by
  have hw : ¬ (2^64 < ceilPages size.toNat * 4096 + 1) := by
    rw [← roundWraps_iff]; simp [h]
  unfold roundUp
  rw [pageSizeW_eq, toNat_and_mask12]
  unfold ceilPages at *
  have := size.isLt
  have h1 : (4096#64 - 1).toNat = 4095 := by decide
  rw [BitVec.toNat_add, h1]
  have : (size.toNat + 4095) % 2^64 = size.toNat + 4095 := by
    apply Nat.mod_eq_of_lt; omega
  rw [this]

/-- **fits_iff** — a reservation succeeds exactly when the page-rounded size, computed without
wrap-around, is at most the space below the cursor. -/
theorem fits_iff (cursor size : W) :
    (earlyReserve cursor size).isSome ↔ ceilPages size.toNat * 4096 ≤ cursor.toNat := by
  unfold earlyReserve
  by_cases hw : roundWraps size = true
  · simp only [hw, if_true, Option.isSome_none, Bool.false_eq_true, false_iff]
    have := (roundWraps_iff size).1 hw
    have := cursor.isLt
    omega
  · have hw' : roundWraps size = false := by simpa using hw
    simp only [hw', Bool.false_eq_true, if_false]
    have hr := roundUp_toNat size hw'
    by_cases hc : roundUp size > cursor
    · simp only [hc, if_true, Option.isSome_none, Bool.false_eq_true, false_iff]
      rw [gt_iff_lt, BitVec.lt_def, hr] at hc; omega
    · simp only [hc, if_false, Option.isSome_some, true_iff]
      rw [gt_iff_lt, BitVec.lt_def, hr] at hc; omega

/-- **reserve_ok** — success ⇒ address + rounded size = old cursor (no wrap), rounded size ≥
requested size, and page alignment is preserved. -/
theorem reserve_ok (cursor size addr : W) (h : earlyReserve cursor size = some addr) :
    addr.toNat + ceilPages size.toNat * 4096 = cursor.toNat ∧
    size.toNat ≤ ceilPages size.toNat * 4096 ∧
    addr.toNat ≤ cursor.toNat ∧
    (cursor.toNat % 4096 = 0 → addr.toNat % 4096 = 0) := by
  have hfit := (fits_iff cursor size).1 (by simp [h])
  unfold earlyReserve at h
  by_cases hw : roundWraps size = true
  · simp [hw] at h
  · have hw' : roundWraps size = false := by simpa using hw
    simp only [hw', Bool.false_eq_true, if_false] at h
    have hr := roundUp_toNat size hw'
    split at h
    · cases h
    · injection h with h
      subst h
      have hle : (roundUp size).toNat ≤ cursor.toNat := by omega
      have : (cursor - roundUp size).toNat = cursor.toNat - (roundUp size).toNat := by
        rw [BitVec.toNat_sub_of_le]; exact BitVec.le_def.2 hle
      rw [this, hr]
      unfold ceilPages at *
      omega

/-- **reserve_fail_pure** is structural: `earlyReserve` returns no new cursor on failure, so the
state threaded through a history is unchanged (see `run`). -/
def step (cursor : W) (size : W) : W × Option W :=
  match earlyReserve cursor size with
  | some a => (a, some a)
  | none => (cursor, none)

theorem reserve_fail_pure (cursor size : W) (h : earlyReserve cursor size = none) :
    (step cursor size).1 = cursor := by
  simp [step, h]

/-- run a history of requests; returns the final cursor and the successful regions
`(address, requested size)` most recent first -/
def run : W → List W → W × List (W × W)
  | c, [] => (c, [])
  | c, s :: rest =>
    match earlyReserve c s with
    | some a => let (c', rs) := run a rest; (c', rs ++ [(a, s)])
    | none => run c rest

/-- all regions in `rs` (most recent first … oldest last) lie in `[lo, hi)` where every region's
bytes `[a, a+size)` are below the address of every older one. -/
def Stacked (lo hi : Nat) : List (W × W) → Prop
  | [] => lo ≤ hi
  | (a, s) :: rest => lo ≤ a.toNat ∧ a.toNat % 4096 = 0 ∧ Stacked (a.toNat + s.toNat) hi rest

theorem stacked_mono {lo lo' hi : Nat} {rs : List (W × W)} (h : Stacked lo hi rs) (hl : lo' ≤ lo) :
    Stacked lo' hi rs := by
  cases rs with
  | nil => simp [Stacked] at *; omega
  | cons p rest =>
    obtain ⟨a, s⟩ := p
    simp [Stacked] at *
    exact ⟨by omega, h.2⟩

theorem stacked_append {lo mid hi : Nat} {rs : List (W × W)} {a s : W}
    (h : Stacked lo mid rs) (ha : mid ≤ a.toNat) (hal : a.toNat % 4096 = 0)
    (hs : a.toNat + s.toNat ≤ hi) : Stacked lo hi (rs ++ [(a, s)]) := by
  induction rs generalizing lo with
  | nil => simp [Stacked] at *; omega
  | cons p rest ih =>
    obtain ⟨a', s'⟩ := p
    simp only [Stacked, List.cons_append] at *
    exact ⟨h.1, h.2.1, ih h.2.2⟩

/-- **disjoint_history** — for every request sequence from an aligned cursor, the successful
regions, read from the most recent to the oldest, are page aligned and stacked strictly upwards:
each one's bytes `[addr, addr+size)` end at or below the start of every older one, and all of
them lie between the final cursor and the initial cursor (hence below `tempMappingAddr` when the
history starts there). -/
theorem disjoint_history (c : W) (sizes : List W) (hc : c.toNat % 4096 = 0) :
    Stacked (run c sizes).1.toNat c.toNat (run c sizes).2 ∧ (run c sizes).1.toNat % 4096 = 0 := by
  induction sizes generalizing c with
  | nil => simp [run, Stacked, hc]
  | cons s rest ih =>
    unfold run
    cases h : earlyReserve c s with
    | none => exact ih c hc
    | some a =>
      obtain ⟨h1, h2, h3, h4⟩ := reserve_ok c s a h
      have ha := h4 hc
      obtain ⟨ih1, ih2⟩ := ih a ha
      simp only
      refine ⟨?_, ih2⟩
      exact stacked_append ih1 (Nat.le_refl _) ha (by omega)

/-- pairwise disjointness spelled out, as a corollary of `Stacked` -/
theorem stacked_disjoint {lo hi : Nat} {rs : List (W × W)} (h : Stacked lo hi rs) :
    rs.Pairwise (fun newer older => newer.1.toNat + newer.2.toNat ≤ older.1.toNat) ∧
    ∀ r ∈ rs, lo ≤ r.1.toNat ∧ r.1.toNat + r.2.toNat ≤ hi := by
  induction rs generalizing lo with
  | nil => simp
  | cons p rest ih =>
    obtain ⟨a, s⟩ := p
    simp only [Stacked] at h
    obtain ⟨ihp, ihb⟩ := ih h.2.2
    constructor
    · rw [List.pairwise_cons]
      refine ⟨?_, ihp⟩
      intro r hr
      exact (ihb r hr).1
    · intro r hr
      rw [List.mem_cons] at hr
      cases hr with
      | inl e =>
        subst e
        refine ⟨h.1, ?_⟩
        show a.toNat + s.toNat ≤ hi
        cases rest with
        | nil => simp [Stacked] at h; omega
        | cons q _ => have := (ihb q (by simp)).1; have := (ihb q (by simp)).2; omega
      | inr hr =>
        have := ihb r hr
        omega

theorem no_overlap (sizes : List W) :
    (run tempMappingAddrW sizes).2.Pairwise
      (fun newer older => newer.1.toNat + newer.2.toNat ≤ older.1.toNat) ∧
    ∀ r ∈ (run tempMappingAddrW sizes).2,
      r.1.toNat % 4096 = 0 → r.1.toNat + r.2.toNat ≤ Firefly.Gen.C07.tempMappingAddr := by
  have h := disjoint_history tempMappingAddrW sizes (by decide)
  have := stacked_disjoint h.1
  refine ⟨this.1, ?_⟩
  intro r hr _
  have := (this.2 r hr).2
  have e : tempMappingAddrW.toNat = Firefly.Gen.C07.tempMappingAddr := by decide
  omega

/-- the calls made by a page loop that is not interrupted -/
theorem mapLoop_exact (page frame flags : W) (n idx : Nat) :
    mapLoop page frame flags none n idx =
      ((List.range n).map fun i => (page + BitVec.ofNat 64 i, frame + BitVec.ofNat 64 i, flags), true) := by
  induction n generalizing page frame idx with
  | zero => simp [mapLoop]
  | succ n ih =>
    simp only [mapLoop, reduceCtorEq, if_false, ih]
    rw [List.range_succ_eq_map]
    simp only [List.map_cons, List.map_map, BitVec.ofNat_eq_ofNat, BitVec.add_zero]
    congr 2
    apply List.map_congr_left
    intro i _
    simp only [Function.comp]
    have : BitVec.ofNat 64 (i+1) = 1 + BitVec.ofNat 64 i := by
      apply BitVec.eq_of_toNat_eq; simp [BitVec.toNat_add, Nat.add_comm]
    rw [this]; simp [BitVec.add_assoc]

/-- **region_maps_exact_pages** — a successful `MapRegion` (no mapping failure) reserves exactly
`ceilPages size` pages and maps page `start+i` to frame `frame+i` for each `i` below that count,
in order, with the requested flags, and nothing else. -/
theorem region_maps_exact_pages (cursor frame size flags : W)
    (hc : cursor.toNat % 4096 = 0) (r : RegionResult)
    (h : mapRegion cursor frame size flags none = r) (hok : r.ok = true) :
    r.cursor.toNat + ceilPages size.toNat * 4096 = cursor.toNat ∧
    r.page.toNat * 4096 = r.cursor.toNat ∧
    r.calls = (List.range (ceilPages size.toNat)).map
      fun i => (r.page + BitVec.ofNat 64 i, frame + BitVec.ofNat 64 i, flags) := by
  unfold mapRegion at h
  by_cases hw : roundWraps size = true
  · simp [hw] at h; subst h; simp at hok
  · have hw' : roundWraps size = false := by simpa using hw
    simp only [hw', Bool.false_eq_true, if_false] at h
    have hr := roundUp_toNat size hw'
    cases he : earlyReserve cursor (roundUp size) with
    | none => simp [he] at h; subst h; simp at hok
    | some start =>
      simp only [he, mapLoop_exact] at h
      subst h
      obtain ⟨h1, _, _, h4⟩ := reserve_ok cursor (roundUp size) start he
      have hal := h4 hc
      have hcp : ceilPages (roundUp size).toNat * 4096 = ceilPages size.toNat * 4096 := by
        rw [hr]; unfold ceilPages; omega
      have hpage : (pageOf start).toNat * 4096 = start.toNat := by
        unfold pageOf
        rw [pageSizeW_eq, pageShift_eq, toNat_ushr12, toNat_and_mask12]
        clear h1 hcp hr he hok
        omega
      have hcount : (roundUp size >>> Firefly.Gen.C07.pageShift).toNat = ceilPages size.toNat := by
        rw [pageShift_eq, toNat_ushr12, hr]; omega
      simp only [if_true, hcount]
      refine ⟨?_, hpage, trivial⟩
      rw [← hcp]; exact h1

/-- **region_fail_pure** — a `MapRegion` request that does not fit (the page-rounded size exceeds
the space below the cursor) fails, maps nothing and leaves the cursor where it was. -/
theorem region_fail_pure (cursor frame size flags : W) (failAt : Option Nat)
    (h : ¬ ceilPages size.toNat * 4096 ≤ cursor.toNat) :
    (mapRegion cursor frame size flags failAt).ok = false ∧
    (mapRegion cursor frame size flags failAt).cursor = cursor ∧
    (mapRegion cursor frame size flags failAt).calls = [] := by
  unfold mapRegion
  by_cases hw : roundWraps size = true
  · simp [hw]
  · have hw' : roundWraps size = false := by simpa using hw
    simp only [hw', Bool.false_eq_true, if_false]
    have hr := roundUp_toNat size hw'
    have hnone : earlyReserve cursor (roundUp size) = none := by
      cases he : earlyReserve cursor (roundUp size) with
      | none => rfl
      | some a =>
        exfalso
        have := (fits_iff cursor (roundUp size)).1 (by simp [he])
        rw [hr] at this
        unfold ceilPages at *
        omega
    simp [hnone]

/-! ## The Go runtime's memory hooks (`kernel/goruntime/bootstrap.go`) as clients -/

/-- **gort_reserve_ok** — a successful `sysReserve` returns a region of at least the requested
size directly below the cursor (page aligned if the cursor is); a size whose rounding wraps or that
does not fit makes it panic (`none`) and reserves nothing. -/
theorem gort_reserve_ok (cursor size addr : W) (h : gortReserve cursor size = some addr) :
    addr.toNat + ceilPages size.toNat * 4096 = cursor.toNat ∧
    size.toNat ≤ ceilPages size.toNat * 4096 ∧
    (cursor.toNat % 4096 = 0 → addr.toNat % 4096 = 0) := by
  unfold gortReserve at h
  by_cases hw : roundWraps size = true
  · simp [hw] at h
  · have hw' : roundWraps size = false := by simpa using hw
    simp only [hw', Bool.false_eq_true, if_false] at h
    have hr := roundUp_toNat size hw'
    obtain ⟨h1, _, _, h4⟩ := reserve_ok cursor (roundUp size) addr h
    have hcp : ceilPages (roundUp size).toNat * 4096 = ceilPages size.toNat * 4096 := by
      rw [hr]; unfold ceilPages; omega
    refine ⟨by rw [← hcp]; exact h1, ?_, h4⟩
    unfold ceilPages; omega

/-- the loop of `sysMap` maps every page to the same (zero) frame with the same flags -/
theorem mapLoopConst_flags (page frame flags : W) (fa : Option Nat) (n idx : Nat) :
    ∀ c ∈ (mapLoopConst page frame flags fa n idx).1, c.2.1 = frame ∧ c.2.2 = flags := by
  induction n generalizing page idx with
  | zero => intro c hc; simp [mapLoopConst] at hc
  | succ n ih =>
    intro c hc
    unfold mapLoopConst at hc
    by_cases hf : fa = some idx
    · simp only [hf, if_true, List.mem_singleton] at hc
      subst hc; exact ⟨rfl, rfl⟩
    · simp only [hf, if_false] at hc
      rw [List.mem_cons] at hc
      rcases hc with rfl | hc
      · exact ⟨rfl, rfl⟩
      · exact ih (page + 1) (idx + 1) c hc

/-- **gort_map_never_writable** — every mapping `sysMap` requests is of the shared zero frame with
Present|NoExecute|CopyOnWrite and never with the RW bit (C06's rule at this call site). -/
theorem gort_map_never_writable (va size zero : W) (fa : Option Nat) :
    ∀ c ∈ (gortMap va size zero fa).2, c.2.1 = zero ∧ c.2.2 = cowFlags ∧
      c.2.2 &&& BitVec.ofNat 64 Firefly.Gen.C07.flagRW = 0 := by
  intro c hc
  unfold gortMap at hc
  by_cases hw : roundWraps size = true
  · simp [hw] at hc
  · have hw' : roundWraps size = false := by simpa using hw
    simp only [hw', Bool.false_eq_true, if_false] at hc
    have := mapLoopConst_flags (pageOf (roundUp va)) zero cowFlags fa _ 0 c hc
    refine ⟨this.1, this.2, ?_⟩
    rw [this.2]; decide

/-! ## Non-vacuity: concrete instances of the hypotheses -/

example : earlyReserve tempMappingAddrW 4097#64 = some (tempMappingAddrW - 8192#64) := by decide
example : earlyReserve tempMappingAddrW (BitVec.ofNat 64 (2^64-1)) = none := by decide
example : (run tempMappingAddrW [1#64, 0#64, 4096#64, BitVec.ofNat 64 (2^64-1), 5000#64]).2.length = 4 := by
  decide
example : (mapRegion tempMappingAddrW 7#64 4097#64 3#64 none).ok = true := by decide

example : gortReserve tempMappingAddrW 5000#64 = some (tempMappingAddrW - 8192#64) := by decide
example : gortReserve tempMappingAddrW (BitVec.ofNat 64 (2^64-1)) = none := by decide
example : (gortMap 0x1234#64 4097#64 0x77#64 none).2.length = 2 := by decide

/-- **single_cursor_writer** — the history theorems (`disjoint_history`, `no_overlap`) thread the
cursor through `earlyReserve` only: nothing else moves it. On the Go side that is a fact about the
source of package vmm, regenerated on every run (`Gen.C07.cursorWriters`, read off the AST): the only
function that assigns, increments or takes the address of `earlyReserveLastUsed` is
`EarlyReserveRegion`. (A second writer — e.g. the switch to the kernel address space iterating with
the cursor itself — breaks this theorem; the search then runs reservation histories across the real
`setupPDTForKernel`, clause `setup-keeps-reservations`.) -/
theorem single_cursor_writer : Firefly.Gen.C07.cursorWriters = ["EarlyReserveRegion"] := by decide

end Firefly.C07
