import Firefly.Proof.Console
import Firefly.Proof.ConsoleGrid
import Firefly.Gen.C19
/-!
# C19 — Console drivers paint exactly the addressed cells, never outside the framebuffer

Statement (properties.jsonl): for every console geometry and every argument value, writing a
character changes only the pixels (or the text cell) of the addressed cell — glyph bits in the
foreground colour, the rest in the background colour, packed for the framebuffer's pixel format —
and does nothing for coordinates outside the grid; filling clamps the rectangle's origin into the
grid, clips its extent at the right and bottom edges and changes exactly those cells; scrolling by
1 up to the grid height moves the text area by exactly that many lines, leaves the logo area
alone, and any other line count is ignored.  No operation ever touches memory outside the
framebuffer, or the padding bytes between rows.

The models (`Model/VgaText.lean`, `Model/VesaFb.lean`) use checked framebuffer access (`none` =
Go index panic = access outside the framebuffer) and 32-bit wrap-around arithmetic; the
specifications (`Spec/Console.lean`) are pointwise and use unbounded arithmetic.  Every theorem
below is for all geometries satisfying the stated domain predicate and all 32-bit arguments.
-/
namespace Firefly.C19
open Firefly Firefly.FbMem Firefly.ConsoleProof Firefly.Spec.Console

/-! ## text console -/

/-- domain of the text-console theorems: a non-empty grid whose framebuffer (2 bytes per cell)
fits 32 bits, mapped as `DriverInit` does, and a palette of 1..256 colours -/
structure TextOk (c : VgaText.Cons) (fb : Array UInt16) : Prop where
  w1 : 1 ≤ c.width
  h1 : 1 ≤ c.height
  small : c.width * c.height < 2147483648
  size : fb.size = c.width * c.height
  pal : 1 ≤ c.paletteLen ∧ c.paletteLen ≤ 256

/-- framebuffer contents as a function -/
def view16 (fb : Array UInt16) : Nat → UInt16 := fun i => fb.getD i 0
def view8 (fb : Array UInt8) : Nat → UInt8 := fun i => fb.getD i 0

/-- non-vacuity: the 80×25 console built from the generated constants is in the domain, and the
model's framebuffer length is what `DriverInit` computes -/
example : TextOk { width := 80, height := 25, paletteLen := Gen.C19.vgaPaletteLen }
    (Array.replicate 2000 0) := by
  constructor <;> simp [Gen.C19.vgaPaletteLen]
example : VgaText.fbLen { width := 80, height := 25 } = 2000 := by decide

private theorem cell_index_lt {x y W H : Nat} (hx : 1 ≤ x ∧ x ≤ W) (hy : 1 ≤ y ∧ y ≤ H) :
    (y - 1) * W + (x - 1) < W * H := by
  have h := Nat.mul_le_mul_right W (show y - 1 + 1 ≤ H by omega)
  rw [Nat.add_mul, Nat.one_mul, Nat.mul_comm H W] at h
  omega

private theorem getD_set16 (fb : Array UInt16) (j : Nat) (v : UInt16) (h : j < fb.size) (i : Nat) :
    (fb.set j v h).getD i 0 = if i = j then v else fb.getD i 0 := by
  rw [Array.getD_eq_getD_getElem?, Array.getD_eq_getD_getElem?, Array.getElem?_set]
  by_cases hij : j = i
  · subst hij; simp
  · have : ¬ i = j := fun h => hij h.symm
    simp [hij, this]

/-- **write_frame (text)** — for every cell coordinate: inside the grid exactly the addressed
cell changes, to character + attribute byte (colours beyond the palette replaced by the
defaults); outside the grid nothing changes; never a panic. -/
theorem text_write_frame (c : VgaText.Cons) (fb : Array UInt16) (ok : TextOk c fb)
    (ch fg bg x y : Nat) (hx : x < 4294967296) (hy : y < 4294967296) :
    ∃ fb', VgaText.write c fb ch fg bg x y = some fb' ∧ fb'.size = fb.size ∧
      ∀ i, i < fb.size → view16 fb' i = textWrite c (view16 fb) ch fg bg x y i := by
  obtain ⟨w1, h1, small, size, pal⟩ := ok
  unfold VgaText.write
  by_cases hg : x < 1 ∨ x > c.width ∨ y < 1 ∨ y > c.height
  · refine ⟨fb, by rw [if_pos hg], rfl, fun i _ => ?_⟩
    have : ¬ (1 ≤ x ∧ x ≤ c.width ∧ 1 ≤ y ∧ y ≤ c.height ∧ i = (y - 1) * c.width + (x - 1)) := by omega
    simp only [textWrite, if_neg this]
  · have hin : (1 ≤ x ∧ x ≤ c.width) ∧ (1 ≤ y ∧ y ≤ c.height) := by omega
    have hidx := cell_index_lt hin.1 hin.2
    have hmax : (c.paletteLen + 255) % 256 = c.paletteLen - 1 := by omega
    have hoff : add32 (mul32 (sub32 y 1) c.width) (sub32 x 1) = (y - 1) * c.width + (x - 1) := by
      have e1 : sub32 y 1 = y - 1 := by unfold sub32; omega
      have e2 : sub32 x 1 = x - 1 := by unfold sub32; omega
      rw [e1, e2]; unfold add32 mul32; omega
    rw [if_neg hg, hmax, hoff]
    have hlt : (y - 1) * c.width + (x - 1) < fb.size := by omega
    refine ⟨_, put_eq hlt, by simp, fun i _ => ?_⟩
    simp only [view16, getD_set16, textWrite, textColor]
    by_cases hi : i = (y - 1) * c.width + (x - 1)
    · have : 1 ≤ x ∧ x ≤ c.width ∧ 1 ≤ y ∧ y ≤ c.height ∧ i = (y - 1) * c.width + (x - 1) := by omega
      rw [if_pos hi, if_pos this]
    · have : ¬ (1 ≤ x ∧ x ≤ c.width ∧ 1 ≤ y ∧ y ≤ c.height ∧ i = (y - 1) * c.width + (x - 1)) := by omega
      rw [if_neg hi, if_neg this]


private theorem clamp_range {x n : Nat} (hn : 1 ≤ n) : 1 ≤ clamp x n ∧ clamp x n ≤ n := by
  unfold clamp; split
  · omega
  · split <;> omega

private theorem clip_eq {w n cx : Nat} (hc : 1 ≤ cx ∧ cx ≤ n) (hn : n < 4294967296) :
    VgaText.clipExtent w n cx = min w (n - cx + 1) := by
  unfold VgaText.clipExtent add32 sub32; split <;> omega

private theorem getD_eq16 (fb : Array UInt16) (i : Nat) : view16 fb i = fb[i]?.getD 0 := by
  simp [view16, Array.getD_eq_getD_getElem?]

private theorem text_fill_aux (c : VgaText.Cons) (fb : Array UInt16) (w1 : 1 ≤ c.width) (h1 : 1 ≤ c.height)
    (small : c.width * c.height < 2147483648) (size : fb.size = c.width * c.height)
    (clr : UInt16) (cx cy w h : Nat) (rx : 1 ≤ cx ∧ cx ≤ c.width) (ry : 1 ≤ cy ∧ cy ≤ c.height) :
    ∃ fb', VgaText.fillRows clr (min w (c.width - cx + 1)) c.width fb
        (add32 (mul32 (sub32 cy 1) c.width) (sub32 cx 1)) (min h (c.height - cy + 1)) = some fb' ∧
      fb'.size = fb.size ∧
      ∀ i, i < fb.size → view16 fb' i =
        if i < c.width * c.height ∧ cx - 1 ≤ i % c.width ∧ i % c.width < min (cx - 1 + w) c.width ∧
            cy - 1 ≤ i / c.width ∧ i / c.width < min (cy - 1 + h) c.height then clr
        else view16 fb i := by
  have hW : c.width ≤ c.width * c.height := Nat.le_mul_of_pos_right _ h1
  have hH : c.height ≤ c.width * c.height := Nat.le_mul_of_pos_left _ w1
  have hidx := cell_index_lt rx ry
  have hoff : add32 (mul32 (sub32 cy 1) c.width) (sub32 cx 1) = (cy - 1) * c.width + (cx - 1) := by
    have e1 : sub32 cy 1 = cy - 1 := by unfold sub32; omega
    have e2 : sub32 cx 1 = cx - 1 := by unfold sub32; omega
    rw [e1, e2]; unfold add32 mul32; omega
  rw [hoff]
  have hrows : (cy - 1 + min h (c.height - cy + 1)) * c.width ≤ fb.size := by
    have := Nat.mul_le_mul_right c.width (show cy - 1 + min h (c.height - cy + 1) ≤ c.height by omega)
    rw [Nat.mul_comm c.height] at this; omega
  obtain ⟨fb', g1, g2, g3⟩ := text_fillRows_spec clr c.width (cx - 1)
    (min w (c.width - cx + 1)) (by omega) (min h (c.height - cy + 1)) fb (cy - 1) hrows (by omega)
  refine ⟨fb', g1, g2, fun i hi => ?_⟩
  rw [getD_eq16, g3]
  by_cases hA : (cy - 1 ≤ i / c.width ∧ i / c.width < cy - 1 + min h (c.height - cy + 1)) ∧
      cx - 1 ≤ i % c.width ∧ i % c.width < cx - 1 + min w (c.width - cx + 1)
  · rw [if_pos hA, if_pos (by omega)]; rfl
  · rw [if_neg hA, if_neg (by omega), getD_eq16]

/-- **fill_clip (text)** — for all 32-bit `x y w h` (including those whose sums leave 32 bits):
the cells that change are exactly the rectangle with its origin clamped into the grid and its
extent clipped at the right and bottom edges; each becomes the clear character with the given
attribute; never a panic. -/
theorem text_fill_clip (c : VgaText.Cons) (fb : Array UInt16) (ok : TextOk c fb)
    (x y w h fg bg : Nat) (hx : x < 4294967296) (hy : y < 4294967296)
    (hw : w < 4294967296) (hh : h < 4294967296) :
    ∃ fb', VgaText.fill c fb x y w h fg bg = some fb' ∧ fb'.size = fb.size ∧
      ∀ i, i < fb.size → view16 fb' i = textFill c (view16 fb) x y w h fg bg i := by
  obtain ⟨w1, h1, small, size, pal⟩ := ok
  have hW : c.width ≤ c.width * c.height := Nat.le_mul_of_pos_right _ h1
  have hH : c.height ≤ c.width * c.height := Nat.le_mul_of_pos_left _ w1
  have hcx : ∀ x n, VgaText.clampOrigin x n = clamp x n := fun _ _ => rfl
  unfold VgaText.fill
  rw [if_neg (by omega)]
  simp only [hcx, textFill, fillRect]
  have rx := @clamp_range x c.width w1
  have ry := @clamp_range y c.height h1
  rw [clip_eq rx (by omega), clip_eq ry (by omega)]
  exact text_fill_aux c fb w1 h1 small size _ _ _ w h rx ry

/-- **scroll_exact (text)** — a line count in `1..rows` moves every row by exactly that many
lines (the rows scrolled in keep their old contents: the caller repaints them); any other count,
and any direction other than up/down, changes nothing; never a panic. -/
theorem text_scroll_exact (c : VgaText.Cons) (fb : Array UInt16) (ok : TextOk c fb)
    (dir lines : Nat) (hl : lines < 4294967296) :
    ∃ fb', VgaText.scroll c fb dir lines = some fb' ∧ fb'.size = fb.size ∧
      ∀ i, i < fb.size → view16 fb' i = textScroll c (view16 fb) dir lines i := by
  obtain ⟨w1, h1, small, size, pal⟩ := ok
  unfold VgaText.scroll
  by_cases hg : lines = 0 ∨ lines > c.height
  · refine ⟨fb, by rw [if_pos hg], rfl, fun i _ => ?_⟩
    have : ¬ (1 ≤ lines ∧ lines ≤ c.height) := by omega
    simp only [textScroll, if_neg this]
  · rw [if_neg hg]
    have hv : 1 ≤ lines ∧ lines ≤ c.height := by omega
    have hH : c.height ≤ c.width * c.height := Nat.le_mul_of_pos_left _ w1
    have hsplit : (c.height - lines) * c.width + lines * c.width = c.width * c.height := by
      rw [← Nat.add_mul, Nat.sub_add_cancel hv.2, Nat.mul_comm]
    have hlw : 1 ≤ lines * c.width := Nat.mul_pos hv.1 w1
    have hoffset : mul32 lines c.width = lines * c.width := by unfold mul32; omega
    by_cases hd0 : dir = 0
    · rw [if_pos hd0]
      have hn : mul32 (sub32 c.height lines) c.width = (c.height - lines) * c.width := by
        have : sub32 c.height lines = c.height - lines := by unfold sub32; omega
        rw [this]; unfold mul32; omega
      rw [hn, hoffset]
      obtain ⟨fb', g1, g2, g3⟩ := copyAsc_spec (fun i => add32 i (lines * c.width)) ((c.height - lines) * c.width) fb 0
        (by omega) (by intro k _ hk; simp only [add32]; omega)
      refine ⟨fb', g1, g2, fun i hi => ?_⟩
      rw [getD_eq16, g3]
      simp only [textScroll, if_pos hv, if_pos hd0]
      by_cases hA : i < (c.height - lines) * c.width
      · rw [if_pos (by omega), if_pos hA, getD_eq16]
        have : add32 i (lines * c.width) = i + lines * c.width := by unfold add32; omega
        rw [this]
      · rw [if_neg (by omega), if_neg hA, getD_eq16]
    · rw [if_neg hd0]
      by_cases hd1 : dir = 1
      · rw [if_pos hd1]
        have hstart : sub32 (mul32 c.height c.width) 1 = c.width * c.height - 1 := by
          have : mul32 c.height c.width = c.width * c.height := by unfold mul32; rw [Nat.mul_comm]; omega
          rw [this]; unfold sub32; omega
        simp only [hstart, hoffset]
        rw [if_neg (by omega)]
        obtain ⟨fb', g1, g2, g3⟩ := copyDesc_spec (fun i => sub32 i (lines * c.width))
          (c.width * c.height - 1 + 1 - lines * c.width) fb (c.width * c.height - 1)
          (by omega) (by omega) (by intro k hk1 hk2; simp only [sub32]; omega)
        refine ⟨fb', g1, g2, fun i hi => ?_⟩
        rw [getD_eq16, g3]
        simp only [textScroll, if_pos hv, if_neg hd0, if_pos hd1]
        by_cases hA : lines * c.width ≤ i ∧ i < c.height * c.width
        · rw [if_pos (by rw [Nat.mul_comm c.height] at hA; omega), if_pos hA, getD_eq16]
          have : sub32 i (lines * c.width) = i - lines * c.width := by unfold sub32; omega
          rw [this]
        · rw [if_neg (by rw [Nat.mul_comm c.height] at hA; omega), if_neg hA, getD_eq16]
      · rw [if_neg hd1]
        refine ⟨fb, rfl, rfl, fun i _ => ?_⟩
        simp only [textScroll, if_pos hv, if_neg hd0, if_neg hd1]


/-! ## pixel console -/

/-- domain of the pixel-console theorems: a supported depth, a font with non-empty glyphs selected
with `SetFont` after the logo (if any), a grid with at least one cell, `pitch ≥` the visible row
bytes, a framebuffer of `height*pitch` bytes (as `DriverInit` maps it) that — with one row of
slack — fits 32 bits, and the full 256-entry palette. -/
structure PixOk (c : VesaFb.Cons) (f : VesaFb.Font) (fb : Array UInt8) : Prop where
  font : c.font = some f
  bpp : c.bpp = 8 ∨ c.bpp = 15 ∨ c.bpp = 16 ∨ c.bpp = 24 ∨ c.bpp = 32
  bytes : c.bytesPerPixel = VesaFb.bytesPerPixelOf c.bpp
  gw1 : 1 ≤ f.gw
  gh1 : 1 ≤ f.gh
  cols : c.cols = c.width / f.gw
  rows : c.rows = (c.height - c.offsetY) / f.gh
  logo : c.offsetY ≤ c.height
  cols1 : 1 ≤ c.cols
  rows1 : 1 ≤ c.rows
  pitch : c.width * c.bytesPerPixel ≤ c.pitch
  small : (c.height + 1) * c.pitch + 4 < 4294967296
  size : fb.size = c.height * c.pitch
  pal : c.palette.size = 256

/-- the bytes-per-pixel values that `NewVesaFbConsole` computes for the five depths (regenerated
from the compiled code) are the model's `bytesPerPixelOf` -/
theorem bytesPerPixel_table : ∀ p ∈ Gen.C19.bytesPerPixelTable, VesaFb.bytesPerPixelOf p.1 = p.2 := by decide

/-- non-vacuity: a 24×35 16-bpp framebuffer with 1 byte of row padding, a 3-row logo and an 8×16
font (2 rows of 3 cells) is in the domain -/
example : PixOk { bpp := 16, bytesPerPixel := 2, width := 24, height := 35, pitch := 49, offsetY := 3,
                  font := some { gw := 8, gh := 16, bpr := 1, data := #[] }, cols := 3, rows := 2,
                  palette := Array.replicate 256 (0, 0, 0) }
    { gw := 8, gh := 16, bpr := 1, data := #[] } (Array.replicate (35 * 49) 0) := by
  constructor
  case size => simp
  case pal => simp
  case bytes => decide
  all_goals first | simp | decide

/-- the shipped fonts (metadata regenerated from the compiled code) have non-empty glyphs, rows of
`⌈gw/8⌉` bytes and 256 glyphs of data, and a blank space glyph -/
example : ∀ p ∈ Gen.C19.fonts, 1 ≤ p.2.1 ∧ 1 ≤ p.2.2.1 ∧ 8 * (p.2.2.2.1 - 1) < p.2.1 ∧ p.2.1 ≤ 8 * p.2.2.2.1 ∧
    p.2.2.2.2.1 = 256 * p.2.2.2.1 * p.2.2.1 ∧ p.2.2.2.2.2 = true := by decide

private theorem getD_eq8 (fb : Array UInt8) (i : Nat) : view8 fb i = fb[i]?.getD 0 := by
  simp [view8, Array.getD_eq_getD_getElem?]

private theorem view8_eq (fb : Array UInt8) : view8 fb = fun j => fb.getD j 0 := rfl

private theorem bytes_cases {c : VesaFb.Cons} {f : VesaFb.Font} {fb : Array UInt8} (ok : PixOk c f fb) :
    (c.bpp = 8 ∧ c.bytesPerPixel = 1) ∨ (c.bpp = 15 ∧ c.bytesPerPixel = 2) ∨ (c.bpp = 16 ∧ c.bytesPerPixel = 2) ∨
    (c.bpp = 24 ∧ c.bytesPerPixel = 3) ∨ (c.bpp = 32 ∧ c.bytesPerPixel = 4) := by
  have hb := ok.bytes
  rcases ok.bpp with h | h | h | h | h <;> rw [h] at hb <;> simp [h, hb, VesaFb.bytesPerPixelOf]

/-- the packed colour of a palette index: 1, 2 or 3 bytes, never more than a pixel -/
private theorem pixelBytes_ok {c : VesaFb.Cons} {f : VesaFb.Font} {fb : Array UInt8} (ok : PixOk c f fb)
    (idx : Nat) (hidx : idx < 256) :
    ∃ comp, VesaFb.pixelBytes c idx = some (some comp) ∧ colorBytes c idx = comp ∧
      comp.length ≤ c.bytesPerPixel := by
  have hp : ∃ rgb, c.palette[idx]? = some rgb := by
    have : idx < c.palette.size := by rw [ok.pal]; exact hidx
    exact ⟨_, Array.getElem?_eq_getElem this⟩
  obtain ⟨rgb, hrgb⟩ := hp
  rcases bytes_cases ok with h | h | h | h | h
  all_goals
    obtain ⟨h1, h2⟩ := h
    simp [VesaFb.pixelBytes, colorBytes, VesaFb.packColor16, VesaFb.packColor24, h1, h2, hrgb]

private theorem pix_clip_eq {w n cx : Nat} (hc : 1 ≤ cx ∧ cx ≤ n) (hn : n < 4294967296) :
    VesaFb.clipExtent w n cx = min w (n - cx + 1) := by
  unfold VesaFb.clipExtent add32 sub32; split <;> omega

/-- geometry facts used by all pixel theorems -/
private theorem geom {c : VesaFb.Cons} {f : VesaFb.Font} {fb : Array UInt8} (ok : PixOk c f fb) :
    c.cols * f.gw ≤ c.width ∧ c.offsetY + c.rows * f.gh ≤ c.height ∧ 1 ≤ c.bytesPerPixel ∧ c.bytesPerPixel ≤ 4 ∧
    c.width ≤ c.pitch ∧ c.height * c.pitch + c.pitch + 4 < 4294967296 ∧ 1 ≤ c.pitch ∧ c.height ≤ c.height * c.pitch := by
  have h1 : c.cols * f.gw ≤ c.width := by rw [ok.cols]; exact Nat.div_mul_le_self _ _
  have h2 : c.rows * f.gh ≤ c.height - c.offsetY := by rw [ok.rows]; exact Nat.div_mul_le_self _ _
  have h3 : 1 ≤ c.bytesPerPixel ∧ c.bytesPerPixel ≤ 4 := by rcases bytes_cases ok with h | h | h | h | h <;> omega
  have h4 : c.width ≤ c.width * c.bytesPerPixel := Nat.le_mul_of_pos_right _ h3.1
  have h5 : (c.height + 1) * c.pitch = c.height * c.pitch + c.pitch := by rw [Nat.add_mul]; omega
  have h6 : 1 ≤ c.cols * f.gw := Nat.mul_pos ok.cols1 ok.gw1
  have h7 : 1 ≤ c.pitch := by have := ok.pitch; omega
  have h8 : c.height ≤ c.height * c.pitch := Nat.le_mul_of_pos_right _ h7
  have := ok.small; have := ok.logo; have := ok.pitch
  omega

/-- painting a rectangle of whole cells with one colour (shared by `pix_fill_clip`) -/
private theorem pix_fill_aux {c : VesaFb.Cons} {f : VesaFb.Font} {fb : Array UInt8} (ok : PixOk c f fb)
    (comp : List UInt8) (hcomp : comp.length ≤ c.bytesPerPixel)
    (cx cy w h : Nat) (rx : 1 ≤ cx ∧ cx - 1 + w ≤ c.cols) (ry : 1 ≤ cy ∧ cy - 1 + h ≤ c.rows) :
    ∃ fb', VesaFb.fillRows comp c.bytesPerPixel c.pitch (mul32 w f.gw * c.bytesPerPixel) fb
        (VesaFb.fbOffset c (mul32 (sub32 cx 1) f.gw) (mul32 (sub32 cy 1) f.gh)) (mul32 h f.gh) = some fb' ∧
      fb'.size = fb.size ∧
      ∀ i, i < fb.size → view8 fb' i =
        paint c (view8 fb) ((cx - 1) * f.gw) ((cx - 1 + w) * f.gw) (c.offsetY + (cy - 1) * f.gh)
          (c.offsetY + (cy - 1 + h) * f.gh) (fun _ _ => comp) i := by
  obtain ⟨g1, g2, g3, g4, g5, g6, g7, g8⟩ := geom ok
  have hsize := ok.size
  have hpitch := ok.pitch
  have hcc : c.cols ≤ c.cols * f.gw := Nat.le_mul_of_pos_right _ ok.gw1
  have hrr : c.rows ≤ c.rows * f.gh := Nat.le_mul_of_pos_right _ ok.gh1
  -- products that stay small
  have hxw : (cx - 1 + w) * f.gw ≤ c.cols * f.gw := Nat.mul_le_mul_right _ rx.2
  have hyh : (cy - 1 + h) * f.gh ≤ c.rows * f.gh := Nat.mul_le_mul_right _ ry.2
  rw [Nat.add_mul] at hxw hyh
  have hpX : mul32 (sub32 cx 1) f.gw = (cx - 1) * f.gw := by
    have : sub32 cx 1 = cx - 1 := by unfold sub32; omega
    rw [this]; unfold mul32; omega
  have hpY : mul32 (sub32 cy 1) f.gh = (cy - 1) * f.gh := by
    have : sub32 cy 1 = cy - 1 := by unfold sub32; omega
    rw [this]; unfold mul32; omega
  have hpW : mul32 w f.gw = w * f.gw := by unfold mul32; omega
  have hpH : mul32 h f.gh = h * f.gh := by unfold mul32; omega
  rw [hpX, hpY, hpW, hpH]
  -- row bytes
  have hrowb : ((cx - 1) * f.gw + w * f.gw) * c.bytesPerPixel ≤ c.width * c.bytesPerPixel :=
    Nat.mul_le_mul_right _ (by omega)
  rw [Nat.add_mul] at hrowb
  have hR : ((cy - 1) * f.gh + c.offsetY + h * f.gh) * c.pitch ≤ c.height * c.pitch :=
    Nat.mul_le_mul_right _ (by omega)
  have hR0 : ((cy - 1) * f.gh + c.offsetY) * c.pitch ≤ ((cy - 1) * f.gh + c.offsetY + h * f.gh) * c.pitch :=
    Nat.mul_le_mul_right _ (by omega)
  have hoff : VesaFb.fbOffset c ((cx - 1) * f.gw) ((cy - 1) * f.gh) =
      ((cy - 1) * f.gh + c.offsetY) * c.pitch + (cx - 1) * f.gw * c.bytesPerPixel := by
    unfold VesaFb.fbOffset add32 mul32
    have e1 : ((cy - 1) * f.gh + c.offsetY) % 4294967296 = (cy - 1) * f.gh + c.offsetY := by omega
    rw [e1]
    have ha : ((cy - 1) * f.gh + c.offsetY) * c.pitch % 4294967296 = ((cy - 1) * f.gh + c.offsetY) * c.pitch := by omega
    have hb : (cx - 1) * f.gw * c.bytesPerPixel % 4294967296 = (cx - 1) * f.gw * c.bytesPerPixel := by omega
    rw [ha, hb]; omega
  rw [hoff]
  rw [vesa_fillRows_eq comp c.bytesPerPixel c.pitch (w * f.gw) ((cx - 1) * f.gw * c.bytesPerPixel) g3 hcomp (by omega)
    (h * f.gh) fb ((cy - 1) * f.gh + c.offsetY) 0 (by omega) (by omega)]
  obtain ⟨fb', k1, k2, k3⟩ := rowsF_spec (fun _ _ => comp) c.bytesPerPixel comp.length c.pitch (w * f.gw)
    ((cx - 1) * f.gw * c.bytesPerPixel) (fun _ _ => rfl) hcomp g3 (by omega) (h * f.gh) fb
    ((cy - 1) * f.gh + c.offsetY) 0 (by omega) (by omega)
  refine ⟨fb', k1, k2, fun i _ => ?_⟩
  rw [getD_eq8, k3, view8_eq]
  have hb := paint_bridge c fb comp.length ((cx - 1) * f.gw) (w * f.gw) ((cy - 1) * f.gh + c.offsetY) (h * f.gh)
    (fun _ _ => comp) (fun _ _ => rfl) g3 i
  rw [hb]
  have e1 : (cx - 1) * f.gw + w * f.gw = (cx - 1 + w) * f.gw := by rw [Nat.add_mul]
  have e2 : (cy - 1) * f.gh + c.offsetY = c.offsetY + (cy - 1) * f.gh := by omega
  have e3 : (cy - 1) * f.gh + c.offsetY + h * f.gh = c.offsetY + (cy - 1 + h) * f.gh := by rw [Nat.add_mul]; omega
  rw [e1, e3, e2]

/-- **fill_clip (pixel)** — for all 32-bit `x y w h`: exactly the pixels of the cells of the
clamped/clipped rectangle change, each to the packed background colour (only the colour bytes of
a pixel: a 32-bit pixel keeps its fourth byte); padding bytes, the logo rows and everything else
keep their contents; never a panic. -/
theorem pix_fill_clip (c : VesaFb.Cons) (f : VesaFb.Font) (fb : Array UInt8) (ok : PixOk c f fb)
    (x y w h fg bg : Nat) (hx : x < 4294967296) (hy : y < 4294967296)
    (hw : w < 4294967296) (hh : h < 4294967296) (hbg : bg < 256) :
    ∃ fb', VesaFb.fill c fb x y w h fg bg = some fb' ∧ fb'.size = fb.size ∧
      ∀ i, i < fb.size → view8 fb' i = pixFill c f (view8 fb) x y w h bg i := by
  obtain ⟨g1, g2, g3, g4, g5, g6, g7, g8⟩ := geom ok
  obtain ⟨comp, hc1, hc2, hc3⟩ := pixelBytes_ok ok bg hbg
  have hcx : ∀ x n, VesaFb.clampOrigin x n = clamp x n := fun _ _ => rfl
  have rx := @clamp_range x c.cols ok.cols1
  have ry := @clamp_range y c.rows ok.rows1
  have hcols : c.cols < 4294967296 := by
    have := Nat.le_mul_of_pos_right c.cols ok.gw1; omega
  have hrows : c.rows < 4294967296 := by
    have := Nat.le_mul_of_pos_right c.rows ok.gh1; omega
  unfold VesaFb.fill
  rw [ok.font]
  simp only []
  rw [if_neg (by have := ok.cols1; have := ok.rows1; omega)]
  simp only [hcx, hc1, pixFill, fillRect, hc2]
  rw [pix_clip_eq rx hcols, pix_clip_eq ry hrows]
  have ex : min (clamp x c.cols - 1 + w) c.cols = clamp x c.cols - 1 + min w (c.cols - clamp x c.cols + 1) := by omega
  have ey : min (clamp y c.rows - 1 + h) c.rows = clamp y c.rows - 1 + min h (c.rows - clamp y c.rows + 1) := by omega
  rw [ex, ey]
  have aux := pix_fill_aux ok comp hc3 (clamp x c.cols) (clamp y c.rows) (min w (c.cols - clamp x c.cols + 1))
    (min h (c.rows - clamp y c.rows + 1)) (by omega) (by omega)
  by_cases h8 : c.bpp = 8
  · rw [if_pos h8]
    have hb1 : c.bytesPerPixel = 1 := by rcases bytes_cases ok with h | h | h | h | h <;> omega
    rw [hb1, Nat.mul_one] at aux
    exact aux
  · rw [if_neg h8]
    have hm : mul32 (mul32 (min w (c.cols - clamp x c.cols + 1)) f.gw) c.bytesPerPixel
        = mul32 (min w (c.cols - clamp x c.cols + 1)) f.gw * c.bytesPerPixel := by
      have hle : min w (c.cols - clamp x c.cols + 1) * f.gw ≤ c.cols * f.gw := Nat.mul_le_mul_right _ (by omega)
      have hle2 : min w (c.cols - clamp x c.cols + 1) * f.gw * c.bytesPerPixel ≤ c.width * c.bytesPerPixel :=
        Nat.mul_le_mul_right _ (by omega)
      have := ok.pitch
      have e : mul32 (min w (c.cols - clamp x c.cols + 1)) f.gw = min w (c.cols - clamp x c.cols + 1) * f.gw := by
        unfold mul32; omega
      rw [e]; unfold mul32; omega
    rw [hm]
    exact aux


private theorem add_sub32 {a b : Nat} (ha : a < 4294967296) (hb : b < 4294967296) : add32 (sub32 a b) b = a := by
  unfold add32 sub32; omega

/-- **scroll_exact (pixel)** — a line count in `1..rows` moves the visible bytes of every pixel
row below the logo by exactly `lines` glyph heights; the logo rows, the padding bytes after each
row, and the rows scrolled in keep their contents; any other count or direction changes
nothing; never a panic. -/
theorem pix_scroll_exact (c : VesaFb.Cons) (f : VesaFb.Font) (fb : Array UInt8) (ok : PixOk c f fb)
    (dir lines : Nat) (hl : lines < 4294967296) :
    ∃ fb', VesaFb.scroll c fb dir lines = some fb' ∧ fb'.size = fb.size ∧
      ∀ i, i < fb.size → view8 fb' i = pixScroll c f (view8 fb) dir lines i := by
  obtain ⟨g1, g2, g3, g4, g5, g6, g7, g8⟩ := geom ok
  have hsize := ok.size
  have hpitch := ok.pitch
  unfold VesaFb.scroll
  rw [ok.font]
  simp only []
  by_cases hg : lines = 0 ∨ lines > c.rows
  · refine ⟨fb, by rw [if_pos hg], rfl, fun i _ => ?_⟩
    have : ¬ (1 ≤ lines ∧ lines ≤ c.rows ∧ i % c.pitch < c.width * c.bytesPerPixel) := by omega
    simp only [pixScroll, if_neg this]
  · rw [if_neg hg]
    have hv : 1 ≤ lines ∧ lines ≤ c.rows := by omega
    -- d = lines * gh pixel rows
    have hd1 : lines * f.gh ≤ c.rows * f.gh := Nat.mul_le_mul_right _ hv.2
    have hd0 : 1 ≤ lines * f.gh := Nat.mul_pos hv.1 ok.gh1
    have hm : mul32 lines f.gh = lines * f.gh := by unfold mul32; omega
    have hrb : mul32 c.width c.bytesPerPixel = c.width * c.bytesPerPixel := by unfold mul32; omega
    have hz : mul32 0 c.bytesPerPixel = 0 := by unfold mul32; omega
    have hdp : lines * f.gh * c.pitch ≤ c.height * c.pitch := Nat.mul_le_mul_right _ (by omega)
    have hdp1 : c.pitch ≤ lines * f.gh * c.pitch := Nat.le_mul_of_pos_left _ hd0
    have hoffset : VesaFb.fbOffset c 0 (sub32 (mul32 lines f.gh) c.offsetY) = lines * f.gh * c.pitch := by
      unfold VesaFb.fbOffset
      rw [hm, add_sub32 (by omega) (by omega), hz]; unfold add32 mul32; omega
    rw [hoffset, hrb]
    by_cases hd0' : dir = 0
    · rw [if_pos hd0']
      have hstart : VesaFb.fbOffset c 0 0 = c.offsetY * c.pitch := by
        have hle : c.offsetY * c.pitch ≤ c.height * c.pitch := Nat.mul_le_mul_right _ ok.logo
        unfold VesaFb.fbOffset
        rw [hz]; unfold add32 mul32
        have : (0 + c.offsetY) % 4294967296 = c.offsetY := by omega
        rw [this]; omega
      have hend : VesaFb.fbOffset c 0 (sub32 (sub32 c.height (mul32 lines f.gh)) c.offsetY) = (c.height - lines * f.gh) * c.pitch := by
        have hle : (c.height - lines * f.gh) * c.pitch ≤ c.height * c.pitch := Nat.mul_le_mul_right _ (by omega)
        have hs : sub32 c.height (mul32 lines f.gh) = c.height - lines * f.gh := by rw [hm]; unfold sub32; omega
        unfold VesaFb.fbOffset
        rw [hs, add_sub32 (by omega) (by omega), hz]; unfold add32 mul32; omega
      rw [hstart, hend, rows_count g7 (by omega)]
      have hcond : (c.offsetY + (c.height - lines * f.gh - c.offsetY)) * c.pitch + lines * f.gh * c.pitch ≤ fb.size := by
        rw [← Nat.add_mul, hsize]
        exact Nat.mul_le_mul_right _ (by omega)
      obtain ⟨fb', k1, k2, k3⟩ := scrollRowsUp_spec (lines * f.gh * c.pitch) (c.width * c.bytesPerPixel) c.pitch hpitch
        (c.height - lines * f.gh - c.offsetY) fb c.offsetY hcond (by omega)
      refine ⟨fb', k1, k2, fun i _ => ?_⟩
      rw [getD_eq8, k3]
      simp only [pixScroll, if_pos hd0']
      by_cases hA : (c.offsetY ≤ i / c.pitch ∧ i / c.pitch < c.offsetY + (c.height - lines * f.gh - c.offsetY)) ∧
          i % c.pitch < c.width * c.bytesPerPixel
      · rw [if_pos hA, if_pos (by omega), if_pos (by omega), getD_eq8]
      · rw [if_neg hA]
        by_cases hB : 1 ≤ lines ∧ lines ≤ c.rows ∧ i % c.pitch < c.width * c.bytesPerPixel
        · rw [if_pos hB, if_neg (by omega), getD_eq8]
        · rw [if_neg hB, getD_eq8]
    · rw [if_neg hd0']
      by_cases hd1' : dir = 1
      · rw [if_pos hd1']
        have hstart : VesaFb.fbOffset c 0 (mul32 lines f.gh) = (c.offsetY + lines * f.gh) * c.pitch := by
          have hle : (c.offsetY + lines * f.gh) * c.pitch ≤ c.height * c.pitch := Nat.mul_le_mul_right _ (by omega)
          unfold VesaFb.fbOffset
          rw [hm, hz]; unfold add32 mul32
          have : (lines * f.gh + c.offsetY) % 4294967296 = c.offsetY + lines * f.gh := by omega
          rw [this]; omega
        have hsz32 : fb.size % 4294967296 = c.height * c.pitch := by omega
        rw [hstart, if_neg (by omega), hsz32, rows_count g7 (by omega)]
        have hRn : c.offsetY + lines * f.gh + (c.height - (c.offsetY + lines * f.gh)) = c.height := by omega
        have hcond : (c.offsetY + lines * f.gh + (c.height - (c.offsetY + lines * f.gh))) * c.pitch ≤ fb.size := by
          rw [hRn, hsize]; exact Nat.le_refl _
        have hoffR : lines * f.gh * c.pitch ≤ (c.offsetY + lines * f.gh) * c.pitch := Nat.mul_le_mul_right _ (by omega)
        obtain ⟨fb', k1, k2, k3⟩ := scrollRowsDown_spec (lines * f.gh * c.pitch) (c.width * c.bytesPerPixel) c.pitch hpitch hdp1 g7
          (c.height - (c.offsetY + lines * f.gh)) fb (c.offsetY + lines * f.gh) hcond hoffR (by omega)
        rw [hRn] at k1
        refine ⟨fb', k1, k2, fun i _ => ?_⟩
        rw [getD_eq8, k3]
        simp only [pixScroll, if_neg hd0', if_pos hd1']
        by_cases hA : (c.offsetY + lines * f.gh ≤ i / c.pitch ∧ i / c.pitch < c.offsetY + lines * f.gh + (c.height - (c.offsetY + lines * f.gh))) ∧
            i % c.pitch < c.width * c.bytesPerPixel
        · rw [if_pos hA, if_pos (by omega), if_pos (by omega), getD_eq8]
        · rw [if_neg hA]
          by_cases hB : 1 ≤ lines ∧ lines ≤ c.rows ∧ i % c.pitch < c.width * c.bytesPerPixel
          · rw [if_pos hB, if_neg (by omega), getD_eq8]
          · rw [if_neg hB, getD_eq8]
      · rw [if_neg hd1']
        refine ⟨fb, rfl, rfl, fun i _ => ?_⟩
        simp only [pixScroll, if_neg hd0', if_neg hd1']
        split <;> rfl


/-- **write_frame (pixel), outside the grid** — with no font selected, or for any 32-bit
coordinate outside the character grid, `Write` changes nothing and does not panic (needs no
domain hypothesis at all; the in-grid case is `pix_write_frame`). -/
theorem pix_write_outside (c : VesaFb.Cons) (fb : Array UInt8) (ch fg bg x y : Nat)
    (h : c.font = none ∨ x < 1 ∨ x > c.cols ∨ y < 1 ∨ y > c.rows) :
    VesaFb.write c fb ch fg bg x y = some fb ∧
    (∀ f, c.font = some f → ∀ i, pixWrite c f (view8 fb) ch fg bg x y i = view8 fb i) := by
  constructor
  · unfold VesaFb.write
    cases hf : c.font with
    | none => rfl
    | some f =>
      have : x < 1 ∨ x > c.cols ∨ y < 1 ∨ y > c.rows := by
        rcases h with h | h
        · rw [hf] at h; cases h
        · exact h
      simp only [if_pos this]
  · intro f hf i
    have : ¬ (1 ≤ x ∧ x ≤ c.cols ∧ 1 ≤ y ∧ y ≤ c.rows) := by
      rcases h with h | h
      · rw [hf] at h; cases h
      · omega
    simp only [pixWrite, if_neg this]


/-! ### writing a character -/

/-- domain of the font: rows of `⌈gw/8⌉` bytes, 256 glyphs of data (the shipped fonts satisfy it:
see the example on `Gen.C19.fonts` above) -/
structure FontOk (f : VesaFb.Font) : Prop where
  bpr : 8 * (f.bpr - 1) < f.gw ∧ f.gw ≤ 8 * f.bpr
  size : f.data.size = 256 * f.bpr * f.gh
  small : f.data.size < 4294967296

/-- non-vacuity: a 9-pixel-wide font with two bytes per row -/
example : FontOk { gw := 9, gh := 2, bpr := 2, data := Array.replicate 1024 0 } := by
  constructor <;> simp

/-- bytes stored per pixel by `write8/16/24` and `fill8/16/24` -/
private def nbytes (c : VesaFb.Cons) : Nat := if c.bpp = 8 then 1 else if c.bpp = 15 ∨ c.bpp = 16 then 2 else 3

private theorem pixelBytes_len {c : VesaFb.Cons} {f : VesaFb.Font} {fb : Array UInt8} (ok : PixOk c f fb)
    (idx : Nat) (hidx : idx < 256) :
    ∃ comp, VesaFb.pixelBytes c idx = some (some comp) ∧ colorBytes c idx = comp ∧
      comp.length = nbytes c ∧ nbytes c ≤ c.bytesPerPixel := by
  have hp : ∃ rgb, c.palette[idx]? = some rgb := by
    have : idx < c.palette.size := by rw [ok.pal]; exact hidx
    exact ⟨_, Array.getElem?_eq_getElem this⟩
  obtain ⟨rgb, hrgb⟩ := hp
  rcases bytes_cases ok with h | h | h | h | h
  all_goals
    obtain ⟨h1, h2⟩ := h
    simp [VesaFb.pixelBytes, colorBytes, VesaFb.packColor16, VesaFb.packColor24, nbytes, h1, h2, hrgb]

/-- painting a rectangle of whole cells, pixel `(px, py)` of it with the bytes `color px py` -/
private theorem pix_rect {c : VesaFb.Cons} {f : VesaFb.Font} {fb : Array UInt8} (ok : PixOk c f fb)
    (color : Nat → Nat → List UInt8) (len : Nat) (hlen : ∀ x y, (color x y).length = len) (hle : len ≤ c.bytesPerPixel)
    (cx cy w h : Nat) (rx : 1 ≤ cx ∧ cx - 1 + w ≤ c.cols) (ry : 1 ≤ cy ∧ cy - 1 + h ≤ c.rows) :
    VesaFb.fbOffset c (mul32 (sub32 cx 1) f.gw) (mul32 (sub32 cy 1) f.gh) =
      ((cy - 1) * f.gh + c.offsetY) * c.pitch + (cx - 1) * f.gw * c.bytesPerPixel ∧
    ∃ fb', rowsF color c.bytesPerPixel c.pitch (w * f.gw) (h * f.gh) fb
        (((cy - 1) * f.gh + c.offsetY) * c.pitch + (cx - 1) * f.gw * c.bytesPerPixel) 0 = some fb' ∧
      fb'.size = fb.size ∧
      ∀ i, i < fb.size → view8 fb' i =
        paint c (view8 fb) ((cx - 1) * f.gw) ((cx - 1 + w) * f.gw) (c.offsetY + (cy - 1) * f.gh)
          (c.offsetY + (cy - 1 + h) * f.gh) color i := by
  obtain ⟨g1, g2, g3, g4, g5, g6, g7, g8⟩ := geom ok
  have hsize := ok.size
  have hpitch := ok.pitch
  have hcc : c.cols ≤ c.cols * f.gw := Nat.le_mul_of_pos_right _ ok.gw1
  have hrr : c.rows ≤ c.rows * f.gh := Nat.le_mul_of_pos_right _ ok.gh1
  have hxw : (cx - 1 + w) * f.gw ≤ c.cols * f.gw := Nat.mul_le_mul_right _ rx.2
  have hyh : (cy - 1 + h) * f.gh ≤ c.rows * f.gh := Nat.mul_le_mul_right _ ry.2
  rw [Nat.add_mul] at hxw hyh
  have hpX : mul32 (sub32 cx 1) f.gw = (cx - 1) * f.gw := by
    have : sub32 cx 1 = cx - 1 := by unfold sub32; omega
    rw [this]; unfold mul32; omega
  have hpY : mul32 (sub32 cy 1) f.gh = (cy - 1) * f.gh := by
    have : sub32 cy 1 = cy - 1 := by unfold sub32; omega
    rw [this]; unfold mul32; omega
  rw [hpX, hpY]
  have hrowb : ((cx - 1) * f.gw + w * f.gw) * c.bytesPerPixel ≤ c.width * c.bytesPerPixel :=
    Nat.mul_le_mul_right _ (by omega)
  rw [Nat.add_mul] at hrowb
  have hR : ((cy - 1) * f.gh + c.offsetY + h * f.gh) * c.pitch ≤ c.height * c.pitch :=
    Nat.mul_le_mul_right _ (by omega)
  have hR0 : ((cy - 1) * f.gh + c.offsetY) * c.pitch ≤ ((cy - 1) * f.gh + c.offsetY + h * f.gh) * c.pitch :=
    Nat.mul_le_mul_right _ (by omega)
  have hoff : VesaFb.fbOffset c ((cx - 1) * f.gw) ((cy - 1) * f.gh) =
      ((cy - 1) * f.gh + c.offsetY) * c.pitch + (cx - 1) * f.gw * c.bytesPerPixel := by
    unfold VesaFb.fbOffset add32 mul32
    have e1 : ((cy - 1) * f.gh + c.offsetY) % 4294967296 = (cy - 1) * f.gh + c.offsetY := by omega
    rw [e1]
    have ha : ((cy - 1) * f.gh + c.offsetY) * c.pitch % 4294967296 = ((cy - 1) * f.gh + c.offsetY) * c.pitch := by omega
    have hb : (cx - 1) * f.gw * c.bytesPerPixel % 4294967296 = (cx - 1) * f.gw * c.bytesPerPixel := by omega
    rw [ha, hb]; omega
  refine ⟨hoff, ?_⟩
  obtain ⟨fb', k1, k2, k3⟩ := rowsF_spec color c.bytesPerPixel len c.pitch (w * f.gw)
    ((cx - 1) * f.gw * c.bytesPerPixel) hlen hle g3 (by omega) (h * f.gh) fb
    ((cy - 1) * f.gh + c.offsetY) 0 (by omega) (by omega)
  refine ⟨fb', k1, k2, fun i _ => ?_⟩
  rw [getD_eq8, k3, view8_eq]
  have hb := paint_bridge c fb len ((cx - 1) * f.gw) (w * f.gw) ((cy - 1) * f.gh + c.offsetY) (h * f.gh)
    color hlen g3 i
  rw [hb]
  have e1 : (cx - 1) * f.gw + w * f.gw = (cx - 1 + w) * f.gw := by rw [Nat.add_mul]
  have e2 : (cy - 1) * f.gh + c.offsetY = c.offsetY + (cy - 1) * f.gh := by omega
  have e3 : (cy - 1) * f.gh + c.offsetY + h * f.gh = c.offsetY + (cy - 1 + h) * f.gh := by rw [Nat.add_mul]; omega
  rw [e1, e3, e2]

/-- **write_frame (pixel)** — for every depth, font in the domain, character, colours and 32-bit
coordinates: inside the grid exactly the colour bytes of the `gw × gh` pixels of the addressed
cell change — pixels whose glyph bit is set to the packed foreground colour, the others to the
packed background colour; every other byte (other cells, left-over rows/columns, padding, logo
rows) keeps its value; outside the grid nothing changes; never a panic. -/
theorem pix_write_frame (c : VesaFb.Cons) (f : VesaFb.Font) (fb : Array UInt8) (ok : PixOk c f fb) (fok : FontOk f)
    (ch fg bg x y : Nat) (hch : ch < 256) (hfg : fg < 256) (hbg : bg < 256)
    (hx : x < 4294967296) (hy : y < 4294967296) :
    ∃ fb', VesaFb.write c fb ch fg bg x y = some fb' ∧ fb'.size = fb.size ∧
      ∀ i, i < fb.size → view8 fb' i = pixWrite c f (view8 fb) ch fg bg x y i := by
  by_cases hg : x < 1 ∨ x > c.cols ∨ y < 1 ∨ y > c.rows
  · obtain ⟨h1, h2⟩ := pix_write_outside c fb ch fg bg x y (Or.inr hg)
    exact ⟨fb, h1, rfl, fun i _ => (h2 f ok.font i).symm⟩
  · have hin : 1 ≤ x ∧ x ≤ c.cols ∧ 1 ≤ y ∧ y ≤ c.rows := by omega
    obtain ⟨fgC, hf1, hf2, hf3, hle⟩ := pixelBytes_len ok fg hfg
    obtain ⟨bgC, hb1, hb2, hb3, _⟩ := pixelBytes_len ok bg hbg
    obtain ⟨g1, g2, g3, g4, g5, g6, g7, g8⟩ := geom ok
    have hstep : (if c.bpp = 8 then 1 else c.bytesPerPixel) = c.bytesPerPixel := by
      rcases bytes_cases ok with h | h | h | h | h <;> simp [h.1, h.2]
    -- the glyph's data
    have hB : ch * f.bpr * f.gh + f.gh * f.bpr ≤ f.data.size := by
      rw [fok.size, Nat.mul_assoc, Nat.mul_assoc, Nat.mul_comm f.gh f.bpr]
      have := Nat.mul_le_mul_right (f.bpr * f.gh) (show ch + 1 ≤ 256 by omega)
      rw [Nat.add_mul, Nat.one_mul] at this
      exact this
    have hsm := fok.small
    have hgpos : 0 < f.gh := ok.gh1
    have hfo : mul32 (mul32 ch f.bpr) f.gh = ch * f.bpr * f.gh + 0 * f.bpr := by
      have h1 : ch * f.bpr ≤ ch * f.bpr * f.gh := Nat.le_mul_of_pos_right _ hgpos
      have e : mul32 ch f.bpr = ch * f.bpr := by unfold mul32; omega
      rw [e]; unfold mul32; omega
    obtain ⟨hoff, fb', k1, k2, k3⟩ := pix_rect ok (glyphColor2 f fgC bgC (ch * f.bpr * f.gh)) (nbytes c)
      (by intro px py; unfold glyphColor2 glyphColor; split <;> assumption) hle x y 1 1 (by omega) (by omega)
    refine ⟨fb', ?_, k2, fun i hi => ?_⟩
    · unfold VesaFb.write
      rw [ok.font]
      simp only [if_neg hg, hf1, hb1, hstep, hfo, hoff]
      rw [glyphRows_eq f fgC bgC c.bytesPerPixel c.pitch (ch * f.bpr * f.gh) hsm ok.gw1 (by have := fok.bpr; omega)
        f.gh fb _ 0 (by rw [Nat.zero_add]; exact hB)]
      rw [Nat.one_mul, Nat.one_mul] at k1
      exact k1
    · rw [k3 i hi]
      simp only [pixWrite, if_pos hin]
      have e1 : (x - 1 + 1) * f.gw = x * f.gw := by rw [Nat.sub_add_cancel hin.1]
      have e2 : (y - 1 + 1) * f.gh = y * f.gh := by rw [Nat.sub_add_cancel hin.2.2.1]
      rw [e1, e2]
      have hcol : glyphColor2 f fgC bgC (ch * f.bpr * f.gh) =
          fun px py => if glyphBit f ch px py = true then colorBytes c fg else colorBytes c bg := by
        funext px py
        simp only [glyphColor2, glyphColor, glyphBit, hf2, hb2, decide_eq_true_eq]
      rw [hcol]

/-- **no_oob (text)** — no text-console operation ever indexes outside the framebuffer, for any
32-bit arguments. -/
theorem text_no_oob (c : VgaText.Cons) (fb : Array UInt16) (ok : TextOk c fb)
    (a b x y w h dir : Nat) (hx : x < 4294967296) (hy : y < 4294967296) (hw : w < 4294967296) (hh : h < 4294967296) :
    VgaText.write c fb a b dir x y ≠ none ∧ VgaText.fill c fb x y w h a b ≠ none ∧ VgaText.scroll c fb dir w ≠ none := by
  obtain ⟨_, h1, _⟩ := text_write_frame c fb ok a b dir x y hx hy
  obtain ⟨_, h2, _⟩ := text_fill_clip c fb ok x y w h a b hx hy hw hh
  obtain ⟨_, h3, _⟩ := text_scroll_exact c fb ok dir w hw
  rw [h1, h2, h3]; simp

/-- **no_oob (pixel)** — `Write`, `Fill` and `Scroll` never index outside the framebuffer, for
any 32-bit arguments and any 8-bit character/colours. -/
theorem pix_no_oob (c : VesaFb.Cons) (f : VesaFb.Font) (fb : Array UInt8) (ok : PixOk c f fb) (fok : FontOk f)
    (ch x y w h fg bg dir : Nat) (hx : x < 4294967296) (hy : y < 4294967296) (hw : w < 4294967296) (hh : h < 4294967296)
    (hch : ch < 256) (hfg : fg < 256) (hbg : bg < 256) :
    VesaFb.write c fb ch fg bg x y ≠ none ∧ VesaFb.fill c fb x y w h fg bg ≠ none ∧ VesaFb.scroll c fb dir w ≠ none := by
  obtain ⟨_, h1, _⟩ := pix_write_frame c f fb ok fok ch fg bg x y hch hfg hbg hx hy
  obtain ⟨_, h2, _⟩ := pix_fill_clip c f fb ok x y w h fg bg hx hy hw hh hbg
  obtain ⟨_, h3, _⟩ := pix_scroll_exact c f fb ok dir w hw
  rw [h1, h2, h3]; simp

/-- **padding_untouched (pixel)** — after `Write`, `Fill` and `Scroll` (any arguments) every
padding byte (offset within its row ≥ `width*bytesPerPixel`) and every byte of the logo rows
(row < `offsetY`) holds its old value.  (Stated on the specifications, which the operations are
proved to compute: `pix_write_frame`, `pix_fill_clip`, `pix_scroll_exact`.) -/
theorem padding_untouched (c : VesaFb.Cons) (f : VesaFb.Font) (fb : Array UInt8) (ok : PixOk c f fb)
    (ch fg x y w h bg dir lines i : Nat)
    (hi : c.width * c.bytesPerPixel ≤ i % c.pitch ∨ i / c.pitch < c.offsetY) :
    pixWrite c f (view8 fb) ch fg bg x y i = view8 fb i ∧
    pixFill c f (view8 fb) x y w h bg i = view8 fb i ∧ pixScroll c f (view8 fb) dir lines i = view8 fb i := by
  obtain ⟨g1, g2, g3, g4, g5, g6, g7, g8⟩ := geom ok
  refine ⟨?_, ?_, ?_⟩
  · simp only [pixWrite]
    split
    · rename_i hin
      simp only [paint]
      have hx1 : x * f.gw ≤ c.cols * f.gw := Nat.mul_le_mul_right _ hin.2.1
      have hy0 : (y - 1) * f.gh ≤ y * f.gh := Nat.mul_le_mul_right _ (by omega)
      have hnot : ¬ (c.offsetY + (y - 1) * f.gh ≤ i / c.pitch ∧ i / c.pitch < c.offsetY + y * f.gh ∧
          (x - 1) * f.gw ≤ i % c.pitch / c.bytesPerPixel ∧ i % c.pitch / c.bytesPerPixel < x * f.gw) := by
        intro ⟨a1, a2, a3, a4⟩
        rcases hi with hi | hi
        · have : c.width ≤ i % c.pitch / c.bytesPerPixel := (Nat.le_div_iff_mul_le g3).2 hi
          omega
        · omega
      rw [if_neg hnot]
    · rfl
  · simp only [pixFill, paint, fillRect]
    have hx1 : min (clamp x c.cols - 1 + w) c.cols * f.gw ≤ c.cols * f.gw := Nat.mul_le_mul_right _ (by omega)
    have hnot : ¬ (c.offsetY + (clamp y c.rows - 1) * f.gh ≤ i / c.pitch ∧
        i / c.pitch < c.offsetY + min (clamp y c.rows - 1 + h) c.rows * f.gh ∧
        (clamp x c.cols - 1) * f.gw ≤ i % c.pitch / c.bytesPerPixel ∧
        i % c.pitch / c.bytesPerPixel < min (clamp x c.cols - 1 + w) c.cols * f.gw) := by
      intro ⟨a1, a2, a3, a4⟩
      rcases hi with hi | hi
      · have : c.width ≤ i % c.pitch / c.bytesPerPixel := (Nat.le_div_iff_mul_le g3).2 hi
        omega
      · omega
    rw [if_neg hnot]
  · simp only [pixScroll]
    rcases hi with hi | hi
    · rw [if_neg (by omega)]
    · split
      · split
        · rw [if_neg (by omega)]
        · split
          · rw [if_neg (by omega)]
          · rfl
      · rfl

/-- **fill_clip on an empty grid** — a console without cells (a font whose glyphs are wider or
taller than the text area gives `cols = 0` or `rows = 0`) ignores every `Fill`, for all arguments:
nothing changes, no panic.  (`Write` and `Scroll` on an empty grid are covered by
`pix_write_outside` and by the `lines > rows` case of the models.) -/
theorem fill_empty_grid (tc : VgaText.Cons) (tfb : Array UInt16) (pc : VesaFb.Cons) (pfb : Array UInt8)
    (x y w h fg bg : Nat) :
    (tc.width = 0 ∨ tc.height = 0 → VgaText.fill tc tfb x y w h fg bg = some tfb) ∧
    (pc.cols = 0 ∨ pc.rows = 0 → VesaFb.fill pc pfb x y w h fg bg = some pfb) := by
  constructor
  · intro h0; unfold VgaText.fill; rw [if_pos h0]
  · intro h0; unfold VesaFb.fill
    cases pc.font with
    | none => rfl
    | some f => simp only [if_pos h0]

/-! ## colour packing -/

/-- **pack_color (component)** — one colour component `v` of mask size `size` at bit `pos`, for
every 8-bit `size`/`pos`: when the field fits (`size ≤ 8`, `pos+size ≤ bits`) it is the top
`size` bits of `v` placed at `pos` (no truncation); a mask size above 8 makes `8-size` wrap to a
shift count ≥ 8 and the component contributes 0 — Go's shift semantics, reproduced by the model. -/
theorem pack_component (v size pos bits : Nat) (hv : v < 256) (hs : size < 256) :
    (size ≤ 8 → pos + size ≤ bits →
      VesaFb.component v size pos (2 ^ bits) = (v / 2 ^ (8 - size)) * 2 ^ pos ∧ v / 2 ^ (8 - size) < 2 ^ size) ∧
    (8 < size → VesaFb.component v size pos (2 ^ bits) = 0) := by
  unfold VesaFb.component
  constructor
  · intro h8 hb
    have hk : (8 + (256 - size % 256)) % 256 = 8 - size := by omega
    rw [hk, Nat.shiftRight_eq_div_pow, Nat.shiftLeft_eq]
    have hx : v / 2 ^ (8 - size) < 2 ^ size := by
      rw [Nat.div_lt_iff_lt_mul (Nat.pow_pos (by decide))]
      rw [← Nat.pow_add, show size + (8 - size) = 8 by omega]
      exact hv
    refine ⟨Nat.mod_eq_of_lt ?_, hx⟩
    calc v / 2 ^ (8 - size) * 2 ^ pos < 2 ^ size * 2 ^ pos := Nat.mul_lt_mul_of_pos_right hx (Nat.pow_pos (by decide))
      _ = 2 ^ (size + pos) := (Nat.pow_add _ _ _).symm
      _ ≤ 2 ^ bits := Nat.pow_le_pow_right (by decide) (by omega)
  · intro h8
    have hk : 8 ≤ (8 + (256 - size % 256)) % 256 := by omega
    have : v >>> ((8 + (256 - size % 256)) % 256) = 0 := by
      rw [Nat.shiftRight_eq_div_pow]
      apply Nat.div_eq_of_lt
      calc v < 2 ^ 8 := hv
        _ ≤ _ := Nat.pow_le_pow_right (by decide) hk
    rw [this]; simp

/-- **pack_color** — `packColor16/24` return the little-endian bytes of the OR of the three
components (16-bit resp. 32-bit intermediate), for every mask layout. -/
theorem pack_color (c : VesaFb.Cons) (idx : Nat) (rgb : UInt8 × UInt8 × UInt8) (h : c.palette[idx]? = some rgb) :
    VesaFb.packColor16 c idx = some [UInt8.ofNat (VesaFb.packed c rgb 65536), UInt8.ofNat (VesaFb.packed c rgb 65536 >>> 8)] ∧
    VesaFb.packColor24 c idx = some [UInt8.ofNat (VesaFb.packed c rgb 4294967296), UInt8.ofNat (VesaFb.packed c rgb 4294967296 >>> 8),
      UInt8.ofNat (VesaFb.packed c rgb 4294967296 >>> 16)] ∧
    ∀ m, VesaFb.packed c rgb m = VesaFb.component rgb.1.toNat c.rSize c.rPos m ||| VesaFb.component rgb.2.1.toNat c.gSize c.gPos m |||
      VesaFb.component rgb.2.2.toNat c.bSize c.bPos m := by
  simp [VesaFb.packColor16, VesaFb.packColor24, h, VesaFb.packed]

/-- non-vacuity: white in 5-6-5 is `0xFFFF`; a 12-bit red mask contributes nothing -/
example : VesaFb.packed { VesaFb.new 8 8 16 16 11 5 5 6 0 5 with } (255, 255, 255) 65536 = 65535 := by decide
example : VesaFb.component 255 12 0 65536 = 0 := by decide


/-! ## refinement of the abstract cell-grid console of C18 (`Spec/Term.lean`) -/
section Refines
open Firefly.Vt Firefly.Term Firefly.VtCons Firefly.ConsoleGrid

/-- a console call executed by the text-console model -/
def textApply (c : VgaText.Cons) (fb : Array UInt16) : Call → Option (Array UInt16)
  | .write ch fg bg x y => VgaText.write c fb ch.toNat fg.toNat bg.toNat x y
  | .scroll dir n => VgaText.scroll c fb dir n
  | .fill x y w h fg bg => VgaText.fill c fb x y w h fg.toNat bg.toNat

/-- a console call executed by the pixel-console model -/
def pixApply (c : VesaFb.Cons) (fb : Array UInt8) : Call → Option (Array UInt8)
  | .write ch fg bg x y => VesaFb.write c fb ch.toNat fg.toNat bg.toNat x y
  | .scroll dir n => VesaFb.scroll c fb dir n
  | .fill x y w h fg bg => VesaFb.fill c fb x y w h fg.toNat bg.toNat

/-- the text console shows colours of its palette only (others are replaced by the defaults) -/
def CallColors (n : Nat) : Call → Prop
  | .write _ fg bg _ _ => fg.toNat < n ∧ bg.toNat < n
  | _ => True

private theorem scrollUp_is_zero : Firefly.Gen.C17.scrollDirUp = 0 := by decide

/-- **refines_grid (text)** — if the text framebuffer displays the abstract console `k` (every
cell holds the character/attribute word of `k`'s cell), then for every call inside the grid
(`CallOk`; `Write` colours from the palette) the model does not panic, the new framebuffer
displays `k.apply call`, and no draw request fell outside the grid.  The conclusion re-establishes
the hypotheses, so the theorem chains over call logs (`text_refines_grid_log`). -/
theorem text_refines_grid (c : VgaText.Cons) (fb : Array UInt16) (ok : TextOk c fb) (hclear : c.clearChar = 32)
    (k : Console) (wf : WF k) (sh : TextShows c (view16 fb) k) (call : Call)
    (hok : CallOk k.w k.h call) (hcol : CallColors c.paletteLen call) :
    ∃ fb', textApply c fb call = some fb' ∧ TextOk c fb' ∧ TextShows c (view16 fb') (k.apply call) ∧
      WF (k.apply call) ∧ (k.apply call).outside = k.outside := by
  have hw := sh.1; have hh := sh.2.1
  have hW : c.width ≤ c.width * c.height := Nat.le_mul_of_pos_right _ ok.h1
  have hH : c.height ≤ c.width * c.height := Nat.le_mul_of_pos_left _ ok.w1
  have hsm := ok.small
  have keep : ∀ fb' : Array UInt16, fb'.size = fb.size → TextOk c fb' := fun fb' h =>
    ⟨ok.w1, ok.h1, ok.small, by rw [h, ok.size], ok.pal⟩
  cases call with
  | write ch fg bg x y =>
    simp only [CallOk] at hok
    simp only [CallColors] at hcol
    obtain ⟨fb', h1, h2, h3⟩ := text_write_frame c fb ok ch.toNat fg.toNat bg.toNat x y (by omega) (by omega)
    obtain ⟨s1, s2, s3⟩ := text_write_shows c (view16 fb) k wf sh ch fg bg x y hok (by have := ok.pal; omega)
    refine ⟨fb', h1, keep fb' h2, ?_, s2, s3⟩
    exact textShows_congr c _ _ _ (fun i hi => h3 i (by rw [ok.size]; exact hi)) s1
  | scroll dir n =>
    simp only [CallOk] at hok
    obtain ⟨hd, hn1, hn2⟩ := hok
    have hd0 : dir = 0 := hd.trans scrollUp_is_zero
    obtain ⟨fb', h1, h2, h3⟩ := text_scroll_exact c fb ok dir n (by omega)
    obtain ⟨s1, s2, s3⟩ := text_scroll_shows c (view16 fb) k wf sh n ⟨hn1, hn2⟩
    have ha : k.apply (.scroll dir n) = k.scrollUp n := by simp [Console.apply, hd]
    rw [ha]
    refine ⟨fb', h1, keep fb' h2, ?_, s2, s3⟩
    rw [hd0] at h3
    exact textShows_congr c _ _ _ (fun i hi => h3 i (by rw [ok.size]; exact hi)) s1
  | fill x y w h fg bg =>
    simp only [CallOk] at hok
    obtain ⟨fb', h1, h2, h3⟩ := text_fill_clip c fb ok x y w h fg.toNat bg.toNat (by omega) (by omega) (by omega) (by omega)
    obtain ⟨s1, s2, s3⟩ := text_fill_shows c (view16 fb) k wf sh x y w h fg bg hok hclear
    refine ⟨fb', h1, keep fb' h2, ?_, s2, s3⟩
    exact textShows_congr c _ _ _ (fun i hi => h3 i (by rw [ok.size]; exact hi)) s1

/-- **refines_grid (pixel)** — if the pixel framebuffer displays the abstract console `k` (every
cell shows its glyph in its packed colours), then for every call inside the grid the model does
not panic, the new framebuffer displays `k.apply call`, and no draw request fell outside the
grid.  Needs a blank space glyph (`SpaceBlank`: generated fact for the shipped fonts) so that a
`Fill` equals writing spaces, and — for `Scroll` only — a text area that is a whole number of
glyph rows (`hfit`); without it the last `lines` rows are not preserved, see
`pix_refines_grid_scroll_moved`. -/
theorem pix_refines_grid (c : VesaFb.Cons) (f : VesaFb.Font) (fb : Array UInt8) (ok : PixOk c f fb) (fok : FontOk f)
    (hsp : SpaceBlank f) (k : Console) (wf : WF k) (sh : PixShows c f (view8 fb) k) (call : Call)
    (hok : CallOk k.w k.h call)
    (hfit : ∀ dir n, call = .scroll dir n → c.offsetY + c.rows * f.gh = c.height) :
    ∃ fb', pixApply c fb call = some fb' ∧ PixOk c f fb' ∧ PixShows c f (view8 fb') (k.apply call) ∧
      WF (k.apply call) ∧ (k.apply call).outside = k.outside := by
  have hw := sh.1; have hh := sh.2.1
  obtain ⟨g1, g2, g3, g4, g5, g6, g7, g8⟩ := geom ok
  have g : Geo c f := ⟨ok.gw1, ok.gh1, g3, g1, g2⟩
  have hcc : c.cols ≤ c.cols * f.gw := Nat.le_mul_of_pos_right _ ok.gw1
  have hrr : c.rows ≤ c.rows * f.gh := Nat.le_mul_of_pos_right _ ok.gh1
  have keep : ∀ fb' : Array UInt8, fb'.size = fb.size → PixOk c f fb' := fun fb' h =>
    { ok with size := by rw [h, ok.size] }
  cases call with
  | write ch fg bg x y =>
    simp only [CallOk] at hok
    obtain ⟨fb', h1, h2, h3⟩ := pix_write_frame c f fb ok fok ch.toNat fg.toNat bg.toNat x y
      (UInt8.toNat_lt _) (UInt8.toNat_lt _) (UInt8.toNat_lt _) (by omega) (by omega)
    obtain ⟨s1, s2, s3⟩ := pix_write_shows c f (view8 fb) k wf sh ch fg bg x y hok
    refine ⟨fb', h1, keep fb' h2, ?_, s2, s3⟩
    exact pixShows_congr c f g g7 _ _ _ (fun i hi => h3 i (by rw [ok.size]; exact hi)) s1
  | scroll dir n =>
    simp only [CallOk] at hok
    obtain ⟨hd, hn1, hn2⟩ := hok
    have hd0 : dir = 0 := hd.trans scrollUp_is_zero
    obtain ⟨fb', h1, h2, h3⟩ := pix_scroll_exact c f fb ok dir n (by omega)
    obtain ⟨s1, s2, s3⟩ := pix_scroll_shows c f g g7 (hfit dir n rfl) (view8 fb) k wf sh n ⟨hn1, hn2⟩
    have ha : k.apply (.scroll dir n) = k.scrollUp n := by simp [Console.apply, hd]
    rw [ha]
    refine ⟨fb', h1, keep fb' h2, ?_, s2, s3⟩
    rw [hd0] at h3
    exact pixShows_congr c f g g7 _ _ _ (fun i hi => h3 i (by rw [ok.size]; exact hi)) s1
  | fill x y w h fg bg =>
    simp only [CallOk] at hok
    obtain ⟨fb', h1, h2, h3⟩ := pix_fill_clip c f fb ok x y w h fg.toNat bg.toNat (by omega) (by omega) (by omega) (by omega)
      (UInt8.toNat_lt _)
    obtain ⟨s1, s2, s3⟩ := pix_fill_shows c f g hsp (view8 fb) k wf sh x y w h fg bg hok
    refine ⟨fb', h1, keep fb' h2, ?_, s2, s3⟩
    exact pixShows_congr c f g g7 _ _ _ (fun i hi => h3 i (by rw [ok.size]; exact hi)) s1

/-- **refines_grid (pixel scroll, any geometry)** — when the text area is not a whole number of
glyph rows, `Scroll` up still makes every line that receives another line's contents display them;
only the last `lines` rows (which the caller repaints) are not claimed. -/
theorem pix_refines_grid_scroll_moved (c : VesaFb.Cons) (f : VesaFb.Font) (fb : Array UInt8) (ok : PixOk c f fb)
    (k : Console) (sh : PixShows c f (view8 fb) k) (n : Nat) (hn : 1 ≤ n ∧ n ≤ k.h) :
    ∃ fb', VesaFb.scroll c fb 0 n = some fb' ∧ PixOk c f fb' ∧
      ∀ r col, r + n < k.h → col < k.w → CellShows c f (view8 fb') (col + 1) (r + 1) (k.at (r + n) col) := by
  have hh := sh.2.1
  obtain ⟨g1, g2, g3, g4, g5, g6, g7, g8⟩ := geom ok
  have g : Geo c f := ⟨ok.gw1, ok.gh1, g3, g1, g2⟩
  have hrr : c.rows ≤ c.rows * f.gh := Nat.le_mul_of_pos_right _ ok.gh1
  obtain ⟨fb', h1, h2, h3⟩ := pix_scroll_exact c f fb ok 0 n (by omega)
  refine ⟨fb', h1, { ok with size := by rw [h2, ok.size] }, fun r col hr hc i hi b hb => ?_⟩
  have hlt : i < fb.size := by
    obtain ⟨a1, a2, a3, a4⟩ := hi
    have m : (r + 1) * f.gh ≤ c.rows * f.gh := Nat.mul_le_mul_right _ (by omega)
    rw [ok.size]
    exact (Nat.div_lt_iff_lt_mul g7).1 (by omega)
  rw [h3 i hlt]
  exact pix_scroll_shows_moved c f g g7 (view8 fb) k sh n hn r col hr hc i hi b hb

/-- non-vacuity: a blank 3×2 text screen displays the blank abstract console; the hypotheses of
`text_refines_grid` are satisfiable (and `CallOk` calls exist: `Write` at (1,1)) -/
example : TextShows { width := 3, height := 2 } (view16 (Array.replicate 6 (VgaText.cellWord 32 7 0)))
    (Console.new 3 2 ⟨32, 7, 0⟩) := by
  refine ⟨rfl, rfl, fun r col hr hc => ?_⟩
  have hr' : r < 2 := hr
  have hc' : col < 3 := hc
  have hi : r * 3 + col < 6 := by omega
  simp only [view16, Array.getD_eq_getD_getElem?, Array.getElem?_replicate, if_pos hi]
  rcases (by omega : r = 0 ∨ r = 1) with h | h <;> subst h <;>
    rcases (by omega : col = 0 ∨ col = 1 ∨ col = 2) with h | h | h <;> subst h <;> rfl
example : CallOk 3 2 (.write 65 7 0 1 1) ∧ CallColors 16 (.write 65 7 0 1 1) := by
  simp [CallOk, CallColors]

/-- non-vacuity: an all-zero 8-bpp framebuffer displays the console whose cells are blanks in
colour 0 on colour 0 -/
example : PixShows { bpp := 8, bytesPerPixel := 1, width := 16, height := 16, pitch := 16,
                     font := some { gw := 8, gh := 16, bpr := 1, data := Array.replicate 4096 0 }, cols := 2, rows := 1,
                     palette := Array.replicate 256 (0, 0, 0) }
    { gw := 8, gh := 16, bpr := 1, data := Array.replicate 4096 0 } (view8 (Array.replicate 256 0))
    (Console.new 2 1 ⟨32, 0, 0⟩) := by
  refine ⟨rfl, rfl, fun r col hr hc i _ b hb => ?_⟩
  have hr' : r < 1 := hr
  have hc' : col < 2 := hc
  have hcell : (Console.new 2 1 ⟨32, 0, 0⟩).at r col = ⟨32, 0, 0⟩ := by
    have h0 : r = 0 := by omega
    subst h0
    rcases (by omega : col = 0 ∨ col = 1) with h | h <;> subst h <;> rfl
  rw [hcell] at hb
  have hv : view8 (Array.replicate 256 (0 : UInt8)) i = 0 := by
    simp only [view8, Array.getD_eq_getD_getElem?, Array.getElem?_replicate]
    split <;> rfl
  rw [hv]
  simp only [cellByte, colorBytes, VesaFb.pixelBytes] at hb
  simp [Nat.mod_one] at hb
  first | exact hb | exact hb.symm

/-- non-vacuity of `SpaceBlank` (for the shipped fonts it is the generated fact in `Gen.C19.fonts`,
checked above: the harness inspects glyph 0x20 of the compiled font data) -/
example : SpaceBlank { gw := 8, gh := 16, bpr := 1, data := Array.replicate 4096 0 } := by
  intro px py _ _
  simp only [glyphBit, Array.getD_eq_getD_getElem?, Array.getElem?_replicate]
  split <;> simp

/-- a call log (newest first, as `VT.out` keeps it) executed by the models -/
def textRun (c : VgaText.Cons) (fb : Array UInt16) (log : List Call) : Option (Array UInt16) :=
  log.foldr (fun call acc => acc.bind fun fb => textApply c fb call) (some fb)
def pixRun (c : VesaFb.Cons) (fb : Array UInt8) (log : List Call) : Option (Array UInt8) :=
  log.foldr (fun call acc => acc.bind fun fb => pixApply c fb call) (some fb)

/-- **refines_grid (text, call logs)** — a whole log of in-grid calls: the text console ends up
displaying `k.applyLog log`, never panics, nothing drawn outside. -/
theorem text_refines_grid_log (c : VgaText.Cons) (hclear : c.clearChar = 32) (log : List Call) :
    ∀ (fb : Array UInt16) (k : Console), TextOk c fb → WF k → TextShows c (view16 fb) k →
      (∀ call ∈ log, CallOk k.w k.h call ∧ CallColors c.paletteLen call) →
      ∃ fb', textRun c fb log = some fb' ∧ TextOk c fb' ∧ TextShows c (view16 fb') (k.applyLog log) ∧
        WF (k.applyLog log) ∧ (k.applyLog log).outside = k.outside := by
  induction log with
  | nil => intro fb k ok wf sh _; exact ⟨fb, rfl, ok, sh, wf, rfl⟩
  | cons call rest ih =>
    intro fb k ok wf sh hall
    obtain ⟨fb1, r1, ok1, sh1, wf1, o1⟩ := ih fb k ok wf sh (fun c hc => hall c (List.mem_cons_of_mem _ hc))
    have hwh : (k.applyLog rest).w = k.w ∧ (k.applyLog rest).h = k.h :=
      ⟨sh1.1.trans sh.1.symm, sh1.2.1.trans sh.2.1.symm⟩
    have hc := hall call (List.mem_cons_self ..)
    obtain ⟨fb2, r2, ok2, sh2, wf2, o2⟩ := text_refines_grid c fb1 ok1 hclear (k.applyLog rest) wf1 sh1 call
      (by rw [hwh.1, hwh.2]; exact hc.1) hc.2
    refine ⟨fb2, ?_, ok2, sh2, wf2, o2.trans o1⟩
    simp only [textRun, List.foldr_cons] at r1 ⊢
    rw [r1]; exact r2

/-- **refines_grid (pixel, call logs)** — the same for the pixel console (text area a whole number
of glyph rows, blank space glyph). -/
theorem pix_refines_grid_log (c : VesaFb.Cons) (f : VesaFb.Font) (fok : FontOk f) (hsp : SpaceBlank f)
    (hfit : c.offsetY + c.rows * f.gh = c.height) (log : List Call) :
    ∀ (fb : Array UInt8) (k : Console), PixOk c f fb → WF k → PixShows c f (view8 fb) k →
      (∀ call ∈ log, CallOk k.w k.h call) →
      ∃ fb', pixRun c fb log = some fb' ∧ PixOk c f fb' ∧ PixShows c f (view8 fb') (k.applyLog log) ∧
        WF (k.applyLog log) ∧ (k.applyLog log).outside = k.outside := by
  induction log with
  | nil => intro fb k ok wf sh _; exact ⟨fb, rfl, ok, sh, wf, rfl⟩
  | cons call rest ih =>
    intro fb k ok wf sh hall
    obtain ⟨fb1, r1, ok1, sh1, wf1, o1⟩ := ih fb k ok wf sh (fun c hc => hall c (List.mem_cons_of_mem _ hc))
    have hwh : (k.applyLog rest).w = k.w ∧ (k.applyLog rest).h = k.h :=
      ⟨sh1.1.trans sh.1.symm, sh1.2.1.trans sh.2.1.symm⟩
    have hc := hall call (List.mem_cons_self ..)
    obtain ⟨fb2, r2, ok2, sh2, wf2, o2⟩ := pix_refines_grid c f fb1 ok1 fok hsp (k.applyLog rest) wf1 sh1 call
      (by rw [hwh.1, hwh.2]; exact hc) (fun _ _ _ => hfit)
    refine ⟨fb2, ?_, ok2, sh2, wf2, o2.trans o1⟩
    simp only [pixRun, List.foldr_cons] at r1 ⊢
    rw [r1]; exact r2

end Refines

end Firefly.C19
