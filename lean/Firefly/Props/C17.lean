import Firefly.Model.Vt
import Firefly.Spec.Term
import Firefly.Proof.Vt
/-!
# C17 — Terminal emulator state always matches the reference terminal model

Statement (properties.jsonl): for every byte stream written to a terminal attached to a console
of any size, the terminal's contents, scrollback and cursor equal those of a simple reference
terminal: carriage return moves to column one, line feed to the start of the next line, backspace
moves one column left and blanks that cell (nothing in column one), tab writes tab-width spaces,
and every other byte is stored at the cursor in the default colours and advances it, wrapping to
the next line after the last column.  A line feed on the last viewport line first moves the
viewport down through the scrollback and, once that is used up, scrolls the viewport's lines up
by one and blanks the last line; the cursor always stays inside the viewport and no write ever
touches memory outside the terminal's buffer.

Quantifier: every console geometry (including 1-column and 1-row consoles), scrollback length
(including 0), tab width (including 0), byte stream, and interleaving of writes with cursor moves
and state changes.

`Firefly.Vt` is the model of `vt.go` (checked slice accesses: an out-of-range index is `.panic`),
`Firefly.Term.Term` the reference terminal (`Spec/Term.lean`), `absVT` reads a `VT` state as a
reference terminal (cursor, viewport origin, and the data buffer cut into `h+sb` lines of `w`
cells).  The domain hypothesis `Dom` is the one of the property (at least one row and column)
plus the explicit "the buffer size fits in 32 bits".
-/
namespace Firefly.C17
open Firefly.Vt Firefly.Term Firefly.VtProof

/-- the theorems' domain: a console with at least one column and one row, and a buffer size
`w·(h+sb)·3` that does not overflow the `uint32` arithmetic of `AttachTo` -/
def Dom (w h sb : Nat) : Prop := 1 ≤ w ∧ 1 ≤ h ∧ w * (h + sb) * 3 < 4294967296

instance (w h sb : Nat) : Decidable (Dom w h sb) := by unfold Dom; infer_instance

/-- `NewVT(tab, sb)`, `AttachTo` a `w × h` console with default colours `fg/bg`, then any history of
bytes written, cursor moves and state changes -/
def history (w h sb tab : Nat) (fg bg : UInt8) (ops : List Op) : Res :=
  (attachTo (newVT tab sb) w h fg bg).bind (run · ops)

/-- **attach_blank** — attaching yields the empty reference terminal. -/
theorem attach_blank {w h sb : Nat} (tab : Nat) (fg bg : UInt8) (hd : Dom w h sb) :
    ∃ t, attachTo (newVT tab sb) w h fg bg = .ok t ∧ Inv t ∧ absVT t = Term.new w h sb tab fg bg := by
  obtain ⟨t, a, i, r, _⟩ := attach_spec tab fg bg hd.1 hd.2.1 hd.2.2
  exact ⟨t, a, i, r⟩

/-- **refines_step** — from any state satisfying the invariant `Inv` (`Proof/Vt.lean`: geometry,
cursor inside the viewport, `dataOffset` = the cursor's cell, lines below the viewport blank), one
operation does not panic, re-establishes the invariant, and commutes with the abstraction:
`absVT (step s op) = refStep (absVT s) op`. -/
theorem refines_step {t : VT} (i : Inv t) (op : Op) :
    ∃ t', step t op = .ok t' ∧ Inv t' ∧ absVT t' = (absVT t).step op :=
  step_spec i op

/-- **refines** — for every geometry in the domain, every scrollback, tab width, default colours
and every history: the terminal does not panic and its state, read as a reference terminal,
equals the reference terminal run on the same history. -/
theorem refines {w h sb : Nat} (tab : Nat) (fg bg : UInt8) (hd : Dom w h sb) (ops : List Op) :
    ∃ t, history w h sb tab fg bg ops = .ok t ∧ Inv t ∧
      absVT t = (Term.new w h sb tab fg bg).run ops := by
  obtain ⟨t0, a, i, r⟩ := attach_blank tab fg bg hd
  obtain ⟨t, a', i', r'⟩ := run_spec ops i
  exact ⟨t, by simp [history, a, Res.bind, a'], i', by rw [r', r]⟩

/-- **in_bounds** — no history makes the terminal index outside its buffer (the model's checked
accesses never yield `.panic`). -/
theorem in_bounds {w h sb : Nat} (tab : Nat) (fg bg : UInt8) (hd : Dom w h sb) (ops : List Op) :
    (history w h sb tab fg bg ops).isPanic = false := by
  obtain ⟨t, a, _, _⟩ := refines tab fg bg hd ops
  rw [a]; rfl

/-- **cursor_in_viewport** — after every history the cursor is inside the viewport and the
viewport inside the buffer. -/
theorem cursor_in_viewport {w h sb : Nat} (tab : Nat) (fg bg : UInt8) (hd : Dom w h sb) (ops : List Op)
    {t : VT} (ht : history w h sb tab fg bg ops = .ok t) :
    1 ≤ t.cursorX ∧ t.cursorX ≤ w ∧ 1 ≤ t.cursorY ∧ t.cursorY ≤ h ∧ t.viewportY + h ≤ h + sb := by
  obtain ⟨t', a, i, r⟩ := refines tab fg bg hd ops
  rw [a] at ht; cases ht
  have c := run_cfg ops (Term.new w h sb tab fg bg)
  rw [← r] at c
  have hw : t.viewportWidth = w := c.w
  have hh : t.viewportHeight = h := c.h
  have hs : t.scrollback = sb := c.sb
  have := i.cx1; have := i.cxw; have := i.cy1; have := i.cyh; have := i.vy
  omega

/-- **below_viewport_blank** — the lines below the viewport are blank in the default colours
after every history (this is what makes "move the viewport down" show a blank last line). -/
theorem below_viewport_blank {w h sb : Nat} (tab : Nat) (fg bg : UInt8) (hd : Dom w h sb) (ops : List Op)
    {t : VT} (ht : history w h sb tab fg bg ops = .ok t) :
    (absVT t).grid.drop (t.viewportY + h) =
      List.replicate (sb - t.viewportY) (List.replicate w ⟨32, fg, bg⟩) := by
  obtain ⟨t', a, i, r⟩ := refines tab fg bg hd ops
  rw [a] at ht; cases ht
  have c := run_cfg ops (Term.new w h sb tab fg bg)
  rw [← r] at c
  have hw : t.viewportWidth = w := c.w
  have hh : t.viewportHeight = h := c.h
  have hs : t.scrollback = sb := c.sb
  have hf : t.defaultFg = fg := c.fg
  have hb : t.defaultBg = bg := c.bg
  have := below_blank i.toGeo
  rw [hw, hh, hs, hf, hb] at this
  exact this

/-- **viewport_matches** — what the user sees (the viewport of the model state) is the viewport of
the reference terminal. -/
theorem viewport_matches {w h sb : Nat} (tab : Nat) (fg bg : UInt8) (hd : Dom w h sb) (ops : List Op)
    {t : VT} (ht : history w h sb tab fg bg ops = .ok t) :
    (absVT t).viewport = ((Term.new w h sb tab fg bg).run ops).viewport := by
  obtain ⟨t', a, _, r⟩ := refines tab fg bg hd ops
  rw [a] at ht; cases ht
  rw [r]

/-! ## Non-vacuity and witnesses for the hypotheses -/

example : Dom 80 25 Firefly.Gen.C17.defaultScrollback := by decide
example : Dom 1 1 0 := by decide
example : Dom 100 40 80 := by decide
example : ¬ Dom 65536 65536 0 := by decide

/-- a concrete history on the smallest console, executed by the kernel: write "ab", line feed -/
example : ∃ t, history 1 1 0 4 7 0 [.byte 97, .byte 98, .byte 10] = .ok t ∧ t.cursorX = 1 ∧ t.cursorY = 1 := by
  obtain ⟨t, a, _, _⟩ := refines (w := 1) (h := 1) (sb := 0) 4 7 0 (by decide) [.byte 97, .byte 98, .byte 10]
  have c := cursor_in_viewport (w := 1) (h := 1) (sb := 0) 4 7 0 (by decide) _ a
  exact ⟨t, a, by omega, by omega⟩

/-- the hypothesis `1 ≤ w` is needed: on a zero-column console the first character written indexes
an empty buffer -/
theorem zero_width_panics : (history 0 1 0 4 7 0 [.byte 97]).isPanic = true := by
  simp [history, attachTo, newVT, u32, blankData, Res.bind, run, step, writeByte, doWrite, emit,
    store3, store, Res.isPanic]

end Firefly.C17
