import Firefly.Model.Vt
import Firefly.Spec.Term
namespace Firefly.C17
end Firefly.C17
