import Firefly.Model.Multiboot
import Firefly.Spec.Multiboot
import Firefly.Proof.Multiboot
/-!
# C10 — Multiboot information is decoded exactly and never read past its end

Statement (properties.jsonl): for every well-formed multiboot2 information block, the kernel
reports exactly what the block encodes: the memory regions in order with their address, length
and type (types outside the defined set reported as reserved), the framebuffer description
including the RGB layout, the command line split into key=value and bare-flag entries, and each
non-empty kernel ELF section with its name, flags, address and size.  A tag that is absent
yields an empty result, the first tag of a type wins regardless of tag order, and no byte
outside the block (and the section-name string table it points to) is read.

Setting of every theorem: `tags` is any list of tags (any order, duplicates, unknown tags with
arbitrary payload, any sizes/padding), `m = mkMem base sbase stab tags` is the memory holding
`encode tags` at `base` and the string table `stab` at `sbase` and *nothing else* (any other
access makes the model return `fault`), and `wf base sbase stab tags` is the decidable
well-formedness predicate of `Spec/Multiboot.lean` (field widths, entry size ≥ 24, tag size
+ 7 < 2^31, known tag numbers only used by their own tag kind, the areas fit below 2^64 and do
not overlap).  The model functions are the ones the replay driver runs against the Go code.
-/
namespace Firefly.C10
open Firefly.Multiboot Firefly.MBSpec Firefly.MBProof

variable {base sbase : Nat} {stab : List UInt8} {tags : List Tag}

/-- **first_tag_wins** — the first tag of type `t` in the list is the one found, whatever
precedes or follows it (other tags, duplicates of the same type later on, any padding): the
scan returns its content size and a pointer at which the block holds exactly its contents. -/
theorem first_tag_wins (h : wf base sbase stab tags = true) {t : Nat} {x : Tag}
    (hx : firstOf t tags = some x) :
    ∃ p, findTag (mkMem base sbase stab tags) t = .ok (p, x.body.length) ∧
      (mkMem base sbase stab tags).rdBytes p x.body.length = some x.body := by
  obtain ⟨p, h1, h2, _⟩ := find_first h hx
  exact ⟨p, h1, h2.rdBytes⟩

/-- **first_tag_wins_order** — the same with the position spelled out: if no tag in `pre` has
`x`'s type, `x` is found at offset 8 (info header) + size of `pre` + 8 (tag header), for every
`post` (which may contain further tags of the same type). -/
theorem first_tag_wins_order (pre post : List Tag) (x : Tag) (hpre : ∀ y ∈ pre, y.typeNo ≠ x.typeNo)
    (h : wf base sbase stab (pre ++ x :: post) = true) :
    findTag (mkMem base sbase stab (pre ++ x :: post)) x.typeNo =
      .ok (base + 8 + (encTags pre).length + 8, x.body.length) := by
  rw [findTag_encode h, locate_split x.typeNo pre x post (base + 8) hpre rfl]

/-- **absent_is_empty** — a tag that is absent yields the empty result (and no fault). -/
theorem absent_is_empty (h : wf base sbase stab tags = true) :
    (∀ t, firstOf t tags = none → findTag (mkMem base sbase stab tags) t = .ok (0, 0)) ∧
    (firstOf 6 tags = none → ∀ stop, visitMemRegions (mkMem base sbase stab tags) stop =
        ([], .done, mkMem base sbase stab tags)) ∧
    (firstOf 8 tags = none → framebuffer (mkMem base sbase stab tags) = .ok none) ∧
    (firstOf 1 tags = none → bootCmdLine (mkMem base sbase stab tags) = .ok []) ∧
    (firstOf 9 tags = none → visitElfSections (mkMem base sbase stab tags) = ([], .done)) := by
  refine ⟨fun t ht => find_absent h ht, fun h6 stop => ?_, fun h8 => ?_, fun h1 => ?_, fun h9 => ?_⟩
  · have e : Firefly.Gen.C10.tagMemoryMap = 6 := rfl
    simp [visitMemRegions, e, find_absent h h6]
  · have e : Firefly.Gen.C10.tagFramebufferInfo = 8 := rfl
    simp [framebuffer, getFramebufferInfo, e, find_absent h h8]
  · have e : Firefly.Gen.C10.tagBootCmdLine = 1 := rfl
    simp [bootCmdLine, e, find_absent h h1]
  · have e : Firefly.Gen.C10.tagElfSymbols = 9 := rfl
    simp [visitElfSections, e, find_absent h h9]

/-- **roundtrip_memmap** — `VisitMemRegions` with a visitor that never stops reports exactly
the entries of the first memory-map tag, in order, with address and length unchanged and the
type normalised (`normType`: 1…4 kept, everything else — 0, 5 = memUnknown, 6, …, 2^32-1 —
reported as reserved = 2), for every entry size ≥ 24 and every entry count; nothing if there
is no memory map.  The walk ends normally (`done`: no fault, no fuel exhaustion). -/
theorem roundtrip_memmap (h : wf base sbase stab tags = true) :
    (visitMemRegions (mkMem base sbase stab tags) 0).1 = expRegions tags ∧
    (visitMemRegions (mkMem base sbase stab tags) 0).2.1 = .done := by
  have hv := visitMem_encode h 0
  have hexp : specMem tags 0 = (expRegions tags, Status.done) := by
    unfold expRegions specMem
    cases hf : firstOf 6 tags with
    | none => rfl
    | some x => cases x <;> simp [specVisit_zero, regionOf]
  rw [hexp] at hv
  exact ⟨congrArg Prod.fst hv, congrArg Prod.snd hv⟩

/-- **early_stop** — a visitor that returns false on its `k`-th call (1 ≤ k ≤ number of
entries) has seen exactly the first `k` regions and the walk stops there. -/
theorem early_stop (h : wf base sbase stab tags = true) (k : Nat) (hk : 1 ≤ k)
    (hn : k ≤ (expRegions tags).length) :
    (visitMemRegions (mkMem base sbase stab tags) k).1 = (expRegions tags).take k ∧
    (visitMemRegions (mkMem base sbase stab tags) k).2.1 = .stop := by
  have hv := visitMem_encode h k
  unfold specMem at hv
  unfold expRegions at hn ⊢
  cases hf : firstOf 6 tags with
  | none => rw [hf] at hn; simp at hn; omega
  | some x =>
    rw [hf] at hv hn
    cases x with
    | mmap esz ver ents =>
      simp only [List.length_map] at hn
      simp only [] at hv
      rw [specVisit_stop ents k hk hn] at hv
      refine ⟨?_, congrArg Prod.snd hv⟩
      rw [congrArg Prod.fst hv, List.map_take]; rfl
    | fb => simp at hn; omega
    | cmd => simp at hn; omega
    | elf => simp at hn; omega
    | other => simp at hn; omega

/-- **types_normalised** — whatever the visitor does, every region it is shown has a type in
the defined set 1…4 (in particular the raw type 5 = `memUnknown` never reaches it: D3). -/
theorem types_normalised (h : wf base sbase stab tags = true) (stop : Nat) :
    ∀ r ∈ (visitMemRegions (mkMem base sbase stab tags) stop).1, 1 ≤ r.ty ∧ r.ty ≤ 4 := by
  intro r hr
  have hv := congrArg Prod.fst (visitMem_encode h stop)
  simp only [] at hv
  rw [hv] at hr
  unfold specMem at hr
  have key : ∀ ents : List MemEntry, r ∈ (specVisit ents stop).1 → 1 ≤ r.ty ∧ r.ty ≤ 4 := by
    intro ents hm
    obtain ⟨e, _, he⟩ := specVisit_mem ents stop r hm
    subst he
    simp only [regionOf, normType]
    split <;> omega
  cases hf : firstOf 6 tags with
  | none => rw [hf] at hr; simp at hr
  | some x =>
    rw [hf] at hr
    cases x with
    | mmap esz ver ents => exact key ents hr
    | fb => simp at hr
    | cmd => simp at hr
    | elf => simp at hr
    | other => simp at hr

/-- **writes_confined** — the only thing `VisitMemRegions` changes in memory (it writes the
normalised type back through the entry pointer) is this: with `k` = number of regions shown to
the visitor, the memory afterwards is *exactly* the block `encode (normFirst k tags)` — the same
tag list in which the first `k` entries of the first memory map carry `normType` of their type
(`normEnts`: entries whose type is already in 1…4 are unchanged, the others hold
MemReserved = 2 in their 4 type bytes) — at the same place, and the string table is untouched.
So no byte other than the type fields of visited entries with a type outside 1…4 is written,
for every stop position; without a memory map nothing is written (`normFirst` is the identity). -/
theorem writes_confined (h : wf base sbase stab tags = true) (stop : Nat) :
    (visitMemRegions (mkMem base sbase stab tags) stop).2.2 =
      mkMem base sbase stab
        (normFirst (visitMemRegions (mkMem base sbase stab tags) stop).1.length tags) :=
  visitMem_mem h stop

/-- **roundtrip_framebuffer** — `GetFramebufferInfo` plus the field reads through the returned
pointer yield exactly the encoded address, pitch, width, height, bpp and type of the first
framebuffer tag, and the six RGB position/size bytes exactly when the type is RGB (1); `nil`
when there is no framebuffer tag.  No fault. -/
theorem roundtrip_framebuffer (h : wf base sbase stab tags = true) :
    ∃ r, framebuffer (mkMem base sbase stab tags) = .ok r ∧ r.map fbView = expFb tags :=
  framebuffer_encode h

/-- **roundtrip_elf** — `VisitElfSections` reports exactly the sections of the first ELF-symbols
tag whose size is not 0, in order, each with the NUL-terminated name found at its name index in
the string table the `shndx`-th section header points to, its flags (low 32 bits), address and
size; empty names, shared name suffixes and `size = 0` holes included; nothing when the tag is
absent.  The walk ends normally: every byte it reads lies in the block or in the string table. -/
theorem roundtrip_elf (h : wf base sbase stab tags = true) :
    visitElfSections (mkMem base sbase stab tags) = (expSections stab tags, .done) :=
  visitElf_encode h

/-- **roundtrip_cmdline** — `GetBootCmdLine` yields exactly the key/value map the words of the
first command-line tag denote (`k=v` ↦ k→v, a bare word `k` ↦ k→k, a word with two or more `=`
is dropped, later words override earlier ones; empty keys/values allowed), for any runs of
white space before, between and after the words.  White space is everything `strings.Fields`
splits on: the ASCII blanks 9–13 and 32 and the multi-byte runes U+0085, U+00A0, U+1680,
U+2000–U+200A, U+2028, U+2029, U+202F, U+205F, U+3000 (`spaceWidth`); words are arbitrary
non-NUL bytes — valid UTF-8 or not — that contain no such rune and no `=` inside a key/value
(`wf`: `spaceRun` for separators, `partOk` for parts).  No UTF-8 validity hypothesis is needed:
the model, like Go's decoder, works on bytes, and a white-space rune is recognised from its own
bytes wherever it stands (`spaceWidth_ctx`, `spaceWidth_mono`). -/
theorem roundtrip_cmdline (h : wf base sbase stab tags = true) :
    bootCmdLine (mkMem base sbase stab tags) = .ok (expCmd tags) := by
  rw [bootCmdLine_encode h, cmd_wf h]

/-- **reads_in_bounds** — on a well-formed block none of the five entry points ever touches a
byte outside the block and the string table: the model turns any such access into `fault`
(and a loop that would not terminate into `fuel`), and neither can be the outcome — for every
tag type searched, every visitor stop position, and every command-line text. The type write-back of `VisitMemRegions` goes through the same checked
access, so it too stays inside the block. -/
theorem reads_in_bounds (h : wf base sbase stab tags = true) :
    (∀ t, ∃ r, findTag (mkMem base sbase stab tags) t = .ok r) ∧
    (∀ stop, (visitMemRegions (mkMem base sbase stab tags) stop).2.1 = .done ∨
             (visitMemRegions (mkMem base sbase stab tags) stop).2.1 = .stop) ∧
    (∃ r, framebuffer (mkMem base sbase stab tags) = .ok r) ∧
    (∃ kv, bootCmdLine (mkMem base sbase stab tags) = .ok kv) ∧
    (visitElfSections (mkMem base sbase stab tags)).2 = .done := by
  refine ⟨fun t => ⟨_, findTag_encode h t⟩, fun stop => ?_, ?_, ⟨_, bootCmdLine_encode h⟩, ?_⟩
  · have hv := congrArg Prod.snd (visitMem_encode h stop)
    simp only [] at hv
    rw [hv]
    unfold specMem
    cases hf : firstOf 6 tags with
    | none => simp
    | some x => cases x <;> simp [specVisit_status]
  · obtain ⟨r, hr, _⟩ := framebuffer_encode h
    exact ⟨r, hr⟩
  · rw [visitElf_encode h]

/-! ### non-vacuity: a concrete well-formed block with reordered, duplicated, odd-sized tags -/

def sampleTags : List Tag :=
  [.other 21 [1, 2, 3], .fb 0xfd000000 4096 1024 768 32 1 0 [16, 8, 8, 8, 0, 8, 9],
   .mmap 28 0 [⟨0, 654336, 1⟩, ⟨0x9fc00, 1024, 5⟩, ⟨0x100000, 0xFFFFFFFFFFFFFFFF, 0xFFFFFFFF⟩],
   .mmap 24 0 [⟨0, 1, 1⟩], .other 0xFFFFFFFF []]

set_option maxRecDepth 16384 in
example : wf 0x1000 0x9000 [0] sampleTags = true := by decide
example : firstOf 6 sampleTags = some (.mmap 28 0 [⟨0, 654336, 1⟩, ⟨0x9fc00, 1024, 5⟩, ⟨0x100000, 0xFFFFFFFFFFFFFFFF, 0xFFFFFFFF⟩]) := by
  decide
example : expRegions sampleTags = [⟨0, 654336, 1⟩, ⟨0x9fc00, 1024, 2⟩, ⟨0x100000, 0xFFFFFFFFFFFFFFFF, 2⟩] := by decide
example : firstOf 1 sampleTags = none := by decide
example : normFirst 2 sampleTags =
    [.other 21 [1, 2, 3], .fb 0xfd000000 4096 1024 768 32 1 0 [16, 8, 8, 8, 0, 8, 9],
     .mmap 28 0 [⟨0, 654336, 1⟩, ⟨0x9fc00, 1024, 2⟩, ⟨0x100000, 0xFFFFFFFFFFFFFFFF, 0xFFFFFFFF⟩],
     .mmap 24 0 [⟨0, 1, 1⟩], .other 0xFFFFFFFF []] := by decide

/-- a block with a command line (runs of blanks, tabs and the multi-byte runes U+00A0, U+2003;
`a=b=c`, empty key, override, a word of invalid UTF-8 ending in a lone lead byte E2) and an ELF
table (empty name, shared suffix, a hole) — inside `wf` -/
def sampleTags2 : List Tag :=
  [.cmd [32, 9, 0xC2, 0xA0] [⟨[[0x61], [0x62]], [32, 0xE2, 0x80, 0x83, 9]⟩, ⟨[[0x61], [0x62], [0x63]], [10]⟩,
                 ⟨[[], [0x76]], [32]⟩, ⟨[[0xFF, 0xE2], [0x80, 0xE2]], [0xE3, 0x80, 0x80]⟩, ⟨[[0x61]], []⟩],
   .elf 64 1 [⟨0, 1, 6, 0x100000, 0, 0x2000, 0, 0, 16, 0⟩, ⟨1, 3, 0, 0x9000, 0, 7, 0, 0, 1, 0⟩,
              ⟨3, 1, 2, 5, 0, 0, 0, 0, 1, 0⟩, ⟨3, 8, 0xFFFFFFFF00000003, 7, 0, 9, 0, 0, 1, 0⟩] [0xAA]]

set_option maxRecDepth 16384 in
example : wf 0x1000 0x9000 [0, 0x2e, 0x74, 0x78, 0x74, 0, 0] sampleTags2 = true := by decide
example : expCmd sampleTags2 = [([], [0x76]), ([0x61], [0x61]), ([0xFF, 0xE2], [0x80, 0xE2])] := by decide
example : expSections [0, 0x2e, 0x74, 0x78, 0x74, 0, 0] sampleTags2 =
    [⟨[], 6, 0x100000, 0x2000⟩, ⟨[0x2e, 0x74, 0x78, 0x74], 0, 0x9000, 7⟩, ⟨[0x78, 0x74], 3, 7, 9⟩] := by decide

end Firefly.C10
