import Firefly.Model.Vmm
/-! C04 — page-table operations implement exactly the requested address translation. -/
namespace Firefly.C04
open Firefly.Vmm

/-- D13: `SetFrame` does not mask the frame: a frame number of 2^40 spills into bit 52 and the
hardware frame field reads 0.  Frame numbers < 2^40 are a hypothesis of the refinement theorems. -/
theorem setframe_needs_40_bits :
    frameOf (setFrame 0 (w (2 ^ 40))) = 0 ∧ setFrame 0 (w (2 ^ 40)) &&& ~~~physMask ≠ 0 := by decide

end Firefly.C04
